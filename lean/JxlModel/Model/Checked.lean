/-!
# Checked-arithmetic models of bookkeeping code (property C01)

`Outcome` mirrors a build with `overflow-checks` on: `u32`/`u64` additions, multiplications and
subtractions that leave the type's range are `panic site`; validation failures are `err`.
Each function names the Rust it transcribes. The source text of those Rust functions is pinned
(`Gen/C01Pins.lean`, regenerated on every run, must equal `Model/C01Pinned.lean`).
-/
namespace Jxl.Checked

inductive Outcome (α : Type) where
  | ok (a : α)
  | err
  | panic (site : String)
  deriving Repr, DecidableEq

def Outcome.bind {α β} (o : Outcome α) (f : α → Outcome β) : Outcome β :=
  match o with
  | .ok a => f a
  | .err => .err
  | .panic s => .panic s

instance : Monad Outcome where
  pure := .ok
  bind := Outcome.bind

def Outcome.isPanic {α} : Outcome α → Bool
  | .panic _ => true
  | _ => false

def u32Max : Nat := 2 ^ 32
def u64Max : Nat := 2 ^ 64

def addU32 (site : String) (a b : Nat) : Outcome Nat := if a + b < u32Max then .ok (a + b) else .panic site
def mulU32 (site : String) (a b : Nat) : Outcome Nat := if a * b < u32Max then .ok (a * b) else .panic site
def subU32 (site : String) (a b : Nat) : Outcome Nat := if b ≤ a then .ok (a - b) else .panic site
def addI32 (site : String) (a b : Int) : Outcome Int :=
  if -(2 : Int) ^ 31 ≤ a + b ∧ a + b < (2 : Int) ^ 31 then .ok (a + b) else .panic site

/-- the fields of a frame header that the bookkeeping below looks at -/
structure FH where
  width : Nat
  height : Nat
  upsampling : Nat
  lfLevel : Nat
  groupSizeShift : Nat
  numPasses : Nat
  /-- per extra channel: (ec_upsampling, dim_shift) -/
  ecs : List (Nat × Nat)
  deriving Repr

/-- the ranges the header *encoding* can express (`FrameHeader` bundle, `ExtraChannelInfo`) -/
def FH.Encodable (h : FH) : Prop :=
  h.width < u32Max ∧ h.height < u32Max ∧ (h.upsampling = 1 ∨ h.upsampling = 2 ∨ h.upsampling = 4 ∨ h.upsampling = 8) ∧
  h.lfLevel ≤ 4 ∧ h.groupSizeShift ≤ 3 ∧ 1 ≤ h.numPasses ∧ h.numPasses ≤ 11 ∧
  ∀ e ∈ h.ecs, (e.1 = 1 ∨ e.1 = 2 ∨ e.1 = 4 ∨ e.1 = 8) ∧ e.2 ≤ 8

def log2 (n : Nat) : Nat := Nat.log2 n

/-- extra-channel loop of `Frame::parse`: `ec_upsampling_shift + dim_shift` against the colour
upsampling shift, incl. the `u32` subtraction for `actual_dim_shift` -/
def ecCheck (gs cs : Nat) : List (Nat × Nat) → Outcome Unit
  | [] => .ok ()
  | (up, ds) :: rest =>
    if log2 up + ds < cs then .err
    else if log2 up + ds > 6 then .err
    else
      match subU32 "lib.rs:199 actual_dim_shift" (log2 up + ds) cs with
      | .ok a => if a > 7 + gs then .err else ecCheck gs cs rest
      | .err => .err
      | .panic s => .panic s

/-- `Frame::parse` validation (jxl-frame/src/lib.rs): width/height ≤ 2^30, area ≤ 2^40 (u64),
extra-channel upsampling checks, non-zero size -/
def frameValidate (h : FH) : Outcome Unit :=
  if h.width > 2 ^ 30 then .err
  else if h.height > 2 ^ 30 then .err
  else if h.width * h.height ≥ u64Max then .panic "lib.rs:134 width*height (u64)"
  else if h.width * h.height > 2 ^ 40 then .err
  else
    match ecCheck h.groupSizeShift (log2 h.upsampling) h.ecs with
    | .ok () => if h.width = 0 ∨ h.height = 0 then .err else .ok ()
    | o => o

/-- `FrameHeader::sample_width/height` (header.rs): `div_ceil(upsampling)`, then for LF frames
`(v + (1 << 3*lf) - 1) >> 3*lf` in `u32` -/
def sampleDim (v ups lf : Nat) : Outcome Nat :=
  let v := if ups > 1 then (v + ups - 1) / ups else v
  if lf > 0 then
    match addU32 "header.rs sample_dim add" v (2 ^ (3 * lf)) with
    | .ok s => .ok ((s - 1) / 2 ^ (3 * lf))
    | .err => .err
    | .panic s => .panic s
  else .ok v

def groupDim (h : FH) : Nat := 128 * 2 ^ h.groupSizeShift

/-- `FrameHeader::num_groups` (header.rs): `hgroups * vgroups` in `u32` -/
def numGroups (h : FH) : Outcome Nat := do
  let w ← sampleDim h.width h.upsampling h.lfLevel
  let hh ← sampleDim h.height h.upsampling h.lfLevel
  let gd := groupDim h
  mulU32 "header.rs num_groups" ((w + gd - 1) / gd) ((hh + gd - 1) / gd)

/-- `FrameHeader::num_lf_groups` -/
def numLfGroups (h : FH) : Outcome Nat := do
  let w ← sampleDim h.width h.upsampling h.lfLevel
  let hh ← sampleDim h.height h.upsampling h.lfLevel
  let gd := groupDim h * 8
  mulU32 "header.rs num_lf_groups" ((w + gd - 1) / gd) ((hh + gd - 1) / gd)

/-- `Toc::parse` entry count (toc.rs): `1 + num_lf_groups + 1 + num_groups * num_passes` in `u32` -/
def tocEntryCount (h : FH) : Outcome Nat := do
  let ng ← numGroups h
  if ng = 1 ∧ h.numPasses = 1 then pure 1
  else
    let nlf ← numLfGroups h
    let a ← mulU32 "toc.rs num_groups*num_passes" ng h.numPasses
    let b ← addU32 "toc.rs 1+num_lf_groups" 1 nlf
    let c ← addU32 "toc.rs +1" b 1
    addU32 "toc.rs entry_count" c a

/-- `LfGlobal::parse` prologue (lf_global.rs): `header.width as u64 * header.height as u64` -/
def lfGlobalArea (h : FH) : Outcome Nat :=
  if h.width * h.height < u64Max then .ok (h.width * h.height) else .panic "lf_global.rs:57"

/-- the same line before the repair: `(header.width * header.height) as u64` (u32 product) -/
def lfGlobalAreaOld (h : FH) : Outcome Nat := mulU32 "lf_global.rs:57" h.width h.height

/-- MA tree leaf (ma.rs `MaConfig::parse`): `mul_log > 30` and
`mul_bits > (1 << (31 - mul_log)) - 2` are rejected, then `multiplier = (mul_bits + 1) << mul_log`
(u32 shift: bits shifted out would be lost silently — the theorem shows none are) -/
def maMultiplier (mulLog mulBits : Nat) : Outcome Nat :=
  if mulLog > 30 then .err
  else
    match subU32 "ma.rs:150 (1 << (31-mul_log)) - 2" (2 ^ (31 - mulLog)) 2 with
    | .ok lim =>
      if mulBits > lim then .err
      else
        match addU32 "ma.rs:153 mul_bits+1" mulBits 1 with
        | .ok m => .ok (m * 2 ^ mulLog)
        | .err => .err
        | .panic s => .panic s
    | .err => .err
    | .panic s => .panic s

/-- `IntegerConfig::parse` validation + `read_uint_prefilled` bit count (jxl-coding/src/lib.rs):
`split_exponent - (msb + lsb)` is a `u32` subtraction -/
def uintExtraBits (splitExp msb lsb token : Nat) : Outcome Nat :=
  if msb > splitExp then .err
  else if lsb + msb > splitExp then .err
  else if token < 2 ^ splitExp then .ok 0
  else
    match subU32 "lib.rs read_uint_prefilled" splitExp (msb + lsb) with
    | .ok d => .ok ((d + ((token - 2 ^ splitExp) / 2 ^ (msb + lsb))) % 32)
    | .err => .err
    | .panic s => .panic s

/-- root of `try_compile_to_table` before the repair: `(value + 1)..=i32::MAX` in `i32` -/
def compileRootOld (value : Int) : Outcome Int := addI32 "ma.rs:514" value 1

end Jxl.Checked
