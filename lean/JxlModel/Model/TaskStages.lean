import JxlModel.Model.Subgrid
import JxlModel.Model.Tasks
/-!
# The job lists of the parallel stages, as functions of geometry

Every parallel stage of the renderer builds its job list from sub-grid geometry with the
operations of `Model/Subgrid.lean`. The thread pool is in scope at each of these sites (it is the
object the list is handed to); it is an explicit — and unused — argument `_pool` here, so that
"the job list does not depend on the pool" is a statement about these definitions.
The transcription is pinned against the source text by `tools/props/c07.py` (the argument
expressions of the `into_groups` / `split_vertical_in_place` / `chunks_mut` calls, and that no
`is_multithreaded` / `current_num_threads` occurs in the files that build job lists).
-/
namespace Jxl.Tasks
open Jxl.Subgrid

/-- `rct.rs run_rows_unsafe`: `g.borrow_mut().into_groups(width, 16)` (per channel; nothing is
spawned for an empty grid). The jobs are then popped from the back, so the *list order* is
reversed — irrelevant for a confluent job list, and kept here. -/
def rctBands (_pool : Pool) (g : SubGrid) : Outcome (List SubGrid) :=
  if g.w = 0 ∨ g.h = 0 then .ok []
  else
    match borrowMut g with
    | .panic s => .panic s
    | .ok b =>
      match intoGroups .checked b g.w 16 with
      | .panic s => .panic s
      | .ok gs => .ok gs.reverse

/-- `transform.rs SqueezeParams::inverse`, horizontal step: after the merge,
`if height > 16 { i0.split_vertical(0).1.into_groups(width, 16) } else { one job: i0 }` -/
def squeezeHBands (_pool : Pool) (g : SubGrid) : Outcome (List SubGrid) :=
  if g.h > 16 then
    match splitV g 0 with
    | .panic s => .panic s
    | .ok (_, remaining) => intoGroups .checked remaining g.w 16
  else .ok [g]

/-- vertical step: `if width > 16 { i0.split_horizontal(0).1.into_groups(16, height) }` -/
def squeezeVStrips (_pool : Pool) (g : SubGrid) : Outcome (List SubGrid) :=
  if g.w > 16 then
    match splitH g 0 with
    | .panic s => .panic s
    | .ok (_, remaining) => intoGroups .checked remaining 16 g.h
  else .ok [g]

/-- group grids: `out.as_subgrid_mut().into_groups(group_dim, group_dim)` (`init_noise`), the
colour groups of `color_groups_with_group_id`, the pass-group sub-images of `prepare_groups` -/
def groupGrid (_pool : Pool) (g : SubGrid) (groupDim : Nat) : Outcome (List SubGrid) :=
  intoGroups .checked g groupDim groupDim

/-- `filter/epf.rs run_epf_rows`: `for dy in (0..height).step_by(8)` with
`split_vertical_in_place((height - dy).min(8))` — 8-row output bands.
`fuel` ≥ number of bands. -/
def epfBands (_pool : Pool) : Nat → SubGrid → Outcome (List SubGrid)
  | 0, _ => .ok []
  | fuel + 1, g =>
    if g.h = 0 then .ok []
    else
      match splitVInPlace g (min g.h 8) with
      | .panic s => .panic s
      | .ok (band, next) =>
        match epfBands _pool fuel next with
        | .panic s => .panic s
        | .ok rest => .ok (band :: rest)

/-- `filter/gabor.rs run_gabor_rows_unsafe`: the inner rows `1 .. height-1` of the output buffer in
`chunks_mut(width * 8)`: `(first output row, number of rows)` per job -/
def gaborChunks (_pool : Pool) (height : Nat) : List (Nat × Nat) :=
  if height < 2 then []
  else (List.range ((height - 2 + 7) / 8)).map fun k => (1 + 8 * k, min 8 (height - 2 - 8 * k))

/-- `jxl-color convert.rs run_with_threads`: `ch.chunks_mut(65536)` per channel:
`(first sample, number of samples)` per job -/
def colourChunks (_pool : Pool) (len : Nat) : List (Nat × Nat) :=
  (List.range ((len + 65535) / 65536)).map fun k => (65536 * k, min 65536 (len - 65536 * k))

/-- the `k`-th 16-row band of a grid, written out (`base` = the `split_base` it carries) -/
def band16 (g : SubGrid) (base : Nat) (k : Nat) : SubGrid :=
  ⟨g.off + (min (k * 16) g.h) * g.stride, g.w, min (g.h - min (k * 16) g.h) 16, g.stride,
    some base⟩

/-- a job that works in place on the cells of one sub-grid, one atomic step per row
(`for y in 0..height { f(row) }` of the RCT / squeeze jobs): `rowf` maps the old row contents
(restricted store) to the new value of each cell of that row -/
def inPlaceRowTask {V : Type} (rowf : Store V → Cell → V) (g : SubGrid) : Task V :=
  ⟨(List.range g.h).map fun y =>
    let row := (List.range g.w).map fun x => index g x y
    { reads := row, writes := row, f := rowf }⟩

end Jxl.Tasks
