/-!
# Bit strings

JPEG XL packs bits LSB-first inside bytes. The abstract view of a stream is a `List Bool`;
`toBits n v` are the `n` low bits of `v`, least significant first.
This file is import-free (it links into the `jxlmodel` executable).
-/
namespace Jxl

abbrev Bits := List Bool

/-- little-endian bits of `v`, `n` of them -/
def toBits : Nat → Nat → Bits
  | 0, _ => []
  | n+1, v => (v % 2 == 1) :: toBits n (v / 2)

def ofBits : Bits → Nat
  | [] => 0
  | b :: bs => (if b then 1 else 0) + 2 * ofBits bs

/-- `read_bits(n)` of the abstract reader: `none` = not enough bits (EOF). -/
def readBits (n : Nat) (s : Bits) : Option (Nat × Bits) :=
  if n ≤ s.length then some (ofBits (s.take n), s.drop n) else none

def readBool (s : Bits) : Option (Bool × Bits) :=
  match s with
  | [] => none
  | b :: r => some (b, r)

/-- bytes → bits, LSB first -/
def bytesToBits (bs : List Nat) : Bits := bs.flatMap (toBits 8)

/-- bits → bytes, zero padded to a whole byte -/
def bitsToBytes (s : Bits) : List Nat :=
  if h : s.length = 0 then [] else ofBits (s.take 8) :: bitsToBytes (s.drop 8)
termination_by s.length
decreasing_by simp [List.length_drop]; omega

/-- zero padding needed to reach a byte boundary after `consumed` bits -/
def padLen (consumed : Nat) : Nat := (8 - consumed % 8) % 8

/-! ## hex helpers for the line protocol -/

def hexDigit (n : Nat) : Char :=
  if n < 10 then Char.ofNat (48 + n) else Char.ofNat (87 + n)

def hexOfBytes (bs : List Nat) : String :=
  String.ofList (bs.flatMap fun b => [hexDigit (b / 16 % 16), hexDigit (b % 16)])

def hexVal (c : Char) : Option Nat :=
  if '0' ≤ c ∧ c ≤ '9' then some (c.toNat - 48)
  else if 'a' ≤ c ∧ c ≤ 'f' then some (c.toNat - 87)
  else if 'A' ≤ c ∧ c ≤ 'F' then some (c.toNat - 55)
  else none

def bytesOfHexChars : List Char → Option (List Nat)
  | [] => some []
  | [_] => none
  | a :: b :: r => do
    let x ← hexVal a
    let y ← hexVal b
    let t ← bytesOfHexChars r
    pure ((x * 16 + y) :: t)

/-- "-" denotes the empty byte string -/
def bytesOfHex (s : String) : Option (List Nat) :=
  if s == "-" then some [] else bytesOfHexChars s.toList

def hexOrDash (bs : List Nat) : String := if bs.isEmpty then "-" else hexOfBytes bs

end Jxl
