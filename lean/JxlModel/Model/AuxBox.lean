import JxlModel.Model.Container
/-!
# Auxiliary box list (C10, the layer above the container parser)

Mirrors `crates/jxl-oxide/src/aux_box.rs` (`AuxBoxReader`, `AuxBoxList`), `aux_box/exif.rs`
(`RawExif::new`) and the way `crates/jxl-oxide/src/lib.rs` drives them
(`UninitializedJxlImage::feed_bytes`, `JxlImage::feed_bytes`, `JxlImage::finalize`,
`JxlImageBuilder::read`), as a state machine over the `Event` type of `Model/Container.lean`.

* `Reader`, `Finished`        = `AuxBoxReader` with `done == false` / `done == true`
* `ensureRaw/ensureBrotli`    = `AuxBoxReader::ensure_raw / ensure_brotli`
* `feedData`                  = `AuxBoxReader::feed_data`
* `finalizeReader`            = `AuxBoxReader::finalize`
* `St`                        = `AuxBoxList`
* `handleEvent/finalize/eof`  = `AuxBoxList::handle_event / finalize / eof`
* `firstOfType/firstExif/firstXml/jbrdStatus`
                              = `AuxBoxList::first_of_type / first_exif / first_xml / jbrd`
* `rawExif`                   = `RawExif::new`
* `Sess.push`                 = one `feed_bytes(leftover ++ chunk)` call of the streaming caller
                                (`UninitializedJxlImage` and `JxlImage` route the events the same
                                way: `Codestream` to the decoder, everything else to the list)
* `Sess.finalize`             = `JxlImage::finalize`
* `read`                      = the two loops of `JxlImageBuilder::read` (4096-byte buffer) + `finalize`

## Parameters (trusted base)
Brotli and JPEG-reconstruction data are **parameters** of the model (`Codec`):

* `decompress z = some out` iff `brotli_decompressor::DecompressorWriter` accepts exactly the
  compressed stream `z` (all `write_all` calls, `flush` and `close` succeed, in whatever pieces `z`
  arrives) and has written `out` by then.  The model raises a Brotli error when the box is
  finalised; the real decoder may raise it earlier (in `feed_data`, on the chunk in which the stream
  turns invalid).  Both stop the session with an error and deliver nothing for that box.
* `jbrdOk z` iff `Jbrd::feed_bytes` of the bytes `z` (all `jbrd` boxes so far) followed by
  `Jbrd::finalize` succeeds.  What the data means is property C17's.

The codestream side of `feed_bytes` (frame parsing) is C09's model; a session here assumes the
codestream does not make `feed_bytes` fail.

`storedBrotli` is the instance of `decompress` used by the correspondence driver: a decoder of the
*stored* subset of Brotli (uncompressed meta-blocks only) that the campaign's generator writes.
-/
namespace Jxl.AuxBox
open Jxl.Container

/-- `b"Exif"` (`ContainerBoxType::EXIF`) -/
def tyExif : Bytes := [0x45, 0x78, 0x69, 0x66]
/-- `b"xml "` (`ContainerBoxType::XML`) -/
def tyXml : Bytes := [0x78, 0x6d, 0x6c, 0x20]

/-- The two external decoders (see the header of this file). -/
structure Codec where
  decompress : Bytes → Option Bytes
  jbrdOk : Bytes → Bool

/-- errors of `handle_event` / `eof` -/
inductive AErr
  /-- `std::io::Error` from the Brotli writer (`write_all`, `flush`, `close`) -/
  | brotli
  /-- `jxl_jbr::Error` from `Jbrd::feed_bytes` / `Jbrd::finalize` -/
  | jbrd
  /-- `panic!()` in `ensure_raw` / `ensure_brotli` (reader already holds data of the other kind) -/
  | panic
deriving DecidableEq, Repr

/-- `AuxBoxReader { data, done: false }`.  (`DataKind::NoData` only exists with `done == true`.) -/
inductive Reader
  | init
  | raw (buf : Bytes)
  /-- `DataKind::Brotli(writer)`: the compressed bytes written so far -/
  | brotli (compressed : Bytes)
deriving DecidableEq, Repr

/-- `AuxBoxReader { data, done: true }` -/
inductive Finished
  | noData
  | raw (buf : Bytes)
deriving DecidableEq, Repr

/-- `AuxBoxData<T>` -/
inductive Answer (α : Type)
  | data (x : α)
  | decoding
  | notFound
deriving DecidableEq, Repr

/-- `AuxBoxReader::data` of a finished reader -/
def Finished.data : Finished → Answer Bytes
  | .noData => .notFound
  | .raw b => .data b

/-- `AuxBoxReader::ensure_raw` (`done == false`) -/
def ensureRaw : Reader → Except AErr Reader
  | .init => .ok (.raw [])
  | .raw b => .ok (.raw b)
  | .brotli _ => .error .panic

/-- `AuxBoxReader::ensure_brotli` (`done == false`) -/
def ensureBrotli : Reader → Except AErr Reader
  | .init => .ok (.brotli [])
  | .brotli z => .ok (.brotli z)
  | .raw _ => .error .panic

/-- `AuxBoxReader::feed_data` (`done == false`; the Brotli error is deferred to `finalizeReader`) -/
def feedData : Reader → Bytes → Reader
  | .init, d => .raw d
  | .raw b, d => .raw (b ++ d)
  | .brotli z, d => .brotli (z ++ d)

/-- `AuxBoxReader::finalize` -/
def finalizeReader (c : Codec) : Reader → Except AErr Finished
  | .init => .ok .noData
  | .raw b => .ok (.raw b)
  | .brotli z =>
    match c.decompress z with
    | some out => .ok (.raw out)
    | none => .error .brotli

/-- `AuxBoxList`.  `jbrd` = every byte fed to `Jbrd` so far. -/
structure St where
  boxes : List (Bytes × Finished)
  jbrd : Bytes
  jbrdDone : Bool
  curTy : Option Bytes
  cur : Reader
  lastBox : Bool
deriving DecidableEq, Repr

/-- `AuxBoxList::new()` -/
def St.init : St := ⟨[], [], false, none, .init, false⟩

/-- `AuxBoxList::finalize` -/
def finalize (c : Codec) (s : St) : Except AErr St :=
  match s.curTy with
  | none => .ok s
  | some ty =>
    if ty = tyJbrd then
      if c.jbrdOk s.jbrd then .ok { s with jbrdDone := true, curTy := none } else .error .jbrd
    else
      match finalizeReader c s.cur with
      | .error e => .error e
      | .ok f => .ok { s with boxes := s.boxes ++ [(ty, f)], cur := .init, curTy := none }

/-- `AuxBoxList::handle_event` -/
def handleEvent (c : Codec) (s : St) : Event → Except AErr St
  | .kind _ => .ok s
  | .codestream _ => .ok s
  | .noMoreAux => .ok { s with curTy := none, lastBox := true }
  | .auxStart ty brotli last =>
    if ty = tyJbrd then .ok { s with curTy := some ty, lastBox := last }
    else
      -- the reader of a box that was never finished is dropped (`current_box = AuxBoxReader::new()`)
      match (if brotli then ensureBrotli .init else ensureRaw .init) with
      | .error e => .error e
      | .ok r => .ok { s with curTy := some ty, cur := r, lastBox := last }
  | .auxData ty d =>
    if ty = tyJbrd then .ok { s with curTy := some ty, jbrd := s.jbrd ++ d }
    else .ok { s with curTy := some ty, cur := feedData s.cur d }
  | .auxEnd ty => finalize c { s with curTy := some ty }

/-- `AuxBoxList::eof` -/
def eof (c : Codec) (s : St) : Except AErr St :=
  match finalize c s with
  | .error e => .error e
  | .ok s' => .ok { s' with lastBox := true }

/-- the `for event in ...` loop body of `feed_bytes` restricted to the list: stops at the first
error (`?`) -/
def runEvents (c : Codec) : St → List Event → Except AErr St
  | s, [] => .ok s
  | s, e :: r =>
    match handleEvent c s e with
    | .error x => .error x
    | .ok s' => runEvents c s' r

/-- `AuxBoxList::first_of_type` -/
def firstOfType (s : St) (ty : Bytes) : Answer Bytes :=
  match s.boxes.find? (fun p => p.1 == ty) with
  | some p => p.2.data
  | none => if s.lastBox && s.curTy != some ty then .notFound else .decoding

/-- `RawExif::new`: `(tiff_header_offset, payload)`, `none` = `Err(ValidationFailed)` -/
def rawExif (box : Bytes) : Option (Nat × Bytes) :=
  if box.length < 4 then none
  else if beNat (box.take 4) ≥ (box.drop 4).length then none
  else some (beNat (box.take 4), box.drop 4)

/-- `AuxBoxList::first_exif`: `none` = `Err(_)` -/
def firstExif (s : St) : Option (Answer (Nat × Bytes)) :=
  match firstOfType s tyExif with
  | .data b => (rawExif b).map .data
  | .decoding => some .decoding
  | .notFound => some .notFound

/-- `AuxBoxList::first_xml` -/
def firstXml (s : St) : Answer Bytes := firstOfType s tyXml

/-- `AuxBoxList::jbrd` with the data abstracted to `()` -/
def jbrdStatus (s : St) : Answer Unit :=
  if s.jbrdDone then .data ()
  else if s.lastBox && s.curTy != some tyJbrd then .notFound
  else .decoding

/-! ## Sessions: the feeding API of `JxlImage` as far as the list is concerned -/

/-- error of a `feed_bytes` / `finalize` call -/
inductive SErr
  | container (e : Err)
  | aux (e : AErr)
deriving DecidableEq, Repr

/-- container parser, bytes the caller has to offer again, the list -/
structure Sess where
  p : PState
  pending : Bytes
  a : St
deriving DecidableEq, Repr

/-- `JxlImage::builder().build_uninit()` -/
def Sess.init : Sess := ⟨Container.init, [], St.init⟩

/-- One `feed_bytes(leftover ++ chunk)` call: the events reach the list in order until the list
or the parser fails. -/
def Sess.push (c : Codec) (s : Sess) (chunk : Bytes) : Except SErr Sess :=
  match runEvents c s.a (feed s.p (s.pending ++ chunk)).events with
  | .error e => .error (.aux e)
  | .ok a =>
    match (feed s.p (s.pending ++ chunk)).error with
    | some e => .error (.container e)
    | none => .ok ⟨(feed s.p (s.pending ++ chunk)).state, (feed s.p (s.pending ++ chunk)).rest, a⟩

/-- a caller that stops at the first error -/
def Sess.pushAll (c : Codec) : Sess → List Bytes → Except SErr Sess
  | s, [] => .ok s
  | s, ch :: r =>
    match s.push c ch with
    | .error e => .error e
    | .ok s' => Sess.pushAll c s' r

/-- `JxlImage::finalize` -/
def Sess.finalize (c : Codec) (s : Sess) : Except SErr Sess :=
  match eof c s.a with
  | .error e => .error (.aux e)
  | .ok a => .ok { s with a := a }

/-- feed all chunks, then `finalize()` -/
def Sess.run (c : Codec) (chunks : List Bytes) : Except SErr Sess :=
  match Sess.init.pushAll c chunks with
  | .error e => .error e
  | .ok s => s.finalize c

/-- The refill loops of `JxlImageBuilder::read` on a reader that always fills the buffer as far
as it can (`Cursor`, `File`): `buf` has 4096 bytes, `buf_valid = pending.length`; `count == 0`
ends the loop.  (That the image initialises before the reader ends is C09's part.) -/
def readLoop (c : Codec) : Nat → Sess → Bytes → Except SErr Sess
  | 0, s, _ => .ok s
  | f + 1, s, file =>
    if min (4096 - s.pending.length) file.length = 0 then .ok s
    else
      match s.push c (file.take (min (4096 - s.pending.length) file.length)) with
      | .error e => .error e
      | .ok s' => readLoop c f s' (file.drop (min (4096 - s.pending.length) file.length))

/-- `JxlImage::builder().read(file)` -/
def read (c : Codec) (file : Bytes) : Except SErr Sess :=
  match readLoop c (file.length + 1) Sess.init file with
  | .error e => .error e
  | .ok s => s.finalize c

/-! ## What complete delivery means (specification side) -/

/-- decoded payload of a delivered auxiliary box -/
def decodedPayload (c : Codec) (b : AuxBox) : Option Bytes :=
  if b.brotli then c.decompress b.payload else some b.payload

/-- Complete delivery of one auxiliary box of the file: a `jbrd` box goes to the JPEG
reconstruction data, any other box is appended with its type and decoded payload. -/
def deliverBox (c : Codec) (s : St) (b : AuxBox) : Except AErr St :=
  if b.ty = tyJbrd then
    if c.jbrdOk (s.jbrd ++ b.payload) then
      .ok { s with jbrd := s.jbrd ++ b.payload, jbrdDone := true }
    else .error .jbrd
  else
    match decodedPayload c b with
    | some d => .ok { s with boxes := s.boxes ++ [(b.ty, .raw d)] }
    | none => .error .brotli

/-- complete delivery of the auxiliary boxes of a file, in file order -/
def deliverAll (c : Codec) : St → List AuxBox → Except AErr St
  | s, [] => .ok s
  | s, b :: r =>
    match deliverBox c s b with
    | .error e => .error e
    | .ok s' => deliverAll c s' r

/-! ## The stored subset of Brotli (instance of `Codec.decompress` for the correspondence run)

Bits LSB-first.  Stream = `06` (WBITS `0`, ISLAST, ISLASTEMPTY: empty output), or one or more
uncompressed meta-blocks followed by `03` (ISLAST, ISLASTEMPTY).  Uncompressed meta-block:
[WBITS `0` (first block only)] ISLAST=0, MNIBBLES=`00` (4 nibbles), MLEN-1 (16 bits),
ISUNCOMPRESSED=1, zero padding to the byte boundary (3 header bytes), then MLEN raw bytes. -/

/-- 3 header bytes of a stored meta-block of `n` bytes (1 ≤ n ≤ 65536) -/
def storedHeader (first : Bool) (n : Nat) : Bytes :=
  let v := if first then (n - 1) * 16 + 2 ^ 20 else (n - 1) * 8 + 2 ^ 19
  [UInt8.ofNat (v % 256), UInt8.ofNat (v / 256 % 256), UInt8.ofNat (v / 65536)]

/-- `MLEN` of a stored meta-block header, `none` if the 3 bytes are not such a header -/
def storedLen (first : Bool) (b0 b1 b2 : UInt8) : Option Nat :=
  if first then
    if (b0.toNat + 256 * b1.toNat + 65536 * b2.toNat) % 16 = 0 ∧
        (b0.toNat + 256 * b1.toNat + 65536 * b2.toNat) / 2 ^ 20 = 1 then
      some ((b0.toNat + 256 * b1.toNat + 65536 * b2.toNat) / 16 % 65536 + 1)
    else none
  else
    if (b0.toNat + 256 * b1.toNat + 65536 * b2.toNat) % 8 = 0 ∧
        (b0.toNat + 256 * b1.toNat + 65536 * b2.toNat) / 2 ^ 19 = 1 then
      some ((b0.toNat + 256 * b1.toNat + 65536 * b2.toNat) / 8 % 65536 + 1)
    else none

/-- meta-blocks after the first header bit pattern is fixed; fuel = length of the input -/
def storedBlocks : Nat → Bool → Bytes → Option Bytes
  | 0, _, _ => none
  | f + 1, first, z =>
    if !first && z == [0x03] then some []
    else
      match z with
      | b0 :: b1 :: b2 :: rest =>
        match storedLen first b0 b1 b2 with
        | none => none
        | some n =>
          if rest.length < n then none
          else
            match storedBlocks f false (rest.drop n) with
            | none => none
            | some out => some (rest.take n ++ out)
      | _ => none

/-- decoder of stored-only Brotli streams; everything else counts as invalid -/
def storedBrotli (z : Bytes) : Option Bytes :=
  if z == [0x06] then some [] else storedBlocks (z.length + 1) true z

/-- the generator's encoder: one stored meta-block per part, then the empty last block -/
def storedEncodeFrom : Bool → List Bytes → Bytes
  | first, [] => if first then [0x06] else [0x03]
  | first, p :: r => storedHeader first p.length ++ p ++ storedEncodeFrom false r

def storedEncode (parts : List Bytes) : Bytes := storedEncodeFrom true parts

end Jxl.AuxBox
