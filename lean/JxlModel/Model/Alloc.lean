/-!
# Allocation tracker (`jxl-grid/src/alloc_tracker.rs`)

`bytes_left` is an `AtomicUsize`; every update is one atomic read-modify-write, so a history of
operations is a sequence and the model is a sequential state machine over that sequence.
`usize` is 64 bit on the modelled target: `W = 2^64`. `fetch_add` wraps, `checked_sub` fails.
-/
namespace Jxl.Alloc

def W : Nat := 2 ^ 64

inductive Op where
  /-- `alloc::<T>(count)` with `size_of::<T>() = size` -/
  | alloc (count size : Nat)
  /-- drop the `idx`-th live handle (oldest first) -/
  | drop (idx : Nat)
  | expand (by_ : Nat)
  | shrink (by_ : Nat)
  deriving Repr

inductive Out where
  | ok
  | oom (bytes : Nat)
  /-- `count * size_of::<T>()` overflows `usize`: panic in checked builds -/
  | panicMul
  /-- the op names a handle that does not exist (harness error, never produced by real code) -/
  | badOp
  deriving Repr, DecidableEq

structure State where
  left : Nat
  /-- byte sizes of live handles, oldest first -/
  handles : List Nat
  /-- ghost: initial limit + expands − successful shrinks -/
  limit : Nat
  deriving Repr

def init (l : Nat) : State := { left := l, handles := [], limit := l }

def step (s : State) : Op → State × Out
  | .alloc count size =>
    let bytes := count * size
    if bytes ≥ W then (s, .panicMul)
    else if bytes ≤ s.left then
      ({ s with left := s.left - bytes, handles := s.handles ++ [bytes] }, .ok)
    else (s, .oom bytes)
  | .drop idx =>
    match s.handles[idx]? with
    | none => (s, .badOp)
    | some b => ({ s with left := (s.left + b) % W, handles := s.handles.eraseIdx idx }, .ok)
  | .expand n => ({ s with left := (s.left + n) % W, limit := s.limit + n }, .ok)
  | .shrink n =>
    if n ≤ s.left then ({ s with left := s.left - n, limit := s.limit - n }, .ok)
    else (s, .oom n)

def run (s : State) (ops : List Op) : State := ops.foldl (fun s op => (step s op).1) s

def outstanding (s : State) : Nat := s.handles.sum

/-- The accounting invariant: what is left plus what is handed out is the current limit,
and the limit itself fits the machine word (no wrap has happened). -/
def Inv (s : State) : Prop := s.left + outstanding s = s.limit ∧ s.limit < W

/-- Side condition on a history: no `expand_limit` pushes the limit past `usize::MAX`
(the real `fetch_add` would wrap silently there; the property does not speak about that). -/
def NoWrap (s : State) : List Op → Prop
  | [] => True
  | op :: ops =>
    (match op with
     | .expand n => s.limit + n < W
     | _ => True) ∧ NoWrap (step s op).1 ops

end Jxl.Alloc
