import JxlModel.Gen.AllocOps
/-!
# Allocation tracker (`jxl-grid/src/alloc_tracker.rs`)

`bytes_left` is an `AtomicUsize`; every update is one atomic read-modify-write, so a history of
operations is a sequence and the model is a sequential state machine over that sequence.
`usize` is 64 bit on the modelled target: `W = 2^64`. `fetch_add` wraps, `checked_sub` fails.
-/
namespace Jxl.Alloc

def W : Nat := 2 ^ 64

inductive Op where
  /-- `alloc::<T>(count)` with `size_of::<T>() = size` -/
  | alloc (count size : Nat)
  /-- drop the `idx`-th live handle (oldest first) -/
  | drop (idx : Nat)
  | expand (by_ : Nat)
  | shrink (by_ : Nat)
  deriving Repr

inductive Out where
  | ok
  | oom (bytes : Nat)
  /-- `count * size_of::<T>()` overflows `usize`: panic in checked builds -/
  | panicMul
  /-- the op names a handle that does not exist (harness error, never produced by real code) -/
  | badOp
  deriving Repr, DecidableEq

structure State where
  left : Nat
  /-- byte sizes of live handles, oldest first -/
  handles : List Nat
  /-- ghost: initial limit + expands − successful shrinks -/
  limit : Nat
  deriving Repr

def init (l : Nat) : State := { left := l, handles := [], limit := l }

def step (s : State) : Op → State × Out
  | .alloc count size =>
    let bytes := count * size
    if bytes ≥ W then (s, .panicMul)
    else if bytes ≤ s.left then
      ({ s with left := s.left - bytes, handles := s.handles ++ [bytes] }, .ok)
    else (s, .oom bytes)
  | .drop idx =>
    match s.handles[idx]? with
    | none => (s, .badOp)
    | some b => ({ s with left := (s.left + b) % W, handles := s.handles.eraseIdx idx }, .ok)
  | .expand n => ({ s with left := (s.left + n) % W, limit := s.limit + n }, .ok)
  | .shrink n =>
    if n ≤ s.left then ({ s with left := s.left - n, limit := s.limit - n }, .ok)
    else (s, .oom n)

def run (s : State) (ops : List Op) : State := ops.foldl (fun s op => (step s op).1) s

def outstanding (s : State) : Nat := s.handles.sum

/-- The accounting invariant: what is left plus what is handed out is the current limit,
and the limit itself fits the machine word (no wrap has happened). -/
def Inv (s : State) : Prop := s.left + outstanding s = s.limit ∧ s.limit < W

/-- Side condition on a history: no `expand_limit` pushes the limit past `usize::MAX`
(the real `fetch_add` would wrap silently there; the property does not speak about that). -/
def NoWrap (s : State) : List Op → Prop
  | [] => True
  | op :: ops =>
    (match op with
     | .expand n => s.limit + n < W
     | _ => True) ∧ NoWrap (step s op).1 ops

/-! ## The atomic operations behind each step

`Gen/AllocOps.lean` (regenerated from alloc_tracker.rs) lists the atomic operations each tracker
operation applies to `bytes_left`. `microApply` is what one of them does with operand `n`. -/

open Jxl.Gen.AllocOps in
def microApply (left n : Nat) : Micro → Nat × Bool
  | .rmwCheckedSub => if n ≤ left then (left - n, true) else (left, false)
  | .rmwAdd => ((left + n) % W, true)
  | .rmwSub => ((left + (W - n % W)) % W, true)
  | _ => (left, true)

/-! ## `image::ImageDecoder::set_limits` (jxl-oxide/src/integration/image.rs)

The decoder remembers the limit it last installed (`current_memory_limit`) and moves the tracker
by the difference. `new` is `max_alloc` (or `usize::MAX` for `None`). -/

structure Dec where
  tr : State
  current : Nat
  deriving Repr

/-- `JxlDecoder::new`: tracker with `usize::MAX`, bookkeeping `usize::MAX` -/
def Dec.init : Dec := { tr := Alloc.init (W - 1), current := W - 1 }

/-- returns the new state and whether the call was accepted (`Ok`) -/
def setLimits (d : Dec) (new : Nat) : Dec × Bool :=
  if new > d.current then
    ({ tr := (step d.tr (.expand (new - d.current))).1, current := new }, true)
  else
    match step d.tr (.shrink (d.current - new)) with
    | (t, .ok) => ({ tr := t, current := new }, true)
    | _ => (d, false)

inductive DecOp where
  | setLimits (new : Nat)
  /-- the decoder's own allocations and releases in between -/
  | tracker (op : Op)
  deriving Repr

/-- `tracker` ops are the decoder's allocations/releases: never expand/shrink (only set_limits
resizes the tracker the decoder owns) -/
def DecOp.wf : DecOp → Prop
  | .setLimits new => new < W
  | .tracker (.expand _) => False
  | .tracker (.shrink _) => False
  | .tracker _ => True

def decStep (d : Dec) : DecOp → Dec
  | .setLimits new => (setLimits d new).1
  | .tracker op => { d with tr := (step d.tr op).1 }

def decRun (d : Dec) (ops : List DecOp) : Dec := ops.foldl decStep d

end Jxl.Alloc
