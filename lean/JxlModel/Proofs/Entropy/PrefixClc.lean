import JxlModel.Proofs.Entropy.PrefixRuns
import JxlModel.Proofs.Entropy.Header
import JxlModel.Proofs.Entropy.HuffLen
/-! First loop of `parse_complex` (`readClc`) over what `writeClc` writes, and the code-length
code that `huffLengths 5` builds. -/
namespace Jxl.Entropy
open Jxl Jxl.Enc

/-- Kraft weight of a code-length-code length in units of 1/32 -/
def k5 (l : Nat) : Nat := if l = 0 then 0 else 32 / 2 ^ l

/-- mass of the entries of `clc` at the indices in `r` -/
def clcMass (clc : List Nat) : List Nat → Nat
  | [] => 0
  | i :: r => k5 (clc.getD i 0) + clcMass clc r

/-- number of non-zero entries of `clc` at the indices in `r` -/
def clcCnt (clc : List Nat) : List Nat → Nat
  | [] => 0
  | i :: r => (if clc.getD i 0 = 0 then 0 else 1) + clcCnt clc r

theorem k5_pos {l : Nat} (h0 : l ≠ 0) (h5 : l ≤ 5) : 0 < k5 l ∧ k5 l ≤ 16 := by
  unfold k5
  rw [if_neg h0]
  have : l = 1 ∨ l = 2 ∨ l = 3 ∨ l = 4 ∨ l = 5 := by omega
  rcases this with rfl | rfl | rfl | rfl | rfl <;> decide

theorem clcMass_zero (clc : List Nat) (r : List Nat) (h5 : ∀ i ∈ r, clc.getD i 0 ≤ 5)
    (h : clcMass clc r = 0) : ∀ i ∈ r, clc.getD i 0 = 0 := by
  induction r with
  | nil => intro i hi; simp at hi
  | cons a r ih =>
    intro i hi
    simp only [clcMass] at h
    rcases List.mem_cons.1 hi with rfl | hi
    · by_cases h0 : clc.getD i 0 = 0
      · exact h0
      · have := (k5_pos h0 (h5 i (by simp))).1; omega
    · exact ih (fun j hj => h5 j (by simp [hj])) (by omega) i hi

theorem clcCnt_zero (clc : List Nat) (r : List Nat) (h : ∀ i ∈ r, clc.getD i 0 = 0) :
    clcCnt clc r = 0 := by
  induction r with
  | nil => rfl
  | cons a r ih =>
    simp only [clcCnt, h a (by simp), if_true, Nat.zero_add]
    exact ih (fun j hj => h j (by simp [hj]))

theorem clcMass_le (clc : List Nat) (r : List Nat) (h5 : ∀ i ∈ r, clc.getD i 0 ≤ 5) :
    clcMass clc r ≤ 16 * clcCnt clc r := by
  induction r with
  | nil => simp [clcMass, clcCnt]
  | cons a r ih =>
    have := ih (fun j hj => h5 j (by simp [hj]))
    simp only [clcMass, clcCnt]
    by_cases h0 : clc.getD a 0 = 0
    · simp only [h0, k5, if_true]; omega
    · have := (k5_pos h0 (h5 a (by simp))).2
      simp only [h0, if_false]; omega

theorem getD_set_ne (l : List Nat) (i j v : Nat) (h : i ≠ j) : (l.set i v).getD j 0 = l.getD j 0 := by
  rw [List.getD_eq_getElem?_getD, List.getElem?_set, if_neg h, ← List.getD_eq_getElem?_getD]

theorem getD_set_self (l : List Nat) (i v : Nat) (h : i < l.length) : (l.set i v).getD i 0 = v := by
  rw [List.getD_eq_getElem?_getD, List.getElem?_set]
  simp [h]

/-- **first loop**: reading what `writeClc` wrote -/
theorem readClc_write (clc : List Nat) (rest : Bits) :
    ∀ (r : List Nat) (st : ClcState), r.Nodup → (∀ i ∈ r, clc.getD i 0 ≤ 5) →
    st.bitacc + clcMass clc r ≤ 32 → st.bitacc < 32 → (∀ i ∈ r, st.lens.getD i 0 = 0) →
    (∀ i ∈ r, i < st.lens.length) →
    ∃ st', readClc r st (writeClc r clc st.bitacc ++ rest) = .ok (st', rest) ∧
      st'.bitacc = st.bitacc + clcMass clc r ∧
      st'.nonzeroCount = st.nonzeroCount + clcCnt clc r ∧
      st'.lens.length = st.lens.length ∧
      (∀ i, st'.lens.getD i 0 = if i ∈ r then clc.getD i 0 else st.lens.getD i 0) ∧
      (∀ s, (∀ i ∈ r, clc.getD i 0 ≠ 0 → i = s) → 1 ≤ clcCnt clc r → st'.nonzeroSym = s) ∧
      (clcCnt clc r = 0 → st'.nonzeroSym = st.nonzeroSym) := by
  intro r
  induction r with
  | nil =>
    intro st _ _ _ _ _ _
    exact ⟨st, rfl, by simp [clcMass], by simp [clcCnt], rfl, by simp,
      fun s _ h => by simp [clcCnt] at h, fun _ => rfl⟩
  | cons idx r ih =>
    intro st hnd h5 hb hlt32 hz hlen
    have hnd' := (List.nodup_cons.1 hnd)
    have hl5 : clc.getD idx 0 ≤ 5 := h5 idx (by simp)
    have hidx : idx < st.lens.length := hlen idx (by simp)
    simp only [clcMass] at hb
    -- the lengths after this entry, whatever is written
    have hlensD : ∀ i, (st.lens.set idx (clc.getD idx 0)).getD i 0
        = if i = idx then clc.getD idx 0 else st.lens.getD i 0 := by
      intro i
      by_cases hi : i = idx
      · subst hi; rw [if_pos rfl, getD_set_self _ _ _ hidx]
      · rw [if_neg hi, getD_set_ne _ _ _ _ (fun h => hi h.symm)]
    simp only [readClc, writeClc, List.append_assoc]
    rw [readClcLen_write _ hl5]
    simp only
    by_cases h0 : clc.getD idx 0 = 0
    · -- zero length: continue
      have hk : k5 (clc.getD idx 0) = 0 := by rw [h0]; rfl
      have hge : ¬ (st.bitacc ≥ 32) := by omega
      rw [if_neg (by simpa using h0), if_pos h0, if_neg hge]
      obtain ⟨st', e1, e2, e3, e4, e5, e6, e7⟩ := ih { st with lens := st.lens.set idx (clc.getD idx 0) }
        hnd'.2 (fun j hj => h5 j (by simp [hj])) (by simp only; omega) hlt32
        (fun j hj => by
          simp only
          rw [hlensD, if_neg (fun h : j = idx => hnd'.1 (h ▸ hj))]
          exact hz j (by simp [hj]))
        (fun j hj => by simp only [List.length_set]; exact hlen j (by simp [hj]))
      simp only at e1 e2 e3 e4 e5
      refine ⟨st', e1, by rw [e2]; simp only [clcMass, hk]; omega,
        by rw [e3]; simp only [clcCnt, h0, if_true]; omega, by rw [e4, List.length_set], ?_, ?_, ?_⟩
      · intro i
        rw [e5 i, hlensD]
        by_cases hir : i ∈ r
        · simp [hir]
        · by_cases hii : i = idx
          · subst hii; simp [hir]
          · simp [hir, hii]
      · intro s hs hc
        simp only [clcCnt, h0, if_true, Nat.zero_add] at hc
        exact e6 s (fun i hi => hs i (by simp [hi])) hc
      · intro hc
        simp only [clcCnt, h0, if_true, Nat.zero_add] at hc
        exact e7 hc
    · -- non-zero length
      obtain ⟨hkpos, hk16⟩ := k5_pos h0 hl5
      have hke : 32 / 2 ^ clc.getD idx 0 = k5 (clc.getD idx 0) := by unfold k5; rw [if_neg h0]
      rw [if_pos (by simpa using h0), if_neg h0, hke]
      by_cases hfull : st.bitacc + k5 (clc.getD idx 0) = 32
      · -- the space is used up: both sides stop; the remaining entries are zero
        have hrz : ∀ i ∈ r, clc.getD i 0 = 0 :=
          clcMass_zero clc r (fun j hj => h5 j (by simp [hj])) (by omega)
        rw [if_neg (by omega), if_pos hfull, if_pos (by omega)]
        refine ⟨_, rfl, by simp only [clcMass]; omega, ?_, by simp only [List.length_set], ?_, ?_, ?_⟩
        · simp only [clcCnt, h0, if_false, clcCnt_zero clc r hrz]
        · intro i
          simp only
          rw [hlensD]
          by_cases hii : i = idx
          · subst hii; simp
          · by_cases hir : i ∈ r
            · simp only [hii, if_false, List.mem_cons, false_or, hir, if_true]
              rw [hrz i hir]; exact hz i (by simp [hir])
            · simp [hii, hir]
        · intro s hs _
          exact hs idx (by simp) h0
        · intro hc
          simp only [clcCnt, h0, if_false] at hc
          omega
      · rw [if_pos (by omega), if_neg (by omega)]
        obtain ⟨st', e1, e2, e3, e4, e5, e6, e7⟩ := ih
          ⟨st.lens.set idx (clc.getD idx 0), st.bitacc + k5 (clc.getD idx 0), st.nonzeroCount + 1, idx⟩
          hnd'.2 (fun j hj => h5 j (by simp [hj])) (by simp only; omega) (by simp only; omega)
          (fun j hj => by
            simp only
            rw [hlensD, if_neg (fun h : j = idx => hnd'.1 (h ▸ hj))]
            exact hz j (by simp [hj]))
          (fun j hj => by simp only [List.length_set]; exact hlen j (by simp [hj]))
        simp only at e1 e2 e3 e4 e5 e6
        refine ⟨st', e1, by rw [e2]; simp only [clcMass]; omega,
          by rw [e3]; simp only [clcCnt, h0, if_false]; omega, by rw [e4, List.length_set], ?_, ?_, ?_⟩
        · intro i
          rw [e5 i, hlensD]
          by_cases hir : i ∈ r
          · simp [hir]
          · by_cases hii : i = idx
            · subst hii; simp [hir]
            · simp [hir, hii]
        · intro s hs _
          have hs0 : idx = s := hs idx (by simp) h0
          by_cases hc : 1 ≤ clcCnt clc r
          · exact e6 s (fun i hi => hs i (by simp [hi])) hc
          · rw [e7 (by omega), hs0]
        · intro hc
          simp only [clcCnt, h0, if_false] at hc
          omega


/-! ## counting used entries -/

theorem filter_pos_ge1 (l : List Nat) (i : Nat) (h : l.getD i 0 > 0) :
    1 ≤ (l.filter (· > 0)).length := by
  have hi : i < l.length := by
    rcases Nat.lt_or_ge i l.length with h1 | h1
    · exact h1
    · rw [List.getD_eq_getElem?_getD, List.getElem?_eq_none h1] at h; simp at h
  have hmem : l.getD i 0 ∈ l.filter (· > 0) := by
    rw [List.mem_filter]
    refine ⟨?_, by simpa using h⟩
    rw [List.getD_eq_getElem?_getD, List.getElem?_eq_getElem hi]
    simp
  exact List.length_pos_of_mem hmem

theorem filter_pos_ge2 (l : List Nat) : ∀ (i j : Nat), i ≠ j → l.getD i 0 > 0 → l.getD j 0 > 0 →
    2 ≤ (l.filter (· > 0)).length := by
  induction l with
  | nil => intro i j _ h; simp at h
  | cons a t ih =>
    intro i j hij hi hj
    cases i with
    | zero =>
      obtain ⟨j, rfl⟩ : ∃ j', j = j' + 1 := ⟨j - 1, by omega⟩
      simp only [List.getD_cons_zero] at hi
      simp only [List.getD_cons_succ] at hj
      have := filter_pos_ge1 t j hj
      rw [List.filter_cons_of_pos (by simpa using hi)]
      simp only [List.length_cons]; omega
    | succ i =>
      simp only [List.getD_cons_succ] at hi
      cases j with
      | zero =>
        simp only [List.getD_cons_zero] at hj
        have := filter_pos_ge1 t i hi
        rw [List.filter_cons_of_pos (by simpa using hj)]
        simp only [List.length_cons]; omega
      | succ j =>
        simp only [List.getD_cons_succ] at hj
        have := ih i j (by omega) hi hj
        by_cases ha : a > 0
        · rw [List.filter_cons_of_pos (by simpa using ha)]; simp only [List.length_cons]; omega
        · rw [List.filter_cons_of_neg (by simpa using ha)]; exact this

theorem filter_pos_eq1 (l : List Nat) : ∀ (s : Nat), l.getD s 0 > 0 →
    (∀ i, i ≠ s → l.getD i 0 = 0) → (l.filter (· > 0)).length = 1 := by
  induction l with
  | nil => intro s h; simp at h
  | cons a t ih =>
    intro s hs hz
    cases s with
    | zero =>
      simp only [List.getD_cons_zero] at hs
      have ht : t.filter (· > 0) = [] := by
        rw [List.filter_eq_nil_iff]
        intro x hx
        obtain ⟨i, hi, rfl⟩ := List.getElem_of_mem hx
        have := hz (i + 1) (by omega)
        simp only [List.getD_cons_succ] at this
        rw [List.getD_eq_getElem?_getD, List.getElem?_eq_getElem hi] at this
        simp only [Option.getD_some] at this
        simp [this]
      rw [List.filter_cons_of_pos (by simpa using hs), ht]; rfl
    | succ s =>
      simp only [List.getD_cons_succ] at hs
      have ha : a = 0 := by
        have := hz 0 (by omega)
        simpa using this
      subst ha
      rw [List.filter_cons_of_neg (by simp)]
      exact ih s hs (fun i hi => by
        have := hz (i + 1) (by omega)
        simpa using this)

/-- the filter that `codeOfLens` looks at, for a vector with exactly one non-zero entry -/
theorem zipIdx_filter_single (l : List Nat) : ∀ (k s x : Nat), l.getD s 0 = x → x ≠ 0 →
    (∀ i, i ≠ s → l.getD i 0 = 0) →
    (l.zipIdx k).filter (fun p : Nat × Nat => decide (p.1 ≠ 0)) = [(x, s + k)] := by
  induction l with
  | nil => intro k s x h hx; simp at h; omega
  | cons a t ih =>
    intro k s x hs hx hz
    rw [List.zipIdx_cons]
    cases s with
    | zero =>
      simp only [List.getD_cons_zero] at hs
      subst hs
      have ht : (t.zipIdx (k + 1)).filter (fun p : Nat × Nat => decide (p.1 ≠ 0)) = [] := by
        rw [List.filter_eq_nil_iff]
        intro p hp
        obtain ⟨v, i⟩ := p
        rw [List.mem_zipIdx_iff_le_and_getElem?_sub] at hp
        have hi : i - (k + 1) < t.length := by
          by_contra hcon
          rw [List.getElem?_eq_none (by omega)] at hp
          simp at hp
        have := hz (i - (k + 1) + 1) (by omega)
        simp only [List.getD_cons_succ] at this
        rw [List.getD_eq_getElem?_getD, hp.2] at this
        simp only [Option.getD_some] at this
        simp [this]
      rw [List.filter_cons_of_pos (by simpa using hx), ht, Nat.zero_add]
    | succ s =>
      simp only [List.getD_cons_succ] at hs
      have ha : a = 0 := by
        have := hz 0 (by omega)
        simpa using this
      subst ha
      rw [List.filter_cons_of_neg (by simp)]
      rw [ih (k + 1) s x hs hx (fun i hi => by
        have := hz (i + 1) (by omega)
        simpa using this)]
      congr 2
      omega

theorem k5_eq (c : Nat) (h : c ≤ 5) : (if c = 0 then 0 else 2 ^ (5 - c)) = k5 c := by
  unfold k5
  have : c = 0 ∨ c = 1 ∨ c = 2 ∨ c = 3 ∨ c = 4 ∨ c = 5 := by omega
  rcases this with rfl | rfl | rfl | rfl | rfl | rfl <;> rfl

theorem kraftN5_eq (l : List Nat) (h : ∀ c ∈ l, c ≤ 5) : kraftN 5 l = (l.map k5).sum := by
  induction l with
  | nil => rfl
  | cons a t ih =>
    simp only [kraftN, List.map_cons, List.sum_cons]
    rw [k5_eq a (h a (by simp)), ih (fun c hc => h c (by simp [hc]))]

theorem clcMass_eq_sum (clc : List Nat) (r : List Nat) :
    clcMass clc r = (r.map fun i => k5 (clc.getD i 0)).sum := by
  induction r with
  | nil => rfl
  | cons a t ih => simp only [clcMass, List.map_cons, List.sum_cons, ih]

theorem map_getD_range (l : List Nat) : (List.range l.length).map (fun i => l.getD i 0) = l := by
  apply List.ext_getElem (by simp)
  intro i h1 h2
  simp only [List.getElem_map, List.getElem_range]
  rw [List.getD_eq_getElem?_getD, List.getElem?_eq_getElem h2]
  rfl

/-- the transmission order visits every entry once: the mass along it is the Kraft sum -/
theorem clcMass_order (clc : List Nat) (hlen : clc.length = 18) (h5 : ∀ c ∈ clc, c ≤ 5) :
    clcMass clc codeLengthOrder = kraftN 5 clc := by
  rw [kraftN5_eq clc h5, clcMass_eq_sum]
  have hperm : codeLengthOrder.Perm (List.range 18) := by decide
  rw [(hperm.map _).sum_nat, ← hlen]
  have := map_getD_range clc
  conv => rhs; rw [← this]
  rw [List.map_map]
  rfl

theorem clcMass_append (clc : List Nat) (a b : List Nat) :
    clcMass clc (a ++ b) = clcMass clc a + clcMass clc b := by
  induction a with
  | nil => simp [clcMass]
  | cons x t ih => simp only [List.cons_append, clcMass, ih]; omega

/-- Kraft sum in the 15-bit scale of a vector of lengths ≤ 5 -/
theorem kraft_of_kraftN5 (l : List Nat) (h : ∀ c ∈ l, c ≤ 5) : kraft l = 2 ^ 10 * kraftN 5 l := by
  induction l with
  | nil => rfl
  | cons a t ih =>
    simp only [kraft, kraftN]
    rw [ih (fun c hc => h c (by simp [hc])), Nat.mul_add]
    congr 1
    have : a = 0 ∨ a = 1 ∨ a = 2 ∨ a = 3 ∨ a = 4 ∨ a = 5 := by have := h a (by simp); omega
    rcases this with rfl | rfl | rfl | rfl | rfl | rfl <;> rfl

theorem list_ext_getD (a b : List Nat) (hl : a.length = b.length)
    (h : ∀ i, a.getD i 0 = b.getD i 0) : a = b := by
  apply List.ext_getElem hl
  intro i h1 h2
  have := h i
  rw [List.getD_eq_getElem?_getD, List.getD_eq_getElem?_getD, List.getElem?_eq_getElem h1,
    List.getElem?_eq_getElem h2] at this
  simpa using this

end Jxl.Entropy
