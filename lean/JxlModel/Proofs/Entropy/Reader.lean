import JxlModel.Model.Entropy.Reader
/-! Lemmas about the reader layer: the `length`-free readers agree with `Jxl.readBits`, and
reading back what `toBits` wrote. -/
namespace Jxl.Entropy
open Jxl

theorem toBits_length (n v : Nat) : (toBits n v).length = n := by
  induction n generalizing v with
  | zero => rfl
  | succ n ih => simp [toBits, ih]

theorem ofBits_toBits (n v : Nat) (h : v < 2 ^ n) : ofBits (toBits n v) = v := by
  induction n generalizing v with
  | zero => simp [toBits, ofBits] at *; omega
  | succ n ih =>
    simp only [toBits, ofBits]
    have h2 : v / 2 < 2 ^ n := by
      rw [Nat.pow_succ] at h; omega
    rw [ih _ h2]
    by_cases hv : v % 2 = 1 <;> simp [hv] <;> omega

theorem dropChk_eq (n : Nat) (s : Bits) :
    dropChk n s = if n ≤ s.length then some (s.drop n) else none := by
  induction n generalizing s with
  | zero => simp [dropChk]
  | succ n ih =>
    cases s with
    | nil => simp [dropChk]
    | cons b s => simp [dropChk, ih]

/-- `rbits` is `Jxl.readBits` with `none` mapped to `eof` -/
theorem rbits_eq_readBits (n : Nat) (s : Bits) :
    rbits n s = match readBits n s with | some r => .ok r | none => .error .eof := by
  unfold rbits readBits peekPad
  rw [dropChk_eq]
  by_cases h : n ≤ s.length <;> simp [h]

theorem dropChk_append (n : Nat) (a r : Bits) (h : a.length = n) : dropChk n (a ++ r) = some r := by
  subst h
  rw [dropChk_eq]
  simp

theorem peekPad_append (n : Nat) (a r : Bits) (h : a.length = n) : peekPad n (a ++ r) = ofBits a := by
  subst h
  unfold peekPad
  simp

theorem rbits_toBits (n v : Nat) (r : Bits) (h : v < 2 ^ n) :
    rbits n (toBits n v ++ r) = .ok (v, r) := by
  unfold rbits
  rw [dropChk_append n _ r (toBits_length n v), peekPad_append n _ r (toBits_length n v),
    ofBits_toBits n v h]

theorem rbool_cons (b : Bool) (r : Bits) : rbool (b :: r) = .ok (b, r) := rfl

/-- bits consumed by a successful read -/
theorem rbits_length {n : Nat} {s r : Bits} {v : Nat} (h : rbits n s = .ok (v, r)) :
    s.length = r.length + n := by
  unfold rbits at h
  rw [dropChk_eq] at h
  by_cases hn : n ≤ s.length
  · simp [hn] at h
    rw [← h.2]; simp; omega
  · simp [hn] at h

theorem ofBits_lt (s : Bits) : ofBits s < 2 ^ s.length := by
  induction s with
  | nil => simp [ofBits]
  | cons b s ih => simp only [ofBits, List.length_cons, Nat.pow_succ]; split <;> omega

theorem peekPad_lt (n : Nat) (s : Bits) : peekPad n s < 2 ^ n := by
  unfold peekPad
  have := ofBits_lt (s.take n)
  have h2 : (s.take n).length ≤ n := by simp; omega
  exact Nat.lt_of_lt_of_le this (Nat.pow_le_pow_right (by omega) h2)

/-! ## MSB-first values -/

theorem toBitsMSB_length (n v : Nat) : (toBitsMSB n v).length = n := by
  induction n with
  | zero => rfl
  | succ n ih => simp [toBitsMSB, ih]

theorem msbVal_lt (n : Nat) (s : Bits) : msbVal n s < 2 ^ n := by
  induction n generalizing s with
  | zero => simp [msbVal]
  | succ n ih =>
    cases s with
    | nil => simp [msbVal]; exact Nat.pos_of_ne_zero (by simp)
    | cons b s =>
      simp only [msbVal, Nat.pow_succ]
      have := ih s
      split <;> omega

/-- the look-ahead value of a codeword followed by anything:
`c·2^(L-n) ≤ msbVal L (code ++ r) < (c+1)·2^(L-n)` -/
theorem msbVal_toBitsMSB (L n c : Nat) (r : Bits) (hn : n ≤ L) (hc : c < 2 ^ n) :
    msbVal L (toBitsMSB n c ++ r) = c * 2 ^ (L - n) + msbVal (L - n) r := by
  induction n generalizing L c with
  | zero =>
    have : c = 0 := by simpa using hc
    subst this
    simp [toBitsMSB]
  | succ n ih =>
    obtain ⟨L', rfl⟩ : ∃ L', L = L' + 1 := ⟨L - 1, by omega⟩
    have hn' : n ≤ L' := by omega
    simp only [toBitsMSB, List.cons_append, msbVal]
    have hsub : L' + 1 - (n + 1) = L' - n := by omega
    rw [hsub]
    -- toBitsMSB n c only looks at the low n bits of c
    have low : ∀ (m : Nat) (x y : Nat), x % 2 ^ m = y % 2 ^ m → toBitsMSB m x = toBitsMSB m y := by
      intro m
      induction m with
      | zero => intros; rfl
      | succ m ihm =>
        intro x y hxy
        simp only [toBitsMSB]
        have h1 : x % 2 ^ m = y % 2 ^ m := by
          have := congrArg (· % 2 ^ m) hxy
          simpa [Nat.pow_succ, Nat.mod_mul_right_mod] using this
        have h2 : x / 2 ^ m % 2 = y / 2 ^ m % 2 := by
          have hx : x % 2 ^ (m + 1) = x % 2 ^ m + 2 ^ m * (x / 2 ^ m % 2) := by
            rw [Nat.pow_succ, Nat.mod_mul]
          have hy : y % 2 ^ (m + 1) = y % 2 ^ m + 2 ^ m * (y / 2 ^ m % 2) := by
            rw [Nat.pow_succ, Nat.mod_mul]
          rw [hx, hy, h1] at hxy
          have hp : 0 < 2 ^ m := Nat.pos_of_ne_zero (by simp)
          exact Nat.eq_of_mul_eq_mul_left hp (by omega)
        rw [h2, ihm x y h1]
    have hlow : toBitsMSB n c = toBitsMSB n (c % 2 ^ n) := low n c (c % 2 ^ n) (by simp)
    rw [hlow, ih L' (c % 2 ^ n) hn' (Nat.mod_lt _ (Nat.pos_of_ne_zero (by simp)))]
    have hbit : c / 2 ^ n < 2 := by
      rw [Nat.div_lt_iff_lt_mul (Nat.pos_of_ne_zero (by simp))]
      rw [Nat.pow_succ] at hc; omega
    have hsplit : c = 2 ^ n * (c / 2 ^ n) + c % 2 ^ n := (Nat.div_add_mod c (2 ^ n)).symm
    have hpow : 2 ^ L' = 2 ^ n * 2 ^ (L' - n) := by
      rw [← Nat.pow_add]; congr 1; omega
    rcases Nat.lt_or_ge (c / 2 ^ n) 1 with h0 | h1
    · have h0' : c / 2 ^ n = 0 := Nat.lt_one_iff.mp h0
      have : c % 2 ^ n = c := by
        have h := hsplit
        rw [h0', Nat.mul_zero, Nat.zero_add] at h
        exact h.symm
      simp [h0', this]
    · have h1' : c / 2 ^ n = 1 := Nat.le_antisymm (Nat.lt_succ_iff.mp hbit) h1
      simp only [h1', Nat.mod_self, show (1 % 2 == 1) = true from rfl, if_true]
      have hc' : c = 2 ^ n + c % 2 ^ n := by
        have h := hsplit
        rw [h1', Nat.mul_one] at h
        exact h
      rw [hpow]
      conv => rhs; rw [hc']
      rw [Nat.add_mul]
      omega

end Jxl.Entropy
