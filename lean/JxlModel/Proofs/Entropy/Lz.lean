import JxlModel.Proofs.Entropy.Seq
/-! The item layer: literals and LZ77 copies on top of the symbol layer (`pop`). -/
namespace Jxl.Entropy
open Jxl Jxl.Enc

/-- the shape `IntegerConfig::parse` enforces and `readUint` needs -/
def CfgOK (c : IntegerConfig) : Prop := c.msbInToken + c.lsbInToken ≤ c.splitExponent

theorem StateAt.congr {p : EntropyPlan} {ts : List Tok} {st st' : DState} (h : StateAt p ts st)
    (h1 : st'.initial = st.initial) (h2 : st'.ansState = st.ansState) : StateAt p ts st' := by
  unfold StateAt at *
  cases hc : p.coder with
  | «prefix» => trivial
  | ans la => rw [hc] at h; simp only at h ⊢; rw [h1, h2]; exact h

/-! ## values produced by a parse (decoder's view) -/

/-- `n` values copied from `d` back: (values in order, new history) -/
def copyVals (d : Nat) : Nat → List Nat → List Nat × List Nat
  | 0, hist => ([], hist)
  | n+1, hist =>
    let r := hist.getD (d - 1) 0
    let (vs, h') := copyVals d n (r :: hist)
    (r :: vs, h')

theorem copyVals_hist (d n : Nat) (hist : List Nat) : (copyVals d n hist).2 = copyBack d n hist := by
  induction n generalizing hist with
  | zero => rfl
  | succ n ih => simp [copyVals, copyBack, ih]

theorem copyVals_vals (d n : Nat) (hist : List Nat) :
    (copyVals d n hist).2 = (copyVals d n hist).1.reverse ++ hist := by
  induction n generalizing hist with
  | zero => rfl
  | succ n ih => simp [copyVals, ih]

theorem copyVals_length (d n : Nat) (hist : List Nat) : (copyVals d n hist).1.length = n := by
  induction n generalizing hist with
  | zero => rfl
  | succ n ih => simp [copyVals, ih]

/-- (values in order, new history) of an item list, starting from history `hist` -/
def decodeVals (mult : Nat) : List Item → List Nat → List Nat × List Nat
  | [], hist => ([], hist)
  | .lit _ v :: r, hist =>
    let (vs, h') := decodeVals mult r (v :: hist)
    (v :: vs, h')
  | .copy _ len dc :: r, hist =>
    let (cv, h1) := copyVals (lzCopyDistance mult dc hist.length) len hist
    let (vs, h') := decodeVals mult r h1
    (cv ++ vs, h')

theorem decodeVals_hist (mult : Nat) (items : List Item) (hist : List Nat) :
    (decodeVals mult items hist).2 = (decodeVals mult items hist).1.reverse ++ hist ∧
    (decodeVals mult items hist).2 = items.foldl (lzStep mult) hist := by
  induction items generalizing hist with
  | nil => simp [decodeVals]
  | cons i r ih =>
    cases i with
    | lit c v =>
      obtain ⟨h1, h2⟩ := ih (v :: hist)
      simp only [decodeVals, List.foldl_cons, lzStep]
      exact ⟨by rw [h1]; simp, h2⟩
    | copy c len dc =>
      obtain ⟨h1, h2⟩ := ih (copyVals (lzCopyDistance mult dc hist.length) len hist).2
      simp only [decodeVals, List.foldl_cons, lzStep]
      refine ⟨?_, ?_⟩
      · rw [h1, copyVals_vals]; simp
      · rw [h2, copyVals_hist]

/-- the decoder's view of the values equals the Spec expansion -/
theorem decodeVals_eq_expand (mult : Nat) (items : List Item) :
    (decodeVals mult items []).1 = expandItems mult items := by
  obtain ⟨h1, h2⟩ := decodeVals_hist mult items []
  unfold expandItems
  rw [← h2, h1]
  simp

/-! ## validity of items -/

/-- what the encoder needs of one item (given whether anything was decoded before it) -/
def ItemOK (p : EntropyPlan) (nonempty : Prop) : Item → Prop
  | .lit ctx v =>
    v < 2 ^ 32 ∧ CfgOK (p.config (p.clusterOf ctx)) ∧
    ∀ lz, p.lz77 = some lz → tokenOf (p.config (p.clusterOf ctx)) v < lz.minSymbol
  | .copy _ len dc =>
    nonempty ∧ dc < 2 ^ 32 ∧ len < 2 ^ 32 ∧ 1 ≤ len ∧ CfgOK (p.config p.lzCluster) ∧
    ∃ lz, p.lz77 = some lz ∧ lz.minLength ≤ len ∧ CfgOK lz.lenConf

/-- all items valid; the first must not be a copy unless `hist` is non-empty -/
def ItemsOK (p : EntropyPlan) : List Item → Prop → Prop
  | [], _ => True
  | i :: r, ne => ItemOK p ne i ∧ ItemsOK p r True

/-- one context per produced value; the first one of a copy is the copy's context -/
def CtxsFor : List Item → List Nat → Prop
  | [], cs => cs = []
  | .lit ctx _ :: r, cs => ∃ cs', cs = ctx :: cs' ∧ CtxsFor r cs'
  | .copy ctx len _ :: r, cs =>
    ∃ mid cs', cs = ctx :: (mid ++ cs') ∧ mid.length = len - 1 ∧ CtxsFor r cs'

/-! ## no LZ77: literal sequences -/

theorem readSeq_cons (d : Decoder) (mult c : Nat) (cs : List Nat) (st : DState) (s : Bits) :
    d.readSeq mult (c :: cs) st s =
      match d.readVarint st c mult s with
      | .error e => .error e
      | .ok ((v, st1), s1) =>
        match d.readSeq mult cs st1 s1 with
        | .error e => .error e
        | .ok ((vs, st2), s2) => .ok ((v :: vs, st2), s2) := rfl

theorem toks_cons (p : EntropyPlan) (i : Item) (r : List Item) :
    p.toks (i :: r) = p.itemToks i ++ p.toks r := by
  simp [EntropyPlan.toks]

theorem plain_seq (p : EntropyPlan) (hlz : p.lz77 = none) (mult : Nat)
    (syms : List (Nat × Nat)) (st : DState) (rest : Bits)
    (hv : ∀ cv ∈ syms, cv.2 < 2 ^ 32 ∧ CfgOK (p.config (p.clusterOf cv.1)))
    (hok : ToksOK p (p.toks (syms.map fun (c, v) => .lit c v)))
    (hst : StateAt p (p.toks (syms.map fun (c, v) => .lit c v)) st) :
    ∃ x, (planDecoder p).readSeq mult (syms.map (·.1)) st
        ((streamOf p (p.toks (syms.map fun (c, v) => .lit c v))).2 ++ rest)
      = .ok ((syms.map (·.2), { st with ansState := x }), rest) ∧
      StateAt p [] { st with ansState := x } := by
  induction syms generalizing st with
  | nil =>
    refine ⟨st.ansState, ?_, hst⟩
    simp only [List.map_nil, EntropyPlan.toks, List.flatMap_nil, Decoder.readSeq]
    unfold streamOf
    cases p.coder <;> simp [encodeToksPrefix, encodeToksAns]
  | cons cv r ih =>
    obtain ⟨c, v⟩ := cv
    simp only [List.map_cons, toks_cons] at hok hst ⊢
    have htk : p.itemToks (.lit c v) =
        [⟨p.clusterOf c, tokenOf (p.config (p.clusterOf c)) v, uintBits (p.config (p.clusterOf c)) v⟩] := rfl
    rw [htk] at hok hst ⊢
    simp only [List.singleton_append] at hok hst ⊢
    obtain ⟨x, hpop, hst'⟩ := pop p _ _ hok st hst rest
    obtain ⟨hv32, hcfg⟩ := hv (c, v) (by simp)
    have hrv : (planDecoder p).readVarint st c mult
        ((streamOf p (⟨p.clusterOf c, tokenOf (p.config (p.clusterOf c)) v,
            uintBits (p.config (p.clusterOf c)) v⟩ ::
          p.toks (r.map fun (c, v) => Item.lit c v))).2 ++ rest)
        = .ok ((v, { st with ansState := x }),
            (streamOf p (p.toks (r.map fun (c, v) => Item.lit c v))).2 ++ rest) := by
      unfold Decoder.readVarint Decoder.readClustered
      have : (planDecoder p).lz77 = none := hlz
      rw [this]
      simp only
      unfold Decoder.readPlain
      have hcl : (planDecoder p).clusters.getD c 0 = p.clusterOf c := rfl
      rw [hcl, hpop]
      simp only
      have hcf : (planDecoder p).configs.getD (p.clusterOf c) default = p.config (p.clusterOf c) := rfl
      rw [hcf, readUint_splitUint _ hcfg v hv32]
    obtain ⟨x', hseq, hfin⟩ := ih { st with ansState := x }
      (fun cv hcv => hv cv (by simp [hcv])) hok.tail hst'
    refine ⟨x', ?_, hfin⟩
    rw [readSeq_cons, hrv]
    simp only
    rw [hseq]

/-! ## LZ77 -/

theorem readSeq_append (d : Decoder) (mult : Nat) (a b : List Nat) (st : DState) (s : Bits)
    (va : List Nat) (st1 : DState) (s1 : Bits)
    (h : d.readSeq mult a st s = .ok ((va, st1), s1)) :
    d.readSeq mult (a ++ b) st s =
      match d.readSeq mult b st1 s1 with
      | .error e => .error e
      | .ok ((vb, st2), s2) => .ok ((va ++ vb, st2), s2) := by
  induction a generalizing st s va with
  | nil =>
    simp only [Decoder.readSeq] at h
    cases h
    simp only [List.nil_append]
    generalize d.readSeq mult b _ _ = X
    cases X with
    | error e => rfl
    | ok r => obtain ⟨⟨_, _⟩, _⟩ := r; rfl
  | cons c cs ih =>
    rw [List.cons_append, readSeq_cons]
    rw [readSeq_cons] at h
    cases hv : d.readVarint st c mult s with
    | error e => rw [hv] at h; cases h
    | ok r =>
      obtain ⟨⟨v, stv⟩, sv⟩ := r
      rw [hv] at h
      simp only at h ⊢
      cases hr : d.readSeq mult cs stv sv with
      | error e => rw [hr] at h; cases h
      | ok r2 =>
        obtain ⟨⟨vs, st2⟩, s2⟩ := r2
        rw [hr] at h
        simp only at h
        cases h
        rw [ih stv sv vs hr]
        generalize d.readSeq mult b _ _ = X
        cases X with
        | error e => rfl
        | ok r3 => obtain ⟨⟨_, _⟩, _⟩ := r3; rfl

/-- the copy phase: `n` pending values are produced without touching the stream -/
theorem copy_phase (d : Decoder) (lz : Lz77Params) (hlz : d.lz77 = some lz) (mult : Nat)
    (cs : List Nat) (st : DState) (s : Bits) (hn : st.numToCopy = cs.length) :
    d.readSeq mult cs st s =
      .ok (((copyVals st.copyDist cs.length st.hist).1,
            { st with hist := (copyVals st.copyDist cs.length st.hist).2, numToCopy := 0,
                      numDecoded := st.numDecoded + cs.length }), s) := by
  induction cs generalizing st with
  | nil =>
    simp only [Decoder.readSeq, List.length_nil, copyVals, Nat.add_zero]
    simp only [List.length_nil] at hn
    rw [← hn]
  | cons c r ih =>
    rw [readSeq_cons]
    have hpos : st.numToCopy > 0 := by rw [hn]; simp
    unfold Decoder.readVarint Decoder.readClustered
    rw [hlz]
    simp only
    unfold Decoder.readLz
    simp only [hpos, if_true]
    have hn' : (DState.push { st with numToCopy := st.numToCopy - 1 }
        (st.hist.getD (st.copyDist - 1) 0)).numToCopy = r.length := by
      simp only [DState.push]; rw [hn]; simp
    rw [ih _ hn']
    simp only [DState.push, List.length_cons, copyVals]
    have : st.numDecoded + 1 + r.length = st.numDecoded + (r.length + 1) := by omega
    rw [this]

theorem lit_step_lz (p : EntropyPlan) (lz : Lz77Params) (hlz : p.lz77 = some lz) (mult ctx v : Nat)
    (r : List Tok) (st : DState) (rest : Bits)
    (hv32 : v < 2 ^ 32) (hcfg : CfgOK (p.config (p.clusterOf ctx)))
    (hmin : tokenOf (p.config (p.clusterOf ctx)) v < lz.minSymbol)
    (hcopy : st.numToCopy = 0)
    (hok : ToksOK p (p.itemToks (.lit ctx v) ++ r))
    (hst : StateAt p (p.itemToks (.lit ctx v) ++ r) st) :
    ∃ x, (planDecoder p).readVarint st ctx mult
        ((streamOf p (p.itemToks (.lit ctx v) ++ r)).2 ++ rest)
      = .ok ((v, ({ st with ansState := x } : DState).push v), (streamOf p r).2 ++ rest) ∧
      StateAt p r { st with ansState := x } := by
  have htk : p.itemToks (.lit ctx v) =
      [⟨p.clusterOf ctx, tokenOf (p.config (p.clusterOf ctx)) v, uintBits (p.config (p.clusterOf ctx)) v⟩] := rfl
  rw [htk] at hok hst ⊢
  simp only [List.singleton_append] at hok hst ⊢
  obtain ⟨x, hpop, hst'⟩ := pop p _ _ hok st hst rest
  refine ⟨x, ?_, hst'⟩
  unfold Decoder.readVarint Decoder.readClustered
  have : (planDecoder p).lz77 = some lz := hlz
  rw [this]
  simp only
  unfold Decoder.readLz
  have h0 : ¬ st.numToCopy > 0 := by omega
  simp only [h0, if_false]
  have hcl : (planDecoder p).clusters.getD ctx 0 = p.clusterOf ctx := rfl
  rw [hcl, hpop]
  simp only
  have hlt : ¬ tokenOf (p.config (p.clusterOf ctx)) v ≥ lz.minSymbol := by omega
  simp only [hlt, if_false]
  have hcf : (planDecoder p).configs.getD (p.clusterOf ctx) default = p.config (p.clusterOf ctx) := rfl
  rw [hcf, readUint_splitUint _ hcfg v hv32]

theorem copy_start (p : EntropyPlan) (lz : Lz77Params) (hlz : p.lz77 = some lz) (mult ctx len dc : Nat)
    (r : List Tok) (st : DState) (rest : Bits)
    (hdc : dc < 2 ^ 32) (hlen : len < 2 ^ 32) (hml : lz.minLength ≤ len)
    (hcfgd : CfgOK (p.config p.lzCluster)) (hcfgl : CfgOK lz.lenConf)
    (hcopy : st.numToCopy = 0) (hne : st.numDecoded ≠ 0)
    (hok : ToksOK p (p.itemToks (.copy ctx len dc) ++ r))
    (hst : StateAt p (p.itemToks (.copy ctx len dc) ++ r) st) :
    ∃ x, (planDecoder p).readVarint st ctx mult
        ((streamOf p (p.itemToks (.copy ctx len dc) ++ r)).2 ++ rest)
      = .ok ((st.hist.getD (lzCopyDistance mult dc st.numDecoded - 1) 0,
              ({ st with ansState := x, numToCopy := len - 1,
                         copyDist := lzCopyDistance mult dc st.numDecoded } : DState).push
                (st.hist.getD (lzCopyDistance mult dc st.numDecoded - 1) 0)),
             (streamOf p r).2 ++ rest) ∧
      StateAt p r { st with ansState := x } := by
  have htk : p.itemToks (.copy ctx len dc) =
      [⟨p.clusterOf ctx, lz.minSymbol + tokenOf lz.lenConf (len - lz.minLength),
          uintBits lz.lenConf (len - lz.minLength)⟩,
       ⟨p.lzCluster, tokenOf (p.config p.lzCluster) dc, uintBits (p.config p.lzCluster) dc⟩] := by
    simp only [EntropyPlan.itemToks, hlz]
  rw [htk] at hok hst ⊢
  simp only [List.cons_append, List.nil_append] at hok hst ⊢
  obtain ⟨x1, hpop1, hst1⟩ := pop p _ _ hok st hst rest
  obtain ⟨x2, hpop2, hst2⟩ := pop p _ _ hok.tail _ hst1 rest
  refine ⟨x2, ?_, ?_⟩
  · unfold Decoder.readVarint Decoder.readClustered
    have : (planDecoder p).lz77 = some lz := hlz
    rw [this]
    simp only
    unfold Decoder.readLz
    have h0 : ¬ st.numToCopy > 0 := by omega
    simp only [h0, if_false]
    have hcl : (planDecoder p).clusters.getD ctx 0 = p.clusterOf ctx := rfl
    rw [hcl, hpop1]
    simp only
    have hge : lz.minSymbol + tokenOf lz.lenConf (len - lz.minLength) ≥ lz.minSymbol := by omega
    simp only [hge, if_true, hne, if_false]
    rw [Nat.add_sub_cancel_left, readUint_splitUint _ hcfgl _ (by omega)]
    simp only
    have hov : ¬ len - lz.minLength + lz.minLength ≥ 2 ^ 32 := by omega
    simp only [hov, if_false]
    have hlc : (planDecoder p).lzDistCluster = p.lzCluster := rfl
    rw [hlc, hpop2]
    simp only
    have hcf : (planDecoder p).configs.getD p.lzCluster default = p.config p.lzCluster := rfl
    rw [hcf, readUint_splitUint _ hcfgd dc hdc]
    simp only [Nat.sub_add_cancel hml]
  · exact hst2.congr rfl rfl

theorem ItemsOK.mono {p : EntropyPlan} {items : List Item} {P : Prop} (h : ItemsOK p items True)
    (hp : P) : ItemsOK p items P := by
  cases items with
  | nil => trivial
  | cons i r =>
    obtain ⟨h1, h2⟩ := h
    refine ⟨?_, h2⟩
    cases i with
    | lit c v => exact h1
    | copy c len dc => exact ⟨hp, h1.2⟩

theorem copyVals_hist_length (d n : Nat) (hist : List Nat) :
    (copyVals d n hist).2.length = hist.length + n := by
  rw [copyVals_vals]; simp [copyVals_length]; omega

theorem streamOf_nil (p : EntropyPlan) : (streamOf p []).2 = [] := by
  unfold streamOf
  cases p.coder <;> simp [encodeToksPrefix, encodeToksAns]

/-- **LZ77 streams**: decoding the encoded parse yields the values of `decodeVals`, consumes
exactly the encoded bits and leaves the coder at the end of the stream. -/
theorem lz_seq (p : EntropyPlan) (lz : Lz77Params) (hlz : p.lz77 = some lz) (mult : Nat)
    (items : List Item) (ctxs : List Nat) (st : DState) (rest : Bits)
    (hctx : CtxsFor items ctxs) (hitems : ItemsOK p items (st.numDecoded ≠ 0))
    (hok : ToksOK p (p.toks items)) (hst : StateAt p (p.toks items) st)
    (hcopy : st.numToCopy = 0) (hnd : st.numDecoded = st.hist.length) :
    ∃ st', (planDecoder p).readSeq mult ctxs st ((streamOf p (p.toks items)).2 ++ rest)
        = .ok (((decodeVals mult items st.hist).1, st'), rest) ∧
      st'.hist = (decodeVals mult items st.hist).2 ∧ st'.numToCopy = 0 ∧
      st'.numDecoded = st'.hist.length ∧ StateAt p [] st' := by
  induction items generalizing ctxs st with
  | nil =>
    simp only [CtxsFor] at hctx
    subst hctx
    refine ⟨st, ?_, rfl, hcopy, hnd, hst⟩
    simp only [EntropyPlan.toks, List.flatMap_nil, streamOf_nil, List.nil_append, Decoder.readSeq,
      decodeVals]
  | cons i r ih =>
    rw [toks_cons] at hok hst ⊢
    obtain ⟨hi, hr⟩ := hitems
    cases i with
    | lit ctx v =>
      obtain ⟨cs', rfl, hctx'⟩ := hctx
      obtain ⟨hv32, hcfg, hmin⟩ := hi
      obtain ⟨x, hrv, hst1⟩ := lit_step_lz p lz hlz mult ctx v (p.toks r) st rest hv32 hcfg
        (hmin lz hlz) hcopy hok hst
      have hok' : ToksOK p (p.toks r) := by
        have : p.itemToks (.lit ctx v) ++ p.toks r = _ :: p.toks r := rfl
        rw [this] at hok; exact hok.tail
      obtain ⟨st', hseq, h1, h2, h3, h4⟩ := ih cs' (({ st with ansState := x } : DState).push v)
        hctx' (hr.mono (by simp [DState.push])) hok' (hst1.congr rfl rfl)
        (by simp [DState.push, hcopy]) (by simp [DState.push, hnd])
      refine ⟨st', ?_, ?_, h2, h3, h4⟩
      · rw [readSeq_cons, hrv]
        simp only
        rw [hseq]
        simp [decodeVals, DState.push]
      · rw [h1]; simp [decodeVals, DState.push]
    | copy ctx len dc =>
      obtain ⟨mid, cs', rfl, hmid, hctx'⟩ := hctx
      obtain ⟨hne, hdc, hlen, hlen1, hcfgd, lz', hlz', hml, hcfgl⟩ := hi
      have : lz' = lz := by rw [hlz] at hlz'; exact (Option.some.inj hlz').symm
      subst this
      obtain ⟨x, hrv, hst1⟩ := copy_start p lz' hlz mult ctx len dc (p.toks r) st rest hdc hlen hml
        hcfgd hcfgl hcopy hne hok hst
      have hok' : ToksOK p (p.toks r) := by
        have h2 : ∃ a b, p.itemToks (.copy ctx len dc) = [a, b] := by
          simp only [EntropyPlan.itemToks, hlz]; exact ⟨_, _, rfl⟩
        obtain ⟨a, b, hab⟩ := h2
        rw [hab] at hok; exact ToksOK.tail (ToksOK.tail hok)
      -- the state after the first copied value
      generalize hd : lzCopyDistance mult dc st.numDecoded = dist at hrv
      generalize hr0 : st.hist.getD (dist - 1) 0 = r0 at hrv
      generalize hs1 : ({ st with ansState := x, numToCopy := len - 1, copyDist := dist } : DState).push r0
        = st1 at hrv
      have e1 : st1.numToCopy = mid.length := by rw [← hs1, hmid]; rfl
      have hph := copy_phase (planDecoder p) lz' hlz mult mid st1
        ((streamOf p (p.toks r)).2 ++ rest) e1
      have e2 : st1.copyDist = dist := by rw [← hs1]; rfl
      have e3 : st1.hist = r0 :: st.hist := by rw [← hs1]; rfl
      have e4 : st1.numDecoded = st.numDecoded + 1 := by rw [← hs1]; rfl
      rw [e2, e3, hmid] at hph
      generalize hcv : copyVals dist (len - 1) (r0 :: st.hist) = cv at hph
      obtain ⟨st', hseq, h1, h2, h3, h4⟩ := ih cs'
        { st1 with hist := cv.2, numToCopy := 0, copyDist := dist,
                   numDecoded := st1.numDecoded + (len - 1) }
        hctx' (hr.mono (by simp only; omega)) hok'
        (hst1.congr (by rw [← hs1]; rfl) (by rw [← hs1]; rfl)) rfl
        (by simp only; rw [← hcv, copyVals_hist_length, e4, hnd]; simp)
      have hdv : decodeVals mult (Item.copy ctx len dc :: r) st.hist
          = (r0 :: cv.1 ++ (decodeVals mult r cv.2).1, (decodeVals mult r cv.2).2) := by
        simp only [decodeVals]
        rw [← hnd, hd]
        have : len = (len - 1) + 1 := by omega
        rw [this]
        simp only [copyVals, Nat.add_sub_cancel]
        rw [hr0, hcv]
      refine ⟨st', ?_, ?_, h2, h3, h4⟩
      · rw [readSeq_cons, hrv]
        simp only
        rw [readSeq_append _ _ _ _ _ _ _ _ _ hph, hseq, hdv]
        simp
      · rw [h1, hdv]

end Jxl.Entropy
