import JxlModel.Proofs.Entropy.Top
/-! RLE mode (`as_rle`, `DecoderRleMode::read_varint_clustered`) against the general LZ77 path. -/
namespace Jxl.Entropy
open Jxl Jxl.Enc

/-- with a non-zero multiplier the distance code 1 is the special distance `[1, 0]`: one back -/
theorem lzCopyDistance_one (mult n : Nat) (hm : mult ≠ 0) (hn : 1 ≤ n) : lzCopyDistance mult 1 n = 1 := by
  unfold lzCopyDistance lzRawDistance
  have ht : Jxl.Gen.lz77SpecialDistances.getD 1 (0, 0) = (1, 0) := by decide
  simp only [hm, if_false, show (1 : Nat) < 120 by omega, if_true, ht]
  simp [lzWindow]
  omega

/-- how the caller (jxl-modular `RleState`) expands RLE tokens: a value is emitted once and
remembered, a repeat emits the remembered value `n` times -/
def rleExpand : List RleToken → Nat → List Nat
  | [], _ => []
  | .value v :: r, _ => v :: rleExpand r v
  | .rep n :: r, last => List.replicate n last ++ rleExpand r last

/-- the RLE token of an item -/
def rleTokOf : Item → RleToken
  | .lit _ v => .value v
  | .copy _ len _ => .rep len

theorem copyVals_dist1 (n : Nat) (a : Nat) (h : List Nat) :
    copyVals 1 n (a :: h) = (List.replicate n a, List.replicate n a ++ a :: h) := by
  induction n generalizing h with
  | zero => rfl
  | succ n ih =>
    simp only [copyVals, Nat.sub_self, List.getD_cons_zero]
    rw [ih]
    simp only [List.replicate_succ, List.cons_append, Prod.mk.injEq, true_and]
    have : ∀ (m : Nat) (t : List Nat), List.replicate m a ++ a :: t = a :: (List.replicate m a ++ t) := by
      intro m
      induction m with
      | zero => intro t; rfl
      | succ m ihm => intro t; simp only [List.replicate_succ, List.cons_append]; rw [ihm]
    exact this n (a :: h)

/-- all copies use distance code 1 -/
def AllDist1 : List Item → Prop
  | [] => True
  | .lit _ _ :: r => AllDist1 r
  | .copy _ _ dc :: r => dc = 1 ∧ AllDist1 r

/-- **Spec level**: expanding the RLE tokens = the LZ77 expansion, when every copy is
"distance code 1" and the multiplier is non-zero -/
theorem rleExpand_eq_decodeVals (mult : Nat) (hm : mult ≠ 0) (items : List Item) (a : Nat) (h : List Nat)
    (hd : AllDist1 items) :
    (decodeVals mult items (a :: h)).1 = rleExpand (items.map rleTokOf) a := by
  induction items generalizing a h with
  | nil => rfl
  | cons i r ih =>
    cases i with
    | lit c v =>
      simp only [decodeVals, List.map_cons, rleTokOf, rleExpand]
      rw [ih v (a :: h) hd]
    | copy c len dc =>
      obtain ⟨rfl, hd'⟩ := hd
      simp only [decodeVals, List.map_cons, rleTokOf, rleExpand]
      rw [lzCopyDistance_one mult _ hm (by simp), copyVals_dist1]
      simp only
      cases len with
      | zero => simp only [List.replicate_zero, List.nil_append]; exact ih a h hd'
      | succ n =>
        have : List.replicate (n + 1) a ++ a :: h = a :: (List.replicate n a ++ a :: h) := by
          simp [List.replicate_succ]
        rw [this, ih a _ hd']

/-! ## stream level -/

/-- one `read_varint_clustered` per context -/
def readRleSeq (d : Decoder) (lz : Lz77Params) : List Nat → DState → Bits → R (List RleToken × DState)
  | [], st, s => .ok (([], st), s)
  | c :: cs, st, s =>
    match d.readRle lz st (d.clusters.getD c 0) s with
    | .error e => .error e
    | .ok ((t, st1), s1) =>
      match readRleSeq d lz cs st1 s1 with
      | .error e => .error e
      | .ok ((ts, st2), s2) => .ok ((t :: ts, st2), s2)

def itemCtx : Item → Nat
  | .lit c _ => c
  | .copy c _ _ => c

/-- the distance token of an RLE-shaped stream costs nothing: no bits and no state change.
(Holds for prefix plans whose distance cluster is the zero-bit code of symbol 1 with
`split_exponent = 0`, see `distTok_free_prefix`; for ANS it is the fact that a probability-4096
symbol leaves the state untouched.) -/
def DistTokFree (p : EntropyPlan) : Prop :=
  ∀ r : List Tok,
    streamOf p (⟨p.lzCluster, tokenOf (p.config p.lzCluster) 1, uintBits (p.config p.lzCluster) 1⟩ :: r)
      = streamOf p r

theorem rle_seq (p : EntropyPlan) (lz : Lz77Params) (hlz : p.lz77 = some lz) (hfree : DistTokFree p)
    (items : List Item) (st : DState) (rest : Bits)
    (hitems : ItemsOK p items True) (hd : AllDist1 items)
    (hok : ToksOK p (p.toks items)) (hst : StateAt p (p.toks items) st) :
    ∃ x, readRleSeq (planDecoder p) lz (items.map itemCtx) st ((streamOf p (p.toks items)).2 ++ rest)
        = .ok ((items.map rleTokOf, { st with ansState := x }), rest) ∧
      StateAt p [] { st with ansState := x } := by
  induction items generalizing st with
  | nil =>
    refine ⟨st.ansState, ?_, hst⟩
    simp only [EntropyPlan.toks, List.flatMap_nil, streamOf_nil, List.nil_append, List.map_nil,
      readRleSeq]
  | cons i r ih =>
    rw [toks_cons] at hok hst ⊢
    obtain ⟨hi, hr⟩ := hitems
    cases i with
    | lit ctx v =>
      obtain ⟨hv32, hcfg, hmin⟩ := hi
      have htk : p.itemToks (.lit ctx v) =
          [⟨p.clusterOf ctx, tokenOf (p.config (p.clusterOf ctx)) v, uintBits (p.config (p.clusterOf ctx)) v⟩] := rfl
      rw [htk] at hok hst ⊢
      simp only [List.singleton_append] at hok hst ⊢
      obtain ⟨x, hpop, hst'⟩ := pop p _ _ hok st hst rest
      obtain ⟨x', hseq, hfin⟩ := ih { st with ansState := x } hr hd hok.tail hst'
      refine ⟨x', ?_, hfin⟩
      simp only [List.map_cons, itemCtx, readRleSeq, rleTokOf]
      unfold Decoder.readRle
      have hcl : (planDecoder p).clusters.getD ctx 0 = p.clusterOf ctx := rfl
      rw [hcl, hpop]
      simp only
      have hlt : ¬ tokenOf (p.config (p.clusterOf ctx)) v ≥ lz.minSymbol := by
        have := hmin lz hlz; omega
      simp only [hlt, if_false]
      have hcf : (planDecoder p).configs.getD (p.clusterOf ctx) default = p.config (p.clusterOf ctx) := rfl
      rw [hcf, readUint_splitUint _ hcfg v hv32]
      simp only
      rw [hseq]
    | copy ctx len dc =>
      obtain ⟨rfl, hd'⟩ := hd
      obtain ⟨_, hdc, hlen, hlen1, hcfgd, lz', hlz', hml, hcfgl⟩ := hi
      have : lz' = lz := by rw [hlz] at hlz'; exact (Option.some.inj hlz').symm
      subst this
      have htk : p.itemToks (.copy ctx len 1) =
          [⟨p.clusterOf ctx, lz'.minSymbol + tokenOf lz'.lenConf (len - lz'.minLength),
              uintBits lz'.lenConf (len - lz'.minLength)⟩,
           ⟨p.lzCluster, tokenOf (p.config p.lzCluster) 1, uintBits (p.config p.lzCluster) 1⟩] := by
        simp only [EntropyPlan.itemToks, hlz]
      rw [htk] at hok hst ⊢
      simp only [List.cons_append, List.nil_append] at hok hst ⊢
      obtain ⟨x, hpop, hst'⟩ := pop p _ _ hok st hst rest
      rw [hfree] at hpop
      have hst'' : StateAt p (p.toks r) { st with ansState := x } := by
        unfold StateAt at hst' ⊢
        rw [hfree] at hst'
        exact hst'
      obtain ⟨x', hseq, hfin⟩ := ih { st with ansState := x } hr hd' hok.tail.tail hst''
      refine ⟨x', ?_, hfin⟩
      simp only [List.map_cons, itemCtx, readRleSeq, rleTokOf]
      unfold Decoder.readRle
      have hcl : (planDecoder p).clusters.getD ctx 0 = p.clusterOf ctx := rfl
      rw [hcl, hpop]
      simp only
      have hge : lz'.minSymbol + tokenOf lz'.lenConf (len - lz'.minLength) ≥ lz'.minSymbol := by omega
      simp only [hge, if_true]
      rw [Nat.add_sub_cancel_left, readUint_splitUint _ hcfgl _ (by omega)]
      simp only
      simp only [Nat.sub_add_cancel hml]
      have hov : ¬ len ≥ 2 ^ 32 := by omega
      simp only [hov, if_false]
      rw [hseq]

/-- the distance token is free in a prefix plan of RLE shape -/
theorem distTok_free_prefix (p : EntropyPlan) (hc : p.coder = .prefix)
    (hcode : (p.codes.map CodeSpec.prefixCode).getD p.lzCluster default = .single 1)
    (hse : (p.config p.lzCluster).splitExponent = 0) (hcfg : CfgOK (p.config p.lzCluster)) :
    DistTokFree p := by
  intro r
  unfold streamOf
  simp only [hc, encodeToksPrefix, hcode, PrefixCode.encode, List.nil_append]
  have : uintBits (p.config p.lzCluster) 1 = [] := by
    unfold CfgOK at hcfg
    generalize p.config p.lzCluster = c at *
    obtain ⟨se, msb, lsb⟩ := c
    simp only at hse hcfg
    subst hse
    have hm : msb = 0 := by omega
    have hl : lsb = 0 := by omega
    subst hm; subst hl
    rfl
  rw [this]
  rfl

end Jxl.Entropy
