import JxlModel.Proofs.Entropy.AnsHistLog
/-!
# General ANS histogram header — second decoder loop (`readCounts`)

Over the code list `codeAt` and the mantissa bits `p2`, the loop rebuilds every entry except the
omitted one, and accumulates their sum.
-/
namespace Jxl.Entropy
open Jxl Jxl.Enc

/-- mantissa bits of the second part for index `i` -/
def p2 (x : Nat → Nat) (shift op : Nat) (rs : List (Nat × Nat)) (i : Nat) : Bits :=
  if inRunB rs i ∨ i = op then []
  else if logCount (x i) > 1 then
    toBits (mantissaBits shift (logCount (x i)))
      ((x i - 2 ^ (logCount (x i) - 1))
        / 2 ^ ((logCount (x i) - 1) - mantissaBits shift (logCount (x i))))
  else []

/-- the run bookkeeping at the head of the loop body: remaining runs, and "this index repeats" -/
def runStep (runs : List (Nat × Nat)) (idx : Nat) : List (Nat × Nat) × Bool :=
  match runs with
  | (a, b) :: rr => if a ≤ idx then (if b = idx then (rr, false) else (runs, true)) else (runs, false)
  | [] => ([], false)

/-- the value the decoder leaves at index `j` before the final patch of the omitted position -/
def yv (x : Nat → Nat) (op j : Nat) : Nat := if j = op then logCount (x op) else x j

/-- contribution of index `j` to the accumulator -/
def ex (x : Nat → Nat) (op j : Nat) : Nat := if j = op then 0 else x j

def sumEx (x : Nat → Nat) (op i n : Nat) : Nat := ((List.range' i n).map (ex x op)).sum

/-- `prev_dist` when the loop reaches index `i` -/
def prevV (x : Nat → Nat) (op i : Nat) : Nat := if i = 0 then 0 else ex x op (i - 1)

theorem sumEx_zero (x : Nat → Nat) (op i : Nat) : sumEx x op i 0 = 0 := rfl

theorem sumEx_succ (x : Nat → Nat) (op i n : Nat) :
    sumEx x op i (n + 1) = ex x op i + sumEx x op (i + 1) n := by
  simp [sumEx, List.range'_succ]

theorem sumEx_split (x : Nat → Nat) (op i n l : Nat) (h : l ≤ n) :
    sumEx x op i n = sumEx x op i l + sumEx x op (i + l) (n - l) := by
  simp only [sumEx]
  rw [range'_split i n l h, List.map_append, List.sum_append]

theorem range'_map_const {α : Type} (f : Nat → α) (v : α) (n lo : Nat)
    (h : ∀ j, lo ≤ j → j < lo + n → f j = v) : (List.range' lo n).map f = List.replicate n v := by
  rw [List.eq_replicate_iff]
  refine ⟨by simp, ?_⟩
  intro b hb
  rw [List.mem_map] at hb
  obtain ⟨j, hj, rfl⟩ := hb
  rw [List.mem_range'_1] at hj
  exact h j hj.1 hj.2

theorem sumEx_const (x : Nat → Nat) (op i n v : Nat)
    (h : ∀ j, i ≤ j → j < i + n → j ≠ op ∧ x j = v) : sumEx x op i n = n * v := by
  simp only [sumEx]
  rw [range'_map_const (ex x op) v n i (fun j h1 h2 => by
    have := h j h1 h2
    simp [ex, this.1, this.2]), List.sum_replicate_nat]

/-! ## log counts and mantissas -/

theorem logCount_eq_zero {v : Nat} : logCount v = 0 ↔ v = 0 := by
  unfold logCount
  by_cases h : v = 0 <;> simp [h]

theorem logCount_pos {v : Nat} (h : v ≠ 0) : logCount v = Nat.log2 v + 1 := by
  unfold logCount; rw [if_neg h]

theorem two_le_of_logCount {v : Nat} (h : logCount v > 1) : 2 ≤ v := by
  have h0 : v ≠ 0 := fun h0 => by subst h0; simp [logCount] at h
  rw [logCount_pos h0] at h
  have h1 := Nat.log2_self_le h0
  have h2 : 2 ^ 1 ≤ 2 ^ Nat.log2 v := Nat.pow_le_pow_right (by omega) (by omega)
  omega

theorem eq_one_of_logCount {v : Nat} (h0 : logCount v ≠ 0) (h : ¬ logCount v > 1) : v = 1 := by
  have hv : v ≠ 0 := fun hv => h0 (logCount_eq_zero.2 hv)
  rw [logCount_pos hv] at h
  have h1 : Nat.log2 v = 0 := by omega
  have h2 : v < 2 ^ (Nat.log2 v + 1) := Nat.lt_log2_self
  rw [h1] at h2
  omega

/-- the transmitted mantissa is enough to rebuild a representable value -/
theorem mantissa_rt (v z bc : Nat) (hl : 2 ^ z ≤ v) (hu : v < 2 ^ (z + 1)) (hbc : bc ≤ z)
    (h : v / 2 ^ (z - bc) * 2 ^ (z - bc) = v) :
    (v - 2 ^ z) / 2 ^ (z - bc) < 2 ^ bc ∧
    2 ^ z + (v - 2 ^ z) / 2 ^ (z - bc) * 2 ^ (z - bc) = v := by
  have hz : 2 ^ z = 2 ^ bc * 2 ^ (z - bc) := by
    rw [← Nat.pow_add]; congr 1; omega
  have hp : 0 < 2 ^ (z - bc) := Nat.pos_of_ne_zero (by simp)
  generalize 2 ^ (z - bc) = p at *
  generalize 2 ^ bc = q at *
  rw [Nat.pow_succ] at hu
  generalize 2 ^ z = Z at *
  subst hz
  constructor
  · rw [Nat.div_lt_iff_lt_mul hp]; omega
  · have e : v - q * p = (v / p - q) * p := by
      rw [Nat.sub_mul, h]
    rw [e, Nat.mul_div_cancel _ hp, ← e]
    omega

/-! ## unfolding `readCounts` -/

theorem readCounts_nil (shift op idx : Nat) (st : DistState) (s : Bits) :
    readCounts shift op [] idx st s = .ok (st, s) := by
  rw [readCounts]

theorem readCounts_cons (shift op code : Nat) (rest : List Nat) (idx : Nat) (st : DistState)
    (s : Bits) :
    readCounts shift op (code :: rest) idx st s =
      if (runStep st.runs idx).2 = true then
        (if st.acc + st.prev > 4096 then .error .invalidAnsHistogram
         else readCounts shift op rest (idx + 1)
           { st with out := st.prev :: st.out, acc := st.acc + st.prev,
                     runs := (runStep st.runs idx).1 } s)
      else if code = 0 then
        readCounts shift op rest (idx + 1)
          { st with out := 0 :: st.out, prev := 0, runs := (runStep st.runs idx).1 } s
      else if idx = op then
        readCounts shift op rest (idx + 1)
          { st with out := code :: st.out, prev := 0, runs := (runStep st.runs idx).1 } s
      else if code > 1 then
        match rbits (mantissaBits shift code) s with
        | .error e => .error e
        | .ok (b, s1) =>
          let v := 2 ^ (code - 1) + b * 2 ^ (code - 1 - mantissaBits shift code)
          if st.acc + v > 4096 then .error .invalidAnsHistogram
          else readCounts shift op rest (idx + 1)
            { out := v :: st.out, acc := st.acc + v, prev := v,
              runs := (runStep st.runs idx).1 } s1
      else
        if st.acc + code > 4096 then .error .invalidAnsHistogram
        else readCounts shift op rest (idx + 1)
            { out := code :: st.out, acc := st.acc + code, prev := code,
              runs := (runStep st.runs idx).1 } s := by
  rw [readCounts]
  rfl

/-- representability of the non-omitted entries, as a statement about the entry function -/
def ReprFn (shift : Nat) (x : Nat → Nat) (op : Nat) : Prop :=
  ∀ j, j ≠ op → x j ≤ 1 ∨
    x j / 2 ^ ((logCount (x j) - 1) - mantissaBits shift (logCount (x j)))
      * 2 ^ ((logCount (x j) - 1) - mantissaBits shift (logCount (x j))) = x j

/-- one index outside the runs -/
theorem readCounts_normal (x : Nat → Nat) (shift op : Nat) (hrepr : ReprFn shift x op)
    (rs : List (Nat × Nat)) (i : Nat) (restc : List Nat) (st : DistState)
    (dr' : List (Nat × Nat)) (s : Bits)
    (hrun : runStep st.runs i = (dr', false)) (hk : inRunB rs i = false)
    (hacc : st.acc + ex x op i ≤ 4096) :
    readCounts shift op (logCount (x i) :: restc) i st (p2 x shift op rs i ++ s)
      = readCounts shift op restc (i + 1)
          { out := yv x op i :: st.out, acc := st.acc + ex x op i, prev := ex x op i, runs := dr' }
          s := by
  rw [readCounts_cons, hrun]
  simp only [Bool.false_eq_true, if_false]
  by_cases hc0 : logCount (x i) = 0
  · rw [if_pos hc0]
    have hx0 : x i = 0 := logCount_eq_zero.1 hc0
    have hp2 : p2 x shift op rs i = [] := by
      unfold p2; rw [hk]
      by_cases hio : i = op
      · simp [hio]
      · simp [hio, hc0]
    have hy : yv x op i = 0 := by
      unfold yv
      by_cases hio : i = op
      · rw [if_pos hio, ← hio, hc0]
      · rw [if_neg hio, hx0]
    have he : ex x op i = 0 := by
      unfold ex
      by_cases hio : i = op
      · rw [if_pos hio]
      · rw [if_neg hio, hx0]
    rw [hp2, hy, he]
    rfl
  · rw [if_neg hc0]
    by_cases hio : i = op
    · rw [if_pos hio]
      have hp2 : p2 x shift op rs i = [] := by
        unfold p2; simp [hio]
      have hy : yv x op i = logCount (x i) := by
        unfold yv; rw [if_pos hio, hio]
      have he : ex x op i = 0 := by
        unfold ex; rw [if_pos hio]
      rw [hp2, hy, he]
      rfl
    · rw [if_neg hio]
      have hy : yv x op i = x i := by unfold yv; rw [if_neg hio]
      have he : ex x op i = x i := by unfold ex; rw [if_neg hio]
      rw [he] at hacc
      rw [hy, he]
      by_cases hc1 : logCount (x i) > 1
      · rw [if_pos hc1]
        have h2 := two_le_of_logCount hc1
        have hv0 : x i ≠ 0 := by omega
        have hlc := logCount_pos hv0
        have hp2 : p2 x shift op rs i = toBits (mantissaBits shift (logCount (x i)))
            ((x i - 2 ^ (logCount (x i) - 1))
              / 2 ^ ((logCount (x i) - 1) - mantissaBits shift (logCount (x i)))) := by
          unfold p2; rw [hk]; simp [hio, hc1]
        have hr : x i / 2 ^ ((logCount (x i) - 1) - mantissaBits shift (logCount (x i)))
            * 2 ^ ((logCount (x i) - 1) - mantissaBits shift (logCount (x i))) = x i := by
          rcases hrepr i hio with h | h
          · omega
          · exact h
        have hbc : mantissaBits shift (logCount (x i)) ≤ logCount (x i) - 1 := by
          unfold mantissaBits; exact Nat.min_le_right _ _
        have hl : 2 ^ (logCount (x i) - 1) ≤ x i := by
          rw [hlc]; exact Nat.log2_self_le hv0
        have hu : x i < 2 ^ (logCount (x i) - 1 + 1) := by
          rw [hlc]; exact Nat.lt_log2_self
        obtain ⟨m1, m2⟩ := mantissa_rt (x i) (logCount (x i) - 1)
          (mantissaBits shift (logCount (x i))) hl hu hbc hr
        rw [hp2, rbits_toBits _ _ _ m1]
        simp only
        rw [m2, if_neg (by omega)]
      · rw [if_neg hc1]
        have h1 := eq_one_of_logCount hc0 hc1
        have hp2 : p2 x shift op rs i = [] := by
          unfold p2; rw [hk]; simp [hio, hc1]
        have hlc1 : logCount (x i) = 1 := by rw [h1]; rfl
        rw [hp2, hlc1, if_neg (by omega)]
        rw [h1]
        rfl

theorem replicate_append_cons {α : Type} (n : Nat) (v : α) (l : List α) :
    List.replicate n v ++ v :: l = List.replicate (n + 1) v ++ l := by
  induction n with
  | zero => rfl
  | succ n ih =>
    rw [List.replicate_succ, List.cons_append, ih]
    rfl

/-- the indices inside a run: `prev` is repeated, nothing is read -/
theorem readCounts_runSteps (shift op : Nat) (more : List Nat) (s0 e : Nat)
    (rr : List (Nat × Nat)) :
    ∀ (cs : List Nat) (idx : Nat) (out : List Nat) (acc prev : Nat) (s : Bits),
      s0 ≤ idx → idx + cs.length ≤ e → acc + cs.length * prev ≤ 4096 →
      readCounts shift op (cs ++ more) idx
          { out := out, acc := acc, prev := prev, runs := (s0, e) :: rr } s
        = readCounts shift op more (idx + cs.length)
          { out := List.replicate cs.length prev ++ out, acc := acc + cs.length * prev, prev := prev,
            runs := (s0, e) :: rr } s := by
  intro cs
  induction cs with
  | nil =>
    intro idx out acc prev s _ _ _
    simp
  | cons c cs ih =>
    intro idx out acc prev s h1 h2 h3
    simp only [List.length_cons] at h2 h3
    rw [Nat.succ_mul] at h3
    have hrun : runStep ((s0, e) :: rr) idx = ((s0, e) :: rr, true) := by
      simp only [runStep]
      rw [if_pos h1, if_neg (by omega)]
    rw [List.cons_append, readCounts_cons]
    simp only [hrun, if_true]
    rw [if_neg (by omega), ih (idx + 1) _ _ _ _ (by omega) (by omega) (by omega)]
    simp only [List.length_cons]
    rw [replicate_append_cons, Nat.succ_mul]
    have e1 : idx + 1 + cs.length = idx + (cs.length + 1) := by omega
    have e2 : acc + prev + cs.length * prev = acc + (cs.length * prev + prev) := by omega
    rw [e1, e2]

/-! ## the loop -/

/-- the decoder's remaining run list at index `i`, against the encoder's remaining runs `rs`:
either in step, or still holding a run that ends exactly at `i` -/
def DRinv (x : Nat → Nat) (op a i : Nat) (rs dr : List (Nat × Nat)) : Prop :=
  (dr = rs.map runConv ∧ RunsOK x op a i rs) ∨
  (∃ s0, s0 ≤ i ∧ dr = (s0, i) :: rs.map runConv ∧ RunsOK x op a (i + 1) rs)

theorem p2_past (x : Nat → Nat) (shift op s l : Nat) (tl : List (Nat × Nat)) (i : Nat)
    (h : s + l ≤ i) (hl : 1 ≤ l) : p2 x shift op ((s, l) :: tl) i = p2 x shift op tl i := by
  have := kind_past s l tl i h hl
  simp only [p2, this.2]

theorem p2_run (x : Nat → Nat) (shift op s l : Nat) (tl : List (Nat × Nat)) :
    (List.range' s l).flatMap (p2 x shift op ((s, l) :: tl)) = [] := by
  rw [List.flatMap_eq_nil_iff]
  intro j hj
  rw [List.mem_range'_1] at hj
  have : inRunB ((s, l) :: tl) j = true := by
    simp [inRunB]; left; omega
  simp [p2, this]

theorem readCounts_main (x : Nat → Nat) (shift op a T : Nat) (hrepr : ReprFn shift x op)
    (haT : a ≤ T) :
    ∀ (n i : Nat) (rs : List (Nat × Nat)) (st : DistState) (rest : Bits),
      i + n = T → DRinv x op a i rs st.runs → st.prev = prevV x op i →
      st.acc + sumEx x op i n ≤ 4096 →
      ∃ p r, readCounts shift op ((List.range' i n).map (codeAt x rs)) i st
            ((List.range' i n).flatMap (p2 x shift op rs) ++ rest)
          = .ok (⟨((List.range' i n).map (yv x op)).reverse ++ st.out,
                  st.acc + sumEx x op i n, p, r⟩, rest) := by
  intro n
  induction n using Nat.strong_induction_on with
  | _ n ih =>
  intro i rs st rest hiT hdr hprev hacc
  cases n with
  | zero =>
    refine ⟨st.prev, st.runs, ?_⟩
    simp [readCounts_nil, sumEx_zero]
  | succ n =>
    rw [sumEx_succ] at hacc
    have hnormal : RunsOK x op a (i + 1) rs → runStep st.runs i = (rs.map runConv, false) →
        ∃ p r, readCounts shift op ((List.range' i (n + 1)).map (codeAt x rs)) i st
            ((List.range' i (n + 1)).flatMap (p2 x shift op rs) ++ rest)
          = .ok (⟨((List.range' i (n + 1)).map (yv x op)).reverse ++ st.out,
                  st.acc + sumEx x op i (n + 1), p, r⟩, rest) := by
      intro hrs' hrun
      have hk := kind_before rs i (fun r hr => by have := hrs'.start_ge r hr; omega)
      rw [List.range'_succ, List.flatMap_cons, List.map_cons, List.map_cons, codeAt_normal hk,
        List.append_assoc,
        readCounts_normal x shift op hrepr rs i _ st _ _ hrun hk.2 (by omega)]
      obtain ⟨p, r, h⟩ := ih n (by omega) (i + 1) rs
        { out := yv x op i :: st.out, acc := st.acc + ex x op i, prev := ex x op i,
          runs := rs.map runConv } rest (by omega) (Or.inl ⟨rfl, hrs'⟩)
        (by simp [prevV]) (by simp only; omega)
      refine ⟨p, r, ?_⟩
      rw [h, sumEx_succ]
      simp [Nat.add_assoc]
    rcases hdr with ⟨hdr, hrs⟩ | ⟨s0, hs0, hdr, hrs⟩
    · cases rs with
      | nil =>
        exact hnormal trivial (by rw [hdr]; rfl)
      | cons r tl =>
        obtain ⟨s, l⟩ := r
        by_cases hs : s = i
        · subst hs
          have hok := hrs.2.1
          have hl4 : 4 ≤ l := hok.len4
          have hin : s + l ≤ a := hok.inA
          have hln : l ≤ n + 1 := by omega
          have hruns : st.runs = (s, s + l) :: tl.map runConv := by rw [hdr]; rfl
          -- the value repeated by the run
          have hpv : prevV x op s = prevOf x s := by
            unfold prevV prevOf ex
            by_cases h0 : s = 0
            · simp [h0]
            · have := hok.notAfter
              simp only at this
              rw [if_neg h0, if_neg h0, if_neg (by omega)]
          have hconst : ∀ j, s ≤ j → j < s + l → j ≠ op ∧ x j = st.prev := fun j h1 h2 =>
            ⟨hok.noOp j h1 h2, by rw [hprev, hpv]; exact hok.eqPrev j h1 h2⟩
          have hsum : sumEx x op s l = l * st.prev := sumEx_const x op s l st.prev hconst
          have hsplit := sumEx_split x op s (n + 1) l hln
          rw [← sumEx_succ, hsplit, hsum] at hacc
          rw [range'_split s (n + 1) l hln, List.flatMap_append, List.map_append, List.map_append,
            p2_run, List.nil_append,
            range'_flatMap_congr (p2 x shift op ((s, l) :: tl)) (p2 x shift op tl) _ _
              (fun j h1 _ => p2_past x shift op s l tl j h1 (by omega)),
            range'_map_congr (codeAt x ((s, l) :: tl)) (codeAt x tl) _ _
              (fun j h1 _ => codeAt_past x s l tl j h1 (by omega))]
          have hst : st = ⟨st.out, st.acc, st.prev, (s, s + l) :: tl.map runConv⟩ := by
            cases st; simp only at hruns; subst hruns; rfl
          have hlen : ((List.range' s l).map (codeAt x ((s, l) :: tl))).length = l := by simp
          have hsteps := readCounts_runSteps shift op
            ((List.range' (s + l) (n + 1 - l)).map (codeAt x tl)) s (s + l) (tl.map runConv)
            ((List.range' s l).map (codeAt x ((s, l) :: tl))) s st.out st.acc st.prev
            ((List.range' (s + l) (n + 1 - l)).flatMap (p2 x shift op tl) ++ rest)
            (Nat.le_refl _) (le_of_eq (by rw [hlen])) (by rw [hlen]; omega)
          rw [hlen] at hsteps
          rw [hst, hsteps]
          have hlast : x (s + l - 1) = st.prev := (hconst (s + l - 1) (by omega) (by omega)).2
          have hlastne : s + l - 1 ≠ op := (hconst (s + l - 1) (by omega) (by omega)).1
          obtain ⟨p, r, h⟩ := ih (n + 1 - l) (by omega) (s + l) tl
            { out := List.replicate l st.prev ++ st.out, acc := st.acc + l * st.prev,
              prev := st.prev, runs := (s, s + l) :: tl.map runConv } rest (by omega)
            (Or.inr ⟨s, by omega, rfl, hrs.2.2⟩)
            (by
              simp only [prevV, ex]
              rw [if_neg (by omega), if_neg hlastne, hlast])
            (by simp only; omega)
          refine ⟨p, r, ?_⟩
          rw [h]
          simp only
          have hy : (List.range' s l).map (yv x op) = List.replicate l st.prev :=
            range'_map_const (yv x op) st.prev l s (fun j h1 h2 => by
              have := hconst j h1 h2
              simp [yv, this.1, this.2])
          rw [hsplit, hsum, hy, List.reverse_append, List.reverse_replicate, List.append_assoc,
            Nat.add_assoc]
        · have h1 := hrs.1
          simp only at h1
          refine hnormal ⟨by simp only; omega, hrs.2.1, hrs.2.2⟩ ?_
          rw [hdr]
          simp only [List.map_cons, runConv, runStep]
          rw [if_neg (by omega)]
    · refine hnormal hrs ?_
      rw [hdr]
      simp only [runStep]
      rw [if_pos hs0, if_pos trivial]

end Jxl.Entropy
