import Mathlib.Tactic.Ring
import Mathlib.Tactic.Linarith
import Mathlib.Data.List.Basic
import Mathlib.Data.List.Nodup
import Mathlib.Data.List.Perm.Subperm
import JxlModel.Model.Entropy.Ans
import JxlModel.Model.Enc.AnsEnc
import JxlModel.Proofs.Entropy.Seq
/-! The alias table of `ans::Histogram::parse`: an invariant over the overfull/underfull loop
shows that the final map is in range and onto `Σ_s [0, d s)`. -/
namespace Jxl.Entropy
open List Jxl.Enc

/-- bucket `i` of a working table -/
abbrev wb (bs : List WB) (i : Nat) : WB := bs.getD i default

theorem wb_set (bs : List WB) (i j : Nat) (a : WB) :
    wb (bs.set i a) j = if i = j ∧ i < bs.length then a else wb bs j := by
  unfold wb
  rw [getD_eq_getElem?_getD, getElem?_set, getD_eq_getElem?_getD]
  by_cases h : i = j
  · subst h
    by_cases h2 : i < bs.length
    · simp [h2]
    · simp [h2, getElem?_eq_none (Nat.le_of_not_lt h2)]
  · simp [h]

def WB.withCutoff (b : WB) (c : Nat) : WB := { b with cutoff := c }
def WB.withAlias (b : WB) (sym off : Nat) : WB := { b with aliasSym := sym, aliasOff := off }

/-- what one loop iteration does to the table -/
theorem aliasStep_spec (B : Nat) (bs : List WB) (o u : Nat) (ho : o < bs.length) (hu : u < bs.length)
    (hne : o ≠ u) :
    (aliasStep B bs o u).length = bs.length ∧
    wb (aliasStep B bs o u) o = (wb bs o).withCutoff ((wb bs o).cutoff - (B - (wb bs u).cutoff)) ∧
    wb (aliasStep B bs o u) u = (wb bs u).withAlias o ((wb bs o).cutoff - (B - (wb bs u).cutoff)) ∧
    ∀ i, i ≠ o → i ≠ u → wb (aliasStep B bs o u) i = wb bs i := by
  unfold aliasStep
  simp only
  have hne' : u ≠ o := fun h => hne h.symm
  refine ⟨by simp, ?_, ?_, ?_⟩
  · rw [wb_set, wb_set]
    simp [hne', ho, WB.withCutoff]
  · rw [wb_set]
    simp only [length_set, hu, and_self, if_true]
    have := wb_set bs o u ((wb bs o).withCutoff ((wb bs o).cutoff - (B - (wb bs u).cutoff)))
    simp only [hne, false_and, if_false] at this
    unfold wb WB.withCutoff at this
    unfold WB.withAlias wb
    rw [this]
  · intro i hio hiu
    rw [wb_set, wb_set]
    have h1 : ∀ n, ¬ (u = i ∧ u < n) := fun n h => hiu h.1.symm
    have h2 : ¬ (o = i ∧ o < bs.length) := fun h => hio h.1.symm
    simp only [h1, h2, if_false]

/-- sum of `f` over an index list -/
def sumL (l : List Nat) (f : Nat → Nat) : Nat := (l.map f).sum

theorem sumL_congr (l : List Nat) (f g : Nat → Nat) (h : ∀ i ∈ l, f i = g i) : sumL l f = sumL l g := by
  unfold sumL
  rw [map_congr_left h]

theorem sumL_cons (a : Nat) (l : List Nat) (f : Nat → Nat) : sumL (a :: l) f = f a + sumL l f := by
  simp [sumL]

theorem sumL_pos_of_mem (l : List Nat) (f : Nat → Nat) (h : ∀ i ∈ l, 0 < f i) (hne : l ≠ []) :
    0 < sumL l f := by
  cases l with
  | nil => exact absurd rfl hne
  | cons a r =>
    rw [sumL_cons]
    have := h a (by simp)
    omega

/-- the loop invariant -/
structure Inv (B : Nat) (ds : List Nat) (bs : List WB) (over under : List Nat) : Prop where
  len : bs.length = ds.length
  dist : ∀ i, i < ds.length → (wb bs i).dist = ds.getD i 0
  cut_le : ∀ i, i < ds.length → (wb bs i).cutoff ≤ ds.getD i 0
  nodup : (over ++ under).Nodup
  over_gt : ∀ i ∈ over, i < ds.length ∧ B < (wb bs i).cutoff
  under_lt : ∀ i ∈ under, i < ds.length ∧ (wb bs i).cutoff < B
  rest_le : ∀ i, i < ds.length → i ∉ over → (wb bs i).cutoff ≤ B
  ret_ok : ∀ i, i < ds.length → (wb bs i).cutoff < B → i ∉ under →
    (wb bs i).aliasSym < ds.length ∧ (wb bs i).cutoff ≤ (wb bs i).aliasOff ∧
    (wb bs i).aliasOff + (B - (wb bs i).cutoff) ≤ ds.getD (wb bs i).aliasSym 0
  cover : ∀ s k, s < ds.length → (wb bs s).cutoff ≤ k → k < ds.getD s 0 →
    ∃ i pos, i < ds.length ∧ pos < B ∧ (wb bs i).cutoff ≤ pos ∧ i ∉ under ∧
      (wb bs i).aliasSym = s ∧ (wb bs i).aliasOff - (wb bs i).cutoff + pos = k
  balance : sumL over (fun i => (wb bs i).cutoff - B) = sumL under (fun i => B - (wb bs i).cutoff)

/-- facts about one step that do not depend on where `o` goes afterwards -/
structure StepFacts (B : Nat) (ds : List Nat) (bs bs' : List WB) (o u : Nat) (under' : List Nat) : Prop where
  ho : o < ds.length
  hu : u < ds.length
  hne : o ≠ u
  hco : B < (wb bs o).cutoff
  hcu : (wb bs u).cutoff < B
  len : bs'.length = ds.length
  cut_o : (wb bs' o).cutoff = (wb bs o).cutoff + (wb bs u).cutoff - B
  cut_ne : ∀ i, i ≠ o → (wb bs' i).cutoff = (wb bs i).cutoff
  dist : ∀ i, i < ds.length → (wb bs' i).dist = ds.getD i 0
  cut_le : ∀ i, i < ds.length → (wb bs' i).cutoff ≤ ds.getD i 0
  same : ∀ i, i ≠ o → i ≠ u → wb bs' i = wb bs i
  ret_u : (wb bs' u).aliasSym = o ∧ (wb bs' u).aliasOff = (wb bs o).cutoff + (wb bs u).cutoff - B
  o_dist : (wb bs o).cutoff ≤ ds.getD o 0

theorem stepFacts (B : Nat) (ds : List Nat) (bs : List WB) (o u : Nat) (over' under' : List Nat)
    (h : Inv B ds bs (o :: over') (u :: under')) :
    StepFacts B ds bs (aliasStep B bs o u) o u under' := by
  have ⟨ho, hco⟩ := h.over_gt o (by simp)
  have ⟨hu, hcu⟩ := h.under_lt u (by simp)
  have hne : o ≠ u := by
    intro e
    have := h.nodup
    rw [e] at this
    simp [nodup_append, nodup_cons] at this
  have hob : o < bs.length := by rw [h.len]; exact ho
  have hub : u < bs.length := by rw [h.len]; exact hu
  obtain ⟨s1, s2, s3, s4⟩ := aliasStep_spec B bs o u hob hub hne
  have cut_o : (wb (aliasStep B bs o u) o).cutoff = (wb bs o).cutoff + (wb bs u).cutoff - B := by
    rw [s2]; simp only [WB.withCutoff]; omega
  have cut_ne : ∀ i, i ≠ o → (wb (aliasStep B bs o u) i).cutoff = (wb bs i).cutoff := by
    intro i hi
    by_cases hiu : i = u
    · subst hiu; rw [s3]; rfl
    · rw [s4 i hi hiu]
  refine ⟨ho, hu, hne, hco, hcu, by rw [s1, h.len], cut_o, cut_ne, ?_, ?_, s4, ?_, h.cut_le o ho⟩
  · intro i hi
    by_cases hio : i = o
    · subst hio; rw [s2]; exact h.dist i hi
    · by_cases hiu : i = u
      · subst hiu; rw [s3]; exact h.dist i hi
      · rw [s4 i hio hiu]; exact h.dist i hi
  · intro i hi
    by_cases hio : i = o
    · subst hio; rw [cut_o]; have := h.cut_le i hi; omega
    · rw [cut_ne i hio]; exact h.cut_le i hi
  · rw [s3]; simp only [WB.withAlias, true_and]; omega

theorem step_ret_ok (B : Nat) (ds : List Nat) (bs bs' : List WB) (o u : Nat) (over' under' un : List Nat)
    (h : Inv B ds bs (o :: over') (u :: under')) (f : StepFacts B ds bs bs' o u under')
    (hsub : ∀ i, i ∈ under' → i ∈ un) (ho_in : (wb bs' o).cutoff < B → o ∈ un) :
    ∀ i, i < ds.length → (wb bs' i).cutoff < B → i ∉ un →
      (wb bs' i).aliasSym < ds.length ∧ (wb bs' i).cutoff ≤ (wb bs' i).aliasOff ∧
      (wb bs' i).aliasOff + (B - (wb bs' i).cutoff) ≤ ds.getD (wb bs' i).aliasSym 0 := by
  intro i hi hc hni
  by_cases hio : i = o
  · subst hio; exact absurd (ho_in hc) hni
  · by_cases hiu : i = u
    · subst hiu
      have hcu := f.cut_ne i hio
      rw [f.ret_u.1, f.ret_u.2, hcu]
      have := f.hco; have := f.hcu; have := f.o_dist
      refine ⟨f.ho, by omega, by omega⟩
    · rw [f.same i hio hiu]
      apply h.ret_ok i hi
      · rw [← f.cut_ne i hio]; exact hc
      · intro hm
        simp only [mem_cons] at hm
        rcases hm with hm | hm
        · exact hiu hm
        · exact hni (hsub i hm)

theorem step_cover (B : Nat) (ds : List Nat) (bs bs' : List WB) (o u : Nat) (over' under' un : List Nat)
    (h : Inv B ds bs (o :: over') (u :: under')) (f : StepFacts B ds bs bs' o u under')
    (hsup : ∀ i ∈ un, i = o ∨ i ∈ under') (hu_not : u ∉ un) :
    ∀ s k, s < ds.length → (wb bs' s).cutoff ≤ k → k < ds.getD s 0 →
      ∃ i pos, i < ds.length ∧ pos < B ∧ (wb bs' i).cutoff ≤ pos ∧ i ∉ un ∧
        (wb bs' i).aliasSym = s ∧ (wb bs' i).aliasOff - (wb bs' i).cutoff + pos = k := by
  intro s k hs hk1 hk2
  have hcu' : (wb bs' u).cutoff = (wb bs u).cutoff := f.cut_ne u (fun e => f.hne e.symm)
  -- an old witness stays a witness
  have keep : ∀ i pos, i < ds.length → pos < B → (wb bs i).cutoff ≤ pos → i ∉ u :: under' →
      (wb bs i).aliasSym = s → (wb bs i).aliasOff - (wb bs i).cutoff + pos = k →
      ∃ i pos, i < ds.length ∧ pos < B ∧ (wb bs' i).cutoff ≤ pos ∧ i ∉ un ∧
        (wb bs' i).aliasSym = s ∧ (wb bs' i).aliasOff - (wb bs' i).cutoff + pos = k := by
    intro i pos hi hp hc hni ha hoff
    have hiu : i ≠ u := fun e => hni (by simp [e])
    have hio : i ≠ o := by
      intro e; subst e
      have := f.hco; omega
    refine ⟨i, pos, hi, hp, ?_, ?_, ?_, ?_⟩
    · rw [f.same i hio hiu]; exact hc
    · intro hm
      rcases hsup i hm with e | e
      · exact hio e
      · exact hni (by simp [e])
    · rw [f.same i hio hiu]; exact ha
    · rw [f.same i hio hiu]; exact hoff
  by_cases hso : s = o
  · subst hso
    by_cases hk : (wb bs s).cutoff ≤ k
    · obtain ⟨i, pos, h1, h2, h3, h4, h5, h6⟩ := h.cover s k hs hk hk2
      exact keep i pos h1 h2 h3 h4 h5 h6
    · -- the new slice, served by bucket u
      have hco := f.hco; have hcuB := f.hcu
      rw [f.cut_o] at hk1
      refine ⟨u, (wb bs u).cutoff + (k - ((wb bs s).cutoff + (wb bs u).cutoff - B)), f.hu, by omega, ?_, hu_not,
        f.ret_u.1, ?_⟩
      · rw [hcu']; omega
      · rw [f.ret_u.2, hcu']; omega
  · rw [f.cut_ne s hso] at hk1
    obtain ⟨i, pos, h1, h2, h3, h4, h5, h6⟩ := h.cover s k hs hk1 hk2
    exact keep i pos h1 h2 h3 h4 h5 h6

/-- membership facts extracted from `Nodup (o :: over' ++ u :: under')` -/
theorem nodup_facts {o u : Nat} {over' under' : List Nat} (h : ((o :: over') ++ (u :: under')).Nodup) :
    o ∉ over' ∧ o ∉ under' ∧ u ∉ over' ∧ u ∉ under' ∧ o ≠ u ∧ (over' ++ under').Nodup := by
  simp only [cons_append, nodup_cons, mem_append, mem_cons, not_or, nodup_append] at h
  obtain ⟨⟨h1, h2, h3⟩, h4, ⟨h5, h6⟩, h7⟩ := h
  refine ⟨h1, h3, ?_, h5, h2, ?_⟩
  · intro hm; exact (h7 u hm u (by simp)) rfl
  · rw [nodup_append]
    exact ⟨h4, h6, fun a ha b hb => h7 a ha b (by simp [hb])⟩

theorem inv_step (B : Nat) (ds : List Nat) (bs : List WB) (o u : Nat) (over' under' : List Nat)
    (h : Inv B ds bs (o :: over') (u :: under')) :
    ((wb (aliasStep B bs o u) o).cutoff < B → Inv B ds (aliasStep B bs o u) over' (o :: under')) ∧
    ((wb (aliasStep B bs o u) o).cutoff = B → Inv B ds (aliasStep B bs o u) over' under') ∧
    (B < (wb (aliasStep B bs o u) o).cutoff → Inv B ds (aliasStep B bs o u) (o :: over') under') := by
  have f := stepFacts B ds bs o u over' under' h
  obtain ⟨n1, n2, n3, n4, n5, n6⟩ := nodup_facts h.nodup
  generalize hbs' : aliasStep B bs o u = bs' at f ⊢
  have hco := f.hco
  have hcu := f.hcu
  -- stack members other than o keep their cutoffs
  have cut_over' : ∀ i ∈ over', (wb bs' i).cutoff = (wb bs i).cutoff :=
    fun i hi => f.cut_ne i (fun e => n1 (e ▸ hi))
  have cut_under' : ∀ i ∈ under', (wb bs' i).cutoff = (wb bs i).cutoff :=
    fun i hi => f.cut_ne i (fun e => n2 (e ▸ hi))
  have over_gt' : ∀ i ∈ over', i < ds.length ∧ B < (wb bs' i).cutoff := by
    intro i hi; rw [cut_over' i hi]; exact h.over_gt i (by simp [hi])
  have under_lt' : ∀ i ∈ under', i < ds.length ∧ (wb bs' i).cutoff < B := by
    intro i hi; rw [cut_under' i hi]; exact h.under_lt i (by simp [hi])
  have rest_le' : ∀ i, i < ds.length → i ≠ o → i ∉ over' → (wb bs' i).cutoff ≤ B := by
    intro i hi hio hni
    rw [f.cut_ne i hio]
    exact h.rest_le i hi (by simp [hio, hni])
  -- old balance, unfolded
  have hbal := h.balance
  rw [sumL_cons, sumL_cons] at hbal
  have so : sumL over' (fun i => (wb bs' i).cutoff - B) = sumL over' (fun i => (wb bs i).cutoff - B) :=
    sumL_congr _ _ _ (fun i hi => by rw [cut_over' i hi])
  have su : sumL under' (fun i => B - (wb bs' i).cutoff) = sumL under' (fun i => B - (wb bs i).cutoff) :=
    sumL_congr _ _ _ (fun i hi => by rw [cut_under' i hi])
  refine ⟨fun hc => ?_, fun hc => ?_, fun hc => ?_⟩
  · -- o becomes underfull
    refine ⟨f.len, f.dist, f.cut_le, ?_, over_gt', ?_, ?_, ?_, ?_, ?_⟩
    · rw [nodup_append] at n6 ⊢
      refine ⟨n6.1, nodup_cons.2 ⟨n2, n6.2.1⟩, ?_⟩
      intro a ha b hb
      simp only [mem_cons] at hb
      rcases hb with rfl | hb
      · intro e; exact n1 (e ▸ ha)
      · exact n6.2.2 a ha b hb
    · intro i hi
      simp only [mem_cons] at hi
      rcases hi with rfl | hi
      · exact ⟨f.ho, hc⟩
      · exact under_lt' i hi
    · intro i hi hni
      by_cases hio : i = o
      · subst hio; omega
      · exact rest_le' i hi hio hni
    · exact step_ret_ok B ds bs bs' o u over' under' (o :: under') h f
        (fun i hi => by simp [hi]) (fun _ => by simp)
    · exact step_cover B ds bs bs' o u over' under' (o :: under') h f
        (fun i hi => by simpa using hi) (by simp [Ne.symm n5, n4])
    · rw [sumL_cons, so, su, f.cut_o]
      rw [f.cut_o] at hc
      omega
  · -- o becomes exactly full
    refine ⟨f.len, f.dist, f.cut_le, n6, over_gt', under_lt', ?_, ?_, ?_, ?_⟩
    · intro i hi hni
      by_cases hio : i = o
      · subst hio; omega
      · exact rest_le' i hi hio hni
    · exact step_ret_ok B ds bs bs' o u over' under' under' h f (fun i hi => hi) (fun hlt => by omega)
    · exact step_cover B ds bs bs' o u over' under' under' h f (fun i hi => Or.inr hi) n4
    · rw [so, su]
      rw [f.cut_o] at hc
      omega
  · -- o stays overfull
    refine ⟨f.len, f.dist, f.cut_le, ?_, ?_, under_lt', ?_, ?_, ?_, ?_⟩
    · rw [cons_append, nodup_cons]
      exact ⟨by simp [n1, n2], n6⟩
    · intro i hi
      simp only [mem_cons] at hi
      rcases hi with rfl | hi
      · exact ⟨f.ho, hc⟩
      · exact over_gt' i hi
    · intro i hi hni
      simp only [mem_cons, not_or] at hni
      exact rest_le' i hi hni.1 hni.2
    · exact step_ret_ok B ds bs bs' o u over' under' under' h f (fun i hi => hi) (fun hlt => by omega)
    · exact step_cover B ds bs bs' o u over' under' under' h f (fun i hi => Or.inr hi) n4
    · rw [sumL_cons, so, su, f.cut_o]
      rw [f.cut_o] at hc
      omega

/-- when one stack is empty the other one is too (mass balance) -/
theorem inv_both_empty (B : Nat) (ds : List Nat) (bs : List WB) (over under : List Nat)
    (h : Inv B ds bs over under) (he : over = [] ∨ under = []) : over = [] ∧ under = [] := by
  rcases he with rfl | rfl
  · refine ⟨rfl, ?_⟩
    by_contra hne
    have := sumL_pos_of_mem under (fun i => B - (wb bs i).cutoff)
      (fun i hi => by have := (h.under_lt i hi).2; omega) hne
    have hb := h.balance
    simp only [sumL, map_nil, sum_nil] at hb
    simp only [sumL] at this
    omega
  · refine ⟨?_, rfl⟩
    by_contra hne
    have := sumL_pos_of_mem over (fun i => (wb bs i).cutoff - B)
      (fun i hi => by have := (h.over_gt i hi).2; omega) hne
    have hb := h.balance
    simp only [sumL, map_nil, sum_nil] at hb
    simp only [sumL] at this
    omega

theorem inv_loop (B : Nat) (ds : List Nat) (fuel : Nat) (bs : List WB) (over under : List Nat)
    (h : Inv B ds bs over under) (hf : over.length + under.length ≤ fuel) :
    Inv B ds (aliasLoop B fuel bs over under) [] [] := by
  induction fuel generalizing bs over under with
  | zero =>
    have h1 : over = [] := by cases over with | nil => rfl | cons a r => simp at hf
    have h2 : under = [] := by cases under with | nil => rfl | cons a r => simp at hf
    subst h1; subst h2
    exact h
  | succ fuel ih =>
    cases over with
    | nil =>
      obtain ⟨_, h2⟩ := inv_both_empty B ds bs [] under h (Or.inl rfl)
      subst h2
      simpa [aliasLoop] using h
    | cons o over' =>
      cases under with
      | nil =>
        obtain ⟨h1, _⟩ := inv_both_empty B ds bs (o :: over') [] h (Or.inr rfl)
        exact absurd h1 (by simp)
      | cons u under' =>
        obtain ⟨c1, c2, c3⟩ := inv_step B ds bs o u over' under' h
        simp only [aliasLoop]
        simp only [length_cons] at hf
        split
        · rename_i hlt
          exact ih _ _ _ (c1 hlt) (by simp only [length_cons]; omega)
        · split
          · rename_i hge heq
            exact ih _ _ _ (c2 heq) (by omega)
          · rename_i hge hne
            exact ih _ _ _ (c3 (by unfold wb; omega)) (by simp only [length_cons]; omega)

/-! ### the initial state -/

theorem initWB_length (a : Nat) (ds : List Nat) : (initWB a ds).length = ds.length := by
  simp [initWB]

theorem initWB_get (a : Nat) (ds : List Nat) (i : Nat) (hi : i < ds.length) :
    (wb (initWB a ds) i).dist = ds.getD i 0 ∧ (wb (initWB a ds) i).cutoff = ds.getD i 0 := by
  unfold wb initWB
  rw [getD_eq_getElem?_getD, getElem?_map, getElem?_zipIdx, getD_eq_getElem?_getD]
  rw [getElem?_eq_getElem hi]
  simp

theorem mem_stackOf (p : Nat → Bool) (ds : List Nat) (i : Nat) :
    i ∈ stackOf p ds ↔ i < ds.length ∧ p (ds.getD i 0) = true := by
  unfold stackOf
  simp only [mem_reverse, mem_map, mem_filter, Prod.exists, mem_zipIdx_iff_getElem?]
  constructor
  · rintro ⟨d, j, ⟨h1, h2⟩, rfl⟩
    have hj : j < ds.length := by
      by_contra hc
      rw [getElem?_eq_none (by omega)] at h1
      cases h1
    refine ⟨hj, ?_⟩
    rw [getD_eq_getElem?_getD, h1]
    exact h2
  · rintro ⟨h1, h2⟩
    refine ⟨ds.getD i 0, i, ⟨?_, h2⟩, rfl⟩
    rw [getD_eq_getElem?_getD, getElem?_eq_getElem h1]
    simp

theorem stackOf_nodup (p : Nat → Bool) (ds : List Nat) : (stackOf p ds).Nodup := by
  unfold stackOf
  rw [nodup_reverse]
  have hsub : ((ds.zipIdx.filter fun (x : Nat × Nat) => p x.1).map (·.2)).Sublist (ds.zipIdx.map (·.2)) :=
    (filter_sublist).map _
  have : (ds.zipIdx.map (·.2)).Nodup := by
    rw [zipIdx_map_snd]; exact nodup_range'
  exact this.sublist hsub

theorem sumL_stackOf (p : Nat → Bool) (ds : List Nat) (g : Nat → Nat) :
    sumL (stackOf p ds) (fun i => g (ds.getD i 0)) = ((ds.filter p).map g).sum := by
  unfold sumL stackOf
  rw [map_reverse, sum_reverse, map_map]
  have h1 : (ds.zipIdx.filter fun (x : Nat × Nat) => p x.1).map ((fun i => g (ds.getD i 0)) ∘ fun x => x.2)
      = (ds.zipIdx.filter fun (x : Nat × Nat) => p x.1).map (g ∘ fun x => x.1) := by
    apply map_congr_left
    intro x hx
    have := (mem_filter.1 hx).1
    rw [mem_zipIdx_iff_getElem?] at this
    simp only [Function.comp]
    rw [getD_eq_getElem?_getD, this]
    simp
  rw [h1, ← map_map]
  congr 2
  have : (ds.zipIdx.filter fun (x : Nat × Nat) => p x.1) = ds.zipIdx.filter (p ∘ fun x => x.1) := rfl
  rw [this, ← filter_map, zipIdx_map_fst]

theorem balance_init (B : Nat) (ds : List Nat) :
    ((ds.filter fun d => decide (B < d)).map fun d => d - B).sum + B * ds.length
      = ds.sum + ((ds.filter fun d => decide (d < B)).map fun d => B - d).sum := by
  induction ds with
  | nil => simp
  | cons d r ih =>
    rw [Nat.mul_comm] at ih ⊢
    rcases Nat.lt_trichotomy d B with h | h | h
    · have h1 : ¬ B < d := by omega
      rw [filter_cons_of_neg (by simpa using h1), filter_cons_of_pos (by simpa using h)]
      simp only [length_cons, sum_cons, map_cons, Nat.succ_mul]
      omega
    · subst h
      rw [filter_cons_of_neg (by simp), filter_cons_of_neg (by simp)]
      simp only [length_cons, sum_cons, Nat.succ_mul]
      omega
    · have h1 : ¬ d < B := by omega
      rw [filter_cons_of_pos (by simpa using h), filter_cons_of_neg (by simpa using h1)]
      simp only [length_cons, sum_cons, map_cons, Nat.succ_mul]
      omega

theorem inv_init (B a : Nat) (ds : List Nat) (hsum : ds.sum = B * ds.length) :
    Inv B ds (initWB a ds) (stackOf (fun x => x > B) ds) (stackOf (fun x => x < B) ds) := by
  have hcut : ∀ i, i < ds.length → (wb (initWB a ds) i).cutoff = ds.getD i 0 :=
    fun i hi => (initWB_get a ds i hi).2
  refine ⟨initWB_length a ds, fun i hi => (initWB_get a ds i hi).1, fun i hi => by rw [hcut i hi],
    ?_, ?_, ?_, ?_, ?_, ?_, ?_⟩
  · rw [nodup_append]
    refine ⟨stackOf_nodup _ _, stackOf_nodup _ _, ?_⟩
    intro x hx y hy hxy
    subst hxy
    have h1 := ((mem_stackOf _ _ _).1 hx).2
    have h2 := ((mem_stackOf _ _ _).1 hy).2
    simp only [gt_iff_lt, decide_eq_true_eq] at h1 h2
    omega
  · intro i hi
    obtain ⟨h1, h2⟩ := (mem_stackOf _ _ _).1 hi
    simp only [gt_iff_lt, decide_eq_true_eq] at h2
    exact ⟨h1, by rw [hcut i h1]; exact h2⟩
  · intro i hi
    obtain ⟨h1, h2⟩ := (mem_stackOf _ _ _).1 hi
    simp only [decide_eq_true_eq] at h2
    exact ⟨h1, by rw [hcut i h1]; exact h2⟩
  · intro i hi hni
    rw [hcut i hi]
    by_contra hc
    exact hni ((mem_stackOf _ _ _).2 ⟨hi, by simp only [gt_iff_lt, decide_eq_true_eq]; omega⟩)
  · intro i hi hc hni
    rw [hcut i hi] at hc
    exact absurd ((mem_stackOf _ _ _).2 ⟨hi, by simpa using hc⟩) hni
  · intro s k hs h1 h2
    rw [hcut s hs] at h1
    omega
  · have e1 : sumL (stackOf (fun x => x > B) ds) (fun i => (wb (initWB a ds) i).cutoff - B)
        = sumL (stackOf (fun x => x > B) ds) (fun i => (fun d => d - B) (ds.getD i 0)) :=
      sumL_congr _ _ _ (fun i hi => by rw [hcut i ((mem_stackOf _ _ _).1 hi).1])
    have e2 : sumL (stackOf (fun x => x < B) ds) (fun i => B - (wb (initWB a ds) i).cutoff)
        = sumL (stackOf (fun x => x < B) ds) (fun i => (fun d => B - d) (ds.getD i 0)) :=
      sumL_congr _ _ _ (fun i hi => by rw [hcut i ((mem_stackOf _ _ _).1 hi).1])
    rw [e1, e2, sumL_stackOf (fun x => x > B) ds (fun d => d - B),
      sumL_stackOf (fun x => x < B) ds (fun d => B - d)]
    have := balance_init B ds
    simp only [gt_iff_lt] at this ⊢
    omega

/-! ### the finished table -/

/-- the alias map read off the working buckets: (symbol, offset, probability of that symbol) -/
def wlook (B : Nat) (ws : List WB) (idx : Nat) : Nat × Nat × Nat :=
  if idx % B ≥ (wb ws (idx / B)).cutoff then
    ((wb ws (idx / B)).aliasSym, (wb ws (idx / B)).aliasOff - (wb ws (idx / B)).cutoff + idx % B,
      (wb ws (wb ws (idx / B)).aliasSym).dist)
  else (idx / B, idx % B, (wb ws (idx / B)).dist)

theorem xor_cancel (a b : Nat) : a ^^^ (a ^^^ b) = b := by
  rw [← Nat.xor_assoc, Nat.xor_self, Nat.zero_xor]

theorem finalBuckets_get (B : Nat) (ws : List WB) (i : Nat) (hi : i < ws.length) :
    (finalBuckets B ws).getD i default =
      if (wb ws i).cutoff = B then ⟨(wb ws i).dist, i, 0, 0, 0⟩
      else ⟨(wb ws i).dist, (wb ws i).aliasSym, (wb ws i).aliasOff - (wb ws i).cutoff, (wb ws i).cutoff,
            (wb ws i).dist ^^^ (wb ws (wb ws i).aliasSym).dist⟩ := by
  unfold finalBuckets wb
  rw [getD_eq_getElem?_getD, getElem?_map, getElem?_zipIdx, getElem?_eq_getElem hi,
    getD_eq_getElem?_getD, getElem?_eq_getElem hi]
  simp

/-- `lookup` on the final buckets is `wlook` on the working buckets -/
theorem lookup_final (lb : Nat) (ws : List WB) (idx : Nat) (hi : idx / 2 ^ lb < ws.length)
    (hle : (wb ws (idx / 2 ^ lb)).cutoff ≤ 2 ^ lb) :
    (AnsHist.mk (finalBuckets (2 ^ lb) ws) lb none).lookup idx = wlook (2 ^ lb) ws idx := by
  have hpos : idx % 2 ^ lb < 2 ^ lb := Nat.mod_lt _ (Nat.pos_of_ne_zero (by simp))
  unfold AnsHist.lookup wlook
  simp only
  rw [finalBuckets_get _ _ _ hi]
  by_cases hc : (wb ws (idx / 2 ^ lb)).cutoff = 2 ^ lb
  · have h1 : ¬ idx % 2 ^ lb ≥ (wb ws (idx / 2 ^ lb)).cutoff := by rw [hc]; omega
    rw [if_pos hc, if_neg h1]
    simp
  · simp only [hc, if_false]
    by_cases hp : idx % 2 ^ lb ≥ (wb ws (idx / 2 ^ lb)).cutoff
    · simp only [hp, if_true, xor_cancel]
    · simp only [hp, if_false]

theorem final_in_range (B : Nat) (ds : List Nat) (ws : List WB) (h : Inv B ds ws [] []) (hB : 0 < B)
    (idx : Nat) (hidx : idx < B * ds.length) :
    (wlook B ws idx).1 < ds.length ∧ (wlook B ws idx).2.2 = ds.getD (wlook B ws idx).1 0 ∧
    (wlook B ws idx).2.1 < ds.getD (wlook B ws idx).1 0 := by
  have hi : idx / B < ds.length := by
    rw [Nat.div_lt_iff_lt_mul hB, Nat.mul_comm]; exact hidx
  have hp : idx % B < B := Nat.mod_lt _ hB
  unfold wlook
  by_cases hc : idx % B ≥ (wb ws (idx / B)).cutoff
  · simp only [hc, if_true]
    obtain ⟨r1, r2, r3⟩ := h.ret_ok (idx / B) hi (by omega) (by simp)
    refine ⟨r1, h.dist _ r1, by omega⟩
  · simp only [hc, if_false]
    have := h.cut_le (idx / B) hi
    exact ⟨hi, h.dist _ hi, by omega⟩

theorem final_onto (B : Nat) (ds : List Nat) (ws : List WB) (h : Inv B ds ws [] []) (hB : 0 < B)
    (s k : Nat) (hs : s < ds.length) (hk : k < ds.getD s 0) :
    ∃ idx, idx < B * ds.length ∧ wlook B ws idx = (s, k, ds.getD s 0) := by
  by_cases hc : (wb ws s).cutoff ≤ k
  · obtain ⟨i, pos, h1, h2, h3, _, h5, h6⟩ := h.cover s k hs hc hk
    refine ⟨B * i + pos, ?_, ?_⟩
    · calc B * i + pos < B * i + B := by omega
        _ = B * (i + 1) := by ring
        _ ≤ B * ds.length := Nat.mul_le_mul_left B h1
    · unfold wlook
      have e1 : (B * i + pos) / B = i := by
        rw [Nat.mul_add_div hB, Nat.div_eq_of_lt h2, Nat.add_zero]
      have e2 : (B * i + pos) % B = pos := by
        rw [Nat.mul_add_mod]; exact Nat.mod_eq_of_lt h2
      rw [e1, e2]
      simp only [ge_iff_le, h3, if_true, h5, h6]
      rw [h.dist s hs]
  · have hle : (wb ws s).cutoff ≤ B := h.rest_le s hs (by simp)
    have hkB : k < B := by omega
    refine ⟨B * s + k, ?_, ?_⟩
    · calc B * s + k < B * s + B := by omega
        _ = B * (s + 1) := by ring
        _ ≤ B * ds.length := Nat.mul_le_mul_left B hs
    · unfold wlook
      have e1 : (B * s + k) / B = s := by
        rw [Nat.mul_add_div hB, Nat.div_eq_of_lt hkB, Nat.add_zero]
      have e2 : (B * s + k) % B = k := by
        rw [Nat.mul_add_mod]; exact Nat.mod_eq_of_lt hkB
      rw [e1, e2]
      have : ¬ k ≥ (wb ws s).cutoff := by omega
      simp only [this, if_false]
      rw [h.dist s hs]

/-- the working buckets `Histogram::parse` ends with satisfy the invariant with empty stacks -/
theorem inv_aliasWork (la : Nat) (hla : la ≤ 12) (d : AnsDist) (hlen : d.dist.length = 2 ^ la)
    (hsum : d.dist.sum = 4096) :
    Inv (2 ^ (12 - la)) d.dist (aliasWork la d) [] [] := by
  unfold aliasWork
  simp only
  have hBT : d.dist.sum = 2 ^ (12 - la) * d.dist.length := by
    rw [hsum, hlen, ← Nat.pow_add]
    have : 12 - la + la = 12 := by omega
    rw [this]
  have h0 := inv_init (2 ^ (12 - la)) d.alphabetSize d.dist hBT
  apply inv_loop _ _ _ _ _ _ h0
  have hnd := h0.nodup
  have hsub : (stackOf (fun x => x > 2 ^ (12 - la)) d.dist ++ stackOf (fun x => x < 2 ^ (12 - la)) d.dist)
      ⊆ List.range d.dist.length := by
    intro i hi
    rw [mem_append] at hi
    rw [mem_range]
    rcases hi with hi | hi
    · exact ((mem_stackOf _ _ _).1 hi).1
    · exact ((mem_stackOf _ _ _).1 hi).1
  have := Nodup.length_le_of_subset hnd hsub
  simp only [length_append, length_range] at this
  omega

/-! ### single-symbol tables -/

theorem getD_add_le_sum (l : List Nat) (i j : Nat) (hij : i ≠ j) : l.getD i 0 + l.getD j 0 ≤ l.sum := by
  induction l generalizing i j with
  | nil => simp
  | cons a r ih =>
    cases i with
    | zero =>
      cases j with
      | zero => exact absurd rfl hij
      | succ j =>
        simp only [getD_cons_zero, getD_cons_succ, sum_cons]
        have : r.getD j 0 ≤ r.sum := by
          have := ih j (j + 1) (by omega); omega
        omega
    | succ i =>
      cases j with
      | zero =>
        simp only [getD_cons_zero, getD_cons_succ, sum_cons]
        have : r.getD i 0 ≤ r.sum := by
          have := ih i (i + 1) (by omega); omega
        omega
      | succ j =>
        simp only [getD_cons_succ, sum_cons]
        have := ih i j (by omega)
        omega

theorem lookup_single (la : Nat) (d : AnsDist) (single : Nat) (idx : Nat)
    (hi : idx / 2 ^ (12 - la) < d.dist.length) :
    (AnsHist.mk (d.dist.zipIdx.map fun (x, i) => ⟨x, single, 2 ^ (12 - la) * i, 0, x ^^^ 4096⟩)
      (12 - la) (some single)).lookup idx = (single, idx, 4096) := by
  unfold AnsHist.lookup
  simp only
  rw [getD_eq_getElem?_getD, getElem?_map, getElem?_zipIdx, getElem?_eq_getElem hi]
  simp only [Option.map_some, Option.getD_some, Nat.zero_add, ge_iff_le, Nat.zero_le, if_true,
    xor_cancel]
  rw [Nat.div_add_mod]

/-- **The alias map is in range and onto** (see `C04_alias_bijection`). -/
theorem alias_bijection (la : Nat) (hla : 5 ≤ la ∧ la ≤ 8) (d : AnsDist)
    (hlen : d.dist.length = 2 ^ la) (hsum : d.dist.sum = 4096) :
    let h := AnsHist.build la d
    (∀ idx, idx < 4096 →
      (h.lookup idx).1 < 2 ^ la ∧ (h.lookup idx).2.2 = d.dist.getD (h.lookup idx).1 0 ∧
      (h.lookup idx).2.1 < d.dist.getD (h.lookup idx).1 0) ∧
    (∀ s k, k < d.dist.getD s 0 → ∃ idx, idx < 4096 ∧ h.lookup idx = (s, k, d.dist.getD s 0)) := by
  have hB : 0 < 2 ^ (12 - la) := Nat.pos_of_ne_zero (by simp)
  have hBT : 2 ^ (12 - la) * d.dist.length = 4096 := by
    rw [hlen, ← Nat.pow_add]
    have : 12 - la + la = 12 := by omega
    rw [this]
  have hdiv : ∀ idx, idx < 4096 → idx / 2 ^ (12 - la) < d.dist.length := by
    intro idx hidx
    rw [Nat.div_lt_iff_lt_mul hB, Nat.mul_comm, hBT]; exact hidx
  intro h
  cases hf : d.dist.findIdx? (· = 4096) with
  | some single =>
    have hb : h = AnsHist.mk (d.dist.zipIdx.map fun (x, i) => ⟨x, single, 2 ^ (12 - la) * i, 0, x ^^^ 4096⟩)
        (12 - la) (some single) := by
      show AnsHist.build la d = _
      unfold AnsHist.build
      simp only [hf]
    obtain ⟨hj, h1, _⟩ := List.findIdx?_eq_some_iff_getElem.1 hf
    have hd : d.dist.getD single 0 = 4096 := by
      rw [← List.getElem_eq_getD (h := hj)]; simpa using h1
    rw [hb]
    refine ⟨?_, ?_⟩
    · intro idx hidx
      rw [lookup_single la d single idx (hdiv idx hidx)]
      simp only
      rw [hd, ← hlen]
      exact ⟨hj, rfl, hidx⟩
    · intro s k hk
      by_cases hs : s = single
      · subst hs
        rw [hd] at hk ⊢
        exact ⟨k, hk, lookup_single la d s k (hdiv k hk)⟩
      · have := getD_add_le_sum d.dist s single hs
        omega
  | none =>
    have hb : h = AnsHist.mk (finalBuckets (2 ^ (12 - la)) (aliasWork la d)) (12 - la) none := by
      show AnsHist.build la d = _
      unfold AnsHist.build
      simp only [hf]
    have hinv := inv_aliasWork la (by omega) d hlen hsum
    have hlk : ∀ idx, idx < 4096 → h.lookup idx = wlook (2 ^ (12 - la)) (aliasWork la d) idx := by
      intro idx hidx
      rw [hb]
      apply lookup_final
      · rw [hinv.len]; exact hdiv idx hidx
      · exact hinv.rest_le _ (hdiv idx hidx) (by simp)
    refine ⟨?_, ?_⟩
    · intro idx hidx
      rw [hlk idx hidx, ← hlen]
      exact final_in_range _ _ _ hinv hB idx (by rw [hBT]; exact hidx)
    · intro s k hk
      have hs : s < d.dist.length := by
        by_contra hc
        rw [getD_eq_getElem?_getD, getElem?_eq_none (by omega)] at hk
        simp at hk
      obtain ⟨idx, h1, h2⟩ := final_onto _ _ _ hinv hB s k hs hk
      rw [hBT] at h1
      exact ⟨idx, h1, by rw [hlk idx h1]; exact h2⟩

/-- probability of `s` as the table stores it -/
theorem symDist_build (la : Nat) (hla : 5 ≤ la ∧ la ≤ 8) (d : AnsDist)
    (hlen : d.dist.length = 2 ^ la) (hsum : d.dist.sum = 4096) (s : Nat) (hs : s < d.dist.length) :
    symDist (AnsHist.build la d) s = d.dist.getD s 0 := by
  unfold symDist AnsHist.build
  simp only
  cases hf : d.dist.findIdx? (· = 4096) with
  | some single =>
    simp only
    rw [getD_eq_getElem?_getD, getElem?_map, getElem?_zipIdx, getElem?_eq_getElem hs,
      getD_eq_getElem?_getD, getElem?_eq_getElem hs]
    simp
  | none =>
    simp only
    have hinv := inv_aliasWork la (by omega) d hlen hsum
    rw [finalBuckets_get _ _ _ (by rw [hinv.len]; exact hs)]
    split <;> exact hinv.dist s hs

theorem alias_symOK (la : Nat) (hla : 5 ≤ la ∧ la ≤ 8) (d : AnsDist)
    (hlen : d.dist.length = 2 ^ la) (hsum : d.dist.sum = 4096) (s : Nat) (hs : d.dist.getD s 0 ≠ 0) :
    AnsSymOK (AnsHist.build la d) s := by
  have hsl : s < d.dist.length := by
    by_contra hc
    rw [getD_eq_getElem?_getD, getElem?_eq_none (by omega)] at hs
    simp at hs
  have hsd := symDist_build la hla d hlen hsum s hsl
  have hle : d.dist.getD s 0 ≤ 4096 := by
    have : d.dist.getD s 0 ≤ d.dist.sum := by
      have := getD_add_le_sum d.dist s (s + 1) (by omega); omega
    omega
  unfold AnsSymOK
  rw [hsd]
  refine ⟨by omega, hle, ?_⟩
  intro k hk
  exact (alias_bijection la hla d hlen hsum).2 s k hk

end Jxl.Entropy
