import JxlModel.Model.Enc.Huffman
/-!
# `huffLengths` always returns a valid, complete, length-limited code; `histogram` counts

* `huffLengths_spec` — for `1 ≤ maxLen` and at most `2 ^ maxLen` used symbols the result has the
  length of the input, every length is `≤ maxLen`, exactly the used symbols get a non-zero length,
  with at least two used symbols the Kraft sum is exactly `2 ^ maxLen` (complete code), and with
  exactly one used symbol all lengths are `≤ 1`.
* `histogram_spec` — `histogram n l` has length `n` and entry `i` is `l.count i`.

Proof outline for the general branch: `lengthenPass` keeps `k` equal to the Kraft sum and ends with
`k ≤ 2 ^ maxLen`; one `shortenPass` keeps `k + d = 2 ^ maxLen` and leaves every symbol with
`l = 1 ∨ d < 2 ^ (maxLen - l)`; `d` is a multiple of `2 ^ (maxLen - lmax)`, hence `d = 0`
(`shorten_done`), so `shortenLoop` stops after the first pass; the final `set!` fold writes every
used index exactly once (`writeOut_spec`).
-/
namespace Jxl.Enc

def kraftN (maxLen : Nat) : List Nat → Nat
  | [] => 0
  | l :: r => (if l = 0 then 0 else 2 ^ (maxLen - l)) + kraftN maxLen r

/-- Kraft sum of a symbol list (no zero-length special case) -/
def ksum (m : Nat) : List HSym → Nat
  | [] => 0
  | h :: r => 2 ^ (m - h.l) + ksum m r

theorem foldl_ksum (m : Nat) (l : List HSym) (a : Nat) :
    l.foldl (fun a h => a + 2 ^ (m - h.l)) a = a + ksum m l := by
  induction l generalizing a with
  | nil => simp [ksum]
  | cons h r ih => simp only [List.foldl_cons, ih, ksum]; omega

theorem hKraft_eq_ksum (m : Nat) (l : List HSym) : hKraft m l = ksum m l := by
  simp [hKraft, foldl_ksum]

theorem ksum_perm (m : Nat) {a b : List HSym} (h : a.Perm b) : ksum m a = ksum m b := by
  induction h with
  | nil => rfl
  | cons x _ ih => simp only [ksum, ih]
  | swap x y l => simp only [ksum]; omega
  | trans _ _ ih1 ih2 => omega

def InR (m : Nat) (hs : List HSym) : Prop := ∀ h ∈ hs, 1 ≤ h.l ∧ h.l ≤ m

theorem pow_half (m l : Nat) (h : l < m) : 2 ^ (m - l) = 2 * 2 ^ (m - l - 1) := by
  have : m - l = (m - l - 1) + 1 := by omega
  rw [this, Nat.pow_succ]; simp; omega

/-- one symbol of the lengthening pass -/
theorem lengthen_go_spec (m : Nat) (fuel l k : Nat) (hl : l ≤ m) (hk : 2 ^ (m - l) ≤ k) :
    l ≤ (lengthenPass.go m fuel l k).1 ∧ (lengthenPass.go m fuel l k).1 ≤ m ∧
    (lengthenPass.go m fuel l k).2 + 2 ^ (m - l) = k + 2 ^ (m - (lengthenPass.go m fuel l k).1) ∧
    (m - l ≤ fuel → (lengthenPass.go m fuel l k).2 ≤ 2 ^ m ∨ (lengthenPass.go m fuel l k).1 = m) := by
  induction fuel generalizing l k with
  | zero =>
    rw [lengthenPass.go.eq_1]
    refine ⟨Nat.le_refl _, hl, rfl, fun h => Or.inr (by simp only; omega)⟩
  | succ fuel ih =>
    rw [lengthenPass.go.eq_2]
    split
    · rename_i hc
      have h2 := pow_half m l hc.2
      have hk' : 2 ^ (m - (l + 1)) ≤ k - 2 ^ (m - l - 1) := by
        rw [show m - (l + 1) = m - l - 1 by omega]; omega
      obtain ⟨a, b, c, d⟩ := ih (l + 1) (k - 2 ^ (m - l - 1)) (by omega) hk'
      refine ⟨by omega, b, ?_, fun h => d (by omega)⟩
      rw [show m - (l + 1) = m - l - 1 by omega] at c
      omega
    · rename_i hc
      refine ⟨Nat.le_refl _, hl, rfl, fun h => ?_⟩
      simp only
      omega

theorem lengthenPass_spec (m : Nat) (hs : List HSym) (k : Nat) (hr : InR m hs) (hk : ksum m hs ≤ k) :
    (lengthenPass m hs k).1.map (·.sym) = hs.map (·.sym) ∧
    InR m (lengthenPass m hs k).1 ∧
    (lengthenPass m hs k).2 + ksum m hs = k + ksum m (lengthenPass m hs k).1 ∧
    (lengthenPass m hs k).2 ≤ k ∧
    ((lengthenPass m hs k).2 ≤ 2 ^ m ∨ ∀ h ∈ (lengthenPass m hs k).1, h.l = m) := by
  induction hs generalizing k with
  | nil => simp [lengthenPass, InR, ksum]
  | cons h r ih =>
    rw [lengthenPass.eq_2]
    have hh := hr h (List.mem_cons_self ..)
    have hrr : InR m r := fun x hx => hr x (List.mem_cons_of_mem _ hx)
    simp only [ksum] at hk
    obtain ⟨g1, g2, g3, g4⟩ := lengthen_go_spec m m h.l k hh.2 (by omega)
    generalize lengthenPass.go m m h.l k = p at g1 g2 g3 g4
    obtain ⟨l', k'⟩ := p
    simp only at g1 g2 g3 g4 ⊢
    have hpos : 0 < 2 ^ (m - l') := Nat.pos_of_ne_zero (by simp)
    obtain ⟨i1, i2, i3, i4, i5⟩ := ih k' hrr (by omega)
    generalize lengthenPass m r k' = q at i1 i2 i3 i4 i5
    obtain ⟨r', k''⟩ := q
    simp only at i1 i2 i3 i4 i5 ⊢
    refine ⟨by simp [i1], ?_, ?_, ?_, ?_⟩
    · intro x hx
      rcases List.mem_cons.1 hx with rfl | hx
      · exact ⟨by simp only; omega, g2⟩
      · exact i2 x hx
    · simp only [ksum]; omega
    · have : 2 ^ (m - l') ≤ 2 ^ (m - h.l) := Nat.pow_le_pow_right (by omega) (by omega)
      omega
    · rcases g4 (by omega) with g | g
      · left; omega
      · rcases i5 with i | i
        · left; exact i
        · right
          intro x hx
          rcases List.mem_cons.1 hx with rfl | hx
          · exact g
          · exact i x hx


/-- one symbol of the shortening pass -/
theorem shorten_go_spec (m : Nat) (fuel l d : Nat) (hl1 : 1 ≤ l) (hl : l ≤ m) :
    1 ≤ (shortenPass.go m fuel l d).1 ∧ (shortenPass.go m fuel l d).1 ≤ l ∧
    (shortenPass.go m fuel l d).2 + 2 ^ (m - (shortenPass.go m fuel l d).1) = d + 2 ^ (m - l) ∧
    (l - 1 ≤ fuel → (shortenPass.go m fuel l d).1 = 1 ∨
      (shortenPass.go m fuel l d).2 < 2 ^ (m - (shortenPass.go m fuel l d).1)) := by
  induction fuel generalizing l d with
  | zero =>
    rw [shortenPass.go.eq_1]
    refine ⟨hl1, Nat.le_refl _, rfl, fun h => Or.inl (by simp only; omega)⟩
  | succ fuel ih =>
    rw [shortenPass.go.eq_2]
    split
    · rename_i hc
      have h2 := pow_half m (l - 1) (by omega)
      rw [show m - (l - 1) - 1 = m - l by omega] at h2
      obtain ⟨a, b, c, e⟩ := ih (l - 1) (d - 2 ^ (m - l)) (by omega) (by omega)
      refine ⟨a, by omega, by omega, fun h => e (by omega)⟩
    · rename_i hc
      refine ⟨hl1, Nat.le_refl _, rfl, fun h => ?_⟩
      simp only
      omega

theorem shortenPass_spec (m : Nat) (hs : List HSym) (d : Nat) (hr : InR m hs) :
    (shortenPass m hs d).1.map (·.sym) = hs.map (·.sym) ∧
    InR m (shortenPass m hs d).1 ∧
    (shortenPass m hs d).2 + ksum m (shortenPass m hs d).1 = d + ksum m hs ∧
    (shortenPass m hs d).2 ≤ d ∧
    (∀ h ∈ (shortenPass m hs d).1, h.l = 1 ∨ (shortenPass m hs d).2 < 2 ^ (m - h.l)) := by
  induction hs generalizing d with
  | nil => simp [shortenPass, InR, ksum]
  | cons h r ih =>
    rw [shortenPass.eq_2]
    have hh := hr h (List.mem_cons_self ..)
    have hrr : InR m r := fun x hx => hr x (List.mem_cons_of_mem _ hx)
    obtain ⟨g1, g2, g3, g4⟩ := shorten_go_spec m m h.l d hh.1 hh.2
    generalize shortenPass.go m m h.l d = p at g1 g2 g3 g4
    obtain ⟨l', d'⟩ := p
    simp only at g1 g2 g3 g4 ⊢
    obtain ⟨i1, i2, i3, i4, i5⟩ := ih d' hrr
    generalize shortenPass m r d' = q at i1 i2 i3 i4 i5
    obtain ⟨r', d''⟩ := q
    simp only at i1 i2 i3 i4 i5 ⊢
    have hle : 2 ^ (m - h.l) ≤ 2 ^ (m - l') := Nat.pow_le_pow_right (by omega) (by omega)
    refine ⟨by simp [i1], ?_, ?_, ?_, ?_⟩
    · intro x hx
      rcases List.mem_cons.1 hx with rfl | hx
      · exact ⟨g1, by simp only; omega⟩
      · exact i2 x hx
    · simp only [ksum]; omega
    · omega
    · intro x hx
      rcases List.mem_cons.1 hx with rfl | hx
      · rcases g4 (by omega) with g | g
        · left; exact g
        · right; simp only; omega
      · exact i5 x hx


theorem exists_max_l (hs : List HSym) (hne : hs ≠ []) : ∃ h ∈ hs, ∀ x ∈ hs, x.l ≤ h.l := by
  induction hs with
  | nil => exact absurd rfl hne
  | cons a r ih =>
    by_cases hr : r = []
    · subst hr; exact ⟨a, List.mem_cons_self .., fun x hx => by simp at hx; subst hx; exact Nat.le_refl _⟩
    · obtain ⟨b, hb, hmax⟩ := ih hr
      by_cases hab : b.l ≤ a.l
      · refine ⟨a, List.mem_cons_self .., fun x hx => ?_⟩
        rcases List.mem_cons.1 hx with rfl | hx
        · exact Nat.le_refl _
        · exact Nat.le_trans (hmax x hx) hab
      · refine ⟨b, List.mem_cons_of_mem _ hb, fun x hx => ?_⟩
        rcases List.mem_cons.1 hx with rfl | hx
        · omega
        · exact hmax x hx

theorem ksum_dvd (m L : Nat) (hs : List HSym) (hL : ∀ h ∈ hs, h.l ≤ L) : 2 ^ (m - L) ∣ ksum m hs := by
  induction hs with
  | nil => simp [ksum]
  | cons a r ih =>
    simp only [ksum]
    have ha := hL a (List.mem_cons_self ..)
    exact Nat.dvd_add (Nat.pow_dvd_pow 2 (by omega)) (ih fun x hx => hL x (List.mem_cons_of_mem _ hx))

theorem ksum_all_one (m : Nat) (hs : List HSym) (h1 : ∀ h ∈ hs, h.l = 1) :
    ksum m hs = hs.length * 2 ^ (m - 1) := by
  induction hs with
  | nil => simp [ksum]
  | cons a r ih =>
    simp only [ksum, List.length_cons, h1 a (List.mem_cons_self ..),
      ih fun x hx => h1 x (List.mem_cons_of_mem _ hx), Nat.succ_mul]
    omega

theorem ksum_all_m (m : Nat) (hs : List HSym) (h1 : ∀ h ∈ hs, h.l = m) : ksum m hs = hs.length := by
  induction hs with
  | nil => simp [ksum]
  | cons a r ih =>
    simp only [ksum, List.length_cons, h1 a (List.mem_cons_self ..),
      ih fun x hx => h1 x (List.mem_cons_of_mem _ hx), Nat.sub_self, Nat.pow_zero]
    omega

/-- after one full shortening pass no Kraft mass is missing -/
theorem shorten_done (m : Nat) (hs : List HSym) (d : Nat) (hm : 1 ≤ m) (hr : InR m hs)
    (hlen : 2 ≤ hs.length) (hsum : d + ksum m hs = 2 ^ m)
    (hstop : ∀ h ∈ hs, h.l = 1 ∨ d < 2 ^ (m - h.l)) : d = 0 := by
  have hne : hs ≠ [] := by intro h; subst h; simp at hlen
  obtain ⟨b, hb, hmax⟩ := exists_max_l hs hne
  have hbr := hr b hb
  have hd1 : 2 ^ (m - b.l) ∣ ksum m hs := ksum_dvd m b.l hs hmax
  have hd2 : 2 ^ (m - b.l) ∣ 2 ^ m := Nat.pow_dvd_pow 2 (by omega)
  have hd3 : 2 ^ (m - b.l) ∣ d := by
    have : d = 2 ^ m - ksum m hs := by omega
    rw [this]; exact Nat.dvd_sub hd2 hd1
  by_cases hd0 : d = 0
  · exact hd0
  · exfalso
    have hge : 2 ^ (m - b.l) ≤ d := Nat.le_of_dvd (by omega) hd3
    have hb1 : b.l = 1 := by
      rcases hstop b hb with h | h
      · exact h
      · omega
    have hall : ∀ h ∈ hs, h.l = 1 := fun h hh => by
      have := hmax h hh; have := (hr h hh).1; omega
    have hk := ksum_all_one m hs hall
    have h2 := pow_half m 0 (by omega)
    simp only [Nat.sub_zero] at h2
    have : 2 * 2 ^ (m - 1) ≤ hs.length * 2 ^ (m - 1) := Nat.mul_le_mul_right _ hlen
    omega

theorem shortenLoop_spec (m fuel : Nat) (hs : List HSym) (d : Nat) (hm : 1 ≤ m) (hr : InR m hs)
    (hlen : 2 ≤ hs.length) (hsum : d + ksum m hs = 2 ^ m) :
    (shortenLoop m (fuel + 1) hs d).map (·.sym) = hs.map (·.sym) ∧
    InR m (shortenLoop m (fuel + 1) hs d) ∧
    ksum m (shortenLoop m (fuel + 1) hs d) = 2 ^ m := by
  rw [shortenLoop.eq_2]
  split
  · rename_i h0; subst h0; exact ⟨rfl, hr, by omega⟩
  · obtain ⟨i1, i2, i3, i4, i5⟩ := shortenPass_spec m hs d hr
    generalize shortenPass m hs d = q at i1 i2 i3 i4 i5
    obtain ⟨hs', d'⟩ := q
    simp only at i1 i2 i3 i4 i5 ⊢
    have hlen' : 2 ≤ hs'.length := by
      have := congrArg List.length i1; simp at this; omega
    have hd' : d' = 0 := shorten_done m hs' d' hm i2 hlen' (by omega) i5
    subst hd'
    have hres : (if 0 = d then hs' else shortenLoop m fuel hs' 0) = hs' := by
      split
      · rfl
      · cases fuel with
        | zero => rw [shortenLoop.eq_1]
        | succ f => rw [shortenLoop.eq_2]; simp
    rw [hres]
    exact ⟨i1, i2, by omega⟩


/-! ### writing the lengths out -/

theorem kraftN_replicate (m n : Nat) : kraftN m (List.replicate n 0) = 0 := by
  induction n with
  | zero => rfl
  | succ n ih => simp [List.replicate_succ, kraftN, ih]

theorem kraftN_set (m : Nat) (l : List Nat) (i v : Nat) (h0 : l[i]? = some 0) (hv : v ≠ 0) :
    kraftN m (l.set i v) = kraftN m l + 2 ^ (m - v) := by
  induction l generalizing i with
  | nil => simp at h0
  | cons a r ih =>
    cases i with
    | zero =>
      simp at h0; subst h0
      simp [kraftN, hv]; omega
    | succ i =>
      simp at h0
      simp only [List.set_cons_succ, kraftN, ih i h0]; omega

def writeOut (hs : List HSym) (l : List Nat) : List Nat := hs.foldl (fun l h => l.set h.sym h.l) l

theorem foldl_set_toList (hs : List HSym) (a : Array Nat) :
    (hs.foldl (fun a h => a.set! h.sym h.l) a).toList = writeOut hs a.toList := by
  induction hs generalizing a with
  | nil => rfl
  | cons h r ih =>
    have := ih (a.set! h.sym h.l)
    simp only [Array.set!_eq_setIfInBounds, Array.toList_setIfInBounds] at this
    simpa [writeOut] using this

theorem writeOut_spec (m : Nat) (hs : List HSym) (l : List Nat) (hnd : (hs.map (·.sym)).Nodup)
    (h0 : ∀ h ∈ hs, l[h.sym]? = some 0) (hnz : ∀ h ∈ hs, h.l ≠ 0) :
    (writeOut hs l).length = l.length ∧
    (∀ h ∈ hs, (writeOut hs l)[h.sym]? = some h.l) ∧
    (∀ i, (∀ h ∈ hs, h.sym ≠ i) → (writeOut hs l)[i]? = l[i]?) ∧
    kraftN m (writeOut hs l) = kraftN m l + ksum m hs := by
  induction hs generalizing l with
  | nil => simp [writeOut, ksum]
  | cons a r ih =>
    have hwo : writeOut (a :: r) l = writeOut r (l.set a.sym a.l) := rfl
    rw [hwo]
    simp only [List.map_cons, List.nodup_cons, List.mem_map, not_exists, not_and] at hnd
    have hne : ∀ h ∈ r, h.sym ≠ a.sym := fun h hh => hnd.1 h hh
    have ha0 := h0 a (List.mem_cons_self ..)
    have halt : a.sym < l.length := by
      rcases List.getElem?_eq_some_iff.1 ha0 with ⟨h, _⟩; exact h
    obtain ⟨i1, i2, i3, i4⟩ := ih (l.set a.sym a.l) hnd.2
      (fun h hh => by
        rw [List.getElem?_set_ne (fun e => hne h hh e.symm)]
        exact h0 h (List.mem_cons_of_mem _ hh))
      (fun h hh => hnz h (List.mem_cons_of_mem _ hh))
    refine ⟨by simp [i1], ?_, ?_, ?_⟩
    · intro h hh
      rcases List.mem_cons.1 hh with rfl | hh
      · rw [i3 _ hne, List.getElem?_set_self halt]
      · exact i2 h hh
    · intro i hi
      rw [i3 i fun h hh => hi h (List.mem_cons_of_mem _ hh),
        List.getElem?_set_ne (hi a (List.mem_cons_self ..))]
    · rw [i4, kraftN_set m l a.sym a.l ha0 (hnz a (List.mem_cons_self ..))]
      simp only [ksum]; omega


/-! ### the used symbols -/

def usedOf (freqs : List Nat) : List (Nat × Nat) := freqs.zipIdx.filter (fun x => decide (x.fst > 0))

theorem mem_usedOf (freqs : List Nat) (f i : Nat) :
    (f, i) ∈ usedOf freqs ↔ freqs[i]? = some f ∧ 0 < f := by
  simp [usedOf, List.mem_filter, List.mem_zipIdx_iff_getElem?]

theorem mem_usedOf_snd (freqs : List Nat) (i : Nat) :
    i ∈ (usedOf freqs).map Prod.snd ↔ freqs.getD i 0 ≠ 0 := by
  rw [List.getD_eq_getElem?_getD]
  constructor
  · intro h
    obtain ⟨⟨f, j⟩, hx, rfl⟩ := List.mem_map.1 h
    obtain ⟨h1, h2⟩ := (mem_usedOf freqs f j).1 hx
    simp only [h1, Option.getD_some]; omega
  · intro h
    cases hf : freqs[i]? with
    | none => simp [hf] at h
    | some f =>
      simp only [hf, Option.getD_some] at h
      exact List.mem_map.2 ⟨(f, i), (mem_usedOf freqs f i).2 ⟨hf, by omega⟩, rfl⟩

theorem usedOf_nodup (freqs : List Nat) : ((usedOf freqs).map Prod.snd).Nodup := by
  have h1 : ((usedOf freqs).map Prod.snd).Sublist (freqs.zipIdx.map Prod.snd) :=
    List.Sublist.map _ List.filter_sublist
  rw [List.zipIdx_map_snd] at h1
  exact List.Nodup.sublist h1 (List.nodup_range' 1)

theorem usedOf_length_aux (l : List Nat) (k : Nat) :
    ((l.zipIdx k).filter (fun x => decide (x.fst > 0))).length = (l.filter (· > 0)).length := by
  induction l generalizing k with
  | nil => rfl
  | cons a r ih =>
    simp only [List.zipIdx_cons, List.filter_cons]
    split <;> simp [ih]

theorem usedOf_length (freqs : List Nat) :
    (usedOf freqs).length = (freqs.filter (· > 0)).length := usedOf_length_aux freqs 0

/-! ### assembling -/

theorem out_spec (m : Nat) (freqs : List Nat) (fin : List HSym)
    (hperm : (fin.map (·.sym)).Perm ((usedOf freqs).map Prod.snd)) (hr : InR m fin)
    (hk : ksum m fin = 2 ^ m) :
    ((fin.foldl (fun a h => a.set! h.sym h.l) (Array.replicate freqs.length 0)).toList).length
      = freqs.length ∧
    (∀ l ∈ (fin.foldl (fun a h => a.set! h.sym h.l) (Array.replicate freqs.length 0)).toList, l ≤ m) ∧
    (∀ i, ((fin.foldl (fun a h => a.set! h.sym h.l) (Array.replicate freqs.length 0)).toList).getD i 0 ≠ 0
      ↔ freqs.getD i 0 ≠ 0) ∧
    kraftN m (fin.foldl (fun a h => a.set! h.sym h.l) (Array.replicate freqs.length 0)).toList = 2 ^ m := by
  rw [foldl_set_toList]
  simp only [Array.toList_replicate]
  have hnd : (fin.map (·.sym)).Nodup := hperm.nodup_iff.2 (usedOf_nodup freqs)
  have hmem : ∀ i, i ∈ fin.map (·.sym) ↔ freqs.getD i 0 ≠ 0 := fun i => by
    rw [hperm.mem_iff]; exact mem_usedOf_snd freqs i
  have hlt : ∀ h ∈ fin, h.sym < freqs.length := fun h hh => by
    have := (hmem h.sym).1 (List.mem_map.2 ⟨h, hh, rfl⟩)
    rw [List.getD_eq_getElem?_getD] at this
    by_cases hc : h.sym < freqs.length
    · exact hc
    · simp [List.getElem?_eq_none (Nat.le_of_not_lt hc)] at this
  obtain ⟨w1, w2, w3, w4⟩ := writeOut_spec m fin (List.replicate freqs.length 0) hnd
    (fun h hh => by simp [hlt h hh])
    (fun h hh => by have := (hr h hh).1; omega)
  generalize writeOut fin (List.replicate freqs.length 0) = out at w1 w2 w3 w4
  have hcase : ∀ i, (∃ h ∈ fin, h.sym = i ∧ out[i]? = some h.l) ∨
      ((∀ h ∈ fin, h.sym ≠ i) ∧ out[i]? = (List.replicate freqs.length 0)[i]?) := fun i => by
    by_cases hi : ∃ h ∈ fin, h.sym = i
    · obtain ⟨h, hh, rfl⟩ := hi
      exact Or.inl ⟨h, hh, rfl, w2 h hh⟩
    · have : ∀ h ∈ fin, h.sym ≠ i := fun h hh e => hi ⟨h, hh, e⟩
      exact Or.inr ⟨this, w3 i this⟩
  refine ⟨by simpa using w1, ?_, ?_, ?_⟩
  · intro x hx
    obtain ⟨i, hi⟩ := List.mem_iff_getElem?.1 hx
    rcases hcase i with ⟨h, hh, _, e⟩ | ⟨_, e⟩
    · rw [hi] at e; cases e; exact (hr h hh).2
    · rw [hi, List.getElem?_replicate] at e
      split at e
      · cases e; omega
      · cases e
  · intro i
    rw [← hmem i, List.getD_eq_getElem?_getD]
    rcases hcase i with ⟨h, hh, rfl, e⟩ | ⟨hn, e⟩
    · rw [e]; simp only [Option.getD_some]
      have := (hr h hh).1
      exact ⟨fun _ => List.mem_map.2 ⟨h, hh, rfl⟩, fun _ => by omega⟩
    · have hnot : i ∉ fin.map (·.sym) := fun hc => by
        obtain ⟨h, hh, e⟩ := List.mem_map.1 hc; exact hn h hh e
      rw [e, List.getElem?_replicate]
      constructor
      · intro hne; split at hne <;> simp at hne
      · intro hc; exact absurd hc hnot
  · rw [w4, kraftN_replicate, hk]; omega


/-- the repaired symbol list of the general branch of `huffLengths` -/
def huffFin (m : Nat) (init : List HSym) : List HSym :=
  shortenLoop m (m * 2 + 4)
    (lengthenPass m (init.mergeSort fun a b => decide (a.f ≤ b.f))
      (hKraft m (init.mergeSort fun a b => decide (a.f ≤ b.f)))).fst.reverse
    (2 ^ m - (lengthenPass m (init.mergeSort fun a b => decide (a.f ≤ b.f))
      (hKraft m (init.mergeSort fun a b => decide (a.f ≤ b.f)))).snd)

theorem huffFin_spec (m : Nat) (init : List HSym) (hm : 1 ≤ m) (hr : InR m init)
    (hlen2 : 2 ≤ init.length) (hlen : init.length ≤ 2 ^ m) :
    ((huffFin m init).map (·.sym)).Perm (init.map (·.sym)) ∧ InR m (huffFin m init) ∧
    ksum m (huffFin m init) = 2 ^ m := by
  unfold huffFin
  have hp := List.mergeSort_perm init (fun a b => decide (a.f ≤ b.f))
  generalize init.mergeSort (fun a b => decide (a.f ≤ b.f)) = asc at hp
  have hra : InR m asc := fun h hh => hr h (hp.mem_iff.1 hh)
  rw [hKraft_eq_ksum]
  obtain ⟨l1, l2, l3, l4, l5⟩ := lengthenPass_spec m asc (ksum m asc) hra (Nat.le_refl _)
  generalize lengthenPass m asc (ksum m asc) = q at l1 l2 l3 l4 l5
  obtain ⟨asc', k⟩ := q
  simp only at l1 l2 l3 l4 l5 ⊢
  have hlen' : asc'.length = init.length := by
    have := congrArg List.length l1; simp at this; rw [this]; exact hp.length_eq
  have hk : k = ksum m asc' := by omega
  have hk2 : k ≤ 2 ^ m := by
    rcases l5 with h | h
    · exact h
    · rw [hk, ksum_all_m m asc' h]; omega
  have hrd : InR m asc'.reverse := fun h hh => l2 h (List.mem_reverse.1 hh)
  have hkd : ksum m asc'.reverse = ksum m asc' := ksum_perm m (List.reverse_perm _)
  obtain ⟨s1, s2, s3⟩ := shortenLoop_spec m (m * 2 + 3) asc'.reverse (2 ^ m - k) hm hrd
    (by simp; omega) (by omega)
  refine ⟨?_, s2, s3⟩
  rw [s1, List.map_reverse, l1]
  exact (List.reverse_perm _).trans (hp.map _)

def initOf (m : Nat) (used : List (Nat × Nat)) : List HSym :=
  used.map fun x =>
    { sym := x.snd, f := x.fst,
      l := max 1 (min m (Entropy.clog2 ((List.foldl (fun a p => a + p.fst) 0 used + x.fst - 1) / x.fst))) }

theorem initOf_sym (m : Nat) (used : List (Nat × Nat)) :
    (initOf m used).map (·.sym) = used.map Prod.snd := by
  simp [initOf]

theorem initOf_inR (m : Nat) (used : List (Nat × Nat)) (hm : 1 ≤ m) : InR m (initOf m used) := by
  intro h hh
  obtain ⟨x, _, rfl⟩ := List.mem_map.1 hh
  simp only
  omega

theorem huffLengths_spec (maxLen : Nat) (freqs : List Nat) (hm : 1 ≤ maxLen)
    (hn : (freqs.filter (· > 0)).length ≤ 2 ^ maxLen) :
    (huffLengths maxLen freqs).length = freqs.length ∧
    (∀ l ∈ huffLengths maxLen freqs, l ≤ maxLen) ∧
    (∀ i, (huffLengths maxLen freqs).getD i 0 ≠ 0 ↔ freqs.getD i 0 ≠ 0) ∧
    (2 ≤ (freqs.filter (· > 0)).length → kraftN maxLen (huffLengths maxLen freqs) = 2 ^ maxLen) ∧
    ((freqs.filter (· > 0)).length = 1 → ∀ l ∈ huffLengths maxLen freqs, l ≤ 1) := by
  rw [← usedOf_length] at hn ⊢
  unfold huffLengths
  simp only
  split
  · rename_i heq
    change usedOf freqs = [] at heq
    have hz : ∀ i, freqs.getD i 0 = 0 := fun i => by
      have := mem_usedOf_snd freqs i
      rw [heq] at this
      simpa using this
    refine ⟨by simp, ?_, ?_, ?_, ?_⟩
    · intro l hl; simp at hl; omega
    · intro i
      rw [hz i, List.getD_eq_getElem?_getD, List.getElem?_map]
      cases freqs[i]? <;> simp
    · rw [heq]; simp
    · rw [heq]; simp
  · rename_i f s heq
    change usedOf freqs = [(f, s)] at heq
    have hle1 : ∀ l ∈ List.map (fun x : Nat × Nat => if x.snd = s then 1 else 0) freqs.zipIdx, l ≤ 1 := by
      intro l hl
      obtain ⟨x, _, rfl⟩ := List.mem_map.1 hl
      split <;> omega
    have hs : ∀ i, freqs.getD i 0 ≠ 0 ↔ i = s := fun i => by
      rw [← mem_usedOf_snd, heq]; simp
    refine ⟨by simp, fun l hl => Nat.le_trans (hle1 l hl) hm, ?_, ?_, fun _ => hle1⟩
    · intro i
      rw [hs i, List.getD_eq_getElem?_getD, List.getElem?_map, List.getElem?_zipIdx]
      cases hf : freqs[i]? with
      | none =>
        have : freqs.getD i 0 = 0 := by rw [List.getD_eq_getElem?_getD, hf]; rfl
        have hne : i ≠ s := fun e => (hs i).2 e this
        simp [hne]
      | some v => simp
    · rw [heq]; simp
  · rename_i hne1 hne2
    change usedOf freqs = [] → False at hne1
    change ∀ a b, usedOf freqs = [(a, b)] → False at hne2
    have hlen2 : 2 ≤ (usedOf freqs).length := by
      match h : usedOf freqs with
      | [] => exact absurd h hne1
      | [(a, b)] => exact absurd h (hne2 a b)
      | _ :: _ :: _ => simp
    have hil : (initOf maxLen (usedOf freqs)).length = (usedOf freqs).length := by simp [initOf]
    obtain ⟨f1, f2, f3⟩ := huffFin_spec maxLen (initOf maxLen (usedOf freqs)) hm
      (initOf_inR _ _ hm) (by omega) (by omega)
    rw [initOf_sym] at f1
    obtain ⟨o1, o2, o3, o4⟩ := out_spec maxLen freqs _ f1 f2 f3
    exact ⟨o1, o2, o3, fun _ => o4, fun h => by omega⟩


/-! ### histogram -/


theorem histogram_aux (l : List Nat) (a : Array Nat) :
    (l.foldl (fun (a : Array Nat) v => if v < a.size then a.set! v (a[v]! + 1) else a) a).size = a.size ∧
    ∀ i, i < a.size →
      (l.foldl (fun (a : Array Nat) v => if v < a.size then a.set! v (a[v]! + 1) else a) a)[i]?.getD 0
        = a[i]?.getD 0 + l.count i := by
  induction l generalizing a with
  | nil => simp
  | cons v r ih =>
    simp only [List.foldl_cons, List.count_cons]
    split
    · rename_i hv
      obtain ⟨h1, h2⟩ := ih (a.set! v (a[v]! + 1))
      refine ⟨by rw [h1]; simp, fun i hi => ?_⟩
      rw [h2 i (by simpa using hi)]
      by_cases hiv : v = i
      · subst hiv; simp [hv]; omega
      · simp [Array.getElem?_setIfInBounds_ne hiv, hiv]
    · rename_i hv
      obtain ⟨h1, h2⟩ := ih a
      refine ⟨h1, fun i hi => ?_⟩
      rw [h2 i hi]
      have : v ≠ i := by omega
      simp [this]

theorem histogram_spec (n : Nat) (l : List Nat) :
    (histogram n l).length = n ∧ ∀ i, i < n → (histogram n l).getD i 0 = l.count i := by
  unfold histogram
  obtain ⟨h1, h2⟩ := histogram_aux l (Array.replicate n 0)
  refine ⟨by simpa using h1, fun i hi => ?_⟩
  have := h2 i (by simpa using hi)
  rw [List.getD_eq_getElem?_getD, Array.getElem?_toList, this]
  simp [hi]

end Jxl.Enc
