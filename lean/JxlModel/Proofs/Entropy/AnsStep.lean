import Mathlib.Tactic.Ring
import Mathlib.Tactic.Linarith
import JxlModel.Model.Entropy.Ans
import JxlModel.Model.Enc.AnsEnc
import JxlModel.Proofs.Entropy.Reader
/-! One rANS decode step inverts one encode step; states stay in `[2^16, 2^32)`. -/
namespace Jxl.Entropy
open Jxl Jxl.Enc

theorem ans_step_inv (h : AnsHist) (s D : Nat) (inv : Nat → Nat) (hD : 0 < D) (hD' : D ≤ 4096)
    (hinv : ∀ k, k < D → h.lookup (inv k) = (s, k, D) ∧ inv k < 4096)
    (x : Nat) (hx1 : 2 ^ 16 ≤ x) (hx2 : x < 2 ^ 32) (rest : Bits) :
    let r := ansEncStep D inv x
    2 ^ 16 ≤ r.1 ∧ r.1 < 2 ^ 32 ∧
    h.readSymbol r.1 (stepBits r.2 ++ rest) = .ok ((s, x), rest) := by
  intro r
  by_cases hren : x / 2 ^ 20 ≥ D
  · -- renormalising step
    have hr : r = ((x / 2 ^ 16 / D) * 4096 + inv (x / 2 ^ 16 % D), some (x % 2 ^ 16)) := by
      simp only [r, ansEncStep, hren, if_true]
    rw [hr]
    simp only
    have hk : x / 2 ^ 16 % D < D := Nat.mod_lt _ hD
    obtain ⟨hl, hi⟩ := hinv _ hk
    have hq1 : 16 ≤ x / 2 ^ 16 / D := by
      rw [Nat.le_div_iff_mul_le hD]
      have : x / 2 ^ 20 = x / 2 ^ 16 / 16 := by
        rw [Nat.div_div_eq_div_mul]; rfl
      omega
    have hq2 : x / 2 ^ 16 / D < 2 ^ 16 := by
      have : x / 2 ^ 16 < 2 ^ 16 := by omega
      exact Nat.lt_of_le_of_lt (Nat.div_le_self _ _) this
    refine ⟨by omega, by omega, ?_⟩
    unfold AnsHist.readSymbol
    have hmod : (x / 2 ^ 16 / D * 4096 + inv (x / 2 ^ 16 % D)) % 4096 = inv (x / 2 ^ 16 % D) := by
      rw [Nat.mul_comm, Nat.mul_add_mod]; exact Nat.mod_eq_of_lt hi
    have hdiv : (x / 2 ^ 16 / D * 4096 + inv (x / 2 ^ 16 % D)) / 4096 = x / 2 ^ 16 / D := by
      rw [Nat.mul_comm, Nat.mul_add_div (by omega), Nat.div_eq_of_lt hi, Nat.add_zero]
    rw [hmod, hl, hdiv]
    simp only
    have hnext : x / 2 ^ 16 / D * D + x / 2 ^ 16 % D = x / 2 ^ 16 := by
      rw [Nat.mul_comm]; exact Nat.div_add_mod _ _
    rw [hnext]
    have hlt : x / 2 ^ 16 < 2 ^ 16 := by omega
    simp only [hlt, if_true, stepBits]
    rw [dropChk_append 16 _ rest (toBits_length _ _), peekPad_append 16 _ rest (toBits_length _ _),
      ofBits_toBits _ _ (Nat.mod_lt _ (by omega))]
    have : x / 2 ^ 16 * 2 ^ 16 + x % 2 ^ 16 = x := by
      rw [Nat.mul_comm]; exact Nat.div_add_mod _ _
    rw [this]
  · have hr : r = ((x / D) * 4096 + inv (x % D), none) := by
      simp only [r, ansEncStep, hren, if_false]
    rw [hr]
    simp only
    have hk : x % D < D := Nat.mod_lt _ hD
    obtain ⟨hl, hi⟩ := hinv _ hk
    have hq1 : 16 ≤ x / D := by
      rw [Nat.le_div_iff_mul_le hD]
      have : 16 * D ≤ 16 * 4096 := Nat.mul_le_mul_left 16 hD'
      omega
    have hq2 : x / D < 2 ^ 20 := by
      rw [Nat.div_lt_iff_lt_mul hD]
      have h1 : x / 2 ^ 20 < D := by omega
      have h2 := (Nat.div_lt_iff_lt_mul (by omega : 0 < 2 ^ 20)).1 h1
      rw [Nat.mul_comm]; exact h2
    refine ⟨by omega, by omega, ?_⟩
    unfold AnsHist.readSymbol
    have hmod : (x / D * 4096 + inv (x % D)) % 4096 = inv (x % D) := by
      rw [Nat.mul_comm, Nat.mul_add_mod]; exact Nat.mod_eq_of_lt hi
    have hdiv : (x / D * 4096 + inv (x % D)) / 4096 = x / D := by
      rw [Nat.mul_comm, Nat.mul_add_div (by omega), Nat.div_eq_of_lt hi, Nat.add_zero]
    rw [hmod, hl, hdiv]
    simp only
    have hnext : x / D * D + x % D = x := by
      rw [Nat.mul_comm]; exact Nat.div_add_mod _ _
    rw [hnext]
    have hge : ¬ x < 2 ^ 16 := by omega
    rw [if_neg hge]
    simp [stepBits]

end Jxl.Entropy
