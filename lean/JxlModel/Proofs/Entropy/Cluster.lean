import Mathlib.Data.List.Perm.Basic
import Mathlib.Data.List.Basic
import JxlModel.Model.Entropy.Cluster
import JxlModel.Model.Entropy.Perm
/-! Move-to-front, the hole check, Lehmer codes. -/
namespace Jxl.Entropy
open List

/-! ## move-to-front -/

theorem mtf_decode_encode_from (tbl l : List Nat) (h : ∀ x ∈ l, x ∈ tbl) :
    mtfDecodeFrom tbl (mtfEncodeFrom tbl l) = l := by
  induction l generalizing tbl with
  | nil => rfl
  | cons v r ih =>
    have hv : v ∈ tbl := h v (by simp)
    have hi := idxOf_lt_length_of_mem hv
    have hget : tbl.getD (tbl.idxOf v) 0 = v := by
      rw [← List.getElem_eq_getD (h := hi)]; exact getElem_idxOf hi
    simp only [mtfEncodeFrom, mtfDecodeFrom, mtfStep, hget]
    congr 1
    apply ih
    intro x hx
    by_cases hxv : x = v
    · subst hxv; simp
    · rw [eraseIdx_idxOf_eq_erase]
      exact mem_cons_of_mem _ ((mem_erase_of_ne hxv).2 (h x (by simp [hx])))

theorem mtf_decode_encode (l : List Nat) (h : ∀ x ∈ l, x < 256) : mtfDecode (mtfEncode l) = l :=
  mtf_decode_encode_from _ l (fun x hx => List.mem_range.2 (h x hx))

/-- the encoder's indices are valid cluster bytes -/
theorem mtf_encode_lt_from (tbl l : List Nat) (h : ∀ x ∈ l, x ∈ tbl) :
    ∀ i ∈ mtfEncodeFrom tbl l, i < tbl.length := by
  induction l generalizing tbl with
  | nil => simp [mtfEncodeFrom]
  | cons v r ih =>
    have hv : v ∈ tbl := h v (by simp)
    have hi := idxOf_lt_length_of_mem hv
    intro i hmem
    simp only [mtfEncodeFrom, mem_cons] at hmem
    rcases hmem with rfl | hmem
    · exact hi
    · have hlen : (v :: tbl.eraseIdx (tbl.idxOf v)).length = tbl.length := by
        rw [List.length_cons, length_eraseIdx_of_lt hi]; omega
      rw [← hlen]
      apply ih _ _ i hmem
      intro x hx
      by_cases hxv : x = v
      · subst hxv; simp
      · rw [eraseIdx_idxOf_eq_erase]
        exact mem_cons_of_mem _ ((mem_erase_of_ne hxv).2 (h x (by simp [hx])))

/-! ## hole check -/

theorem le_listMax (l : List Nat) : ∀ x ∈ l, x ≤ listMax l := by
  induction l with
  | nil => simp
  | cons a r ih =>
    intro x hx
    simp only [mem_cons] at hx
    simp only [listMax]
    rcases hx with rfl | hx
    · omega
    · have := ih x hx; omega

theorem checkClusters_ok_iff (cl : List Nat) :
    checkClusters cl = .ok (listMax cl + 1, cl) ↔ ∀ k, k < listMax cl + 1 → k ∈ cl := by
  unfold checkClusters distinctCount
  simp only
  have hlen : (List.range (listMax cl + 1)).length = listMax cl + 1 := by simp
  constructor
  · intro h
    split at h
    · cases h
    · rename_i hne
      simp only [ne_eq, Decidable.not_not] at hne
      have hne' : ((List.range (listMax cl + 1)).filter fun k => cl.contains k).length
          = (List.range (listMax cl + 1)).length := by rw [hlen]; exact hne
      have := length_filter_eq_length_iff.1 hne'
      intro k hk
      have := this k (List.mem_range.2 hk)
      simpa using this
  · intro h
    have : ((List.range (listMax cl + 1)).filter fun k => cl.contains k).length
        = (List.range (listMax cl + 1)).length := by
      rw [length_filter_eq_length_iff]
      intro k hk
      simpa using h k (List.mem_range.1 hk)
    rw [this, hlen]
    simp

theorem checkClusters_err_iff (cl : List Nat) :
    checkClusters cl = .error .clusterHole ↔ ∃ k, k < listMax cl + 1 ∧ k ∉ cl := by
  have h := checkClusters_ok_iff cl
  by_cases hd : distinctCount cl ≠ listMax cl + 1
  · have e : checkClusters cl = .error .clusterHole := by
      unfold checkClusters; exact if_pos hd
    rw [e] at h ⊢
    have : ¬ ∀ k, k < listMax cl + 1 → k ∈ cl := fun hh => by
      have := h.2 hh; cases this
    refine ⟨fun _ => ?_, fun _ => rfl⟩
    simpa using this
  · have e : checkClusters cl = .ok (listMax cl + 1, cl) := by
      unfold checkClusters; exact if_neg hd
    rw [e] at h ⊢
    have hall := h.1 rfl
    constructor
    · intro hh; cases hh
    · rintro ⟨k, hk, hnk⟩; exact absurd (hall k hk) hnk

/-! ## Lehmer codes -/

theorem lehmerApply_code (p temp : List Nat) (hp : p ~ temp) :
    lehmerApply (lehmerCode p temp) temp = p := by
  induction p generalizing temp with
  | nil =>
    have : temp = [] := by simpa using hp.symm
    subst this; rfl
  | cons x r ih =>
    have hx : x ∈ temp := hp.subset (by simp)
    have hi := idxOf_lt_length_of_mem hx
    have hget : temp.getD (temp.idxOf x) 0 = x := by
      rw [← List.getElem_eq_getD (h := hi)]; exact getElem_idxOf hi
    simp only [lehmerCode, lehmerApply, hget]
    congr 1
    apply ih
    rw [eraseIdx_idxOf_eq_erase]
    exact (perm_cons_erase hx).symm.trans hp.symm |>.symm |> fun h => by
      have h2 : x :: r ~ x :: temp.erase x := hp.trans (perm_cons_erase hx)
      exact (perm_cons x).1 h2

/-- zeros at the end of a Lehmer code may be dropped -/
theorem lehmerApply_zeros (k : Nat) (temp : List Nat) (hk : k ≤ temp.length) :
    lehmerApply (List.replicate k 0) temp = temp := by
  induction k generalizing temp with
  | zero => rfl
  | succ k ih =>
    cases temp with
    | nil => simp at hk
    | cons a t =>
      simp only [List.replicate, lehmerApply, List.getD_cons_zero, List.eraseIdx_cons_zero]
      rw [ih t (by simpa using hk)]

theorem lehmerApply_append (a b temp : List Nat) :
    ∃ temp', lehmerApply (a ++ b) temp = (lehmerApply a temp).take a.length ++ lehmerApply b temp' ∧
      lehmerApply a temp = (lehmerApply a temp).take a.length ++ temp' ∧
      temp.length - a.length ≤ temp'.length := by
  induction a generalizing temp with
  | nil => exact ⟨temp, by simp [lehmerApply], by simp [lehmerApply], by simp⟩
  | cons i r ih =>
    obtain ⟨t', h1, h2, h3⟩ := ih (temp.eraseIdx i)
    refine ⟨t', ?_, ?_, ?_⟩
    · simp only [List.cons_append, lehmerApply, List.length_cons, List.take_succ_cons]
      rw [h1]
    · simp only [lehmerApply, List.length_cons, List.take_succ_cons, List.cons_append]
      rw [← h2]
    · have : temp.length - 1 ≤ (temp.eraseIdx i).length := by
        by_cases hi : i < temp.length
        · rw [length_eraseIdx_of_lt hi]; exact Nat.le_refl _
        · rw [eraseIdx_eq_self.mpr (by omega)]; omega
      simp only [List.length_cons]; omega

/-- applying a valid Lehmer code yields a permutation of the pool -/
theorem lehmerApply_perm (l temp : List Nat)
    (h : ∀ j, (hj : j < l.length) → l[j] < temp.length - j) :
    lehmerApply l temp ~ temp := by
  induction l generalizing temp with
  | nil => exact Perm.refl _
  | cons i r ih =>
    have hi : i < temp.length := by have := h 0 (by simp); simpa using this
    simp only [lehmerApply]
    rw [← List.getElem_eq_getD (h := hi)]
    have hr : lehmerApply r (temp.eraseIdx i) ~ temp.eraseIdx i := by
      apply ih
      intro j hj
      have := h (j + 1) (by simp; omega)
      simp only [List.getElem_cons_succ] at this
      rw [length_eraseIdx_of_lt hi]; omega
    exact ((perm_cons _).2 hr).trans (getElem_cons_eraseIdx_perm hi)

theorem lehmerCode_length (p temp : List Nat) : (lehmerCode p temp).length = p.length := by
  induction p generalizing temp with
  | nil => rfl
  | cons x r ih => simp [lehmerCode, ih]

theorem mem_takeWhile_sat (p : Nat → Bool) (l : List Nat) (b : Nat) (h : b ∈ l.takeWhile p) :
    p b = true := by
  induction l with
  | nil => simp at h
  | cons a r ih =>
    rw [List.takeWhile_cons] at h
    split at h
    · rename_i ha
      simp only [mem_cons] at h
      rcases h with rfl | h
      · exact ha
      · exact ih h
    · simp at h

theorem dropTrailingZeros_spec (l : List Nat) :
    ∃ k, l = dropTrailingZeros l ++ List.replicate k 0 := by
  unfold dropTrailingZeros
  refine ⟨(l.reverse.takeWhile (· = 0)).length, ?_⟩
  have h1 : l.reverse = l.reverse.takeWhile (· = 0) ++ l.reverse.dropWhile (· = 0) :=
    (takeWhile_append_dropWhile).symm
  have h2 : l.reverse.takeWhile (· = 0) = List.replicate (l.reverse.takeWhile (· = 0)).length 0 := by
    rw [List.eq_replicate_iff]
    refine ⟨rfl, fun b hb => ?_⟩
    have := mem_takeWhile_sat _ _ _ hb
    simpa using this
  have h3 : l = (l.reverse.dropWhile (· = 0)).reverse ++ (l.reverse.takeWhile (· = 0)).reverse := by
    rw [← List.reverse_append, ← h1, List.reverse_reverse]
  rw [h2, List.reverse_replicate] at h3
  exact h3

/-- trimming trailing zeros of a full-length Lehmer code does not change what it decodes to -/
theorem lehmerApply_trim (code temp : List Nat) (hlen : code.length = temp.length) :
    lehmerApply (dropTrailingZeros code) temp = lehmerApply code temp := by
  obtain ⟨k, hk⟩ := dropTrailingZeros_spec code
  generalize dropTrailingZeros code = t at hk
  obtain ⟨t', h1, h2, h3⟩ := lehmerApply_append t (List.replicate k 0) temp
  have hkl : k ≤ t'.length := by
    have : code.length = t.length + k := by rw [hk]; simp
    omega
  rw [hk, h1, lehmerApply_zeros k t' hkl, ← h2]

theorem lehmer_roundtrip (size skip : Nat) (perm : List Nat)
    (hfix : perm.take skip = List.range skip)
    (hperm : perm.drop skip ~ (List.range (size - skip)).map (· + skip)) :
    lehmerDecode size skip (lehmerEncode size skip perm) = perm := by
  unfold lehmerDecode lehmerEncode
  rw [lehmerApply_trim _ _ (by rw [lehmerCode_length]; exact hperm.length_eq),
    lehmerApply_code _ _ hperm, ← hfix, List.take_append_drop]

end Jxl.Entropy
