import JxlModel.Proofs.Entropy.Check
import JxlModel.Proofs.Entropy.AnsHistCounts
/-!
# General ANS histogram header — facts about the distribution that is written

`generalAlphabet`, `omitPos`, the bound `< 4096` on every entry, and the sums the decoder's
accumulator runs through.
-/
namespace Jxl.Entropy
open Jxl Jxl.Enc

theorem getD_eq_getElem' (l : List Nat) (i : Nat) (h : i < l.length) : l.getD i 0 = l[i] :=
  (List.getElem_eq_getD (h := h) 0).symm

/-! ## trailing zeros and the alphabet size -/

theorem takeWhile_zero_eq_replicate (L : List Nat) :
    L.takeWhile (fun v => decide (v = 0)) = List.replicate (L.takeWhile fun v => decide (v = 0)).length 0 := by
  induction L with
  | nil => rfl
  | cons b r ih =>
    by_cases hb : b = 0
    · subst hb
      simp only [List.takeWhile_cons, decide_true, if_true, List.length_cons, List.replicate_succ]
      rw [← ih]
    · simp [hb]

theorem trim_decomp (l : List Nat) :
    ∃ k, l = generalAlphabet.trimTrailingZeros' l ++ List.replicate k 0 := by
  refine ⟨(l.reverse.takeWhile fun v => decide (v = 0)).length, ?_⟩
  have h := (List.takeWhile_append_dropWhile (p := fun v => decide (v = 0)) (l := l.reverse))
  have h2 : l = (l.reverse.dropWhile fun v => decide (v = 0)).reverse
      ++ (l.reverse.takeWhile fun v => decide (v = 0)).reverse := by
    rw [← List.reverse_append, h, List.reverse_reverse]
  have h3 := takeWhile_zero_eq_replicate l.reverse
  unfold generalAlphabet.trimTrailingZeros'
  conv => lhs; rw [h2]
  rw [h3, List.reverse_replicate, List.length_replicate]

theorem trim_length_le (l : List Nat) : (generalAlphabet.trimTrailingZeros' l).length ≤ l.length := by
  obtain ⟨k, hk⟩ := trim_decomp l
  have := congrArg List.length hk
  simp at this
  omega

theorem generalAlphabet_ge (d : List Nat) : 3 ≤ generalAlphabet d := by
  unfold generalAlphabet; omega

theorem generalAlphabet_le (d : List Nat) : generalAlphabet d ≤ max 3 d.length := by
  have := trim_length_le d
  unfold generalAlphabet; omega

theorem getD_zero_of_ge_alphabet (d : List Nat) (i : Nat) (h : generalAlphabet d ≤ i) :
    d.getD i 0 = 0 := by
  obtain ⟨k, hk⟩ := trim_decomp d
  have hlen : (generalAlphabet.trimTrailingZeros' d).length ≤ i := by
    unfold generalAlphabet at h; omega
  rw [hk, getD_append_zeros, List.getD_eq_getElem?_getD, List.getElem?_eq_none hlen]
  rfl

/-! ## the largest log count -/

theorem listMax_mem (l : List Nat) (h : l ≠ []) : listMax l ∈ l := by
  induction l with
  | nil => exact absurd rfl h
  | cons a r ih =>
    simp only [listMax]
    by_cases hr : r = []
    · subst hr
      simp [listMax]
    · have := ih hr
      rcases Nat.le_total a (listMax r) with h1 | h1
      · rw [Nat.max_eq_right h1]; exact List.mem_cons_of_mem _ this
      · rw [Nat.max_eq_left h1]; exact List.mem_cons_self

theorem idxOf_getD (l : List Nat) (m : Nat) (h : m ∈ l) : l.getD (l.idxOf m) 0 = m := by
  have hlt := List.idxOf_lt_length_of_mem h
  rw [getD_eq_getElem' _ _ hlt]
  exact List.getElem_idxOf hlt

theorem getD_ne_of_lt_idxOf (l : List Nat) (m : Nat) : ∀ j, j < l.idxOf m → l.getD j 0 ≠ m := by
  induction l with
  | nil => intro j hj; simp at hj
  | cons b r ih =>
    intro j hj
    rw [List.idxOf_cons] at hj
    by_cases hb : b = m
    · simp [hb] at hj
    · have hbeq : (b == m) = false := by simpa using hb
      rw [hbeq] at hj
      simp only [cond_false] at hj
      cases j with
      | zero => simpa using hb
      | succ j =>
        simp only [List.getD_cons_succ]
        exact ih j (by omega)

theorem logCount_getD (d : List Nat) (j : Nat) :
    (d.map logCount).getD j 0 = logCount (d.getD j 0) := by
  by_cases h : j < d.length
  · rw [getD_eq_getElem' _ _ (by simpa using h), getD_eq_getElem' _ _ h]
    simp
  · rw [List.getD_eq_getElem?_getD, List.getD_eq_getElem?_getD, List.getElem?_eq_none (by simp; omega),
      List.getElem?_eq_none (by omega)]
    rfl

/-- `omitPos` is the first index with the largest log count -/
theorem omitPos_spec (d : List Nat) (hd : d ≠ []) :
    (∀ j, logCount (d.getD j 0) ≤ logCount (d.getD (omitPos d) 0)) ∧
    (∀ j, j < omitPos d → logCount (d.getD j 0) < logCount (d.getD (omitPos d) 0)) := by
  have hne : d.map logCount ≠ [] := by simpa using hd
  have hmem := listMax_mem _ hne
  have hop : logCount (d.getD (omitPos d) 0) = listMax (d.map logCount) := by
    rw [← logCount_getD]
    exact idxOf_getD _ _ hmem
  have hle : ∀ j, logCount (d.getD j 0) ≤ listMax (d.map logCount) := fun j => by
    rw [← logCount_getD]; exact getD_le_listMax _ j
  constructor
  · intro j; rw [hop]; exact hle j
  · intro j hj
    rw [hop]
    have h1 := hle j
    have h2 : logCount (d.getD j 0) ≠ listMax (d.map logCount) := by
      rw [← logCount_getD]
      exact getD_ne_of_lt_idxOf _ _ j hj
    omega

/-! ## every entry is below the total -/

theorem usedSyms_length (d : List Nat) :
    (usedSyms d).length = (d.filter fun v => decide (v ≠ 0)).length := by
  unfold usedSyms
  rw [List.length_map]
  have h1 : (d.filter fun v => decide (v ≠ 0))
      = (d.zipIdx.filter ((fun v => decide (v ≠ 0)) ∘ Prod.fst)).map Prod.fst := by
    rw [← List.filter_map, List.zipIdx_map_fst]
  rw [h1, List.length_map]
  rfl

theorem sum_pos_of_nonzero (l : List Nat) (h : 1 ≤ (l.filter fun v => decide (v ≠ 0)).length) :
    0 < l.sum := by
  induction l with
  | nil => simp at h
  | cons a r ih =>
    rw [List.sum_cons]
    by_cases ha : a = 0
    · subst ha
      simp at h
      have := ih (by simpa using h)
      omega
    · omega

theorem le_sum_of_mem (l : List Nat) (v : Nat) (h : v ∈ l) : v ≤ l.sum := by
  induction l with
  | nil => simp at h
  | cons a r ih =>
    rw [List.sum_cons]
    rcases List.mem_cons.1 h with rfl | h
    · omega
    · have := ih h; omega

theorem lt_sum_of_two_nonzero (l : List Nat) (h : 2 ≤ (l.filter fun v => decide (v ≠ 0)).length) :
    ∀ v ∈ l, v < l.sum := by
  induction l with
  | nil => simp at h
  | cons a r ih =>
    intro v hv
    rw [List.sum_cons]
    by_cases ha : a = 0
    · subst ha
      have h' : 2 ≤ (r.filter fun v => decide (v ≠ 0)).length := by simpa using h
      rcases List.mem_cons.1 hv with rfl | hv
      · have := sum_pos_of_nonzero r (by omega); omega
      · have := ih h' v hv; omega
    · have h' : 1 ≤ (r.filter fun v => decide (v ≠ 0)).length := by
        rw [List.filter_cons, if_pos (by simpa using ha), List.length_cons] at h
        omega
      have hpos := sum_pos_of_nonzero r h'
      rcases List.mem_cons.1 hv with rfl | hv
      · omega
      · have := le_sum_of_mem r v hv; omega

theorem getD_lt_4096 (d : List Nat) (hsum : d.sum = 4096) (hused : 2 ≤ (usedSyms d).length)
    (i : Nat) : d.getD i 0 < 4096 := by
  rw [usedSyms_length] at hused
  by_cases h : i < d.length
  · rw [getD_eq_getElem' _ _ h, ← hsum]
    exact lt_sum_of_two_nonzero d hused _ (List.getElem_mem h)
  · rw [List.getD_eq_getElem?_getD, List.getElem?_eq_none (by omega)]
    simp

theorem logCount_le_12 {v : Nat} (h : v < 4096) : logCount v ≤ 12 := by
  unfold logCount
  by_cases h0 : v = 0
  · rw [if_pos h0]; omega
  · rw [if_neg h0]
    have := log2_lt_of_lt_pow (k := 12) h0 (by omega)
    omega

theorem exists_nonzero (d : List Nat) (hsum : d.sum ≠ 0) : ∃ j, d.getD j 0 ≠ 0 := by
  induction d with
  | nil => simp at hsum
  | cons a r ih =>
    by_cases ha : a = 0
    · subst ha
      obtain ⟨j, hj⟩ := ih (by simpa using hsum)
      exact ⟨j + 1, by simpa using hj⟩
    · exact ⟨0, by simpa using ha⟩

theorem omitPos_nonzero (d : List Nat) (hsum : d.sum = 4096) : d.getD (omitPos d) 0 ≠ 0 := by
  have hd : d ≠ [] := by intro h; subst h; simp at hsum
  obtain ⟨j, hj⟩ := exists_nonzero d (by omega)
  have h1 := (omitPos_spec d hd).1 j
  intro h0
  rw [h0] at h1
  have : logCount (d.getD j 0) ≠ 0 := fun h => hj (logCount_eq_zero.1 h)
  have : logCount 0 = 0 := rfl
  omega

theorem omitPos_lt_alphabet (d : List Nat) (hsum : d.sum = 4096) : omitPos d < generalAlphabet d := by
  rcases Nat.lt_or_ge (omitPos d) (generalAlphabet d) with h | h
  · exact h
  · exact absurd (getD_zero_of_ge_alphabet d _ h) (omitPos_nonzero d hsum)

/-! ## the table and its sums -/

theorem range'_map_getD (d : List Nat) (T : Nat) (h : d.length ≤ T) :
    (List.range' 0 T).map (fun i => d.getD i 0) = d ++ List.replicate (T - d.length) 0 := by
  apply List.ext_getElem
  · simp; omega
  · intro k h1 h2
    rw [List.getElem_map, List.getElem_range', ← getD_eq_getElem' _ _ h2, getD_append_zeros]
    simp

theorem sumEx_of_lt (x : Nat → Nat) (op i n : Nat) (h : op < i) :
    sumEx x op i n = ((List.range' i n).map x).sum := by
  unfold sumEx
  rw [range'_map_congr (ex x op) x n i (fun j h1 _ => by unfold ex; rw [if_neg (by omega)])]

theorem sumEx_add_omit (x : Nat → Nat) (op : Nat) : ∀ (n i : Nat), i ≤ op → op < i + n →
    sumEx x op i n + x op = ((List.range' i n).map x).sum := by
  intro n
  induction n with
  | zero => intro i h1 h2; omega
  | succ n ih =>
    intro i h1 h2
    rw [sumEx_succ, List.range'_succ, List.map_cons, List.sum_cons]
    by_cases hi : i = op
    · subst hi
      rw [sumEx_of_lt x i (i + 1) n (by omega)]
      simp [ex]
      omega
    · have := ih (i + 1) (by omega) (by omega)
      have he : ex x op i = x i := by unfold ex; rw [if_neg hi]
      rw [he]; omega

/-- the accumulator after the whole table -/
theorem sumEx_total (d : List Nat) (op T : Nat) (hT : d.length ≤ T) (hop : op < T) :
    sumEx (fun i => d.getD i 0) op 0 T + d.getD op 0 = d.sum := by
  rw [sumEx_add_omit (fun i => d.getD i 0) op T 0 (by omega) (by omega), range'_map_getD d T hT]
  simp

/-- patching the omitted position gives the table back -/
theorem set_omit (x : Nat → Nat) (op T : Nat) :
    ((List.range' 0 T).map (yv x op)).set op (x op) = (List.range' 0 T).map x := by
  apply List.ext_getElem
  · simp
  · intro k h1 h2
    rw [List.getElem_set]
    by_cases hk : op = k
    · rw [if_pos hk]; simp [hk]
    · rw [if_neg hk]
      simp only [List.getElem_map, List.getElem_range', yv]
      rw [if_neg (by omega)]

end Jxl.Entropy
