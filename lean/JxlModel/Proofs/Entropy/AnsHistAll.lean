import JxlModel.Proofs.Entropy.AnsHist
import JxlModel.Proofs.Entropy.PrefixHist
/-! Every ANS histogram header the encoder writes for a distribution that passes its Boolean check
(`codeOk`) is read back as the table the spec denotes: single / binary / flat / general forms and
the fall-backs of `effectiveForm`. -/
namespace Jxl.Entropy
open Jxl Jxl.Enc

theorem usedSyms_eq (d : List Nat) : usedSyms d = (usedL d).map (·.2) := rfl

theorem mem_usedSyms (d : List Nat) (i : Nat) : i ∈ usedSyms d ↔ d.getD i 0 ≠ 0 := by
  rw [usedSyms_eq, List.mem_map]
  constructor
  · rintro ⟨⟨l, s⟩, hm, rfl⟩
    have := usedL_getD d l s hm
    simp only
    omega
  · intro h
    exact ⟨(d.getD i 0, i), usedL_of_getD d i h, rfl⟩

theorem usedSyms_nodup (d : List Nat) : (usedSyms d).Nodup := by
  rw [usedSyms_eq]; exact usedL_nodup d

theorem usedSyms_lt (d : List Nat) (i : Nat) (h : i ∈ usedSyms d) : i < d.length := by
  rw [mem_usedSyms] at h
  by_contra hcon
  rw [List.getD_eq_getElem?_getD, List.getElem?_eq_none (by omega)] at h
  exact h rfl

theorem sum_set_zero (d : List Nat) : ∀ i, (d.set i 0).sum + d.getD i 0 = d.sum := by
  induction d with
  | nil => intro i; simp
  | cons a t ih =>
    intro i
    cases i with
    | zero => simp; omega
    | succ i =>
      simp only [List.set_cons_succ, List.sum_cons, List.getD_cons_succ]
      have := ih i
      omega

theorem sum_zero_of_getD (d : List Nat) (h : ∀ i, d.getD i 0 = 0) : d.sum = 0 := by
  induction d with
  | nil => rfl
  | cons a t ih =>
    have h0 := h 0
    simp only [List.getD_cons_zero] at h0
    subst h0
    simp only [List.sum_cons, Nat.zero_add]
    exact ih (fun i => by have := h (i + 1); simpa using this)

theorem getD_set_zero (d : List Nat) (i j : Nat) :
    (d.set i 0).getD j 0 = if i = j then 0 else d.getD j 0 := by
  by_cases h : i = j
  · subst h
    rw [if_pos rfl]
    by_cases hi : i < d.length
    · exact getD_set_self d i 0 hi
    · rw [List.getD_eq_getElem?_getD, List.getElem?_eq_none (by simp; omega)]; rfl
  · rw [if_neg h, getD_set_ne d i j 0 h]

/-- a distribution with one used symbol -/
theorem dist_single (d : List Nat) (v : Nat) (hsum : d.sum = 4096) (hu : usedSyms d = [v]) :
    ∀ i, d.getD i 0 = if i = v then 4096 else 0 := by
  have hz : ∀ i, i ≠ v → d.getD i 0 = 0 := by
    intro i hi
    by_contra hcon
    have := (mem_usedSyms d i).2 hcon
    rw [hu] at this
    simp at this
    exact hi this
  have h1 := sum_set_zero d v
  have h2 : (d.set v 0).sum = 0 := sum_zero_of_getD _ (fun i => by
    rw [getD_set_zero]
    split
    · rfl
    · rename_i h; exact hz i (fun e => h e.symm))
  intro i
  by_cases hi : i = v
  · subst hi; rw [if_pos rfl]; omega
  · rw [if_neg hi]; exact hz i hi

/-- a distribution with two used symbols -/
theorem dist_binary (d : List Nat) (v0 v1 : Nat) (hsum : d.sum = 4096) (hu : usedSyms d = [v0, v1]) :
    v0 ≠ v1 ∧ d.getD v0 0 + d.getD v1 0 = 4096 ∧ d.getD v0 0 ≠ 0 ∧ d.getD v1 0 ≠ 0 ∧
    ∀ i, i ≠ v0 → i ≠ v1 → d.getD i 0 = 0 := by
  have hnd := usedSyms_nodup d
  rw [hu] at hnd
  have hne : v0 ≠ v1 := by simpa using hnd
  have hz : ∀ i, i ≠ v0 → i ≠ v1 → d.getD i 0 = 0 := by
    intro i h0 h1
    by_contra hcon
    have := (mem_usedSyms d i).2 hcon
    rw [hu] at this
    simp at this
    omega
  have h1 := sum_set_zero d v0
  have h2 := sum_set_zero (d.set v0 0) v1
  have h3 : ((d.set v0 0).set v1 0).sum = 0 := sum_zero_of_getD _ (fun i => by
    rw [getD_set_zero, getD_set_zero]
    by_cases a : v1 = i
    · rw [if_pos a]
    · rw [if_neg a]
      by_cases b : v0 = i
      · rw [if_pos b]
      · rw [if_neg b]; exact hz i (fun e => b e.symm) (fun e => a e.symm))
  rw [getD_set_zero, if_neg hne] at h2
  refine ⟨hne, by omega, ?_, ?_, hz⟩
  · exact (mem_usedSyms d v0).1 (by rw [hu]; simp)
  · exact (mem_usedSyms d v1).1 (by rw [hu]; simp)

/-- which form is written, and what is then known about `d` -/
theorem effectiveForm_cases (d : List Nat) (form : AnsForm) (hsum : d.sum = 4096) :
    (effectiveForm d form = .single ∧ (usedSyms d).length = 1) ∨
    (effectiveForm d form = .binary ∧ (usedSyms d).length = 2) ∨
    (effectiveForm d form = .flat ∧ ansFormOk d .flat = true) ∨
    (∃ shift rle, effectiveForm d form = .general shift rle ∧ shift ≤ 13 ∧
      2 ≤ (usedSyms d).length ∧ ReprOK shift d) := by
  have hle : ∀ x ∈ d, x ≤ 4096 := fun x hx => by
    have := le_sum_of_mem d x hx; omega
  have hpos : 1 ≤ (usedSyms d).length := by
    obtain ⟨j, hj⟩ := exists_nonzero d (by omega)
    exact List.length_pos_of_mem ((mem_usedSyms d j).2 hj)
  have hauto : (if (usedSyms d).length = 1 then AnsForm.single
      else if (usedSyms d).length = 2 then AnsForm.binary else AnsForm.general 13 true) = .single ∧
        (usedSyms d).length = 1 ∨
      (if (usedSyms d).length = 1 then AnsForm.single
      else if (usedSyms d).length = 2 then AnsForm.binary else AnsForm.general 13 true) = .binary ∧
        (usedSyms d).length = 2 ∨
      (∃ shift rle, (if (usedSyms d).length = 1 then AnsForm.single
      else if (usedSyms d).length = 2 then AnsForm.binary else AnsForm.general 13 true)
        = .general shift rle ∧ shift ≤ 13 ∧ 2 ≤ (usedSyms d).length ∧ ReprOK shift d) := by
    by_cases h1 : (usedSyms d).length = 1
    · left; rw [if_pos h1]; exact ⟨rfl, h1⟩
    · by_cases h2 : (usedSyms d).length = 2
      · right; left; rw [if_neg h1, if_pos h2]; exact ⟨rfl, h2⟩
      · right; right
        rw [if_neg h1, if_neg h2]
        exact ⟨13, true, rfl, by omega, by omega, reprOK_13 d hle⟩
  unfold effectiveForm
  simp only
  by_cases hok : ansFormOk d form = true
  · rw [if_pos hok]
    cases form with
    | auto =>
      simp only
      rcases hauto with h | h | h
      · exact Or.inl h
      · exact Or.inr (Or.inl h)
      · exact Or.inr (Or.inr (Or.inr h))
    | single =>
      left
      simp only [ansFormOk, decide_eq_true_eq] at hok
      exact ⟨rfl, hok⟩
    | binary =>
      right; left
      simp only [ansFormOk, decide_eq_true_eq] at hok
      exact ⟨rfl, hok⟩
    | flat => right; right; left; exact ⟨rfl, hok⟩
    | general shift rle =>
      right; right; right
      simp only [ansFormOk, Bool.and_eq_true, decide_eq_true_eq, Bool.decide_and] at hok
      exact ⟨shift, rle, rfl, hok.1, hok.2.1, reprOK_of_quantize shift d hok.2.2⟩
  · rw [if_neg hok]
    simp only
    rcases hauto with h | h | h
    · exact Or.inl h
    · exact Or.inr (Or.inl h)
    · exact Or.inr (Or.inr (Or.inr h))


theorem getD_set_full (l : List Nat) (i j v : Nat) :
    (l.set i v).getD j 0 = if i = j ∧ i < l.length then v else l.getD j 0 := by
  by_cases h : i = j
  · subst h
    by_cases hi : i < l.length
    · rw [if_pos ⟨rfl, hi⟩, getD_set_self l i v hi]
    · rw [if_neg (fun h => hi h.2), List.getD_eq_getElem?_getD, List.getElem?_eq_none (by simp; omega),
        List.getD_eq_getElem?_getD, List.getElem?_eq_none (by omega)]
  · rw [if_neg (fun h' => h h'.1), getD_set_ne l i j v h]

theorem all_zero_eq_replicate (l : List Nat) (h : ∀ x ∈ l, x = 0) : l = List.replicate l.length 0 := by
  rw [List.eq_replicate_iff]; exact ⟨rfl, h⟩

/-- **ANS histogram header round trip, per code.** -/
theorem ans_histogram_rt (la : Nat) (d : List Nat) (form : AnsForm) (tokens : List Nat)
    (h : codeOk (.ans la) tokens (.dist d form) = true) (rest : Bits) :
    parseAns la (writeAns d form ++ rest) = .ok ((CodeSpec.dist d form).ansHist la, rest) := by
  simp only [codeOk, Bool.and_eq_true, decide_eq_true_eq, beq_iff_eq] at h
  obtain ⟨⟨⟨⟨hla5, hla8⟩, hlen⟩, hsum'⟩, _⟩ := h
  have hsum : d.sum = 4096 := by rw [← hsum']; exact List.sum_eq_foldl_nat
  have hT : 32 ≤ 2 ^ la := by
    have : 2 ^ 5 ≤ 2 ^ la := Nat.pow_le_pow_right (by omega) hla5
    omega
  have hT8 : 2 ^ la ≤ 256 := by
    have : 2 ^ la ≤ 2 ^ 8 := Nat.pow_le_pow_right (by omega) hla8
    omega
  suffices hd : parseAnsDist la (writeAns d form ++ rest)
      = .ok (⟨d ++ List.replicate (2 ^ la - d.length) 0, ansAlphabet d form⟩, rest) by
    unfold parseAns CodeSpec.ansHist
    rw [hd]
  unfold writeAns ansAlphabet
  simp only
  rcases effectiveForm_cases d form hsum with ⟨heff, hu⟩ | ⟨heff, hu⟩ | ⟨heff, hok⟩ | ⟨shift, rle, heff, hs13, hu, hq⟩
  · -- single
    obtain ⟨v, hv⟩ := List.length_eq_one_iff.1 hu
    have hvl : v < d.length := usedSyms_lt d v (by rw [hv]; simp)
    have hdv := dist_single d v hsum hv
    rw [heff]
    simp only [hv, List.getD_cons_zero]
    rw [parseAns_single la v (by omega) (by omega) rest]
    congr 3
    apply list_ext_getD _ _ (by simp; omega)
    intro i
    rw [getD_set_full, getD_append_zeros, hdv i, getD_replicate_zero, List.length_replicate]
    by_cases hi : v = i
    · subst hi; simp; omega
    · have : ¬ i = v := fun e => hi e.symm
      simp [hi, this]
  · -- binary
    obtain ⟨v0, v1, hv⟩ := List.length_eq_two.1 hu
    have hv0l : v0 < d.length := usedSyms_lt d v0 (by rw [hv]; simp)
    have hv1l : v1 < d.length := usedSyms_lt d v1 (by rw [hv]; simp)
    obtain ⟨hne, hadd, hnz0, hnz1, hz⟩ := dist_binary d v0 v1 hsum hv
    rw [heff]
    simp only [hv, List.getD_cons_zero, List.getD_cons_succ]
    rw [parseAns_binary la v0 v1 (d.getD v0 0) (by omega) (by omega) hne (by omega) (by omega)
      (by omega) rest]
    congr 3
    apply list_ext_getD _ _ (by simp; omega)
    intro i
    rw [getD_set_full, getD_set_full, getD_append_zeros, getD_replicate_zero, List.length_set,
      List.length_replicate]
    by_cases h1 : v1 = i
    · subst h1
      rw [if_pos ⟨rfl, by omega⟩]; omega
    · rw [if_neg (fun h => h1 h.1)]
      by_cases h0 : v0 = i
      · subst h0
        rw [if_pos ⟨rfl, by omega⟩]
      · rw [if_neg (fun h => h0 h.1)]
        exact (hz i (fun e => h0 e.symm) (fun e => h1 e.symm)).symm
  · -- flat
    simp only [ansFormOk, Bool.and_eq_true, decide_eq_true_eq, List.all_eq_true,
      Bool.decide_and] at hok
    obtain ⟨ha1, htake, hdrop⟩ := hok
    have hale : (usedSyms d).length ≤ d.length := by
      rw [usedSyms_length]; exact List.length_filter_le _ _
    rw [heff]
    simp only
    rw [parseAns_flat la (usedSyms d).length ha1 (by omega) (by omega) rest]
    congr 3
    have hd : d = flatDist (usedSyms d).length
        ++ List.replicate (d.length - (usedSyms d).length) 0 := by
      conv => lhs; rw [← List.take_append_drop (usedSyms d).length d, htake]
      congr 1
      have := all_zero_eq_replicate (d.drop (usedSyms d).length) (fun x hx => by simpa using hdrop x hx)
      rw [List.length_drop] at this
      exact this
    have e : d ++ List.replicate (2 ^ la - d.length) 0
        = (flatDist (usedSyms d).length ++ List.replicate (d.length - (usedSyms d).length) 0)
          ++ List.replicate (2 ^ la - d.length) 0 := by rw [← hd]
    rw [e, List.append_assoc, List.replicate_append_replicate]
    congr 2
    omega
  · -- general
    rw [heff]
    simp only
    exact parseAnsDist_general la ⟨hla5, hla8⟩ d shift rle hlen hsum hu hs13 hq rest

end Jxl.Entropy
