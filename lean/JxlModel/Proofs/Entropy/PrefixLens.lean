import JxlModel.Model.Enc.EntropyEnc
import JxlModel.Proofs.Entropy.Prefix
/-! Second loop of `parse_complex` (`readLens`) over the code-length tokens the encoder writes
(`clTokens`): literal lengths, repeat code 16 (chained, base 4) and zero-run code 17 (chained,
base 8), with the early exit when the code space is used up. -/
namespace Jxl.Entropy
open Jxl Jxl.Enc

/-- Kraft weight (scaled by 2^15) of one code length -/
def w15 (v : Nat) : Nat := if v = 0 then 0 else 2 ^ (15 - v)

theorem w15_pos {v : Nat} (h : v ≠ 0) : 0 < w15 v := by
  unfold w15; rw [if_neg h]; exact Nat.pos_of_ne_zero (by simp)

/-- guarded continuation: the loop has already stopped if the space is used up -/
def lensK (clc : PrefixCode) (k : Nat) (st : ClState) (acc : List Nat) (s : Bits) :
    R (List Nat × ClState) :=
  if st.bitacc = 2 ^ 15 then .ok ((acc, st), s) else readLens clc k st acc s

theorem lensK_lt {clc : PrefixCode} {k : Nat} {st : ClState} {acc : List Nat} {s : Bits}
    (h : st.bitacc < 2 ^ 15) : lensK clc k st acc s = readLens clc k st acc s := by
  unfold lensK; rw [if_neg (by omega)]

theorem lensK_eq {clc : PrefixCode} {k : Nat} {st : ClState} {acc : List Nat} {s : Bits}
    (h : st.bitacc = 2 ^ 15) : lensK clc k st acc s = .ok ((acc, st), s) := by
  unfold lensK; rw [if_pos h]

/-! ## one-step unfoldings -/

/-- a pending repeat of a zero -/
theorem readLens_rep_zero (clc : PrefixCode) (k : Nat) (st : ClState) (acc : List Nat) (s : Bits)
    (hc : st.repeatCount > 0) (h0 : st.repeatSym = 0) :
    readLens clc (k+1) st acc s
      = readLens clc k ⟨st.bitacc, st.prevSym, st.lastNonzero, st.lastRepeat, st.repeatCount - 1, 0⟩
          (0 :: acc) s := by
  rw [readLens]
  simp [hc, h0]

/-- a pending repeat of a non-zero length -/
theorem readLens_rep_nz (clc : PrefixCode) (k : Nat) (st : ClState) (acc : List Nat) (s : Bits)
    (hc : st.repeatCount > 0) (h0 : st.repeatSym ≠ 0)
    (hb : st.bitacc + w15 st.repeatSym ≤ 2 ^ 15) :
    readLens clc (k+1) st acc s
      = (if st.bitacc + w15 st.repeatSym = 2 ^ 15 ∧ st.repeatCount = 1 then
          .ok ((st.repeatSym :: acc, ⟨st.bitacc + w15 st.repeatSym, st.prevSym, st.lastNonzero,
            st.lastRepeat, 0, st.repeatSym⟩), s)
         else readLens clc k ⟨st.bitacc + w15 st.repeatSym, st.prevSym, st.lastNonzero,
            st.lastRepeat, st.repeatCount - 1, st.repeatSym⟩ (st.repeatSym :: acc) s) := by
  unfold w15 at hb ⊢
  rw [if_neg h0] at hb ⊢
  rw [readLens]
  have h2 : ¬ (2 ^ 15 < st.bitacc + 2 ^ (15 - st.repeatSym)) := by omega
  simp only [hc, h0, if_true, ne_eq, not_false_eq_true, gt_iff_lt, h2, if_false]
  by_cases h1 : st.repeatCount = 1
  · simp [h1]
  · have : ¬ (st.repeatCount - 1 = 0) := by omega
    simp [h1, this]


/-- the pending repeats are emitted without reading anything -/
theorem readLens_repeat (clc : PrefixCode) : ∀ (c k : Nat) (st : ClState) (acc : List Nat) (s : Bits),
    st.repeatCount = c → c ≤ k → st.bitacc < 2 ^ 15 →
    st.bitacc + c * w15 st.repeatSym ≤ 2 ^ 15 →
    readLens clc k st acc s
      = lensK clc (k - c) ⟨st.bitacc + c * w15 st.repeatSym, st.prevSym, st.lastNonzero,
          st.lastRepeat, 0, st.repeatSym⟩ (List.replicate c st.repeatSym ++ acc) s := by
  intro c
  induction c with
  | zero =>
    intro k st acc s hc _ hlt _
    obtain ⟨b, p, ln, lr, rc, rs⟩ := st
    simp only at hc hlt
    subst hc
    simp only [Nat.zero_mul, Nat.add_zero, Nat.sub_zero, List.replicate_zero, List.nil_append]
    rw [lensK_lt (by simpa using hlt)]
  | succ c ih =>
    intro k st acc s hc hk hlt hb
    obtain ⟨k, rfl⟩ : ∃ k', k = k' + 1 := ⟨k - 1, by omega⟩
    have hrep : List.replicate (c + 1) st.repeatSym ++ acc
        = List.replicate c st.repeatSym ++ (st.repeatSym :: acc) := by
      rw [List.replicate_succ', List.append_assoc]; rfl
    rw [hrep, show k + 1 - (c + 1) = k - c by omega]
    by_cases h0 : st.repeatSym = 0
    · rw [readLens_rep_zero clc k st acc s (by omega) h0]
      have := ih k ⟨st.bitacc, st.prevSym, st.lastNonzero, st.lastRepeat, st.repeatCount - 1, 0⟩
        (0 :: acc) s (by simp only; omega) (by omega) hlt (by simp only [w15, if_true, Nat.mul_zero]; omega)
      rw [this, h0]
      simp [w15]
    · have hw := w15_pos h0
      have hmul : (c + 1) * w15 st.repeatSym = c * w15 st.repeatSym + w15 st.repeatSym := by
        rw [Nat.add_mul, Nat.one_mul]
      rw [hmul] at hb
      rw [readLens_rep_nz clc k st acc s (by omega) h0 (by omega)]
      by_cases hfin : st.bitacc + w15 st.repeatSym = 2 ^ 15 ∧ st.repeatCount = 1
      · rw [if_pos hfin]
        have hc0 : c = 0 := by omega
        subst hc0
        simp only [Nat.zero_add, Nat.one_mul, Nat.sub_zero, List.replicate_zero, List.nil_append]
        rw [lensK_eq (by simpa using hfin.1)]
      · rw [if_neg hfin]
        have hlt' : st.bitacc + w15 st.repeatSym < 2 ^ 15 := by
          rcases Nat.lt_or_ge (st.bitacc + w15 st.repeatSym) (2 ^ 15) with h | h
          · exact h
          · exfalso
            have h1 : st.bitacc + w15 st.repeatSym = 2 ^ 15 := by omega
            have h2 : c * w15 st.repeatSym = 0 := by omega
            have h3 : c = 0 := by
              rcases Nat.mul_eq_zero.1 h2 with h | h
              · exact h
              · omega
            exact hfin ⟨h1, by omega⟩
        have := ih k ⟨st.bitacc + w15 st.repeatSym, st.prevSym, st.lastNonzero, st.lastRepeat,
          st.repeatCount - 1, st.repeatSym⟩ (st.repeatSym :: acc) s (by simp only; omega) (by omega)
          hlt' (by simp only; omega)
        rw [this]
        simp only [hmul]
        congr 2
        omega


/-- the `finish` step of `readLens` as a function -/
def lensFinish (clc : PrefixCode) (k : Nat) (acc : List Nat) (len : Nat) (st : ClState) (s : Bits) :
    R (List Nat × ClState) :=
  if len ≠ 0 then
    if st.bitacc + 2 ^ (15 - len) > 2 ^ 15 then .error .prefixSymbolTooLarge
    else if st.bitacc + 2 ^ (15 - len) = 2 ^ 15 ∧ st.repeatCount = 0 then
      .ok ((len :: acc, { st with bitacc := st.bitacc + 2 ^ (15 - len) }), s)
    else readLens clc k { st with bitacc := st.bitacc + 2 ^ (15 - len) } (len :: acc) s
  else readLens clc k st (len :: acc) s

/-- one step when nothing is pending: read a code-length symbol and dispatch -/
theorem readLens_read (clc : PrefixCode) (k : Nat) (st : ClState) (acc : List Nat) (s s1 : Bits)
    (sym : Nat) (hc : st.repeatCount = 0) (hr : clc.read s = .ok (sym, s1)) :
    readLens clc (k+1) st acc s =
      if sym = 0 then lensFinish clc k acc 0 { st with prevSym := 0 } s1
      else if sym ≤ 15 then lensFinish clc k acc sym { st with lastNonzero := sym, prevSym := sym } s1
      else if sym = 16 then
        match rbits 2 s1 with
        | .error e => .error e
        | .ok (x, s2) =>
          lensFinish clc k acc st.lastNonzero
            { st with repeatCount := (if st.prevSym = 16 then x + 3 + (st.lastRepeat * 3 - 8) else x + 3) - 1,
                      lastRepeat := (if st.prevSym = 16 then st.lastRepeat + (x + 3 + (st.lastRepeat * 3 - 8)) else x + 3),
                      repeatSym := st.lastNonzero, prevSym := 16 } s2
      else
        match rbits 3 s1 with
        | .error e => .error e
        | .ok (x, s2) =>
          lensFinish clc k acc 0
            { st with repeatCount := (if st.prevSym = 17 then x + 3 + (st.lastRepeat * 7 - 16) else x + 3) - 1,
                      lastRepeat := (if st.prevSym = 17 then st.lastRepeat + (x + 3 + (st.lastRepeat * 7 - 16)) else x + 3),
                      repeatSym := 0, prevSym := 17 } s2 := by
  rw [readLens]
  have hc' : ¬ st.repeatCount > 0 := by omega
  simp only [hc', if_false, hr]
  unfold lensFinish
  by_cases h0 : sym = 0
  · simp [h0]
  · by_cases h15 : sym ≤ 15
    · simp [h0, h15]
    · by_cases h16 : sym = 16
      · subst h16
        simp only [h0, h15, if_false, if_true]
        cases rbits 2 s1 with
        | error e => rfl
        | ok r =>
          obtain ⟨x, s2⟩ := r
          by_cases hp : st.prevSym = 16 <;> simp [hp]
      · simp only [h0, h15, h16, if_false]
        cases rbits 3 s1 with
        | error e => rfl
        | ok r =>
          obtain ⟨x, s2⟩ := r
          by_cases hp : st.prevSym = 17 <;> simp [hp]


/-- `finish len` followed by the `c` pending repeats of the same length: `c + 1` copies of `len`
are appended, then the loop continues unless the space is used up -/
theorem lensFinish_emit (clc : PrefixCode) (k : Nat) (acc : List Nat) (len c : Nat) (st : ClState)
    (s : Bits) (hc : st.repeatCount = c) (hrs : c > 0 → st.repeatSym = len) (hk : c ≤ k)
    (hlt : st.bitacc < 2 ^ 15) (hb : st.bitacc + (c + 1) * w15 len ≤ 2 ^ 15) :
    lensFinish clc k acc len st s
      = lensK clc (k - c) ⟨st.bitacc + (c + 1) * w15 len, st.prevSym, st.lastNonzero, st.lastRepeat,
          0, st.repeatSym⟩ (List.replicate (c + 1) len ++ acc) s := by
  have hrep : List.replicate (c + 1) len ++ acc = List.replicate c len ++ (len :: acc) := by
    rw [List.replicate_succ', List.append_assoc]; rfl
  have hmul : (c + 1) * w15 len = c * w15 len + w15 len := by rw [Nat.add_mul, Nat.one_mul]
  rw [hrep]
  unfold lensFinish
  by_cases h0 : len = 0
  · subst h0
    simp only [ne_eq, not_true_eq_false, if_false]
    rw [readLens_repeat clc c k st (0 :: acc) s hc hk hlt (by
      by_cases hc0 : c = 0
      · subst hc0; omega
      · rw [hrs (by omega)]; simp only [w15, if_true, Nat.mul_zero]; omega)]
    by_cases hc0 : c = 0
    · subst hc0; simp [w15]
    · rw [hrs (by omega)]; simp [w15]
  · have hw := w15_pos h0
    have hwe : w15 len = 2 ^ (15 - len) := by unfold w15; rw [if_neg h0]
    rw [hmul] at hb
    rw [← hwe]
    have h2 : ¬ (st.bitacc + w15 len > 2 ^ 15) := by omega
    simp only [ne_eq, h0, not_false_eq_true, if_true, h2, if_false]
    by_cases hfin : st.bitacc + w15 len = 2 ^ 15 ∧ st.repeatCount = 0
    · rw [if_pos hfin]
      have hc0 : c = 0 := by omega
      subst hc0
      simp only [Nat.zero_add, Nat.one_mul, Nat.sub_zero, List.replicate_zero, List.nil_append]
      rw [lensK_eq (by simpa using hfin.1)]
      obtain ⟨b, p, ln, lr, rc, rs⟩ := st
      simp only at hc
      subst hc
      rfl
    · rw [if_neg hfin]
      have hlt' : st.bitacc + w15 len < 2 ^ 15 := by
        rcases Nat.lt_or_ge (st.bitacc + w15 len) (2 ^ 15) with h | h
        · exact h
        · exfalso
          have h1 : st.bitacc + w15 len = 2 ^ 15 := by omega
          have h2 : c * w15 len = 0 := by omega
          have h3 : c = 0 := by
            rcases Nat.mul_eq_zero.1 h2 with h | h
            · exact h
            · omega
          exact hfin ⟨h1, by omega⟩
      rw [readLens_repeat clc c k _ (len :: acc) s (by simpa using hc) hk (by simpa using hlt') (by
        simp only
        by_cases hc0 : c = 0
        · subst hc0; omega
        · rw [hrs (by omega)]; omega)]
      simp only
      by_cases hc0 : c = 0
      · subst hc0; simp
      · rw [hrs (by omega), hmul]
        congr 2
        omega


/-! ## one token -/

/-- the code-length code reads back the symbol it encodes -/
def TokRead (clc : PrefixCode) (sym : Nat) : Prop :=
  ∀ rest, clc.read (clc.encode sym ++ rest) = .ok (sym, rest)

/-- bits of one code-length token `(symbol, extra bit count, extra value)` -/
def tokBits (clc : PrefixCode) (t : Nat × Nat × Nat) : Bits := clc.encode t.1 ++ toBits t.2.1 t.2.2

/-- a literal code length -/
theorem readLens_tok_lit (clc : PrefixCode) (k : Nat) (st : ClState) (acc : List Nat) (rest : Bits)
    (v : Nat) (hc : st.repeatCount = 0) (hlt : st.bitacc < 2 ^ 15) (hr : TokRead clc v) (hv : v ≤ 15)
    (hb : st.bitacc + w15 v ≤ 2 ^ 15) :
    readLens clc (k+1) st acc (tokBits clc (v, 0, 0) ++ rest)
      = lensK clc k ⟨st.bitacc + w15 v, v, if v = 0 then st.lastNonzero else v, st.lastRepeat, 0,
          st.repeatSym⟩ (v :: acc) rest := by
  have hbits : tokBits clc (v, 0, 0) ++ rest = clc.encode v ++ rest := by
    simp [tokBits, toBits]
  rw [hbits, readLens_read clc k st acc _ rest v hc (hr rest)]
  by_cases h0 : v = 0
  · subst h0
    simp only [if_true]
    rw [lensFinish_emit clc k acc 0 0 _ rest (by simpa using hc) (by omega) (by omega)
      (by simpa using hlt) (by simp only [w15, if_true]; omega)]
    simp [w15]
  · simp only [h0, hv, if_false, if_true]
    rw [lensFinish_emit clc k acc v 0 _ rest (by simpa using hc) (by omega) (by omega)
      (by simpa using hlt) (by simp only; omega)]
    simp

/-- repeat code 16 (first of a chain if `prevSym ≠ 16`, chained otherwise) -/
theorem readLens_tok_16 (clc : PrefixCode) (k : Nat) (st : ClState) (acc : List Nat) (rest : Bits)
    (x rc : Nat) (hc : st.repeatCount = 0) (hlt : st.bitacc < 2 ^ 15) (hr : TokRead clc 16)
    (hx : x < 4)
    (hrc : rc = if st.prevSym = 16 then x + 3 + (st.lastRepeat * 3 - 8) else x + 3)
    (hk : rc ≤ k + 1) (hb : st.bitacc + rc * w15 st.lastNonzero ≤ 2 ^ 15) :
    readLens clc (k+1) st acc (tokBits clc (16, 2, x) ++ rest)
      = lensK clc (k + 1 - rc) ⟨st.bitacc + rc * w15 st.lastNonzero, 16, st.lastNonzero,
          (if st.prevSym = 16 then st.lastRepeat + rc else rc), 0, st.lastNonzero⟩
          (List.replicate rc st.lastNonzero ++ acc) rest := by
  have hbits : tokBits clc (16, 2, x) ++ rest = clc.encode 16 ++ (toBits 2 x ++ rest) := by
    simp [tokBits]
  have hrc3 : 3 ≤ rc := by rw [hrc]; split <;> omega
  rw [hbits, readLens_read clc k st acc _ _ 16 hc (hr _)]
  simp only [show ¬ (16 = 0) by omega, show ¬ (16 ≤ 15) by omega, if_false, if_true,
    rbits_toBits 2 x rest (by omega), ← hrc]
  rw [lensFinish_emit clc k acc st.lastNonzero (rc - 1) _ rest (by simp) (by simp) (by omega)
    (by simpa using hlt) (by simp only; rw [show rc - 1 + 1 = rc by omega]; exact hb)]
  simp only [show rc - 1 + 1 = rc by omega, show k - (rc - 1) = k + 1 - rc by omega]
  by_cases hp : st.prevSym = 16 <;> simp [hp, hrc]

/-- zero-run code 17 (first of a chain if `prevSym ≠ 17`, chained otherwise) -/
theorem readLens_tok_17 (clc : PrefixCode) (k : Nat) (st : ClState) (acc : List Nat) (rest : Bits)
    (x rc : Nat) (hc : st.repeatCount = 0) (hlt : st.bitacc < 2 ^ 15) (hr : TokRead clc 17)
    (hx : x < 8)
    (hrc : rc = if st.prevSym = 17 then x + 3 + (st.lastRepeat * 7 - 16) else x + 3)
    (hk : rc ≤ k + 1) :
    readLens clc (k+1) st acc (tokBits clc (17, 3, x) ++ rest)
      = lensK clc (k + 1 - rc) ⟨st.bitacc, 17, st.lastNonzero,
          (if st.prevSym = 17 then st.lastRepeat + rc else rc), 0, 0⟩
          (List.replicate rc 0 ++ acc) rest := by
  have hbits : tokBits clc (17, 3, x) ++ rest = clc.encode 17 ++ (toBits 3 x ++ rest) := by
    simp [tokBits]
  have hrc3 : 3 ≤ rc := by rw [hrc]; split <;> omega
  rw [hbits, readLens_read clc k st acc _ _ 17 hc (hr _)]
  simp only [show ¬ (17 = 0) by omega, show ¬ (17 ≤ 15) by omega, show ¬ (17 = 16) by omega,
    if_false, rbits_toBits 3 x rest (by omega), ← hrc]
  rw [lensFinish_emit clc k acc 0 (rc - 1) _ rest (by simp) (by simp) (by omega)
    (by simpa using hlt) (by simp only [w15, if_true, Nat.mul_zero]; omega)]
  simp only [show rc - 1 + 1 = rc by omega, show k - (rc - 1) = k + 1 - rc by omega]
  by_cases hp : st.prevSym = 17 <;> simp [hp, hrc, w15]


/-! ## chains of repeat codes -/

/-- total repeat count after a chain of extra-bit values (`b` = 4 for code 16, 8 for code 17),
starting from total `T`: the `(T - 2) * b + x + 3` rule of the format -/
def chainTot (b : Nat) : Nat → List Nat → Nat
  | T, [] => T
  | T, d :: ds => chainTot b (b * (T - 2) + d + 3) ds

theorem chainTot_ge (b : Nat) (hb : 4 ≤ b) (ds : List Nat) : ∀ T, 3 ≤ T →
    T ≤ chainTot b T ds ∧ (ds ≠ [] → T < chainTot b T ds) := by
  induction ds with
  | nil => intro T _; exact ⟨Nat.le_refl _, fun h => absurd rfl h⟩
  | cons d ds ih =>
    intro T hT
    have h4 : 4 * (T - 2) ≤ b * (T - 2) := Nat.mul_le_mul_right _ hb
    have := (ih (b * (T - 2) + d + 3) (by omega)).1
    simp only [chainTot]
    exact ⟨by omega, fun _ => by omega⟩

/-- a chain of code-16 tokens after the first one -/
theorem readLens_chain16 (clc : PrefixCode) (hr : TokRead clc 16) (rest : Bits) :
    ∀ (ds : List Nat) (T k : Nat) (st : ClState) (acc : List Nat),
    st.repeatCount = 0 → st.prevSym = 16 → st.lastRepeat = T → 3 ≤ T → st.lastNonzero ≠ 0 →
    (∀ d ∈ ds, d < 4) → chainTot 4 T ds - T ≤ k →
    st.bitacc + (chainTot 4 T ds - T) * w15 st.lastNonzero ≤ 2 ^ 15 →
    ∃ st', lensK clc k st acc ((ds.map fun d => (16, 2, d)).flatMap (tokBits clc) ++ rest)
        = lensK clc (k - (chainTot 4 T ds - T)) st'
            (List.replicate (chainTot 4 T ds - T) st.lastNonzero ++ acc) rest ∧
      st'.repeatCount = 0 ∧ st'.prevSym = 16 ∧
      st'.bitacc = st.bitacc + (chainTot 4 T ds - T) * w15 st.lastNonzero := by
  intro ds
  induction ds with
  | nil =>
    intro T k st acc hc hp hT h3 hv hd hk hb
    exact ⟨st, by simp [chainTot], hc, hp, by simp [chainTot]⟩
  | cons d ds ih =>
    intro T k st acc hc hp hT h3 hv hd hk hb
    have hw := w15_pos hv
    have hd4 : d < 4 := hd d (by simp)
    obtain ⟨hge, _⟩ := chainTot_ge 4 (by omega) ds (4 * (T - 2) + d + 3) (by omega)
    simp only [chainTot] at hk hb ⊢
    generalize hTf : chainTot 4 (4 * (T - 2) + d + 3) ds = Tf at hk hb hge ⊢
    have hsplit : (Tf - T) * w15 st.lastNonzero
        = (d + 3 + (T * 3 - 8)) * w15 st.lastNonzero
          + (Tf - (4 * (T - 2) + d + 3)) * w15 st.lastNonzero := by
      rw [← Nat.add_mul]; congr 1; omega
    have hpos : 0 < (Tf - T) * w15 st.lastNonzero := Nat.mul_pos (by omega) hw
    have hlt : st.bitacc < 2 ^ 15 := by omega
    obtain ⟨k, rfl⟩ : ∃ k', k = k' + 1 := ⟨k - 1, by omega⟩
    rw [lensK_lt hlt]
    simp only [List.map_cons, List.flatMap_cons, List.append_assoc]
    rw [readLens_tok_16 clc k st acc _ d (d + 3 + (T * 3 - 8)) hc hlt hr hd4
      (by rw [hp, hT]; simp) (by omega) (by omega)]
    obtain ⟨st', h1, h2, h3', h4⟩ := ih (4 * (T - 2) + d + 3) (k + 1 - (d + 3 + (T * 3 - 8)))
      ⟨st.bitacc + (d + 3 + (T * 3 - 8)) * w15 st.lastNonzero, 16, st.lastNonzero,
        (if st.prevSym = 16 then st.lastRepeat + (d + 3 + (T * 3 - 8)) else (d + 3 + (T * 3 - 8))),
        0, st.lastNonzero⟩
      (List.replicate (d + 3 + (T * 3 - 8)) st.lastNonzero ++ acc)
      rfl rfl (by simp only [hp, hT, if_true]; omega) (by omega) hv
      (fun x hx => hd x (by simp [hx])) (by rw [hTf]; omega) (by rw [hTf]; simp only; omega)
    rw [hTf] at h1 h4
    simp only at h1 h4
    refine ⟨st', ?_, h2, h3', by rw [h4]; omega⟩
    rw [h1, ← List.append_assoc, ← List.replicate_add,
      show k + 1 - (d + 3 + (T * 3 - 8)) - (Tf - (4 * (T - 2) + d + 3)) = k + 1 - (Tf - T) by omega,
      show Tf - (4 * (T - 2) + d + 3) + (d + 3 + (T * 3 - 8)) = Tf - T by omega]

/-- a chain of code-17 tokens after the first one -/
theorem readLens_chain17 (clc : PrefixCode) (hr : TokRead clc 17) (rest : Bits) :
    ∀ (ds : List Nat) (T k : Nat) (st : ClState) (acc : List Nat),
    st.repeatCount = 0 → st.prevSym = 17 → st.lastRepeat = T → 3 ≤ T → st.bitacc < 2 ^ 15 →
    (∀ d ∈ ds, d < 8) → chainTot 8 T ds - T ≤ k →
    ∃ st', lensK clc k st acc ((ds.map fun d => (17, 3, d)).flatMap (tokBits clc) ++ rest)
        = lensK clc (k - (chainTot 8 T ds - T)) st'
            (List.replicate (chainTot 8 T ds - T) 0 ++ acc) rest ∧
      st'.repeatCount = 0 ∧ st'.prevSym = 17 ∧ st'.bitacc = st.bitacc := by
  intro ds
  induction ds with
  | nil =>
    intro T k st acc hc hp hT h3 hlt hd hk
    exact ⟨st, by simp [chainTot], hc, hp, rfl⟩
  | cons d ds ih =>
    intro T k st acc hc hp hT h3 hlt hd hk
    have hd8 : d < 8 := hd d (by simp)
    obtain ⟨hge, _⟩ := chainTot_ge 8 (by omega) ds (8 * (T - 2) + d + 3) (by omega)
    simp only [chainTot] at hk ⊢
    generalize hTf : chainTot 8 (8 * (T - 2) + d + 3) ds = Tf at hk hge ⊢
    obtain ⟨k, rfl⟩ : ∃ k', k = k' + 1 := ⟨k - 1, by omega⟩
    rw [lensK_lt hlt]
    simp only [List.map_cons, List.flatMap_cons, List.append_assoc]
    rw [readLens_tok_17 clc k st acc _ d (d + 3 + (T * 7 - 16)) hc hlt hr hd8
      (by rw [hp, hT]; simp) (by omega)]
    obtain ⟨st', h1, h2, h3', h4⟩ := ih (8 * (T - 2) + d + 3) (k + 1 - (d + 3 + (T * 7 - 16)))
      ⟨st.bitacc, 17, st.lastNonzero,
        (if st.prevSym = 17 then st.lastRepeat + (d + 3 + (T * 7 - 16)) else (d + 3 + (T * 7 - 16))),
        0, 0⟩
      (List.replicate (d + 3 + (T * 7 - 16)) 0 ++ acc)
      rfl rfl (by simp only [hp, hT, if_true]; omega) (by omega) hlt
      (fun x hx => hd x (by simp [hx])) (by rw [hTf]; omega)
    rw [hTf] at h1
    simp only at h1 h4
    refine ⟨st', ?_, h2, h3', h4⟩
    rw [h1, ← List.append_assoc, ← List.replicate_add,
      show k + 1 - (d + 3 + (T * 7 - 16)) - (Tf - (8 * (T - 2) + d + 3)) = k + 1 - (Tf - T) by omega,
      show Tf - (8 * (T - 2) + d + 3) + (d + 3 + (T * 7 - 16)) = Tf - T by omega]


/-! ## the encoder's digit chains -/

/-- value of a digit chain in "repeats minus 3" form -/
def chainR (b : Nat) : Nat → List Nat → Nat
  | R, [] => R
  | R, d :: ds => chainR b (b * (R + 1) + d) ds

theorem chainR_append (b : Nat) (ds : List Nat) (d : Nat) : ∀ R,
    chainR b R (ds ++ [d]) = b * (chainR b R ds + 1) + d := by
  induction ds with
  | nil => intro R; rfl
  | cons a r ih => intro R; simp only [List.cons_append, chainR, ih]

theorem chainTot_eq_chainR (b : Nat) (ds : List Nat) : ∀ R,
    chainTot b (R + 3) ds = chainR b R ds + 3 := by
  induction ds with
  | nil => intro R; rfl
  | cons a r ih =>
    intro R
    simp only [chainTot, chainR]
    rw [show b * (R + 3 - 2) + a + 3 = (b * (R + 1) + a) + 3 by
      rw [show R + 3 - 2 = R + 1 by omega]]
    exact ih _

/-- `chainDigits` produces a non-empty chain of digits `< b` whose value is `reps` -/
theorem chainDigits_spec (b : Nat) (hb : 2 ≤ b) : ∀ (fuel reps : Nat) (acc : List Nat),
    reps < b ^ fuel → 1 ≤ fuel →
    ∃ d1 ds, chainDigits b fuel reps acc = d1 :: ds ++ acc ∧ chainR b d1 ds = reps ∧ d1 < b ∧
      ∀ d ∈ ds, d < b := by
  intro fuel
  induction fuel with
  | zero => intro reps acc _ h; omega
  | succ fuel ih =>
    intro reps acc hlt _
    have hbpos : 0 < b := by omega
    simp only [chainDigits]
    by_cases h0 : reps / b = 0
    · simp only [h0, if_true]
      have : reps < b := by
        rcases Nat.lt_or_ge reps b with h | h
        · exact h
        · exact absurd h0 (Nat.pos_iff_ne_zero.1 (Nat.div_pos h hbpos))
      exact ⟨reps % b, [], rfl, by simp [chainR, Nat.mod_eq_of_lt this], Nat.mod_lt _ hbpos,
        fun d hd => by simp at hd⟩
    · simp only [h0, if_false]
      have hdiv : reps / b < b ^ fuel := by
        rw [Nat.div_lt_iff_lt_mul hbpos]
        rw [Nat.pow_succ] at hlt
        exact hlt
      have hf1 : 1 ≤ fuel := by
        rcases Nat.eq_zero_or_pos fuel with h | h
        · subst h; rw [Nat.pow_zero] at hdiv; exact absurd (Nat.lt_one_iff.1 hdiv) h0
        · exact h
      generalize hq : reps / b = q at h0 hdiv
      obtain ⟨d1, ds, h1, h2, h3, h4⟩ := ih (q - 1) (reps % b :: acc) (by omega) hf1
      refine ⟨d1, ds ++ [reps % b], ?_, ?_, h3, ?_⟩
      · rw [h1]; simp
      · rw [chainR_append, h2, show q - 1 + 1 = q by omega, ← hq]
        exact Nat.div_add_mod reps b
      · intro d hd
        rcases List.mem_append.1 hd with h | h
        · exact h4 d h
        · simp only [List.mem_singleton] at h; subst h; exact Nat.mod_lt _ hbpos

/-! ## one run -/

/-- a run written as `n` literal tokens -/
theorem readLens_lits (clc : PrefixCode) (v : Nat) (hv : v ≤ 15) (hr : TokRead clc v) (rest : Bits) :
    ∀ (n k : Nat) (st : ClState) (acc : List Nat),
    st.repeatCount = 0 → (1 ≤ n → st.bitacc < 2 ^ 15) → n ≤ k → st.bitacc + n * w15 v ≤ 2 ^ 15 →
    ∃ st', lensK clc k st acc ((List.replicate n (v, 0, 0)).flatMap (tokBits clc) ++ rest)
        = lensK clc (k - n) st' (List.replicate n v ++ acc) rest ∧
      st'.repeatCount = 0 ∧ st'.bitacc = st.bitacc + n * w15 v ∧ (1 ≤ n → st'.prevSym = v) ∧
      (n = 0 → st' = st) := by
  intro n
  induction n with
  | zero =>
    intro k st acc hc _ _ _
    exact ⟨st, by simp, hc, by simp, fun h => by omega, fun _ => rfl⟩
  | succ n ih =>
    intro k st acc hc hlt hk hb
    have hlt' := hlt (by omega)
    obtain ⟨k, rfl⟩ : ∃ k', k = k' + 1 := ⟨k - 1, by omega⟩
    have hmul : (n + 1) * w15 v = w15 v + n * w15 v := by rw [Nat.add_mul, Nat.one_mul, Nat.add_comm]
    rw [hmul] at hb
    rw [lensK_lt hlt']
    simp only [List.replicate_succ, List.flatMap_cons, List.append_assoc]
    rw [readLens_tok_lit clc k st acc _ v hc hlt' hr hv (by omega)]
    obtain ⟨st', h1, h2, h3, h5, h6⟩ := ih k
      ⟨st.bitacc + w15 v, v, if v = 0 then st.lastNonzero else v, st.lastRepeat, 0, st.repeatSym⟩
      (v :: acc) rfl
      (by
        intro hn
        simp only
        by_cases h0 : v = 0
        · subst h0; simp only [w15, if_true]; omega
        · have := w15_pos h0
          have : 0 < n * w15 v := Nat.mul_pos (by omega) this
          omega)
      (by omega) (by simp only; omega)
    simp only at h1 h3
    refine ⟨st', ?_, h2, by rw [h3, hmul]; omega, fun _ => ?_, fun h => by omega⟩
    · rw [h1, show k + 1 - (n + 1) = k - n by omega]
      congr 1
      rw [← List.replicate_succ, List.replicate_succ', List.append_assoc]; rfl
    · by_cases hn : 1 ≤ n
      · exact h5 hn
      · rw [h6 (by omega)]


/-- a zero run written with code 17 -/
theorem readLens_run17 (clc : PrefixCode) (hr : TokRead clc 17) (rest : Bits) (n k : Nat)
    (st : ClState) (acc : List Nat) (hc : st.repeatCount = 0) (hlt : st.bitacc < 2 ^ 15)
    (hn3 : 3 ≤ n) (hn15 : n ≤ 2 ^ 15) (hk : n ≤ k) (hp : st.prevSym ≠ 17) :
    ∃ st', lensK clc k st acc
        (((chainDigits 8 32 (n - 3) []).map fun d => (17, 3, d)).flatMap (tokBits clc) ++ rest)
        = lensK clc (k - n) st' (List.replicate n 0 ++ acc) rest ∧
      st'.repeatCount = 0 ∧ st'.bitacc = st.bitacc ∧ st'.prevSym = 17 := by
  obtain ⟨d1, ds, h1, h2, h3, h4⟩ := chainDigits_spec 8 (by omega) 32 (n - 3) []
    (by have : (2:Nat) ^ 15 < 8 ^ 32 := by decide
        omega) (by omega)
  rw [h1, List.append_nil]
  have htot : chainTot 8 (d1 + 3) ds = n := by rw [chainTot_eq_chainR, h2]; omega
  have hge := (chainTot_ge 8 (by omega) ds (d1 + 3) (by omega)).1
  rw [htot] at hge
  obtain ⟨k, rfl⟩ : ∃ k', k = k' + 1 := ⟨k - 1, by omega⟩
  rw [lensK_lt hlt]
  simp only [List.map_cons, List.flatMap_cons, List.append_assoc]
  rw [readLens_tok_17 clc k st acc _ d1 (d1 + 3) hc hlt hr h3 (by rw [if_neg hp]) (by omega)]
  obtain ⟨st', e1, e2, e3, e4⟩ := readLens_chain17 clc hr rest ds (d1 + 3) (k + 1 - (d1 + 3))
    ⟨st.bitacc, 17, st.lastNonzero, (if st.prevSym = 17 then st.lastRepeat + (d1 + 3) else d1 + 3), 0, 0⟩
    (List.replicate (d1 + 3) 0 ++ acc) rfl rfl (by simp only [hp, if_false]) (by omega) hlt h4
    (by rw [htot]; omega)
  rw [htot] at e1
  refine ⟨st', ?_, e2, e4, e3⟩
  rw [e1, ← List.append_assoc, ← List.replicate_add,
    show k + 1 - (d1 + 3) - (n - (d1 + 3)) = k + 1 - n by omega,
    show n - (d1 + 3) + (d1 + 3) = n by omega]

/-- a non-zero run written as one literal followed by code 16 -/
theorem readLens_run16 (clc : PrefixCode) (v : Nat) (hv0 : v ≠ 0) (hv : v ≤ 15) (hrv : TokRead clc v)
    (hr : TokRead clc 16) (rest : Bits) (n k : Nat)
    (st : ClState) (acc : List Nat) (hc : st.repeatCount = 0)
    (hn4 : 4 ≤ n) (hn15 : n ≤ 2 ^ 15) (hk : n ≤ k) (hb : st.bitacc + n * w15 v ≤ 2 ^ 15) :
    ∃ st', lensK clc k st acc
        (((v, 0, 0) :: (chainDigits 4 32 (n - 4) []).map fun d => (16, 2, d)).flatMap (tokBits clc)
          ++ rest)
        = lensK clc (k - n) st' (List.replicate n v ++ acc) rest ∧
      st'.repeatCount = 0 ∧ st'.bitacc = st.bitacc + n * w15 v ∧ st'.prevSym = 16 := by
  obtain ⟨d1, ds, h1, h2, h3, h4⟩ := chainDigits_spec 4 (by omega) 32 (n - 4) []
    (by have : (2:Nat) ^ 15 < 4 ^ 32 := by decide
        omega) (by omega)
  rw [h1, List.append_nil]
  have htot : chainTot 4 (d1 + 3) ds = n - 1 := by rw [chainTot_eq_chainR, h2]; omega
  have hge := (chainTot_ge 4 (by omega) ds (d1 + 3) (by omega)).1
  rw [htot] at hge
  have hw := w15_pos hv0
  -- n * w = w + (d1+3) * w + (n - 1 - (d1+3)) * w
  have hsplit : n * w15 v = w15 v + ((d1 + 3) * w15 v + (n - 1 - (d1 + 3)) * w15 v) := by
    rw [← Nat.add_mul]
    have : n = 1 + (d1 + 3 + (n - 1 - (d1 + 3))) := by omega
    conv => lhs; rw [this]
    rw [Nat.add_mul, Nat.one_mul]
  have hpos1 : 0 < (d1 + 3) * w15 v := Nat.mul_pos (by omega) hw
  have hlt : st.bitacc < 2 ^ 15 := by omega
  obtain ⟨k, rfl⟩ : ∃ k', k = k' + 2 := ⟨k - 2, by omega⟩
  rw [lensK_lt hlt]
  simp only [List.map_cons, List.flatMap_cons, List.append_assoc]
  rw [readLens_tok_lit clc (k + 1) st acc _ v hc hlt hrv hv (by omega)]
  rw [lensK_lt (by simp only; omega)]
  simp only [hv0, if_false]
  rw [readLens_tok_16 clc k _ (v :: acc) _ d1 (d1 + 3) rfl (by simp only; omega) hr h3
    (by simp only; rw [if_neg (by omega)]) (by omega) (by simp only; omega)]
  simp only
  obtain ⟨st', e1, e2, e3, e4⟩ := readLens_chain16 clc hr rest ds (d1 + 3) (k + 1 - (d1 + 3))
    ⟨st.bitacc + w15 v + (d1 + 3) * w15 v, 16, v,
      (if v = 16 then st.lastRepeat + (d1 + 3) else d1 + 3), 0, v⟩
    (List.replicate (d1 + 3) v ++ v :: acc) rfl rfl (by simp only; rw [if_neg (by omega)])
    (by omega) hv0 h4 (by rw [htot]; omega) (by rw [htot]; simp only; omega)
  rw [htot] at e1 e4
  simp only at e1 e4
  refine ⟨st', ?_, e2, by rw [e4]; omega, e3⟩
  rw [e1, ← List.append_assoc, ← List.replicate_add,
    show k + 1 - (d1 + 3) - (n - 1 - (d1 + 3)) = k + 2 - n by omega,
    show n - 1 - (d1 + 3) + (d1 + 3) = n - 1 by omega]
  congr 1
  rw [show n = (n - 1) + 1 by omega, List.replicate_succ', List.append_assoc]
  simp


/-- **one run** `(v, n)` as `runTokens` writes it -/
theorem readLens_run (clc : PrefixCode) (rle : Bool) (v n k : Nat) (st : ClState) (acc : List Nat)
    (rest : Bits) (hc : st.repeatCount = 0) (hlt : st.bitacc < 2 ^ 15) (hn : 1 ≤ n)
    (hn15 : n ≤ 2 ^ 15) (hv : v ≤ 15) (hk : n ≤ k) (hb : st.bitacc + n * w15 v ≤ 2 ^ 15)
    (hp : st.prevSym = 17 → v ≠ 0) (hr : ∀ t ∈ runTokens rle v n, TokRead clc t.1) :
    ∃ st', lensK clc k st acc ((runTokens rle v n).flatMap (tokBits clc) ++ rest)
        = lensK clc (k - n) st' (List.replicate n v ++ acc) rest ∧
      st'.repeatCount = 0 ∧ st'.bitacc = st.bitacc + n * w15 v ∧ (st'.prevSym = 17 → v = 0) := by
  unfold runTokens at hr ⊢
  by_cases h0 : v = 0
  · subst h0
    simp only [if_true] at hr ⊢
    by_cases hrle : rle = true ∧ n ≥ 3
    · rw [if_pos hrle] at hr ⊢
      have hr17 : TokRead clc 17 := by
        obtain ⟨d1, ds, h1, _⟩ := chainDigits_spec 8 (by omega) 32 (n - 3) []
          (by have : (2:Nat) ^ 15 < 8 ^ 32 := by decide
              omega) (by omega)
        exact hr (17, 3, d1) (by rw [h1]; simp)
      obtain ⟨st', e1, e2, e3, e4⟩ := readLens_run17 clc hr17 rest n k st acc hc hlt hrle.2 hn15 hk
        (fun h => hp h rfl)
      exact ⟨st', e1, e2, by rw [e3]; simp [w15], fun _ => trivial⟩
    · rw [if_neg hrle] at hr ⊢
      obtain ⟨st', e1, e2, e3, e4, _⟩ := readLens_lits clc 0 (by omega)
        (hr (0, 0, 0) (by simp; omega)) rest n k st acc hc (fun _ => hlt) hk hb
      exact ⟨st', e1, e2, e3, fun _ => trivial⟩
  · simp only [h0, if_false] at hr ⊢
    by_cases hrle : rle = true ∧ n ≥ 4
    · rw [if_pos hrle] at hr ⊢
      have hr16 : TokRead clc 16 := by
        obtain ⟨d1, ds, h1, _⟩ := chainDigits_spec 4 (by omega) 32 (n - 4) []
          (by have : (2:Nat) ^ 15 < 4 ^ 32 := by decide
              omega) (by omega)
        exact hr (16, 2, d1) (by rw [h1]; simp)
      obtain ⟨st', e1, e2, e3, e4⟩ := readLens_run16 clc v h0 hv (hr (v, 0, 0) (by simp)) hr16 rest
        n k st acc hc hrle.2 hn15 hk hb
      exact ⟨st', e1, e2, e3, fun h => by omega⟩
    · rw [if_neg hrle] at hr ⊢
      obtain ⟨st', e1, e2, e3, e4, _⟩ := readLens_lits clc v hv
        (hr (v, 0, 0) (by simp; omega)) rest n k st acc hc (fun _ => hlt) hk hb
      exact ⟨st', e1, e2, e3, fun h => by have := e4 hn; omega⟩

/-! ## all runs -/

def runsMass : List (Nat × Nat) → Nat
  | [] => 0
  | r :: rs => r.2 * w15 r.1 + runsMass rs

def runsExpand : List (Nat × Nat) → List Nat
  | [] => []
  | r :: rs => List.replicate r.2 r.1 ++ runsExpand rs

/-- runs are non-empty, of lengths ≤ 15, and neighbours differ -/
def RunsWF : Option Nat → List (Nat × Nat) → Prop
  | _, [] => True
  | prev, r :: rs => 1 ≤ r.2 ∧ r.1 ≤ 15 ∧ prev ≠ some r.1 ∧ RunsWF (some r.1) rs

theorem runsExpand_length_le (rs : List (Nat × Nat)) (r : Nat × Nat) (h : r ∈ rs) :
    r.2 ≤ (runsExpand rs).length := by
  induction rs with
  | nil => simp at h
  | cons a t ih =>
    simp only [runsExpand, List.length_append, List.length_replicate]
    rcases List.mem_cons.1 h with rfl | h
    · omega
    · have := ih h; omega

theorem runsMass_pos (rs : List (Nat × Nat)) : ∀ prev, RunsWF prev rs → rs ≠ [] →
    (∀ r ∈ rs.getLast?, r.1 ≠ 0) → 0 < runsMass rs := by
  induction rs with
  | nil => intro _ _ h; exact absurd rfl h
  | cons a t ih =>
    intro prev hwf _ hlast
    obtain ⟨h1, _, _, hwf'⟩ := hwf
    simp only [runsMass]
    cases t with
    | nil =>
      have : a.1 ≠ 0 := hlast a (by simp)
      have := Nat.mul_pos (show 0 < a.2 by omega) (w15_pos this)
      omega
    | cons b t' =>
      have := ih (some a.1) hwf' (by simp) (by
        intro r hr; exact hlast r (by simpa [List.getLast?_cons_cons] using hr))
      omega

/-- **the whole second loop** over the tokens of a run list whose Kraft mass fills the space -/
theorem readLens_runs (clc : PrefixCode) (rle : Bool) (rest : Bits) :
    ∀ (rs : List (Nat × Nat)) (prev : Option Nat) (k : Nat) (st : ClState) (acc : List Nat),
    RunsWF prev rs → (∀ r ∈ rs.getLast?, r.1 ≠ 0) →
    (∀ t ∈ rs.flatMap (fun r => runTokens rle r.1 r.2), TokRead clc t.1) →
    st.repeatCount = 0 → st.bitacc + runsMass rs = 2 ^ 15 → (runsExpand rs).length ≤ k →
    k ≤ 2 ^ 15 → (st.prevSym = 17 → prev = some 0) →
    ∃ st', lensK clc k st acc
        ((rs.flatMap fun r => runTokens rle r.1 r.2).flatMap (tokBits clc) ++ rest)
        = .ok (((runsExpand rs).reverse ++ acc, st'), rest) ∧
      st'.repeatCount = 0 ∧ st'.bitacc = 2 ^ 15 := by
  intro rs
  induction rs with
  | nil =>
    intro prev k st acc _ _ _ hc hb _ _ _
    simp only [runsMass, Nat.add_zero] at hb
    exact ⟨st, by simp [runsExpand, lensK_eq hb], hc, hb⟩
  | cons r rs ih =>
    intro prev k st acc hwf hlast hr hc hb hk hk15 hp
    obtain ⟨hn, hv, hprev, hwf'⟩ := hwf
    simp only [runsMass] at hb
    simp only [runsExpand, List.length_append, List.length_replicate] at hk
    have hmpos : 0 < r.2 * w15 r.1 + runsMass rs := by
      have := runsMass_pos (r :: rs) prev ⟨hn, hv, hprev, hwf'⟩ (by simp) hlast
      simpa [runsMass] using this
    have hlt : st.bitacc < 2 ^ 15 := by omega
    simp only [List.flatMap_cons, List.flatMap_append, List.append_assoc]
    obtain ⟨st1, e1, e2, e3, e4⟩ := readLens_run clc rle r.1 r.2 k st acc
      ((rs.flatMap fun r => runTokens rle r.1 r.2).flatMap (tokBits clc) ++ rest)
      hc hlt hn (by omega) hv (by omega) (by omega)
      (fun h => by
        have := hp h
        intro h0
        rw [this, h0] at hprev
        exact hprev rfl)
      (fun t ht => hr t (by simp only [List.flatMap_cons, List.mem_append]; exact Or.inl ht))
    rw [e1]
    obtain ⟨st2, f1, f2, f3⟩ := ih (some r.1) (k - r.2) st1 (List.replicate r.2 r.1 ++ acc) hwf'
      (by
        intro x hx
        cases rs with
        | nil => simp at hx
        | cons b t => exact hlast x (by simpa [List.getLast?_cons_cons] using hx))
      (fun t ht => hr t (by simp only [List.flatMap_cons, List.mem_append]; exact Or.inr ht))
      e2 (by rw [e3]; omega) (by omega) (by omega)
      (fun h => by rw [e4 h])
    refine ⟨st2, ?_, f2, f3⟩
    rw [f1]
    simp [runsExpand, List.reverse_append]

end Jxl.Entropy
