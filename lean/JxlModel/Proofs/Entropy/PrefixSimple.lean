import JxlModel.Proofs.Entropy.PrefixComplex
/-! The simple prefix-code histogram forms with 2, 3 and 4 symbols (`parse_simple`) read back what
`writeSimple` writes for the shapes `simpleShape` recognises. -/
namespace Jxl.Entropy
open Jxl Jxl.Enc

/-- used entries `(length, symbol)` of a length vector, ascending symbol -/
def usedL (lens : List Nat) : List (Nat × Nat) :=
  lens.zipIdx.filter (fun p : Nat × Nat => decide (p.1 ≠ 0))

/-- symbols of `u` with length `k` -/
def wl (k : Nat) (u : List (Nat × Nat)) : List Nat :=
  (u.filter (fun p : Nat × Nat => decide (p.1 = k))).map (·.2)

theorem simpleShape_eq (lens : List Nat) : simpleShape lens =
  match (usedL lens).length with
  | 1 => some ((usedL lens).map (·.2), none)
  | 2 => if (wl 1 (usedL lens)).length = 2 then some (wl 1 (usedL lens), none) else none
  | 3 => if (wl 1 (usedL lens)).length = 1 ∧ (wl 2 (usedL lens)).length = 2 then
           some (wl 1 (usedL lens) ++ wl 2 (usedL lens), none)
         else none
  | 4 =>
    if (wl 2 (usedL lens)).length = 4 then some (wl 2 (usedL lens), some false)
    else if (wl 1 (usedL lens)).length = 1 ∧ (wl 2 (usedL lens)).length = 1 ∧
        (wl 3 (usedL lens)).length = 2 then
      some (wl 1 (usedL lens) ++ wl 2 (usedL lens) ++ wl 3 (usedL lens), some true)
    else none
  | _ => none := by rfl

theorem mem_usedL (lens : List Nat) (l s : Nat) :
    (l, s) ∈ usedL lens ↔ lens[s]? = some l ∧ l ≠ 0 := by
  unfold usedL
  rw [List.mem_filter, List.mem_zipIdx_iff_getElem?]
  simp

theorem usedL_getD (lens : List Nat) (l s : Nat) (h : (l, s) ∈ usedL lens) :
    lens.getD s 0 = l ∧ l ≠ 0 ∧ s < lens.length := by
  obtain ⟨h1, h2⟩ := (mem_usedL lens l s).1 h
  refine ⟨by rw [List.getD_eq_getElem?_getD, h1]; rfl, h2, ?_⟩
  by_contra hcon
  rw [List.getElem?_eq_none (by omega)] at h1
  cases h1

theorem usedL_of_getD (lens : List Nat) (i : Nat) (h : lens.getD i 0 ≠ 0) :
    (lens.getD i 0, i) ∈ usedL lens := by
  rw [mem_usedL]
  have hlt : i < lens.length := by
    by_contra hcon
    rw [List.getD_eq_getElem?_getD, List.getElem?_eq_none (by omega)] at h
    exact h rfl
  refine ⟨?_, h⟩
  rw [List.getD_eq_getElem?_getD, List.getElem?_eq_getElem hlt]
  rfl

theorem usedL_nodup (lens : List Nat) : ((usedL lens).map (·.2)).Nodup := by
  unfold usedL
  have hsub : ((lens.zipIdx.filter (fun p : Nat × Nat => decide (p.1 ≠ 0))).map (·.2)).Sublist
      (lens.zipIdx.map (·.2)) := List.Sublist.map _ List.filter_sublist
  apply hsub.nodup
  rw [List.zipIdx_map_snd]
  exact List.nodup_range'

theorem mem_wl (k : Nat) (u : List (Nat × Nat)) (s : Nat) : s ∈ wl k u ↔ (k, s) ∈ u := by
  unfold wl
  rw [List.mem_map]
  constructor
  · rintro ⟨⟨l, s'⟩, hm, rfl⟩
    rw [List.mem_filter] at hm
    simp only [decide_eq_true_eq] at hm
    obtain ⟨hm1, rfl⟩ := hm
    exact hm1
  · intro h
    exact ⟨(k, s), by rw [List.mem_filter]; exact ⟨h, by simp⟩, rfl⟩

theorem wl_nodup (k : Nat) (u : List (Nat × Nat)) (h : (u.map (·.2)).Nodup) : (wl k u).Nodup := by
  unfold wl
  exact (List.Sublist.map _ List.filter_sublist).nodup h

/-- length not in {1,2,3} -/
def otherLen (p : Nat × Nat) : Bool := decide (p.1 ≠ 1 ∧ p.1 ≠ 2 ∧ p.1 ≠ 3)

/-- counting by length class -/
theorem len_classes (u : List (Nat × Nat)) :
    (wl 1 u).length + (wl 2 u).length + (wl 3 u).length + (u.filter otherLen).length = u.length := by
  unfold wl
  simp only [List.length_map]
  induction u with
  | nil => rfl
  | cons p t ih =>
    obtain ⟨l, s⟩ := p
    simp only [List.filter_cons, List.length_cons]
    by_cases h1 : l = 1
    · subst h1
      have : otherLen (1, s) = false := by simp [otherLen]
      simp [this]; omega
    · by_cases h2 : l = 2
      · subst h2
        have : otherLen (2, s) = false := by simp [otherLen]
        simp [this]; omega
      · by_cases h3 : l = 3
        · subst h3
          have : otherLen (3, s) = false := by simp [otherLen]
          simp [this]; omega
        · have : otherLen (l, s) = true := by simp [otherLen, h1, h2, h3]
          simp [h1, h2, h3, this]; omega

theorem len_class_of_other_nil (u : List (Nat × Nat)) (h : (u.filter otherLen).length = 0)
    (p : Nat × Nat) (hp : p ∈ u) : p.1 = 1 ∨ p.1 = 2 ∨ p.1 = 3 := by
  have hnil := List.eq_nil_of_length_eq_zero h
  rw [List.filter_eq_nil_iff] at hnil
  have := hnil p hp
  simp only [otherLen, decide_eq_true_eq] at this
  omega

/-! ## writes -/

def writeAll : List (Nat × Nat) → List Nat → List Nat
  | [], acc => acc
  | (s, l) :: r, acc => writeAll r (acc.set s l)

theorem setLens_ok (n : Nat) : ∀ (ws : List (Nat × Nat)) (acc : List Nat), (∀ w ∈ ws, w.1 < n) →
    setLens n ws acc = .ok (writeAll ws acc) := by
  intro ws
  induction ws with
  | nil => intro acc _; rfl
  | cons w r ih =>
    intro acc h
    obtain ⟨s, l⟩ := w
    have : s < n := h (s, l) (by simp)
    simp only [setLens, this, if_true, writeAll]
    exact ih _ (fun w hw => h w (by simp [hw]))

theorem writeAll_length : ∀ (ws : List (Nat × Nat)) (acc : List Nat),
    (writeAll ws acc).length = acc.length := by
  intro ws
  induction ws with
  | nil => intro acc; rfl
  | cons w r ih => intro acc; obtain ⟨s, l⟩ := w; simp only [writeAll, ih, List.length_set]

theorem writeAll_append (a b : List (Nat × Nat)) : ∀ acc,
    writeAll (a ++ b) acc = writeAll b (writeAll a acc) := by
  induction a with
  | nil => intro acc; rfl
  | cons w r ih => intro acc; obtain ⟨s, l⟩ := w; simp only [List.cons_append, writeAll, ih]

theorem writeAll_getD_notin : ∀ (ws : List (Nat × Nat)) (acc : List Nat) (i : Nat),
    i ∉ ws.map (·.1) → (writeAll ws acc).getD i 0 = acc.getD i 0 := by
  intro ws
  induction ws with
  | nil => intro acc i _; rfl
  | cons w r ih =>
    intro acc i hi
    obtain ⟨s, l⟩ := w
    simp only [List.map_cons, List.mem_cons, not_or] at hi
    simp only [writeAll]
    rw [ih _ _ hi.2, getD_set_ne _ _ _ _ (fun h => hi.1 h.symm)]

theorem writeAll_getD_mem : ∀ (ws : List (Nat × Nat)) (acc : List Nat) (s l : Nat),
    (ws.map (·.1)).Nodup → (s, l) ∈ ws → s < acc.length → (writeAll ws acc).getD s 0 = l := by
  intro ws
  induction ws with
  | nil => intro acc s l _ h; simp at h
  | cons w r ih =>
    intro acc s l hnd hm hs
    obtain ⟨s', l'⟩ := w
    simp only [List.map_cons, List.nodup_cons] at hnd
    simp only [writeAll]
    rcases List.mem_cons.1 hm with h | h
    · cases h
      rw [writeAll_getD_notin _ _ _ hnd.1, getD_set_self _ _ _ hs]
    · exact ih _ s l hnd.2 h (by rw [List.length_set]; exact hs)

theorem writeAll_zeros (pre : List (Nat × Nat)) (n : Nat) (h : ∀ w ∈ pre, w = (0, 0)) :
    writeAll pre (List.replicate n 0) = List.replicate n 0 := by
  induction pre with
  | nil => rfl
  | cons w r ih =>
    have hw := h w (by simp)
    subst hw
    simp only [writeAll]
    have : (List.replicate n 0).set 0 0 = List.replicate n 0 := by
      apply list_ext_getD _ _ (by simp)
      intro i
      by_cases hi : i = 0
      · subst hi
        by_cases hn : 0 < n
        · rw [getD_set_self _ _ _ (by simpa using hn), getD_replicate_zero]
        · have : n = 0 := by omega
          subst this; rfl
      · rw [getD_set_ne _ _ _ _ (fun h => hi h.symm)]
    rw [this]
    exact ih (fun w hw => h w (by simp [hw]))

/-- the lengths the simple form reconstructs are the original ones -/
theorem simple_core (count : Nat) (lens syms pat : List Nat) (pre : List (Nat × Nat))
    (hpre : ∀ w ∈ pre, w = (0, 0)) (hlp : syms.length = pat.length) (hnd : syms.Nodup)
    (hlt : ∀ s ∈ syms, s < count) (hlen : lens.length = count)
    (hfwd : ∀ s l, (s, l) ∈ syms.zip pat → lens.getD s 0 = l)
    (hbwd : ∀ i, lens.getD i 0 ≠ 0 → i ∈ syms) :
    writeAll (pre ++ syms.zip pat) (List.replicate count 0) = lens := by
  rw [writeAll_append, writeAll_zeros pre count hpre]
  apply list_ext_getD _ _ (by rw [writeAll_length, List.length_replicate, hlen])
  intro i
  have hfst : (syms.zip pat).map (·.1) = syms := by
    rw [List.map_fst_zip]; omega
  by_cases hi : i ∈ syms
  · obtain ⟨k, hk, rfl⟩ := List.getElem_of_mem hi
    have hmem : (syms[k], pat[k]'(by omega)) ∈ syms.zip pat := by
      rw [List.mem_iff_getElem]
      exact ⟨k, by simp; omega, by simp⟩
    rw [writeAll_getD_mem _ _ _ _ (by rw [hfst]; exact hnd) hmem
      (by rw [List.length_replicate]; exact hlt _ hi)]
    exact (hfwd _ _ hmem).symm
  · rw [writeAll_getD_notin _ _ _ (by rw [hfst]; exact hi), getD_replicate_zero]
    by_contra hcon
    exact hi (hbwd i (fun h => hcon h.symm))

theorem rsyms_write (bits : Nat) : ∀ (syms : List Nat) (rest : Bits), (∀ s ∈ syms, s < 2 ^ bits) →
    rsyms bits syms.length (syms.flatMap (toBits bits) ++ rest) = .ok (syms, rest) := by
  intro syms
  induction syms with
  | nil => intro rest _; rfl
  | cons a r ih =>
    intro rest h
    simp only [List.length_cons, rsyms, List.flatMap_cons, List.append_assoc]
    rw [rbits_toBits bits a _ (h a (by simp))]
    simp only
    rw [ih rest (fun s hs => h s (by simp [hs]))]


/-! ## the shapes -/

/-- what `simple_core` needs -/
structure SimpleOK (count : Nat) (lens syms pat : List Nat) : Prop where
  hlp : syms.length = pat.length
  hnd : syms.Nodup
  hlt : ∀ s ∈ syms, s < count
  hfwd : ∀ s l, (s, l) ∈ syms.zip pat → lens.getD s 0 = l
  hbwd : ∀ i, lens.getD i 0 ≠ 0 → i ∈ syms

theorem mem_zip_replicate (A : List Nat) (n k s l : Nat) (h : (s, l) ∈ A.zip (List.replicate n k)) :
    s ∈ A ∧ l = k := by
  have := List.of_mem_zip h
  exact ⟨this.1, (List.mem_replicate.1 this.2).2⟩

theorem mixed_ok (count : Nat) (lens : List Nat) (hlen : lens.length = count)
    (hother : ((usedL lens).filter otherLen).length = 0) :
    SimpleOK count lens (wl 1 (usedL lens) ++ wl 2 (usedL lens) ++ wl 3 (usedL lens))
      (List.replicate (wl 1 (usedL lens)).length 1 ++ List.replicate (wl 2 (usedL lens)).length 2
        ++ List.replicate (wl 3 (usedL lens)).length 3) := by
  have hval : ∀ k s, s ∈ wl k (usedL lens) → lens.getD s 0 = k ∧ s < count := by
    intro k s hs
    have := usedL_getD lens k s ((mem_wl k _ s).1 hs)
    exact ⟨this.1, by omega⟩
  have hdisj : ∀ j k, j ≠ k → ∀ s, s ∈ wl j (usedL lens) → s ∈ wl k (usedL lens) → False := by
    intro j k hjk s h1 h2
    have := (hval j s h1).1
    have := (hval k s h2).1
    omega
  have hn := usedL_nodup lens
  refine ⟨by simp, ?_, ?_, ?_, ?_⟩
  · rw [List.nodup_append, List.nodup_append]
    refine ⟨⟨wl_nodup 1 _ hn, wl_nodup 2 _ hn, ?_⟩, wl_nodup 3 _ hn, ?_⟩
    · intro a ha b hb hab
      subst hab
      exact hdisj 1 2 (by omega) a ha hb
    · intro a ha b hb hab
      subst hab
      rcases List.mem_append.1 ha with h | h
      · exact hdisj 1 3 (by omega) a h hb
      · exact hdisj 2 3 (by omega) a h hb
  · intro s hs
    simp only [List.mem_append] at hs
    rcases hs with (h | h) | h
    · exact (hval 1 s h).2
    · exact (hval 2 s h).2
    · exact (hval 3 s h).2
  · intro s l h
    rw [List.zip_append (by simp), List.zip_append (by simp)] at h
    simp only [List.mem_append] at h
    rcases h with (h | h) | h
    · obtain ⟨h1, rfl⟩ := mem_zip_replicate _ _ _ _ _ h; exact (hval 1 s h1).1
    · obtain ⟨h1, rfl⟩ := mem_zip_replicate _ _ _ _ _ h; exact (hval 2 s h1).1
    · obtain ⟨h1, rfl⟩ := mem_zip_replicate _ _ _ _ _ h; exact (hval 3 s h1).1
  · intro i hi
    have hm := usedL_of_getD lens i hi
    have hc := len_class_of_other_nil _ hother _ hm
    simp only at hc
    simp only [List.mem_append]
    rcases hc with h | h | h
    · left; left; rw [mem_wl, ← h]; exact hm
    · left; right; rw [mem_wl, ← h]; exact hm
    · right; rw [mem_wl, ← h]; exact hm

/-- the four multi-symbol shapes `simpleShape` recognises -/
theorem shape_ok (count : Nat) (lens : List Nat) (hlen : lens.length = count) (syms : List Nat)
    (sel : Option Bool) (h : simpleShape lens = some (syms, sel)) (h1 : syms.length ≠ 1) :
    (sel = none ∧ SimpleOK count lens syms [1, 1]) ∨
    (sel = none ∧ SimpleOK count lens syms [1, 2, 2]) ∨
    (sel = some false ∧ SimpleOK count lens syms [2, 2, 2, 2]) ∨
    (sel = some true ∧ SimpleOK count lens syms [1, 2, 3, 3]) := by
  rw [simpleShape_eq] at h
  have hcls := len_classes (usedL lens)
  split at h
  · -- one symbol
    rename_i hu
    simp only [Option.some.injEq, Prod.mk.injEq] at h
    obtain ⟨rfl, _⟩ := h
    rw [List.length_map] at h1
    exact absurd hu h1
  · rename_i hu
    split at h
    · rename_i hw
      simp only [Option.some.injEq, Prod.mk.injEq] at h
      obtain ⟨rfl, rfl⟩ := h
      left
      refine ⟨rfl, ?_⟩
      have h2 : wl 2 (usedL lens) = [] := List.eq_nil_of_length_eq_zero (by omega)
      have h3 : wl 3 (usedL lens) = [] := List.eq_nil_of_length_eq_zero (by omega)
      have := mixed_ok count lens hlen (by omega)
      rw [h2, h3, hw] at this
      simpa using this
    · cases h
  · rename_i hu
    split at h
    · rename_i hw
      simp only [Option.some.injEq, Prod.mk.injEq] at h
      obtain ⟨rfl, rfl⟩ := h
      right; left
      refine ⟨rfl, ?_⟩
      have h3 : wl 3 (usedL lens) = [] := List.eq_nil_of_length_eq_zero (by omega)
      have := mixed_ok count lens hlen (by omega)
      rw [h3, hw.1, hw.2] at this
      simpa using this
    · cases h
  · rename_i hu
    split at h
    · rename_i hw
      simp only [Option.some.injEq, Prod.mk.injEq] at h
      obtain ⟨rfl, rfl⟩ := h
      right; right; left
      refine ⟨rfl, ?_⟩
      have h1' : wl 1 (usedL lens) = [] := List.eq_nil_of_length_eq_zero (by omega)
      have h3 : wl 3 (usedL lens) = [] := List.eq_nil_of_length_eq_zero (by omega)
      have := mixed_ok count lens hlen (by omega)
      rw [h1', h3, hw] at this
      simpa using this
    · split at h
      · rename_i hw
        simp only [Option.some.injEq, Prod.mk.injEq] at h
        obtain ⟨rfl, rfl⟩ := h
        right; right; right
        refine ⟨rfl, ?_⟩
        have := mixed_ok count lens hlen (by omega)
        rw [hw.1, hw.2.1, hw.2.2] at this
        simpa using this
      · cases h
  · cases h


/-! ## `parse_simple` -/

theorem lt_pow_clog2 (n s : Nat) (hn : n ≤ 2 ^ 15) (hs : s < n) : s < 2 ^ clog2 n := by
  have : n ≤ 2 ^ clog2 n := by
    unfold clog2
    exact clog2_go_spec 33 0 n (by simp; omega)
  omega

/-- the common prefix of all multi-symbol simple forms: up to the symbols -/
theorem parsePrefix_simple_head (count : Nat) (syms : List Nat) (tail : Bits) (h2 : 2 ≤ count)
    (hc15 : count ≤ 2 ^ 15) (hn1 : 1 ≤ syms.length) (hn4 : syms.length ≤ 4)
    (hlt : ∀ s ∈ syms, s < count) :
    parsePrefix count (toBits 2 1 ++ toBits 2 (syms.length - 1)
        ++ syms.flatMap (toBits (clog2 count)) ++ tail)
      = parseSimple count (toBits 2 (syms.length - 1) ++ (syms.flatMap (toBits (clog2 count)) ++ tail)) ∧
    rbits 2 (toBits 2 (syms.length - 1) ++ (syms.flatMap (toBits (clog2 count)) ++ tail))
      = .ok (syms.length - 1, syms.flatMap (toBits (clog2 count)) ++ tail) ∧
    rsyms (clog2 count) (syms.length - 1 + 1) (syms.flatMap (toBits (clog2 count)) ++ tail)
      = .ok (syms, tail) := by
  refine ⟨?_, rbits_toBits 2 _ _ (by omega), ?_⟩
  · unfold parsePrefix
    rw [if_neg (by omega), if_neg (by omega)]
    simp only [List.append_assoc]
    rw [rbits_toBits 2 1 _ (by omega)]
    simp
  · rw [show syms.length - 1 + 1 = syms.length by omega]
    exact rsyms_write _ syms tail (fun s hs => lt_pow_clog2 count s hc15 (hlt s hs))

/-- **simple forms with 2, 3 or 4 symbols** -/
theorem parsePrefix_simple (count : Nat) (lens syms : List Nat) (sel : Option Bool) (h2 : 2 ≤ count)
    (hc15 : count ≤ 2 ^ 15) (hlen : lens.length = count) (hk : kraft lens = 2 ^ 15)
    (hshape : simpleShape lens = some (syms, sel)) (hn1 : syms.length ≠ 1) (rest : Bits) :
    parsePrefix count (writeSimple count syms sel ++ rest) = .ok (.table (sortedSyms lens), rest) := by
  have hfin : ∀ (pre : List (Nat × Nat)) (pat : List Nat), (∀ w ∈ pre, w = (0, 0)) →
      SimpleOK count lens syms pat →
      setLens count (pre ++ syms.zip pat) (List.replicate count 0) = .ok lens := by
    intro pre pat hpre ok
    rw [setLens_ok count _ _ (by
      intro w hw
      rcases List.mem_append.1 hw with h | h
      · rw [hpre w h]; exact (by omega : (0, 0).1 < count)
      · exact ok.hlt _ (List.of_mem_zip (a := w.1) (b := w.2) h).1)]
    rw [simple_core count lens syms pat pre hpre ok.hlp ok.hnd ok.hlt hlen ok.hfwd ok.hbwd]
  have hof : PrefixCode.ofLengths lens = .ok (.table (sortedSyms lens)) := by
    unfold PrefixCode.ofLengths; rw [if_pos hk]
  unfold writeSimple
  rcases shape_ok count lens hlen syms sel hshape hn1 with ⟨rfl, ok⟩ | ⟨rfl, ok⟩ | ⟨rfl, ok⟩ | ⟨rfl, ok⟩
  · have hl : syms.length = 2 := ok.hlp
    obtain ⟨e1, e2, e3⟩ := parsePrefix_simple_head count syms rest h2 hc15 (by omega) (by omega) ok.hlt
    simp only [List.append_nil]
    rw [e1]
    unfold parseSimple
    rw [hl] at e2 e3 ⊢
    simp only [e2, e3]
    have := hfin [(0, 0), (0, 0)] [1, 1] (by simp) ok
    simp only [List.cons_append, List.nil_append] at this
    simp [this, hof]
  · have hl : syms.length = 3 := ok.hlp
    obtain ⟨e1, e2, e3⟩ := parsePrefix_simple_head count syms rest h2 hc15 (by omega) (by omega) ok.hlt
    simp only [List.append_nil]
    rw [e1]
    unfold parseSimple
    rw [hl] at e2 e3 ⊢
    simp only [e2, e3]
    have := hfin [(0, 0)] [1, 2, 2] (by simp) ok
    simp only [List.cons_append, List.nil_append] at this
    simp [this, hof]
  · have hl : syms.length = 4 := ok.hlp
    obtain ⟨e1, e2, e3⟩ := parsePrefix_simple_head count syms ([false] ++ rest) h2 hc15 (by omega)
      (by omega) ok.hlt
    simp only [List.append_assoc] at e1 ⊢
    rw [e1]
    unfold parseSimple
    rw [hl] at e2 e3 ⊢
    simp only [e2, e3]
    have := hfin [] [2, 2, 2, 2] (by simp) ok
    simp only [List.nil_append] at this
    simp [rbool, this, hof]
  · have hl : syms.length = 4 := ok.hlp
    obtain ⟨e1, e2, e3⟩ := parsePrefix_simple_head count syms ([true] ++ rest) h2 hc15 (by omega)
      (by omega) ok.hlt
    simp only [List.append_assoc] at e1 ⊢
    rw [e1]
    unfold parseSimple
    rw [hl] at e2 e3 ⊢
    simp only [e2, e3]
    have := hfin [] [1, 2, 3, 3] (by simp) ok
    simp only [List.nil_append] at this
    simp [rbool, this, hof]

end Jxl.Entropy
