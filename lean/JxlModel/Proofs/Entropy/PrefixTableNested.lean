import JxlModel.Proofs.Entropy.PrefixTable
/-! Second-level chunks of `with_code_lengths` (codes with a length in 11..=15): loop invariant of
`secondLevels` / `chunkSyms`, and the nested read. -/
namespace Jxl.Entropy
open List

/-! ## replication -/

theorem replicateEach_replicate (m n : Nat) (x : Entry) :
    replicateEach m (replicate n x) = replicate (n * m) x := by
  induction n with
  | zero => simp [replicateEach]
  | succ n ih =>
    unfold replicateEach at ih ⊢
    rw [replicate_succ, flatMap_cons, ih, Nat.succ_mul, Nat.add_comm, replicate_add]

theorem replicateEach_append (m : Nat) (a b : List Entry) :
    replicateEach m (a ++ b) = replicateEach m a ++ replicateEach m b := by
  simp [replicateEach]

theorem replicateEach_length (m : Nat) (l : List Entry) :
    (replicateEach m l).length = m * l.length := by
  induction l with
  | nil => simp [replicateEach]
  | cons a r ih =>
    unfold replicateEach at ih ⊢
    simp [flatMap_cons, ih, Nat.mul_add]; omega

theorem replicateEach_ite (m : Nat) (c : List Entry) :
    (if (!c.isEmpty) = true then replicateEach m c else []) = replicateEach m c := by
  cases c <;> simp [replicateEach]

/-- growing the chunk depth = replicating every entry -/
theorem replicateEach_flat (d d' : Nat) (es : List (Nat × Nat)) (h : ∀ e ∈ es, e.2 ≤ d)
    (hd : d ≤ d') : replicateEach (2 ^ (d' - d)) (flat d es) = flat d' es := by
  induction es with
  | nil => simp [flat, replicateEach]
  | cons e r ih =>
    have hl : e.2 ≤ d := h e (by simp)
    simp only [flat, replicateEach_append, replicateEach_replicate,
      ih (fun e he => h e (by simp [he]))]
    rw [← Nat.pow_add, show d - e.2 + (d' - d) = d' - e.2 by omega]

/-! ## interval search over concatenations -/

theorem walk_append_left (v : Nat) (a b : List (Nat × Nat)) (acc : Nat) (x : Nat × Nat)
    (h : walk v acc a = some x) : walk v acc (a ++ b) = some x := by
  induction a generalizing acc with
  | nil => simp [walk] at h
  | cons e r ih =>
    obtain ⟨s, l⟩ := e
    simp only [walk, cons_append] at h ⊢
    split
    · rename_i hv; simpa [hv] using h
    · rename_i hv; simp only [hv, if_false] at h; exact ih _ h

theorem walk_skip (v : Nat) (a b : List (Nat × Nat)) (acc : Nat) (h : acc + total a ≤ v) :
    walk v acc (a ++ b) = walk v (acc + total a) b := by
  induction a generalizing acc with
  | nil => simp [total]
  | cons e r ih =>
    obtain ⟨s, l⟩ := e
    simp only [total] at h
    have : ¬ v < acc + 2 ^ (15 - l) := by omega
    simp only [walk, cons_append, this, if_false, total]
    rw [ih _ (by omega)]; congr 1; omega

theorem total_pos (es : List (Nat × Nat)) (h : es ≠ []) : 0 < total es := by
  cases es with
  | nil => exact absurd rfl h
  | cons e r =>
    have : 0 < 2 ^ (15 - e.2) := Nat.pos_of_ne_zero (by simp)
    simp only [total]; omega

/-! ## ghost description of the second-level state -/

/-- a completed chunk: its depth below the top level and its canonical entries -/
abbrev Chunk := Nat × List (Nat × Nat)

def chunkTab (c : Chunk) : List Entry := vecReverseBits (flat (10 + c.1) c.2)

def secondOf (done : List Chunk) : List Entry := done.flatMap chunkTab

/-- the `nested` top-level entries written for the chunks, `pre` = second-level entries so far -/
def nestedOf (pre : List Entry) : List Chunk → List Entry
  | [] => []
  | c :: r => ⟨true, 2 ^ c.1 - 1, pre.length⟩ :: nestedOf (pre ++ chunkTab c) r

def longOf (done : List Chunk) : List (Nat × Nat) := done.flatMap (·.2)

theorem nestedOf_length (pre : List Entry) (done : List Chunk) :
    (nestedOf pre done).length = done.length := by
  induction done generalizing pre with
  | nil => rfl
  | cons c r ih => simp [nestedOf, ih]

theorem nestedOf_snoc (pre : List Entry) (done : List Chunk) (c : Chunk) :
    nestedOf pre (done ++ [c])
      = nestedOf pre done ++ [⟨true, 2 ^ c.1 - 1, (pre ++ secondOf done).length⟩] := by
  induction done generalizing pre with
  | nil => simp [nestedOf, secondOf]
  | cons d r ih => simp [nestedOf, ih, secondOf, append_assoc]

def ChunkOk (c : Chunk) : Prop :=
  c.1 ≤ 5 ∧ (∀ e ∈ c.2, e.2 ≤ 10 + c.1) ∧ (flat (10 + c.1) c.2).length = 2 ^ c.1

theorem ChunkOk.total {c : Chunk} (h : ChunkOk c) : total c.2 = 32 := by
  obtain ⟨h1, h2, h3⟩ := h
  have := flat_length_mul (10 + c.1) (by omega) c.2 h2
  rw [h3, show 15 - (10 + c.1) = 5 - c.1 by omega, ← Nat.pow_add,
    show c.1 + (5 - c.1) = 5 by omega] at this
  omega

theorem total_longOf (done : List Chunk) (h : ∀ c ∈ done, ChunkOk c) :
    total (longOf done) = 32 * done.length := by
  induction done with
  | nil => simp [longOf, total]
  | cons c r ih =>
    have hc := (h c (by simp)).total
    have := ih (fun c hc => h c (by simp [hc]))
    unfold longOf at this ⊢
    simp only [flatMap_cons, total_append, hc, this, length_cons]; omega

structure NInv (T : List Entry) (N : Nat) (st : ChunkState) (done : List Chunk)
    (rem : List (Nat × Nat)) (b : Nat) : Prop where
  hN : T.length + done.length ≤ N
  entries : st.entries = T ++ nestedOf [] done ++ replicate (N - (T.length + done.length)) default
  cb : st.currentBits = T.length + done.length
  second : st.second = secondOf done
  chunk : st.chunk = flat (10 + b) rem
  doneOk : ∀ c ∈ done, ChunkOk c
  remOk : ∀ e ∈ rem, e.2 ≤ 10 + b
  remLt : (flat (10 + b) rem).length < 2 ^ b
  bOk : b ≤ 5

theorem set_at_boundary (A : List Entry) (m : Nat) (x d : Entry) (hm : 0 < m) :
    (A ++ replicate m d).set A.length x = A ++ [x] ++ replicate (m - 1) d := by
  obtain ⟨m', rfl⟩ : ∃ m', m = m' + 1 := ⟨m - 1, by omega⟩
  simp [List.set_append, replicate_succ]

theorem flat_snoc_leaf (d : Nat) (rem : List (Nat × Nat)) (a : Nat) :
    flat d (rem ++ [(a, d)]) = flat d rem ++ [⟨false, d, a⟩] := by
  simp [flat_append, flat, entryOf]

theorem chunkSyms_ok (T : List Entry) (N idx b : Nat) (hidx : idx + 1 = 10 + b) (syms : List Nat)
    (st : ChunkState) (done : List Chunk) (rem : List (Nat × Nat))
    (inv : NInv T N st done rem b)
    (hmass : 32 * (T.length + done.length) + total rem + total (syms.map (·, idx + 1)) ≤ 32 * N) :
    ∃ st' done' rem', chunkSyms idx (2 ^ b) syms st = .ok st' ∧ NInv T N st' done' rem' b ∧
      longOf done' ++ rem' = longOf done ++ rem ++ syms.map (·, idx + 1) ∧
      32 * (T.length + done'.length) + total rem'
        = 32 * (T.length + done.length) + total rem + total (syms.map (·, idx + 1)) := by
  induction syms generalizing st done rem with
  | nil => exact ⟨st, done, rem, rfl, inv, by simp, by simp [total]⟩
  | cons a r ih =>
    obtain ⟨entries, cb, second, chunk⟩ := st
    obtain ⟨hN, hE, hcb, hS, hC, hD, hR, hL, hB⟩ := inv
    simp only at hE hcb hS hC
    have hleaf : chunk ++ [(⟨false, idx + 1, a⟩ : Entry)] = flat (10 + b) (rem ++ [(a, idx + 1)]) := by
      rw [hidx, flat_snoc_leaf, hC]
    have htot : total (rem ++ [(a, idx + 1)]) = total rem + 2 ^ (15 - (idx + 1)) := by
      simp [total_append, total]
    simp only [map_cons, total] at hmass
    have hR' : ∀ e ∈ rem ++ [(a, idx + 1)], e.2 ≤ 10 + b := by
      intro e he
      rcases mem_append.1 he with h | h
      · exact hR e h
      · simp at h; subst h; simp; omega
    rw [chunkSyms]
    simp only [hleaf]
    by_cases hfull : (flat (10 + b) (rem ++ [(a, idx + 1)])).length = 2 ^ b
    · have hok : ChunkOk (b, rem ++ [(a, idx + 1)]) := ⟨hB, hR', hfull⟩
      have h32 := hok.total
      simp only at h32
      have hlt : T.length + done.length < N := by omega
      have hElen : entries.length = N := by
        rw [hE]; simp [nestedOf_length]; omega
      have hset : entries.set cb ⟨true, 2 ^ b - 1, second.length⟩
          = T ++ nestedOf [] (done ++ [(b, rem ++ [(a, idx + 1)])])
              ++ replicate (N - (T.length + (done ++ [(b, rem ++ [(a, idx + 1)])]).length)) default := by
        have hb : cb = (T ++ nestedOf [] done).length := by simp [hcb, nestedOf_length]
        rw [hE, hb, set_at_boundary _ _ _ _ (by omega), nestedOf_snoc, hS]
        simp only [length_append, length_cons, length_nil, nil_append, append_assoc]
        congr 3
      simp only [hfull, if_true, hcb, hElen, hlt]
      have inv' : NInv T N ⟨entries.set (T.length + done.length) ⟨true, 2 ^ b - 1, second.length⟩,
          T.length + done.length + 1,
          second ++ vecReverseBits (flat (10 + b) (rem ++ [(a, idx + 1)])), []⟩
          (done ++ [(b, rem ++ [(a, idx + 1)])]) [] b := by
        refine ⟨by simp; omega, ?_, by simp; omega, ?_, by simp [flat], ?_, by simp, ?_, hB⟩
        · rw [← hcb]; exact hset
        · simp [hS, secondOf, chunkTab]
        · intro c hc
          rcases mem_append.1 hc with h | h
          · exact hD c h
          · simp at h; subst h; exact hok
        · simp [flat]
      obtain ⟨st', done', rem', h1, h2, h3, h4⟩ := ih _ _ _ inv' (by
        simp only [length_append, length_cons, length_nil, total]; omega)
      refine ⟨st', done', rem', h1, h2, ?_, ?_⟩
      · rw [h3]; simp [longOf, append_assoc]
      · rw [h4]; simp only [length_append, length_cons, length_nil, total, map_cons]; omega
    · simp only [hfull, if_false]
      have hlen1 : (flat (10 + b) (rem ++ [(a, idx + 1)])).length = (flat (10 + b) rem).length + 1 := by
        rw [← hleaf, hC]; simp
      have inv' : NInv T N ⟨entries, cb, second, flat (10 + b) (rem ++ [(a, idx + 1)])⟩
          done (rem ++ [(a, idx + 1)]) b :=
        ⟨hN, hE, hcb, hS, rfl, hD, hR', by omega, hB⟩
      obtain ⟨st', done', rem', h1, h2, h3, h4⟩ := ih _ _ _ inv' (by rw [htot]; omega)
      refine ⟨st', done', rem', h1, h2, ?_, ?_⟩
      · rw [h3]; simp [append_assoc]
      · rw [h4, htot]; simp only [map_cons, total]; omega

theorem secondLevels_ok (T : List Entry) (N : Nat) (groups : List (List Nat)) (idx : Nat)
    (st : ChunkState) (done : List Chunk) (rem : List (Nat × Nat)) (b : Nat)
    (inv : NInv T N st done rem b) (hb : 10 + b ≤ idx) (h15 : idx + groups.length ≤ 15)
    (hmass : 32 * (T.length + done.length) + total rem + total (entsOf idx groups) ≤ 32 * N) :
    ∃ st' done' rem' b', secondLevels 10 groups idx st b = .ok st' ∧ NInv T N st' done' rem' b' ∧
      longOf done' ++ rem' = longOf done ++ rem ++ entsOf idx groups ∧
      32 * (T.length + done'.length) + total rem'
        = 32 * (T.length + done.length) + total rem + total (entsOf idx groups) := by
  induction groups generalizing idx st done rem b with
  | nil => exact ⟨st, done, rem, b, rfl, inv, by simp [entsOf], by simp [entsOf, total]⟩
  | cons syms r ih =>
    simp only [length_cons] at h15
    rw [secondLevels]
    by_cases hs : syms = []
    · subst hs
      simp only [isEmpty_nil, if_true]
      simp only [entsOf, map_nil, nil_append] at hmass ⊢
      exact ih (idx + 1) st done rem b inv (by omega) (by omega) hmass
    · have hne : syms.isEmpty = false := by cases syms <;> simp_all
      simp only [hne, Bool.false_eq_true, if_false, replicateEach_ite]
      obtain ⟨entries, cb, second, chunk⟩ := st
      obtain ⟨hN, hE, hcb, hS, hC, hD, hR, hL, hB⟩ := inv
      simp only at hE hcb hS hC
      have hrep : replicateEach (2 ^ (idx + 1 - 10 - b)) chunk = flat (10 + (idx + 1 - 10)) rem := by
        rw [hC, ← replicateEach_flat (10 + b) (10 + (idx + 1 - 10)) rem hR (by omega)]
        congr 2; omega
      simp only [hrep]
      have hlen : (flat (10 + (idx + 1 - 10)) rem).length < 2 ^ (idx + 1 - 10) := by
        rw [← hrep, replicateEach_length, hC]
        have : 2 ^ (idx + 1 - 10) = 2 ^ (idx + 1 - 10 - b) * 2 ^ b := by
          rw [← Nat.pow_add]; congr 1; omega
        rw [this]
        exact Nat.mul_lt_mul_of_pos_left hL (Nat.pos_of_ne_zero (by simp))
      have inv1 : NInv T N ⟨entries, cb, second, flat (10 + (idx + 1 - 10)) rem⟩ done rem
          (idx + 1 - 10) :=
        ⟨hN, hE, hcb, hS, rfl, hD, fun e he => Nat.le_trans (hR e he) (by omega), hlen, by omega⟩
      simp only [entsOf, total_append] at hmass
      obtain ⟨st1, done1, rem1, h1, h2, h3, h4⟩ :=
        chunkSyms_ok T N idx (idx + 1 - 10) (by omega) syms _ done rem inv1 (by omega)
      simp only [h1]
      obtain ⟨st2, done2, rem2, b2, g1, g2, g3, g4⟩ :=
        ih (idx + 1) st1 done1 rem1 (idx + 1 - 10) h2 (by omega) (by omega) (by omega)
      refine ⟨st2, done2, rem2, b2, g1, g2, ?_, ?_⟩
      · rw [g3, h3]; simp [entsOf, append_assoc]
      · rw [g4, h4]; simp only [entsOf, total_append]; omega

/-! ## the nested read -/

theorem nested_lookup (done : List Chunk) (hD : ∀ c ∈ done, ChunkOk c) (pre : List Entry)
    (rest : List (Nat × Nat)) (acc v : Nat) (h1 : acc ≤ v) (h2 : v < acc + 32 * done.length) :
    ∃ b off sym len, b ≤ 5 ∧
      (nestedOf pre done)[(v - acc) / 32]? = some ⟨true, 2 ^ b - 1, off⟩ ∧
      walk v acc (longOf done ++ rest) = some (sym, len) ∧
      ∃ F : List Entry, F.length = 2 ^ b ∧
        F[(v - acc) % 32 / 2 ^ (5 - b)]? = some ⟨false, len, sym⟩ ∧
        ∀ k, k < 2 ^ b → (pre ++ secondOf done)[off + k]? = some (F.getD (revBits b k) default) := by
  induction done generalizing pre acc with
  | nil => simp at h2; omega
  | cons c r ih =>
    obtain ⟨b, C⟩ := c
    have hok := hD (b, C) (by simp)
    have h32 : total C = 32 := hok.total
    obtain ⟨hb5, hC, hF⟩ := hok
    simp only at hb5 hC hF
    simp only [length_cons] at h2
    have hlong : longOf ((b, C) :: r) ++ rest = C ++ (longOf r ++ rest) := by
      simp [longOf, append_assoc]
    have hsec : pre ++ secondOf ((b, C) :: r) = (pre ++ chunkTab (b, C)) ++ secondOf r := by
      simp [secondOf, append_assoc]
    by_cases hv : v < acc + 32
    · obtain ⟨sym, len, hw, hg⟩ := flat_lookup (10 + b) (by omega) C hC acc v h1 (by omega)
      rw [show 15 - (10 + b) = 5 - b by omega] at hg
      refine ⟨b, pre.length, sym, len, hb5, ?_, ?_, flat (10 + b) C, hF, ?_, ?_⟩
      · rw [Nat.div_eq_of_lt (by omega)]; simp [nestedOf]
      · rw [hlong]; exact walk_append_left _ _ _ _ _ hw
      · rw [Nat.mod_eq_of_lt (by omega)]; exact hg
      · intro k hk
        have hlen : (chunkTab (b, C)).length = 2 ^ b := by simp [chunkTab, vecReverseBits_length, hF]
        rw [hsec, getElem?_append_left (by simp [hlen]; omega),
          getElem?_append_right (by omega), Nat.add_sub_cancel_left]
        exact vecReverseBits_get _ b k hF hk
    · obtain ⟨b', off, sym, len, g1, g2, g3, F, g4, g5, g6⟩ :=
        ih (fun c hc => hD c (by simp [hc])) (pre ++ chunkTab (b, C)) (acc + 32) (by omega) (by omega)
      have hsplit : v - acc = (v - (acc + 32)) + 32 := by omega
      refine ⟨b', off, sym, len, g1, ?_, ?_, F, g4, ?_, ?_⟩
      · rw [hsplit, Nat.add_div_right _ (by omega)]; simpa [nestedOf] using g2
      · rw [hlong, walk_skip _ _ _ _ (by omega), h32]; exact g3
      · rw [hsplit, Nat.add_mod_right]; exact g5
      · intro k hk; rw [hsec]; exact g6 k hk

theorem read_nested (esTop : List (Nat × Nat)) (hTop : ∀ e ∈ esTop, e.2 ≤ 10)
    (done : List Chunk) (hD : ∀ c ∈ done, ChunkOk c)
    (hlen : (flat 10 esTop).length + done.length = 1024) (s : Bits) :
    TableHist.read ⟨10, vecReverseBits (flat 10 esTop ++ nestedOf [] done), secondOf done⟩ s
      = (PrefixCode.table (esTop ++ longOf done)).read s := by
  have hTtot : total esTop = 32 * (flat 10 esTop).length := by
    have := flat_length_mul 10 (by omega) esTop hTop
    omega
  have hElen : (flat 10 esTop ++ nestedOf [] done).length = 2 ^ 10 := by
    simp [nestedOf_length]; omega
  have hv : msbVal 15 s = msbVal 10 s * 2 ^ 5 + msbVal 5 (s.drop 10) := msbVal_add 10 5 s
  have hr := msbVal_lt 5 (s.drop 10)
  have hi := msbVal_lt 10 s
  have hidx : peekPad 15 s &&& (2 ^ 10 - 1) = peekPad 10 s := by
    rw [Nat.and_two_pow_sub_one_eq_mod, peekPad_mod 10 15 s (by omega)]
  have hget : (vecReverseBits (flat 10 esTop ++ nestedOf [] done))[peekPad 10 s]?
      = some ((flat 10 esTop ++ nestedOf [] done).getD (msbVal 10 s) default) := by
    rw [vecReverseBits_get _ 10 _ hElen (peekPad_lt 10 s), revBits_peekPad]
  by_cases hcase : msbVal 10 s < (flat 10 esTop).length
  · obtain ⟨sym, len, hw, hg⟩ := flat_lookup 10 (by omega) esTop hTop 0 (msbVal 15 s)
      (Nat.zero_le _) (by omega)
    have hdiv : (msbVal 15 s - 0) / 2 ^ (15 - 10) = msbVal 10 s := by
      rw [hv]; simp; omega
    rw [hdiv] at hg
    have hE : (flat 10 esTop ++ nestedOf [] done).getD (msbVal 10 s) default = ⟨false, len, sym⟩ := by
      rw [List.getD_eq_getElem?_getD, getElem?_append_left hcase, hg]; rfl
    have hw' := walk_append_left _ _ (longOf done) _ _ hw
    simp only [TableHist.read, hidx, hget, hE, PrefixCode.read, hw']
    rfl
  · obtain ⟨b, off, sym, len, g1, g2, g3, F, g4, g5, g6⟩ :=
      nested_lookup done hD [] [] (total esTop) (msbVal 15 s) (by omega) (by omega)
    have hsub : msbVal 15 s - total esTop
        = (msbVal 10 s - (flat 10 esTop).length) * 32 + msbVal 5 (s.drop 10) := by
      rw [hv, hTtot, Nat.sub_mul]; omega
    have hdiv : (msbVal 15 s - total esTop) / 32 = msbVal 10 s - (flat 10 esTop).length := by
      rw [hsub]; omega
    have hmod : (msbVal 15 s - total esTop) % 32 = msbVal 5 (s.drop 10) := by
      rw [hsub]; omega
    rw [hdiv] at g2
    rw [hmod] at g5
    have hE : (flat 10 esTop ++ nestedOf [] done).getD (msbVal 10 s) default
        = ⟨true, 2 ^ b - 1, off⟩ := by
      rw [List.getD_eq_getElem?_getD, getElem?_append_right (by omega), g2]; rfl
    have hw' : walk (msbVal 15 s) 0 (esTop ++ longOf done) = some (sym, len) := by
      rw [walk_skip _ _ _ _ (by omega), Nat.zero_add]; simpa using g3
    -- the chunk offset
    have hk : (peekPad 15 s >>> 10) &&& (2 ^ b - 1) = peekPad b (s.drop 10) := by
      rw [Nat.and_two_pow_sub_one_eq_mod, Nat.shiftRight_eq_div_pow, peekPad_div 10 15 s (by omega),
        peekPad_mod b 5 _ g1]
    have h5 : msbVal 5 (s.drop 10)
        = msbVal b (s.drop 10) * 2 ^ (5 - b) + msbVal (5 - b) ((s.drop 10).drop b) := by
      rw [← msbVal_add]; congr 1; omega
    have hr2 := msbVal_lt (5 - b) ((s.drop 10).drop b)
    have hu : 0 < 2 ^ (5 - b) := Nat.pos_of_ne_zero (by simp)
    have hdiv2 : msbVal 5 (s.drop 10) / 2 ^ (5 - b) = msbVal b (s.drop 10) := by
      rw [h5, Nat.add_comm, Nat.add_mul_div_right _ _ hu, Nat.div_eq_of_lt hr2]; simp
    rw [hdiv2] at g5
    have hsec : (secondOf done)[off + peekPad b (s.drop 10)]? = some ⟨false, len, sym⟩ := by
      have := g6 _ (peekPad_lt b (s.drop 10))
      rw [nil_append, revBits_peekPad, List.getD_eq_getElem?_getD, g5] at this
      exact this
    simp only [TableHist.read, hidx, hget, hE, hk, hsec, PrefixCode.read, hw']
    rfl

/-! ## `with_code_lengths` with second-level chunks -/

theorem entsOf_append (idx : Nat) (a b : List (List Nat)) :
    entsOf idx (a ++ b) = entsOf idx a ++ entsOf (idx + a.length) b := by
  induction a generalizing idx with
  | nil => simp [entsOf]
  | cons x r ih =>
    simp only [cons_append, entsOf, ih, length_cons, append_assoc]
    rw [show idx + 1 + r.length = idx + (r.length + 1) by omega]

theorem flat_total_lt (d : Nat) (b : Nat) (hd : d = 10 + b) (hb : b ≤ 5) (rem : List (Nat × Nat))
    (hR : ∀ e ∈ rem, e.2 ≤ d) (hL : (flat d rem).length < 2 ^ b) : total rem < 32 := by
  have := flat_length_mul d (by omega) rem hR
  rw [← this, show (32:Nat) = 2 ^ b * 2 ^ (15 - d) by
    rw [← Nat.pow_add, show b + (15 - d) = 5 by omega]]
  exact Nat.mul_lt_mul_of_pos_right hL (Nat.pos_of_ne_zero (by simp))

theorem flat_eq_nil (d : Nat) (rem : List (Nat × Nat)) : flat d rem = [] ↔ rem = [] := by
  cases rem with
  | nil => simp [flat]
  | cons e r =>
    simp only [flat, append_eq_nil_iff, replicate_eq_nil_iff, reduceCtorEq, iff_false, not_and]
    intro h; exact absurd h (by simp)

theorem withCodeLengths_long (lens : List Nat) (h15 : ∀ l ∈ lens, l ≤ 15)
    (hlen : 10 < (symsForLength lens).length) (hk : kraft lens ≤ 2 ^ 15) :
    (kraft lens = 2 ^ 15 → ∃ esTop done, (∀ e ∈ esTop, e.2 ≤ 10) ∧ (∀ c ∈ done, ChunkOk c) ∧
        (flat 10 esTop).length + done.length = 1024 ∧ sortedSyms lens = esTop ++ longOf done ∧
        withCodeLengths lens
          = .ok ⟨10, vecReverseBits (flat 10 esTop ++ nestedOf [] done), secondOf done⟩) ∧
    (kraft lens ≠ 2 ^ 15 → withCodeLengths lens = .error .invalidPrefixHistogram) := by
  have hl15 : (symsForLength lens).length ≤ 15 := sfl_length 15 lens 0 [] h15 (by simp)
  have hes := entsOf_symsForLength lens h15
  have hkr := total_sortedSyms lens h15
  generalize hsfl : symsForLength lens = sfl at *
  have htb : min sfl.length maxToplevelBits = 10 := by simp [maxToplevelBits]; omega
  have htl : (sfl.take 10).length = 10 := by simp; omega
  have hsplit : sortedSyms lens = entsOf 0 (sfl.take 10) ++ entsOf 10 (sfl.drop 10) := by
    rw [← hes]
    conv => lhs; rw [← List.take_append_drop 10 sfl]
    rw [entsOf_append, htl, Nat.zero_add]
  have hTop : ∀ e ∈ entsOf 0 (sfl.take 10), e.2 ≤ 10 := by
    intro e he; have := entsOf_le 0 _ e he; omega
  have hTtot : total (entsOf 0 (sfl.take 10)) = 32 * (flat 10 (entsOf 0 (sfl.take 10))).length := by
    have := flat_length_mul 10 (by omega) _ hTop
    omega
  rw [hsplit, total_append] at hkr
  have hk' : kraft lens ≤ 32768 := hk
  have htop := topLevels_ok 10 (sfl.take 10) 0 [] 1024 (by omega) (by omega)
  simp only [nil_append, length_nil, Nat.zero_add] at htop
  have inv0 : NInv (flat 10 (entsOf 0 (sfl.take 10))) 1024
      ⟨flat 10 (entsOf 0 (sfl.take 10))
          ++ replicate (1024 - (flat 10 (entsOf 0 (sfl.take 10))).length) default,
        (flat 10 (entsOf 0 (sfl.take 10))).length, [], []⟩ [] [] 0 :=
    ⟨by simp; omega, by simp [nestedOf], by simp, by simp [secondOf], by simp [flat],
      by simp, by simp, by simp [flat], by omega⟩
  obtain ⟨st', done, rem, b', g1, g2, g3, g4⟩ :=
    secondLevels_ok _ 1024 (sfl.drop 10) 10 _ [] [] 0 inv0 (by omega)
      (by simp; omega) (by simp [total]; omega)
  obtain ⟨entries', cb', second', chunk'⟩ := st'
  obtain ⟨hN, hE, hcb, hS, hC, hD, hR, hL, hB⟩ := g2
  simp only at hE hcb hS hC
  simp only [show longOf ([] : List Chunk) = [] from rfl, nil_append, length_nil, Nat.add_zero,
    total] at g3 g4
  have hremlt : total rem < 32 := flat_total_lt (10 + b') b' rfl hB rem hR hL
  have hwc : withCodeLengths lens =
      if (!chunk'.isEmpty) = true then .error .invalidPrefixHistogram
      else if cb' = 1024 then .ok ⟨10, vecReverseBits entries', second'⟩
      else .error .invalidPrefixHistogram := by
    unfold withCodeLengths
    simp only [hsfl, htb, htop, hlen, if_true, g1, Nat.reducePow]
    cases hce : chunk'.isEmpty <;> simp
  rw [hwc]
  refine ⟨fun hfull => ?_, fun hnot => ?_⟩
  · have hrem : rem = [] := by
      by_contra hne
      have := total_pos rem hne
      omega
    subst hrem
    have hcnt : (flat 10 (entsOf 0 (sfl.take 10))).length + done.length = 1024 := by
      simp only [total] at g4; omega
    refine ⟨_, done, hTop, hD, hcnt, ?_, ?_⟩
    · rw [hsplit]; simpa using g3.symm
    · simp [hC, flat, hcb, hcnt, hE, hS]
  · by_cases hrem : rem = []
    · subst hrem
      have hcnt : ¬ (flat 10 (entsOf 0 (sfl.take 10))).length + done.length = 1024 := by
        simp only [total] at g4
        intro h; apply hnot; omega
      simp [hC, flat, hcb, hcnt]
    · have : chunk' ≠ [] := by rw [hC]; exact fun h => hrem ((flat_eq_nil _ _).1 h)
      have : chunk'.isEmpty = false := by
        cases chunk' with
        | nil => exact absurd rfl this
        | cons _ _ => rfl
      simp [this]

/-- the three-part statement from the two outcomes of the construction -/
theorem table_eq_spec_of (lens : List Nat)
    (hfull : kraft lens = 2 ^ 15 → ∃ t0, withCodeLengths lens = .ok t0 ∧
      ∀ s, t0.read s = (PrefixCode.table (sortedSyms lens)).read s)
    (hnot : kraft lens ≠ 2 ^ 15 → withCodeLengths lens = .error .invalidPrefixHistogram) :
    ((∃ t, withCodeLengths lens = .ok t) ↔ ∃ c, PrefixCode.ofLengths lens = .ok c) ∧
    ((¬ ∃ t, withCodeLengths lens = .ok t) →
      withCodeLengths lens = .error .invalidPrefixHistogram ∧
      PrefixCode.ofLengths lens = .error .invalidPrefixHistogram) ∧
    ∀ t, withCodeLengths lens = .ok t →
      PrefixCode.ofLengths lens = .ok (.table (sortedSyms lens)) ∧
      ∀ s, t.read s = (PrefixCode.table (sortedSyms lens)).read s := by
  unfold PrefixCode.ofLengths
  by_cases hkk : kraft lens = 2 ^ 15
  · obtain ⟨t0, h0, hr⟩ := hfull hkk
    rw [h0, if_pos hkk]
    refine ⟨⟨fun _ => ⟨_, rfl⟩, fun _ => ⟨_, rfl⟩⟩, fun h => absurd ⟨_, rfl⟩ h, ?_⟩
    intro t ht
    cases ht
    exact ⟨rfl, hr⟩
  · rw [hnot hkk, if_neg hkk]
    refine ⟨⟨fun ⟨_, h⟩ => (by cases h), fun ⟨_, h⟩ => (by cases h)⟩, fun _ => ⟨rfl, rfl⟩, ?_⟩
    intro t ht; cases ht

/-- every length ≤ 15, Kraft sum ≤ 1: tables = Spec -/
theorem table_eq_spec (lens : List Nat) (h15 : ∀ l ∈ lens, l ≤ 15) (hk : kraft lens ≤ 2 ^ 15) :
    ((∃ t, withCodeLengths lens = .ok t) ↔ ∃ c, PrefixCode.ofLengths lens = .ok c) ∧
    ((¬ ∃ t, withCodeLengths lens = .ok t) →
      withCodeLengths lens = .error .invalidPrefixHistogram ∧
      PrefixCode.ofLengths lens = .error .invalidPrefixHistogram) ∧
    ∀ t, withCodeLengths lens = .ok t →
      PrefixCode.ofLengths lens = .ok (.table (sortedSyms lens)) ∧
      ∀ s, t.read s = (PrefixCode.table (sortedSyms lens)).read s := by
  by_cases hlen : (symsForLength lens).length ≤ 10
  · have hw := withCodeLengths_short lens h15 hlen hk
    have hle : ∀ e ∈ sortedSyms lens, e.2 ≤ (symsForLength lens).length := by
      rw [← entsOf_symsForLength lens h15]; intro e he; simpa using entsOf_le 0 _ e he
    apply table_eq_spec_of
    · intro hkk
      rw [if_pos hkk] at hw
      exact ⟨_, hw, fun s => read_toplevel _ (by omega) _ hle
        (by rw [total_sortedSyms lens h15]; exact hkk) [] s⟩
    · intro hkk; rw [if_neg hkk] at hw; exact hw
  · obtain ⟨hfull, hnot⟩ := withCodeLengths_long lens h15 (by omega) hk
    apply table_eq_spec_of _ _ hnot
    intro hkk
    obtain ⟨esTop, done, hTop, hD, hcnt, hsplit, hw⟩ := hfull hkk
    exact ⟨_, hw, fun s => by rw [hsplit]; exact read_nested esTop hTop done hD hcnt s⟩

end Jxl.Entropy
