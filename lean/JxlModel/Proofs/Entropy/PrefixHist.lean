import JxlModel.Proofs.Entropy.PrefixSimple
import JxlModel.Proofs.Entropy.HeaderComp
/-! Every prefix-code histogram header the encoder writes for a code that passes its Boolean
check (`codeOk`) is read back as the code the spec denotes. -/
namespace Jxl.Entropy
open Jxl Jxl.Enc

theorem codeOfLens_eq (lens : List Nat) :
    codeOfLens lens = match usedL lens with
      | [(_, s)] => .single s
      | _ => .table (sortedSyms lens) := by rfl

/-- a one-symbol shape means the zero-bit code -/
theorem shape_len1 (lens syms : List Nat) (sel : Option Bool)
    (h : simpleShape lens = some (syms, sel)) (h1 : syms.length = 1) :
    ∃ l s, usedL lens = [(l, s)] := by
  rw [simpleShape_eq] at h
  split at h
  · rename_i hu
    obtain ⟨⟨l, s⟩, hu⟩ := List.length_eq_one_iff.1 hu
    exact ⟨l, s, hu⟩
  · split at h
    · rename_i hw
      simp only [Option.some.injEq, Prod.mk.injEq] at h
      obtain ⟨rfl, _⟩ := h
      omega
    · cases h
  · split at h
    · rename_i hw
      simp only [Option.some.injEq, Prod.mk.injEq] at h
      obtain ⟨rfl, _⟩ := h
      rw [List.length_append] at h1
      omega
    · cases h
  · split at h
    · rename_i hw
      simp only [Option.some.injEq, Prod.mk.injEq] at h
      obtain ⟨rfl, _⟩ := h
      omega
    · split at h
      · rename_i hw
        simp only [Option.some.injEq, Prod.mk.injEq] at h
        obtain ⟨rfl, _⟩ := h
        simp only [List.length_append] at h1
        omega
      · cases h
  · cases h

/-- **Prefix histogram header round trip, per code.** -/
theorem prefix_histogram_rt (count : Nat) (lens : List Nat) (form : PrefixForm) (tokens : List Nat)
    (h : codeOk .prefix tokens (.lengths count lens form) = true) (rest : Bits) :
    parsePrefix count (writePrefix count lens form ++ rest)
      = .ok ((CodeSpec.lengths count lens form).prefixCode, rest) := by
  simp only [codeOk, Bool.and_eq_true, decide_eq_true_eq, beq_iff_eq, List.all_eq_true] at h
  obtain ⟨⟨⟨⟨⟨_, hc1⟩, hc15⟩, hlen⟩, h15⟩, hrest⟩ := h
  by_cases hone : count = 1
  · subst hone
    simp [writePrefix, parsePrefix, CodeSpec.prefixCode]
  · have h2 : 2 ≤ count := by omega
    rw [if_neg hone] at hrest
    have hpc : (CodeSpec.lengths count lens form).prefixCode = codeOfLens lens := by
      simp only [CodeSpec.prefixCode]; rw [if_neg (by omega)]
    rw [hpc]
    cases hcode : codeOfLens lens with
    | single s =>
      rw [codeOfLens_eq] at hcode
      split at hcode
      · rename_i l0 s' hu
        cases hcode
        have hmem : (l0, s) ∈ usedL lens := by rw [hu]; simp
        have hs := (usedL_getD lens l0 s hmem).2.2
        have := prefix_single_rt count lens form l0 s hc1 hc15 (by omega) hu (by omega) rest
        rw [hpc, codeOfLens_eq, hu] at this
        exact this
      · cases hcode
    | table es =>
      rw [hcode] at hrest
      simp only [Bool.and_eq_true, beq_iff_eq] at hrest
      have hk : kraft lens = 2 ^ 15 := hrest.1
      have hes : es = sortedSyms lens := by
        rw [codeOfLens_eq] at hcode
        split at hcode
        · cases hcode
        · cases hcode; rfl
      subst hes
      have h15' : ∀ l ∈ lens, l ≤ 15 := fun l hl => by simpa using h15 l hl
      have hnot1 : ∀ syms sel, simpleShape lens = some (syms, sel) → syms.length ≠ 1 := by
        intro syms sel hs h1
        obtain ⟨l, s, hu⟩ := shape_len1 lens syms sel hs h1
        rw [codeOfLens_eq, hu] at hcode
        cases hcode
      unfold writePrefix
      rw [if_neg (by omega)]
      split
      · rename_i rle hsk s x hs
        exact absurd rfl (hnot1 [s] x hs)
      · exact parsePrefix_complex count lens _ _ h2 hc15 hlen h15' hk rest
      · exact parsePrefix_simple count lens _ _ h2 hc15 hlen hk (by assumption)
          (hnot1 _ _ (by assumption)) rest
      · exact parsePrefix_complex count lens _ _ h2 hc15 hlen h15' hk rest

end Jxl.Entropy
