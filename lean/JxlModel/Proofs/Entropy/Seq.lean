import Mathlib.Tactic.Ring
import Mathlib.Tactic.Linarith
import JxlModel.Model.Entropy.Decoder
import JxlModel.Model.Enc.EntropyEnc
import JxlModel.Proofs.Entropy.Reader
import JxlModel.Proofs.Entropy.Hybrid
import JxlModel.Proofs.Entropy.Prefix
import JxlModel.Proofs.Entropy.AnsStep
/-! The symbol layer: decoding pops the tokens that `encodeToksPrefix` / `encodeToksAns` wrote,
one at a time, for both coders; on top of it literal sequences (`Decoder.readSeq`). -/
namespace Jxl.Entropy
open Jxl Jxl.Enc

/-- a prefix code can encode `sym` (Spec level): the zero-bit code of that symbol, or a canonical
table from a length vector with lengths ≤ 15, Kraft sum ≤ 1 and a non-zero length for `sym` -/
def PrefixSymOK (c : PrefixCode) (sym : Nat) : Prop :=
  c = .single sym ∨
  ∃ lens : List Nat, c = .table (sortedSyms lens) ∧ (∀ l ∈ lens, l ≤ 15) ∧ kraft lens ≤ 2 ^ 15 ∧
    lens.getD sym 0 ≠ 0

theorem prefix_pop (c : PrefixCode) (sym : Nat) (h : PrefixSymOK c sym) (rest : Bits) :
    c.read (c.encode sym ++ rest) = .ok (sym, rest) := by
  rcases h with rfl | ⟨lens, rfl, hle, hk, hu⟩
  · simp [PrefixCode.read, PrefixCode.encode]
  · exact (prefix_read_encode lens hle hk sym hu rest).1

/-- an ANS histogram can encode `sym`: positive probability, and the alias map reaches every
offset of the symbol (this is what `C04_alias_bijection` provides) -/
def AnsSymOK (h : AnsHist) (sym : Nat) : Prop :=
  0 < symDist h sym ∧ symDist h sym ≤ 4096 ∧
  ∀ k, k < symDist h sym → ∃ idx, idx < 4096 ∧ h.lookup idx = (sym, k, symDist h sym)

theorem find_some_of_exists (p : Nat → Bool) (n : Nat) (h : ∃ i, i < n ∧ p i = true) :
    ∃ j, (List.range n).find? p = some j ∧ j < n ∧ p j = true := by
  obtain ⟨i, hi, hp⟩ := h
  cases hf : (List.range n).find? p with
  | none =>
    rw [List.find?_eq_none] at hf
    have := hf i (List.mem_range.2 hi)
    simp [hp] at this
  | some j =>
    refine ⟨j, rfl, ?_, List.find?_some hf⟩
    exact List.mem_range.1 (List.mem_of_find?_eq_some hf)

/-- the checked inverse is a right inverse of the alias map wherever one exists -/
theorem aliasInv_spec (h : AnsHist) (rev : Array (Array Nat)) (sym : Nat) (hs : AnsSymOK h sym)
    (k : Nat) (hk : k < symDist h sym) :
    h.lookup (aliasInv h rev sym k) = (sym, k, symDist h sym) ∧ aliasInv h rev sym k < 4096 := by
  obtain ⟨_, _, hex⟩ := hs
  obtain ⟨idx, hidx, hl⟩ := hex k hk
  unfold aliasInv
  simp only
  split
  · rename_i hc
    obtain ⟨hc1, hc2⟩ := hc
    simp only [decide_eq_true_eq] at hc2
    exact ⟨hc2, hc1⟩
  · obtain ⟨j, hj, hj1, hj2⟩ := find_some_of_exists
      (fun idx => decide (h.lookup idx = (sym, k, symDist h sym))) 4096 ⟨idx, hidx, by simpa using hl⟩
    rw [hj]
    simp only [Option.getD_some]
    exact ⟨by simpa using hj2, hj1⟩

/-! ## ANS token streams -/

/-- tokens an ANS decoder `hs` can carry -/
def AnsToksOK (hs : List AnsHist) (ts : List Tok) : Prop :=
  ∀ t ∈ ts, AnsSymOK (hs.getD t.cluster default) t.sym

theorem ans_state_range (hs : List AnsHist) (revs : List (Array (Array Nat))) (ts : List Tok)
    (hok : AnsToksOK hs ts) :
    2 ^ 16 ≤ (encodeToksAns hs revs ts).1 ∧ (encodeToksAns hs revs ts).1 < 2 ^ 32 := by
  induction ts with
  | nil => simp [encodeToksAns, ansFinalState]
  | cons t r ih =>
    have hr := ih (fun t' ht' => hok t' (by simp [ht']))
    have ht := hok t (by simp)
    obtain ⟨hD, hD', _⟩ := ht
    simp only [encodeToksAns]
    have hne : symDist (hs.getD t.cluster default) t.sym ≠ 0 := by omega
    simp only [hne, if_false]
    have := ans_step_inv (hs.getD t.cluster default) t.sym _ _ hD hD'
      (aliasInv_spec _ (revs.getD t.cluster #[]) t.sym (hok t (by simp)))
      (encodeToksAns hs revs r).1 hr.1 hr.2 []
    exact ⟨this.1, this.2.1⟩

/-- **pop (ANS)**: one `read_symbol` on the stream of `t :: r` returns `t.sym`, leaves the decoder
in the state the stream of `r` starts from, and the stream positioned at `t.extra` -/
theorem ans_pop (hs : List AnsHist) (revs : List (Array (Array Nat))) (t : Tok) (r : List Tok)
    (hok : AnsToksOK hs (t :: r)) (rest : Bits) :
    (hs.getD t.cluster default).readSymbol (encodeToksAns hs revs (t :: r)).1
        ((encodeToksAns hs revs (t :: r)).2 ++ rest)
      = .ok ((t.sym, (encodeToksAns hs revs r).1),
             t.extra ++ ((encodeToksAns hs revs r).2 ++ rest)) := by
  have hr := ans_state_range hs revs r (fun t' ht' => hok t' (by simp [ht']))
  have ht := hok t (by simp)
  obtain ⟨hD, hD', _⟩ := ht
  simp only [encodeToksAns]
  have hne : symDist (hs.getD t.cluster default) t.sym ≠ 0 := by omega
  simp only [hne, if_false]
  have := ans_step_inv (hs.getD t.cluster default) t.sym _ _ hD hD'
    (aliasInv_spec _ (revs.getD t.cluster #[]) t.sym (hok t (by simp)))
    (encodeToksAns hs revs r).1 hr.1 hr.2 (t.extra ++ ((encodeToksAns hs revs r).2 ++ rest))
  simp only [List.append_assoc]
  exact this.2.2

/-! ## both coders at once -/

/-- start state and bits of a token list under plan `p` -/
def streamOf (p : EntropyPlan) (ts : List Tok) : Nat × Bits :=
  match p.coder with
  | .prefix => (0, encodeToksPrefix (p.codes.map CodeSpec.prefixCode) ts)
  | .ans la =>
    encodeToksAns (p.codes.map (CodeSpec.ansHist la))
      ((p.codes.map (CodeSpec.ansHist la)).map fun h => buildRev h (2 ^ la)) ts

theorem encodeToks_eq (p : EntropyPlan) (ts : List Tok) :
    encodeToks p ts = match p.coder with
      | .prefix => (streamOf p ts).2
      | .ans _ => toBits 32 (streamOf p ts).1 ++ (streamOf p ts).2 := by
  unfold encodeToks streamOf
  cases p.coder <;> rfl

/-- every token is encodable by the plan's code for its cluster -/
def ToksOK (p : EntropyPlan) (ts : List Tok) : Prop :=
  match p.coder with
  | .prefix => ∀ t ∈ ts, PrefixSymOK ((p.codes.map CodeSpec.prefixCode).getD t.cluster default) t.sym
  | .ans la => AnsToksOK (p.codes.map (CodeSpec.ansHist la)) ts

theorem ToksOK.tail {p : EntropyPlan} {t : Tok} {r : List Tok} (h : ToksOK p (t :: r)) : ToksOK p r := by
  unfold ToksOK at *
  cases hc : p.coder with
  | «prefix» => rw [hc] at h; exact fun t' ht' => h t' (by simp [ht'])
  | ans la => rw [hc] at h; exact fun t' ht' => h t' (by simp [ht'])

theorem ToksOK.append {p : EntropyPlan} {a b : List Tok} (ha : ToksOK p a) (hb : ToksOK p b) :
    ToksOK p (a ++ b) := by
  unfold ToksOK AnsToksOK at *
  cases hc : p.coder with
  | «prefix» =>
    rw [hc] at ha hb
    intro t ht
    rcases List.mem_append.1 ht with h | h
    · exact ha t h
    · exact hb t h
  | ans la =>
    rw [hc] at ha hb
    intro t ht
    rcases List.mem_append.1 ht with h | h
    · exact ha t h
    · exact hb t h

/-- the decoder's ANS state is where the stream of `ts` starts (nothing to say for prefix codes) -/
def StateAt (p : EntropyPlan) (ts : List Tok) (st : DState) : Prop :=
  match p.coder with
  | .prefix => True
  | .ans _ => st.initial = false ∧ st.ansState = (streamOf p ts).1

/-- **pop**: on the stream of `t :: r`, `read_symbol(t.cluster)` returns `t.sym`, leaves the
stream at `t.extra ++ stream r`, and changes nothing but the ANS state -/
theorem pop (p : EntropyPlan) (t : Tok) (r : List Tok) (hok : ToksOK p (t :: r)) (st : DState)
    (hst : StateAt p (t :: r) st) (rest : Bits) :
    ∃ x, (planDecoder p).readSymbol st t.cluster ((streamOf p (t :: r)).2 ++ rest)
        = .ok ((t.sym, { st with ansState := x }), t.extra ++ ((streamOf p r).2 ++ rest)) ∧
      StateAt p r { st with ansState := x } := by
  unfold ToksOK at hok
  unfold StateAt at hst ⊢
  unfold Decoder.readSymbol planDecoder planCode streamOf at *
  cases hc : p.coder with
  | «prefix» =>
    rw [hc] at hok
    simp only [hc] at hst ⊢
    refine ⟨st.ansState, ?_, trivial⟩
    simp only [encodeToksPrefix, List.append_assoc]
    rw [prefix_pop _ _ (hok t (by simp))]
  | ans la =>
    rw [hc] at hok
    simp only [hc] at hst ⊢
    obtain ⟨hi, hx⟩ := hst
    refine ⟨(encodeToksAns (p.codes.map (CodeSpec.ansHist la))
      ((p.codes.map (CodeSpec.ansHist la)).map fun h => buildRev h (2 ^ la)) r).1, ?_, ⟨hi, rfl⟩⟩
    simp only [hi, Bool.false_eq_true, if_false]
    rw [hx, ans_pop _ _ t r hok rest]

end Jxl.Entropy
