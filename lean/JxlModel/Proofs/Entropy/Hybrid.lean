import Mathlib.Tactic.Ring
import Mathlib.Tactic.Linarith
import JxlModel.Model.Entropy.Hybrid
import JxlModel.Proofs.Entropy.Reader
/-! Hybrid unsigned integers: `readUint` inverts `splitUint`; `IntegerConfig` parse/write. -/
namespace Jxl.Entropy
open Jxl

theorem log2_spec (v : Nat) (hv : v ≠ 0) : 2 ^ Nat.log2 v ≤ v ∧ v < 2 ^ (Nat.log2 v + 1) :=
  ⟨Nat.log2_self_le hv, Nat.lt_log2_self⟩

/-- three-way split of `m < A*B*C` into `hi·(A·B) + mid·A + lo` -/
theorem split3 (A B C m : Nat) (hA : 0 < A) (hB : 0 < B) (hm : m < A * B * C) :
    m = (m / (A * B)) * (A * B) + (m / A % B) * A + m % A ∧ m / (A * B) < C ∧ m / A % B < B ∧ m % A < A := by
  refine ⟨?_, ?_, Nat.mod_lt _ hB, Nat.mod_lt _ hA⟩
  · have h1 : m = A * (m / A) + m % A := (Nat.div_add_mod m A).symm
    have h2 : m / A = B * (m / A / B) + m / A % B := (Nat.div_add_mod (m / A) B).symm
    have h3 : m / A / B = m / (A * B) := Nat.div_div_eq_div_mul m A B
    rw [h3] at h2
    calc m = A * (m / A) + m % A := h1
      _ = A * (B * (m / (A * B)) + m / A % B) + m % A := by rw [← h2]
      _ = (m / (A * B)) * (A * B) + (m / A % B) * A + m % A := by
        rw [Nat.mul_add, ← Nat.mul_assoc, Nat.mul_comm (A * B), Nat.mul_comm A (m / A % B)]
  · rw [Nat.div_lt_iff_lt_mul (Nat.mul_pos hA hB)]
    rw [Nat.mul_comm C]; exact hm

/-- arithmetic core of the round trip, with the powers of two abstracted:
`A = 2^lsb`, `B = 2^nbits`, `C = 2^msb`, `S = 2^se = s'·A·C`, `k = n - se`. -/
theorem uint_core (A B C s' k hi mid lo : Nat) (hA : 0 < A) (hC : 0 < C)
    (hhi : hi < C) (hlo : lo < A) :
    let token := s' * (A * C) + k * (A * C) + hi * A + lo
    token % A = lo ∧ token / A % C = hi ∧ (token - s' * (A * C)) / (A * C) = k := by
  intro token
  have e1 : token = A * (C * (s' + k) + hi) + lo := by
    show s' * (A * C) + k * (A * C) + hi * A + lo = _
    ring
  refine ⟨?_, ?_, ?_⟩
  · rw [e1, Nat.mul_add_mod]; exact Nat.mod_eq_of_lt hlo
  · rw [e1, Nat.mul_add_div hA, Nat.div_eq_of_lt hlo, Nat.add_zero, Nat.mul_add_mod]
    exact Nat.mod_eq_of_lt hhi
  · have e2 : token - s' * (A * C) = (A * C) * k + (hi * A + lo) := by
      show s' * (A * C) + k * (A * C) + hi * A + lo - s' * (A * C) = _
      rw [Nat.mul_comm (A * C) k]; omega
    have hlt : hi * A + lo < A * C := by
      calc hi * A + lo < hi * A + A := by omega
        _ = (hi + 1) * A := by rw [Nat.add_mul, Nat.one_mul]
        _ ≤ C * A := Nat.mul_le_mul_right A hhi
        _ = A * C := Nat.mul_comm C A
    rw [e2, Nat.mul_add_div (Nat.mul_pos hA hC), Nat.div_eq_of_lt hlt, Nat.add_zero]

theorem readUint_splitUint (c : IntegerConfig) (hc : c.msbInToken + c.lsbInToken ≤ c.splitExponent)
    (v : Nat) (hv : v < 2 ^ 32) (rest : Bits) :
    readUint c (tokenOf c v) (uintBits c v ++ rest) = .ok (v, rest) := by
  obtain ⟨se, msb, lsb⟩ := c
  simp only at hc
  unfold tokenOf uintBits splitUint readUint IntegerConfig.split
  simp only
  by_cases hlt : v < 2 ^ se
  · simp [hlt, toBits]
  · simp only [hlt, if_false]
    have hv0 : v ≠ 0 := by
      intro h; subst h
      exact hlt (Nat.pos_of_ne_zero (by simp))
    obtain ⟨hlo2, hhi2⟩ := log2_spec v hv0
    generalize Nat.log2 v = n at *
    have hn_se : se ≤ n := by
      rcases Nat.lt_or_ge n se with h | h
      · exfalso
        have : 2 ^ (n + 1) ≤ 2 ^ se := Nat.pow_le_pow_right (by omega) h
        omega
      · exact h
    have hn31 : n < 32 := by
      rcases Nat.lt_or_ge n 32 with h | h
      · exact h
      · exfalso
        have : 2 ^ 32 ≤ 2 ^ n := Nat.pow_le_pow_right (by omega) h
        omega
    -- abbreviations
    have hnb : n - (msb + lsb) + lsb + msb = n := by omega
    have pA : 0 < 2 ^ lsb := Nat.pos_of_ne_zero (by simp)
    have pB : 0 < 2 ^ (n - (msb + lsb)) := Nat.pos_of_ne_zero (by simp)
    have pC : 0 < 2 ^ msb := Nat.pos_of_ne_zero (by simp)
    have e_n : 2 ^ n = 2 ^ lsb * 2 ^ (n - (msb + lsb)) * 2 ^ msb := by
      rw [← Nat.pow_add, ← Nat.pow_add]; congr 1; omega
    have e_nm : 2 ^ (n - msb) = 2 ^ lsb * 2 ^ (n - (msb + lsb)) := by
      rw [← Nat.pow_add]; congr 1; omega
    have e_ml : 2 ^ (msb + lsb) = 2 ^ lsb * 2 ^ msb := by
      rw [← Nat.pow_add]; congr 1; omega
    have e_se : 2 ^ se = 2 ^ (se - (msb + lsb)) * (2 ^ lsb * 2 ^ msb) := by
      rw [← Nat.pow_add, ← Nat.pow_add]; congr 1; omega
    have hm : v - 2 ^ n < 2 ^ lsb * 2 ^ (n - (msb + lsb)) * 2 ^ msb := by
      rw [← e_n]; rw [Nat.pow_succ] at hhi2; omega
    obtain ⟨hsplit, hhi, hmid, hlo⟩ := split3 _ _ _ (v - 2 ^ n) pA pB hm
    simp only [Nat.shiftRight_eq_div_pow]
    rw [e_nm, e_ml]
    generalize hHI : (v - 2 ^ n) / (2 ^ lsb * 2 ^ (n - (msb + lsb))) = hi at *
    generalize hMID : (v - 2 ^ n) / 2 ^ lsb % 2 ^ (n - (msb + lsb)) = mid at *
    generalize hLO : (v - 2 ^ n) % 2 ^ lsb = lo at *
    obtain ⟨c1, c2, c3⟩ := uint_core (2 ^ lsb) (2 ^ (n - (msb + lsb))) (2 ^ msb)
      (2 ^ (se - (msb + lsb))) (n - se) hi mid lo pA pC hhi hlo
    rw [← e_se] at c1 c2 c3
    have htok_ge : ¬ (2 ^ se + (n - se) * (2 ^ lsb * 2 ^ msb) + hi * 2 ^ lsb + lo < 2 ^ se) := by omega
    simp only [htok_ge, if_false]
    rw [c3, c1, c2]
    have hnn : (se - (msb + lsb) + (n - se)) % 32 = n - (msb + lsb) := by
      have : se - (msb + lsb) + (n - se) = n - (msb + lsb) := by omega
      rw [this]; exact Nat.mod_eq_of_lt (by omega)
    rw [hnn]
    rw [dropChk_append _ _ _ (toBits_length _ _), peekPad_append _ _ _ (toBits_length _ _),
      ofBits_toBits _ _ hmid]
    simp only
    congr 1
    -- ((hi + C) * B + mid) * A + lo = v
    have : ((hi + 2 ^ msb) * 2 ^ (n - (msb + lsb)) + mid) * 2 ^ lsb + lo = v := by
      have e1 : ((hi + 2 ^ msb) * 2 ^ (n - (msb + lsb)) + mid) * 2 ^ lsb + lo
          = hi * (2 ^ lsb * 2 ^ (n - (msb + lsb))) + mid * 2 ^ lsb + lo
            + 2 ^ lsb * 2 ^ (n - (msb + lsb)) * 2 ^ msb := by ring
      rw [e1, ← hsplit, ← e_n]; omega
    rw [this, Nat.mod_eq_of_lt hv]

/-- number of extra bits the encoder emits for `v` -/
theorem uintBits_length (c : IntegerConfig) (v : Nat) :
    (uintBits c v).length = (splitUint c v).2.1 := by
  unfold uintBits
  simp [toBits_length]

/-! ## IntegerConfig header -/

/-- writer for `IntegerConfig::parse` (the encoder's `writeConfig`, restated here to keep this file
independent of the encoder) -/
def writeConfigSpec (la : Nat) (c : IntegerConfig) : Bits :=
  toBits (addLog2Ceil la) c.splitExponent ++
  (if c.splitExponent ≠ la then
     toBits (addLog2Ceil c.splitExponent) c.msbInToken ++
     toBits (addLog2Ceil (c.splitExponent - c.msbInToken)) c.lsbInToken
   else [])

theorem clog2_go_spec (f k n : Nat) (hf : n ≤ 2 ^ (k + f)) : n ≤ 2 ^ (clog2.go f k n) := by
  induction f generalizing k with
  | zero => simpa [clog2.go] using hf
  | succ f ih =>
    unfold clog2.go
    split
    · assumption
    · apply ih; rw [show k + 1 + f = k + (f + 1) by omega]; exact hf

/-- `x < 2^(addLog2Ceil x)` for `x < 2^32`: a field of that width holds `x` -/
theorem lt_pow_addLog2Ceil (x : Nat) (hx : x < 2 ^ 32) : x < 2 ^ addLog2Ceil x := by
  unfold addLog2Ceil clog2
  have := clog2_go_spec 33 0 (x + 1) (by simp; omega)
  omega

theorem le_lt_pow_addLog2Ceil (x y : Nat) (hy : y < 2 ^ 32) (h : x ≤ y) : x < 2 ^ addLog2Ceil y :=
  Nat.lt_of_le_of_lt h (lt_pow_addLog2Ceil y hy)

theorem integerConfig_roundtrip (la : Nat) (hla : la < 2 ^ 32) (c : IntegerConfig)
    (hv : c.valid la = true) (rest : Bits) :
    IntegerConfig.parse la (writeConfigSpec la c ++ rest) = .ok (c, rest) := by
  obtain ⟨se, msb, lsb⟩ := c
  simp only [IntegerConfig.valid, Bool.and_eq_true, decide_eq_true_eq] at hv
  obtain ⟨hse, hrest⟩ := hv
  unfold IntegerConfig.parse writeConfigSpec
  simp only [List.append_assoc]
  rw [rbits_toBits _ _ _ (le_lt_pow_addLog2Ceil se la hla hse)]
  simp only
  by_cases heq : se = la
  · subst heq
    simp at hrest
    simp [hrest.1, hrest.2]
  · have hne : (se == la) = false := by simpa using heq
    simp only [hne] at hrest
    simp at hrest
    have hse32 : se < 2 ^ 32 := by omega
    simp only [ne_eq, heq, not_false_eq_true, if_true, List.append_assoc]
    rw [rbits_toBits _ _ _ (le_lt_pow_addLog2Ceil msb se hse32 (by omega))]
    simp only
    have h1 : ¬ msb > se := by omega
    simp only [h1, if_false]
    rw [rbits_toBits _ _ _ (le_lt_pow_addLog2Ceil lsb (se - msb) (by omega) (by omega))]
    simp only
    have h2 : ¬ lsb + msb > se := by omega
    simp [h2]

end Jxl.Entropy
