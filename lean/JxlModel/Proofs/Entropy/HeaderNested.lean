import JxlModel.Proofs.Entropy.HeaderComp
/-! Header composition including the entropy-coded cluster map (nested decoder, optional
move-to-front), by induction on the nesting depth. -/
namespace Jxl.Entropy
open List Jxl Jxl.Enc

/-- per-histogram round trips for a plan and the plans nested in its cluster map -/
def HistRTD : Nat → EntropyPlan → Prop
  | 0, p => HistRT p
  | d+1, p => HistRT p ∧ (match p.clusterInner with | some (_, ip) => HistRTD d ip | none => True)

/-- well-formedness of a plan including its nested cluster-map plans -/
def HeaderOKD : Nat → EntropyPlan → Prop
  | 0, p => HeaderOK p
  | d+1, p =>
    (p.configs.length = p.numClusters ∧ p.codes.length = p.numClusters) ∧
    p.clusterMap.length = p.totalDist ∧
    (∀ c ∈ p.configs, c.valid p.logAlpha = true) ∧
    (match p.coder with | .prefix => True | .ans la => 5 ≤ la ∧ la ≤ 8) ∧
    (∀ q, p.lz77 = some q →
      (q.minSymbol = 224 ∨ q.minSymbol = 512 ∨ q.minSymbol = 4096 ∨
        (8 ≤ q.minSymbol ∧ q.minSymbol < 8 + 2 ^ 15)) ∧
      (3 ≤ q.minLength ∧ q.minLength ≤ 264) ∧ q.lenConf.valid 8 = true) ∧
    (∀ k, k < p.numClusters → k ∈ p.clusterMap) ∧
    (match p.clusterInner with
     | none => if p.totalDist = 1 then p.clusterMap = [0]
               else p.clusterNbits ≤ 3 ∧ ∀ x ∈ p.clusterMap, x < 2 ^ p.clusterNbits
     | some (mtf, ip) =>
       if p.totalDist = 1 then p.clusterMap = [0]
       else ip.numDist = 1 ∧ (p.totalDist > 2 ∨ ip.lz77 = none) ∧ (∀ x ∈ p.clusterMap, x < 256) ∧
         HeaderOKD d ip ∧
         ip.check ((clusterIds mtf p.clusterMap).map fun v => Item.lit 0 v) = true)

/-- stream round trip from the Boolean check (same statement as `C04_entropy_roundtrip_checked`) -/
theorem C04_stream (p : EntropyPlan) (mult : Nat) (items : List Item)
    (ctxs : List Nat) (rest : Bits) (hctx : CtxsFor items ctxs) (h : p.check items = true)
    (hlen : ∀ i ∈ items, match i with | .copy _ len _ => len < 2 ^ 32 | .lit _ _ => True) :
    ∃ st0 s0 st1,
      (planDecoder p).begin {} (encodeItems p items ++ rest) = .ok (st0, s0) ∧
      (planDecoder p).readSeq mult ctxs st0 s0 = .ok ((expandItems mult items, st1), rest) ∧
      (planDecoder p).finalize st1 = .ok () := by
  cases hlz : p.lz77 with
  | some lz => exact check_roundtrip_lz p lz hlz mult items ctxs rest hctx h hlen
  | none =>
    have f := checkFacts p items h
    have hall : ∀ i ∈ items, ∃ c v, i = .lit c v := by
      intro i hi
      have := f.itemsNoLz hlz i hi
      cases i with
      | lit c v => exact ⟨c, v, rfl⟩
      | copy c len dc => exact absurd this id
    have hsyms : ∃ syms : List (Nat × Nat), items = syms.map fun (c, v) => Item.lit c v := by
      clear hctx h hlen f
      induction items with
      | nil => exact ⟨[], rfl⟩
      | cons i r ih =>
        obtain ⟨c, v, rfl⟩ := hall i (by simp)
        obtain ⟨syms, rfl⟩ := ih (fun j hj => hall j (by simp [hj]))
        exact ⟨(c, v) :: syms, rfl⟩
    obtain ⟨syms, rfl⟩ := hsyms
    have hc : ctxs = syms.map (·.1) := by
      clear h hlen f hall
      induction syms generalizing ctxs with
      | nil => simpa [CtxsFor] using hctx
      | cons cv r ih =>
        obtain ⟨c, v⟩ := cv
        obtain ⟨cs', rfl, hr⟩ := hctx
        rw [ih cs' hr]; rfl
    subst hc
    have := check_roundtrip_plain p hlz mult syms rest h
    rw [← decodeVals_eq_expand, decodeVals_lits]
    exact this

theorem readClusterIds_of_readSeq (d : Decoder) (n : Nat) (st : DState) (s : Bits) (vs : List Nat)
    (st1 : DState) (s1 : Bits)
    (h : d.readSeq 0 (List.replicate n 0) st s = .ok ((vs, st1), s1)) (hlt : ∀ v ∈ vs, v < 256) :
    readClusterIds d n st s = .ok ((vs, st1), s1) := by
  induction n generalizing st s vs with
  | zero =>
    simp only [List.replicate_zero, Decoder.readSeq] at h
    cases h; rfl
  | succ n ih =>
    rw [List.replicate_succ, readSeq_cons] at h
    simp only [readClusterIds]
    cases hv : d.readVarint st 0 0 s with
    | error e => rw [hv] at h; cases h
    | ok r =>
      obtain ⟨⟨v, stv⟩, sv⟩ := r
      rw [hv] at h
      simp only at h ⊢
      cases hr : d.readSeq 0 (List.replicate n 0) stv sv with
      | error e => rw [hr] at h; cases h
      | ok r2 =>
        obtain ⟨⟨vs', st2⟩, s2⟩ := r2
        rw [hr] at h
        simp only at h
        cases h
        have hv256 : ¬ v ≥ 256 := by have := hlt v (by simp); omega
        simp only [hv256, if_false]
        rw [ih stv sv vs' hr (fun x hx => hlt x (by simp [hx]))]

theorem ctxsFor_lits (ids : List Nat) :
    CtxsFor (ids.map fun v => Item.lit 0 v) (List.replicate ids.length 0) := by
  induction ids with
  | nil => rfl
  | cons a r ih => exact ⟨_, rfl, ih⟩

theorem clusterIds_lt (mtf : Bool) (cm : List Nat) (h : ∀ x ∈ cm, x < 256) :
    ∀ x ∈ clusterIds mtf cm, x < 256 := by
  unfold clusterIds
  cases mtf with
  | false => simpa using h
  | true =>
    simp only [if_true]
    have := mtf_encode_lt_from (List.range 256) cm (fun x hx => List.mem_range.2 (h x hx))
    unfold mtfEncode
    simpa using this

theorem clusterIds_decode (mtf : Bool) (cm : List Nat) (h : ∀ x ∈ cm, x < 256) :
    (if mtf = true then mtfDecode (clusterIds mtf cm) else clusterIds mtf cm) = cm := by
  unfold clusterIds
  cases mtf with
  | false => rfl
  | true => simp only [if_true]; exact mtf_decode_encode cm h

theorem clusterIds_length (mtf : Bool) (cm : List Nat) : (clusterIds mtf cm).length = cm.length := by
  unfold clusterIds
  cases mtf with
  | false => rfl
  | true =>
    simp only [if_true]
    unfold mtfEncode
    generalize List.range 256 = tbl
    induction cm generalizing tbl with
    | nil => rfl
    | cons a r ih => simp [mtfEncodeFrom, ih]

/-- the LZ77 field, for both `Decoder::parse` and `parse_assume_no_lz77` -/
theorem lzPart (allowLz : Bool) (lz : Option Lz77Params) (hno : allowLz = false → lz = none)
    (oklz : ∀ q, lz = some q →
      (q.minSymbol = 224 ∨ q.minSymbol = 512 ∨ q.minSymbol = 4096 ∨
        (8 ≤ q.minSymbol ∧ q.minSymbol < 8 + 2 ^ 15)) ∧
      (3 ≤ q.minLength ∧ q.minLength ≤ 264) ∧ q.lenConf.valid 8 = true) (tail : Bits) :
    parseLzField allowLz (writeLz77 lz ++ tail) = .ok (lz, tail) := by
  unfold parseLzField
  cases allowLz with
  | true =>
    simp only [if_true]
    cases h : lz with
    | none => exact parseLz77_none _
    | some q =>
      obtain ⟨h1, h2, h3⟩ := oklz q h
      exact parseLz77_some q h1 h2 h3 _
  | false =>
    have := hno rfl
    subst this
    rfl

/-- simple / trivial cluster map, any nesting depth -/
theorem readClusters_plain (p : EntropyPlan) (fuel depth : Nat) (tail : Bits)
    (hin : p.clusterInner = none ∨ p.totalDist = 1)
    (hcm : p.clusterMap.length = p.totalDist)
    (hnoHole : ∀ k, k < p.numClusters → k ∈ p.clusterMap)
    (hs : if p.totalDist = 1 then p.clusterMap = [0]
          else p.clusterNbits ≤ 3 ∧ ∀ x ∈ p.clusterMap, x < 2 ^ p.clusterNbits) :
    readClusters fuel p.totalDist (encodeClusterMapD depth p ++ tail)
      = .ok ((p.numClusters, p.clusterMap), tail) := by
  rw [readClusters.eq_1]
  by_cases h1 : p.totalDist = 1
  · have henc : encodeClusterMapD depth p = [] := by
      cases depth <;> simp [encodeClusterMapD, h1]
    simp only [h1, if_true] at hs ⊢
    rw [henc]
    unfold EntropyPlan.numClusters
    rw [hs]
    rfl
  · have hin' : p.clusterInner = none := by
      rcases hin with h | h
      · exact h
      · exact absurd h h1
    have henc : encodeClusterMapD depth p
        = [true] ++ toBits 2 p.clusterNbits ++ p.clusterMap.flatMap (toBits p.clusterNbits) := by
      cases depth <;> simp [encodeClusterMapD, h1, hin']
    simp only [h1, if_false] at hs ⊢
    obtain ⟨hnb, hlt⟩ := hs
    rw [henc]
    simp only [cons_append, nil_append, rbool_cons, append_assoc]
    rw [rbits_toBits 2 _ _ (by omega)]
    simp only
    rw [← hcm, readMany_rbits _ _ hlt]
    simp only
    rw [(checkClusters_ok_iff p.clusterMap).2 (fun k hk => hnoHole k hk)]
    rfl

/-- **Header composition, nested cluster maps included.** -/
theorem parse_header_nested (depth : Nat) :
    ∀ (fuel : Nat) (p : EntropyPlan) (allowLz : Bool) (rest : Bits),
      depth < fuel → HeaderOKD depth p → HistRTD depth p → (allowLz = false → p.lz77 = none) →
      parseDecoder fuel allowLz p.numDist (encodeHeaderD depth p ++ rest) = .ok (planDecoder p, rest) := by
  induction depth with
  | zero =>
    intro fuel p allowLz rest hf ok hrt hno
    obtain ⟨f, rfl⟩ : ∃ f, fuel = f + 1 := ⟨fuel - 1, by omega⟩
    have ok' : HeaderOK p := ok
    have hrt' : HistRT p := hrt
    unfold encodeHeaderD
    rw [parseDecoder.eq_2]
    simp only [append_assoc]
    rw [lzPart allowLz p.lz77 hno ok'.lz]
    simp only
    have hnd : (if p.lz77.isSome = true then p.numDist + 1 else p.numDist) = p.totalDist := rfl
    rw [hnd, readClusters_plain p f 0 _ (Or.inl ok'.simple.1) ok'.cmLen ok'.noHole ok'.simple.2]
    simp only
    exact parseInnerRest_encodeCodes p ok' hrt' rest
  | succ d ih =>
    intro fuel p allowLz rest hf ok hrt hno
    obtain ⟨f, rfl⟩ : ∃ f, fuel = f + 1 := ⟨fuel - 1, by omega⟩
    obtain ⟨oklens, okcm, okcfgs, okla, oklz, oknh, okc⟩ := ok
    obtain ⟨hrt1, hrt2⟩ := hrt
    unfold encodeHeaderD
    rw [parseDecoder.eq_2]
    simp only [append_assoc]
    rw [lzPart allowLz p.lz77 hno oklz]
    simp only
    have hnd : (if p.lz77.isSome = true then p.numDist + 1 else p.numDist) = p.totalDist := rfl
    rw [hnd]
    have hcl : readClusters f p.totalDist (encodeClusterMapD (d + 1) p ++ (encodeCodes p ++ rest))
        = .ok ((p.numClusters, p.clusterMap), encodeCodes p ++ rest) := by
      cases hin : p.clusterInner with
      | none =>
        rw [hin] at okc
        exact readClusters_plain p f (d + 1) _ (Or.inl hin) okcm oknh okc
      | some mi =>
        obtain ⟨mtf, ip⟩ := mi
        rw [hin] at okc hrt2
        simp only at okc hrt2
        by_cases h1 : p.totalDist = 1
        · simp only [h1, if_true] at okc
          exact readClusters_plain p f (d + 1) _ (Or.inr h1) okcm oknh (by simp [h1, okc])
        · simp only [h1, if_false] at okc
          obtain ⟨hnd1, hlzin, h256, okin, hchk⟩ := okc
          have henc : encodeClusterMapD (d + 1) p = [false, mtf] ++
              (writeLz77 ip.lz77 ++ encodeClusterMapD d ip ++ encodeCodes ip) ++
              encodeSymbols ip ((clusterIds mtf p.clusterMap).map fun v => (0, v)) := by
            rw [encodeClusterMapD]
            simp only [h1, if_false, hin]
          rw [readClusters.eq_1, henc]
          simp only [h1, if_false, cons_append, nil_append, rbool_cons, append_assoc]
          -- nested header
          have hhead := ih f ip (decide (p.totalDist > 2))
            (encodeSymbols ip ((clusterIds mtf p.clusterMap).map fun v => (0, v)) ++ (encodeCodes p ++ rest))
            (by omega) okin hrt2
            (by
              intro hdec
              rcases hlzin with h | h
              · simp [h] at hdec
              · exact h)
          unfold encodeHeaderD at hhead
          simp only [append_assoc, hnd1] at hhead
          rw [hhead]
          simp only
          -- nested stream
          have hitems : ((clusterIds mtf p.clusterMap).map fun v => (0, v)).map
              (fun (cv : Nat × Nat) => Item.lit cv.1 cv.2)
              = (clusterIds mtf p.clusterMap).map fun v => Item.lit 0 v := by
            rw [map_map]; rfl
          obtain ⟨st0, s0, st1, hb, hseq, hfin⟩ := C04_stream (ip) 0
            ((clusterIds mtf p.clusterMap).map fun v => Item.lit 0 v)
            (List.replicate (clusterIds mtf p.clusterMap).length 0) (encodeCodes p ++ rest)
            (ctxsFor_lits _) hchk (fun i hi => by
              obtain ⟨v, _, rfl⟩ := mem_map.1 hi; trivial)
          have hes : encodeSymbols ip ((clusterIds mtf p.clusterMap).map fun v => (0, v))
              = encodeItems ip ((clusterIds mtf p.clusterMap).map fun v => Item.lit 0 v) := by
            unfold encodeSymbols; rw [hitems]
          rw [hes, hb]
          simp only
          have hexp : expandItems 0 ((clusterIds mtf p.clusterMap).map fun v => Item.lit 0 v)
              = clusterIds mtf p.clusterMap := by
            rw [← decodeVals_eq_expand]
            have := decodeVals_lits 0 ((clusterIds mtf p.clusterMap).map fun v => (0, v)) []
            rw [hitems] at this
            rw [this, map_map]
            simp
          rw [hexp] at hseq
          have hlenids : (clusterIds mtf p.clusterMap).length = p.totalDist := by
            rw [clusterIds_length, okcm]
          rw [hlenids] at hseq
          rw [readClusterIds_of_readSeq _ _ _ _ _ _ _ hseq (clusterIds_lt mtf _ h256), ]
          simp only
          rw [hfin]
          simp only
          rw [clusterIds_decode mtf _ h256,
            (checkClusters_ok_iff p.clusterMap).2 (fun k hk => oknh k hk)]
          rfl
    rw [hcl]
    simp only
    exact parseInnerRest_encodeCodes' p oklens okcfgs okla hrt1 rest

end Jxl.Entropy
