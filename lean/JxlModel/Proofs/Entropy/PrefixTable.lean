import JxlModel.Model.Entropy.PrefixTable
import JxlModel.Proofs.Entropy.Prefix
/-! The two-level bit-reversed tables of `with_code_lengths` (Impl) decode exactly like the
canonical interval search (Spec). Helper lemmas for `Props/C04Table.lean`. -/
namespace Jxl.Entropy
open List

/-! ## bit order -/

theorem ofBits_append_single (x : Bits) (b : Bool) :
    ofBits (x ++ [b]) = ofBits x + 2 ^ x.length * (if b then 1 else 0) := by
  induction x with
  | nil => simp [ofBits]
  | cons a x ih =>
    simp only [List.cons_append, ofBits, ih, List.length_cons, Nat.pow_succ]
    cases b <;> simp <;> omega

theorem peekPad_nil (n : Nat) : peekPad n [] = 0 := by simp [peekPad, ofBits]

theorem peekPad_succ_cons (n : Nat) (b : Bool) (s : Bits) :
    peekPad (n + 1) (b :: s) = (if b then 1 else 0) + 2 * peekPad n s := by
  simp [peekPad, ofBits]

/-- reversing the `n` peeked bits gives the MSB-first value -/
theorem revBits_peekPad (n : Nat) (s : Bits) : revBits n (peekPad n s) = msbVal n s := by
  induction n generalizing s with
  | zero => simp [revBits, toBits, ofBits, msbVal]
  | succ n ih =>
    cases s with
    | nil =>
      have h0 := ih []
      rw [peekPad_nil] at h0 ⊢
      unfold revBits at h0 ⊢
      simp only [toBits, List.reverse_cons, ofBits_append_single, msbVal] at h0 ⊢
      simp [h0, msbVal]
      cases n <;> simp [msbVal]
    | cons b s =>
      have h := ih s
      rw [peekPad_succ_cons]
      unfold revBits at h ⊢
      have hb : (((if b then 1 else 0) + 2 * peekPad n s) % 2 == 1) = b := by
        cases b <;> simp <;> omega
      have hd : ((if b then 1 else 0) + 2 * peekPad n s) / 2 = peekPad n s := by
        cases b <;> simp <;> omega
      simp only [toBits, List.reverse_cons, ofBits_append_single, msbVal, hb, hd, h,
        List.length_reverse, toBits_length]
      cases b <;> simp <;> omega

theorem peekPad_mod (n m : Nat) (s : Bits) (h : n ≤ m) : peekPad m s % 2 ^ n = peekPad n s := by
  induction n generalizing m s with
  | zero => simp [peekPad, ofBits, Nat.mod_one]
  | succ n ih =>
    obtain ⟨m', rfl⟩ : ∃ m', m = m' + 1 := ⟨m - 1, by omega⟩
    cases s with
    | nil => simp [peekPad_nil]
    | cons b s =>
      rw [peekPad_succ_cons, peekPad_succ_cons, ← ih m' s (by omega), Nat.pow_succ,
        Nat.mul_comm (2 ^ n) 2, Nat.mod_mul]
      have h1 : ((if b then 1 else 0) + 2 * peekPad m' s) % 2 = (if b then 1 else 0) := by
        cases b <;> simp <;> omega
      have h2 : ((if b then 1 else 0) + 2 * peekPad m' s) / 2 = peekPad m' s := by
        cases b <;> simp <;> omega
      rw [h1, h2]

theorem peekPad_div (a m : Nat) (s : Bits) (h : a ≤ m) :
    peekPad m s / 2 ^ a = peekPad (m - a) (s.drop a) := by
  induction a generalizing m s with
  | zero => simp
  | succ a ih =>
    obtain ⟨m', rfl⟩ : ∃ m', m = m' + 1 := ⟨m - 1, by omega⟩
    cases s with
    | nil => simp [peekPad_nil]
    | cons b s =>
      rw [peekPad_succ_cons, Nat.pow_succ, Nat.mul_comm (2 ^ a) 2, ← Nat.div_div_eq_div_mul]
      have : ((if b then 1 else 0) + 2 * peekPad m' s) / 2 = peekPad m' s := by
        cases b <;> simp <;> omega
      rw [this, ih m' s (by omega)]
      simp

theorem msbVal_nil (n : Nat) : msbVal n [] = 0 := by cases n <;> rfl

theorem msbVal_add (a b : Nat) (s : Bits) :
    msbVal (a + b) s = msbVal a s * 2 ^ b + msbVal b (s.drop a) := by
  induction a generalizing s with
  | zero => simp [msbVal]
  | succ a ih =>
    cases s with
    | nil => simp [msbVal_nil]
    | cons c s =>
      rw [show a + 1 + b = (a + b) + 1 by omega]
      simp only [msbVal, ih s, List.drop_succ_cons, Nat.pow_add]
      split <;> simp [Nat.add_mul] <;> omega

/-! ## `vec_reverse_bits` -/

theorem vecReverseBits_length (v : List Entry) : (vecReverseBits v).length = v.length := by
  simp [vecReverseBits]

theorem vecReverseBits_get (v : List Entry) (k i : Nat) (hv : v.length = 2 ^ k) (hi : i < 2 ^ k) :
    (vecReverseBits v)[i]? = some (v.getD (revBits k i) default) := by
  simp [vecReverseBits, hv, Nat.log2_two_pow, hi]

/-! ## the flat (pre-reversal) table of an entry list -/

def entryOf (e : Nat × Nat) : Entry := ⟨false, e.2, e.1⟩

/-- every entry replicated to depth `d` -/
def flat (d : Nat) : List (Nat × Nat) → List Entry
  | [] => []
  | e :: r => replicate (2 ^ (d - e.2)) (entryOf e) ++ flat d r

theorem flat_append (d : Nat) (a b : List (Nat × Nat)) : flat d (a ++ b) = flat d a ++ flat d b := by
  induction a with
  | nil => rfl
  | cons e r ih => simp [flat, ih]

theorem flat_length_mul (d : Nat) (hd : d ≤ 15) (es : List (Nat × Nat)) (h : ∀ e ∈ es, e.2 ≤ d) :
    (flat d es).length * 2 ^ (15 - d) = total es := by
  induction es with
  | nil => simp [flat, total]
  | cons e r ih =>
    have hl : e.2 ≤ d := h e (by simp)
    have hp : 2 ^ (d - e.2) * 2 ^ (15 - d) = 2 ^ (15 - e.2) := by
      rw [← Nat.pow_add]; congr 1; omega
    simp only [flat, total, length_append, length_replicate, Nat.add_mul, hp,
      ih (fun e he => h e (by simp [he]))]

theorem flat_map_length (d l : Nat) (syms : List Nat) :
    (flat d (syms.map (·, l))).length = syms.length * 2 ^ (d - l) := by
  induction syms with
  | nil => simp [flat]
  | cons a r ih => simp [flat, ih, Nat.add_mul]; omega

/-- **lookup**: the flat table at depth `d`, indexed by the top `d` bits of the offset into the
list's interval, holds the entry the interval search finds -/
theorem flat_lookup (d : Nat) (hd : d ≤ 15) (es : List (Nat × Nat)) (h : ∀ e ∈ es, e.2 ≤ d)
    (acc v : Nat) (h1 : acc ≤ v) (h2 : v < acc + total es) :
    ∃ sym len, walk v acc es = some (sym, len) ∧
      (flat d es)[(v - acc) / 2 ^ (15 - d)]? = some ⟨false, len, sym⟩ := by
  induction es generalizing acc with
  | nil => simp [total] at h2; omega
  | cons e r ih =>
    obtain ⟨s, l⟩ := e
    have hl : l ≤ d := h (s, l) (by simp)
    have hp : 2 ^ (15 - d) * 2 ^ (d - l) = 2 ^ (15 - l) := by
      rw [← Nat.pow_add]; congr 1; omega
    have hu : 0 < 2 ^ (15 - d) := Nat.pos_of_ne_zero (by simp)
    simp only [total] at h2
    simp only [walk, flat]
    by_cases hv : v < acc + 2 ^ (15 - l)
    · refine ⟨s, l, by simp [hv], ?_⟩
      have hi : (v - acc) / 2 ^ (15 - d) < 2 ^ (d - l) := by
        apply Nat.div_lt_of_lt_mul; rw [hp]; omega
      rw [getElem?_append_left (by simpa using hi)]
      simp [hi, entryOf]
    · obtain ⟨sym, len, hw, hg⟩ := ih (fun e he => h e (by simp [he])) (acc + 2 ^ (15 - l))
        (by omega) (by omega)
      refine ⟨sym, len, by simp [hv, hw], ?_⟩
      have hsplit : v - acc = (v - (acc + 2 ^ (15 - l))) + 2 ^ (d - l) * 2 ^ (15 - d) := by
        rw [Nat.mul_comm, hp]; omega
      rw [hsplit, Nat.add_mul_div_right _ _ hu, getElem?_append_right (by simp)]
      simpa using hg

/-! ## the top-level fill loop -/

theorem fillSlice_append (A : List Entry) (m n : Nat) (e d : Entry) (h : n ≤ m) :
    fillSlice (A ++ replicate m d) A.length n e
      = some (A ++ replicate n e ++ replicate (m - n) d) := by
  have : A.length + n ≤ (A ++ replicate m d).length := by simp; omega
  simp [fillSlice, List.drop_append, h]

/-- entries of `syms_for_length[idx..]`, in table order -/
def entsOf : Nat → List (List Nat) → List (Nat × Nat)
  | _, [] => []
  | idx, syms :: r => syms.map (·, idx + 1) ++ entsOf (idx + 1) r

theorem topSyms_ok (idx shifts d : Nat) (syms : List Nat) (A : List Entry) (m : Nat)
    (hd : d - (idx + 1) = shifts) (hfit : syms.length * 2 ^ shifts ≤ m) :
    topSyms idx shifts syms (A ++ replicate m default) A.length
      = .ok (A ++ flat d (syms.map (·, idx + 1)) ++ replicate (m - syms.length * 2 ^ shifts) default,
             A.length + syms.length * 2 ^ shifts) := by
  induction syms generalizing A m with
  | nil => simp [topSyms, flat]
  | cons a r ih =>
    simp only [length_cons, Nat.add_mul, Nat.one_mul] at hfit
    simp only [topSyms]
    rw [fillSlice_append A m _ _ _ (by omega)]
    simp only
    rw [show A.length + 2 ^ shifts = (A ++ replicate (2 ^ shifts) (⟨false, idx + 1, a⟩ : Entry)).length
      by simp]
    rw [ih _ (m - 2 ^ shifts) (by omega)]
    have hc : m - 2 ^ shifts - r.length * 2 ^ shifts = m - (r.length * 2 ^ shifts + 2 ^ shifts) := by
      omega
    refine congrArg Except.ok (Prod.ext ?_ ?_)
    · simp [flat, entryOf, hd, hc, Nat.add_mul]
    · simp [Nat.add_mul]; omega

theorem topLevels_ok (tb : Nat) (groups : List (List Nat)) (idx : Nat) (A : List Entry) (m : Nat)
    (hidx : idx + groups.length ≤ tb)
    (hfit : (flat tb (entsOf idx groups)).length ≤ m) :
    topLevels tb groups idx (A ++ replicate m default) A.length
      = .ok (A ++ flat tb (entsOf idx groups)
               ++ replicate (m - (flat tb (entsOf idx groups)).length) default,
             A.length + (flat tb (entsOf idx groups)).length) := by
  induction groups generalizing idx A m with
  | nil => simp [topLevels, entsOf, flat]
  | cons syms r ih =>
    simp only [length_cons] at hidx
    simp only [entsOf, flat_append, length_append, flat_map_length] at hfit ⊢
    simp only [topLevels]
    rw [topSyms_ok idx (tb - 1 - idx) tb syms A m (by omega)
      (by rw [show tb - 1 - idx = tb - (idx + 1) by omega]; omega)]
    simp only
    rw [show tb - 1 - idx = tb - (idx + 1) by omega]
    have hl : A.length + syms.length * 2 ^ (tb - (idx + 1))
        = (A ++ flat tb (syms.map (·, idx + 1))).length := by simp [flat_map_length]
    rw [hl, ih (idx + 1) _ _ (by omega) (by omega)]
    have hc : m - syms.length * 2 ^ (tb - (idx + 1)) - (flat tb (entsOf (idx + 1) r)).length
        = m - (syms.length * 2 ^ (tb - (idx + 1)) + (flat tb (entsOf (idx + 1) r)).length) := by
      omega
    refine congrArg Except.ok (Prod.ext ?_ ?_)
    · simp [hc]
    · simp [flat_map_length]; omega

/-! ## `syms_for_length` is the canonical order -/

theorem getD_set_nil (l : List (List Nat)) (j i : Nat) (x : List Nat) (hj : j < l.length) :
    (l.set j x).getD i [] = if i = j then x else l.getD i [] := by
  simp only [List.getD_eq_getElem?_getD, List.getElem?_set]
  by_cases h : j = i
  · subst h; simp [hj]
  · have : ¬ i = j := fun e => h e.symm
    simp [h, this]

theorem getD_pad_nil (l : List (List Nat)) (n i : Nat) :
    (l ++ replicate n []).getD i [] = l.getD i [] := by
  simp only [List.getD_eq_getElem?_getD, List.getElem?_append]
  split
  · rfl
  · rename_i h
    rw [List.getElem?_eq_none (by omega : l.length ≤ i)]
    simp [List.getElem?_replicate]
    split <;> rfl

theorem sfl_getD (lens : List Nat) (k : Nat) (sfl : List (List Nat)) (i : Nat) :
    (symsForLengthGo lens k sfl).getD i []
      = sfl.getD i [] ++ (symsOfLen (i + 1) (lens.zipIdx k)).map Prod.fst := by
  induction lens generalizing k sfl with
  | nil => simp [symsForLengthGo, symsOfLen]
  | cons len r ih =>
    simp only [symsForLengthGo, List.zipIdx_cons, symsOfLen]
    by_cases h0 : len > 0
    · simp only [h0, if_true]
      rw [ih]
      by_cases hlt : sfl.length < len
      · simp only [hlt, if_true]
        rw [getD_set_nil _ _ _ _ (by simp; omega), getD_pad_nil, getD_pad_nil]
        by_cases hi : i = len - 1
        · obtain rfl : len = i + 1 := by omega
          simp
        · have : ¬ len = i + 1 := by omega
          simp [hi, this]
      · simp only [hlt, if_false]
        rw [getD_set_nil _ _ _ _ (by omega)]
        by_cases hi : i = len - 1
        · obtain rfl : len = i + 1 := by omega
          simp
        · have : ¬ len = i + 1 := by omega
          simp [hi, this]
    · have : ¬ len = i + 1 := by omega
      simp only [h0, if_false, this]
      exact ih _ _

theorem sfl_length (M : Nat) (lens : List Nat) (k : Nat) (sfl : List (List Nat))
    (h : ∀ l ∈ lens, l ≤ M) (hs : sfl.length ≤ M) : (symsForLengthGo lens k sfl).length ≤ M := by
  induction lens generalizing k sfl with
  | nil => simpa [symsForLengthGo]
  | cons len r ih =>
    have hl : len ≤ M := h len (by simp)
    simp only [symsForLengthGo]
    split
    · apply ih _ _ (fun l hl => h l (by simp [hl]))
      split <;> simp <;> omega
    · exact ih _ _ (fun l hl => h l (by simp [hl])) hs

theorem symsOfLen_map_fst (l : Nat) (z : List (Nat × Nat)) :
    ((symsOfLen l z).map Prod.fst).map (·, l) = symsOfLen l z := by
  induction z with
  | nil => rfl
  | cons a r ih =>
    obtain ⟨len, sym⟩ := a
    simp only [symsOfLen]
    split <;> simp [ih]

theorem entsOf_replicate_nil (idx n : Nat) : entsOf idx (replicate n []) = [] := by
  induction n generalizing idx with
  | zero => rfl
  | succ n ih => simp [replicate_succ, entsOf, ih]

theorem entsOf_pad (idx : Nat) (g : List (List Nat)) (n : Nat) :
    entsOf idx (g ++ replicate n []) = entsOf idx g := by
  induction g generalizing idx with
  | nil => simp [entsOf_replicate_nil, entsOf]
  | cons a r ih => simp [entsOf, ih]

theorem entsOf_range' (z : List (Nat × Nat)) (idx n : Nat) :
    entsOf idx ((List.range' idx n).map fun l => (symsOfLen (l + 1) z).map Prod.fst)
      = (List.range' idx n).flatMap fun l => symsOfLen (l + 1) z := by
  induction n generalizing idx with
  | zero => simp [entsOf]
  | succ n ih =>
    simp [List.range'_succ, entsOf, ih]
    simpa using symsOfLen_map_fst (idx + 1) z

theorem entsOf_symsForLength (lens : List Nat) (h : ∀ l ∈ lens, l ≤ 15) :
    entsOf 0 (symsForLength lens) = sortedSyms lens := by
  have hlen : (symsForLength lens).length ≤ 15 := sfl_length 15 lens 0 [] h (by simp)
  have hpad : symsForLength lens ++ replicate (15 - (symsForLength lens).length) []
      = (List.range' 0 15).map fun l => (symsOfLen (l + 1) lens.zipIdx).map Prod.fst := by
    apply List.ext_getElem?
    intro i
    by_cases hi : i < 15
    · have hg := sfl_getD lens 0 [] i
      have hp := getD_pad_nil (symsForLength lens) (15 - (symsForLength lens).length) i
      unfold symsForLength at hp ⊢
      rw [hg] at hp
      simp only [List.getD_eq_getElem?_getD] at hp
      have hin : i < (symsForLengthGo lens 0 [] ++
          replicate (15 - (symsForLengthGo lens 0 []).length) []).length := by
        unfold symsForLength at hlen; simp; omega
      rw [List.getElem?_eq_getElem hin] at hp ⊢
      simp only [Option.getD_some] at hp
      rw [hp]
      simp [List.getElem?_map, List.getElem?_range', hi]
    · rw [List.getElem?_eq_none (by simp; omega), List.getElem?_eq_none (by simp; omega)]
  rw [← entsOf_pad 0 _ (15 - (symsForLength lens).length), hpad, entsOf_range']
  simp [sortedSyms, List.range_eq_range']

theorem entsOf_le (idx : Nat) (g : List (List Nat)) :
    ∀ e ∈ entsOf idx g, e.2 ≤ idx + g.length := by
  induction g generalizing idx with
  | nil => simp [entsOf]
  | cons a r ih =>
    intro e he
    simp only [entsOf, mem_append, mem_map] at he
    rcases he with ⟨x, _, rfl⟩ | he
    · simp
    · have := ih (idx + 1) e he
      simp only [length_cons]; omega

/-! ## reading through a top-level-only table -/

theorem read_toplevel (tb : Nat) (htb : tb ≤ 15) (es : List (Nat × Nat))
    (hes : ∀ e ∈ es, e.2 ≤ tb) (htot : total es = 2 ^ 15) (snd : List Entry) (s : Bits) :
    TableHist.read ⟨tb, vecReverseBits (flat tb es), snd⟩ s = (PrefixCode.table es).read s := by
  have hu : 0 < 2 ^ (15 - tb) := Nat.pos_of_ne_zero (by simp)
  have hFlen : (flat tb es).length = 2 ^ tb := by
    have h := flat_length_mul tb htb es hes
    rw [htot, show (2:Nat) ^ 15 = 2 ^ tb * 2 ^ (15 - tb) by
      rw [← Nat.pow_add]; congr 1; omega] at h
    exact Nat.eq_of_mul_eq_mul_right hu h
  have hv : msbVal 15 s = msbVal tb s * 2 ^ (15 - tb) + msbVal (15 - tb) (s.drop tb) := by
    rw [← msbVal_add]; congr 1; omega
  have hr := msbVal_lt (15 - tb) (s.drop tb)
  have hdiv : msbVal 15 s / 2 ^ (15 - tb) = msbVal tb s := by
    rw [hv, Nat.add_comm, Nat.add_mul_div_right _ _ hu, Nat.div_eq_of_lt hr]; simp
  obtain ⟨sym, len, hw, hg⟩ := flat_lookup tb htb es hes 0 (msbVal 15 s) (Nat.zero_le _)
    (by rw [htot, Nat.zero_add]; exact msbVal_lt 15 s)
  rw [Nat.sub_zero, hdiv] at hg
  have hidx : peekPad 15 s &&& (2 ^ tb - 1) = peekPad tb s := by
    rw [Nat.and_two_pow_sub_one_eq_mod, peekPad_mod tb 15 s htb]
  have hget : (vecReverseBits (flat tb es))[peekPad tb s]? = some ⟨false, len, sym⟩ := by
    rw [vecReverseBits_get _ tb _ hFlen (peekPad_lt tb s), revBits_peekPad,
      List.getD_eq_getElem?_getD, hg]
    rfl
  simp only [TableHist.read, hidx, hget, PrefixCode.read, hw]
  rfl

/-- `with_code_lengths` when `syms_for_length` has at most `MAX_TOPLEVEL_BITS` levels -/
theorem withCodeLengths_short (lens : List Nat) (h15 : ∀ l ∈ lens, l ≤ 15)
    (hlen : (symsForLength lens).length ≤ 10) (hk : kraft lens ≤ 2 ^ 15) :
    withCodeLengths lens =
      if kraft lens = 2 ^ 15 then
        .ok ⟨(symsForLength lens).length,
             vecReverseBits (flat (symsForLength lens).length (sortedSyms lens)), []⟩
      else .error .invalidPrefixHistogram := by
  have hes := entsOf_symsForLength lens h15
  have hle : ∀ e ∈ sortedSyms lens, e.2 ≤ (symsForLength lens).length := by
    rw [← hes]; intro e he; simpa using entsOf_le 0 _ e he
  generalize hsfl : symsForLength lens = sfl at *
  have htb : min sfl.length maxToplevelBits = sfl.length := by
    simp [maxToplevelBits]; omega
  have hu : 0 < 2 ^ (15 - sfl.length) := Nat.pos_of_ne_zero (by simp)
  have hpow : (2:Nat) ^ 15 = 2 ^ sfl.length * 2 ^ (15 - sfl.length) := by
    rw [← Nat.pow_add]; congr 1; omega
  have hmul := flat_length_mul sfl.length (by omega) (sortedSyms lens) hle
  rw [total_sortedSyms lens h15] at hmul
  have hfit : (flat sfl.length (sortedSyms lens)).length ≤ 2 ^ sfl.length := by
    have : (flat sfl.length (sortedSyms lens)).length * 2 ^ (15 - sfl.length)
        ≤ 2 ^ sfl.length * 2 ^ (15 - sfl.length) := by rw [hmul, ← hpow]; exact hk
    exact Nat.le_of_mul_le_mul_right this hu
  have hiff : (flat sfl.length (sortedSyms lens)).length = 2 ^ sfl.length ↔ kraft lens = 2 ^ 15 := by
    rw [← hmul, hpow]
    constructor
    · intro h; rw [h]
    · intro h; exact Nat.eq_of_mul_eq_mul_right hu h
  have htop := topLevels_ok sfl.length sfl 0 [] (2 ^ sfl.length) (by omega)
    (by rw [hes]; exact hfit)
  rw [hes] at htop
  simp only [List.nil_append, List.length_nil, Nat.zero_add] at htop
  unfold withCodeLengths
  simp only [hsfl, htb, List.take_length, htop, Nat.lt_irrefl, if_false]
  by_cases hkk : kraft lens = 2 ^ 15
  · have := hiff.2 hkk
    simp [hkk, this]
  · have : ¬ (flat sfl.length (sortedSyms lens)).length = 2 ^ sfl.length := fun h => hkk (hiff.1 h)
    simp [this]
    exact hkk

/-- `with_code_lengths` when no length exceeds `MAX_TOPLEVEL_BITS` -/
theorem withCodeLengths_toplevel (lens : List Nat) (h10 : ∀ l ∈ lens, l ≤ 10)
    (hk : kraft lens ≤ 2 ^ 15) :
    withCodeLengths lens =
      if kraft lens = 2 ^ 15 then
        .ok ⟨(symsForLength lens).length,
             vecReverseBits (flat (symsForLength lens).length (sortedSyms lens)), []⟩
      else .error .invalidPrefixHistogram :=
  withCodeLengths_short lens (fun l hl => Nat.le_trans (h10 l hl) (by omega))
    (sfl_length 10 lens 0 [] h10 (by simp)) hk

end Jxl.Entropy
