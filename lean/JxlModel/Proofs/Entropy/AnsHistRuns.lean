import JxlModel.Model.Enc.AnsEnc
/-!
# General ANS histogram header — the run list of the encoder

`RunsOK x op a lo rs`: the runs `(start, len)` in `rs` are increasing from `lo`, separated by at
least one index, at least 4 long, inside `[0, a)`, avoid the omitted position `op` and the index
right after it, and every entry of a run repeats the entry before the run.
`findRuns_spec`: the list computed by `findRuns` has this shape.
-/
namespace Jxl.Entropy
open Jxl Jxl.Enc

/-- the value a run starting at `s` repeats -/
def prevOf (x : Nat → Nat) (s : Nat) : Nat := if s = 0 then 0 else x (s - 1)

structure RunOK (x : Nat → Nat) (op a : Nat) (r : Nat × Nat) : Prop where
  len4 : 4 ≤ r.2
  len259 : r.2 ≤ 259
  inA : r.1 + r.2 ≤ a
  noOp : ∀ j, r.1 ≤ j → j < r.1 + r.2 → j ≠ op
  notAfter : r.1 ≠ op + 1
  eqPrev : ∀ j, r.1 ≤ j → j < r.1 + r.2 → x j = prevOf x r.1

def RunsOK (x : Nat → Nat) (op a : Nat) : Nat → List (Nat × Nat) → Prop
  | _, [] => True
  | lo, r :: rest => lo ≤ r.1 ∧ RunOK x op a r ∧ RunsOK x op a (r.1 + r.2 + 1) rest

theorem RunsOK.mono {x : Nat → Nat} {op a lo lo' : Nat} {rs : List (Nat × Nat)} (h : lo' ≤ lo)
    (hr : RunsOK x op a lo rs) : RunsOK x op a lo' rs := by
  cases rs with
  | nil => trivial
  | cons r rest => exact ⟨by have := hr.1; omega, hr.2.1, hr.2.2⟩

theorem RunsOK.start_ge {x : Nat → Nat} {op a : Nat} : ∀ {lo : Nat} {rs : List (Nat × Nat)},
    RunsOK x op a lo rs → ∀ r ∈ rs, lo ≤ r.1
  | _, [], _, r, hr => by simp at hr
  | lo, r0 :: rest, h, r, hr => by
    rcases List.mem_cons.1 hr with rfl | hr
    · exact h.1
    · have := RunsOK.start_ge h.2.2 r hr
      have := h.1
      omega

theorem RunsOK.all_ok {x : Nat → Nat} {op a : Nat} : ∀ {lo : Nat} {rs : List (Nat × Nat)},
    RunsOK x op a lo rs → ∀ r ∈ rs, RunOK x op a r
  | _, [], _, r, hr => by simp at hr
  | lo, r0 :: rest, h, r, hr => by
    rcases List.mem_cons.1 hr with rfl | hr
    · exact h.2.1
    · exact RunsOK.all_ok h.2.2 r hr

/-- no run starts at `lo`: the list is fine from `lo + 1` -/
theorem RunsOK.succ {x : Nat → Nat} {op a lo : Nat} {rs : List (Nat × Nat)}
    (hr : RunsOK x op a lo rs) (hne : ∀ r ∈ rs, r.1 ≠ lo) : RunsOK x op a (lo + 1) rs := by
  cases rs with
  | nil => trivial
  | cons r rest =>
    have := hr.1
    have := hne r (by simp)
    exact ⟨by omega, hr.2.1, hr.2.2⟩

/-! ## classification of an index -/

/-- index lies in a run (start included) -/
def inRunB (rs : List (Nat × Nat)) (i : Nat) : Bool :=
  rs.any fun r => decide (r.1 ≤ i ∧ i < r.1 + r.2)

/-- the run starting at `i` -/
def startAt (rs : List (Nat × Nat)) (i : Nat) : Option (Nat × Nat) :=
  rs.find? fun r => decide (r.1 = i)

theorem startAt_nil (i : Nat) : startAt [] i = none := rfl
theorem inRunB_nil (i : Nat) : inRunB [] i = false := rfl

/-- every run starts after `i`: a normal index -/
theorem kind_before (rs : List (Nat × Nat)) (i : Nat) (h : ∀ r ∈ rs, i < r.1) :
    startAt rs i = none ∧ inRunB rs i = false := by
  constructor
  · unfold startAt
    rw [List.find?_eq_none]
    intro r hr
    have := h r hr
    simp; omega
  · unfold inRunB
    rw [List.any_eq_false]
    intro r hr
    have := h r hr
    simp; omega

/-- every run ends at or before `i`: a normal index -/
theorem kind_after (rs : List (Nat × Nat)) (i : Nat) (h : ∀ r ∈ rs, r.1 + r.2 ≤ i ∧ 1 ≤ r.2) :
    startAt rs i = none ∧ inRunB rs i = false := by
  constructor
  · unfold startAt
    rw [List.find?_eq_none]
    intro r hr
    have := h r hr
    simp; omega
  · unfold inRunB
    rw [List.any_eq_false]
    intro r hr
    have := h r hr
    simp; omega

theorem kind_start (s l : Nat) (tl : List (Nat × Nat)) (hl : 1 ≤ l) :
    startAt ((s, l) :: tl) s = some (s, l) ∧ inRunB ((s, l) :: tl) s = true := by
  constructor
  · simp [startAt]
  · simp [inRunB]; left; omega

theorem kind_inside (s l : Nat) (tl : List (Nat × Nat)) (i : Nat) (h1 : s < i) (h2 : i < s + l)
    (htl : ∀ r ∈ tl, s + l < r.1) :
    startAt ((s, l) :: tl) i = none ∧ inRunB ((s, l) :: tl) i = true := by
  constructor
  · have := (kind_before tl i (fun r hr => by have := htl r hr; omega)).1
    unfold startAt at this ⊢
    rw [List.find?_cons]
    have hne : decide (s = i) = false := by simp; omega
    simp only [hne]
    exact this
  · simp [inRunB]; left; omega

theorem kind_past (s l : Nat) (tl : List (Nat × Nat)) (i : Nat) (h : s + l ≤ i) (hl : 1 ≤ l) :
    startAt ((s, l) :: tl) i = startAt tl i ∧ inRunB ((s, l) :: tl) i = inRunB tl i := by
  constructor
  · unfold startAt
    rw [List.find?_cons]
    have hne : decide (s = i) = false := by simp; omega
    simp only [hne]
  · unfold inRunB
    rw [List.any_cons]
    have hne : decide (s ≤ i ∧ i < s + l) = false := by simp; omega
    simp only [hne, Bool.false_or]

theorem startAt_mem {rs : List (Nat × Nat)} {i : Nat} {r : Nat × Nat} (h : startAt rs i = some r) :
    r ∈ rs ∧ r.1 = i := by
  unfold startAt at h
  exact ⟨List.mem_of_find?_eq_some h, by simpa using List.find?_some h⟩

/-! ## what `findRuns` computes -/

/-- `ext` only walks over entries that satisfy the run condition -/
theorem findRuns_ext_spec (op : Nat) (d : Array Nat) (n i prev : Nat) :
    ∀ (f j : Nat), i ≤ j →
      (∀ k, i ≤ k → k < j → k < n ∧ k ≠ op ∧ d[k]! = prev ∧ k - i < 259) →
      let j' := findRuns.ext op d n i prev f j
      j ≤ j' ∧ j' ≤ j + f ∧
      (∀ k, i ≤ k → k < j' → k < n ∧ k ≠ op ∧ d[k]! = prev ∧ k - i < 259) ∧
      (j' < j + f → ¬ (j' < n ∧ j' ≠ op ∧ d[j']! = prev ∧ j' - i < 259)) := by
  intro f
  induction f with
  | zero =>
    intro j hij hall
    simp only [findRuns.ext]
    exact ⟨Nat.le_refl _, Nat.le_refl _, hall, fun h => absurd h (by omega)⟩
  | succ f ih =>
    intro j hij hall
    simp only [findRuns.ext]
    by_cases hc : j < n ∧ j ≠ op ∧ d[j]! = prev ∧ j - i < 259
    · rw [if_pos hc]
      have hall' : ∀ k, i ≤ k → k < j + 1 → k < n ∧ k ≠ op ∧ d[k]! = prev ∧ k - i < 259 := by
        intro k hk1 hk2
        by_cases hkj : k = j
        · subst hkj; exact hc
        · exact hall k hk1 (by omega)
      have := ih (j + 1) (by omega) hall'
      simp only at this
      obtain ⟨h1, h2, h3, h4⟩ := this
      exact ⟨by omega, by omega, h3, fun h => h4 (by omega)⟩
    · rw [if_neg hc]
      exact ⟨Nat.le_refl _, by omega, hall, fun _ => hc⟩

theorem findRuns_spec (op : Nat) (d : Array Nat) (n : Nat) (hn : n ≤ 256) :
    ∀ (fuel i : Nat) (acc : List (Nat × Nat)),
      ∃ rs, findRuns op d n fuel i acc = acc.reverse ++ rs ∧
        RunsOK (fun k => d[k]!) op n i rs ∧
        ((i ≥ n ∨ i = op ∨ (i ≠ 0 ∧ i - 1 = op) ∨ d[i]! ≠ prevOf (fun k => d[k]!) i) →
          RunsOK (fun k => d[k]!) op n (i + 1) rs) := by
  intro fuel
  induction fuel with
  | zero =>
    intro i acc
    exact ⟨[], by simp [findRuns], trivial, fun _ => trivial⟩
  | succ fuel ih =>
    intro i acc
    simp only [findRuns]
    by_cases hin : i ≥ n
    · rw [if_pos hin]
      exact ⟨[], by simp, trivial, fun _ => trivial⟩
    · rw [if_neg hin]
      have hprev : (if i = 0 then 0 else d[i - 1]!) = prevOf (fun k => d[k]!) i := rfl
      rw [hprev]
      generalize hp : prevOf (fun k => d[k]!) i = prev
      by_cases hb : i = op ∨ (i ≠ 0 ∧ i - 1 = op) ∨ d[i]! ≠ prev
      · rw [if_pos hb]
        obtain ⟨rs, h1, h2, _⟩ := ih (i + 1) acc
        exact ⟨rs, h1, h2.mono (by omega), fun _ => h2⟩
      · rw [if_neg hb]
        have hblk : ¬ (i ≥ n ∨ i = op ∨ (i ≠ 0 ∧ i - 1 = op) ∨ d[i]! ≠ prev) := by
          intro h
          rcases h with h | h
          · exact hin h
          · exact hb h
        have hext := findRuns_ext_spec op d n i prev 300 i (Nat.le_refl _)
          (fun k h1 h2 => absurd h2 (by omega))
        simp only at hext
        generalize findRuns.ext op d n i prev 300 i = j at hext ⊢
        obtain ⟨e1, e2, e3, e4⟩ := hext
        by_cases hlen : j - i ≥ 4
        · rw [if_pos hlen]
          obtain ⟨rs, h1, h2, h3⟩ := ih j ((i, j - i) :: acc)
          have hjn : j ≤ n := by
            have := (e3 (j - 1) (by omega) (by omega)).1
            omega
          have hjm1 : d[j - 1]! = prev := (e3 (j - 1) (by omega) (by omega)).2.2.1
          have hprevj : prevOf (fun k => d[k]!) j = prev := by
            unfold prevOf
            rw [if_neg (by omega)]
            exact hjm1
          have hfail := e4 (by omega)
          have hblkj : j ≥ n ∨ j = op ∨ (j ≠ 0 ∧ j - 1 = op) ∨ d[j]! ≠ prevOf (fun k => d[k]!) j := by
            rw [hprevj]
            by_cases c1 : j ≥ n
            · exact Or.inl c1
            · by_cases c2 : j = op
              · exact Or.inr (Or.inl c2)
              · by_cases c3 : d[j]! = prev
                · exact absurd ⟨by omega, c2, c3, by omega⟩ hfail
                · exact Or.inr (Or.inr (Or.inr c3))
          refine ⟨(i, j - i) :: rs, ?_, ?_, fun h => absurd h hblk⟩
          · rw [h1]; simp
          · refine ⟨Nat.le_refl _, ?_, ?_⟩
            · refine ⟨hlen, ?_, ?_, ?_, ?_, ?_⟩
              · show j - i ≤ 259
                omega
              · show i + (j - i) ≤ n
                omega
              · intro k hk1 hk2
                exact (e3 k hk1 (by simp only at hk2; omega)).2.1
              · show i ≠ op + 1
                intro h
                exact hb (Or.inr (Or.inl ⟨by omega, by omega⟩))
              · intro k hk1 hk2
                show d[k]! = prevOf (fun k => d[k]!) i
                rw [hp]
                exact (e3 k hk1 (by simp only at hk2; omega)).2.2.1
            · have : i + (j - i) + 1 = j + 1 := by omega
              show RunsOK _ op n (i + (j - i) + 1) rs
              rw [this]
              exact h3 hblkj
        · rw [if_neg hlen]
          obtain ⟨rs, h1, h2, _⟩ := ih (i + 1) acc
          exact ⟨rs, h1, h2.mono (by omega), fun h => absurd h hblk⟩

end Jxl.Entropy
