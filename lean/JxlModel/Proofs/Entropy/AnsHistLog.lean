import JxlModel.Proofs.Entropy.Header
import JxlModel.Proofs.Entropy.AnsHistRuns
/-!
# General ANS histogram header — first decoder loop (`readLogCounts`)

Over the bits `p1` written index by index, the loop rebuilds the code list `codeAt`, the run list
and the omitted position.
-/
namespace Jxl.Entropy
open Jxl Jxl.Enc

/-- bits of the first part for index `i` -/
def p1 (x : Nat → Nat) (rs : List (Nat × Nat)) (i : Nat) : Bits :=
  match startAt rs i with
  | some r => writeLogCount 13 ++ writeU8 (r.2 - 4)
  | none => if inRunB rs i then [] else writeLogCount (logCount (x i))

/-- the decoder's `dist[i]` after the first loop -/
def codeAt (x : Nat → Nat) (rs : List (Nat × Nat)) (i : Nat) : Nat :=
  match startAt rs i with
  | some _ => 13
  | none => if inRunB rs i then 0 else logCount (x i)

/-- `(start, len)` to `(start, end)` -/
def runConv (r : Nat × Nat) : Nat × Nat := (r.1, r.1 + r.2)

/-- update of `omit_data` at a normal index -/
def omNext (om : Option (Nat × Nat)) (c idx : Nat) : Option (Nat × Nat) :=
  match om with
  | some (log, pos) => if c > log then some (c, idx) else some (log, pos)
  | none => some (c, idx)

/-! ## congruence over index ranges -/

theorem range'_map_congr {α : Type} (f g : Nat → α) : ∀ (n lo : Nat),
    (∀ j, lo ≤ j → j < lo + n → f j = g j) → (List.range' lo n).map f = (List.range' lo n).map g := by
  intro n lo h
  apply List.map_congr_left
  intro j hj
  rw [List.mem_range'_1] at hj
  exact h j hj.1 hj.2

theorem range'_flatMap_congr {α : Type} (f g : Nat → List α) : ∀ (n lo : Nat),
    (∀ j, lo ≤ j → j < lo + n → f j = g j) →
    (List.range' lo n).flatMap f = (List.range' lo n).flatMap g := by
  intro n
  induction n with
  | zero => intro lo _; rfl
  | succ n ih =>
    intro lo h
    rw [List.range'_succ, List.flatMap_cons, List.flatMap_cons, h lo (by omega) (by omega),
      ih (lo + 1) (fun j h1 h2 => h j (by omega) (by omega))]

theorem range'_split (lo n l : Nat) (h : l ≤ n) :
    List.range' lo n = List.range' lo l ++ List.range' (lo + l) (n - l) := by
  rw [List.range'_append_1]
  congr 1; omega

/-! ## values at the three kinds of index -/

theorem p1_normal {x : Nat → Nat} {rs : List (Nat × Nat)} {i : Nat}
    (h : startAt rs i = none ∧ inRunB rs i = false) : p1 x rs i = writeLogCount (logCount (x i)) := by
  simp [p1, h.1, h.2]

theorem codeAt_normal {x : Nat → Nat} {rs : List (Nat × Nat)} {i : Nat}
    (h : startAt rs i = none ∧ inRunB rs i = false) : codeAt x rs i = logCount (x i) := by
  simp [codeAt, h.1, h.2]

theorem p1_past (x : Nat → Nat) (s l : Nat) (tl : List (Nat × Nat)) (i : Nat) (h : s + l ≤ i)
    (hl : 1 ≤ l) : p1 x ((s, l) :: tl) i = p1 x tl i := by
  have := kind_past s l tl i h hl
  simp only [p1, this.1, this.2]

theorem codeAt_past (x : Nat → Nat) (s l : Nat) (tl : List (Nat × Nat)) (i : Nat) (h : s + l ≤ i)
    (hl : 1 ≤ l) : codeAt x ((s, l) :: tl) i = codeAt x tl i := by
  have := kind_past s l tl i h hl
  simp only [codeAt, this.1, this.2]

/-- the bits of a whole run -/
theorem p1_run (x : Nat → Nat) (s l : Nat) (tl : List (Nat × Nat)) (hl : 1 ≤ l)
    (htl : ∀ r ∈ tl, s + l < r.1) :
    (List.range' s l).flatMap (p1 x ((s, l) :: tl)) = writeLogCount 13 ++ writeU8 (l - 4) := by
  obtain ⟨l', rfl⟩ : ∃ l', l = l' + 1 := ⟨l - 1, by omega⟩
  rw [List.range'_succ, List.flatMap_cons]
  have h0 : p1 x ((s, l' + 1) :: tl) s = writeLogCount 13 ++ writeU8 (l' + 1 - 4) := by
    have := kind_start s (l' + 1) tl hl
    simp only [p1, this.1]
  have h1 : (List.range' (s + 1) l').flatMap (p1 x ((s, l' + 1) :: tl)) = [] := by
    rw [List.flatMap_eq_nil_iff]
    intro j hj
    rw [List.mem_range'_1] at hj
    have := kind_inside s (l' + 1) tl j (by omega) (by omega) htl
    simp [p1, this.1, this.2]
  rw [h0, h1, List.append_nil]

/-- the codes of a whole run -/
theorem codeAt_run (x : Nat → Nat) (s l : Nat) (tl : List (Nat × Nat)) (hl : 1 ≤ l)
    (htl : ∀ r ∈ tl, s + l < r.1) :
    (List.range' s l).map (codeAt x ((s, l) :: tl)) = 13 :: List.replicate (l - 1) 0 := by
  obtain ⟨l', rfl⟩ : ∃ l', l = l' + 1 := ⟨l - 1, by omega⟩
  rw [List.range'_succ, List.map_cons]
  have h0 : codeAt x ((s, l' + 1) :: tl) s = 13 := by
    have := kind_start s (l' + 1) tl hl
    simp only [codeAt, this.1]
  have h1 : (List.range' (s + 1) l').map (codeAt x ((s, l' + 1) :: tl)) = List.replicate l' 0 := by
    rw [List.eq_replicate_iff]
    refine ⟨by simp, ?_⟩
    intro b hb
    rw [List.mem_map] at hb
    obtain ⟨j, hj, rfl⟩ := hb
    rw [List.mem_range'_1] at hj
    have := kind_inside s (l' + 1) tl j (by omega) (by omega) htl
    simp [codeAt, this.1, this.2]
  rw [h0, h1]
  simp

/-! ## unfolding `readLogCounts` -/

theorem readLogCounts_done (a f idx : Nat) (st : LogState) (s : Bits) (h : idx ≥ a) :
    readLogCounts a f idx st s = .ok (st, s) := by
  cases f with
  | zero => rfl
  | succ f => rw [readLogCounts, if_pos h]

theorem readLogCounts_norm (a f idx : Nat) (st : LogState) (c : Nat) (rest : Bits) (h : idx < a)
    (hc : c ≤ 12) :
    readLogCounts a (f + 1) idx st (writeLogCount c ++ rest)
      = readLogCounts a f (idx + 1)
          { codes := c :: st.codes, runs := st.runs, omitD := omNext st.omitD c idx } rest := by
  rw [readLogCounts, if_neg (by omega), readLogCount_write c (by omega)]
  simp only
  rw [if_neg (by omega)]
  rfl

theorem readLogCounts_run (a f idx : Nat) (st : LogState) (l : Nat) (rest : Bits)
    (hl4 : 4 ≤ l) (hl : l ≤ 259) (hin : idx + l ≤ a) :
    readLogCounts a (f + 1) idx st (writeLogCount 13 ++ writeU8 (l - 4) ++ rest)
      = readLogCounts a f (idx + l)
          { codes := List.replicate (l - 1) 0 ++ 13 :: st.codes, runs := (idx, idx + l) :: st.runs,
            omitD := st.omitD } rest := by
  rw [readLogCounts, if_neg (by omega), List.append_assoc, readLogCount_write 13 (by omega)]
  simp only
  rw [if_pos trivial, readU8_writeU8 (l - 4) (by omega)]
  simp only
  have e : l - 4 + 4 = l := by omega
  rw [e, if_neg (by omega)]

/-! ## the omitted position -/

/-- what the decoder knows about the omitted position before index `i` -/
def OmInv (x : Nat → Nat) (op i : Nat) (om : Option (Nat × Nat)) : Prop :=
  if i ≤ op then (om = none ∨ ∃ c p, om = some (c, p) ∧ c < logCount (x op))
  else om = some (logCount (x op), op)

theorem OmInv.step {x : Nat → Nat} {op i : Nat} {om : Option (Nat × Nat)}
    (hmax : ∀ j, logCount (x j) ≤ logCount (x op))
    (hfirst : ∀ j, j < op → logCount (x j) < logCount (x op))
    (h : OmInv x op i om) : OmInv x op (i + 1) (omNext om (logCount (x i)) i) := by
  unfold OmInv at h ⊢
  by_cases h1 : i ≤ op
  · rw [if_pos h1] at h
    by_cases h2 : i + 1 ≤ op
    · rw [if_pos h2]
      have hlt := hfirst i (by omega)
      rcases h with h | ⟨c, p, h, hc⟩
      · subst h
        exact Or.inr ⟨_, _, rfl, hlt⟩
      · subst h
        simp only [omNext]
        by_cases h3 : logCount (x i) > c
        · rw [if_pos h3]; exact Or.inr ⟨_, _, rfl, hlt⟩
        · rw [if_neg h3]; exact Or.inr ⟨_, _, rfl, hc⟩
    · rw [if_neg h2]
      have : i = op := by omega
      subst this
      rcases h with h | ⟨c, p, h, hc⟩
      · subst h; rfl
      · subst h
        simp only [omNext]
        rw [if_pos hc]
  · rw [if_neg h1] at h
    rw [if_neg (by omega)]
    subst h
    simp only [omNext]
    have := hmax i
    rw [if_neg (by omega)]

theorem OmInv.skip {x : Nat → Nat} {op i i' : Nat} {om : Option (Nat × Nat)}
    (hno : ∀ j, i ≤ j → j < i' → j ≠ op) (hle : i ≤ i') (h : OmInv x op i om) : OmInv x op i' om := by
  unfold OmInv at h ⊢
  by_cases h1 : i ≤ op
  · rw [if_pos h1] at h
    have : i' ≤ op := by
      rcases Nat.lt_or_ge op i' with h2 | h2
      · exact absurd rfl (hno op h1 h2)
      · exact h2
    rw [if_pos this]; exact h
  · rw [if_neg h1] at h
    rw [if_neg (by omega)]; exact h

/-! ## the loop -/

theorem readLogCounts_main (x : Nat → Nat) (op a : Nat)
    (hlc : ∀ j, logCount (x j) ≤ 12)
    (hmax : ∀ j, logCount (x j) ≤ logCount (x op))
    (hfirst : ∀ j, j < op → logCount (x j) < logCount (x op)) :
    ∀ (n i : Nat) (rs : List (Nat × Nat)) (st : LogState) (f : Nat) (rest : Bits),
      i + n = a → n ≤ f → RunsOK x op a i rs → OmInv x op i st.omitD →
      ∃ om, readLogCounts a f i st ((List.range' i n).flatMap (p1 x rs) ++ rest)
          = .ok (⟨((List.range' i n).map (codeAt x rs)).reverse ++ st.codes,
                  (rs.map runConv).reverse ++ st.runs, om⟩, rest)
        ∧ OmInv x op (i + n) om := by
  intro n
  induction n using Nat.strong_induction_on with
  | _ n ih =>
  intro i rs st f rest hia hnf hrs hom
  cases n with
  | zero =>
    have hrs0 : rs = [] := by
      cases rs with
      | nil => rfl
      | cons r tl =>
        have h1 := hrs.1
        have h2 := hrs.2.1.inA
        have h3 := hrs.2.1.len4
        omega
    subst hrs0
    refine ⟨st.omitD, ?_, hom⟩
    rw [readLogCounts_done a f i st _ (by omega)]
    simp
  | succ n =>
    obtain ⟨f, rfl⟩ : ∃ f', f = f' + 1 := ⟨f - 1, by omega⟩
    -- a normal index
    have hnormal : RunsOK x op a (i + 1) rs →
        ∃ om, readLogCounts a (f + 1) i st ((List.range' i (n + 1)).flatMap (p1 x rs) ++ rest)
          = .ok (⟨((List.range' i (n + 1)).map (codeAt x rs)).reverse ++ st.codes,
                  (rs.map runConv).reverse ++ st.runs, om⟩, rest)
        ∧ OmInv x op (i + (n + 1)) om := by
      intro hrs'
      have hk := kind_before rs i (fun r hr => by have := hrs'.start_ge r hr; omega)
      rw [List.range'_succ, List.flatMap_cons, List.map_cons, p1_normal hk, codeAt_normal hk,
        List.append_assoc, readLogCounts_norm a f i st _ _ (by omega) (hlc i)]
      obtain ⟨om, h1, h2⟩ := ih n (by omega) (i + 1) rs
        { codes := logCount (x i) :: st.codes, runs := st.runs,
          omitD := omNext st.omitD (logCount (x i)) i } f rest (by omega) (by omega) hrs'
        (hom.step hmax hfirst)
      refine ⟨om, ?_, ?_⟩
      · rw [h1]; simp
      · have e : i + (n + 1) = i + 1 + n := by omega
        rw [e]; exact h2
    cases rs with
    | nil => exact hnormal trivial
    | cons r tl =>
      obtain ⟨s, l⟩ := r
      by_cases hs : s = i
      · subst hs
        have hok := hrs.2.1
        have hl4 : 4 ≤ l := hok.len4
        have hl259 : l ≤ 259 := hok.len259
        have hin : s + l ≤ a := hok.inA
        have htl : ∀ r ∈ tl, s + l < r.1 := fun r hr => by
          have := hrs.2.2.start_ge r hr
          simp only at this; omega
        rw [range'_split s (n + 1) l (by omega), List.flatMap_append, List.map_append,
          p1_run x s l tl (by omega) htl, codeAt_run x s l tl (by omega) htl,
          range'_flatMap_congr (p1 x ((s, l) :: tl)) (p1 x tl) _ _
            (fun j h1 _ => p1_past x s l tl j h1 (by omega)),
          range'_map_congr (codeAt x ((s, l) :: tl)) (codeAt x tl) _ _
            (fun j h1 _ => codeAt_past x s l tl j h1 (by omega)),
          List.append_assoc, readLogCounts_run a f s st l _ hl4 hl259 hin]
        obtain ⟨om, h1, h2⟩ := ih (n + 1 - l) (by omega) (s + l) tl
          { codes := List.replicate (l - 1) 0 ++ 13 :: st.codes, runs := (s, s + l) :: st.runs,
            omitD := st.omitD } f rest (by omega) (by omega)
          (hrs.2.2.mono (by simp only; omega))
          (hom.skip (fun j h1 h2 => hok.noOp j h1 h2) (by omega))
        refine ⟨om, ?_, ?_⟩
        · rw [h1]
          simp [runConv, List.reverse_replicate]
        · have e : s + (n + 1) = s + l + (n + 1 - l) := by omega
          rw [e]; exact h2
      · have h1 := hrs.1
        exact hnormal ⟨by simp only at h1 ⊢; omega, hrs.2.1, hrs.2.2⟩

end Jxl.Entropy
