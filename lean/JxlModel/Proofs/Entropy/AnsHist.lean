import JxlModel.Proofs.Entropy.AnsHistDist
/-!
# General ANS histogram header — the decoder reads back what the encoder wrote

`parseAnsDist_general`: `parseAnsDist la (writeGeneral d shift rle ++ rest)` is `d` padded with
zeros to the table size, with alphabet size `generalAlphabet d`.
-/
namespace Jxl.Entropy
open Jxl Jxl.Enc

/-- every entry except the omitted one is exactly representable with the mantissa bits that
`shift` transmits -/
def ReprOK (shift : Nat) (d : List Nat) : Prop :=
  ∀ i, i ≠ omitPos d → d.getD i 0 ≤ 1 ∨
    d.getD i 0 / 2 ^ ((logCount (d.getD i 0) - 1) - mantissaBits shift (logCount (d.getD i 0)))
      * 2 ^ ((logCount (d.getD i 0) - 1) - mantissaBits shift (logCount (d.getD i 0))) = d.getD i 0

/-! ## `ReprOK` for the two ways the encoder picks `shift` -/

theorem reprOK_13 (d : List Nat) (h : ∀ x ∈ d, x ≤ 4096) : ReprOK 13 d := by
  intro i _
  by_cases h1 : d.getD i 0 ≤ 1
  · exact Or.inl h1
  · right
    have hv : d.getD i 0 ≤ 4096 := by
      by_cases hi : i < d.length
      · rw [getD_eq_getElem' _ _ hi]; exact h _ (List.getElem_mem hi)
      · rw [List.getD_eq_getElem?_getD, List.getElem?_eq_none (by omega)]; simp
    generalize d.getD i 0 = v at *
    have h0 : v ≠ 0 := by omega
    have hlog : Nat.log2 v < 13 := log2_lt_of_lt_pow h0 (by omega)
    have hz : (logCount v - 1) - mantissaBits 13 (logCount v) = 0 := by
      rw [logCount_pos h0]
      unfold mantissaBits
      simp only [Nat.add_sub_cancel]
      omega
    rw [hz]
    simp

theorem reprOK_of_quantize (shift : Nat) (d : List Nat) (h : quantizeForShift shift d = d) :
    ReprOK shift d := by
  intro i hi
  by_cases hlen : i < d.length
  · have hg : (quantizeForShift shift d).getD i 0 = d.getD i 0 := by rw [h]
    unfold quantizeForShift at hg
    simp only [] at hg
    rw [List.getD_eq_getElem?_getD, List.getElem?_set_ne (fun e => hi e.symm),
      ← List.getD_eq_getElem?_getD, getD_eq_getElem' _ _ (by simpa using hlen)] at hg
    simp only [List.getElem_map, List.getElem_zipIdx, Nat.zero_add] at hg
    rw [if_neg_or hi] at hg
    rw [getD_eq_getElem' _ _ hlen] at hg ⊢
    by_cases h1 : d[i] ≤ 1
    · exact Or.inl h1
    · right
      rw [if_neg h1] at hg
      exact hg
  · left
    rw [List.getD_eq_getElem?_getD, List.getElem?_eq_none (by omega)]
    simp
where
  if_neg_or {α : Type} {p q : Prop} [Decidable p] [Decidable q] (hp : ¬ p) {a b : α} :
      (if p ∨ q then a else b) = if q then a else b := by
    by_cases hq : q <;> simp [hp, hq]

/-! ## the encoder's output in terms of `p1`, `p2` -/

/-- the run list `writeGeneral` uses -/
def genRuns (d : List Nat) (rle : Bool) : List (Nat × Nat) :=
  if rle then
    findRuns (omitPos d) (d ++ List.replicate (generalAlphabet d - d.length) 0).toArray
      (generalAlphabet d) (generalAlphabet d + 1) 0 []
  else []

theorem genArr_get (d : List Nat) (n i : Nat) :
    (d ++ List.replicate n 0).toArray[i]! = d.getD i 0 := by
  rw [List.getElem!_toArray, List.getElem!_eq_getElem?_getD, ← List.getD_eq_getElem?_getD]
  exact getD_append_zeros d n i

theorem writeGeneral_eq (d : List Nat) (shift : Nat) (rle : Bool) :
    writeGeneral d shift rle = [false, false] ++ writeShift shift ++ writeU8 (generalAlphabet d - 3)
      ++ (List.range (generalAlphabet d)).flatMap (p1 (fun i => d.getD i 0) (genRuns d rle))
      ++ (List.range (generalAlphabet d)).flatMap
          (p2 (fun i => d.getD i 0) shift (omitPos d) (genRuns d rle)) := by
  unfold writeGeneral
  simp only []
  congr 2
  · congr 1
    funext i
    unfold p1 startAt inRunB genRuns
    rw [genArr_get]
    generalize List.find? _ _ = o
    cases o with
    | none => rfl
    | some r => obtain ⟨s, l⟩ := r; rfl
  · funext i
    unfold p2 inRunB genRuns
    simp only [genArr_get]

theorem genRuns_ok (d : List Nat) (rle : Bool) (ha : generalAlphabet d ≤ 256) :
    RunsOK (fun i => d.getD i 0) (omitPos d) (generalAlphabet d) 0 (genRuns d rle) := by
  unfold genRuns
  cases rle with
  | false => exact trivial
  | true =>
    rw [if_pos rfl]
    obtain ⟨rs, h1, h2, _⟩ := findRuns_spec (omitPos d)
      (d ++ List.replicate (generalAlphabet d - d.length) 0).toArray (generalAlphabet d) ha
      (generalAlphabet d + 1) 0 []
    rw [h1]
    have hx : (fun k => (d ++ List.replicate (generalAlphabet d - d.length) 0).toArray[k]!)
        = fun i => d.getD i 0 := by
      funext k; exact genArr_get d _ k
    rw [hx] at h2
    simpa using h2

/-! ## the shift field -/

theorem readShift_inv {s r : Bits} {v : Nat} (h : readShift s = .ok (v, r)) :
    ∃ len s3 sb, readShiftLen 3 0 s = .ok (len, s3) ∧ rbits len s3 = .ok (sb, r) ∧
      sb + 2 ^ len - 1 = v := by
  unfold readShift at h
  cases h1 : readShiftLen 3 0 s with
  | error e => rw [h1] at h; simp at h
  | ok p =>
    obtain ⟨len, s3⟩ := p
    rw [h1] at h
    simp only at h
    cases h2 : rbits len s3 with
    | error e => rw [h2] at h; simp at h
    | ok q =>
      obtain ⟨sb, s4⟩ := q
      rw [h2] at h
      simp only [Except.ok.injEq, Prod.mk.injEq] at h
      exact ⟨len, s3, sb, rfl, by rw [h2, h.2], h.1⟩

/-! ## codes and mantissa bits past the alphabet -/

theorem codes_pad (x : Nat → Nat) (op a T : Nat) (rs : List (Nat × Nat)) (haT : a ≤ T)
    (hrs : RunsOK x op a 0 rs) (hx0 : ∀ j, a ≤ j → x j = 0) :
    (List.range' 0 a).map (codeAt x rs) ++ List.replicate (T - a) 0
      = (List.range' 0 T).map (codeAt x rs) := by
  rw [range'_split 0 T a haT, List.map_append]
  congr 1
  symm
  apply range'_map_const
  intro j h1 _
  have hk := kind_after rs j (fun r hr => by
    have := hrs.all_ok r hr
    have h2 := this.inA
    have h3 := this.len4
    omega)
  rw [codeAt_normal hk, hx0 j (by omega)]
  rfl

theorem p2_pad (x : Nat → Nat) (shift op a T : Nat) (rs : List (Nat × Nat)) (haT : a ≤ T)
    (hx0 : ∀ j, a ≤ j → x j = 0) :
    (List.range a).flatMap (p2 x shift op rs) = (List.range' 0 T).flatMap (p2 x shift op rs) := by
  rw [List.range_eq_range', range'_split 0 T a haT, List.flatMap_append]
  have : (List.range' (0 + a) (T - a)).flatMap (p2 x shift op rs) = [] := by
    rw [List.flatMap_eq_nil_iff]
    intro j hj
    rw [List.mem_range'_1] at hj
    have h0 : logCount (x j) = 0 := by rw [hx0 j (by omega)]; rfl
    unfold p2
    rw [h0]
    simp
  rw [this, List.append_nil]

theorem codeAt_13 {x : Nat → Nat} {rs : List (Nat × Nat)} {j : Nat} (hlc : ∀ j, logCount (x j) ≤ 12)
    (h : codeAt x rs j = 13) : ∃ r ∈ rs, r.1 = j := by
  unfold codeAt at h
  cases hs : startAt rs j with
  | some r => exact ⟨r, startAt_mem hs⟩
  | none =>
    rw [hs] at h
    simp only at h
    have := hlc j
    split at h <;> omega

/-! ## main theorem -/

theorem parseAnsDist_general (la : Nat) (hla : 5 ≤ la ∧ la ≤ 8) (d : List Nat) (shift : Nat) (rle : Bool)
    (hlen : d.length ≤ 2 ^ la) (hsum : d.sum = 4096) (hused : 2 ≤ (usedSyms d).length)
    (hshift : shift ≤ 13) (hq : ReprOK shift d) (rest : Bits) :
    parseAnsDist la (writeGeneral d shift rle ++ rest)
      = .ok (⟨d ++ List.replicate (2 ^ la - d.length) 0, generalAlphabet d⟩, rest) := by
  have hT32 : 2 ^ 5 ≤ 2 ^ la := Nat.pow_le_pow_right (by omega) hla.1
  have hT256 : 2 ^ la ≤ 2 ^ 8 := Nat.pow_le_pow_right (by omega) hla.2
  have ha3 := generalAlphabet_ge d
  have haT : generalAlphabet d ≤ 2 ^ la := by have := generalAlphabet_le d; omega
  have hop := omitPos_lt_alphabet d hsum
  have hd : d ≠ [] := by intro h; subst h; simp at hsum
  have hx4096 := getD_lt_4096 d hsum hused
  have hlc : ∀ j, logCount ((fun i => d.getD i 0) j) ≤ 12 := fun j => logCount_le_12 (hx4096 j)
  have hmax : ∀ j, logCount ((fun i => d.getD i 0) j) ≤ logCount ((fun i => d.getD i 0) (omitPos d)) :=
    (omitPos_spec d hd).1
  have hfirst : ∀ j, j < omitPos d →
      logCount ((fun i => d.getD i 0) j) < logCount ((fun i => d.getD i 0) (omitPos d)) :=
    (omitPos_spec d hd).2
  have hruns := genRuns_ok d rle (by omega)
  have hx0 : ∀ j, generalAlphabet d ≤ j → (fun i => d.getD i 0) j = 0 :=
    fun j hj => getD_zero_of_ge_alphabet d j hj
  have hrepr : ReprFn shift (fun i => d.getD i 0) (omitPos d) := hq
  have htot : sumEx (fun i => d.getD i 0) (omitPos d) 0 (2 ^ la) + (fun i => d.getD i 0) (omitPos d)
      = 4096 := by
    rw [← hsum]; exact sumEx_total d (omitPos d) (2 ^ la) hlen (by omega)
  rw [writeGeneral_eq, p2_pad (fun i => d.getD i 0) shift (omitPos d) (generalAlphabet d) (2 ^ la)
    (genRuns d rle) haT hx0, List.range_eq_range']
  generalize hx : (fun i => d.getD i 0) = x at *
  generalize hrs : genRuns d rle = rs at *
  generalize hop' : omitPos d = op at *
  generalize ha : generalAlphabet d = a at *
  generalize hTT : 2 ^ la = T at *
  generalize hP1 : (List.range' 0 a).flatMap (p1 x rs) = P1
  generalize hP2 : (List.range' 0 T).flatMap (p2 x shift op rs) = P2
  simp only [parseAnsDist, List.cons_append, List.nil_append, rbool_cons, List.append_assoc]
  obtain ⟨len, s3, sb, hsl, hrb, hsh⟩ :=
    readShift_inv (readShift_write shift hshift (writeU8 (a - 3) ++ (P1 ++ (P2 ++ rest))))
  rw [hsl]
  simp only
  rw [hrb]
  simp only
  rw [hsh, if_neg (by omega), readU8_writeU8 (a - 3) (by omega)]
  simp only
  have e3 : a - 3 + 3 = a := by omega
  rw [e3, hTT, if_neg (by omega)]
  -- first loop
  obtain ⟨om, h1, h2⟩ := readLogCounts_main x op a hlc hmax hfirst a 0 rs ⟨[], [], none⟩ (a + 1)
    (P2 ++ rest) (by omega) (by omega) hruns (by unfold OmInv; rw [if_pos (by omega)]; exact Or.inl rfl)
  have hom : om = some (logCount (x op), op) := by
    unfold OmInv at h2; rw [if_neg (by omega)] at h2; exact h2
  rw [hP1] at h1
  rw [h1]
  simp only [hom, List.append_nil, List.reverse_reverse]
  rw [codes_pad x op a T rs haT hruns hx0]
  have hno13 : ¬ (((List.range' 0 T).map (codeAt x rs)).getD (op + 1) 0 = 13 ∧ op + 1 < T) := by
    rintro ⟨h13, hlt⟩
    rw [getD_eq_getElem' _ _ (by simpa using hlt)] at h13
    simp only [List.getElem_map, List.getElem_range', Nat.zero_add, Nat.one_mul] at h13
    obtain ⟨r, hr, hr1⟩ := codeAt_13 hlc h13
    exact (hruns.all_ok r hr).notAfter hr1
  rw [if_neg hno13]
  -- second loop
  obtain ⟨p, r, h3⟩ := readCounts_main x shift op a T hrepr haT T 0 rs
    { runs := rs.map runConv } rest (by omega) (Or.inl ⟨rfl, hruns⟩) rfl (by simp only; omega)
  rw [hP2] at h3
  rw [h3]
  simp only [List.append_nil, List.reverse_reverse, Nat.zero_add]
  have hacc : 4096 - sumEx x op 0 T = x op := by omega
  rw [hacc, set_omit, ← hx, range'_map_getD d T hlen]

end Jxl.Entropy
