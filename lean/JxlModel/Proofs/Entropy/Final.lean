import JxlModel.Proofs.Entropy.AnsHistAll
import JxlModel.Proofs.Entropy.HeaderNested
/-! From the encoder's Boolean `check` to the hypotheses of the header composition:
`HeaderOKD` and `HistRTD` hold for every checked plan whose config / code lists have exactly one
entry per cluster (`ExactD`); a plan with surplus entries is reduced to its trimmed version. -/
namespace Jxl.Entropy
open List Jxl Jxl.Enc

/-- one config and one code per cluster, also in the nested cluster-map plans -/
def ExactD : Nat → EntropyPlan → Prop
  | 0, p => p.configs.length = p.numClusters ∧ p.codes.length = p.numClusters
  | d+1, p => (p.configs.length = p.numClusters ∧ p.codes.length = p.numClusters) ∧
      (match p.clusterInner with | some (_, ip) => ExactD d ip | none => True)

theorem ExactD.lens {d : Nat} {p : EntropyPlan} (h : ExactD d p) :
    p.configs.length = p.numClusters ∧ p.codes.length = p.numClusters := by
  cases d with
  | zero => exact h
  | succ d => exact h.1

/-- the conjuncts of `checkD` that the header needs -/
structure CheckDFacts (depth : Nat) (p : EntropyPlan) (items : List Item) : Prop where
  cmLen : p.clusterMap.length = p.totalDist
  tot : 1 ≤ p.totalDist
  nc256 : p.numClusters ≤ 256
  distinct : distinctCount p.clusterMap = p.numClusters
  ncfg : p.numClusters ≤ p.configs.length
  ncode : p.numClusters ≤ p.codes.length
  cfgs : ∀ c ∈ p.configs.take p.numClusters, c.valid p.logAlpha = true
  inner : match depth, p.clusterInner with
    | d+1, some (mtf, ip) => ip.numDist = 1 ∧ (p.totalDist > 2 ∨ ip.lz77 = none) ∧
        ip.checkD d ((clusterIds mtf p.clusterMap).map fun v => Item.lit 0 v) = true
    | _, some _ => False
    | _, none => p.totalDist = 1 ∨ (p.clusterNbits ≤ 3 ∧ ∀ x ∈ p.clusterMap, x < 2 ^ p.clusterNbits)
  lz : ∀ q, p.lz77 = some q →
      (q.minSymbol = 224 ∨ q.minSymbol = 512 ∨ q.minSymbol = 4096 ∨
        (8 ≤ q.minSymbol ∧ q.minSymbol < 8 + 2 ^ 15)) ∧
      (3 ≤ q.minLength ∧ q.minLength ≤ 264) ∧ q.lenConf.valid 8 = true
  codes : ∀ c ∈ p.codes.take p.numClusters, ∃ tokens, codeOk p.coder tokens c = true

theorem checkDFacts (depth : Nat) (p : EntropyPlan) (items : List Item)
    (h : p.checkD depth items = true) : CheckDFacts depth p items := by
  unfold EntropyPlan.checkD at h
  simp only [Bool.and_eq_true] at h
  obtain ⟨⟨⟨⟨⟨⟨⟨⟨⟨⟨c1, c2⟩, c3⟩, c4⟩, c5⟩, c6⟩, c7⟩, c8⟩, c9⟩, _⟩, c11⟩ := h
  simp only [decide_eq_true_eq, beq_iff_eq] at c1 c2 c3 c4 c5 c6
  refine ⟨c1, c2, c3, c4, c5, c6, ?_, ?_, ?_, ?_⟩
  · rw [all_eq_true] at c7; exact c7
  · cases depth with
    | zero =>
      cases hin : p.clusterInner with
      | none =>
        rw [hin] at c8
        simp only [Bool.or_eq_true, beq_iff_eq, Bool.and_eq_true, decide_eq_true_eq, all_eq_true] at c8
        exact c8
      | some mi => rw [hin] at c8; simp at c8
    | succ d =>
      cases hin : p.clusterInner with
      | none =>
        rw [hin] at c8
        simp only [Bool.or_eq_true, beq_iff_eq, Bool.and_eq_true, decide_eq_true_eq, all_eq_true] at c8
        exact c8
      | some mi =>
        obtain ⟨mtf, ip⟩ := mi
        rw [hin] at c8
        simp only [Bool.and_eq_true, beq_iff_eq, Bool.or_eq_true, decide_eq_true_eq,
          Option.isNone_iff_eq_none] at c8
        exact ⟨c8.1.1, c8.1.2, c8.2⟩
  · intro q hq
    rw [hq] at c9
    simp only [Bool.and_eq_true, decide_eq_true_eq, Bool.or_eq_true, beq_iff_eq] at c9
    obtain ⟨⟨⟨⟨⟨h1, h2⟩, h3⟩, h4⟩, _⟩, _⟩ := c9
    exact ⟨by omega, ⟨h2, h3⟩, h1⟩
  · intro c hc
    rw [all_eq_true] at c11
    obtain ⟨i, hi⟩ := List.getElem_of_mem hc
    obtain ⟨hi1, hi2⟩ := hi
    have hmem : (c, i) ∈ (p.codes.take p.numClusters).zipIdx := by
      rw [mem_zipIdx_iff_getElem?, List.getElem?_eq_getElem hi1, hi2]
    exact ⟨_, c11 _ hmem⟩


/-- a deeper nesting allowance accepts at least the same plans -/
theorem checkD_succ : ∀ (d : Nat) (p : EntropyPlan) (items : List Item),
    p.checkD d items = true → p.checkD (d + 1) items = true := by
  intro d
  induction d with
  | zero =>
    intro p items h
    unfold EntropyPlan.checkD at h ⊢
    simp only [Bool.and_eq_true] at h ⊢
    obtain ⟨⟨⟨⟨⟨⟨⟨⟨⟨⟨c1, c2⟩, c3⟩, c4⟩, c5⟩, c6⟩, c7⟩, c8⟩, c9⟩, c10⟩, c11⟩ := h
    refine ⟨⟨⟨⟨⟨⟨⟨⟨⟨⟨c1, c2⟩, c3⟩, c4⟩, c5⟩, c6⟩, c7⟩, ?_⟩, c9⟩, c10⟩, c11⟩
    cases hin : p.clusterInner with
    | none => rw [hin] at c8; exact c8
    | some mi => rw [hin] at c8; simp at c8
  | succ d ih =>
    intro p items h
    unfold EntropyPlan.checkD at h ⊢
    simp only [Bool.and_eq_true] at h ⊢
    obtain ⟨⟨⟨⟨⟨⟨⟨⟨⟨⟨c1, c2⟩, c3⟩, c4⟩, c5⟩, c6⟩, c7⟩, c8⟩, c9⟩, c10⟩, c11⟩ := h
    refine ⟨⟨⟨⟨⟨⟨⟨⟨⟨⟨c1, c2⟩, c3⟩, c4⟩, c5⟩, c6⟩, c7⟩, ?_⟩, c9⟩, c10⟩, c11⟩
    cases hin : p.clusterInner with
    | none => rw [hin] at c8; exact c8
    | some mi =>
      obtain ⟨mtf, ip⟩ := mi
      rw [hin] at c8
      simp only [Bool.and_eq_true] at c8 ⊢
      exact ⟨c8.1, ih _ _ c8.2⟩

theorem checkD_mono (d d' : Nat) (hle : d ≤ d') (p : EntropyPlan) (items : List Item)
    (h : p.checkD d items = true) : p.checkD d' items = true := by
  induction d' with
  | zero =>
    have : d = 0 := by omega
    subst this; exact h
  | succ n ih =>
    by_cases hd : d = n + 1
    · subst hd; exact h
    · exact checkD_succ n p items (ih (by omega))


/-! ## `HeaderOKD` from `check` -/

theorem noHole_of_distinct (cm : List Nat) (h : distinctCount cm = listMax cm + 1) :
    ∀ k, k < listMax cm + 1 → k ∈ cm := by
  apply (checkClusters_ok_iff cm).1
  unfold checkClusters
  simp only
  rw [if_neg (by simpa using h)]

theorem cm_single (cm : List Nat) (hl : cm.length = 1) (h : distinctCount cm = listMax cm + 1) :
    cm = [0] := by
  obtain ⟨x, rfl⟩ := List.length_eq_one_iff.1 hl
  have := noHole_of_distinct [x] h 0 (by omega)
  simp at this
  rw [← this]

/-- the fields of `HeaderOK` / `HeaderOKD` that do not concern the cluster map coding -/
theorem top_fields (depth : Nat) (p : EntropyPlan) (items : List Item)
    (F : CheckDFacts depth p items)
    (hex : p.configs.length = p.numClusters ∧ p.codes.length = p.numClusters) :
    (∀ c ∈ p.configs, c.valid p.logAlpha = true) ∧
    (match p.coder with | .prefix => True | .ans la => 5 ≤ la ∧ la ≤ 8) ∧
    (∀ k, k < p.numClusters → k ∈ p.clusterMap) := by
  refine ⟨?_, ?_, ?_⟩
  · intro c hc
    have : p.configs.take p.numClusters = p.configs := by rw [← hex.1, take_length]
    exact F.cfgs c (by rw [this]; exact hc)
  · cases hc : p.coder with
    | «prefix» => trivial
    | ans la =>
      simp only
      have hnc : 1 ≤ p.numClusters := by unfold EntropyPlan.numClusters; omega
      have hne : p.codes.take p.numClusters ≠ [] := by
        intro h
        have := congrArg List.length h
        rw [List.length_take, hex.2] at this
        simp at this
        omega
      obtain ⟨c0, r, hcr⟩ := List.exists_cons_of_ne_nil hne
      obtain ⟨tokens, hok⟩ := F.codes c0 (by rw [hcr]; simp)
      rw [hc] at hok
      cases c0 with
      | lengths count lens form => simp [codeOk] at hok
      | auto a b => simp [codeOk] at hok
      | dist d form =>
        simp only [codeOk, Bool.and_eq_true, decide_eq_true_eq] at hok
        exact ⟨hok.1.1.1.1, hok.1.1.1.2⟩
  · exact noHole_of_distinct p.clusterMap F.distinct

theorem headerOKD_of_check : ∀ (depth : Nat), depth ≤ planDepth → ∀ (p : EntropyPlan)
    (items : List Item), p.checkD depth items = true → ExactD depth p → HeaderOKD depth p := by
  intro depth
  induction depth with
  | zero =>
    intro _ p items h hex
    have F := checkDFacts 0 p items h
    obtain ⟨t1, t2, t3⟩ := top_fields 0 p items F hex
    have hin := F.inner
    cases hci : p.clusterInner with
    | some mi => rw [hci] at hin; exact absurd hin id
    | none =>
      rw [hci] at hin
      simp only at hin
      refine ⟨hex, F.cmLen, t1, t2, F.lz, t3, hci, ?_⟩
      by_cases h1 : p.totalDist = 1
      · rw [if_pos h1]
        exact cm_single p.clusterMap (by rw [F.cmLen, h1]) F.distinct
      · rw [if_neg h1]
        rcases hin with h | h
        · exact absurd h h1
        · exact h
  | succ d ih =>
    intro hd p items h hex
    have F := checkDFacts (d + 1) p items h
    obtain ⟨t1, t2, t3⟩ := top_fields (d + 1) p items F hex.1
    have hin := F.inner
    refine ⟨hex.1, F.cmLen, t1, t2, F.lz, t3, ?_⟩
    cases hci : p.clusterInner with
    | none =>
      rw [hci] at hin
      simp only at hin ⊢
      by_cases h1 : p.totalDist = 1
      · rw [if_pos h1]
        exact cm_single p.clusterMap (by rw [F.cmLen, h1]) F.distinct
      · rw [if_neg h1]
        rcases hin with h | h
        · exact absurd h h1
        · exact h
    | some mi =>
      obtain ⟨mtf, ip⟩ := mi
      rw [hci] at hin
      simp only at hin ⊢
      have hexin := hex.2
      rw [hci] at hexin
      simp only at hexin
      by_cases h1 : p.totalDist = 1
      · rw [if_pos h1]
        exact cm_single p.clusterMap (by rw [F.cmLen, h1]) F.distinct
      · rw [if_neg h1]
        refine ⟨hin.1, hin.2.1, ?_, ih (by omega) ip _ hin.2.2 hexin, ?_⟩
        · intro x hx
          have := le_listMax p.clusterMap x hx
          have := F.nc256
          unfold EntropyPlan.numClusters at this
          omega
        · exact checkD_mono d planDepth (by omega) ip _ hin.2.2


/-! ## `HistRTD` from `check` -/

theorem histRT_of_check (depth : Nat) (p : EntropyPlan) (items : List Item)
    (F : CheckDFacts depth p items)
    (hex : p.configs.length = p.numClusters ∧ p.codes.length = p.numClusters) : HistRT p := by
  have htake : p.codes.take p.numClusters = p.codes := by rw [← hex.2, take_length]
  unfold HistRT
  cases hc : p.coder with
  | «prefix» =>
    simp only
    intro c hcm
    obtain ⟨tokens, hok⟩ := F.codes c (by rw [htake]; exact hcm)
    rw [hc] at hok
    cases c with
    | dist d form => simp [codeOk] at hok
    | auto a b => simp [codeOk] at hok
    | lengths count lens form =>
      have hrt := prefix_histogram_rt count lens form tokens hok
      simp only [codeOk, Bool.and_eq_true, decide_eq_true_eq] at hok
      exact ⟨count, lens, form, rfl, hok.1.1.1.1.2, hok.1.1.1.2, hrt⟩
  | ans la =>
    simp only
    intro c hcm
    obtain ⟨tokens, hok⟩ := F.codes c (by rw [htake]; exact hcm)
    rw [hc] at hok
    cases c with
    | lengths count lens form => simp [codeOk] at hok
    | auto a b => simp [codeOk] at hok
    | dist d form => exact ⟨d, form, rfl, ans_histogram_rt la d form tokens hok⟩

theorem histRTD_of_check : ∀ (depth : Nat) (p : EntropyPlan) (items : List Item),
    p.checkD depth items = true → ExactD depth p → HistRTD depth p := by
  intro depth
  induction depth with
  | zero =>
    intro p items h hex
    exact histRT_of_check 0 p items (checkDFacts 0 p items h) hex
  | succ d ih =>
    intro p items h hex
    have F := checkDFacts (d + 1) p items h
    refine ⟨histRT_of_check (d + 1) p items F hex.1, ?_⟩
    have hin := F.inner
    have hexin := hex.2
    cases hci : p.clusterInner with
    | none => trivial
    | some mi =>
      obtain ⟨mtf, ip⟩ := mi
      rw [hci] at hin hexin
      simp only at hin hexin ⊢
      exact ih ip _ hin.2.2 hexin


/-! ## surplus configs / codes: trimming -/

/-- drop the configs and codes beyond the number of clusters (they are never written), also in
the nested cluster-map plans -/
def trimD : Nat → EntropyPlan → EntropyPlan
  | 0, p => { p with configs := p.configs.take p.numClusters, codes := p.codes.take p.numClusters }
  | d+1, p =>
    { p with configs := p.configs.take p.numClusters, codes := p.codes.take p.numClusters,
             clusterInner := match p.clusterInner with
               | some (mtf, ip) => some (mtf, trimD d ip)
               | none => none }

@[simp] theorem trimD_numDist (d : Nat) (p : EntropyPlan) : (trimD d p).numDist = p.numDist := by
  cases d <;> rfl
@[simp] theorem trimD_lz77 (d : Nat) (p : EntropyPlan) : (trimD d p).lz77 = p.lz77 := by
  cases d <;> rfl
@[simp] theorem trimD_clusterMap (d : Nat) (p : EntropyPlan) :
    (trimD d p).clusterMap = p.clusterMap := by cases d <;> rfl
@[simp] theorem trimD_clusterNbits (d : Nat) (p : EntropyPlan) :
    (trimD d p).clusterNbits = p.clusterNbits := by cases d <;> rfl
@[simp] theorem trimD_coder (d : Nat) (p : EntropyPlan) : (trimD d p).coder = p.coder := by
  cases d <;> rfl
@[simp] theorem trimD_numClusters (d : Nat) (p : EntropyPlan) :
    (trimD d p).numClusters = p.numClusters := by cases d <;> rfl
@[simp] theorem trimD_totalDist (d : Nat) (p : EntropyPlan) :
    (trimD d p).totalDist = p.totalDist := by cases d <;> rfl
@[simp] theorem trimD_logAlpha (d : Nat) (p : EntropyPlan) :
    (trimD d p).logAlpha = p.logAlpha := by cases d <;> rfl
@[simp] theorem trimD_configs (d : Nat) (p : EntropyPlan) :
    (trimD d p).configs = p.configs.take p.numClusters := by cases d <;> rfl
@[simp] theorem trimD_codes (d : Nat) (p : EntropyPlan) :
    (trimD d p).codes = p.codes.take p.numClusters := by cases d <;> rfl
@[simp] theorem trimD_clusterOf (d : Nat) (p : EntropyPlan) (c : Nat) :
    (trimD d p).clusterOf c = p.clusterOf c := by cases d <;> rfl
@[simp] theorem trimD_lzCluster (d : Nat) (p : EntropyPlan) :
    (trimD d p).lzCluster = p.lzCluster := by cases d <;> rfl
theorem trimD_inner_zero (p : EntropyPlan) : (trimD 0 p).clusterInner = p.clusterInner := rfl
theorem trimD_inner_succ (d : Nat) (p : EntropyPlan) :
    (trimD (d + 1) p).clusterInner = match p.clusterInner with
      | some (mtf, ip) => some (mtf, trimD d ip)
      | none => none := rfl

theorem getD_take_of_lt {α : Type} (l : List α) (n i : Nat) (dflt : α) (h : i < n) :
    (l.take n).getD i dflt = l.getD i dflt := by
  rw [List.getD_eq_getElem?_getD, List.getD_eq_getElem?_getD, List.getElem?_take_of_lt h]

theorem trimD_config (d : Nat) (p : EntropyPlan) (c : Nat) (h : c < p.numClusters) :
    (trimD d p).config c = p.config c := by
  unfold EntropyPlan.config
  rw [trimD_configs, getD_take_of_lt _ _ _ _ h]

theorem trimD_toks (d : Nat) (p : EntropyPlan) (items : List Item) :
    (trimD d p).toks items = p.toks items := by
  unfold EntropyPlan.toks
  congr 1
  funext i
  cases i with
  | lit c v =>
    simp only [EntropyPlan.itemToks, trimD_clusterOf, trimD_config d p _ (clusterOf_lt p c)]
  | copy c len dc =>
    simp only [EntropyPlan.itemToks, trimD_lz77, trimD_clusterOf, trimD_lzCluster,
      trimD_config d p _ (lzCluster_lt p)]

/-! ### the symbol stream does not depend on the surplus entries -/

theorem encodeToksPrefix_congr (cs cs' : List PrefixCode) (n : Nat)
    (hag : ∀ i, i < n → cs'.getD i default = cs.getD i default) :
    ∀ ts : List Tok, (∀ t ∈ ts, t.cluster < n) →
    encodeToksPrefix cs' ts = encodeToksPrefix cs ts := by
  intro ts
  induction ts with
  | nil => intro _; rfl
  | cons t r ih =>
    intro h
    simp only [encodeToksPrefix]
    rw [hag _ (h t (by simp)), ih (fun t' ht' => h t' (by simp [ht']))]

theorem encodeToksAns_congr (hs hs' : List AnsHist) (rv rv' : List (Array (Array Nat))) (n : Nat)
    (hag : ∀ i, i < n → hs'.getD i default = hs.getD i default)
    (hag2 : ∀ i, i < n → rv'.getD i #[] = rv.getD i #[]) :
    ∀ ts : List Tok, (∀ t ∈ ts, t.cluster < n) →
    encodeToksAns hs' rv' ts = encodeToksAns hs rv ts := by
  intro ts
  induction ts with
  | nil => intro _; rfl
  | cons t r ih =>
    intro h
    simp only [encodeToksAns]
    rw [hag _ (h t (by simp)), hag2 _ (h t (by simp)), ih (fun t' ht' => h t' (by simp [ht']))]

theorem getD_map_take {α β : Type} (l : List α) (f : α → β) (n i : Nat) (dflt : β) (h : i < n) :
    ((l.take n).map f).getD i dflt = (l.map f).getD i dflt := by
  rw [List.getD_eq_getElem?_getD, List.getD_eq_getElem?_getD, List.getElem?_map, List.getElem?_map,
    List.getElem?_take_of_lt h]

theorem trimD_encodeToks (d : Nat) (p : EntropyPlan) (ts : List Tok)
    (h : ∀ t ∈ ts, t.cluster < p.numClusters) :
    encodeToks (trimD d p) ts = encodeToks p ts := by
  unfold encodeToks
  rw [trimD_coder, trimD_codes]
  cases hc : p.coder with
  | «prefix» =>
    simp only
    exact encodeToksPrefix_congr _ _ p.numClusters
      (fun i hi => getD_map_take _ _ _ _ _ hi) ts h
  | ans la =>
    simp only
    rw [encodeToksAns_congr (p.codes.map (CodeSpec.ansHist la))
      ((p.codes.take p.numClusters).map (CodeSpec.ansHist la))
      ((p.codes.map (CodeSpec.ansHist la)).map fun h => buildRev h (2 ^ la))
      (((p.codes.take p.numClusters).map (CodeSpec.ansHist la)).map fun h => buildRev h (2 ^ la))
      p.numClusters (fun i hi => getD_map_take _ _ _ _ _ hi)
      (fun i hi => by
        rw [List.map_map, List.map_map]
        exact getD_map_take _ _ _ _ _ hi) ts h]

theorem trimD_encodeItems (d : Nat) (p : EntropyPlan) (items : List Item) :
    encodeItems (trimD d p) items = encodeItems p items := by
  unfold encodeItems
  rw [trimD_toks, trimD_encodeToks d p _ (fun t ht => tok_cluster_lt p items t ht)]

theorem trimD_encodeSymbols (d : Nat) (p : EntropyPlan) (syms : List (Nat × Nat)) :
    encodeSymbols (trimD d p) syms = encodeSymbols p syms := by
  unfold encodeSymbols
  exact trimD_encodeItems d p _


/-! ### the header does not depend on the surplus entries -/

theorem trimD_encodeCodes (d : Nat) (p : EntropyPlan) : encodeCodes (trimD d p) = encodeCodes p := by
  unfold encodeCodes
  simp only [trimD_numClusters, trimD_logAlpha, trimD_coder, trimD_configs, trimD_codes,
    List.take_take, Nat.min_self]

theorem trimD_encodeClusterMapD : ∀ (d : Nat) (p : EntropyPlan),
    encodeClusterMapD d (trimD d p) = encodeClusterMapD d p := by
  intro d
  induction d with
  | zero =>
    intro p
    simp only [encodeClusterMapD, trimD_totalDist, trimD_clusterNbits, trimD_clusterMap]
  | succ d ih =>
    intro p
    simp only [encodeClusterMapD, trimD_totalDist, trimD_clusterNbits, trimD_clusterMap,
      trimD_inner_succ]
    cases hci : p.clusterInner with
    | none => rfl
    | some mi =>
      obtain ⟨mtf, ip⟩ := mi
      simp only [trimD_lz77, ih ip, trimD_encodeCodes, trimD_encodeSymbols]

theorem trimD_encodeHeaderD (d : Nat) (p : EntropyPlan) :
    encodeHeaderD d (trimD d p) = encodeHeaderD d p := by
  unfold encodeHeaderD
  rw [trimD_lz77, trimD_encodeClusterMapD, trimD_encodeCodes]

/-! ### the trimmed plan passes the same check and is exact -/

theorem trimD_checkD : ∀ (d : Nat) (p : EntropyPlan) (items : List Item),
    p.checkD d items = true → (trimD d p).checkD d items = true := by
  intro d
  induction d with
  | zero =>
    intro p items h
    unfold EntropyPlan.checkD at h ⊢
    simp only [Bool.and_eq_true] at h ⊢
    obtain ⟨⟨⟨⟨⟨⟨⟨⟨⟨⟨c1, c2⟩, c3⟩, c4⟩, c5⟩, c6⟩, c7⟩, c8⟩, c9⟩, c10⟩, c11⟩ := h
    simp only [decide_eq_true_eq] at c5 c6
    simp only [trimD_clusterMap, trimD_totalDist, trimD_numClusters, trimD_configs, trimD_codes,
      trimD_logAlpha, trimD_lz77, trimD_numDist, trimD_clusterNbits, trimD_coder, trimD_toks,
      trimD_clusterOf, List.take_take, Nat.min_self, List.length_take, trimD_inner_zero]
    refine ⟨⟨⟨⟨⟨⟨⟨⟨⟨⟨c1, c2⟩, c3⟩, c4⟩, by simp; omega⟩, by simp; omega⟩, c7⟩, c8⟩, ?_⟩, c10⟩, c11⟩
    cases hlz : p.lz77 with
    | none => rw [hlz] at c9; exact c9
    | some lz =>
      rw [hlz] at c9
      simp only [Bool.and_eq_true] at c9 ⊢
      refine ⟨c9.1, ?_⟩
      rw [all_eq_true] at *
      intro i hi
      have := c9.2 i hi
      cases i with
      | lit c v => simpa [trimD_config 0 p _ (clusterOf_lt p c)] using this
      | copy c len dc => exact this
  | succ d ih =>
    intro p items h
    unfold EntropyPlan.checkD at h ⊢
    simp only [Bool.and_eq_true] at h ⊢
    obtain ⟨⟨⟨⟨⟨⟨⟨⟨⟨⟨c1, c2⟩, c3⟩, c4⟩, c5⟩, c6⟩, c7⟩, c8⟩, c9⟩, c10⟩, c11⟩ := h
    simp only [decide_eq_true_eq] at c5 c6
    simp only [trimD_clusterMap, trimD_totalDist, trimD_numClusters, trimD_configs, trimD_codes,
      trimD_logAlpha, trimD_lz77, trimD_numDist, trimD_clusterNbits, trimD_coder, trimD_toks,
      trimD_clusterOf, List.take_take, Nat.min_self, List.length_take, trimD_inner_succ]
    refine ⟨⟨⟨⟨⟨⟨⟨⟨⟨⟨c1, c2⟩, c3⟩, c4⟩, by simp; omega⟩, by simp; omega⟩, c7⟩, ?_⟩, ?_⟩, c10⟩, c11⟩
    · cases hci : p.clusterInner with
      | none => rw [hci] at c8; exact c8
      | some mi =>
        obtain ⟨mtf, ip⟩ := mi
        rw [hci] at c8
        simp only [Bool.and_eq_true, trimD_numDist, trimD_lz77] at c8 ⊢
        exact ⟨c8.1, ih ip _ c8.2⟩
    · cases hlz : p.lz77 with
      | none => rw [hlz] at c9; exact c9
      | some lz =>
        rw [hlz] at c9
        simp only [Bool.and_eq_true] at c9 ⊢
        refine ⟨c9.1, ?_⟩
        rw [all_eq_true] at *
        intro i hi
        have := c9.2 i hi
        cases i with
        | lit c v => simpa [trimD_config (d + 1) p _ (clusterOf_lt p c)] using this
        | copy c len dc => exact this

theorem trimD_exact : ∀ (d : Nat) (p : EntropyPlan) (items : List Item),
    p.checkD d items = true → ExactD d (trimD d p) := by
  intro d
  induction d with
  | zero =>
    intro p items h
    have F := checkDFacts 0 p items h
    have h1 := F.ncfg
    have h2 := F.ncode
    simp only [ExactD, trimD_configs, trimD_codes, trimD_numClusters, List.length_take]
    omega
  | succ d ih =>
    intro p items h
    have F := checkDFacts (d + 1) p items h
    have h1 := F.ncfg
    have h2 := F.ncode
    have hin := F.inner
    simp only [ExactD, trimD_configs, trimD_codes, trimD_numClusters, List.length_take,
      trimD_inner_succ]
    refine ⟨by omega, ?_⟩
    cases hci : p.clusterInner with
    | none => trivial
    | some mi =>
      obtain ⟨mtf, ip⟩ := mi
      rw [hci] at hin
      simp only at hin ⊢
      exact ih ip _ hin.2.2

/-- trimming an exact plan changes nothing the decoder sees -/
theorem planDecoder_trimD (d : Nat) (p : EntropyPlan)
    (hex : p.configs.length = p.numClusters ∧ p.codes.length = p.numClusters) :
    planDecoder (trimD d p) = planDecoder p := by
  unfold planDecoder planCode
  rw [trimD_lz77, trimD_clusterMap, trimD_configs, trimD_codes, trimD_coder, ← hex.1,
    List.take_length, hex.1, ← hex.2, List.take_length]


/-! ## everything from `check` -/

/-- header: `Decoder::parse` on the encoder's header returns the decoder the (trimmed) plan denotes -/
theorem header_roundtrip_of_check (p : EntropyPlan) (items : List Item)
    (h : p.check items = true) (rest : Bits) :
    Decoder.parse p.numDist (encodeHeader p ++ rest)
      = .ok (planDecoder (trimD planDepth p), rest) := by
  have hq : (trimD planDepth p).checkD planDepth items = true := trimD_checkD planDepth p items h
  have hex := trimD_exact planDepth p items h
  have ok := headerOKD_of_check planDepth (Nat.le_refl _) _ items hq hex
  have hrt := histRTD_of_check planDepth _ items hq hex
  have := parse_header_nested planDepth parseFuel (trimD planDepth p) true rest (by decide) ok hrt
    (by simp)
  rw [trimD_encodeHeaderD, trimD_numDist] at this
  exact this

/-- header and stream -/
theorem entropy_roundtrip_of_check (p : EntropyPlan) (mult : Nat) (items : List Item)
    (ctxs : List Nat) (rest : Bits) (hctx : CtxsFor items ctxs) (h : p.check items = true)
    (hlen : ∀ i ∈ items, match i with | .copy _ len _ => len < 2 ^ 32 | .lit _ _ => True) :
    ∃ st0 s0 st1,
      Decoder.parse p.numDist (encodeHeader p ++ encodeItems p items ++ rest)
        = .ok (planDecoder (trimD planDepth p), encodeItems p items ++ rest) ∧
      (planDecoder (trimD planDepth p)).begin {} (encodeItems p items ++ rest) = .ok (st0, s0) ∧
      (planDecoder (trimD planDepth p)).readSeq mult ctxs st0 s0
        = .ok ((expandItems mult items, st1), rest) ∧
      (planDecoder (trimD planDepth p)).finalize st1 = .ok () := by
  have hq : (trimD planDepth p).check items = true := trimD_checkD planDepth p items h
  obtain ⟨st0, s0, st1, hb, hseq, hfin⟩ := C04_stream (trimD planDepth p) mult items ctxs rest hctx hq hlen
  rw [trimD_encodeItems] at hb
  refine ⟨st0, s0, st1, ?_, hb, hseq, hfin⟩
  rw [List.append_assoc]
  exact header_roundtrip_of_check p items h _

end Jxl.Entropy
