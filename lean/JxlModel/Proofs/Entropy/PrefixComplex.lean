import JxlModel.Proofs.Entropy.PrefixClc
/-! The complex prefix-code histogram (`parse_complex`) reads back what `writeComplex` writes. -/
namespace Jxl.Entropy
open Jxl Jxl.Enc

/-- the code-length code lengths the encoder chooses -/
def clcOf (rle : Bool) (lens : List Nat) : List Nat :=
  huffLengths 5 (histogram 18 ((clTokens rle lens).map (·.1)))

/-- the `hskip` the encoder chooses -/
def hskipOf (clc : List Nat) (req : Option Nat) : Nat :=
  match req with
  | some h =>
    if (h = 2 ∨ h = 3) ∧ ((codeLengthOrder.take h).all fun i => clc.getD i 0 = 0) then h else 0
  | none =>
    if ((codeLengthOrder.take 3).all fun i => clc.getD i 0 = 0) then 3
    else if ((codeLengthOrder.take 2).all fun i => clc.getD i 0 = 0) then 2 else 0

theorem writeComplex_eq (lens : List Nat) (rle : Bool) (req : Option Nat) :
    writeComplex lens rle req
      = toBits 2 (hskipOf (clcOf rle lens) req)
        ++ writeClc (codeLengthOrder.drop (hskipOf (clcOf rle lens) req)) (clcOf rle lens) 0
        ++ (clTokens rle lens).flatMap (tokBits (codeOfLens (clcOf rle lens))) := by
  rfl

theorem hskipOf_spec (clc : List Nat) (req : Option Nat) :
    (hskipOf clc req = 0 ∨ hskipOf clc req = 2 ∨ hskipOf clc req = 3) ∧
    ∀ i ∈ codeLengthOrder.take (hskipOf clc req), clc.getD i 0 = 0 := by
  unfold hskipOf
  cases req with
  | some h =>
    simp only
    split
    · rename_i hc
      refine ⟨by omega, fun i hi => ?_⟩
      have := hc.2
      rw [List.all_eq_true] at this
      simpa using this i hi
    · exact ⟨by omega, fun i hi => by simp at hi⟩
  | none =>
    simp only
    split
    · rename_i hc
      refine ⟨by omega, fun i hi => ?_⟩
      rw [List.all_eq_true] at hc
      simpa using hc i hi
    · split
      · rename_i hc
        refine ⟨by omega, fun i hi => ?_⟩
        rw [List.all_eq_true] at hc
        simpa using hc i hi
      · exact ⟨by omega, fun i hi => by simp at hi⟩


/-! ## the tokens -/

theorem runTokens_sym (rle : Bool) (v n : Nat) (t : Nat × Nat × Nat) (h : t ∈ runTokens rle v n) :
    t.1 = v ∨ t.1 = 16 ∨ t.1 = 17 := by
  unfold runTokens at h
  split at h
  · split at h
    · obtain ⟨d, _, rfl⟩ := List.mem_map.1 h; simp
    · rw [List.mem_replicate] at h; rw [h.2]; simp [*]
  · split at h
    · rcases List.mem_cons.1 h with rfl | h
      · simp
      · obtain ⟨d, _, rfl⟩ := List.mem_map.1 h; simp
    · rw [List.mem_replicate] at h; rw [h.2]; simp

theorem runTokens_ne_nil (rle : Bool) (v n : Nat) (hn : 1 ≤ n) (hn15 : n ≤ 2 ^ 15) :
    runTokens rle v n ≠ [] := by
  unfold runTokens
  split
  · split
    · obtain ⟨d1, ds, h1, _⟩ := chainDigits_spec 8 (by omega) 32 (n - 3) []
        (by have : (2:Nat) ^ 15 < 8 ^ 32 := by decide
            omega) (by omega)
      rw [h1]; simp
    · intro h
      have := congrArg List.length h
      simp at this; omega
  · split
    · simp
    · intro h
      have := congrArg List.length h
      simp at this; omega

/-- shorthand for the run tokens of a run list (no pattern-matching lambda) -/
def runsTokens (rle : Bool) (rs : List (Nat × Nat)) : List (Nat × Nat × Nat) :=
  rs.flatMap fun r => runTokens rle r.1 r.2

theorem clTokens_eq (rle : Bool) (lens : List Nat) :
    clTokens rle lens = runsTokens rle (groupRuns (trimTrailingZeros lens)) := rfl

theorem clTokens_sym_lt (rle : Bool) (lens : List Nat) (h15 : ∀ l ∈ lens, l ≤ 15)
    (t : Nat × Nat × Nat) (ht : t ∈ clTokens rle lens) : t.1 < 18 := by
  rw [clTokens_eq] at ht
  unfold runsTokens at ht
  obtain ⟨r, hr, ht⟩ := List.mem_flatMap.1 ht
  have hv : r.1 ≤ 15 := by
    have hwf := groupRuns_wf (trimTrailingZeros lens)
      (fun x hx => h15 x (trim_mem lens x hx)) none (by intro a _; simp)
    -- every run value is an element of the expansion
    have : r.1 ∈ runsExpand (groupRuns (trimTrailingZeros lens)) := by
      have hge : ∀ (rs : List (Nat × Nat)) (prev : Option Nat), RunsWF prev rs → r ∈ rs →
          r.1 ∈ runsExpand rs := by
        intro rs
        induction rs with
        | nil => intro _ _ h; simp at h
        | cons a t ih =>
          intro prev hw hm
          obtain ⟨h1, _, _, hw'⟩ := hw
          simp only [runsExpand, List.mem_append]
          rcases List.mem_cons.1 hm with rfl | hm
          · left; rw [List.mem_replicate]; exact ⟨by omega, rfl⟩
          · right; exact ih _ hw' hm
      exact hge _ _ hwf hr
    rw [groupRuns_expand] at this
    exact h15 _ (trim_mem lens _ this)
  rcases runTokens_sym rle r.1 r.2 t ht with h | h | h <;> omega

theorem clTokens_ne_nil (rle : Bool) (lens : List Nat) (h15 : ∀ l ∈ lens, l ≤ 15)
    (hk : kraft lens = 2 ^ 15) (hlen : lens.length ≤ 2 ^ 15) : clTokens rle lens ≠ [] := by
  rw [clTokens_eq]
  have hwf := groupRuns_wf (trimTrailingZeros lens)
    (fun x hx => h15 x (trim_mem lens x hx)) none (by intro a _; simp)
  have hm := groupRuns_mass (trimTrailingZeros lens)
  rw [kraft_trim, hk] at hm
  have hex := groupRuns_expand (trimTrailingZeros lens)
  cases hg : groupRuns (trimTrailingZeros lens) with
  | nil => rw [hg] at hm; simp [runsMass] at hm
  | cons r rs =>
    rw [hg] at hwf hex
    obtain ⟨h1, _⟩ := hwf
    have hle : r.2 ≤ 2 ^ 15 := by
      have := runsExpand_length_le (r :: rs) r (by simp)
      rw [hex] at this
      have := trimTZ_length_le lens
      omega
    unfold runsTokens
    simp only [List.flatMap_cons]
    intro h
    exact runTokens_ne_nil rle r.1 r.2 h1 hle (List.append_eq_nil_iff.1 h).1


/-! ## the code-length code -/

/-- what the round trip needs to know about `huffLengths 5 (histogram 18 syms)` -/
structure ClcFacts (clc : List Nat) (syms : List Nat) : Prop where
  len : clc.length = 18
  le5 : ∀ l ∈ clc, l ≤ 5
  used : ∀ i, clc.getD i 0 ≠ 0 ↔ i ∈ syms
  alt : (∃ s, (∀ t ∈ syms, t = s) ∧ clc.getD s 0 = 1) ∨
        (kraftN 5 clc = 32 ∧ ∃ a ∈ syms, ∃ b ∈ syms, a ≠ b)

theorem clcFacts (syms : List Nat) (hne : syms ≠ []) (h18 : ∀ t ∈ syms, t < 18) :
    ClcFacts (huffLengths 5 (histogram 18 syms)) syms := by
  obtain ⟨hl, hc⟩ := histogram_spec 18 syms
  have hfd : ∀ i, (histogram 18 syms).getD i 0 ≠ 0 ↔ i ∈ syms := by
    intro i
    by_cases hi : i < 18
    · rw [hc i hi]
      constructor
      · intro h
        exact List.count_pos_iff.1 (by omega)
      · intro h
        have := List.count_pos_iff.2 h
        omega
    · constructor
      · intro h
        rw [List.getD_eq_getElem?_getD, List.getElem?_eq_none (by omega)] at h
        simp at h
      · intro h
        exact absurd (h18 i h) hi
  obtain ⟨s1, s2, s3, s4, s5⟩ := huffLengths_spec 5 (histogram 18 syms) (by omega) (by
    have := List.length_filter_le (fun x : Nat => decide (x > 0)) (histogram 18 syms)
    rw [hl] at this
    omega)
  have hused : ∀ i, (huffLengths 5 (histogram 18 syms)).getD i 0 ≠ 0 ↔ i ∈ syms :=
    fun i => (s3 i).trans (hfd i)
  refine ⟨by rw [s1, hl], s2, hused, ?_⟩
  obtain ⟨s, r, rfl⟩ := List.exists_cons_of_ne_nil hne
  by_cases hall : ∀ t ∈ s :: r, t = s
  · left
    refine ⟨s, hall, ?_⟩
    have hone : ((histogram 18 (s :: r)).filter (· > 0)).length = 1 := by
      apply filter_pos_eq1 _ s
      · have := (hfd s).2 (by simp); omega
      · intro i hi
        by_contra hcon
        exact hi (hall i ((hfd i).1 hcon))
    have hle1 := s5 hone
    have hnz := (hused s).2 (by simp)
    have hmem : (huffLengths 5 (histogram 18 (s :: r))).getD s 0 ∈ huffLengths 5 (histogram 18 (s :: r)) := by
      have hs : s < (huffLengths 5 (histogram 18 (s :: r))).length := by
        rw [s1, hl]; exact h18 s (by simp)
      rw [List.getD_eq_getElem?_getD, List.getElem?_eq_getElem hs]
      simp
    have := hle1 _ hmem
    omega
  · right
    have hex : ∃ t ∈ s :: r, t ≠ s := by
      by_contra hcon
      apply hall
      intro t ht
      by_contra hts
      exact hcon ⟨t, ht, hts⟩
    obtain ⟨t, ht, hts⟩ := hex
    refine ⟨?_, t, ht, s, by simp, hts⟩
    apply s4
    apply filter_pos_ge2 _ t s hts
    · have := (hfd t).2 ht; omega
    · have := (hfd s).2 (by simp); omega

/-- the decoder-side code for a given code-length code -/
theorem codeOfLens_single (clc : List Nat) (s : Nat) (h1 : clc.getD s 0 = 1)
    (hz : ∀ i, i ≠ s → clc.getD i 0 = 0) : codeOfLens clc = .single s := by
  unfold codeOfLens
  have := zipIdx_filter_single clc 0 s 1 h1 (by omega) hz
  simp only [Nat.add_zero] at this
  have e : (clc.zipIdx.filter fun (x : Nat × Nat) => match x with | (l, _) => decide (l ≠ 0))
      = (clc.zipIdx 0).filter (fun p : Nat × Nat => decide (p.1 ≠ 0)) := rfl
  rw [e, this]

theorem codeOfLens_table (clc : List Nat) (a b : Nat) (hab : a ≠ b) (ha : clc.getD a 0 ≠ 0)
    (hb : clc.getD b 0 ≠ 0) : codeOfLens clc = .table (sortedSyms clc) := by
  unfold codeOfLens
  have hmem : ∀ i, clc.getD i 0 ≠ 0 → (clc.getD i 0, i) ∈
      (clc.zipIdx.filter fun (x : Nat × Nat) => match x with | (l, _) => decide (l ≠ 0)) := by
    intro i hi
    rw [List.mem_filter]
    refine ⟨?_, by simpa using hi⟩
    rw [List.mem_zipIdx_iff_getElem?]
    have hlt : i < clc.length := by
      by_contra hcon
      rw [List.getD_eq_getElem?_getD, List.getElem?_eq_none (by omega)] at hi
      simp at hi
    rw [List.getD_eq_getElem?_getD, List.getElem?_eq_getElem hlt]
    simp
  split
  · rename_i x s heq
    have h1 := hmem a ha
    have h2 := hmem b hb
    rw [heq] at h1 h2
    simp only [List.mem_singleton, Prod.mk.injEq] at h1 h2
    omega
  · rfl


theorem clcMass_of_zero (clc : List Nat) (r : List Nat) (h : ∀ i ∈ r, clc.getD i 0 = 0) :
    clcMass clc r = 0 := by
  induction r with
  | nil => rfl
  | cons a t ih =>
    simp only [clcMass, h a (by simp), k5, if_true, Nat.zero_add]
    exact ih (fun j hj => h j (by simp [hj]))

theorem clcCnt_single (clc : List Nat) (s : Nat) (h : ∀ i, clc.getD i 0 ≠ 0 ↔ i = s) :
    ∀ r : List Nat, r.Nodup → clcCnt clc r = if s ∈ r then 1 else 0 := by
  intro r
  induction r with
  | nil => intro _; rfl
  | cons a t ih =>
    intro hnd
    obtain ⟨hat, hnd'⟩ := List.nodup_cons.1 hnd
    simp only [clcCnt, ih hnd']
    by_cases has : a = s
    · subst has
      have : clc.getD a 0 ≠ 0 := (h a).2 rfl
      rw [if_neg this, if_neg hat, if_pos (by simp)]
    · have : clc.getD a 0 = 0 := by
        by_contra hcon; exact has ((h a).1 hcon)
      have hsa : ¬ s = a := fun e => has e.symm
      rw [if_pos this, Nat.zero_add]
      by_cases hst : s ∈ t
      · rw [if_pos hst, if_pos (by simp [hst])]
      · rw [if_neg hst, if_neg (by simp [hst, hsa])]

theorem getD_replicate_zero (n i : Nat) : (List.replicate n 0).getD i 0 = 0 := by
  rw [List.getD_eq_getElem?_getD, List.getElem?_replicate]
  split <;> rfl

theorem order_nodup : codeLengthOrder.Nodup := by decide
theorem order_lt : ∀ i ∈ codeLengthOrder, i < 18 := by decide
theorem order_mem : ∀ i, i < 18 → i ∈ codeLengthOrder := by decide

/-- the first loop and the choice of the code-length code -/
theorem readClc_complex (clc syms : List Nat) (F : ClcFacts clc syms) (req : Option Nat)
    (tail : Bits) :
    ∃ st', readClc (codeLengthOrder.drop (hskipOf clc req)) ⟨List.replicate 18 0, 0, 0, 0⟩
        (writeClc (codeLengthOrder.drop (hskipOf clc req)) clc 0 ++ tail) = .ok (st', tail) ∧
      (if st'.nonzeroCount = 1 then (Except.ok (PrefixCode.single st'.nonzeroSym) : Except Err PrefixCode)
       else if st'.bitacc ≠ 32 then .error .invalidPrefixHistogram
       else PrefixCode.ofLengths st'.lens) = .ok (codeOfLens clc) := by
  obtain ⟨_, hfeas⟩ := hskipOf_spec clc req
  generalize hskipOf clc req = hskip at hfeas
  have hnd : (codeLengthOrder.drop hskip).Nodup := order_nodup.sublist (List.drop_sublist _ _)
  have hmem : ∀ i ∈ codeLengthOrder.drop hskip, i ∈ codeLengthOrder :=
    fun i hi => List.mem_of_mem_drop hi
  have hle5 : ∀ i, clc.getD i 0 ≤ 5 := by
    intro i
    by_cases hi : i < clc.length
    · rw [List.getD_eq_getElem?_getD, List.getElem?_eq_getElem hi]
      exact F.le5 _ (by simp)
    · rw [List.getD_eq_getElem?_getD, List.getElem?_eq_none (by omega)]; simp
  have hmass : clcMass clc (codeLengthOrder.drop hskip) = kraftN 5 clc := by
    rw [← clcMass_order clc F.len F.le5]
    conv => rhs; rw [← List.take_append_drop hskip codeLengthOrder]
    rw [clcMass_append, clcMass_of_zero clc _ hfeas, Nat.zero_add]
  have hcnt := clcMass_le clc (codeLengthOrder.drop hskip) (fun i _ => hle5 i)
  have hbound : clcMass clc (codeLengthOrder.drop hskip) ≤ 32 := by
    rcases F.alt with ⟨s, hs, h1⟩ | ⟨hk, _⟩
    · have hiff : ∀ i, clc.getD i 0 ≠ 0 ↔ i = s := by
        intro i
        rw [F.used i]
        exact ⟨fun h => hs i h, fun h => by rw [h]; exact (F.used s).1 (by omega)⟩
      have := clcCnt_single clc s hiff _ hnd
      split at this <;> omega
    · omega
  obtain ⟨st', e1, e2, e3, e4, e5, e6, _⟩ := readClc_write clc tail (codeLengthOrder.drop hskip)
    ⟨List.replicate 18 0, 0, 0, 0⟩ hnd (fun i _ => hle5 i) (by simp only; omega) (by simp)
    (fun i _ => getD_replicate_zero 18 i)
    (fun i hi => by simp only [List.length_replicate]; exact order_lt i (hmem i hi))
  simp only [Nat.zero_add, List.length_replicate] at e2 e3 e4
  refine ⟨st', e1, ?_⟩
  -- the lengths read are the lengths written
  have hlens : st'.lens = clc := by
    apply list_ext_getD _ _ (by rw [e4, F.len])
    intro i
    rw [e5 i]
    have hz : (List.replicate 18 0).getD i 0 = 0 := getD_replicate_zero 18 i
    by_cases hi : i ∈ codeLengthOrder.drop hskip
    · rw [if_pos hi]
    · rw [if_neg hi]
      simp only [hz]
      by_cases h18 : i < 18
      · have hio := order_mem i h18
        rw [← List.take_append_drop hskip codeLengthOrder, List.mem_append] at hio
        rcases hio with h | h
        · exact (hfeas i h).symm
        · exact absurd h hi
      · rw [List.getD_eq_getElem?_getD, List.getElem?_eq_none (by rw [F.len]; omega)]; rfl
  rcases F.alt with ⟨s, hs, h1⟩ | ⟨hk, a, ha, b, hb, hab⟩
  · have hiff : ∀ i, clc.getD i 0 ≠ 0 ↔ i = s := by
      intro i
      rw [F.used i]
      exact ⟨fun h => hs i h, fun h => by rw [h]; exact (F.used s).1 (by omega)⟩
    have hsm : s ∈ codeLengthOrder.drop hskip := by
      have hs18 : s < 18 := by
        by_contra hcon
        rw [List.getD_eq_getElem?_getD, List.getElem?_eq_none (by rw [F.len]; omega)] at h1
        simp at h1
      have hio := order_mem s hs18
      rw [← List.take_append_drop hskip codeLengthOrder, List.mem_append] at hio
      rcases hio with h | h
      · have := hfeas s h; omega
      · exact h
    have hc1 := clcCnt_single clc s hiff _ hnd
    rw [if_pos hsm] at hc1
    have hsym := e6 s (fun i _ h => (hiff i).1 h) (by omega)
    rw [if_pos (by omega), hsym, codeOfLens_single clc s h1 (fun i hi => by
      by_contra hcon; exact hi ((hiff i).1 hcon))]
  · rw [hmass, hk] at e2
    have hcnt2 : st'.nonzeroCount ≠ 1 := by
      rw [hmass, hk] at hcnt; omega
    rw [if_neg hcnt2, if_neg (by omega), hlens]
    unfold PrefixCode.ofLengths
    rw [if_pos (by rw [kraft_of_kraftN5 clc F.le5, hk]; rfl),
      codeOfLens_table clc a b hab ((F.used a).2 ha) ((F.used b).2 hb)]

/-- every token symbol is read back by the code-length code -/
theorem tokRead_clc (clc syms : List Nat) (F : ClcFacts clc syms) (t : Nat) (ht : t ∈ syms) :
    TokRead (codeOfLens clc) t := by
  rcases F.alt with ⟨s, hs, h1⟩ | ⟨hk, a, ha, b, hb, hab⟩
  · have hiff : ∀ i, clc.getD i 0 ≠ 0 ↔ i = s := by
      intro i
      rw [F.used i]
      exact ⟨fun h => hs i h, fun h => by rw [h]; exact (F.used s).1 (by omega)⟩
    rw [codeOfLens_single clc s h1 (fun i hi => by
      by_contra hcon; exact hi ((hiff i).1 hcon)), hs t ht]
    intro rest
    rfl
  · rw [codeOfLens_table clc a b hab ((F.used a).2 ha) ((F.used b).2 hb)]
    intro rest
    exact (prefix_read_encode clc (fun l hl => by have := F.le5 l hl; omega)
      (by rw [kraft_of_kraftN5 clc F.le5, hk]; decide) t ((F.used t).2 ht) rest).1


/-- **complex form**: for every complete length vector (lengths ≤ 15, Kraft sum 1, one entry per
symbol of the alphabet) the header `writeComplex` produces — with or without run-length coding,
any requested `hskip` — is read back by `Histogram::parse` as the canonical code of that vector. -/
theorem parsePrefix_complex (count : Nat) (lens : List Nat) (rle : Bool) (req : Option Nat)
    (h2 : 2 ≤ count) (hc15 : count ≤ 2 ^ 15) (hlen : lens.length = count)
    (h15 : ∀ l ∈ lens, l ≤ 15) (hk : kraft lens = 2 ^ 15) (rest : Bits) :
    parsePrefix count (writeComplex lens rle req ++ rest) = .ok (.table (sortedSyms lens), rest) := by
  have hne := clTokens_ne_nil rle lens h15 hk (by omega)
  have F : ClcFacts (clcOf rle lens) ((clTokens rle lens).map (·.1)) :=
    clcFacts _ (by simpa using hne) (by
      intro t ht
      obtain ⟨x, hx, rfl⟩ := List.mem_map.1 ht
      exact clTokens_sym_lt rle lens h15 x hx)
  obtain ⟨hhs, _⟩ := hskipOf_spec (clcOf rle lens) req
  rw [writeComplex_eq]
  unfold parsePrefix
  rw [if_neg (by omega), if_neg (by omega)]
  simp only [List.append_assoc]
  rw [rbits_toBits 2 _ _ (by omega)]
  simp only
  rw [if_neg (by omega)]
  unfold parseComplex
  obtain ⟨st', e1, e2⟩ := readClc_complex (clcOf rle lens) _ F req
    ((clTokens rle lens).flatMap (tokBits (codeOfLens (clcOf rle lens))) ++ rest)
  rw [e1]
  simp only [e2]
  -- second loop
  have hwf := groupRuns_wf (trimTrailingZeros lens)
    (fun x hx => h15 x (trim_mem lens x hx)) none (by intro a _; simp)
  obtain ⟨fs, f1, f2, f3⟩ := readLens_runs (codeOfLens (clcOf rle lens)) rle rest
    (groupRuns (trimTrailingZeros lens)) none count {} [] hwf
    (by
      intro r hr
      have := groupRuns_last (trimTrailingZeros lens)
      rw [Option.mem_def] at hr
      rw [hr] at this
      exact trim_last lens r.1 (by rw [Option.mem_def, ← this]; rfl))
    (by
      intro t ht
      exact tokRead_clc _ _ F t.1 (List.mem_map.2 ⟨t, ht, rfl⟩))
    rfl
    (by
      rw [groupRuns_mass, kraft_trim, hk]
      rfl)
    (by
      rw [groupRuns_expand]
      have := trimTZ_length_le lens
      omega)
    hc15 (by intro h; cases h)
  rw [lensK_lt (by decide)] at f1
  rw [clTokens_eq, runsTokens, f1]
  simp only
  rw [if_neg (by rw [f2, f3]; simp)]
  rw [groupRuns_expand, List.append_nil, List.reverse_reverse, List.length_reverse, ← hlen,
    trim_append_zeros]
  unfold PrefixCode.ofLengths
  rw [if_pos hk]

end Jxl.Entropy
