import JxlModel.Proofs.Entropy.Lz
/-! begin → read × n → finalize on the encoder's symbol stream, for both coders, with and
without LZ77. -/
namespace Jxl.Entropy
open Jxl Jxl.Enc

theorem streamOf_state_lt (p : EntropyPlan) (ts : List Tok) (hok : ToksOK p ts) :
    (streamOf p ts).1 < 2 ^ 32 := by
  unfold streamOf
  unfold ToksOK at hok
  cases hc : p.coder with
  | «prefix» => simp
  | ans la =>
    rw [hc] at hok
    exact (ans_state_range _ _ ts hok).2

/-- `begin` on the encoder's stream positions the decoder at the start of the token stream -/
theorem begin_ok (p : EntropyPlan) (ts : List Tok) (hok : ToksOK p ts) (rest : Bits) :
    ∃ st0, (planDecoder p).begin {} (encodeToks p ts ++ rest) = .ok (st0, (streamOf p ts).2 ++ rest) ∧
      StateAt p ts st0 ∧ st0.numToCopy = 0 ∧ st0.hist = [] ∧ st0.numDecoded = 0 := by
  have hlt := streamOf_state_lt p ts hok
  rw [encodeToks_eq]
  unfold Decoder.begin planDecoder planCode StateAt
  cases hc : p.coder with
  | «prefix» => exact ⟨{}, rfl, trivial, rfl, rfl, rfl⟩
  | ans la =>
    simp only [hc] at hlt ⊢
    refine ⟨{ ansState := (streamOf p ts).1, initial := false }, ?_, ⟨rfl, rfl⟩, rfl, rfl, rfl⟩
    rw [List.append_assoc, rbits_toBits 32 _ _ hlt]

/-- at the end of the token stream the final-state check passes -/
theorem finalize_ok (p : EntropyPlan) (st : DState) (h : StateAt p [] st) :
    (planDecoder p).finalize st = .ok () := by
  unfold Decoder.finalize planDecoder planCode
  unfold StateAt streamOf at h
  cases hc : p.coder with
  | «prefix» => rfl
  | ans la =>
    simp only [hc] at h ⊢
    simp [h.2, encodeToksAns]

theorem decodeVals_lits (mult : Nat) (syms : List (Nat × Nat)) (hist : List Nat) :
    (decodeVals mult (syms.map fun (c, v) => Item.lit c v) hist).1 = syms.map (·.2) := by
  induction syms generalizing hist with
  | nil => rfl
  | cons cv r ih =>
    obtain ⟨c, v⟩ := cv
    simp only [List.map_cons, decodeVals]
    rw [ih]

/-- **without LZ77** -/
theorem stream_roundtrip_plain (p : EntropyPlan) (hlz : p.lz77 = none) (mult : Nat)
    (syms : List (Nat × Nat)) (rest : Bits)
    (hv : ∀ cv ∈ syms, cv.2 < 2 ^ 32 ∧ CfgOK (p.config (p.clusterOf cv.1)))
    (hok : ToksOK p (p.toks (syms.map fun (c, v) => .lit c v))) :
    ∃ st0 s0 st1,
      (planDecoder p).begin {} (encodeSymbols p syms ++ rest) = .ok (st0, s0) ∧
      (planDecoder p).readSeq mult (syms.map (·.1)) st0 s0 = .ok ((syms.map (·.2), st1), rest) ∧
      (planDecoder p).finalize st1 = .ok () := by
  obtain ⟨st0, hb, hst, _, _, _⟩ := begin_ok p _ hok rest
  obtain ⟨x, hseq, hfin⟩ := plain_seq p hlz mult syms st0 rest hv hok hst
  exact ⟨st0, _, _, hb, hseq, finalize_ok p _ hfin⟩

/-- **with LZ77**: the decoder returns the expansion of the parse -/
theorem stream_roundtrip_lz (p : EntropyPlan) (lz : Lz77Params) (hlz : p.lz77 = some lz) (mult : Nat)
    (items : List Item) (ctxs : List Nat) (rest : Bits)
    (hctx : CtxsFor items ctxs) (hitems : ItemsOK p items False)
    (hok : ToksOK p (p.toks items)) :
    ∃ st0 s0 st1,
      (planDecoder p).begin {} (encodeItems p items ++ rest) = .ok (st0, s0) ∧
      (planDecoder p).readSeq mult ctxs st0 s0 = .ok ((expandItems mult items, st1), rest) ∧
      (planDecoder p).finalize st1 = .ok () := by
  obtain ⟨st0, hb, hst, h1, h2, h3⟩ := begin_ok p _ hok rest
  have hitems' : ItemsOK p items (st0.numDecoded ≠ 0) := by
    cases items with
    | nil => trivial
    | cons i r =>
      obtain ⟨hi, hr⟩ := hitems
      refine ⟨?_, hr⟩
      cases i with
      | lit c v => exact hi
      | copy c len dc => exact absurd hi.1 id
  obtain ⟨st', hseq, _, _, _, hfin⟩ := lz_seq p lz hlz mult items ctxs st0 rest hctx hitems' hok hst h1
    (by rw [h3, h2]; rfl)
  rw [h2, decodeVals_eq_expand] at hseq
  exact ⟨st0, _, st', hb, hseq, finalize_ok p _ hfin⟩

end Jxl.Entropy
