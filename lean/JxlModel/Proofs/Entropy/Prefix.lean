import Mathlib.Tactic.Ring
import Mathlib.Tactic.Linarith
import Mathlib.Tactic.IntervalCases
import Mathlib.Data.List.Basic
import JxlModel.Model.Entropy.Prefix
import JxlModel.Proofs.Entropy.Reader
/-! Canonical prefix codes: decoding the codeword of a symbol returns the symbol and consumes
exactly the codeword, for every complete (or merely Kraft-feasible) length vector. -/
namespace Jxl.Entropy
open List

/-- Kraft mass (scaled by 2^15) of an entry list -/
def total : List (Nat × Nat) → Nat
  | [] => 0
  | e :: r => 2 ^ (15 - e.2) + total r

theorem total_append (a b : List (Nat × Nat)) : total (a ++ b) = total a + total b := by
  induction a with
  | nil => simp [total]
  | cons e r ih => simp [total, ih]; omega

/-- every entry starts at a multiple of its own width -/
def Aligned : Nat → List (Nat × Nat) → Prop
  | _, [] => True
  | acc, (_, l) :: r => l ≤ 15 ∧ 2 ^ (15 - l) ∣ acc ∧ Aligned (acc + 2 ^ (15 - l)) r

/-- the core step: the look-ahead of `codeword ++ anything` falls into the entry's interval -/
theorem walk_codeword (es : List (Nat × Nat)) (acc sym : Nat) (w rest : Bits)
    (hal : Aligned acc es) (htot : acc + total es ≤ 2 ^ 15)
    (hw : codeword sym acc es = some w) :
    ∃ len, walk (msbVal 15 (w ++ rest)) acc es = some (sym, len) ∧ w.length = len ∧
      acc ≤ msbVal 15 (w ++ rest) := by
  induction es generalizing acc with
  | nil => simp [codeword] at hw
  | cons e r ih =>
    obtain ⟨s, l⟩ := e
    obtain ⟨hl, hdvd, hal'⟩ := hal
    simp only [total] at htot
    have hpos : 0 < 2 ^ (15 - l) := Nat.pos_of_ne_zero (by simp)
    simp only [codeword] at hw
    by_cases hs : s = sym
    · subst hs
      simp only [if_true] at hw
      cases hw
      obtain ⟨c, hc⟩ := hdvd
      have hdiv : acc / 2 ^ (15 - l) = c := by
        rw [hc, Nat.mul_div_cancel_left _ hpos]
      have h15 : (2:Nat) ^ 15 = 2 ^ l * 2 ^ (15 - l) := by
        rw [← Nat.pow_add]; congr 1; omega
      have hclt : c < 2 ^ l := by
        have : 2 ^ (15 - l) * c < 2 ^ (15 - l) * 2 ^ l := by
          rw [← hc, Nat.mul_comm _ (2 ^ l), ← h15]; omega
        exact Nat.lt_of_mul_lt_mul_left this
      rw [hdiv, msbVal_toBitsMSB 15 l c rest hl hclt]
      have hlt := msbVal_lt (15 - l) rest
      refine ⟨l, ?_, toBitsMSB_length _ _, ?_⟩
      · simp only [walk]
        have : c * 2 ^ (15 - l) + msbVal (15 - l) rest < acc + 2 ^ (15 - l) := by
          rw [hc, Nat.mul_comm]; omega
        simp [this]
      · rw [hc, Nat.mul_comm]; omega
    · simp only [hs, if_false] at hw
      obtain ⟨len, h1, h2, h3⟩ := ih (acc + 2 ^ (15 - l)) hal' (by omega) hw
      refine ⟨len, ?_, h2, by omega⟩
      simp only [walk]
      have : ¬ msbVal 15 (w ++ rest) < acc + 2 ^ (15 - l) := by omega
      simp [this, h1]

/-- entries sorted by non-decreasing length are aligned -/
theorem aligned_of_sorted (es : List (Nat × Nat)) (acc : Nat)
    (hs : es.Pairwise (fun a b => a.2 ≤ b.2)) (hle : ∀ e ∈ es, e.2 ≤ 15)
    (h0 : ∀ e ∈ es.head?, 2 ^ (15 - e.2) ∣ acc) : Aligned acc es := by
  induction es generalizing acc with
  | nil => trivial
  | cons e r ih =>
    obtain ⟨s, l⟩ := e
    have hl : l ≤ 15 := hle (s, l) (by simp)
    have hd : 2 ^ (15 - l) ∣ acc := h0 (s, l) (by simp)
    refine ⟨hl, hd, ?_⟩
    apply ih
    · exact (pairwise_cons.1 hs).2
    · intro e he; exact hle e (by simp [he])
    · intro e he
      have hmem : e ∈ r := by
        cases r with
        | nil => simp at he
        | cons a t => simp at he; subst he; simp
      have hle2 : l ≤ e.2 := (pairwise_cons.1 hs).1 e hmem
      have hdd : 2 ^ (15 - e.2) ∣ 2 ^ (15 - l) := Nat.pow_dvd_pow 2 (by omega)
      exact Nat.dvd_add (Nat.dvd_trans hdd hd) hdd

/-! ### facts about `sortedSyms` -/

theorem mem_symsOfLen (l : Nat) (z : List (Nat × Nat)) (e : Nat × Nat) :
    e ∈ symsOfLen l z ↔ e.2 = l ∧ (l, e.1) ∈ z := by
  induction z with
  | nil => simp [symsOfLen]
  | cons a r ih =>
    obtain ⟨len, sym⟩ := a
    obtain ⟨es, el⟩ := e
    simp only [symsOfLen]
    split
    · simp only [mem_cons, ih, Prod.mk.injEq]
      grind
    · simp only [mem_cons, ih, Prod.mk.injEq]
      grind

theorem mem_sortedSyms (lens : List Nat) (s l : Nat) :
    (s, l) ∈ sortedSyms lens ↔ 1 ≤ l ∧ l ≤ 15 ∧ lens[s]? = some l := by
  unfold sortedSyms
  simp only [mem_flatMap, mem_range, mem_symsOfLen, mem_zipIdx_iff_getElem?]
  constructor
  · rintro ⟨a, ha, h1, h2⟩
    subst h1
    exact ⟨by omega, by omega, h2⟩
  · rintro ⟨h1, h2, h3⟩
    refine ⟨l - 1, by omega, by omega, ?_⟩
    rw [show l - 1 + 1 = l by omega]; exact h3

theorem symsOfLen_len (l : Nat) (z : List (Nat × Nat)) : ∀ e ∈ symsOfLen l z, e.2 = l := by
  intro e he; exact ((mem_symsOfLen l z e).1 he).1

theorem sortedSyms_sorted (lens : List Nat) :
    (sortedSyms lens).Pairwise (fun a b => a.2 ≤ b.2) := by
  unfold sortedSyms
  rw [pairwise_flatMap]
  refine ⟨?_, ?_⟩
  · intro a _
    rw [pairwise_iff_forall_sublist]
    intro x y hxy
    have hx := symsOfLen_len _ _ x (hxy.subset (by simp))
    have hy := symsOfLen_len _ _ y (hxy.subset (by simp))
    omega
  · have : (List.range 15).Pairwise (· < ·) := pairwise_lt_range
    refine this.imp ?_
    intro a b hab x hx y hy
    have hx := symsOfLen_len _ _ x hx
    have hy := symsOfLen_len _ _ y hy
    omega

/-! ### total mass = Kraft sum -/

def sumOver : List Nat → (Nat → Nat) → Nat
  | [], _ => 0
  | a :: r, g => g a + sumOver r g

theorem total_flatMap (L : List Nat) (f : Nat → List (Nat × Nat)) :
    total (L.flatMap f) = sumOver L (fun a => total (f a)) := by
  induction L with
  | nil => rfl
  | cons a r ih => simp [flatMap_cons, total_append, sumOver, ih]

theorem sumOver_add (L : List Nat) (g h : Nat → Nat) :
    sumOver L (fun a => g a + h a) = sumOver L g + sumOver L h := by
  induction L with
  | nil => rfl
  | cons a r ih => simp [sumOver, ih]; omega

theorem sumOver_zero (L : List Nat) : sumOver L (fun _ => 0) = 0 := by
  induction L with
  | nil => rfl
  | cons a r ih => simp [sumOver, ih]

def kraftZ : List (Nat × Nat) → Nat
  | [] => 0
  | (l, _) :: r => (if l = 0 then 0 else 2 ^ (15 - l)) + kraftZ r

theorem kraftZ_zipIdx (lens : List Nat) (k : Nat) : kraftZ (lens.zipIdx k) = kraft lens := by
  induction lens generalizing k with
  | nil => rfl
  | cons a r ih => simp [zipIdx_cons, kraftZ, kraft, ih]

theorem total_symsOfLen_cons (l len sym : Nat) (r : List (Nat × Nat)) :
    total (symsOfLen l ((len, sym) :: r)) = (if len = l then 2 ^ (15 - l) else 0) + total (symsOfLen l r) := by
  simp only [symsOfLen]
  split <;> simp [total]

theorem single_term (len : Nat) (h : len ≤ 15) :
    sumOver (List.range 15) (fun l => if len = l + 1 then 2 ^ (15 - (l + 1)) else 0)
      = if len = 0 then 0 else 2 ^ (15 - len) := by
  interval_cases len <;> decide

theorem total_groups (z : List (Nat × Nat)) (h : ∀ e ∈ z, e.1 ≤ 15) :
    sumOver (List.range 15) (fun l => total (symsOfLen (l + 1) z)) = kraftZ z := by
  induction z with
  | nil => simp [symsOfLen, total, sumOver_zero, kraftZ]
  | cons a r ih =>
    obtain ⟨len, sym⟩ := a
    have hl : len ≤ 15 := h (len, sym) (by simp)
    have : (fun l => total (symsOfLen (l + 1) ((len, sym) :: r)))
        = fun l => (if len = l + 1 then 2 ^ (15 - (l + 1)) else 0) + total (symsOfLen (l + 1) r) := by
      funext l; exact total_symsOfLen_cons _ _ _ _
    rw [this, sumOver_add, single_term len hl, ih (fun e he => h e (by simp [he]))]
    simp [kraftZ]

theorem total_sortedSyms (lens : List Nat) (h : ∀ l ∈ lens, l ≤ 15) :
    total (sortedSyms lens) = kraft lens := by
  unfold sortedSyms
  simp only
  rw [total_flatMap, total_groups, kraftZ_zipIdx]
  intro e he
  obtain ⟨l, s⟩ := e
  have := (mem_zipIdx_iff_getElem?.1 he)
  exact h l (List.mem_of_getElem? this)

/-! ### codeword existence -/

theorem codeword_some_of_mem (es : List (Nat × Nat)) (acc sym l : Nat) (h : (sym, l) ∈ es) :
    ∃ w, codeword sym acc es = some w := by
  induction es generalizing acc with
  | nil => simp at h
  | cons e r ih =>
    obtain ⟨s, l'⟩ := e
    simp only [codeword]
    by_cases hs : s = sym
    · simp [hs]
    · simp only [hs, if_false]
      apply ih
      simp only [mem_cons, Prod.mk.injEq] at h
      rcases h with ⟨h1, _⟩ | h
      · exact absurd h1.symm hs
      · exact h

theorem codeword_length (es : List (Nat × Nat)) (acc sym : Nat) (w : Bits)
    (h : codeword sym acc es = some w) : (sym, w.length) ∈ es := by
  induction es generalizing acc with
  | nil => simp [codeword] at h
  | cons e r ih =>
    obtain ⟨s, l⟩ := e
    simp only [codeword] at h
    by_cases hs : s = sym
    · simp only [hs, if_true, Option.some.injEq] at h
      subst h; subst hs
      simp [toBitsMSB_length]
    · simp only [hs, if_false] at h
      exact mem_cons_of_mem _ (ih _ h)

/-- **Single symbol.** For every length vector with lengths ≤ 15 and Kraft sum ≤ 1 (in
particular = 1), decoding the codeword of a used symbol followed by anything returns that symbol
and exactly the rest. -/
theorem prefix_read_encode (lens : List Nat) (hle : ∀ l ∈ lens, l ≤ 15) (hk : kraft lens ≤ 2 ^ 15)
    (sym : Nat) (hused : lens.getD sym 0 ≠ 0) (rest : Bits) :
    (PrefixCode.table (sortedSyms lens)).read
        ((PrefixCode.table (sortedSyms lens)).encode sym ++ rest) = .ok (sym, rest) ∧
    ((PrefixCode.table (sortedSyms lens)).encode sym).length = lens.getD sym 0 := by
  have hget : lens[sym]? = some (lens.getD sym 0) := by
    by_cases hlt : sym < lens.length
    · simp [List.getD, hlt]
    · simp [List.getD, List.getElem?_eq_none (by omega : lens.length ≤ sym)] at hused
  have hl15 : lens.getD sym 0 ≤ 15 := hle _ (List.mem_of_getElem? hget)
  have hmem : (sym, lens.getD sym 0) ∈ sortedSyms lens :=
    (mem_sortedSyms lens sym _).2 ⟨by omega, hl15, hget⟩
  obtain ⟨w, hw⟩ := codeword_some_of_mem _ 0 _ _ hmem
  have hwl : w.length = lens.getD sym 0 := by
    have := (mem_sortedSyms lens sym _).1 (codeword_length _ _ _ _ hw)
    rw [hget] at this
    exact (Option.some.inj this.2.2).symm
  have hal : Aligned 0 (sortedSyms lens) :=
    aligned_of_sorted _ 0 (sortedSyms_sorted lens)
      (fun e he => by
        obtain ⟨s, l⟩ := e
        exact ((mem_sortedSyms lens s l).1 he).2.1)
      (fun _ _ => Nat.dvd_zero _)
  have htot : 0 + total (sortedSyms lens) ≤ 2 ^ 15 := by
    rw [total_sortedSyms lens hle]; omega
  obtain ⟨len, h1, h2, _⟩ := walk_codeword _ 0 sym w rest hal htot hw
  simp only [PrefixCode.encode, hw, Option.getD_some, PrefixCode.read, h1]
  refine ⟨?_, hwl⟩
  rw [dropChk_append len w rest h2]

end Jxl.Entropy
