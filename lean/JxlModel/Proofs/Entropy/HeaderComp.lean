import JxlModel.Proofs.Entropy.Header
import JxlModel.Proofs.Entropy.Cluster
import JxlModel.Proofs.Entropy.Check
/-! Composition of the header: `Decoder.parse p.numDist (encodeHeader p ++ rest)` is the decoder the
plan denotes, for plans with a trivial or simple cluster map, *given* that every histogram header
round-trips (the two per-histogram statements that are only partly proved). -/
namespace Jxl.Entropy
open List Jxl Jxl.Enc

theorem readMany_roundtrip {α : Type} (f : Bits → R α) (w : α → Bits) (xs : List α)
    (h : ∀ x ∈ xs, ∀ rest, f (w x ++ rest) = .ok (x, rest)) (rest : Bits) :
    readMany f xs.length (xs.flatMap w ++ rest) = .ok (xs, rest) := by
  induction xs with
  | nil => rfl
  | cons a r ih =>
    simp only [length_cons, readMany, flatMap_cons, append_assoc]
    rw [h a (by simp)]
    simp only
    rw [ih (fun x hx => h x (by simp [hx]))]

/-- like `readMany_roundtrip`, the value read being a function of the item written -/
theorem readMany_roundtrip_map {α β : Type} (f : Bits → R β) (w : α → Bits) (g : α → β) (xs : List α)
    (h : ∀ x ∈ xs, ∀ rest, f (w x ++ rest) = .ok (g x, rest)) (rest : Bits) :
    readMany f xs.length (xs.flatMap w ++ rest) = .ok (xs.map g, rest) := by
  induction xs with
  | nil => rfl
  | cons a r ih =>
    simp only [length_cons, readMany, flatMap_cons, append_assoc, map_cons]
    rw [h a (by simp)]
    simp only
    rw [ih (fun x hx => h x (by simp [hx]))]

theorem readEach_roundtrip {α β γ : Type} (f : β → Bits → R γ) (w : α → Bits) (k : α → β) (g : α → γ)
    (xs : List α) (h : ∀ x ∈ xs, ∀ rest, f (k x) (w x ++ rest) = .ok (g x, rest)) (rest : Bits) :
    readEach f (xs.map k) (xs.flatMap w ++ rest) = .ok (xs.map g, rest) := by
  induction xs with
  | nil => rfl
  | cons a r ih =>
    simp only [map_cons, readEach, flatMap_cons, append_assoc]
    rw [h a (by simp)]
    simp only
    rw [ih (fun x hx => h x (by simp [hx]))]

/-- every histogram header of the plan reads back as the code it denotes -/
def HistRT (p : EntropyPlan) : Prop :=
  match p.coder with
  | .prefix => ∀ c ∈ p.codes, ∃ count lens form, c = .lengths count lens form ∧ 1 ≤ count ∧
      count ≤ 2 ^ 15 ∧
      ∀ rest, parsePrefix count (writePrefix count lens form ++ rest) = .ok (c.prefixCode, rest)
  | .ans la => ∀ c ∈ p.codes, ∃ d form, c = .dist d form ∧
      ∀ rest, parseAns la (writeAns d form ++ rest) = .ok (c.ansHist la, rest)

/-- shape conditions (all part of `EntropyPlan.check`) -/
structure HeaderOK (p : EntropyPlan) : Prop where
  lens : p.configs.length = p.numClusters ∧ p.codes.length = p.numClusters
  cmLen : p.clusterMap.length = p.totalDist
  cfgs : ∀ c ∈ p.configs, c.valid p.logAlpha = true
  la : match p.coder with | .prefix => True | .ans la => 5 ≤ la ∧ la ≤ 8
  lz : ∀ q, p.lz77 = some q →
      (q.minSymbol = 224 ∨ q.minSymbol = 512 ∨ q.minSymbol = 4096 ∨
        (8 ≤ q.minSymbol ∧ q.minSymbol < 8 + 2 ^ 15)) ∧
      (3 ≤ q.minLength ∧ q.minLength ≤ 264) ∧ q.lenConf.valid 8 = true
  noHole : ∀ k, k < p.numClusters → k ∈ p.clusterMap
  simple : p.clusterInner = none ∧
    (if p.totalDist = 1 then p.clusterMap = [0]
     else p.clusterNbits ≤ 3 ∧ ∀ x ∈ p.clusterMap, x < 2 ^ p.clusterNbits)

/-- the part after the cluster map -/
theorem parseInnerRest_encodeCodes' (p : EntropyPlan)
    (oklens : p.configs.length = p.numClusters ∧ p.codes.length = p.numClusters)
    (okcfgs : ∀ c ∈ p.configs, c.valid p.logAlpha = true)
    (okla : match p.coder with | .prefix => True | .ans la => 5 ≤ la ∧ la ≤ 8)
    (hrt : HistRT p) (rest : Bits) :
    parseInnerRest p.numClusters p.clusterMap p.lz77 (encodeCodes p ++ rest)
      = .ok (planDecoder p, rest) := by
  obtain ⟨hl1, hl2⟩ := oklens
  have hla : p.logAlpha < 2 ^ 32 := by
    unfold EntropyPlan.logAlpha
    have := okla
    cases hc : p.coder with
    | «prefix» => simp
    | ans la => rw [hc] at this; simp only at this ⊢; omega
  have hcfg : ∀ rest, readMany (IntegerConfig.parse p.logAlpha) p.numClusters
      (p.configs.flatMap (writeConfig p.logAlpha) ++ rest) = .ok (p.configs, rest) := by
    intro rest
    rw [← hl1]
    exact readMany_roundtrip _ _ _ (fun c hc r => integerConfig_roundtrip _ hla c (okcfgs c hc) r) rest
  unfold parseInnerRest encodeCodes planDecoder planCode
  unfold HistRT at hrt
  have ht1 : p.configs.take p.numClusters = p.configs := by rw [← hl1, take_length]
  have ht2 : p.codes.take p.numClusters = p.codes := by rw [← hl2, take_length]
  simp only [ht1, ht2]
  cases hc : p.coder with
  | «prefix» =>
    rw [hc] at hrt
    have hla15 : p.logAlpha = 15 := by unfold EntropyPlan.logAlpha; rw [hc]
    simp only [hla15] at hcfg ⊢
    simp only [cons_append, nil_append, rbool_cons, append_assoc, if_true]
    rw [hcfg]
    simp only
    -- counts
    have hcounts : ∀ rest, readMany readPrefixCount p.numClusters
        (p.codes.flatMap CodeSpec.countBits ++ rest) = .ok (p.codes.map CodeSpec.count, rest) := by
      intro rest
      rw [← hl2]
      apply readMany_roundtrip_map
      intro c hcm r
      obtain ⟨count, lens, form, rfl, h1, h2, _⟩ := hrt c hcm
      exact readPrefixCount_write count h1 h2 r
    rw [hcounts]
    simp only
    have hh : ∀ rest, readEach parsePrefix (p.codes.map CodeSpec.count)
        (p.codes.flatMap CodeSpec.prefixHeader ++ rest)
        = .ok (p.codes.map CodeSpec.prefixCode, rest) := by
      intro rest
      apply readEach_roundtrip
      intro c hcm r
      obtain ⟨count, lens, form, rfl, _, _, h3⟩ := hrt c hcm
      exact h3 r
    rw [hh]
  | ans la =>
    rw [hc] at hrt
    have hlaa : p.logAlpha = la := by unfold EntropyPlan.logAlpha; rw [hc]
    have hr := okla
    rw [hc] at hr
    simp only at hr
    simp only [hlaa] at hcfg ⊢
    simp only [cons_append, nil_append, rbool_cons, append_assoc, Bool.false_eq_true, if_false]
    rw [rbits_toBits 2 (la - 5) _ (by omega)]
    simp only
    have e5 : la - 5 + 5 = la := by omega
    rw [e5, hcfg]
    simp only
    have hh : ∀ rest, readMany (parseAns la) p.numClusters
        (p.codes.flatMap CodeSpec.ansHeader ++ rest)
        = .ok (p.codes.map (CodeSpec.ansHist la), rest) := by
      intro rest
      rw [← hl2]
      apply readMany_roundtrip_map
      intro c hcm r
      obtain ⟨d, form, rfl, h3⟩ := hrt c hcm
      exact h3 r
    rw [hh]

theorem parseInnerRest_encodeCodes (p : EntropyPlan) (ok : HeaderOK p) (hrt : HistRT p) (rest : Bits) :
    parseInnerRest p.numClusters p.clusterMap p.lz77 (encodeCodes p ++ rest)
      = .ok (planDecoder p, rest) :=
  parseInnerRest_encodeCodes' p ok.lens ok.cfgs ok.la hrt rest

/-- the cluster map (trivial or simple form) -/
theorem readClusters_simple (p : EntropyPlan) (ok : HeaderOK p) (fuel : Nat) (rest : Bits) :
    readClusters fuel p.totalDist (encodeClusterMapD 3 p ++ rest)
      = .ok ((p.numClusters, p.clusterMap), rest) := by
  obtain ⟨hin, hs⟩ := ok.simple
  rw [readClusters.eq_1]
  have henc : encodeClusterMapD 3 p = if p.totalDist = 1 then []
      else [true] ++ toBits 2 p.clusterNbits ++ p.clusterMap.flatMap (toBits p.clusterNbits) := by
    rw [show (3 : Nat) = 2 + 1 from rfl, encodeClusterMapD]
    simp only [hin]
  rw [henc]
  by_cases h1 : p.totalDist = 1
  · simp only [h1, if_true] at hs ⊢
    unfold EntropyPlan.numClusters
    rw [hs]
    rfl
  · simp only [h1, if_false] at hs ⊢
    obtain ⟨hnb, hlt⟩ := hs
    simp only [cons_append, nil_append, rbool_cons, append_assoc]
    rw [rbits_toBits 2 _ _ (by omega)]
    simp only
    rw [← ok.cmLen, readMany_rbits _ _ hlt]
    simp only
    have := (checkClusters_ok_iff p.clusterMap).2 (fun k hk => ok.noHole k hk)
    rw [this]
    rfl

/-- **Header composition** for plans with a trivial or simple cluster map: if every histogram
header reads back (`HistRT`), `Decoder::parse` returns exactly the decoder the plan denotes and
consumes exactly the header. -/
theorem parse_encodeHeader_simple (p : EntropyPlan) (ok : HeaderOK p) (hrt : HistRT p) (rest : Bits) :
    Decoder.parse p.numDist (encodeHeader p ++ rest) = .ok (planDecoder p, rest) := by
  unfold Decoder.parse parseFuel encodeHeader planDepth encodeHeaderD
  rw [parseDecoder.eq_2]
  simp only [parseLzField, if_true, append_assoc]
  have hlz : parseLz77 (writeLz77 p.lz77 ++ (encodeClusterMapD 3 p ++ (encodeCodes p ++ rest)))
      = .ok (p.lz77, encodeClusterMapD 3 p ++ (encodeCodes p ++ rest)) := by
    cases h : p.lz77 with
    | none => exact parseLz77_none _
    | some q =>
      obtain ⟨h1, h2, h3⟩ := ok.lz q h
      exact parseLz77_some q h1 h2 h3 _
  rw [hlz]
  simp only
  have hnd : (if p.lz77.isSome = true then p.numDist + 1 else p.numDist) = p.totalDist := rfl
  rw [hnd, readClusters_simple p ok]
  simp only
  exact parseInnerRest_encodeCodes p ok hrt rest

/-- a prefix code spec with exactly one used symbol (the zero-bit code): its header reads back -/
theorem prefix_single_rt (count : Nat) (lens : List Nat) (form : PrefixForm) (l0 s : Nat)
    (h1 : 1 ≤ count) (h15 : count ≤ 2 ^ 15) (hs : s < count)
    (hone : (lens.zipIdx.filter fun (x : Nat × Nat) => x.1 ≠ 0) = [(l0, s)])
    (h0 : count = 1 → s = 0) (rest : Bits) :
    parsePrefix count (writePrefix count lens form ++ rest)
      = .ok ((CodeSpec.lengths count lens form).prefixCode, rest) := by
  have hcode : codeOfLens lens = .single s := by
    unfold codeOfLens
    rw [show (lens.zipIdx.filter fun (x : Nat × Nat) => x.1 ≠ 0)
        = (lens.zipIdx.filter fun (x : Nat × Nat) => match x with | (l, _) => l ≠ 0) from rfl] at hone
    rw [hone]
  have hshape : simpleShape lens = some ([s], none) := by
    unfold simpleShape
    simp only
    rw [show (lens.zipIdx.filter fun (x : Nat × Nat) => match x with | (l, _) => decide (l ≠ 0))
        = (lens.zipIdx.filter fun (x : Nat × Nat) => x.1 ≠ 0) from rfl, hone]
    rfl
  unfold CodeSpec.prefixCode
  by_cases hc : count ≤ 1
  · have : count = 1 := by omega
    subst this
    simp [writePrefix, parsePrefix]
  · simp only [hc, if_false, hcode]
    have hw : writePrefix count lens form = writeSimple count [s] none := by
      unfold writePrefix
      simp only [hc, if_false, hshape]
      cases form <;> rfl
    rw [hw]
    exact parsePrefix_simple1 count s (by omega) h15 hs rest

/-- an ANS spec with one used symbol, written in the single-symbol form: its header reads back
as the table the plan denotes -/
theorem ans_single_rt (la : Nat) (d : List Nat) (form : AnsForm) (v : Nat)
    (hform : form = .auto ∨ form = .single)
    (hused : usedSyms d = [v]) (hv : v < d.length) (hlen : d.length ≤ 2 ^ la) (hv8 : v < 256)
    (hd : ∀ i, d.getD i 0 = if i = v then 4096 else 0) (rest : Bits) :
    parseAns la (writeAns d form ++ rest) = .ok ((CodeSpec.dist d form).ansHist la, rest) := by
  have heff : effectiveForm d form = .single := by
    unfold effectiveForm
    rcases hform with rfl | rfl <;> simp [ansFormOk, hused]
  have hw : writeAns d form = [true, false] ++ writeU8 v := by
    unfold writeAns
    simp only [heff, hused, List.getD_cons_zero]
  have halpha : ansAlphabet d form = v + 1 := by
    unfold ansAlphabet
    simp only [heff, hused, List.getD_cons_zero]
  unfold parseAns CodeSpec.ansHist
  rw [hw, parseAns_single la v (by omega) hv8 rest]
  simp only [halpha]
  congr 4
  -- the two distributions agree entry by entry
  apply List.ext_getElem?
  intro i
  rw [List.getElem?_set]
  by_cases hi : i < 2 ^ la
  · have hl : i < (d ++ List.replicate (2 ^ la - d.length) 0).length := by
      simp only [List.length_append, List.length_replicate]; omega
    rw [List.getElem?_eq_getElem hl]
    have hg : (d ++ List.replicate (2 ^ la - d.length) 0)[i] = (d ++ List.replicate (2 ^ la - d.length) 0).getD i 0 :=
      List.getElem_eq_getD 0
    rw [hg, getD_append_zeros, hd i]
    by_cases hiv : v = i
    · subst hiv; simp; omega
    · have : ¬ i = v := fun e => hiv e.symm
      simp [hiv, this, hi]
  · have hl : (d ++ List.replicate (2 ^ la - d.length) 0).length ≤ i := by
      simp only [List.length_append, List.length_replicate]; omega
    rw [List.getElem?_eq_none hl]
    have hiv : ¬ v = i := by omega
    simp only [hiv, if_false]
    rw [List.getElem?_eq_none (by simp; omega)]

end Jxl.Entropy
