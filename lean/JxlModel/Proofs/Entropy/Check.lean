import JxlModel.Proofs.Entropy.Top
import JxlModel.Proofs.Entropy.Alias
import JxlModel.Proofs.Entropy.Cluster
/-! The encoder's Boolean `EntropyPlan.check` implies the semantic hypotheses of the stream
theorems (`ToksOK`, `ItemsOK`, `CfgOK`). -/
namespace Jxl.Entropy
open List Jxl Jxl.Enc

theorem cfgOK_of_valid (c : IntegerConfig) (la : Nat) (h : c.valid la = true) : CfgOK c := by
  unfold IntegerConfig.valid at h
  unfold CfgOK
  simp only [Bool.and_eq_true, decide_eq_true_eq] at h
  obtain ⟨_, h2⟩ := h
  split at h2
  · simp only [Bool.and_eq_true, beq_iff_eq] at h2; omega
  · simpa using h2

theorem getD_le_listMax (l : List Nat) (i : Nat) : l.getD i 0 ≤ listMax l := by
  by_cases h : i < l.length
  · rw [← getElem_eq_getD (h := h)]
    exact le_listMax l _ (getElem_mem h)
  · rw [getD_eq_getElem?_getD, getElem?_eq_none (by omega)]; simp

theorem getLastD_le_listMax (l : List Nat) : l.getLastD 0 ≤ listMax l := by
  induction l with
  | nil => simp
  | cons a r ih =>
    cases r with
    | nil => simp [listMax]
    | cons b t =>
      have : (a :: b :: t).getLastD 0 = (b :: t).getLastD 0 := by simp [getLastD]
      rw [this]
      simp only [listMax] at ih ⊢
      omega

theorem tok_cluster_lt (p : EntropyPlan) (items : List Item) (t : Tok) (ht : t ∈ p.toks items) :
    t.cluster < p.numClusters := by
  unfold EntropyPlan.toks at ht
  rw [mem_flatMap] at ht
  obtain ⟨i, _, hi⟩ := ht
  unfold EntropyPlan.numClusters
  cases i with
  | lit c v =>
    simp only [EntropyPlan.itemToks, mem_singleton] at hi
    subst hi
    have := getD_le_listMax p.clusterMap c
    simp only [EntropyPlan.clusterOf]; omega
  | copy c len dc =>
    simp only [EntropyPlan.itemToks] at hi
    cases hlz : p.lz77 with
    | none => rw [hlz] at hi; simp at hi
    | some lz =>
      rw [hlz] at hi
      simp only [mem_cons, mem_singleton, not_mem_nil, or_false] at hi
      rcases hi with rfl | rfl
      · have := getD_le_listMax p.clusterMap c
        simp only [EntropyPlan.clusterOf]; omega
      · have := getLastD_le_listMax p.clusterMap
        simp only [EntropyPlan.lzCluster]; omega

/-- what `codeOk` gives for a prefix code -/
theorem prefixSymOK_of_codeOk (tokens : List Nat) (c : CodeSpec) (h : codeOk .prefix tokens c = true)
    (t : Nat) (ht : t ∈ tokens) : PrefixSymOK c.prefixCode t := by
  cases c with
  | lengths count lens form =>
    simp only [codeOk, Bool.and_eq_true, decide_eq_true_eq, beq_iff_eq, all_eq_true] at h
    obtain ⟨⟨⟨⟨⟨_, h1⟩, h2⟩, h3⟩, h4⟩, h5⟩ := h
    unfold CodeSpec.prefixCode
    by_cases hc : count = 1
    · simp only [hc, if_true, all_eq_true, decide_eq_true_eq] at h5
      have : count ≤ 1 := by omega
      simp only [this, if_true]
      left; rw [h5 t ht]
    · have hc' : ¬ count ≤ 1 := by omega
      simp only [hc, if_false] at h5
      simp only [hc', if_false]
      cases hcode : codeOfLens lens with
      | single s =>
        rw [hcode] at h5
        simp only [all_eq_true, decide_eq_true_eq] at h5
        left; rw [h5 t ht]
      | table es =>
        rw [hcode] at h5
        simp only [Bool.and_eq_true, beq_iff_eq, all_eq_true, decide_eq_true_eq] at h5
        right
        have hes : es = sortedSyms lens := by
          unfold codeOfLens at hcode
          split at hcode
          · cases hcode
          · cases hcode; rfl
        subst hes
        exact ⟨lens, rfl, fun l hl => by simpa using h4 l hl, by omega, h5.2 t ht⟩
  | dist d form => simp [codeOk] at h
  | auto a b => simp [codeOk] at h

theorem getD_append_zeros (d : List Nat) (n t : Nat) : (d ++ List.replicate n 0).getD t 0 = d.getD t 0 := by
  rw [getD_eq_getElem?_getD, getD_eq_getElem?_getD]
  by_cases h : t < d.length
  · rw [getElem?_append_left h]
  · rw [getElem?_append_right (by omega), getElem?_eq_none (by omega : d.length ≤ t)]
    by_cases h2 : t - d.length < n
    · rw [getElem?_replicate]; simp [h2]
    · rw [getElem?_eq_none (by simp; omega)]

/-- what `codeOk` gives for an ANS code (uses the alias-table theorem) -/
theorem ansSymOK_of_codeOk (la : Nat) (tokens : List Nat) (c : CodeSpec)
    (h : codeOk (.ans la) tokens c = true) (t : Nat) (ht : t ∈ tokens) :
    AnsSymOK (c.ansHist la) t := by
  cases c with
  | lengths count lens form => simp [codeOk] at h
  | auto a b => simp [codeOk] at h
  | dist d form =>
    simp only [codeOk, Bool.and_eq_true, decide_eq_true_eq, beq_iff_eq, all_eq_true] at h
    obtain ⟨⟨⟨⟨h1, h2⟩, h3⟩, h4⟩, h5⟩ := h
    unfold CodeSpec.ansHist
    apply alias_symOK la ⟨h1, h2⟩
    · simp only [length_append, length_replicate]; omega
    · have hz : ∀ n : Nat, (List.replicate n 0).sum = 0 := by
        intro n; induction n with
        | zero => rfl
        | succ n ih => simp [List.replicate_succ, ih]
      rw [sum_append, hz, Nat.add_zero, ← h4]; exact sum_eq_foldl_nat
    · simp only
      rw [getD_append_zeros]
      simpa using h5 t ht

/-- the pieces of `check` the stream theorems need -/
structure CheckFacts (p : EntropyPlan) (items : List Item) : Prop where
  cfgs : ∀ i, i < p.numClusters → CfgOK (p.config i)
  lzOK : ∀ lz, p.lz77 = some lz → CfgOK lz.lenConf
  noCopyFirst : ∀ lz, p.lz77 = some lz → (match items with | .copy .. :: _ => False | _ => True)
  itemsLz : ∀ lz, p.lz77 = some lz → ∀ i ∈ items, match i with
    | .lit c v => tokenOf (p.config (p.clusterOf c)) v < lz.minSymbol
    | .copy _ len _ => lz.minLength ≤ len ∧ 3 ≤ lz.minLength
  itemsNoLz : p.lz77 = none → ∀ i ∈ items, match i with | .lit _ _ => True | .copy .. => False
  vals : ∀ i ∈ items, match i with | .lit _ v => v < 2 ^ 32 | .copy _ _ dc => dc < 2 ^ 32
  ncodes : p.numClusters ≤ p.codes.length
  codes : ∀ i, i < p.numClusters →
    codeOk p.coder (((p.toks items).filter fun t => t.cluster = i).map (·.sym)) (p.codes.getD i default) = true

theorem checkFacts (p : EntropyPlan) (items : List Item) (h : p.check items = true) :
    CheckFacts p items := by
  unfold EntropyPlan.check planDepth EntropyPlan.checkD at h
  simp only [Bool.and_eq_true] at h
  obtain ⟨⟨⟨⟨⟨⟨⟨⟨⟨⟨_, _⟩, _⟩, _⟩, c5⟩, c6⟩, c7⟩, _⟩, c9⟩, c10⟩, c11⟩ := h
  simp only [decide_eq_true_eq] at c5 c6
  refine ⟨?_, ?_, ?_, ?_, ?_, ?_, c6, ?_⟩
  · intro i hi
    rw [all_eq_true] at c7
    have hlt : i < p.configs.length := by omega
    have hmem : p.config i ∈ p.configs.take p.numClusters := by
      unfold EntropyPlan.config
      rw [← getElem_eq_getD (h := hlt), mem_iff_getElem?]
      exact ⟨i, by rw [getElem?_take_of_lt hi, getElem?_eq_getElem hlt]⟩
    exact cfgOK_of_valid _ _ (c7 _ hmem)
  · intro lz hlz
    rw [hlz] at c9
    simp only [Bool.and_eq_true] at c9
    exact cfgOK_of_valid _ 8 c9.1.1.1.1.1
  · intro lz hlz
    rw [hlz] at c9
    simp only [Bool.and_eq_true] at c9
    have h2 := c9.1.2
    cases items with
    | nil => trivial
    | cons i r =>
      cases i with
      | lit c v => trivial
      | copy c len dc => simp at h2
  · intro lz hlz i hi
    rw [hlz] at c9
    simp only [Bool.and_eq_true, all_eq_true, decide_eq_true_eq] at c9
    have h1 := c9.2 i hi
    have h3 := c9.1.1.1.1.2
    cases i with
    | lit c v => simp only [Bool.and_eq_true, decide_eq_true_eq] at h1; exact h1.2
    | copy c len dc => simp only [Bool.and_eq_true, decide_eq_true_eq] at h1; exact ⟨h1.1.2, h3⟩
  · intro hlz i hi
    rw [hlz] at c9
    rw [all_eq_true] at c9
    have := c9 i hi
    cases i <;> simp_all
  · intro i hi
    rw [all_eq_true] at c10
    have := c10 i hi
    cases i <;> simpa using this
  · intro i hi
    rw [all_eq_true] at c11
    have hlt : i < p.codes.length := by omega
    have hmem : (p.codes.getD i default, i) ∈ (p.codes.take p.numClusters).zipIdx := by
      rw [mem_zipIdx_iff_getElem?]
      simp only
      rw [getElem?_take_of_lt hi, getElem?_eq_getElem hlt, ← getElem_eq_getD (h := hlt)]
    exact c11 _ hmem

theorem toksOK_of_check (p : EntropyPlan) (items : List Item) (h : p.check items = true) :
    ToksOK p (p.toks items) := by
  have f := checkFacts p items h
  unfold ToksOK
  cases hc : p.coder with
  | «prefix» =>
    intro t ht
    have hlt := tok_cluster_lt p items t ht
    have hcode := f.codes t.cluster hlt
    rw [hc] at hcode
    have := prefixSymOK_of_codeOk _ _ hcode t.sym
      (mem_map.2 ⟨t, mem_filter.2 ⟨ht, by simp⟩, rfl⟩)
    have e : (p.codes.map CodeSpec.prefixCode).getD t.cluster default
        = (p.codes.getD t.cluster default).prefixCode := by
      have hl : t.cluster < p.codes.length := Nat.lt_of_lt_of_le hlt f.ncodes
      rw [getD_eq_getElem?_getD, getElem?_map, getD_eq_getElem?_getD, getElem?_eq_getElem hl]
      simp
    rw [e]; exact this
  | ans la =>
    intro t ht
    have hlt := tok_cluster_lt p items t ht
    have hcode := f.codes t.cluster hlt
    rw [hc] at hcode
    have := ansSymOK_of_codeOk la _ _ hcode t.sym
      (mem_map.2 ⟨t, mem_filter.2 ⟨ht, by simp⟩, rfl⟩)
    have e : (p.codes.map (CodeSpec.ansHist la)).getD t.cluster default
        = (p.codes.getD t.cluster default).ansHist la := by
      have hl : t.cluster < p.codes.length := Nat.lt_of_lt_of_le hlt f.ncodes
      rw [getD_eq_getElem?_getD, getElem?_map, getD_eq_getElem?_getD, getElem?_eq_getElem hl]
      simp
    rw [e]; exact this

theorem clusterOf_lt (p : EntropyPlan) (c : Nat) : p.clusterOf c < p.numClusters := by
  have := getD_le_listMax p.clusterMap c
  unfold EntropyPlan.clusterOf EntropyPlan.numClusters; omega

theorem lzCluster_lt (p : EntropyPlan) : p.lzCluster < p.numClusters := by
  have := getLastD_le_listMax p.clusterMap
  unfold EntropyPlan.lzCluster EntropyPlan.numClusters; omega

/-- per-item validity from the Boolean check (copies additionally need `len < 2^32`) -/
theorem itemOK_of_check (p : EntropyPlan) (items : List Item) (h : p.check items = true)
    (hlen : ∀ i ∈ items, match i with | .copy _ len _ => len < 2 ^ 32 | .lit _ _ => True)
    (i : Item) (hi : i ∈ items) (ne : Prop) (hne : (match i with | .copy .. => ne | .lit _ _ => True)) :
    ItemOK p ne i := by
  have f := checkFacts p items h
  cases i with
  | lit c v =>
    refine ⟨f.vals _ hi, f.cfgs _ (clusterOf_lt p c), ?_⟩
    intro lz hlz
    exact f.itemsLz lz hlz _ hi
  | copy c len dc =>
    cases hlz : p.lz77 with
    | none => exact absurd (f.itemsNoLz hlz _ hi) id
    | some lz =>
      have h1 := f.itemsLz lz hlz _ hi
      simp only at h1
      have h2 := hlen _ hi
      simp only at h2
      exact ⟨hne, f.vals _ hi, h2, by omega, f.cfgs _ (lzCluster_lt p), lz, hlz, h1.1, f.lzOK lz hlz⟩

theorem itemsOK_true_of (p : EntropyPlan) (items : List Item)
    (h : ∀ i ∈ items, ItemOK p True i) : ItemsOK p items True := by
  induction items with
  | nil => trivial
  | cons i r ih => exact ⟨h i (by simp), ih (fun j hj => h j (by simp [hj]))⟩

theorem itemsOK_of_check (p : EntropyPlan) (items : List Item) (h : p.check items = true)
    (hlen : ∀ i ∈ items, match i with | .copy _ len _ => len < 2 ^ 32 | .lit _ _ => True) :
    ItemsOK p items False := by
  have f := checkFacts p items h
  cases items with
  | nil => trivial
  | cons i r =>
    refine ⟨?_, itemsOK_true_of p r (fun j hj => itemOK_of_check p _ h hlen j (by simp [hj]) True
      (by cases j <;> trivial))⟩
    cases i with
    | lit c v => exact itemOK_of_check p _ h hlen _ (by simp) False trivial
    | copy c len dc =>
      cases hlz : p.lz77 with
      | none => exact absurd (f.itemsNoLz hlz (.copy c len dc) (by simp)) id
      | some lz => exact absurd (f.noCopyFirst lz hlz) id

/-- **End to end on the stream, from the encoder's own check, without LZ77.** -/
theorem check_roundtrip_plain (p : EntropyPlan) (hlz : p.lz77 = none) (mult : Nat)
    (syms : List (Nat × Nat)) (rest : Bits)
    (h : p.check (syms.map fun (c, v) => .lit c v) = true) :
    ∃ st0 s0 st1,
      (planDecoder p).begin {} (encodeSymbols p syms ++ rest) = .ok (st0, s0) ∧
      (planDecoder p).readSeq mult (syms.map (·.1)) st0 s0 = .ok ((syms.map (·.2), st1), rest) ∧
      (planDecoder p).finalize st1 = .ok () := by
  have f := checkFacts p _ h
  apply stream_roundtrip_plain p hlz mult syms rest
  · intro cv hcv
    obtain ⟨c, v⟩ := cv
    have := f.vals (.lit c v) (mem_map.2 ⟨(c, v), hcv, rfl⟩)
    exact ⟨this, f.cfgs _ (clusterOf_lt p c)⟩
  · exact toksOK_of_check p _ h

/-- **End to end on the stream, from the encoder's own check, with LZ77.** -/
theorem check_roundtrip_lz (p : EntropyPlan) (lz : Lz77Params) (hlz : p.lz77 = some lz) (mult : Nat)
    (items : List Item) (ctxs : List Nat) (rest : Bits) (hctx : CtxsFor items ctxs)
    (h : p.check items = true)
    (hlen : ∀ i ∈ items, match i with | .copy _ len _ => len < 2 ^ 32 | .lit _ _ => True) :
    ∃ st0 s0 st1,
      (planDecoder p).begin {} (encodeItems p items ++ rest) = .ok (st0, s0) ∧
      (planDecoder p).readSeq mult ctxs st0 s0 = .ok ((expandItems mult items, st1), rest) ∧
      (planDecoder p).finalize st1 = .ok () :=
  stream_roundtrip_lz p lz hlz mult items ctxs rest hctx (itemsOK_of_check p items h hlen)
    (toksOK_of_check p items h)

end Jxl.Entropy
