import Mathlib.Tactic.IntervalCases
import JxlModel.Model.Entropy.Decoder
import JxlModel.Model.Enc.EntropyEnc
import JxlModel.Proofs.Entropy.Reader
import JxlModel.Proofs.Entropy.Hybrid
/-! Header fields: each small reader inverts its writer. -/
namespace Jxl.Entropy
open Jxl Jxl.Enc

theorem writeConfig_eq (la : Nat) (c : IntegerConfig) : writeConfig la c = writeConfigSpec la c := rfl

/-! ## ANS histogram fields -/

theorem log2_lt_of_lt_pow {v k : Nat} (hv : v ≠ 0) (h : v < 2 ^ k) : Nat.log2 v < k := by
  rcases Nat.lt_or_ge (Nat.log2 v) k with h1 | h1
  · exact h1
  · exfalso
    have := Nat.log2_self_le hv
    have : 2 ^ k ≤ 2 ^ Nat.log2 v := Nat.pow_le_pow_right (by omega) h1
    omega

theorem readU8_writeU8 (v : Nat) (hv : v < 256) (rest : Bits) :
    readU8 (writeU8 v ++ rest) = .ok (v, rest) := by
  unfold writeU8
  by_cases h0 : v = 0
  · subst h0; rfl
  · simp only [h0, if_false]
    have hl := Nat.log2_self_le h0
    have hu : v < 2 ^ (Nat.log2 v + 1) := Nat.lt_log2_self
    have hn : Nat.log2 v < 8 := log2_lt_of_lt_pow h0 (by omega)
    simp only [readU8, List.cons_append, rbool_cons, List.append_assoc]
    rw [rbits_toBits 3 _ _ (by omega)]
    simp only
    rw [rbits_toBits _ _ _ (by rw [Nat.pow_succ] at hu; omega)]
    simp only
    have : 2 ^ Nat.log2 v + (v - 2 ^ Nat.log2 v) = v := by omega
    rw [this, Nat.mod_eq_of_lt hv]

theorem readLogCount_write (c : Nat) (hc : c ≤ 13) (rest : Bits) :
    readLogCount (writeLogCount c ++ rest) = .ok (c, rest) := by
  interval_cases c <;> rfl

/-- the shift field as `parseAnsDist` reads it -/
def readShift (s : Bits) : R Nat :=
  match readShiftLen 3 0 s with
  | .error e => .error e
  | .ok (len, s1) =>
    match rbits len s1 with
    | .error e => .error e
    | .ok (sb, s2) => .ok (sb + 2 ^ len - 1, s2)

theorem readShift_write (shift : Nat) (hs : shift ≤ 13) (rest : Bits) :
    readShift (writeShift shift ++ rest) = .ok (shift, rest) := by
  interval_cases shift <;> rfl

/-- **single-symbol form** -/
theorem parseAns_single (la v : Nat) (hv : v < 2 ^ la) (hv8 : v < 256) (rest : Bits) :
    parseAnsDist la ([true, false] ++ writeU8 v ++ rest)
      = .ok (⟨(List.replicate (2 ^ la) 0).set v 4096, v + 1⟩, rest) := by
  simp only [parseAnsDist, List.cons_append, List.nil_append, rbool_cons, List.append_assoc]
  rw [readU8_writeU8 v hv8]
  simp only
  have : ¬ v + 1 > 2 ^ la := by omega
  simp [this]

/-- **two-symbol form** -/
theorem parseAns_binary (la v0 v1 p : Nat) (h0 : v0 < 2 ^ la) (h1 : v1 < 2 ^ la) (hne : v0 ≠ v1)
    (h08 : v0 < 256) (h18 : v1 < 256) (hp : p < 4096) (rest : Bits) :
    parseAnsDist la ([true, true] ++ writeU8 v0 ++ writeU8 v1 ++ toBits 12 p ++ rest)
      = .ok (⟨((List.replicate (2 ^ la) 0).set v0 p).set v1 (4096 - p), max v0 v1 + 1⟩, rest) := by
  simp only [parseAnsDist, List.cons_append, List.nil_append, rbool_cons, List.append_assoc]
  rw [readU8_writeU8 v0 h08]
  simp only
  rw [readU8_writeU8 v1 h18]
  simp only [hne, if_false]
  have : ¬ max v0 v1 + 1 > 2 ^ la := by omega
  simp only [this, if_false]
  rw [rbits_toBits 12 p _ hp]

/-- **flat form** -/
theorem parseAns_flat (la a : Nat) (ha1 : 1 ≤ a) (ha : a ≤ 2 ^ la) (ha8 : a ≤ 256) (rest : Bits) :
    parseAnsDist la ([false, true] ++ writeU8 (a - 1) ++ rest)
      = .ok (⟨flatDist a ++ List.replicate (2 ^ la - a) 0, a⟩, rest) := by
  simp only [parseAnsDist, List.cons_append, List.nil_append, rbool_cons, List.append_assoc]
  rw [readU8_writeU8 (a - 1) (by omega)]
  simp only
  have e : a - 1 + 1 = a := by omega
  rw [e]
  have : ¬ a > 2 ^ la := by omega
  simp only [this, if_false, flatDist, List.append_assoc]

/-! ## prefix histogram fields -/

theorem readClcLen_write (l : Nat) (hl : l ≤ 5) (rest : Bits) :
    readClcLen (writeClcLen l ++ rest) = .ok (l, rest) := by
  interval_cases l <;> rfl

theorem readPrefixCount_write (count : Nat) (h1 : 1 ≤ count) (h2 : count ≤ 2 ^ 15) (rest : Bits) :
    readPrefixCount (writePrefixCount count ++ rest) = .ok (count, rest) := by
  unfold writePrefixCount
  by_cases hc : count ≤ 1
  · have : count = 1 := by omega
    subst this; rfl
  · simp only [hc, if_false]
    have h0 : count - 1 ≠ 0 := by omega
    have hl := Nat.log2_self_le h0
    have hu : count - 1 < 2 ^ (Nat.log2 (count - 1) + 1) := Nat.lt_log2_self
    have hn : Nat.log2 (count - 1) < 15 := log2_lt_of_lt_pow h0 (by omega)
    simp only [readPrefixCount, List.cons_append, List.nil_append, rbool_cons, List.append_assoc]
    rw [rbits_toBits 4 _ _ (by omega)]
    simp only
    rw [rbits_toBits _ _ _ (by rw [Nat.pow_succ] at hu; omega)]
    simp only
    have e : 1 + 2 ^ Nat.log2 (count - 1) + (count - 1 - 2 ^ Nat.log2 (count - 1)) = count := by omega
    rw [e]
    have : ¬ count > 2 ^ 15 := by omega
    rw [if_neg this]

/-- **simple form, one symbol** -/
theorem parsePrefix_simple1 (n sym : Nat) (hn : 2 ≤ n) (hn15 : n ≤ 2 ^ 15) (hs : sym < n) (rest : Bits) :
    parsePrefix n (writeSimple n [sym] none ++ rest) = .ok (.single sym, rest) := by
  have hlt : sym < 2 ^ clog2 n := by
    have : n ≤ 2 ^ clog2 n := by
      unfold clog2
      exact clog2_go_spec 33 0 n (by simp; omega)
    omega
  have h1 : ¬ n = 1 := by omega
  have h2 : ¬ n > 2 ^ 15 := by omega
  simp only [parsePrefix, h1, h2, if_false, writeSimple, List.length_singleton, List.flatMap_cons,
    List.flatMap_nil, List.append_nil, List.append_assoc]
  rw [rbits_toBits 2 1 _ (by omega)]
  simp only [if_true, parseSimple]
  rw [rbits_toBits 2 0 _ (by omega)]
  simp only [rsyms]
  rw [rbits_toBits _ sym _ hlt]
  simp only [List.nil_append, List.getD_cons_zero]
  have : ¬ sym ≥ n := by omega
  simp [this]

/-! ## LZ77 parameters -/

theorem parseLz77_none (rest : Bits) : parseLz77 (writeLz77 none ++ rest) = .ok (none, rest) := rfl

theorem parseLz77_some (lz : Lz77Params)
    (hms : lz.minSymbol = 224 ∨ lz.minSymbol = 512 ∨ lz.minSymbol = 4096 ∨
      (8 ≤ lz.minSymbol ∧ lz.minSymbol < 8 + 2 ^ 15))
    (hml : 3 ≤ lz.minLength ∧ lz.minLength ≤ 264) (hc : lz.lenConf.valid 8 = true) (rest : Bits) :
    parseLz77 (writeLz77 (some lz) ++ rest) = .ok (some lz, rest) := by
  obtain ⟨ms, ml, c⟩ := lz
  simp only at hms hml hc
  have hcfg := integerConfig_roundtrip 8 (by omega) c hc rest
  rw [← writeConfig_eq] at hcfg
  -- min_symbol
  have hA : ∀ tail : Bits,
      readU32 (.const 224) (.const 512) (.const 4096) (.bits 8 15)
        ((if ms = 224 then toBits 2 0 else if ms = 512 then toBits 2 1
          else if ms = 4096 then toBits 2 2 else toBits 2 3 ++ toBits 15 (ms - 8)) ++ tail)
        = .ok (ms, tail) := by
    intro tail
    by_cases h1 : ms = 224
    · subst h1; rfl
    · by_cases h2 : ms = 512
      · subst h2; rfl
      · by_cases h3 : ms = 4096
        · subst h3; rfl
        · have h4 : 8 ≤ ms ∧ ms < 8 + 2 ^ 15 := by
            rcases hms with h | h | h | h
            · exact absurd h h1
            · exact absurd h h2
            · exact absurd h h3
            · exact h
          simp only [h1, h2, h3, if_false, readU32, List.append_assoc]
          rw [rbits_toBits 2 3 _ (by omega)]
          simp only
          rw [rbits_toBits 15 _ _ (by omega)]
          simp only
          have : (ms - 8 + 8) % 2 ^ 32 = ms := by
            rw [Nat.sub_add_cancel h4.1]; exact Nat.mod_eq_of_lt (by omega)
          rw [this]
  have hB : ∀ tail : Bits,
      readU32 (.const 3) (.const 4) (.bits 5 2) (.bits 9 8)
        ((if ml = 3 then toBits 2 0 else if ml = 4 then toBits 2 1
          else if ml ≤ 8 then toBits 2 2 ++ toBits 2 (ml - 5)
          else toBits 2 3 ++ toBits 8 (ml - 9)) ++ tail)
        = .ok (ml, tail) := by
    intro tail
    by_cases h1 : ml = 3
    · subst h1; rfl
    · by_cases h2 : ml = 4
      · subst h2; rfl
      · by_cases h3 : ml ≤ 8
        · simp only [h1, h2, h3, if_false, if_true, readU32, List.append_assoc]
          rw [rbits_toBits 2 2 _ (by omega)]
          simp only
          rw [rbits_toBits 2 _ _ (by omega)]
          simp only
          have : (ml - 5 + 5) % 2 ^ 32 = ml := by
            rw [Nat.sub_add_cancel (by omega)]; exact Nat.mod_eq_of_lt (by omega)
          rw [this]
        · simp only [h1, h2, h3, if_false, readU32, List.append_assoc]
          rw [rbits_toBits 2 3 _ (by omega)]
          simp only
          rw [rbits_toBits 8 _ _ (by omega)]
          simp only
          have : (ml - 9 + 9) % 2 ^ 32 = ml := by
            rw [Nat.sub_add_cancel (by omega)]; exact Nat.mod_eq_of_lt (by omega)
          rw [this]
  simp only [writeLz77, parseLz77, List.cons_append, List.nil_append, rbool_cons, List.append_assoc]
  rw [hA]
  simp only
  rw [hB]
  simp only
  rw [hcfg]

/-! ## simple cluster map -/

theorem readMany_rbits (nbits : Nat) (l : List Nat) (h : ∀ x ∈ l, x < 2 ^ nbits) (rest : Bits) :
    readMany (rbits nbits) l.length (l.flatMap (toBits nbits) ++ rest) = .ok (l, rest) := by
  induction l with
  | nil => rfl
  | cons a r ih =>
    simp only [List.length_cons, readMany, List.flatMap_cons, List.append_assoc]
    rw [rbits_toBits nbits a _ (h a (by simp))]
    simp only
    rw [ih (fun x hx => h x (by simp [hx]))]

end Jxl.Entropy
