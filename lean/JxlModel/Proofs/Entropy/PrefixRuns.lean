import JxlModel.Proofs.Entropy.PrefixLens
/-! Run-length grouping and trailing-zero trimming of a code-length vector. -/
namespace Jxl.Entropy
open Jxl Jxl.Enc

theorem groupRuns_cons_nil (a : Nat) (l : List Nat) (hg : groupRuns l = []) :
    groupRuns (a :: l) = [(a, 1)] := by
  rw [groupRuns, hg]

theorem groupRuns_cons_cons (a : Nat) (l : List Nat) (b n : Nat) (t : List (Nat × Nat))
    (hg : groupRuns l = (b, n) :: t) :
    groupRuns (a :: l) = if a = b then (b, n + 1) :: t else (a, 1) :: (b, n) :: t := by
  rw [groupRuns, hg]

theorem groupRuns_expand (l : List Nat) : runsExpand (groupRuns l) = l := by
  induction l with
  | nil => rfl
  | cons a l ih =>
    cases hg : groupRuns l with
    | nil =>
      rw [groupRuns_cons_nil a l hg]
      rw [hg] at ih
      simp only [runsExpand] at ih ⊢
      rw [← ih]; rfl
    | cons r t =>
      obtain ⟨b, n⟩ := r
      rw [groupRuns_cons_cons a l b n t hg]
      rw [hg] at ih
      by_cases hab : a = b
      · subst hab
        simp only [if_true, runsExpand] at ih ⊢
        rw [← ih, List.replicate_succ, List.cons_append]
      · simp only [hab, if_false, runsExpand] at ih ⊢
        rw [← ih]; rfl

theorem groupRuns_mass (l : List Nat) : runsMass (groupRuns l) = kraft l := by
  induction l with
  | nil => rfl
  | cons a l ih =>
    cases hg : groupRuns l with
    | nil =>
      rw [groupRuns_cons_nil a l hg]
      rw [hg] at ih
      simp only [runsMass, kraft, w15] at ih ⊢
      rw [← ih]; simp
    | cons r t =>
      obtain ⟨b, n⟩ := r
      rw [groupRuns_cons_cons a l b n t hg]
      rw [hg] at ih
      by_cases hab : a = b
      · subst hab
        simp only [if_true, runsMass, kraft] at ih ⊢
        rw [← ih, Nat.add_mul, Nat.one_mul]
        unfold w15
        omega
      · simp only [hab, if_false, runsMass, kraft] at ih ⊢
        rw [← ih, Nat.one_mul]
        unfold w15
        omega

theorem groupRuns_head (l : List Nat) : (groupRuns l).head?.map (·.1) = l.head? := by
  cases l with
  | nil => rfl
  | cons a l =>
    cases hg : groupRuns l with
    | nil => rw [groupRuns_cons_nil a l hg]; rfl
    | cons r t =>
      obtain ⟨b, n⟩ := r
      rw [groupRuns_cons_cons a l b n t hg]
      by_cases hab : a = b
      · subst hab; simp
      · simp [hab]

theorem groupRuns_wf (l : List Nat) (h : ∀ x ∈ l, x ≤ 15) :
    ∀ prev, (∀ a ∈ l.head?, prev ≠ some a) → RunsWF prev (groupRuns l) := by
  induction l with
  | nil => intro _ _; trivial
  | cons a l ih =>
    intro prev hprev
    have ha : a ≤ 15 := h a (by simp)
    have hp : prev ≠ some a := hprev a (by simp)
    have hl : ∀ x ∈ l, x ≤ 15 := fun x hx => h x (by simp [hx])
    cases hg : groupRuns l with
    | nil => rw [groupRuns_cons_nil a l hg]; exact ⟨by simp, ha, hp, trivial⟩
    | cons r t =>
      obtain ⟨b, n⟩ := r
      rw [groupRuns_cons_cons a l b n t hg]
      have hhead := groupRuns_head l
      rw [hg] at hhead
      simp only [List.head?_cons, Option.map_some] at hhead
      by_cases hab : a = b
      · subst hab
        simp only [if_true]
        have := ih hl none (by intro x _; simp)
        rw [hg] at this
        obtain ⟨h1, h2, _, h4⟩ := this
        exact ⟨by simp only; omega, h2, hp, h4⟩
      · simp only [hab, if_false]
        have := ih hl (some a) (by
          intro x hx
          rw [← hhead] at hx
          simp only [Option.mem_def, Option.some.injEq] at hx
          subst hx
          simpa using hab)
        rw [hg] at this
        exact ⟨by simp, ha, hp, this⟩

theorem groupRuns_last (l : List Nat) : (groupRuns l).getLast?.map (·.1) = l.getLast? := by
  induction l with
  | nil => rfl
  | cons a l ih =>
    cases hg : groupRuns l with
    | nil =>
      rw [groupRuns_cons_nil a l hg]
      have : l = [] := by
        have := groupRuns_expand l
        rw [hg] at this
        exact this.symm
      subst this; rfl
    | cons r t =>
      obtain ⟨b, n⟩ := r
      rw [groupRuns_cons_cons a l b n t hg]
      rw [hg] at ih
      have hne : l ≠ [] := by
        intro h; subst h; simp [groupRuns] at hg
      obtain ⟨c, l', rfl⟩ := List.exists_cons_of_ne_nil hne
      rw [List.getLast?_cons_cons, ← ih]
      by_cases hab : a = b
      · subst hab
        simp only [if_true]
        cases t with
        | nil => rfl
        | cons r' t' => rw [List.getLast?_cons_cons, List.getLast?_cons_cons]
      · simp only [hab, if_false]
        rw [List.getLast?_cons_cons]

/-! ## trailing zeros -/

theorem trim_append_zeros (l : List Nat) :
    trimTrailingZeros l ++ List.replicate (l.length - (trimTrailingZeros l).length) 0 = l := by
  unfold trimTrailingZeros
  have h := List.takeWhile_append_dropWhile (p := fun x : Nat => decide (x = 0)) (l := l.reverse)
  have hz : l.reverse.takeWhile (fun x : Nat => decide (x = 0))
      = List.replicate (l.reverse.takeWhile (fun x : Nat => decide (x = 0))).length 0 := by
    rw [List.eq_replicate_iff]
    refine ⟨rfl, fun x hx => ?_⟩
    have := List.all_takeWhile (l := l.reverse) (p := fun x : Nat => decide (x = 0))
    rw [List.all_eq_true] at this
    simpa using this x hx
  have hlen : l.length = (l.reverse.takeWhile (fun x : Nat => decide (x = 0))).length
      + (l.reverse.dropWhile (fun x : Nat => decide (x = 0))).length := by
    rw [← List.length_append, h, List.length_reverse]
  have h2 := congrArg List.reverse h
  rw [List.reverse_append, List.reverse_reverse] at h2
  rw [List.length_reverse]
  conv => rhs; rw [← h2]
  congr 1
  rw [hz, List.reverse_replicate]
  congr 1
  omega

theorem trimTZ_length_le (l : List Nat) : (trimTrailingZeros l).length ≤ l.length := by
  have := congrArg List.length (trim_append_zeros l)
  simp only [List.length_append, List.length_replicate] at this
  omega

theorem trim_last (l : List Nat) : ∀ x ∈ (trimTrailingZeros l).getLast?, x ≠ 0 := by
  intro x hx
  unfold trimTrailingZeros at hx
  rw [List.getLast?_reverse] at hx
  have := List.head?_dropWhile_not (fun x : Nat => decide (x = 0)) l.reverse
  rw [Option.mem_def] at hx
  rw [hx] at this
  simpa using this

theorem kraft_append_zeros (l : List Nat) (n : Nat) : kraft (l ++ List.replicate n 0) = kraft l := by
  induction l with
  | nil =>
    induction n with
    | zero => rfl
    | succ n ih => simp only [List.nil_append, List.replicate_succ, kraft] at ih ⊢; simpa using ih
  | cons a l ih => simp only [List.cons_append, kraft, ih]

theorem kraft_trim (l : List Nat) : kraft (trimTrailingZeros l) = kraft l := by
  conv => rhs; rw [← trim_append_zeros l]
  rw [kraft_append_zeros]

theorem trim_mem (l : List Nat) (x : Nat) (h : x ∈ trimTrailingZeros l) : x ∈ l := by
  rw [← trim_append_zeros l]
  exact List.mem_append_left _ h

end Jxl.Entropy
