import JxlModel.Proofs.TableCompile
/-!
# The unrepaired `try_compile_to_table` (before /repo f9ead7c), kept for the witness of finding F14

`tblStepOld` is the old body of the index-fill loop: the range that ends at `i32::MAX` wrote only
the **last** table entry (`*indices.last_mut() = ..`). `tryCompileOld` / `flattenLoopOld` /
`flattenOld` are `tryCompile` / `flattenLoop` / `flatten` of `Model/Modular/Tree.lean` with that one
arm changed back (the fused arm of `flattenLoopOld` is written with `kids`, as in
`flattenLoop_dec`); nothing else differs. Used only by `C03_unrepaired_table_wrong_at_i32max`.
-/
namespace Jxl.Modular

/-- old loop body: differs from `tblStep` only in the `e.2 == i32Max` arm -/
def tblStepOld (nextBase : Nat) (st : TSt) (e : Tree × Int) : TSt :=
  let (ind, nodes, rangeStart, nextIdx, idx, done) := st
  if done then st
  else if e.2 == i32Max then
    (ind.setIfInBounds (ind.size - 1) (nextBase + idx), nodes ++ [e.1], rangeStart, nextIdx, idx + 1, true)
  else
    let len := (e.2 - rangeStart).toNat
    (fillRange ind nextIdx len (nextBase + idx), nodes ++ [e.1], e.2, nextIdx + len, idx + 1, false)

/-- `tryCompile` (see `tryCompile_dec`) with the old loop body -/
def tryCompileOld (chan stream prevCh : Nat) (t : Tree) (nextBase : Nat) : Option (FlatNode × List Tree) :=
  match t with
  | .leaf _ => none
  | .dec prop value l r =>
    match compileLoop chan stream prevCh prop (2 * (Tree.dec prop value l r).size + 4)
        (compileInit value l r) value value [] with
    | (lb, ub, rn) =>
      if rn.length < 4 then none
      else
        match (sortByEnd rn).foldl (tblStepOld nextBase)
            (Array.replicate ((ub - lb).toNat + 2) 0, [], lb - 1, 0, 0, false) with
        | (ind, nodes, _, _, _, _) => some (.table prop lb ind, nodes)

/-- `flattenLoop` over `tryCompileOld` -/
def flattenLoopOld (chan stream prevCh : Nat) :
    Nat → List Tree → Array FlatNode → Nat → Array FlatNode
  | 0, _, out, _ => out
  | _, [], out, _ => out
  | fuel + 1, t :: q, out, nextBase =>
    let t := t.next chan stream prevCh
    match tryCompileOld chan stream prevCh t nextBase with
    | some (node, nodes) =>
      flattenLoopOld chan stream prevCh fuel (q ++ nodes) (out.push node) (nextBase + nodes.length)
    | none =>
      match t with
      | .leaf l => flattenLoopOld chan stream prevCh fuel q (out.push (.leaf l)) nextBase
      | .dec p v l r =>
        let l := l.next chan stream prevCh
        let r := r.next chan stream prevCh
        flattenLoopOld chan stream prevCh fuel
          (q ++ [(kids l).2.2.1, (kids l).2.2.2, (kids r).2.2.1, (kids r).2.2.2])
          (out.push (.fused p v (kids l).1 (kids r).1 (kids l).2.1 (kids r).2.1 nextBase)) (nextBase + 4)

def flattenOld (chan stream prevCh : Nat) (t : Tree) : Array FlatNode :=
  flattenLoopOld chan stream prevCh (4 * t.size + 4) [t.next chan stream prevCh] #[] 1

/-- indices of a table node (empty for other nodes) -/
def FlatNode.tableIndices : FlatNode → List Nat
  | .table _ _ ind => ind.toList
  | _ => []

end Jxl.Modular
