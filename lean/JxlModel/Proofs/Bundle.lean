import JxlModel.Model.Bundle
/-!
# Lemmas for the generic bundle parser/writer (C14)

Bit layer (`toBits`/`ofBits`/`rd`), `U32` for every selector, `U64` for every form, `F16`, `Bool`,
enums, `UnpackSigned`, repetition, and the round trip of the ONE generic parser/writer pair by
mutual induction over field types and field lists. Core tactics only.
-/
namespace Jxl.Bundle
open Jxl

/-! ## bits -/

theorem toBits_length (n v : Nat) : (toBits n v).length = n := by
  induction n generalizing v with
  | zero => rfl
  | succ n ih => simp [toBits, ih]

theorem ofBits_toBits (n v : Nat) (h : v < 2 ^ n) : ofBits (toBits n v) = v := by
  induction n generalizing v with
  | zero => simp [toBits, ofBits] at *; omega
  | succ n ih =>
    simp only [toBits, ofBits]
    have h2 : v / 2 < 2 ^ n := by
      rw [Nat.pow_succ] at h; omega
    rw [ih _ h2]
    by_cases hv : v % 2 = 1 <;> simp [hv] <;> omega

theorem takeBits_append (t rest : Bits) : takeBits t.length (t ++ rest) = some (t, rest) := by
  induction t with
  | nil => simp [takeBits]
  | cons b t ih => simp [takeBits, ih]

theorem takeBits_eq (n : Nat) (s : Bits) :
    takeBits n s = if n ≤ s.length then some (s.take n, s.drop n) else none := by
  induction n generalizing s with
  | zero => simp [takeBits]
  | succ n ih =>
    cases s with
    | nil => simp [takeBits]
    | cons b s =>
      simp only [takeBits, ih, List.length_cons, List.take_succ_cons, List.drop_succ_cons]
      by_cases h : n ≤ s.length <;> simp [h]

/-- the linear reader is the reader of `Model/Bits.lean` -/
theorem rd_eq_readBits (n : Nat) (s : Bits) :
    rd n s = match readBits n s with | some r => .ok r | none => .error .eof := by
  unfold rd readBits
  rw [takeBits_eq]
  by_cases h : n ≤ s.length <;> simp [h]

theorem rd_append (t rest : Bits) : rd t.length (t ++ rest) = .ok (ofBits t, rest) := by
  simp [rd, takeBits_append]

theorem rd_toBits (n v : Nat) (rest : Bits) (h : v < 2 ^ n) :
    rd n (toBits n v ++ rest) = .ok (v, rest) := by
  have := rd_append (toBits n v) rest
  rw [toBits_length, ofBits_toBits n v h] at this
  exact this

theorem toBits_zero (n : Nat) : toBits n 0 = List.replicate n false := by
  induction n with
  | zero => rfl
  | succ n ih => simp [toBits, ih, List.replicate_succ]

theorem rd_zeros (n : Nat) (rest : Bits) : rd n (List.replicate n false ++ rest) = .ok (0, rest) := by
  rw [← toBits_zero]
  exact rd_toBits n 0 rest (Nat.two_pow_pos n)

/-! ## U32 -/

theorem Dist.read_write (d : Dist) (v : Nat) (rest : Bits) (hw : d.canWrite v = true) :
    d.read (d.write v ++ rest) = .ok (v, rest) := by
  cases d with
  | const c => simp [Dist.canWrite] at hw; simp [Dist.read, Dist.write, hw]
  | bits off n =>
    simp [Dist.canWrite] at hw
    obtain ⟨⟨h1, h2⟩, h3⟩ := hw
    simp only [Dist.read, Dist.write]
    rw [rd_toBits n (v - off) rest h2]
    simp only [W32] at *
    rw [Nat.sub_add_cancel h1, Nat.mod_eq_of_lt h3]

/-- `U32`: every selector that can represent the value reads back -/
theorem readU32_writeU32With (d0 d1 d2 d3 : Dist) (k v : Nat) (rest : Bits) (hk : k < 4)
    (hw : (selDist d0 d1 d2 d3 k).canWrite v = true) :
    readU32 d0 d1 d2 d3 (writeU32With d0 d1 d2 d3 k v ++ rest) = .ok (v, rest) := by
  unfold readU32 writeU32With
  rw [List.append_assoc, rd_toBits 2 k _ (by omega)]
  exact Dist.read_write _ v rest hw

theorem pickSel_spec (d0 d1 d2 d3 : Dist) (c v k : Nat) (h : pickSel d0 d1 d2 d3 c v = some k) :
    k < 4 ∧ (selDist d0 d1 d2 d3 k).canWrite v = true := by
  unfold pickSel at h
  have hm := List.mem_of_find?_eq_some h
  have hp := List.find?_some h
  refine ⟨?_, hp⟩
  simp at hm
  omega

theorem readU32_writeU32 (d0 d1 d2 d3 : Dist) (c v : Nat) (bits rest : Bits)
    (h : writeU32 d0 d1 d2 d3 c v = some bits) :
    readU32 d0 d1 d2 d3 (bits ++ rest) = .ok (v, rest) := by
  unfold writeU32 at h
  cases hk : pickSel d0 d1 d2 d3 c v with
  | none => simp [hk] at h
  | some k =>
    simp [hk] at h
    obtain ⟨h1, h2⟩ := pickSel_spec _ _ _ _ _ _ _ hk
    rw [← h]
    exact readU32_writeU32With _ _ _ _ k v rest h1 h2

/-! ## U64 -/

theorem rd_one_true (rest : Bits) : rd 1 (true :: rest) = .ok (1, rest) := by
  simp [rd, takeBits, ofBits]

theorem rd_one_false (rest : Bits) : rd 1 (false :: rest) = .ok (0, rest) := by
  simp [rd, takeBits, ofBits]

theorem mod_pow_split (w a b : Nat) : w % 2 ^ a + (w / 2 ^ a % 2 ^ b) * 2 ^ a = w % 2 ^ (a + b) := by
  rw [Nat.pow_add, Nat.mod_mul, Nat.mul_comm]

/-- `g` continuation groups followed by the terminating 0 bit -/
theorem readU64Loop_groups (v : Nat) (rest : Bits) :
    ∀ (g fuel shift value : Nat), g + 1 ≤ fuel → shift + 8 * g ≤ 60 →
      readU64Loop fuel shift value (writeU64Groups g shift v ++ rest) =
        .ok (value + (v / 2 ^ shift % 2 ^ (8 * g)) * 2 ^ shift, rest) := by
  intro g
  induction g with
  | zero =>
    intro fuel shift value hf _
    obtain ⟨f, rfl⟩ : ∃ f, fuel = f + 1 := ⟨fuel - 1, by omega⟩
    simp [writeU64Groups, readU64Loop, rd_one_false, Nat.mod_one]
  | succ g ih =>
    intro fuel shift value hf hs
    obtain ⟨f, rfl⟩ : ∃ f, fuel = f + 1 := ⟨fuel - 1, by omega⟩
    have hne : (shift == 60) = false := by simp; omega
    simp only [writeU64Groups, List.cons_append, List.append_assoc, readU64Loop, rd_one_true, hne]
    rw [rd_toBits 8 _ _ (by omega)]
    simp only [Bool.false_eq_true, if_false]
    rw [ih f (shift + 8) _ (by omega) (by omega)]
    congr 2
    have e1 : v / 2 ^ (shift + 8) = v / 2 ^ shift / 2 ^ 8 := by
      rw [Nat.pow_add, Nat.div_div_eq_div_mul]
    have e2 := mod_pow_split (v / 2 ^ shift) 8 (8 * g)
    have e3 : 2 ^ (shift + 8) = 2 ^ 8 * 2 ^ shift := by rw [Nat.pow_add, Nat.mul_comm]
    have e4 : 8 * (g + 1) = 8 + 8 * g := by omega
    rw [e1, e3, e4, ← e2]
    simp only [Nat.add_mul, Nat.mul_assoc, Nat.add_assoc]

/-- the longest form: groups up to shift 60, then the 1 bit and 4 more bits -/
theorem readU64Loop_long (v : Nat) (rest : Bits) :
    ∀ (g fuel shift value : Nat), g + 1 ≤ fuel → shift + 8 * g = 60 →
      readU64Loop fuel shift value (writeU64LongGo v g shift ++ rest) =
        .ok (value + (v / 2 ^ shift % 2 ^ (8 * g + 4)) * 2 ^ shift, rest) := by
  intro g
  induction g with
  | zero =>
    intro fuel shift value hf hs
    obtain ⟨f, rfl⟩ : ∃ f, fuel = f + 1 := ⟨fuel - 1, by omega⟩
    have : shift = 60 := by omega
    subst this
    simp only [writeU64LongGo, List.cons_append, readU64Loop, rd_one_true]
    rw [rd_toBits 4 _ _ (by omega)]
    simp
  | succ g ih =>
    intro fuel shift value hf hs
    obtain ⟨f, rfl⟩ : ∃ f, fuel = f + 1 := ⟨fuel - 1, by omega⟩
    have hne : (shift == 60) = false := by simp; omega
    simp only [writeU64LongGo, List.cons_append, List.append_assoc, readU64Loop, rd_one_true, hne]
    rw [rd_toBits 8 _ _ (by omega)]
    simp only [Bool.false_eq_true, if_false]
    rw [ih f (shift + 8) _ (by omega) (by omega)]
    congr 2
    have e1 : v / 2 ^ (shift + 8) = v / 2 ^ shift / 2 ^ 8 := by
      rw [Nat.pow_add, Nat.div_div_eq_div_mul]
    have e2 := mod_pow_split (v / 2 ^ shift) 8 (8 * g + 4)
    have e3 : 2 ^ (shift + 8) = 2 ^ 8 * 2 ^ shift := by rw [Nat.pow_add, Nat.mul_comm]
    have e4 : 8 * (g + 1) + 4 = 8 + (8 * g + 4) := by omega
    rw [e1, e3, e4, ← e2]
    simp only [Nat.add_mul, Nat.mul_assoc, Nat.add_assoc]

theorem rd_two (k : Nat) (hk : k < 4) (rest : Bits) : rd 2 (toBits 2 k ++ rest) = .ok (k, rest) :=
  rd_toBits 2 k rest (by omega)

/-- `U64`: every form that can represent the value reads back (forms 0, 1, 2, selector 3 with
0..6 continuation groups, and the longest form with the 4-bit tail) -/
theorem readU64_writeU64With (form v : Nat) (rest : Bits) (h : u64CanWrite form v = true) :
    readU64 (writeU64With form v ++ rest) = .ok (v, rest) := by
  unfold u64CanWrite at h
  unfold writeU64With
  by_cases h0 : form = 0
  · simp [h0] at h ⊢
    subst h
    simp [readU64, rd_two 0 (by omega)]
  by_cases h1 : form = 1
  · simp [h1] at h ⊢
    rw [readU64, rd_two 1 (by omega)]
    simp only
    rw [rd_toBits 4 _ _ (by omega)]
    simp; omega
  by_cases h2 : form = 2
  · simp [h2] at h ⊢
    rw [readU64, rd_two 2 (by omega)]
    simp only
    rw [rd_toBits 8 _ _ (by omega)]
    simp; omega
  by_cases h10 : form = 10
  · simp [h10] at h ⊢
    rw [readU64, rd_two 3 (by omega)]
    simp only
    rw [rd_toBits 12 _ _ (Nat.mod_lt _ (by omega))]
    simp only [writeU64Long]
    rw [readU64Loop_long v rest 6 7 12 _ (by omega) (by omega)]
    congr 2
    have := mod_pow_split v 12 52
    have e : (2:Nat) ^ 12 = 4096 := by decide
    rw [e] at this
    rw [show 8 * 6 + 4 = 52 from rfl, this]
    exact Nat.mod_eq_of_lt h
  · simp [h0, h1, h2, h10] at h ⊢
    obtain ⟨⟨h3, h9⟩, hv⟩ := h
    rw [readU64, rd_two 3 (by omega)]
    simp only
    rw [rd_toBits 12 _ _ (Nat.mod_lt _ (by omega))]
    simp only
    rw [readU64Loop_groups v rest (form - 3) 7 12 _ (by omega) (by omega)]
    congr 2
    rw [mod_pow_split v 12 (8 * (form - 3))]
    exact Nat.mod_eq_of_lt hv

theorem pickU64_spec (c v f : Nat) (h : pickU64 c v = some f) : u64CanWrite f v = true := by
  unfold pickU64 at h
  exact List.find?_some (p := fun f => u64CanWrite f v) h

theorem readU64_writeU64 (c v : Nat) (bits rest : Bits) (h : writeU64 c v = some bits) :
    readU64 (bits ++ rest) = .ok (v, rest) := by
  unfold writeU64 at h
  cases hf : pickU64 c v with
  | none => simp [hf] at h
  | some f =>
    simp [hf] at h
    rw [← h]
    exact readU64_writeU64With f v rest (pickU64_spec c v f hf)

/-! ## UnpackSigned -/

theorem unpack_pack (i : Int) : unpackSigned (packSigned i) = i := by
  unfold unpackSigned packSigned
  simp only [Int.ofNat_eq_natCast, beq_iff_eq]
  split <;> split <;> omega

theorem pack_unpack (x : Nat) : packSigned (unpackSigned x) = x := by
  unfold unpackSigned packSigned
  simp only [Int.ofNat_eq_natCast, beq_iff_eq]
  split <;> split <;> omega

/-! ## repetition -/

theorem parseN_writeN (w : Nat → Val → Option Bits) (p : Nat → Bits → Except Err (Val × Bits))
    (c : Val → Bool)
    (h : ∀ pos v bits rest total, c v = true → w pos v = some bits →
      total = pos + bits.length + rest.length → p total (bits ++ rest) = .ok (v, rest)) :
    ∀ (vs : List Val) (pos : Nat) (bits rest : Bits) (total : Nat), allCanon c vs = true →
      writeN w pos vs = some bits → total = pos + bits.length + rest.length →
      parseN (p total) vs.length (bits ++ rest) = .ok (vs, rest) := by
  intro vs
  induction vs with
  | nil =>
    intro pos bits rest total _ hw _
    simp [writeN] at hw
    simp [parseN, ← hw]
  | cons v vs ih =>
    intro pos bits rest total hc hw ht
    simp only [allCanon, Bool.and_eq_true] at hc
    simp only [writeN] at hw
    cases hb : w pos v with
    | none => simp [hb] at hw
    | some b =>
      simp only [hb] at hw
      cases hbs : writeN w (pos + b.length) vs with
      | none => simp [hbs] at hw
      | some bs =>
        simp only [hbs, Option.some.injEq] at hw
        subst hw
        simp only [List.length_cons, parseN, List.append_assoc]
        rw [h pos v b (bs ++ rest) total hc.1 hb (by simp [List.length_append] at ht ⊢; omega)]
        simp only
        rw [ih (pos + b.length) bs rest total hc.2 hbs (by simp [List.length_append] at ht ⊢; omega)]

/-! ## helpers for the non-vacuity examples -/

/-- number of (top-level) fields whose condition is true for the value -/
def condCount (ctx : Env) : List Field → Env → Env → Nat
  | [], _, _ => 0
  | .mk name _ cond _ :: fs, acc, (_, v) :: vals =>
    (if evalBool (acc ++ ctx) cond = some true then 1 else 0) + condCount ctx fs (acc ++ [(name, v)]) vals
  | _, _, _ => 0

/-- the canonical completion of `raw` satisfies both hypotheses of the round-trip theorem
(`Canonical`, and the writer succeeds), and exactly `k` of its fields are present -/
def witness (b : Bundle) (ctx raw : Env) (k : Nat) : Bool :=
  match canon b ctx raw with
  | some e => decide (Canonical b ctx e) && (write b (fun p => p) ctx e).isSome && condCount ctx b [] e == k
  | Option.none => false

/-! ## the generic round trip -/

theorem canonicalTy_nat (sc : Env) : ∀ (t : FieldTy) (x : Nat), canonicalTy sc t (.nat x) = true
  | .const _, _ | .u _, _ | .cu _ _, _ | .u32 _ _ _ _, _ | .u64, _ | .f16, _ | .bool, _ => by
    simp [canonicalTy]
  | .enumOf t _, x => by simp [canonicalTy, canonicalTy_nat sc t x]
  | .signed t, x => by simp [canonicalTy, canonicalTy_nat sc t x]
  | .signed64 t, x => by simp [canonicalTy, canonicalTy_nat sc t x]
  | .bundle _ _, _ | .vec _ _, _ | .arr _ _, _ | .zeroPad, _ | .assert _ _, _ | .skip _, _
  | .ext _, _ => by simp [canonicalTy]

mutual
/-- one field type: what `writeTy` wrote is read back by `parseTy`, which stops exactly there -/
theorem parseTy_writeTy (ch : Nat → Nat) : ∀ (t : FieldTy) (sc : Env) (pos : Nat) (v : Val)
    (bits rest : Bits) (total : Nat), canonicalTy sc t v = true →
    writeTy ch sc t pos v = some bits → total = pos + bits.length + rest.length →
    parseTy total sc t (bits ++ rest) = .ok (v, rest)
  | .const c, sc, pos, v, bits, rest, total, _hc, hw, _ht => by
    cases v <;> simp [writeTy] at hw
    obtain ⟨h1, h2⟩ := hw
    subst h1 h2
    simp [parseTy]
  | .u n, sc, pos, v, bits, rest, total, _hc, hw, _ht => by
    cases v <;> simp [writeTy] at hw
    obtain ⟨h1, h2⟩ := hw
    subst h2
    simp [parseTy, rd_toBits _ _ _ h1]
  | .cu c n, sc, pos, v, bits, rest, total, _hc, hw, _ht => by
    cases v <;> simp [writeTy] at hw
    rename_i x
    obtain ⟨⟨⟨h1, h2⟩, h3⟩, h4⟩ := hw
    subst h4
    simp only [parseTy, rd_toBits _ _ _ h2]
    simp only [W32] at *
    rw [Nat.sub_add_cancel h1, Nat.mod_eq_of_lt h3]
  | .u32 d0 d1 d2 d3, sc, pos, v, bits, rest, total, _hc, hw, _ht => by
    cases v <;> simp [writeTy] at hw
    simp [parseTy, readU32_writeU32 _ _ _ _ _ _ bits rest hw]
  | .u64, sc, pos, v, bits, rest, total, _hc, hw, _ht => by
    cases v <;> simp [writeTy] at hw
    simp [parseTy, readU64_writeU64 _ _ bits rest hw]
  | .f16, sc, pos, v, bits, rest, total, _hc, hw, _ht => by
    cases v <;> simp [writeTy] at hw
    rename_i x
    obtain ⟨h1, h2⟩ := hw
    subst h2
    have hlt : x < 2 ^ 16 := by
      have := h1; simp [f16Valid] at this; exact this.1
    simp [parseTy, rd_toBits 16 _ _ hlt, h1]
  | .bool, sc, pos, v, bits, rest, total, _hc, hw, _ht => by
    cases v
    case bool b =>
      simp [writeTy] at hw
      subst hw
      cases b <;> simp [parseTy, rd, takeBits, ofBits]
    all_goals simp [writeTy] at hw
  | .enumOf t valid, sc, pos, v, bits, rest, total, hc, hw, ht => by
    cases v <;> simp [writeTy] at hw
    rename_i x
    obtain ⟨h1, h2⟩ := hw
    have ih := parseTy_writeTy ch t sc pos (.nat x) bits rest total (canonicalTy_nat sc t x) h2 ht
    simp [parseTy, ih, h1]
  | .signed t, sc, pos, v, bits, rest, total, hc, hw, ht => by
    cases v <;> simp [writeTy] at hw
    rename_i i
    have ih := parseTy_writeTy ch t sc pos (.nat (packSigned i)) bits rest total
      (canonicalTy_nat sc t _) hw.2 ht
    simp [parseTy, ih, unpack_pack]
  | .signed64 t, sc, pos, v, bits, rest, total, hc, hw, ht => by
    cases v <;> simp [writeTy] at hw
    rename_i i
    have ih := parseTy_writeTy ch t sc pos (.nat (packSigned i)) bits rest total
      (canonicalTy_nat sc t _) hw.2 ht
    simp [parseTy, ih, unpack_pack]
  | .bundle ctx fs, sc, pos, v, bits, rest, total, hc, hw, ht => by
    cases v <;> simp [writeTy] at hw
    rename_i e
    cases hctx : evalEnv sc ctx with
    | none => simp [hctx] at hw
    | some c =>
      simp only [hctx] at hw
      simp only [canonicalTy, hctx] at hc
      have ih := parseFields_writeFields ch fs c [] pos e bits rest total hc hw ht
      simp [parseTy, hctx, ih]
  | .vec t len, sc, pos, v, bits, rest, total, hc, hw, ht => by
    cases v <;> simp [writeTy] at hw
    rename_i vs
    cases hn : evalNat sc len with
    | none => simp [hn] at hw
    | some n =>
      simp only [hn] at hw
      obtain ⟨h1, h2⟩ : vs.length = n ∧ writeN (writeTy ch sc t) pos vs = some bits := by
        by_cases h : vs.length = n <;> simp [h] at hw ⊢; exact hw
      simp only [canonicalTy] at hc
      have := parseN_writeN (writeTy ch sc t) (fun total => parseTy total sc t) (canonicalTy sc t)
        (fun pos v bits rest total hc hw ht => parseTy_writeTy ch t sc pos v bits rest total hc hw ht)
        vs pos bits rest total hc h2 ht
      simp only [parseTy, hn, ← h1, this]
  | .arr t n, sc, pos, v, bits, rest, total, hc, hw, ht => by
    cases v <;> simp [writeTy] at hw
    rename_i vs
    obtain ⟨h1, h2⟩ := hw
    simp only [canonicalTy] at hc
    have := parseN_writeN (writeTy ch sc t) (fun total => parseTy total sc t) (canonicalTy sc t)
      (fun pos v bits rest total hc hw ht => parseTy_writeTy ch t sc pos v bits rest total hc hw ht)
      vs pos bits rest total hc h2 ht
    simp only [parseTy, ← h1, this]
  | .zeroPad, sc, pos, v, bits, rest, total, _hc, hw, ht => by
    cases v <;> simp [writeTy] at hw
    subst hw
    have : total - (padLen pos + rest.length) = pos := by
      simp at ht; omega
    simp only [parseTy, List.length_append, List.length_replicate, this, rd_zeros]
    simp
  | .assert e kind, sc, pos, v, bits, rest, total, _hc, hw, _ht => by
    cases v <;> simp [writeTy] at hw
    cases he : evalBool sc e with
    | none => simp [he] at hw
    | some b =>
      cases b <;> simp [he] at hw
      subst hw
      simp [parseTy, he]
  | .skip n, sc, pos, v, bits, rest, total, _hc, hw, _ht => by
    cases v <;> simp [writeTy] at hw
    cases hn : evalNat sc n with
    | none => simp [hn] at hw
    | some k =>
      simp [hn] at hw
      subst hw
      simp [parseTy, hn]
  | .ext name, sc, pos, v, bits, rest, total, _hc, hw, _ht => by
    cases v <;> simp [writeTy] at hw
/-- a field list: the fields whose condition holds are written and read back in order, the
others take their default on both sides -/
theorem parseFields_writeFields (ch : Nat → Nat) : ∀ (fs : List Field) (ctx acc : Env) (pos : Nat)
    (vals : Env) (bits rest : Bits) (total : Nat), canonicalFields ctx fs acc vals = true →
    writeFields ch ctx fs acc pos vals = some bits → total = pos + bits.length + rest.length →
    parseFields total ctx fs acc (bits ++ rest) = .ok (acc ++ vals, rest)
  | [], ctx, acc, pos, vals, bits, rest, total, _hc, hw, _ht => by
    cases vals <;> simp [writeFields] at hw
    subst hw
    simp [parseFields]
  | .mk name ty cond dflt :: fs, ctx, acc, pos, vals, bits, rest, total, hc, hw, ht => by
    cases vals with
    | nil => simp [writeFields] at hw
    | cons nv vals =>
      obtain ⟨n, v⟩ := nv
      simp only [writeFields] at hw
      by_cases hn : n = name
      · subst hn
        simp only [if_true] at hw
        simp only [canonicalFields, Bool.and_eq_true] at hc
        obtain ⟨⟨_, hc1⟩, hc2⟩ := hc
        cases hcond : evalBool (acc ++ ctx) cond with
        | none => simp [hcond] at hw
        | some b =>
          cases b with
          | true =>
            simp only [hcond] at hw hc1
            cases hb : writeTy ch (acc ++ ctx) ty pos v with
            | none => simp [hb] at hw
            | some b =>
              simp only [hb] at hw
              cases hbs : writeFields ch ctx fs (acc ++ [(n, v)]) (pos + b.length) vals with
              | none => simp [hbs] at hw
              | some bs =>
                simp only [hbs, Option.some.injEq] at hw
                subst hw
                have i1 := parseTy_writeTy ch ty (acc ++ ctx) pos v b (bs ++ rest) total hc1 hb
                  (by simp [List.length_append] at ht ⊢; omega)
                have i2 := parseFields_writeFields ch fs ctx (acc ++ [(n, v)]) (pos + b.length) vals bs rest
                  total hc2 hbs (by simp [List.length_append] at ht ⊢; omega)
                simp only [parseFields, hcond, List.append_assoc, i1, i2]
                simp
          | false =>
            simp only [hcond] at hw hc1
            have hd : defaultOf (acc ++ ctx) ty dflt = some v := by simpa using hc1
            have i2 := parseFields_writeFields ch fs ctx (acc ++ [(n, v)]) pos vals bits rest total hc2 hw ht
            simp only [parseFields, hcond, hd, i2]
            simp
      · simp [hn] at hw
end

end Jxl.Bundle
