import JxlModel.Model.Blend
import Mathlib.Tactic.Ring
import Mathlib.Tactic.Linarith
import Mathlib.Tactic.FieldSimp
import Mathlib.Algebra.Order.Field.Basic
/-!
# Proofs for C05: kernel laws over a linearly ordered field, reference bookkeeping, the lazy
renderer against the sequential compositor
-/
namespace Jxl.Blend

/-! ## 1. Kernels in exact arithmetic -/
section Field
set_option linter.unusedSectionVars false
variable {K : Type} [Field K] [LinearOrder K] [IsStrictOrderedRing K]

/-- The `Scalar` operations of a linearly ordered field: exact arithmetic. -/
@[reducible] def fieldScalar : Scalar K where
  zero := 0
  one := 1
  add a b := a + b
  sub a b := a - b
  mul a b := a * b
  recip x := x⁻¹
  isPos x := decide (0 < x)
  clamp01 x := if x < 0 then 0 else if 1 < x then 1 else x
  ofSample bits v := (v : K) / ((2 : K) ^ bits - 1)

attribute [local instance] fieldScalar

/-- `clamp(0, 1)` written with `max`/`min` -/
theorem clamp01_eq (x : K) : (Scalar.clamp01 x : K) = max 0 (min x 1) := by
  show (if x < 0 then 0 else if 1 < x then 1 else x) = _
  split
  · rename_i h
    rw [max_eq_left]
    exact le_trans (min_le_left _ _) (le_of_lt h)
  · rename_i h
    split
    · rename_i h1
      rw [min_eq_right (le_of_lt h1), max_eq_right zero_le_one]
    · rename_i h1
      rw [min_eq_left (not_lt.mp h1), max_eq_right (not_lt.mp h)]

theorem clamp01_range (x : K) : 0 ≤ (Scalar.clamp01 x : K) ∧ (Scalar.clamp01 x : K) ≤ 1 := by
  rw [clamp01_eq]
  exact ⟨le_max_left _ _, max_le zero_le_one (min_le_right _ _)⟩

theorem clamp01_id (x : K) (h0 : 0 ≤ x) (h1 : x ≤ 1) : (Scalar.clamp01 x : K) = x := by
  rw [clamp01_eq, min_eq_left h1, max_eq_right h0]

/-- the alpha actually used: clamped to `[0,1]` iff `clamp` -/
def usedAlpha (c : Bool) (a : K) : K := if c then max 0 (min a 1) else a

theorem clampIf_eq (c : Bool) (a : K) : (Scalar.clampIf c a : K) = usedAlpha c a := by
  unfold Scalar.clampIf usedAlpha
  split
  · exact clamp01_eq a
  · rfl

theorem recipOrZero_eq (x : K) : (Scalar.recipOrZero x : K) = if 0 < x then x⁻¹ else 0 := by
  unfold Scalar.recipOrZero
  show (if decide (0 < x) = true then x⁻¹ else 0) = _
  simp

theorem apply_replace (b n ba na : K) : Kernel.replace.apply b n ba na = n := rfl

theorem apply_add (b n ba na : K) : Kernel.add.apply b n ba na = b + n := rfl

theorem apply_mul (c : Bool) (b n ba na : K) :
    (Kernel.mul c).apply b n ba na = b * usedAlpha c n := by
  show b * Scalar.clampIf c n = _
  rw [clampIf_eq]

theorem apply_blend_premul (c : Bool) (b n ba na : K) :
    (Kernel.blend c false true).apply b n ba na = n + b * (1 - usedAlpha c na) := by
  show n + b * (1 - Scalar.clampIf c na) = _
  rw [clampIf_eq]

theorem apply_blend_straight (c : Bool) (b n ba na : K) :
    (Kernel.blend c false false).apply b n ba na =
      (let a := usedAlpha c na
       let mixed := 1 - (1 - a) * (1 - ba)
       if 0 < mixed then (a * n + ba * b * (1 - a)) / mixed else 0) := by
  show (Scalar.clampIf c na * n + ba * b * (1 - Scalar.clampIf c na)) *
      Scalar.recipOrZero (1 - (1 - Scalar.clampIf c na) * (1 - ba)) = _
  rw [clampIf_eq, recipOrZero_eq]
  simp only
  split
  · rw [div_eq_mul_inv]
  · rw [mul_zero]

theorem apply_mulAdd (c : Bool) (b n ba na : K) :
    (Kernel.mulAdd c false).apply b n ba na = b + usedAlpha c na * n := by
  show b + Scalar.clampIf c na * n = _
  rw [clampIf_eq]

theorem apply_mixAlpha (c : Bool) (b n ba na : K) :
    (Kernel.mixAlpha c false).apply b n ba na = 1 - (1 - usedAlpha c n) * (1 - b) := by
  show b + Scalar.clampIf c n * (1 - b) = _
  rw [clampIf_eq]
  ring

theorem apply_skip (b n ba na : K) : Kernel.skip.apply b n ba na = b := rfl

end Field

/-! ## 2. Reference bookkeeping: `preserve_current_frame` against the Spec slots -/
section Book
variable {V : Type}
open Spec Impl

theorem hdr_of_getElem? (C : Cfg V) (n : Nat) (f : FrameHdr) (h : C.hdrs[n]? = some f) : C.hdr n = f := by
  unfold Cfg.hdr
  simp [List.getD, h]

theorem stateAfter_zero (C : Cfg V) : stateAfter C 0 = {} := by
  simp [stateAfter, run]

theorem ctxAfter_zero (C : Cfg V) : ctxAfter C 0 = {} := by
  simp [ctxAfter, ctxOf]

theorem stateAfter_succ (C : Cfg V) (n : Nat) (f : FrameHdr) (h : C.hdrs[n]? = some f) :
    stateAfter C (n + 1) = step C (stateAfter C n) f := by
  unfold stateAfter run
  rw [List.take_add_one, h]
  simp [List.foldl_append]

theorem ctxAfter_succ (C : Cfg V) (n : Nat) (f : FrameHdr) (h : C.hdrs[n]? = some f) :
    ctxAfter C (n + 1) = preserve (ctxAfter C n) f := by
  unfold ctxAfter ctxOf
  rw [List.take_add_one, h]
  simp [List.foldl_append]

theorem stateAfter_of_ge (C : Cfg V) (n : Nat) (h : C.hdrs.length ≤ n) :
    stateAfter C n = stateAfter C C.hdrs.length := by
  unfold stateAfter
  rw [List.take_of_length_le h, List.take_of_length_le (Nat.le_refl _)]

theorem ctxAfter_of_ge (C : Cfg V) (n : Nat) (h : C.hdrs.length ≤ n) :
    ctxAfter C n = ctxAfter C C.hdrs.length := by
  unfold ctxAfter
  rw [List.take_of_length_le h, List.take_of_length_le (Nat.le_refl _)]

theorem ctxAfter_length (C : Cfg V) : ctxAfter C C.hdrs.length = ctxOf C.hdrs := by
  unfold ctxAfter
  rw [List.take_of_length_le (Nat.le_refl _)]

theorem stateAfter_length (C : Cfg V) : stateAfter C C.hdrs.length = run C C.hdrs := by
  unfold stateAfter
  rw [List.take_of_length_le (Nat.le_refl _)]

/-- what ties the index bookkeeping of the renderer to the value-carrying state of the Spec -/
structure Rel (C : Cfg V) (c : Ctx) (s : State V) : Prop where
  count : s.count = c.nframes
  slots : ∀ sl, s.slots sl = (c.reference sl).map (valOf C)
  keys : s.keys = c.keyframes.map (valOf C)
  refLt : ∀ sl j, c.reference sl = some j → j < c.nframes

theorem rel_after (C : Cfg V) : ∀ n, n ≤ C.hdrs.length →
    Rel C (ctxAfter C n) (stateAfter C n) ∧ (ctxAfter C n).nframes = n := by
  intro n
  induction n with
  | zero =>
    intro _
    rw [stateAfter_zero, ctxAfter_zero]
    exact ⟨⟨rfl, fun _ => rfl, rfl, fun _ _ h => by cases h⟩, rfl⟩
  | succ n ih =>
    intro hn
    have hlt : n < C.hdrs.length := hn
    obtain ⟨R, hnf⟩ := ih (Nat.le_of_lt hlt)
    have hget : C.hdrs[n]? = some C.hdrs[n] := List.getElem?_eq_getElem hlt
    generalize C.hdrs[n] = f at hget
    rw [stateAfter_succ C n f hget, ctxAfter_succ C n f hget]
    have hv : C.compose (stateAfter C n).count ((f.chanSources C.img).map (stateAfter C n).slots) = valOf C n := by
      rw [R.count, hnf]
      unfold valOf Cfg.sources
      rw [hdr_of_getElem? C n f hget]
    refine ⟨⟨?_, ?_, ?_, ?_⟩, ?_⟩
    · show (stateAfter C n).count + 1 = (ctxAfter C n).nframes + 1
      rw [R.count]
    · intro sl
      show (if f.canReference then upd (stateAfter C n).slots (f.saveAsRef % 4) (some _) else (stateAfter C n).slots) sl
        = ((if f.canReference then upd (ctxAfter C n).reference (f.saveAsRef % 4) (some (ctxAfter C n).nframes)
            else (ctxAfter C n).reference) sl).map (valOf C)
      rw [hv, hnf]
      split
      · unfold upd
        split
        · rfl
        · exact R.slots sl
      · exact R.slots sl
    · show (if f.isKeyframe then (stateAfter C n).keys ++ [_] else (stateAfter C n).keys)
        = (if f.isKeyframe then (ctxAfter C n).keyframes ++ [(ctxAfter C n).nframes] else (ctxAfter C n).keyframes).map (valOf C)
      rw [hv, hnf]
      split
      · rw [List.map_append, R.keys]; rfl
      · exact R.keys
    · intro sl j
      show (if f.canReference then upd (ctxAfter C n).reference (f.saveAsRef % 4) (some (ctxAfter C n).nframes)
            else (ctxAfter C n).reference) sl = some j → j < (ctxAfter C n).nframes + 1
      rw [hnf]
      split
      · unfold upd
        split
        · intro h; cases h; exact Nat.lt_succ_self n
        · intro h; have := R.refLt sl j h; rw [hnf] at this; exact Nat.lt_succ_of_lt this
      · intro h; have := R.refLt sl j h; rw [hnf] at this; exact Nat.lt_succ_of_lt this
    · show (ctxAfter C n).nframes + 1 = n + 1
      rw [hnf]

/-- the general form, for every prefix length (also past the end) -/
theorem rel_after' (C : Cfg V) (n : Nat) : Rel C (ctxAfter C n) (stateAfter C n) := by
  by_cases h : n ≤ C.hdrs.length
  · exact (rel_after C n h).1
  · have h' : C.hdrs.length ≤ n := Nat.le_of_lt (Nat.lt_of_not_le h)
    rw [stateAfter_of_ge C n h', ctxAfter_of_ge C n h']
    exact (rel_after C _ (Nat.le_refl _)).1

theorem nframes_le (C : Cfg V) (n : Nat) : (ctxAfter C n).nframes ≤ n := by
  by_cases h : n ≤ C.hdrs.length
  · rw [(rel_after C n h).2]
  · have h' : C.hdrs.length ≤ n := Nat.le_of_lt (Nat.lt_of_not_le h)
    rw [ctxAfter_of_ge C n h', (rel_after C _ (Nat.le_refl _)).2]
    exact h'

/-- a captured reference has a smaller index than the frame that captured it -/
theorem refOf_lt (C : Cfg V) (i s j : Nat) (h : refOf C i s = some j) : j < i :=
  Nat.lt_of_lt_of_le ((rel_after' C i).refLt s j h) (nframes_le C i)

/-- the Spec slot a frame reads = the value of the frame its handle captured -/
theorem slots_eq_refOf (C : Cfg V) (i s : Nat) :
    (stateAfter C i).slots s = (refOf C i s).map (valOf C) := (rel_after' C i).slots s

theorem keys_eq (C : Cfg V) : (run C C.hdrs).keys = (ctxOf C.hdrs).keyframes.map (valOf C) := by
  rw [← stateAfter_length, ← ctxAfter_length]
  exact (rel_after' C _).keys

/-- the keyframes are the normal frames with `is_last` or a non-zero duration, in bitstream order -/
theorem keyframes_after (C : Cfg V) : ∀ n, n ≤ C.hdrs.length →
    (ctxAfter C n).keyframes = (List.range n).filter (fun i => (C.hdr i).isKeyframe) := by
  intro n
  induction n with
  | zero => intro _; rw [ctxAfter_zero]; rfl
  | succ n ih =>
    intro hn
    have hlt : n < C.hdrs.length := hn
    have hnf := (rel_after C n (Nat.le_of_lt hlt)).2
    have hget : C.hdrs[n]? = some C.hdrs[n] := List.getElem?_eq_getElem hlt
    generalize C.hdrs[n] = f at hget
    rw [ctxAfter_succ C n f hget, List.range_succ, List.filter_append, ← ih (Nat.le_of_lt hlt)]
    show (if f.isKeyframe then (ctxAfter C n).keyframes ++ [(ctxAfter C n).nframes] else (ctxAfter C n).keyframes) = _
    rw [hnf, List.filter_cons, hdr_of_getElem? C n f hget]
    split
    · rfl
    · simp

/-- slot `s` holds the most recent frame saved into it -/
theorem reference_eq_slotFrame (C : Cfg V) (s : Nat) : ∀ n, n ≤ C.hdrs.length →
    (ctxAfter C n).reference s = slotFrame C n s := by
  intro n
  induction n with
  | zero => intro _; rw [ctxAfter_zero]; rfl
  | succ n ih =>
    intro hn
    have hlt : n < C.hdrs.length := hn
    have hnf := (rel_after C n (Nat.le_of_lt hlt)).2
    have hget : C.hdrs[n]? = some C.hdrs[n] := List.getElem?_eq_getElem hlt
    generalize C.hdrs[n] = f at hget
    rw [ctxAfter_succ C n f hget]
    unfold slotFrame
    rw [hdr_of_getElem? C n f hget, ← ih (Nat.le_of_lt hlt)]
    show (if f.canReference then upd (ctxAfter C n).reference (f.saveAsRef % 4) (some (ctxAfter C n).nframes)
          else (ctxAfter C n).reference) s = _
    rw [hnf]
    unfold upd
    by_cases h1 : f.canReference = true
    · by_cases h2 : s = f.saveAsRef % 4
      · simp [h1, h2]
      · have h2' : ¬ (f.saveAsRef % 4 = s) := fun h => h2 h.symm
        simp [h1, h2, h2']
    · simp [h1]

end Book

/-! ## 3. The lazy renderer computes the sequential composition -/
section Lazy
variable {V : Type}
open Spec Impl

/-- every cached composition is the Spec value of its frame -/
def Inv (C : Cfg V) (st : St V) : Prop := ∀ j v, st.get j = .blended v → v = valOf C j

theorem inv_init (C : Cfg V) : Inv C St.init := by
  intro j v h
  cases h

theorem inv_upd_none (C : Cfg V) (st : St V) (i : Nat) (h : Inv C st) : Inv C (st.set i .none) := by
  intro j v hj
  unfold St.set at hj
  simp only at hj
  split at hj
  · cases hj
  · exact h j v hj

theorem inv_upd_done (C : Cfg V) (st : St V) (i : Nat) (h : Inv C st) : Inv C (st.set i .done) := by
  intro j v hj
  unfold St.set at hj
  simp only at hj
  split at hj
  · cases hj
  · exact h j v hj

theorem inv_upd_blended (C : Cfg V) (st : St V) (i : Nat) (v : V) (hv : v = valOf C i) (h : Inv C st) :
    Inv C (st.set i (.blended v)) := by
  intro j w hj
  unfold St.set at hj
  simp only at hj
  split at hj
  · rename_i hji
    cases hj
    rw [hji]; exact hv
  · exact h j w hj

/-- dropping any set of caches (what stealing and `reset()` do) keeps the invariant -/
theorem inv_drop (C : Cfg V) (st : St V) (drop : Nat → Bool) (h : Inv C st) :
    Inv C ⟨fun j => if drop j then .none else st.get j⟩ := by
  intro j v hj
  simp only at hj
  split at hj
  · cases hj
  · exact h j v hj

theorem foldl_inv {β : Type} (P : St V → Prop) (f : St V → β → St V) (l : List β)
    (hf : ∀ st b, b ∈ l → P st → P (f st b)) : ∀ st, P st → P (l.foldl f st) := by
  induction l with
  | nil => intro st h; exact h
  | cons b l ih =>
    intro st h
    rw [List.foldl_cons]
    apply ih
    · intro st' b' hb' hst'
      exact hf st' b' (List.mem_cons_of_mem _ hb') hst'
    · exact hf st b (List.mem_cons_self) h

theorem runF_inv (C : Cfg V) : ∀ n i st, Inv C st → Inv C (runF C n i st) := by
  intro n
  induction n with
  | zero =>
    intro i st h
    unfold runF
    exact h
  | succ n ih =>
    intro i st h
    unfold runF
    split
    · apply inv_upd_done
      apply foldl_inv (Inv C) _ _ _ _ h
      intro st' s _ hst'
      split
      · exact ih _ _ hst'
      · exact hst'
    · exact h

theorem chanLoop_spec (C : Cfg V) (steal : Nat → Nat → Bool) (rec : Nat → St V → V × St V) (i n : Nat)
    (hrec : ∀ j st, j < n → Inv C st → (rec j st).1 = valOf C j ∧ Inv C (rec j st).2) (hi : i ≤ n) :
    ∀ (srcs : List Nat) (c : Nat) (st : St V), Inv C st →
      (chanLoop C steal rec i c srcs st).1 = srcs.map (fun s => (refOf C i s).map (valOf C)) ∧
      Inv C (chanLoop C steal rec i c srcs st).2 := by
  intro srcs
  induction srcs with
  | nil =>
    intro c st h
    unfold chanLoop
    exact ⟨rfl, h⟩
  | cons s rest ih =>
    intro c st h
    unfold chanLoop
    split
    · rename_i hnone
      obtain ⟨h1, h2⟩ := ih (c + 1) st h
      refine ⟨?_, h2⟩
      simp only [List.map_cons, hnone, Option.map_none, h1]
    · rename_i j hsome
      have hj : j < n := Nat.lt_of_lt_of_le (refOf_lt C i s j hsome) hi
      obtain ⟨r1, r2⟩ := hrec j st hj h
      have hst2 : Inv C (if canOverwrite C i c s j && steal i c then (rec j st).2.set j .none else (rec j st).2) := by
        split
        · exact inv_upd_none C _ j r2
        · exact r2
      obtain ⟨h1, h2⟩ := ih (c + 1) _ hst2
      refine ⟨?_, h2⟩
      simp only [List.map_cons, hsome, Option.map_some, h1, r1]

theorem blendBody_spec (C : Cfg V) (steal : Nat → Nat → Bool) (rec : Nat → St V → V × St V) (i n : Nat)
    (hrec : ∀ j st, j < n → Inv C st → (rec j st).1 = valOf C j ∧ Inv C (rec j st).2) (hi : i ≤ n)
    (st : St V) (h : Inv C st) :
    (blendBody C steal rec i st).1 = valOf C i ∧ Inv C (blendBody C steal rec i st).2 := by
  unfold blendBody
  simp only
  split
  · rename_i hskip
    have hsrc : C.sources i = [] := by
      unfold Cfg.sources FrameHdr.chanSources
      rw [if_pos hskip]
    have hv : C.compose i [] = valOf C i := by
      unfold valOf
      rw [hsrc]; rfl
    exact ⟨hv, inv_upd_blended C st i _ hv h⟩
  · have h2 : Inv C ((usedRefs C i).foldl (fun st j => (rec j st).2) st) := by
      apply foldl_inv (Inv C) _ _ _ _ h
      intro st' j hj hst'
      have hji : j < i := by
        unfold usedRefs at hj
        exact List.mem_range.mp (List.mem_filter.mp hj).1
      exact (hrec j st' (Nat.lt_of_lt_of_le hji hi) hst').2
    obtain ⟨c1, c2⟩ := chanLoop_spec C steal rec i n hrec hi (C.sources i) 0 _ h2
    have hv : C.compose i (chanLoop C steal rec i 0 (C.sources i)
        ((usedRefs C i).foldl (fun st j => (rec j st).2) st)).1 = valOf C i := by
      rw [c1]
      have : (stateAfter C i).slots = fun s => (refOf C i s).map (valOf C) := funext (slots_eq_refOf C i)
      show _ = C.compose i ((C.sources i).map (stateAfter C i).slots)
      rw [this]
    refine ⟨hv, ?_⟩
    apply inv_upd_blended C _ i _ hv
    split
    · split
      · split
        · exact inv_upd_none C _ _ c2
        · exact c2
      · exact c2
    · exact c2

theorem blendF_spec (C : Cfg V) (steal : Nat → Nat → Bool) : ∀ n i st, i < n → Inv C st →
    (blendF C steal n i st).1 = valOf C i ∧ Inv C (blendF C steal n i st).2 := by
  intro n
  induction n with
  | zero => intro i st hi; exact absurd hi (Nat.not_lt_zero i)
  | succ n ih =>
    intro i st hi h
    unfold blendF
    split
    · rename_i v hb
      exact ⟨h i v hb, h⟩
    · exact blendBody_spec C steal _ i n (fun j st hj hst => ih j st hj hst) (Nat.le_of_lt_succ hi) _
        (runF_inv C (n + 1) i st h)

theorem renderKeyframe_spec (C : Cfg V) (steal : Nat → Nat → Bool) (k : Nat) (st : St V) (h : Inv C st) :
    (renderKeyframe C steal k st).1 = canvasAt C k ∧ Inv C (renderKeyframe C steal k st).2 := by
  unfold renderKeyframe canvasAt
  rw [keys_eq, List.getElem?_map]
  split
  · rename_i hk
    rw [hk]
    exact ⟨rfl, h⟩
  · rename_i idx hk
    rw [hk]
    obtain ⟨h1, h2⟩ := blendF_spec C steal (idx + 1) idx st (Nat.lt_succ_self idx) h
    exact ⟨by simp only [Option.map_some, h1], h2⟩

theorem renderMany_spec (C : Cfg V) (steal : Nat → Nat → Bool) : ∀ (ks : List Nat) (st : St V), Inv C st →
    (renderMany C steal ks st).1 = ks.map (canvasAt C) ∧ Inv C (renderMany C steal ks st).2 := by
  intro ks
  induction ks with
  | nil => intro st h; unfold renderMany; exact ⟨rfl, h⟩
  | cons k ks ih =>
    intro st h
    unfold renderMany
    obtain ⟨h1, h2⟩ := renderKeyframe_spec C steal k st h
    obtain ⟨h3, h4⟩ := ih _ h2
    exact ⟨by simp only [List.map_cons, h1, h3], h4⟩

end Lazy
end Jxl.Blend

/-! ## 4. Pixel canvases: what a sample of the composed canvas is -/
namespace Jxl.Blend.Px
open Jxl.Blend
variable {α : Type} [Scalar α]

theorem Plane.get_ofFn (w h : Nat) (f : Nat → Nat → α) (x y : Nat) (hx : x < w) (hy : y < h) :
    (Plane.ofFn w h f).get x y = f x y := by
  have hidx : y * w + x < w * h := by
    calc y * w + x < y * w + w := Nat.add_lt_add_left hx _
      _ = (y + 1) * w := by rw [Nat.succ_mul]
      _ ≤ h * w := Nat.mul_le_mul_right w hy
      _ = w * h := Nat.mul_comm h w
  unfold Plane.get Plane.ofFn
  simp only [hx, hy, and_self, if_true]
  rw [Array.getD_eq_getD_getElem?, Array.getElem?_ofFn]
  simp only [hidx, dite_true, Option.getD_some]
  have hw : 0 < w := Nat.lt_of_le_of_lt (Nat.zero_le x) hx
  have h1 : (y * w + x) % w = x := by
    rw [Nat.add_comm, Nat.add_mul_mod_self_right, Nat.mod_eq_of_lt hx]
  have h2 : (y * w + x) / w = y := by
    rw [Nat.add_comm, Nat.add_mul_div_right _ _ hw, Nat.div_eq_of_lt hx, Nat.zero_add]
  rw [h1, h2]

end Jxl.Blend.Px

namespace Jxl.Blend.Px
open Jxl.Blend
variable {α : Type} [Scalar α]

theorem getD_map_range {β : Type} (n c : Nat) (g : Nat → β) (d : β) (hc : c < n) :
    ((List.range n).map g).getD c d = g c := by
  simp [List.getD, hc]

theorem blendFrame_sample (img : ImgInfo) (ct : List (Plane α) → List (Plane α)) (f : Frame α)
    (bases : List (Option (Canvas α))) (c x y : Nat)
    (hc : c < img.colorChannels + img.ecAlphaAssoc.length) (hx : x < img.w) (hy : y < img.h)
    (hns : f.hdr.skipBlending img = false) :
    ((blendFrame img ct f bases).getD c {}).get x y =
      (let hdr := f.hdr
       let cc := img.colorChannels
       let info := hdr.infoFor cc c
       let k := kernelFor (img.ecAlphaAssoc.length != 0) info c cc (img.ecAlphaAssoc.getD info.alpha none)
       let base := bases.getD c none
       let chans := inputChans img ct f
       let fx := (x : Int) - hdr.x0
       let fy := (y : Int) - hdr.y0
       if 0 ≤ fx ∧ fx < hdr.w ∧ 0 ≤ fy ∧ fy < hdr.h then
         k.apply (chanOf base c x y) ((chans.getD c {}).getI fx fy)
           (chanOf base (cc + info.alpha) x y) ((chans.getD (cc + info.alpha) {}).getI fx fy)
       else chanOf base c x y) := by
  unfold blendFrame
  simp only
  rw [getD_map_range _ _ _ _ hc]
  simp only [hns, Bool.false_eq_true, if_false]
  rw [Plane.get_ofFn _ _ _ _ _ hx hy]

theorem blendFrame_skip_sample (img : ImgInfo) (ct : List (Plane α) → List (Plane α)) (f : Frame α)
    (bases : List (Option (Canvas α))) (c x y : Nat)
    (hc : c < img.colorChannels + img.ecAlphaAssoc.length) (hx : x < img.w) (hy : y < img.h)
    (hs : f.hdr.skipBlending img = true) :
    ((blendFrame img ct f bases).getD c {}).get x y =
      ((inputChans img ct f).getD c {}).getI ((x : Int) - f.hdr.x0) ((y : Int) - f.hdr.y0) := by
  unfold blendFrame
  simp only
  rw [getD_map_range _ _ _ _ hc]
  simp only [hs, if_true]
  rw [Plane.get_ofFn _ _ _ _ _ hx hy]

end Jxl.Blend.Px
