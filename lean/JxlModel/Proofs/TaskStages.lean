import JxlModel.Model.TaskStages
import JxlModel.Proofs.Tasks
import JxlModel.Proofs.Subgrid
/-!
# Job lists built from sub-grid partitions: helper lemmas
-/
namespace Jxl.Tasks
open Jxl.Subgrid

section
variable {V : Type}

/-- jobs whose writes stay inside their own region and whose reads stay inside their own region
or a read-only area, for pairwise disjoint regions that avoid the read-only area, are
independent -/
theorem indep_of_regions {ι : Type} (region : ι → List Cell) (ro : List Cell) (mk : ι → Task V)
    (l : List ι)
    (hdis : l.Pairwise fun i j => ∀ c, c ∈ region i → c ∈ region j → False)
    (hro : ∀ i ∈ l, ∀ c ∈ region i, c ∉ ro)
    (hw : ∀ i ∈ l, ∀ c ∈ (mk i).writes, c ∈ region i)
    (hr : ∀ i ∈ l, ∀ c ∈ (mk i).reads, c ∈ region i ∨ c ∈ ro) :
    (l.map mk).Pairwise Task.Indep := by
  rw [List.pairwise_map]
  refine List.Pairwise.imp_of_mem ?_ hdis
  intro i j hi hj hij
  refine ⟨fun c hc => ⟨fun hrd => ?_, fun hwr => ?_⟩, fun c hc => ⟨fun hrd => ?_, fun hwr => ?_⟩⟩
  · rcases hr j hj c hrd with h | h
    · exact hij c (hw i hi c hc) h
    · exact hro i hi c (hw i hi c hc) h
  · exact hij c (hw i hi c hc) (hw j hj c hwr)
  · rcases hr i hi c hrd with h | h
    · exact hij c h (hw j hj c hc)
    · exact hro j hj c (hw j hj c hc) h
  · exact hij c (hw i hi c hwr) (hw j hj c hc)

theorem inPlaceRowTask_footprint (rowf : Store V → Cell → V) (g : SubGrid) (c : Cell) :
    (c ∈ (inPlaceRowTask rowf g).reads → c ∈ cells g) ∧
    (c ∈ (inPlaceRowTask rowf g).writes → c ∈ cells g) := by
  constructor <;>
  · intro h
    simp only [inPlaceRowTask, Task.reads, Task.writes, List.flatMap_map, List.mem_flatMap,
      List.mem_range, List.mem_map] at h
    obtain ⟨y, hy, x, hx, rfl⟩ := h
    exact mem_cells.2 ⟨y, hy, x, hx, rfl⟩

end

theorem ceilDiv_self {w : Nat} (h : w ≠ 0) : ceilDiv w w = 1 := by
  have h1 : w / w = 1 := Nat.div_self (by omega)
  have h2 : w % w = 0 := Nat.mod_self w
  simp [ceilDiv, h1, h2]

/-- full-width groups are row bands: one group per row of groups -/
theorem groupsList_fullWidth (g : SubGrid) (gh nr : Nat) :
    groupsList .checked g g.w gh 1 nr =
      (List.range nr).map fun k =>
        (⟨g.off + (min (k * gh) g.h) * g.stride, g.w, min (g.h - min (k * gh) g.h) gh, g.stride,
          some (splitBase g)⟩ : SubGrid) := by
  simp only [groupsList, List.range_one, List.map_cons, List.map_nil, axisCut, mulW]
  induction (List.range nr) with
  | nil => rfl
  | cons k l ih =>
    simp only [List.flatMap_cons, List.map_cons, ih, List.singleton_append, List.cons.injEq, and_true]
    simp [groupOf]

theorem rctBands_ok {p : Pool} {g : SubGrid} {gs : List SubGrid} (h : rctBands p g = .ok gs)
    (hw : g.w ≠ 0) (hh : g.h ≠ 0) :
    gs = ((List.range (ceilDiv g.h 16)).map (band16 g g.off)).reverse := by
  unfold rctBands at h
  have hne : ¬ (g.w = 0 ∨ g.h = 0) := by omega
  simp only [hne, if_false, borrowMut, new] at h
  by_cases hs : g.w = 0 ∨ g.w ≤ g.stride
  · simp only [hs, if_true] at h
    cases hgs : intoGroups .checked ⟨g.off, g.w, g.h, g.stride, none⟩ g.w 16 with
    | panic s => rw [hgs] at h; cases h
    | ok gs' =>
      rw [hgs] at h
      injection h with h
      subst h
      obtain ⟨_, _, hgl⟩ := intoGroups_ok hgs
      rw [hgl]
      simp only [ceilDiv_self hw]
      rw [groupsList_fullWidth]
      simp [band16, splitBase]
  · simp only [hs, if_false] at h
    cases h

end Jxl.Tasks
