import Mathlib.Analysis.SpecialFunctions.Trigonometric.Basic
import JxlModel.Model.Dct
/-!
# The recursive DCT of `generic/dct.rs` over exact reals

`Scalar ℝ` instantiates the polymorphic model of `Model/Dct.lean` with exact real arithmetic:
`sqrt2 = √2`, `cosPi a b = cos(aπ/b)`, hence `secHalf n i = 1/(2cos((2i+1)π/(2n)))` exactly.
-/
open Finset Real

namespace Jxl.Dct

noncomputable instance instScalarReal : Scalar ℝ where
  zero := 0
  one := 1
  add := (· + ·)
  sub := (· - ·)
  mul := (· * ·)
  div := (· / ·)
  half := 1 / 2
  sqrt2 := √2
  cosPi a b := Real.cos (a * π / b)

@[simp] theorem s_zero : (Scalar.zero : ℝ) = 0 := rfl
@[simp] theorem s_one : (Scalar.one : ℝ) = 1 := rfl
@[simp] theorem s_add (x y : ℝ) : Scalar.add x y = x + y := rfl
@[simp] theorem s_sub (x y : ℝ) : Scalar.sub x y = x - y := rfl
@[simp] theorem s_mul (x y : ℝ) : Scalar.mul x y = x * y := rfl
@[simp] theorem s_div (x y : ℝ) : Scalar.div x y = x / y := rfl
@[simp] theorem s_half : (Scalar.half : ℝ) = 1 / 2 := rfl
@[simp] theorem s_sqrt2 : (Scalar.sqrt2 : ℝ) = √2 := rfl
@[simp] theorem s_cosPi (a b : ℕ) : (Scalar.cosPi a b : ℝ) = Real.cos (a * π / b) := rfl

/-! ## arrays -/
section arrays
variable {α : Type} [Scalar α]

omit [Scalar α] in
@[simp] theorem size_tab (n : ℕ) (f : ℕ → α) : (tab n f).size = n := by simp [tab]

theorem rd_tab (n : ℕ) (f : ℕ → α) (i : ℕ) (h : i < n) : rd (tab n f) i = f i := by
  simp [rd, tab, Array.getD, h]

theorem rd_tab_ge (n : ℕ) (f : ℕ → α) (i : ℕ) (h : n ≤ i) : rd (tab n f) i = Scalar.zero := by
  simp [rd, tab, Array.getD, Nat.not_lt.mpr h]

end arrays

theorem sumRange_eq (n : ℕ) (f : ℕ → ℝ) : sumRange n f = ∑ i ∈ range n, f i := by
  induction n with
  | zero => simp [sumRange]
  | succ n ih => simp [sumRange, ih, Finset.sum_range_succ]

/-! ## the cosine sum -/

/-- weight of the `n`-th basis function: `1` for the constant one, `√2` otherwise -/
noncomputable def wt (n : ℕ) : ℝ := if n = 0 then 1 else √2

/-- `Σ_{n<N} wt n · c n · cos(nθ)` -/
noncomputable def S (N : ℕ) (c : ℕ → ℝ) (θ : ℝ) : ℝ := ∑ n ∈ range N, wt n * c n * Real.cos (n * θ)

/-- sample angle `(2j+1)π/(2N)` -/
noncomputable def theta (N j : ℕ) : ℝ := (2 * j + 1) * π / (2 * N)

theorem S_congr {N : ℕ} {c c' : ℕ → ℝ} (θ : ℝ) (h : ∀ i < N, c i = c' i) : S N c θ = S N c' θ := by
  unfold S
  exact Finset.sum_congr rfl fun i hi => by rw [h i (Finset.mem_range.mp hi)]

/-- the definition of the model is the weighted cosine sum at the sample angle -/
theorem idctDef_eq_S (N : ℕ) (hN : 0 < N) (c : ℕ → ℝ) (j : ℕ) :
    idctDef N c j = S N c (theta N j) := by
  obtain ⟨M, rfl⟩ : ∃ M, N = M + 1 := ⟨N - 1, by omega⟩
  unfold idctDef S
  rw [Finset.sum_range_succ', sumRange_eq]
  simp only [s_add, s_mul, s_sqrt2, s_cosPi, Nat.add_sub_cancel]
  rw [Finset.mul_sum]
  have h0 : wt 0 * c 0 * Real.cos (((0 : ℕ) : ℝ) * theta (M + 1) j) = c 0 := by simp [wt]
  rw [h0, add_comm]
  congr 1
  apply Finset.sum_congr rfl
  intro n _
  have hw : wt (n + 1) = √2 := by simp [wt]
  have : ((((n + 1) * (2 * j + 1) : ℕ) : ℝ)) * π / ((2 * (M + 1) : ℕ) : ℝ)
      = ((n + 1 : ℕ) : ℝ) * theta (M + 1) j := by
    unfold theta; push_cast; ring
  rw [hw, this]; ring

/-- even/odd split of the cosine sum of even length -/
theorem S_split (m : ℕ) (c : ℕ → ℝ) (θ : ℝ) :
    S (2 * m) c θ =
      (∑ i ∈ range m, wt (2 * i) * c (2 * i) * Real.cos ((2 * i : ℕ) * θ)) +
      ∑ i ∈ range m, √2 * c (2 * i + 1) * Real.cos ((2 * i + 1 : ℕ) * θ) := by
  induction m with
  | zero => simp [S]
  | succ m ih =>
    have h2 : 2 * (m + 1) = 2 * m + 1 + 1 := by ring
    unfold S at ih ⊢
    rw [h2, Finset.sum_range_succ, Finset.sum_range_succ, ih, Finset.sum_range_succ,
      Finset.sum_range_succ]
    have : wt (2 * m + 1) = √2 := by simp [wt]
    rw [this]; ring

theorem S_even (m : ℕ) (c : ℕ → ℝ) (θ : ℝ) :
    (∑ i ∈ range m, wt (2 * i) * c (2 * i) * Real.cos ((2 * i : ℕ) * θ)) =
      S m (fun i => c (2 * i)) (2 * θ) := by
  unfold S
  apply Finset.sum_congr rfl
  intro i _
  have h1 : wt (2 * i) = wt i := by unfold wt; simp
  have h2 : ((2 * i : ℕ) : ℝ) * θ = (i : ℝ) * (2 * θ) := by push_cast; ring
  rw [h1, h2]

/-- the odd half after the running sum and the `√2` on the first entry -/
noncomputable def oddIn (c : ℕ → ℝ) (i : ℕ) : ℝ :=
  if i = 0 then c 1 * √2 else c (2 * i + 1) + c (2 * i - 1)

theorem prod_to_sum (a b : ℝ) :
    2 * Real.cos a * Real.cos b = Real.cos (a + b) + Real.cos (a - b) := by
  rw [Real.cos_add, Real.cos_sub]; ring

/-- key identity: `2cosθ ·` (odd part) is the cosine sum of the running-summed odd coefficients
at the doubled angle, plus a boundary term that vanishes at the sample angles -/
theorem S_odd (m : ℕ) (c : ℕ → ℝ) (θ : ℝ) :
    2 * Real.cos θ * (∑ i ∈ range (m + 1), √2 * c (2 * i + 1) * Real.cos ((2 * i + 1 : ℕ) * θ)) =
      S (m + 1) (oddIn c) (2 * θ) + √2 * c (2 * m + 1) * Real.cos ((2 * m + 2 : ℕ) * θ) := by
  induction m with
  | zero =>
    simp only [S, Finset.sum_range_one, wt, oddIn, if_true, Nat.cast_zero, zero_mul, Real.cos_zero,
      mul_zero, zero_add, Nat.cast_one, one_mul, mul_one]
    have : ((2 : ℕ) : ℝ) * θ = 2 * θ := by push_cast; ring
    rw [this, Real.cos_two_mul]; ring
  | succ m ih =>
    rw [Finset.sum_range_succ, mul_add, ih]
    unfold S
    rw [Finset.sum_range_succ (n := m + 1)]
    have hw : wt (m + 1) = √2 := by simp [wt]
    have ho : oddIn c (m + 1) = c (2 * (m + 1) + 1) + c (2 * m + 1) := by
      simp [oddIn]; rfl
    rw [hw, ho]
    have hp := prod_to_sum (((2 * (m + 1) + 1 : ℕ) : ℝ) * θ) θ
    have e1 : ((2 * (m + 1) + 1 : ℕ) : ℝ) * θ + θ = ((2 * (m + 1) + 2 : ℕ) : ℝ) * θ := by
      push_cast; ring
    have e2 : ((2 * (m + 1) + 1 : ℕ) : ℝ) * θ - θ = ((m + 1 : ℕ) : ℝ) * (2 * θ) := by
      push_cast; ring
    have e3 : ((2 * m + 2 : ℕ) : ℝ) * θ = ((m + 1 : ℕ) : ℝ) * (2 * θ) := by
      push_cast; ring
    rw [e1, e2] at hp
    rw [e3]
    have hp' : 2 * Real.cos θ * Real.cos (((2 * (m + 1) + 1 : ℕ) : ℝ) * θ) =
        Real.cos (((2 * (m + 1) + 2 : ℕ) : ℝ) * θ) + Real.cos (((m + 1 : ℕ) : ℝ) * (2 * θ)) := by
      rw [← hp]; ring
    linear_combination (√2 * c (2 * (m + 1) + 1)) * hp'

theorem cos_odd_half_pi (k : ℕ) : Real.cos ((2 * (k : ℝ) + 1) * π / 2) = 0 := by
  have h : (2 * (k : ℝ) + 1) * π / 2 = π / 2 + k * π := by ring
  rw [h, Real.cos_add, Real.cos_pi_div_two, Real.sin_pi_div_two, Real.sin_nat_mul_pi]
  ring

theorem cos_N_theta (N j : ℕ) (hN : 0 < N) : Real.cos ((N : ℝ) * theta N j) = 0 := by
  have hN' : (N : ℝ) ≠ 0 := Nat.cast_ne_zero.mpr (by omega)
  have : (N : ℝ) * theta N j = (2 * (j : ℝ) + 1) * π / 2 := by
    unfold theta; field_simp
  rw [this, cos_odd_half_pi]

theorem theta_double (m j : ℕ) (hm : 0 < m) : theta m j = 2 * theta (2 * m) j := by
  have hm' : (m : ℝ) ≠ 0 := Nat.cast_ne_zero.mpr (by omega)
  unfold theta; push_cast; field_simp

theorem cos_theta_pos (m j : ℕ) (hj : j < m) : 0 < Real.cos (theta (2 * m) j) := by
  have hm : (0 : ℝ) < m := Nat.cast_pos.mpr (by omega)
  have hjm : ((j : ℝ) + 1) ≤ m := by exact_mod_cast hj
  apply Real.cos_pos_of_mem_Ioo
  constructor
  · have : 0 < theta (2 * m) j := by
      unfold theta
      apply div_pos
      · positivity
      · push_cast; linarith
    linarith [Real.pi_pos]
  · unfold theta
    push_cast
    rw [div_lt_div_iff₀ (by positivity) (by norm_num)]
    nlinarith [Real.pi_pos]

/-- reflection of the sample angle: `θ_{N-1-j} = π - θ_j` -/
theorem theta_reflect (N j j' : ℕ) (h : j + j' + 1 = N) : theta N j = π - theta N j' := by
  have hN : (N : ℝ) ≠ 0 := Nat.cast_ne_zero.mpr (by omega)
  have hc : (N : ℝ) = j + j' + 1 := by exact_mod_cast h.symm
  unfold theta
  field_simp
  rw [hc]; ring

theorem cos_nat_mul_pi_sub (n : ℕ) (θ : ℝ) :
    Real.cos ((n : ℝ) * (π - θ)) = (-1) ^ n * Real.cos (n * θ) := by
  have : (n : ℝ) * (π - θ) = n * π - n * θ := by ring
  rw [this, Real.cos_sub, Real.cos_nat_mul_pi, Real.sin_nat_mul_pi]; ring

/-- the cosine sum of length `2m` at a sample angle and at its reflection, in terms of the two
half-length sums the recursion computes -/
theorem S_step (m : ℕ) (hm : 0 < m) (c : ℕ → ℝ) (j : ℕ) (hj : j < m) :
    S (2 * m) c (theta (2 * m) j) =
      S m (fun i => c (2 * i)) (theta m j) +
        S m (oddIn c) (theta m j) * (1 / (2 * Real.cos (theta (2 * m) j))) ∧
    S (2 * m) c (π - theta (2 * m) j) =
      S m (fun i => c (2 * i)) (theta m j) -
        S m (oddIn c) (theta m j) * (1 / (2 * Real.cos (theta (2 * m) j))) := by
  obtain ⟨k, rfl⟩ : ∃ k, m = k + 1 := ⟨m - 1, by omega⟩
  set θ := theta (2 * (k + 1)) j with hθ
  have hcos : Real.cos θ ≠ 0 := (cos_theta_pos (k + 1) j hj).ne'
  have hd : theta (k + 1) j = 2 * θ := theta_double (k + 1) j hm
  have hb : Real.cos ((2 * k + 2 : ℕ) * θ) = 0 := by
    have := cos_N_theta (2 * (k + 1)) j (by omega)
    rw [← hθ] at this
    have e : ((2 * k + 2 : ℕ) : ℝ) = ((2 * (k + 1) : ℕ) : ℝ) := by push_cast; ring
    rw [e]; exact this
  have hodd := S_odd k c θ
  rw [hb, mul_zero, add_zero] at hodd
  have hO : (∑ i ∈ range (k + 1), √2 * c (2 * i + 1) * Real.cos ((2 * i + 1 : ℕ) * θ)) =
      S (k + 1) (oddIn c) (2 * θ) * (1 / (2 * Real.cos θ)) := by
    have h2 : 2 * Real.cos θ ≠ 0 := mul_ne_zero two_ne_zero hcos
    rw [← hodd, mul_comm (2 * Real.cos θ), mul_assoc, mul_one_div_cancel h2, mul_one]
  constructor
  · rw [S_split, S_even, hO, hd]
  · rw [S_split]
    have he : (∑ i ∈ range (k + 1), wt (2 * i) * c (2 * i) * Real.cos ((2 * i : ℕ) * (π - θ))) =
        ∑ i ∈ range (k + 1), wt (2 * i) * c (2 * i) * Real.cos ((2 * i : ℕ) * θ) := by
      apply Finset.sum_congr rfl
      intro i _
      rw [cos_nat_mul_pi_sub, pow_mul]; simp
    have ho : (∑ i ∈ range (k + 1), √2 * c (2 * i + 1) * Real.cos ((2 * i + 1 : ℕ) * (π - θ))) =
        -∑ i ∈ range (k + 1), √2 * c (2 * i + 1) * Real.cos ((2 * i + 1 : ℕ) * θ) := by
      rw [← Finset.sum_neg_distrib]
      apply Finset.sum_congr rfl
      intro i _
      rw [cos_nat_mul_pi_sub, pow_succ, pow_mul]; simp
    rw [he, ho, S_even, hO, hd]; ring

/-! ## the recursion -/

/-- what it means for a function on arrays to compute the inverse DCT of length `N` -/
def ComputesIdct (N : ℕ) (f : Array ℝ → Array ℝ) : Prop :=
  ∀ c : Array ℝ, ∀ j < N, rd (f c) j = S N (rd c) (theta N j)

theorem secHalf_real (n i : ℕ) :
    (secHalf n i : ℝ) = 1 / (2 * Real.cos (theta n i)) := by
  unfold secHalf theta
  simp only [s_div, s_one, s_mul, s_add, s_cosPi]
  norm_num

theorem rd_istep (n : ℕ) (rec : Array ℝ → Array ℝ) (c : Array ℝ) (j : ℕ) (hj : j < n) :
    rd (istep n rec c) j =
      if j < n / 2 then
        rd (rec (tab (n / 2) fun i => rd c (2 * i))) j +
          rd (rec (tab (n / 2) (oddIn (rd c)))) j * secHalf n j
      else
        rd (rec (tab (n / 2) fun i => rd c (2 * i))) (n - 1 - j) -
          rd (rec (tab (n / 2) (oddIn (rd c)))) (n - 1 - j) * secHalf n (n - 1 - j) := by
  unfold istep
  rw [rd_tab _ _ _ hj]
  rfl

/-- **One recursion level**: if `rec` computes the IDCT of length `m`, `istep (2m) rec` computes the
IDCT of length `2m`. -/
theorem istep_computes (m : ℕ) (hm : 0 < m) (rec : Array ℝ → Array ℝ) (hrec : ComputesIdct m rec) :
    ComputesIdct (2 * m) (istep (2 * m) rec) := by
  intro c j hj
  have hdiv : 2 * m / 2 = m := by omega
  have hin0 : ∀ i < m, rd (tab m fun i => rd c (2 * i)) i = (fun i => rd c (2 * i)) i :=
    fun i hi => rd_tab _ _ _ hi
  have hin1 : ∀ i < m, rd (tab m (oddIn (rd c))) i = oddIn (rd c) i :=
    fun i hi => rd_tab _ _ _ hi
  rw [rd_istep _ _ _ _ hj, hdiv]
  by_cases hlt : j < m
  · rw [if_pos hlt, hrec _ j hlt, hrec _ j hlt, S_congr _ hin0, S_congr _ hin1, secHalf_real]
    exact ((S_step m hm (rd c) j hlt).1).symm
  · have hj' : 2 * m - 1 - j < m := by omega
    rw [if_neg hlt, hrec _ _ hj', hrec _ _ hj', S_congr _ hin0, S_congr _ hin1, secHalf_real,
      theta_reflect (2 * m) j (2 * m - 1 - j) (by omega)]
    exact ((S_step m hm (rd c) _ hj').2).symm

theorem idct0_computes : ComputesIdct 1 (idct (α := ℝ) 0) := by
  intro c j hj
  obtain rfl : j = 0 := by omega
  simp [idct, rd_tab, S, wt]

theorem sqrt2_sq : √2 * √2 = 2 := Real.mul_self_sqrt (by norm_num)

theorem rd_lit2 (a b : ℝ) : rd #[a, b] 0 = a ∧ rd #[a, b] 1 = b := ⟨rfl, rfl⟩

theorem rd_lit4 (a b c d : ℝ) :
    rd #[a, b, c, d] 0 = a ∧ rd #[a, b, c, d] 1 = b ∧ rd #[a, b, c, d] 2 = c ∧
      rd #[a, b, c, d] 3 = d := ⟨rfl, rfl, rfl, rfl⟩

/-- the special case `n == 2` is the recursion level on top of length 1 -/
theorem idct2_eq_istep (c : Array ℝ) (j : ℕ) (hj : j < 2) :
    rd (idct2 c) j = rd (istep 2 (idct 0) c) j := by
  have h4 : theta 2 0 = π / 4 := by unfold theta; push_cast; ring
  have hs2 : (√2 : ℝ) ≠ 0 := by positivity
  have hs : (secHalf 2 0 : ℝ) = 1 / √2 := by
    rw [secHalf_real, h4, Real.cos_pi_div_four]
    field_simp
  rw [rd_istep _ _ _ _ hj]
  have hj2 : j = 0 ∨ j = 1 := by omega
  rcases hj2 with rfl | rfl
  · simp only [idct2, idct, (rd_lit2 _ _).1, Nat.reduceDiv, Nat.lt_one_iff, if_true,
      rd_tab _ _ 0 Nat.one_pos, oddIn, hs, s_add]
    field_simp
  · simp only [idct2, idct, (rd_lit2 _ _).2, Nat.reduceDiv, Nat.lt_one_iff, one_ne_zero, if_false,
      Nat.sub_self, rd_tab _ _ 0 Nat.one_pos, oddIn, hs, s_sub, if_true]
    field_simp

/-- the special case `n == 4` (`dct4`) is the recursion level on top of `n == 2` -/
theorem idct4_eq_istep (c : Array ℝ) (j : ℕ) (hj : j < 4) :
    rd (idct4 c) j = rd (istep 4 idct2 c) j := by
  rw [rd_istep _ _ _ _ hj]
  have h20 : rd (tab 2 fun i => rd c (2 * i)) 0 = rd c 0 := rd_tab _ _ 0 (by omega)
  have h21 : rd (tab 2 fun i => rd c (2 * i)) 1 = rd c 2 := rd_tab _ _ 1 (by omega)
  have h30 : rd (tab 2 (oddIn (rd c))) 0 = rd c 1 * √2 := by
    rw [rd_tab _ _ 0 (by omega)]; simp [oddIn]
  have h31 : rd (tab 2 (oddIn (rd c))) 1 = rd c 3 + rd c 1 := by
    rw [rd_tab _ _ 1 (by omega)]; simp [oddIn]
  have : j = 0 ∨ j = 1 ∨ j = 2 ∨ j = 3 := by omega
  rcases this with rfl | rfl | rfl | rfl <;>
    simp only [idct4, idct2, rd_lit4, rd_lit2, Nat.reduceDiv, Nat.reduceLT, if_true, if_false,
      Nat.reduceSub, h20, h21, h30, h31, s_add, s_sub, s_mul, s_sqrt2] <;> ring

theorem idct2_computes : ComputesIdct 2 (idct2 (α := ℝ)) := by
  intro c j hj
  rw [idct2_eq_istep c j hj]
  exact istep_computes 1 Nat.one_pos _ idct0_computes c j hj

theorem idct4_computes : ComputesIdct 4 (idct4 (α := ℝ)) := by
  intro c j hj
  rw [idct4_eq_istep c j hj]
  exact istep_computes 2 (by omega) _ idct2_computes c j hj

/-- the recursion of `generic/dct.rs`, with its special cases for 2 and 4, computes the cosine sum
for every power-of-two length -/
theorem idct_computes : ∀ k : ℕ, ComputesIdct (2 ^ k) (idct (α := ℝ) k)
  | 0 => idct0_computes
  | 1 => idct2_computes
  | 2 => idct4_computes
  | k + 3 => by
    have h : 2 ^ (k + 3) = 2 * 2 ^ (k + 2) := by ring
    have ih := idct_computes (k + 2)
    show ComputesIdct (2 ^ (k + 3)) (istep (2 ^ (k + 3)) (idct (k + 2)))
    rw [h]
    exact istep_computes _ (by positivity) _ ih

end Jxl.Dct
