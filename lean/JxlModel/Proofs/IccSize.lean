import JxlModel.Proofs.Icc
namespace Jxl.Icc

/-! ## size consistency -/

theorem length_decodeHeader (size : Nat) (hd : List Nat) : (decodeHeader size hd).length = hd.length := by
  simp [decodeHeader]

theorem decodeMain_size (size : Nat) (c d : List Nat) (o : Array Nat) (out : List Nat)
    (h : decodeMain size c d o = .ok out) : out.length = size := by
  unfold decodeMain at h
  split at h
  · exact absurd h (by simp)
  · split at h
    · exact absurd h (by simp)
    · rename_i hsz
      simp only [Except.ok.injEq] at h
      subst h
      simpa using hsz

theorem decodeBody_size (size : Nat) (c d : List Nat) (o : Array Nat) (out : List Nat)
    (h : decodeBody size c d o = .ok out) : out.length = size := by
  unfold decodeBody at h
  split at h
  · exact absurd h (by simp)
  · split at h
    · exact absurd h (by simp)
    · exact decodeMain_size _ _ _ _ _ h

theorem decodeFramed_size (n : Nat) (c d out : List Nat) (h : decodeFramed n c d = .ok out) :
    out.length = n := by
  unfold decodeFramed at h
  split at h
  · exact absurd h (by simp)
  · split at h
    · simp only [Except.ok.injEq] at h
      subst h
      rw [length_decodeHeader, List.length_take]
      omega
    · exact decodeBody_size _ _ _ _ _ h

theorem decodeIcc_size (s out : List Nat) (h : decodeIcc s = .ok out) : out.length = declaredSize s := by
  unfold decodeIcc at h
  unfold declaredSize
  split at h
  · exact absurd h (by simp)
  · rename_i n s1 hv
    rw [hv]
    simp only
    split at h
    · exact absurd h (by simp)
    · split at h
      · exact absurd h (by simp)
      · split at h
        · exact absurd h (by simp)
        · exact decodeFramed_size _ _ _ _ h

/-! ## fuel -/

theorem readVarintAux_err (it : Nat) : ∀ (shift acc : Nat) (s : List Nat) (e : ErrKind),
    readVarintAux it shift acc s = .error e → e = .short := by
  induction it with
  | zero => intro shift acc s e h; simp [readVarintAux] at h
  | succ it ih =>
    intro shift acc s e h
    cases s with
    | nil => simp [readVarintAux] at h; exact h.symm
    | cons b rest =>
      rw [readVarintAux_cons] at h
      split at h
      · exact absurd h (by simp)
      · exact ih _ _ _ _ h

theorem readVarint_err {s : List Nat} {e : ErrKind} (h : readVarint s = .error e) : e = .short :=
  readVarintAux_err 9 0 0 s e h

theorem cmdCopy_ok_or (command : Nat) (cmds data : List Nat) (out : Array Nat) :
    (∃ c d o, cmdCopy command cmds data out = .ok (c, d, o) ∧ c.length ≤ cmds.length) ∨
    cmdCopy command cmds data out = .error .short := by
  unfold cmdCopy
  split
  · rename_i e he; right; rw [readVarint_err he]
  · rename_i num c hv
    split
    · right; rfl
    · left; exact ⟨_, _, _, rfl, readVarint_length hv⟩

theorem readStride_ok_or (flags width : Nat) (cmds : List Nat) :
    (∃ s c, readStride flags width cmds = .ok (s, c) ∧ c.length ≤ cmds.length) ∨
    readStride flags width cmds = .error .short ∨ readStride flags width cmds = .error .stride := by
  unfold readStride
  split
  · left; exact ⟨_, _, rfl, Nat.le_refl _⟩
  · split
    · rename_i e he; right; left; rw [readVarint_err he]
    · rename_i s c hv
      split
      · right; right; rfl
      · left; exact ⟨_, _, rfl, readVarint_length hv⟩

theorem cmdPredRun_ok_or (width order stride : Nat) (cmds data : List Nat) (out : Array Nat) :
    (∃ c d o, cmdPredRun width order stride cmds data out = .ok (c, d, o) ∧ c.length ≤ cmds.length) ∨
    (∃ e, cmdPredRun width order stride cmds data out = .error e ∧ e ≠ .fuel) := by
  unfold cmdPredRun
  split
  · right; exact ⟨_, rfl, by simp⟩
  · split
    · rename_i e he; right; exact ⟨_, rfl, by rw [readVarint_err he]; simp⟩
    · rename_i num c' hv
      split
      · right; exact ⟨_, rfl, by simp⟩
      · left; exact ⟨_, _, _, rfl, readVarint_length hv⟩

theorem cmdPred_ok_or (cmds data : List Nat) (out : Array Nat) :
    (∃ c d o, cmdPred cmds data out = .ok (c, d, o) ∧ c.length ≤ cmds.length) ∨
    (∃ e, cmdPred cmds data out = .error e ∧ e ≠ .fuel) := by
  unfold cmdPred
  split
  · right; exact ⟨_, rfl, by simp⟩
  · rename_i flags cmds'
    split
    · right; exact ⟨_, rfl, by simp⟩
    · rcases readStride_ok_or flags (flags % 4 + 1) cmds' with ⟨s, c, hs, hl⟩ | hs | hs
      · rw [hs]
        simp only
        rcases cmdPredRun_ok_or (flags % 4 + 1) (flags / 4 % 4) s c data out with
          ⟨c2, d2, o2, h2, hl2⟩ | h2
        · left; exact ⟨_, _, _, h2, by simp; omega⟩
        · right; exact h2
      · rw [hs]; right; exact ⟨_, rfl, by simp⟩
      · rw [hs]; right; exact ⟨_, rfl, by simp⟩

theorem mainStep_ok_or (command : Nat) (cmds data : List Nat) (out : Array Nat) :
    (∃ c d o, mainStep command cmds data out = .ok (c, d, o) ∧ c.length ≤ cmds.length) ∨
    (∃ e, mainStep command cmds data out = .error e ∧ e ≠ .fuel) := by
  unfold mainStep
  split
  · rcases cmdCopy_ok_or command cmds data out with h | h
    · left; exact h
    · right; exact ⟨_, h, by simp⟩
  · split
    · exact cmdPred_ok_or cmds data out
    · split
      · split
        · right; exact ⟨_, rfl, by simp⟩
        · left; exact ⟨_, _, _, rfl, Nat.le_refl _⟩
      · split
        · left; exact ⟨_, _, _, rfl, Nat.le_refl _⟩
        · right; exact ⟨_, rfl, by simp⟩

theorem mainLoop_ne_fuel : ∀ (fuel : Nat) (cmds data : List Nat) (out : Array Nat),
    cmds.length < fuel → mainLoop fuel cmds data out ≠ .error .fuel := by
  intro fuel
  induction fuel with
  | zero => intro cmds data out h; omega
  | succ f ih =>
    intro cmds data out h
    cases cmds with
    | nil => simp [mainLoop]
    | cons c cs =>
      simp only [mainLoop]
      rcases mainStep_ok_or c cs data out with ⟨c', d', o', hs, hl⟩ | ⟨e, hs, he⟩
      · rw [hs]; exact ih _ _ _ (by simp at h; omega)
      · rw [hs]; simpa using he

theorem readU32_ok_or (cmds : List Nat) :
    (∃ v c, readU32 cmds = .ok (v, c) ∧ c.length ≤ cmds.length) ∨ readU32 cmds = .error .short := by
  unfold readU32
  split
  · rename_i e he; right; rw [readVarint_err he]
  · rename_i v c hv; left; exact ⟨_, _, rfl, readVarint_length hv⟩

theorem tagStep_ok_or (size command : Nat) (s : TagSt) :
    (∃ s', tagStep size command s = .ok s' ∧ s'.cmds.length ≤ s.cmds.length) ∨
    (∃ e, tagStep size command s = .error e ∧ e ≠ .fuel) := by
  unfold tagStep
  split
  · rename_i e he
    right; refine ⟨e, rfl, ?_⟩
    unfold tagOf at he
    split at he
    · split at he
      · simp only [Except.error.injEq] at he; rw [← he]; simp
      · exact absurd he (by simp)
    · split at he
      · exact absurd he (by simp)
      · simp only [Except.error.injEq] at he; rw [← he]; simp
  · rename_i tag data ht
    have hstart : (∃ v c, readTagStart command s.prevStart s.prevSize s.cmds = .ok (v, c) ∧
        c.length ≤ s.cmds.length) ∨
        readTagStart command s.prevStart s.prevSize s.cmds = .error .short := by
      unfold readTagStart
      split
      · left; exact ⟨_, _, rfl, Nat.le_refl _⟩
      · exact readU32_ok_or _
    rcases hstart with ⟨v, c, hs, hl⟩ | hs
    · rw [hs]
      simp only
      have hsize : (∃ v' c', readTagSize command s.prevSize tag c = .ok (v', c') ∧
          c'.length ≤ c.length) ∨ readTagSize command s.prevSize tag c = .error .short := by
        unfold readTagSize
        split
        · exact readU32_ok_or _
        · split
          · left; exact ⟨_, _, rfl, Nat.le_refl _⟩
          · left; exact ⟨_, _, rfl, Nat.le_refl _⟩
      rcases hsize with ⟨v', c', hs', hl'⟩ | hs'
      · rw [hs']
        simp only
        split
        · right; exact ⟨_, rfl, by simp⟩
        · left; exact ⟨_, rfl, by simp; omega⟩
      · rw [hs']; right; exact ⟨_, rfl, by simp⟩
    · rw [hs]; right; exact ⟨_, rfl, by simp⟩

theorem tagLoop_ne_fuel (size : Nat) : ∀ (fuel : Nat) (s : TagSt),
    s.cmds.length < fuel → tagLoop size fuel s ≠ .error .fuel := by
  intro fuel
  induction fuel with
  | zero => intro s h; omega
  | succ f ih =>
    intro s h
    rw [tagLoop]
    split
    · simp
    · rename_i c cs hc
      split
      · simp
      · rcases tagStep_ok_or size c { s with cmds := cs } with ⟨s', hs, hl⟩ | ⟨e, hs, he⟩
        · rw [hs]
          simp only
          apply ih
          rw [hc] at h
          simp at h hl
          omega
        · rw [hs]; simpa using he

theorem decodeMain_ne_fuel (size : Nat) (cmds data : List Nat) (out : Array Nat) :
    decodeMain size cmds data out ≠ .error .fuel := by
  unfold decodeMain
  have := mainLoop_ne_fuel (cmds.length + 1) cmds data out (Nat.lt_succ_self _)
  split
  · rename_i e he; intro h; simp only [Except.error.injEq] at h; rw [h] at he
    exact this he
  · split <;> simp

theorem decodeTags_ne_fuel (size v : Nat) (cmds data : List Nat) (out : Array Nat) :
    decodeTags size v cmds data out ≠ .error .fuel := by
  unfold decodeTags
  split
  · simp
  · split
    · simp
    · have := tagLoop_ne_fuel size (cmds.length + 1)
        ⟨cmds, data, out ++ (be32 (v - 1)).toArray, (v - 1) * 12 + 128, 0⟩ (Nat.lt_succ_self _)
      split
      · rename_i e he; intro h; simp only [Except.error.injEq] at h; rw [h] at he
        exact this he
      · simp

theorem decodeBody_ne_fuel (size : Nat) (c d : List Nat) (o : Array Nat) :
    decodeBody size c d o ≠ .error .fuel := by
  unfold decodeBody
  split
  · rename_i e he; rw [readVarint_err he]; simp
  · rename_i v cmds hv
    have := decodeTags_ne_fuel size v cmds d o
    split
    · rename_i e he; intro h; simp only [Except.error.injEq] at h; rw [h] at he
      exact this he
    · exact decodeMain_ne_fuel _ _ _ _

theorem decodeIcc_ne_fuel (s : List Nat) : decodeIcc s ≠ .error .fuel := by
  unfold decodeIcc
  split
  · rename_i e he; rw [readVarint_err he]; simp
  · split
    · rename_i e he; rw [readVarint_err he]; simp
    · split
      · simp
      · split
        · simp
        · unfold decodeFramed
          split
          · simp
          · split
            · simp
            · exact decodeBody_ne_fuel _ _ _ _

end Jxl.Icc
