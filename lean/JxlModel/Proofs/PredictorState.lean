import JxlModel.Proofs.Modular
/-!
# The incremental predictor state refines the neighbours read from the grid

`Model/Modular/Predictor.lean` has two layers: the Spec (`neighbors`, `propsSpec`, `predictSpec`:
everything is read from the grid of decoded samples with the edge rules of the format) and the
Impl (`PState`: the two row buffers and the cached `w`, `n`, `nw`, `prev_grad` of the Rust
`PredictorState`, stepped by `PState.record`). This file proves that the Impl refines the Spec:

* `PState.Tracks ps c x y` — the invariant: `ps` is at `(x, y)` and its cached values and both row
  buffers hold exactly the grid values the Spec would read;
* `PState.Tracks.init`, `PState.Tracks.record` — it holds for `PState.reset` and is preserved by
  `PState.record` with the sample `c.get x y`, whatever self-correcting prediction is passed
  (so: with and without the weighted predictor), for every width ≥ 1 and **all** `Int` samples
  (no range hypothesis is needed: `record` never wraps a sample);
* `PState.ReachedBy`, `PState.run` — "the state after the first `k` samples of `c` in raster
  order", as a relation (any `scp` arguments) and as the function the token decoder runs;
* `PState.Tracks.nb_eq`, `props_eq`, `predict_eq` — under the invariant the seven neighbours, the
  16 properties and all predictors computed from the state equal the Spec's;
* `encodeGrid`, `decodeGrid` — the token encoder / decoder with the predictor read from the grid
  (no incremental state besides the weighted predictor's); `encodeSamples_eq_encodeGrid`,
  `decodeSamples_eq_decodeGrid` and the channel-level corollaries: the Impl pair computes exactly
  the same tokens / samples; `grid_roundtrip`;
* `PState.Tracks.fast_eq` — on the fast path (`2 ≤ x`, `x + 2 < width`, `y ≥ 2`) the unchecked
  accessors are in range and return the same values; `PState.Tracks.record_reads_in_range` — the
  three direct indexings in `Properties::record` / `ww::<true>` are in range.

No Mathlib import is needed.
-/
namespace Jxl.Modular

/-! ## `getD` after `setIfInBounds` / `push` -/

theorem getD_setIfInBounds (a : Array Int) (i j : Nat) (v d : Int) :
    (a.setIfInBounds i v).getD j d = if i = j ∧ i < a.size then v else a.getD j d := by
  simp only [Array.getD_eq_getD_getElem?, Array.getElem?_setIfInBounds]
  by_cases h : i = j
  · subst h
    by_cases h2 : i < a.size <;> simp [h2]
  · simp [h]

theorem getD_push (a : Array Int) (j : Nat) (v d : Int) :
    (a.push v).getD j d = if j = a.size then v else a.getD j d := by
  simp only [Array.getD_eq_getD_getElem?, Array.getElem?_push]
  split <;> simp

theorem getElem?_eq_some_getD (a : Array Int) (i : Nat) (d : Int) (h : i < a.size) :
    a[i]? = some (a.getD i d) := by
  simp [Array.getD_eq_getD_getElem?, h]

/-! ## The Spec neighbours, field by field -/

theorem nb_w (c : Chan) (x y : Nat) : (neighbors c x y).w =
    if x > 0 then c.get (x - 1) y else if y > 0 then c.get x (y - 1) else 0 := rfl
theorem nb_n (c : Chan) (x y : Nat) : (neighbors c x y).n =
    if y > 0 then c.get x (y - 1) else (neighbors c x y).w := rfl
theorem nb_nw (c : Chan) (x y : Nat) : (neighbors c x y).nw =
    if x > 0 ∧ y > 0 then c.get (x - 1) (y - 1) else (neighbors c x y).w := rfl
theorem nb_ne (c : Chan) (x y : Nat) : (neighbors c x y).ne =
    if x + 1 < c.w ∧ y > 0 then c.get (x + 1) (y - 1) else (neighbors c x y).n := rfl
theorem nb_nn (c : Chan) (x y : Nat) : (neighbors c x y).nn =
    if y > 1 then c.get x (y - 2) else (neighbors c x y).n := rfl
theorem nb_nee (c : Chan) (x y : Nat) : (neighbors c x y).nee =
    if x + 2 < c.w ∧ y > 0 then c.get (x + 2) (y - 1) else (neighbors c x y).ne := rfl
theorem nb_ww (c : Chan) (x y : Nat) : (neighbors c x y).ww =
    if x > 1 then c.get (x - 2) y else (neighbors c x y).w := rfl

/-- the Spec's "previous gradient" term of property 8 (as written inside `propsSpec`) -/
def prevGradSpec (c : Chan) (x y : Nat) : Int := if x > 0 then gradProp c (x - 1) y else 0

/-! ## The invariant -/

/-- `ps` is the predictor state at position `(x, y)` of channel `c`: position, cached neighbours and
previous gradient agree with the Spec, `prevRow` is row `y - 1` (empty on the first row), and
`currRow` holds row `y` up to `x` and, from the third row on, still row `y - 2` from `x` on
(the two buffers are swapped at every row end). -/
structure PState.Tracks (ps : PState) (c : Chan) (x y : Nat) : Prop where
  hwidth : ps.width = c.w
  hxw : x < c.w
  hx : ps.x = x
  hy : ps.y = y
  hw : ps.w = (neighbors c x y).w
  hn : ps.n = (neighbors c x y).n
  hnw : ps.nw = (neighbors c x y).nw
  hgrad : ps.prevGrad = (if x > 0 then gradProp c (x - 1) y else 0)
  prevSize : ps.prevRow.size = (if y = 0 then 0 else c.w)
  prevGet : ∀ i, i < c.w → 0 < y → ps.prevRow.getD i 0 = c.get i (y - 1)
  currSize : ps.currRow.size = (if y ≤ 1 then x else c.w)
  currLo : ∀ i, i < x → ps.currRow.getD i 0 = c.get i y
  currHi : ∀ i, x ≤ i → i < c.w → 2 ≤ y → ps.currRow.getD i 0 = c.get i (y - 2)

/-- the seven neighbours as the Impl state yields them (checked accessors) -/
def PState.nb (s : PState) : Nb :=
  { w := s.w, n := s.n, nw := s.nw, ne := s.ne, nn := s.nn, nee := s.nee, ww := s.ww }

/-- raster successor of `(x, y)` in a grid of width `w` -/
def nextX (w x : Nat) : Nat := if x + 1 < w then x + 1 else 0
def nextY (w x y : Nat) : Nat := if x + 1 < w then y else y + 1

theorem PState.Tracks.init (c : Chan) (wp : Option Wp) (hw : 1 ≤ c.w) :
    (PState.reset c.w wp).Tracks c 0 0 := by
  constructor <;> first | omega | simp [PState.reset, nb_w, nb_n, nb_nw]

section
set_option linter.unusedSimpArgs false

local macro "tracks_close" : tactic => `(tactic| first
  | omega
  | (simp only [nb_w, nb_n, nb_nw, gradProp, getD_push, getD_setIfInBounds, Array.size_push,
      Array.size_setIfInBounds] at *; grind))

/-- one step inside a row -/
theorem PState.Tracks.record_same {ps : PState} {c : Chan} {x y : Nat} (h : ps.Tracks c x y)
    (scp : Option ScPred) (hx1 : x + 1 < c.w) :
    (ps.record scp (c.get x y)).Tracks c (x + 1) y := by
  obtain ⟨hwidth, hxw, hx, hy, hw, hn, hnw, hgrad, prevSize, prevGet, currSize, currLo, currHi⟩ := h
  have hnge : ¬ (ps.x + 1 ≥ ps.width) := by omega
  by_cases hy0 : y = 0
  · subst hy0
    have hemp : ps.prevRow.isEmpty = true := by simpa using prevSize
    have hcs : ¬ (ps.x < ps.currRow.size) := by simp at currSize; omega
    constructor <;>
      (try simp only [PState.record, hnge, hemp, hcs, if_true, if_false, Bool.false_eq_true])
    all_goals tracks_close
  · have hemp : ps.prevRow.isEmpty = false := by
      have h1 : ps.prevRow.size = c.w := by simpa [hy0] using prevSize
      rw [Bool.eq_false_iff]
      intro h
      rw [Array.isEmpty_iff_size_eq_zero] at h
      omega
    by_cases hy1 : y = 1
    · subst hy1
      have hcs : ¬ (ps.x < ps.currRow.size) := by simp at currSize; omega
      constructor <;>
        (try simp only [PState.record, hnge, hemp, hcs, if_true, if_false, Bool.false_eq_true])
      all_goals tracks_close
    · have hcs : ps.x < ps.currRow.size := by
        have : ¬ y ≤ 1 := by omega
        simp only [this, if_false] at currSize; omega
      constructor <;>
        (try simp only [PState.record, hnge, hemp, hcs, if_true, if_false, Bool.false_eq_true])
      all_goals tracks_close

/-- the step at the last column: the buffers are swapped, the state moves to `(0, y + 1)` -/
theorem PState.Tracks.record_wrap {ps : PState} {c : Chan} {x y : Nat} (h : ps.Tracks c x y)
    (scp : Option ScPred) (hx1 : ¬ x + 1 < c.w) :
    (ps.record scp (c.get x y)).Tracks c 0 (y + 1) := by
  obtain ⟨hwidth, hxw, hx, hy, hw, hn, hnw, hgrad, prevSize, prevGet, currSize, currLo, currHi⟩ := h
  have hge : ps.x + 1 ≥ ps.width := by omega
  by_cases hy1 : y ≤ 1
  · have hcs : ¬ (ps.x < ps.currRow.size) := by simp only [hy1, if_true] at currSize; omega
    constructor <;> (try simp only [PState.record, hge, hcs, if_true, if_false])
    all_goals tracks_close
  · have hcs : ps.x < ps.currRow.size := by
      simp only [hy1, if_false] at currSize; omega
    constructor <;> (try simp only [PState.record, hge, hcs, if_true, if_false])
    all_goals tracks_close

end

/-- preservation: recording the sample at `(x, y)` moves the invariant to the raster successor -/
theorem PState.Tracks.record {ps : PState} {c : Chan} {x y : Nat} (h : ps.Tracks c x y)
    (scp : Option ScPred) :
    (ps.record scp (c.get x y)).Tracks c (nextX c.w x) (nextY c.w x y) := by
  unfold nextX nextY
  by_cases hx1 : x + 1 < c.w
  · simpa only [hx1, if_true] using h.record_same scp hx1
  · simpa only [hx1, if_false] using h.record_wrap scp hx1

/-! ## Raster order -/

theorem raster_succ (w k : Nat) (hw : 1 ≤ w) :
    nextX w (k % w) = (k + 1) % w ∧ nextY w (k % w) (k / w) = (k + 1) / w := by
  have hlt : k % w < w := Nat.mod_lt _ (by omega)
  have hk : w * (k / w) + k % w = k := Nat.div_add_mod k w
  unfold nextX nextY
  by_cases h : k % w + 1 < w
  · simp only [h, if_true]
    have := (Nat.div_mod_unique (a := k + 1) (b := w) (c := k % w + 1) (d := k / w) (by omega)).2
      ⟨by omega, h⟩
    omega
  · simp only [h, if_false]
    have hm : w * (k / w + 1) = w * (k / w) + w := Nat.mul_succ _ _
    have := (Nat.div_mod_unique (a := k + 1) (b := w) (c := 0) (d := k / w + 1) (by omega)).2
      ⟨by omega, by omega⟩
    omega

/-- `ps` is reachable from `PState.reset c.w wp` by recording the first `k` samples of `c` in raster
order, each step with an arbitrary self-correcting prediction argument -/
inductive PState.ReachedBy (c : Chan) (wp : Option Wp) : PState → Nat → Prop
  | init : PState.ReachedBy c wp (PState.reset c.w wp) 0
  | step {ps : PState} {k : Nat} (h : PState.ReachedBy c wp ps k) (scp : Option ScPred) :
      PState.ReachedBy c wp (ps.record scp (c.get (k % c.w) (k / c.w))) (k + 1)

/-- the state the token decoder/encoder is in after `k` samples of `c` (it passes `ps.scPredict`) -/
def PState.run (c : Chan) (wp : Option Wp) : Nat → PState
  | 0 => PState.reset c.w wp
  | k + 1 =>
    let ps := PState.run c wp k
    ps.record ps.scPredict (c.get (k % c.w) (k / c.w))

theorem PState.run_reachedBy (c : Chan) (wp : Option Wp) (k : Nat) :
    PState.ReachedBy c wp (PState.run c wp k) k := by
  induction k with
  | zero => exact .init
  | succ k ih => exact .step ih _

theorem PState.ReachedBy.tracks {c : Chan} {wp : Option Wp} {ps : PState} {k : Nat}
    (hw : 1 ≤ c.w) (h : PState.ReachedBy c wp ps k) : ps.Tracks c (k % c.w) (k / c.w) := by
  induction h with
  | init =>
    simpa using PState.Tracks.init c wp hw
  | step _ scp ih =>
    have := ih.record scp
    rw [(raster_succ c.w _ hw).1, (raster_succ c.w _ hw).2] at this
    exact this

/-! ## Consequences of the invariant -/

theorem PState.Tracks.prev_nonempty {ps : PState} {c : Chan} {x y : Nat} (h : ps.Tracks c x y) :
    ps.prevRow.isEmpty = decide (y = 0) := by
  have h1 := h.prevSize
  have h2 := h.hxw
  by_cases hy : y = 0
  · simp only [hy, if_true] at h1
    simp only [hy, decide_true]
    rw [Array.isEmpty_iff_size_eq_zero]
    exact h1
  · simp only [hy, if_false] at h1
    simp only [hy, decide_false]
    rw [Bool.eq_false_iff]
    intro h3
    rw [Array.isEmpty_iff_size_eq_zero] at h3
    omega

theorem PState.Tracks.nn_eq {ps : PState} {c : Chan} {x y : Nat} (h : ps.Tracks c x y) :
    ps.nn = (neighbors c x y).nn := by
  have h1 := h.currSize
  have h2 := h.hxw
  unfold PState.nn
  rw [nb_nn, h.hx, h.hn]
  by_cases hy : y ≤ 1
  · simp only [hy, if_true] at h1
    have : ¬ y > 1 := by omega
    simp [h1, this]
  · simp only [hy, if_false] at h1
    have h3 : y > 1 := by omega
    simp only [h1, h2, h3, if_true]
    exact h.currHi x (Nat.le_refl _) h2 h3

theorem PState.Tracks.ne_eq {ps : PState} {c : Chan} {x y : Nat} (h : ps.Tracks c x y) :
    ps.ne = (neighbors c x y).ne := by
  unfold PState.ne
  rw [nb_ne, h.hx, h.hn, h.hwidth, h.prev_nonempty]
  by_cases hy : y = 0
  · simp [hy]
  · by_cases hx1 : x + 1 < c.w
    · have h3 : ¬ (x + 1 ≥ c.w) := by omega
      have h4 : y > 0 := by omega
      simp only [hy, decide_false, Bool.false_eq_true, false_or, h3, if_false, hx1, h4,
        and_self, if_true]
      exact h.prevGet _ hx1 h4
    · have h3 : x + 1 ≥ c.w := by omega
      simp [h3, hx1]

theorem PState.Tracks.nee_eq {ps : PState} {c : Chan} {x y : Nat} (h : ps.Tracks c x y) :
    ps.nee = (neighbors c x y).nee := by
  unfold PState.nee
  rw [nb_nee, h.hx, h.ne_eq, h.hwidth, h.prev_nonempty]
  by_cases hy : y = 0
  · simp [hy]
  · by_cases hx1 : x + 2 < c.w
    · have h3 : ¬ (x + 2 ≥ c.w) := by omega
      have h4 : y > 0 := by omega
      simp only [hy, decide_false, Bool.false_eq_true, false_or, h3, if_false, hx1, h4,
        and_self, if_true]
      exact h.prevGet _ hx1 h4
    · have h3 : x + 2 ≥ c.w := by omega
      simp [h3, hx1]

theorem PState.Tracks.ww_eq {ps : PState} {c : Chan} {x y : Nat} (h : ps.Tracks c x y) :
    ps.ww = (neighbors c x y).ww := by
  unfold PState.ww
  rw [nb_ww, h.hx, h.hw]
  by_cases hx2 : x ≥ 2
  · have h3 : x > 1 := by omega
    simp only [hx2, h3, if_true]
    exact h.currLo _ (by omega)
  · have h3 : ¬ x > 1 := by omega
    simp [hx2, h3]

/-- all seven neighbours -/
theorem PState.Tracks.nb_eq {ps : PState} {c : Chan} {x y : Nat} (h : ps.Tracks c x y) :
    ps.nb = neighbors c x y := by
  have e : ∀ a b : Nb, a.w = b.w → a.n = b.n → a.nw = b.nw → a.ne = b.ne → a.nn = b.nn →
      a.nee = b.nee → a.ww = b.ww → a = b := by
    intro a b h1 h2 h3 h4 h5 h6 h7
    cases a; cases b; simp_all
  exact e _ _ h.hw h.hn h.hnw h.ne_eq h.nn_eq h.nee_eq h.ww_eq

theorem PState.Tracks.prevGrad_eq {ps : PState} {c : Chan} {x y : Nat} (h : ps.Tracks c x y) :
    ps.prevGrad = prevGradSpec c x y := h.hgrad

/-- `Properties::new` from the state = the Spec property vector (all 16 entries; entry 15 is the
weighted predictor's `max_error`, which the Spec takes as a parameter) -/
theorem PState.Tracks.props_eq {ps : PState} {c : Chan} {x y : Nat} (h : ps.Tracks c x y)
    (scp : Option ScPred) :
    ps.props scp = propsSpec c x y ((scp.map (·.maxError)).getD 0) := by
  unfold PState.props propsSpec
  simp only [h.hx, h.hy, h.hw, h.hn, h.hnw, h.hgrad, h.ne_eq, h.nn_eq, h.ww_eq]

/-- every predictor reads only the seven neighbours (no invariant needed) -/
theorem predictImpl_eq_predictSpec_nb (pred : Nat) (ps : PState) (scp : Option ScPred) :
    predictImpl pred ps scp = predictSpec pred ps.nb ((scp.map (·.prediction)).getD 0) := by
  unfold predictImpl predictSpec
  split <;> rfl

theorem PState.Tracks.predict_eq {ps : PState} {c : Chan} {x y : Nat} (h : ps.Tracks c x y)
    (pred : Nat) (scp : Option ScPred) :
    predictImpl pred ps scp
      = predictSpec pred (neighbors c x y) ((scp.map (·.prediction)).getD 0) := by
  rw [predictImpl_eq_predictSpec_nb, h.nb_eq]

/-- the weighted predictor is run on the Spec neighbours `N, NW, NE, W, NN` -/
theorem PState.Tracks.scPredict_eq {ps : PState} {c : Chan} {x y : Nat} (h : ps.Tracks c x y) :
    ps.scPredict = ps.sc.map fun sc =>
      sc.predict (neighbors c x y).n (neighbors c x y).nw (neighbors c x y).ne
        (neighbors c x y).w (neighbors c x y).nn := by
  unfold PState.scPredict
  simp only [h.hw, h.hn, h.hnw, h.ne_eq, h.nn_eq]

/-! ## The reference encoder, with the predictor read from the grid

`encodeSamples` (what `encodeChannel` runs, and what `decodeSamples` provably inverts) carries the
Impl state. `encodeGrid` is the same encoder with no incremental state except the weighted
predictor's: position = raster index, neighbours / properties / prediction by `neighbors`,
`propsSpec`, `predictSpec` on the channel itself. They produce the same tokens. -/

/-- how `Properties::record` steps the optional weighted-predictor state -/
def scStep (sc : Option ScState) (scp : Option ScPred) (v : Int) : Option ScState :=
  match sc, scp with
  | some s, some p => some (s.record p v)
  | s, _ => s

theorem PState.record_sc (s : PState) (scp : Option ScPred) (v : Int) :
    (s.record scp v).sc = scStep s.sc scp v := by
  unfold PState.record scStep
  simp only []
  split <;> (try split) <;> rfl

/-- the `n` samples of `c` from raster index `k` on -/
def rasterSamples (c : Chan) (k n : Nat) : List Int :=
  (List.range n).map fun i => c.get ((k + i) % c.w) ((k + i) / c.w)

theorem rasterSamples_succ (c : Chan) (k n : Nat) :
    rasterSamples c k (n + 1) = c.get (k % c.w) (k / c.w) :: rasterSamples c (k + 1) n := by
  unfold rasterSamples
  rw [List.range_succ_eq_map, List.map_cons, List.map_map]
  congr 1
  apply List.map_congr_left
  intro i _
  simp only [Function.comp, Nat.succ_eq_add_one]
  rw [show k + (i + 1) = k + 1 + i by omega]

/-- Spec reference encoder: `n` samples from raster index `k`, weighted-predictor state `sc` -/
def encodeGrid (sb : SBits) (leafOf : LeafOf) (prev : List Chan) (c : Chan) :
    Nat → Nat → Option ScState → Option (List (Nat × Nat))
  | 0, _, _ => some []
  | n + 1, k, sc =>
    let x := k % c.w
    let y := k / c.w
    let nb := neighbors c x y
    let scp := sc.map fun s => s.predict nb.n nb.nw nb.ne nb.w nb.nn
    match leafOf (propsFn (propsSpec c x y ((scp.map (·.maxError)).getD 0)) prev x y) with
    | none => none
    | some leaf =>
      match encodeResidual sb leaf (predictSpec leaf.pred nb ((scp.map (·.prediction)).getD 0))
          (c.get x y) with
      | none => none
      | some tok =>
        match encodeGrid sb leafOf prev c n (k + 1) (scStep sc scp (c.get x y)) with
        | none => none
        | some out => some ((leaf.ctx, tok) :: out)

theorem encodeSamples_eq_encodeGrid (sb : SBits) (leafOf : LeafOf) (prev : List Chan) (c : Chan)
    (hw : 1 ≤ c.w) : ∀ (n k : Nat) (ps : PState), ps.Tracks c (k % c.w) (k / c.w) →
      encodeSamples sb leafOf prev (rasterSamples c k n) ps
        = encodeGrid sb leafOf prev c n k ps.sc := by
  intro n
  induction n with
  | zero => intro k ps _; rfl
  | succ n ih =>
    intro k ps h
    have hnext : (ps.record ps.scPredict (c.get (k % c.w) (k / c.w))).Tracks c
        ((k + 1) % c.w) ((k + 1) / c.w) := by
      have := h.record ps.scPredict
      rw [(raster_succ c.w _ hw).1, (raster_succ c.w _ hw).2] at this
      exact this
    have ih' := ih (k + 1) _ hnext
    rw [PState.record_sc] at ih'
    rw [rasterSamples_succ]
    simp only [encodeSamples, encodeGrid]
    rw [h.props_eq, h.hx, h.hy]
    simp only [h.predict_eq]
    rw [h.scPredict_eq] at ih' ⊢
    rw [ih']
    rfl

theorem Chan.toList_eq_rasterSamples (c : Chan) (hsz : c.data.size = c.w * c.h) :
    c.data.toList = rasterSamples c 0 (c.w * c.h) := by
  apply List.ext_getElem
  · simp [rasterSamples, hsz]
  · intro i h1 h2
    have hi : i < c.data.size := by simpa using h1
    simp only [rasterSamples, List.getElem_map, List.getElem_range, Nat.zero_add, Chan.get,
      Array.getElem_toList]
    rw [Nat.mul_comm, Nat.div_add_mod]
    simp [Array.getD_eq_getD_getElem?, hi]

/-- `encodeChannel` (Impl state) = `encodeGrid` (Spec neighbours) on a well-formed channel -/
theorem encodeChannel_eq_encodeGrid (sb : SBits) (tree : Tree) (wp : Wp) (chanIdx stream : Nat)
    (c : Chan) (prevSame : List Chan) (hw : 1 ≤ c.w) (hsz : c.data.size = c.w * c.h) :
    encodeChannel sb tree wp chanIdx stream c prevSame
      = encodeGrid sb (specLeafOf tree chanIdx stream prevSame.length) prevSame c (c.w * c.h) 0
          ((if tree.usesProp 15 || tree.usesPred 6 then some wp else none).map
            (ScState.new c.w)) := by
  unfold encodeChannel
  simp only []
  rw [c.toList_eq_rasterSamples hsz]
  exact encodeSamples_eq_encodeGrid sb _ prevSame c hw (c.w * c.h) 0 _
    (by simpa using PState.Tracks.init c _ hw)

/-! ## The decoder, with the predictor read from the grid of decoded samples

The invariant depends on the channel only at positions before `(x, y)` in raster order
(`PState.Tracks.congr`), so it can be carried along a grid that is filled while decoding:
`decodeGrid` is the token decoder with no incremental state except the weighted predictor's
(position = number of samples decoded, neighbours / properties / prediction by `neighbors`,
`propsSpec`, `predictSpec` on the samples decoded so far); `decodeSamples` (Impl state) computes
the same samples, consumes the same tokens and ends in the same weighted-predictor state. -/

/-- raster-earlier positions -/
def Before (x y i j : Nat) : Prop := j < y ∨ (j = y ∧ i < x)

theorem neighbors_cached_congr {c c' : Chan} {x y : Nat} (_hw : c'.w = c.w) (hx : x < c.w)
    (hag : ∀ i j, i < c.w → Before x y i j → c'.get i j = c.get i j) :
    (neighbors c' x y).w = (neighbors c x y).w ∧ (neighbors c' x y).n = (neighbors c x y).n ∧
    (neighbors c' x y).nw = (neighbors c x y).nw := by
  have h1 : x > 0 → c'.get (x - 1) y = c.get (x - 1) y := fun h =>
    hag _ _ (by omega) (Or.inr ⟨rfl, by omega⟩)
  have h2 : y > 0 → c'.get x (y - 1) = c.get x (y - 1) := fun h =>
    hag _ _ hx (Or.inl (by omega))
  have h3 : x > 0 → y > 0 → c'.get (x - 1) (y - 1) = c.get (x - 1) (y - 1) := fun h h' =>
    hag _ _ (by omega) (Or.inl (by omega))
  simp only [nb_w, nb_n, nb_nw]
  refine ⟨?_, ?_, ?_⟩ <;> grind

theorem PState.Tracks.congr {ps : PState} {c c' : Chan} {x y : Nat} (h : ps.Tracks c x y)
    (hw : c'.w = c.w)
    (hag : ∀ i j, i < c.w → Before x y i j → c'.get i j = c.get i j) :
    ps.Tracks c' x y := by
  obtain ⟨h1, h2, h3⟩ := neighbors_cached_congr hw h.hxw hag
  constructor
  · rw [hw]; exact h.hwidth
  · rw [hw]; exact h.hxw
  · exact h.hx
  · exact h.hy
  · rw [h1]; exact h.hw
  · rw [h2]; exact h.hn
  · rw [h3]; exact h.hnw
  · rw [h.hgrad]
    by_cases hx0 : x > 0
    · simp only [hx0, if_true]
      have hxw := h.hxw
      obtain ⟨g1, g2, g3⟩ := neighbors_cached_congr (x := x - 1) (y := y) hw (by omega)
        (fun i j hi hb => hag i j hi (by unfold Before at *; omega))
      simp only [gradProp, g1, g2, g3]
    · simp only [hx0, if_false]
  · rw [hw]; exact h.prevSize
  · intro i hi hy
    rw [hw] at hi
    rw [h.prevGet i hi hy, hag i _ hi (Or.inl (by omega))]
  · rw [hw]; exact h.currSize
  · intro i hi
    rw [h.currLo i hi, hag i _ (by have := h.hxw; omega) (Or.inr ⟨rfl, hi⟩)]
  · intro i hi hi2 hy
    rw [hw] at hi2
    rw [h.currHi i hi hi2 hy, hag i _ hi2 (Or.inl (by omega))]

theorem before_raster_lt {w x y i j : Nat} (hi : i < w) (hb : Before x y i j) :
    j * w + i < y * w + x := by
  rcases hb with hb | ⟨rfl, hb⟩
  · have h1 : (j + 1) * w ≤ y * w := Nat.mul_le_mul_right w hb
    rw [Nat.succ_mul] at h1
    omega
  · omega

/-- the channel view of the samples decoded so far (later positions read as 0, and are never read) -/
def partialChan (w h : Nat) (acc : Array Int) : Chan := { w, h, data := acc }

/-- Spec decoder: `n` more samples after the `acc.size` already decoded; position = raster index,
neighbours / properties / prediction read from the grid of decoded samples. -/
def decodeGrid (sb : SBits) (leafOf : LeafOf) (prev : List Chan) (w h : Nat) :
    Nat → Array Int → Option ScState → List Nat → Option (Array Int × List Nat × Option ScState)
  | 0, acc, sc, toks => some (acc, toks, sc)
  | n + 1, acc, sc, toks =>
    let c := partialChan w h acc
    let x := acc.size % w
    let y := acc.size / w
    let nb := neighbors c x y
    let scp := sc.map fun s => s.predict nb.n nb.nw nb.ne nb.w nb.nn
    match leafOf (propsFn (propsSpec c x y ((scp.map (·.maxError)).getD 0)) prev x y), toks with
    | some leaf, tok :: rest =>
      let v := sampleOf sb leaf (predictSpec leaf.pred nb ((scp.map (·.prediction)).getD 0)) tok
      decodeGrid sb leafOf prev w h n (acc.push v) (scStep sc scp v) rest
    | _, _ => none

theorem partialChan_get_push (w h : Nat) (acc : Array Int) (v : Int) (i j : Nat) :
    (partialChan w h (acc.push v)).get i j
      = if j * w + i = acc.size then v else (partialChan w h acc).get i j := by
  simp only [partialChan, Chan.get, getD_push]

theorem PState.Tracks.push {ps : PState} {w h : Nat} {acc : Array Int} (hw : 1 ≤ w)
    (ht : ps.Tracks (partialChan w h acc) (acc.size % w) (acc.size / w)) (scp : Option ScPred)
    (v : Int) :
    (ps.record scp v).Tracks (partialChan w h (acc.push v))
      ((acc.push v).size % w) ((acc.push v).size / w) := by
  have hk : acc.size / w * w + acc.size % w = acc.size := by
    rw [Nat.mul_comm]; exact Nat.div_add_mod _ _
  have hlt : acc.size % w < w := Nat.mod_lt _ (by omega)
  have h1 : ps.Tracks (partialChan w h (acc.push v)) (acc.size % w) (acc.size / w) := by
    apply ht.congr (c' := partialChan w h (acc.push v)) rfl
    intro i j hi hb
    have := before_raster_lt (w := w) hi hb
    rw [partialChan_get_push]
    have hne : ¬ (j * w + i = acc.size) := by omega
    simp only [hne, if_false]
  have h2 : (partialChan w h (acc.push v)).get (acc.size % w) (acc.size / w) = v := by
    rw [partialChan_get_push]
    simp only [hk, if_true]
  have h3 := h1.record scp
  rw [h2] at h3
  have hcw : (partialChan w h (acc.push v)).w = w := rfl
  rw [hcw, (raster_succ w _ hw).1, (raster_succ w _ hw).2] at h3
  rw [Array.size_push]
  exact h3

theorem decodeSamples_eq_decodeGrid (sb : SBits) (leafOf : LeafOf) (prev : List Chan) (w h : Nat)
    (hw : 1 ≤ w) : ∀ (n : Nat) (acc : Array Int) (ps : PState) (toks : List Nat),
      ps.Tracks (partialChan w h acc) (acc.size % w) (acc.size / w) →
      (decodeSamples sb leafOf prev n ps toks).map
          (fun r => (acc ++ r.1.toArray, r.2.1, r.2.2.sc))
        = decodeGrid sb leafOf prev w h n acc ps.sc toks := by
  intro n
  induction n with
  | zero => intro acc ps toks _; simp [decodeSamples, decodeGrid]
  | succ n ih =>
    intro acc ps toks ht
    simp only [decodeSamples, decodeGrid]
    rw [ht.props_eq, ht.hx, ht.hy]
    simp only [ht.predict_eq]
    rw [ht.scPredict_eq]
    generalize leafOf _ = L
    cases L with
    | none => cases toks <;> rfl
    | some leaf =>
      cases toks with
      | nil => rfl
      | cons tok rest =>
        simp only []
        have := ih _ _ rest (ht.push hw (ps.scPredict) (sampleOf sb leaf
          (predictSpec leaf.pred (neighbors (partialChan w h acc) (acc.size % w) (acc.size / w))
            ((Option.map (fun x => x.prediction) ps.scPredict).getD 0)) tok))
        rw [PState.record_sc, ht.scPredict_eq] at this
        rw [← this]
        generalize decodeSamples _ _ _ _ _ _ = D
        generalize sampleOf _ _ _ _ = v
        cases D with
        | none => rfl
        | some r =>
          obtain ⟨vs, t, p⟩ := r
          simp

/-- `decodeChannel` with the predictor read from the grid of decoded samples (Spec) -/
def decodeChannelGrid (sb : SBits) (tree : Tree) (wp : Wp) (chanIdx stream : Nat)
    (info : ChanInfo) (prevSame : List Chan) (tokens : List Nat) : Option (Chan × List Nat) :=
  let flat := flatten chanIdx stream prevSame.length tree
  let wpo := if flatUsesSC flat then some wp else none
  let prev := prevSame.take (flatMaxPrev flat)
  match decodeGrid sb (fun props => getLeaf flat props) prev info.w info.h (info.w * info.h) #[]
      (wpo.map (ScState.new info.w)) tokens with
  | none => none
  | some (a, toks, _) => some ({ w := info.w, h := info.h, data := a }, toks)

theorem decodeChannel_eq_decodeChannelGrid (sb : SBits) (tree : Tree) (wp : Wp)
    (chanIdx stream : Nat) (info : ChanInfo) (prevSame : List Chan) (tokens : List Nat)
    (hw : 1 ≤ info.w) :
    decodeChannel sb tree wp chanIdx stream info prevSame tokens
      = decodeChannelGrid sb tree wp chanIdx stream info prevSame tokens := by
  unfold decodeChannel decodeChannelGrid
  simp only []
  generalize (if flatUsesSC _ = true then some wp else none) = wpo
  have ht : (PState.reset info.w wpo).Tracks (partialChan info.w info.h #[])
      ((#[] : Array Int).size % info.w) ((#[] : Array Int).size / info.w) := by
    have h0 := PState.Tracks.init (partialChan info.w info.h #[]) wpo hw
    rw [show (partialChan info.w info.h #[]).w = info.w from rfl] at h0
    simpa using h0
  have := decodeSamples_eq_decodeGrid sb
    (fun props => getLeaf (flatten chanIdx stream prevSame.length tree) props)
    (prevSame.take (flatMaxPrev (flatten chanIdx stream prevSame.length tree)))
    info.w info.h hw (info.w * info.h) #[] _ tokens ht
  rw [show Option.map (ScState.new info.w) wpo = (PState.reset info.w wpo).sc from rfl, ← this]
  generalize decodeSamples _ _ _ _ _ _ = D
  cases D with
  | none => rfl
  | some r =>
    obtain ⟨vs, t, p⟩ := r
    simp

/-- Spec-level round trip: the grid decoder inverts the grid encoder (through the Impl pair
`encodeSamples` / `decodeSamples` and the two refinement theorems) -/
theorem grid_roundtrip (sb : SBits) (leafOf : LeafOf) (prev : List Chan) (c : Chan)
    (wpo : Option Wp) (out : List (Nat × Nat)) (rest : List Nat)
    (hw : 1 ≤ c.w) (hsz : c.data.size = c.w * c.h)
    (h : encodeGrid sb leafOf prev c (c.w * c.h) 0 (wpo.map (ScState.new c.w)) = some out) :
    ∃ sc', decodeGrid sb leafOf prev c.w c.h (c.w * c.h) #[] (wpo.map (ScState.new c.w))
      (out.map (·.2) ++ rest) = some (c.data, rest, sc') := by
  have hinit : (PState.reset c.w wpo).Tracks c (0 % c.w) (0 / c.w) := by
    simpa using PState.Tracks.init c wpo hw
  have he : encodeSamples sb leafOf prev c.data.toList (PState.reset c.w wpo) = some out := by
    rw [c.toList_eq_rasterSamples hsz, encodeSamples_eq_encodeGrid sb leafOf prev c hw _ 0 _ hinit]
    exact h
  obtain ⟨ps', hd⟩ := decode_encode_samples sb leafOf prev c.data.toList _ out rest he
  have ht : (PState.reset c.w wpo).Tracks (partialChan c.w c.h #[])
      ((#[] : Array Int).size % c.w) ((#[] : Array Int).size / c.w) := by
    have h0 := PState.Tracks.init (partialChan c.w c.h #[]) wpo hw
    rw [show (partialChan c.w c.h #[]).w = c.w from rfl] at h0
    simpa using h0
  have hg := decodeSamples_eq_decodeGrid sb leafOf prev c.w c.h hw c.data.toList.length #[] _
    (out.map (·.2) ++ rest) ht
  rw [hd] at hg
  refine ⟨ps'.sc, ?_⟩
  rw [show c.w * c.h = c.data.toList.length by simp [hsz],
    show Option.map (ScState.new c.w) wpo = (PState.reset c.w wpo).sc from rfl, ← hg]
  simp

/-! ## The fast path never reads out of range -/

/-- `properties::<false>` is used for `2 ≤ x < width - 2`, `y ≥ 2` (`image.rs`, `row_middle`) -/
theorem PState.Tracks.fast_eq {ps : PState} {c : Chan} {x y : Nat} (h : ps.Tracks c x y)
    (hx2 : 2 ≤ x) (hxr : x + 2 < c.w) (hy2 : 2 ≤ y) :
    ps.nnF = some (neighbors c x y).nn ∧ ps.neF = some (neighbors c x y).ne ∧
    ps.neeF = some (neighbors c x y).nee ∧ ps.wwF = some (neighbors c x y).ww := by
  have hcs : ps.currRow.size = c.w := by
    have := h.currSize
    have h1 : ¬ y ≤ 1 := by omega
    simpa only [h1, if_false] using this
  have hps : ps.prevRow.size = c.w := by
    have := h.prevSize
    have h1 : ¬ y = 0 := by omega
    simpa only [h1, if_false] using this
  have hx1 : x + 1 < c.w := by omega
  have hy0 : y > 0 := by omega
  have hy1 : y > 1 := by omega
  have hxg : x > 1 := by omega
  refine ⟨?_, ?_, ?_, ?_⟩
  · unfold PState.nnF
    rw [h.hx, getElem?_eq_some_getD _ _ 0 (by omega), h.currHi x (Nat.le_refl _) h.hxw hy2, nb_nn]
    simp only [hy1, if_true]
  · unfold PState.neF
    rw [h.hx, getElem?_eq_some_getD _ _ 0 (by omega), h.prevGet _ hx1 hy0, nb_ne]
    simp only [hx1, hy0, and_self, if_true]
  · unfold PState.neeF
    rw [h.hx, getElem?_eq_some_getD _ _ 0 (by omega), h.prevGet _ hxr hy0, nb_nee]
    simp only [hxr, hy0, and_self, if_true]
  · unfold PState.wwF
    rw [h.hx]
    simp only [hx2, if_true]
    rw [getElem?_eq_some_getD _ _ 0 (by omega), h.currLo _ (by omega), nb_ww]
    simp only [hxg, if_true]

/-- the direct (panicking) indexings of the Rust that the model writes with `getD` are in range:
`curr_row[x - 2]` in `ww::<true>` (`x ≥ 2`), `prev_row[x + 1]` in `Properties::record` (not the
last column, `prev_row` non-empty), and `prev_row[0]` after the swap at the row end (there
`prev_row` is the row just completed, of size `x + 1` or `width`). -/
theorem PState.Tracks.record_reads_in_range {ps : PState} {c : Chan} {x y : Nat}
    (h : ps.Tracks c x y) :
    (2 ≤ ps.x → ps.x - 2 < ps.currRow.size) ∧
    (ps.x + 1 < ps.width → ps.prevRow.isEmpty = false → ps.x + 1 < ps.prevRow.size) ∧
    (∀ v, 0 < (if ps.x < ps.currRow.size then ps.currRow.setIfInBounds ps.x v
                else ps.currRow.push v).size) := by
  have h1 := h.currSize
  have h2 := h.prevSize
  have h3 := h.hxw
  have h4 := h.prev_nonempty
  rw [h.hx, h.hwidth]
  refine ⟨?_, ?_, ?_⟩
  · intro hx2
    by_cases hy : y ≤ 1
    · simp only [hy, if_true] at h1; omega
    · simp only [hy, if_false] at h1; omega
  · intro hx1 hne
    rw [hne] at h4
    have hy : ¬ y = 0 := by
      intro hy; simp [hy] at h4
    simp only [hy, if_false] at h2
    omega
  · intro v
    split
    · rw [Array.size_setIfInBounds]; omega
    · rw [Array.size_push]; omega

end Jxl.Modular
