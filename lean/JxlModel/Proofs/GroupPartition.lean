import JxlModel.Model.Enc.Frame
import JxlModel.Proofs.TransformChain
/-!
# Group partition (property C03): cutting channels into group pieces and pasting them back

`groupPieceChans` / `pasteGroups` (`Model/Enc/Frame.lean`) are the split the reference encoder
applies to the non-global channels (`prepare_groups`) and the reassembly of the decoded pieces.
-/
namespace Jxl.Enc
open Jxl.Modular

/-- position of the image of `l[i]` in `l.filterMap f`: the number of earlier elements that `f` keeps -/
theorem filterMap_getD_count {α β} (f : α → Option β) (l : List α) (i : Nat) (a : α) (v dv : β)
    (p : Nat → Bool) (hi : l[i]? = some a) (hf : f a = some v)
    (hp : ∀ j b, j < i → l[j]? = some b → p j = (f b).isSome) :
    (l.filterMap f).getD ((List.range i).filter p).length dv = v := by
  induction l generalizing i p with
  | nil => simp at hi
  | cons a0 l ih =>
    cases i with
    | zero =>
      simp only [List.getElem?_cons_zero, Option.some.injEq] at hi
      subst hi
      simp [hf]
    | succ i =>
      simp only [List.getElem?_cons_succ] at hi
      have hp' : ∀ j b, j < i → l[j]? = some b → (p ∘ Nat.succ) j = (f b).isSome := by
        intro j b hj hb
        exact hp (j + 1) b (by omega) (by simpa using hb)
      have ih' := ih i (p ∘ Nat.succ) hi hp'
      have h0 : p 0 = (f a0).isSome := hp 0 a0 (by omega) (by simp)
      rw [List.range_succ_eq_map, List.filter_cons, List.filter_map, h0]
      cases hfa : f a0 with
      | none =>
        simp only [Option.isSome_none, Bool.false_eq_true, if_false, List.length_map,
          List.filterMap_cons, hfa]
        exact ih'
      | some v0 =>
        simp only [Option.isSome_some, if_true, List.length_cons, List.length_map,
          List.filterMap_cons, hfa, List.getD_cons_succ]
        exact ih'

/-- hypotheses of the group-partition theorem, per non-global channel: buffer well-formed with the
dimensions of its info, non-zero group cell (`groupDim / 2^shift`), and the group columns cover
the channel's width -/
def groupLayoutOk (groupDim gcols : Nat) (restCh : List (ChanInfo × Chan)) : Bool :=
  restCh.all fun p =>
    p.2.wf && p.2.w == p.1.w && p.2.h == p.1.h &&
      decide (0 < groupDim / 2 ^ p.1.hshift.toNat) && decide (0 < groupDim / 2 ^ p.1.vshift.toNat) &&
      decide (p.1.w ≤ gcols * (groupDim / 2 ^ p.1.hshift.toNat))

/-- the function `groupPieceChans` maps over the channels -/
def groupPieceOf (groupDim gcols g : Nat) (p : ChanInfo × Chan) : Option (ChanInfo × Chan) :=
  if min (groupDim / 2 ^ p.1.hshift.toNat) (p.1.w - g % gcols * (groupDim / 2 ^ p.1.hshift.toNat)) == 0 ∨
      min (groupDim / 2 ^ p.1.vshift.toNat) (p.1.h - g / gcols * (groupDim / 2 ^ p.1.vshift.toNat)) == 0 then none
  else some
    ({ p.1 with
        w := min (groupDim / 2 ^ p.1.hshift.toNat) (p.1.w - g % gcols * (groupDim / 2 ^ p.1.hshift.toNat)),
        h := min (groupDim / 2 ^ p.1.vshift.toNat) (p.1.h - g / gcols * (groupDim / 2 ^ p.1.vshift.toNat)) },
      p.2.crop (g % gcols * (groupDim / 2 ^ p.1.hshift.toNat)) (g / gcols * (groupDim / 2 ^ p.1.vshift.toNat))
        (min (groupDim / 2 ^ p.1.hshift.toNat) (p.1.w - g % gcols * (groupDim / 2 ^ p.1.hshift.toNat)))
        (min (groupDim / 2 ^ p.1.vshift.toNat) (p.1.h - g / gcols * (groupDim / 2 ^ p.1.vshift.toNat))))

theorem groupPieceChans_eq (groupDim gcols : Nat) (restCh : List (ChanInfo × Chan)) (g : Nat) :
    groupPieceChans groupDim gcols restCh g = restCh.filterMap (groupPieceOf groupDim gcols g) := rfl

theorem groupPieceOf_isSome (groupDim gcols g : Nat) (p : ChanInfo × Chan) :
    ((groupPieceOf groupDim gcols g p).map (·.2)).isSome = groupPieceNonEmpty groupDim gcols p.1 g := by
  unfold groupPieceOf groupPieceNonEmpty
  split
  · rename_i h
    rcases h with h | h
    · simp only [beq_iff_eq] at h; simp [h]
    · simp only [beq_iff_eq] at h; simp [h]
  · rename_i h
    simp only [not_or, beq_iff_eq] at h
    simp [h.1, h.2]

/-- one pixel: the pasted value is the channel's sample -/
theorem paste_pixel (groupDim gcols : Nat) (restCh : List (ChanInfo × Chan)) (ci : Nat)
    (inf : ChanInfo) (c : Chan) (hci : restCh[ci]? = some (inf, c))
    (hw : c.w = inf.w) (hh : c.h = inf.h)
    (hgw : 0 < groupDim / 2 ^ inf.hshift.toNat) (hgh : 0 < groupDim / 2 ^ inf.vshift.toNat)
    (hcols : inf.w ≤ gcols * (groupDim / 2 ^ inf.hshift.toNat))
    (x y : Nat) (hx : x < c.w) (hy : y < c.h) :
    (match (fun g => some ((groupPieceChans groupDim gcols restCh g).map (·.2)))
        ((y / (groupDim / 2 ^ inf.vshift.toNat)) * gcols + x / (groupDim / 2 ^ inf.hshift.toNat)) with
      | some chs =>
        (chs.getD ((List.range ci).filter fun cj =>
            groupPieceNonEmpty groupDim gcols ((restCh.map (·.1)).getD cj default)
              ((y / (groupDim / 2 ^ inf.vshift.toNat)) * gcols + x / (groupDim / 2 ^ inf.hshift.toNat))).length
          default).get (x % (groupDim / 2 ^ inf.hshift.toNat)) (y % (groupDim / 2 ^ inf.vshift.toNat))
      | none => 0) = c.get x y := by
  generalize hgwd : groupDim / 2 ^ inf.hshift.toNat = gw at *
  generalize hghd : groupDim / 2 ^ inf.vshift.toNat = gh at *
  have hxg : x / gw < gcols := by
    apply Nat.div_lt_of_lt_mul
    rw [Nat.mul_comm] at hcols
    omega
  have hgc : 0 < gcols := Nat.lt_of_le_of_lt (Nat.zero_le _) hxg
  have hmod : (y / gh * gcols + x / gw) % gcols = x / gw := by
    rw [Nat.add_comm, Nat.add_mul_mod_self_right, Nat.mod_eq_of_lt hxg]
  have hdiv : (y / gh * gcols + x / gw) / gcols = y / gh := by
    rw [Nat.add_comm, Nat.add_mul_div_right _ _ hgc, Nat.div_eq_of_lt hxg, Nat.zero_add]
  generalize hg : y / gh * gcols + x / gw = g at *
  simp only []
  rw [groupPieceChans_eq, List.map_filterMap]
  have hx0 : x / gw * gw + x % gw = x := by rw [Nat.mul_comm]; exact Nat.div_add_mod x gw
  have hy0 : y / gh * gh + y % gh = y := by rw [Nat.mul_comm]; exact Nat.div_add_mod y gh
  have hxm : x % gw < gw := Nat.mod_lt _ hgw
  have hym : y % gh < gh := Nat.mod_lt _ hgh
  have hm1 : x % gw < min gw (inf.w - x / gw * gw) := by
    rw [Nat.lt_min]; omega
  have hm2 : y % gh < min gh (inf.h - y / gh * gh) := by
    rw [Nat.lt_min]; omega
  have hf : (fun a => (groupPieceOf groupDim gcols g a).map (·.2)) (inf, c)
      = some (c.crop (x / gw * gw) (y / gh * gh) (min gw (inf.w - x / gw * gw)) (min gh (inf.h - y / gh * gh))) := by
    simp only [groupPieceOf, hgwd, hghd, hmod, hdiv]
    have n1 : ¬ (min gw (inf.w - x / gw * gw) = 0) := by omega
    have n2 : ¬ (min gh (inf.h - y / gh * gh) = 0) := by omega
    simp [n1, n2]
  rw [filterMap_getD_count _ restCh ci (inf, c) _ default _ hci hf]
  · unfold Chan.crop
    rw [Chan.get_ofFn _ _ _ _ _ hm1 hm2, hx0, hy0]
  · intro j b hj hb
    rw [groupPieceOf_isSome]
    congr 1
    simp [List.getD_eq_getElem?_getD, hb]

/-- cutting the non-global channels into group pieces and pasting the pieces back gives the channels -/
theorem pasteGroups_groupPieces (groupDim gcols : Nat) (restCh : List (ChanInfo × Chan))
    (hok : groupLayoutOk groupDim gcols restCh = true) :
    pasteGroups groupDim gcols (restCh.map (·.1))
      (fun g => some ((groupPieceChans groupDim gcols restCh g).map (·.2))) = restCh.map (·.2) := by
  simp only [groupLayoutOk, List.all_eq_true, Bool.and_eq_true, beq_iff_eq, decide_eq_true_eq] at hok
  unfold pasteGroups
  apply List.ext_getElem
  · simp
  · intro ci h1 h2
    simp at h1
    have hci : restCh[ci]? = some (restCh[ci].1, restCh[ci].2) := by
      rw [List.getElem?_eq_getElem h1]
    obtain ⟨⟨⟨⟨⟨hwf, hw⟩, hh⟩, hgw⟩, hgh⟩, hcols⟩ := hok restCh[ci] (List.getElem_mem h1)
    have hinf : (restCh.map (·.1)).getD ci default = restCh[ci].1 := by
      simp [List.getD_eq_getElem?_getD, h1]
    simp only [List.getElem_map, List.getElem_range, hinf]
    unfold pasteChan
    rw [← hw, ← hh]
    conv => rhs; rw [← Chan.ofFn_get restCh[ci].2 hwf]
    apply Chan.ofFn_congr
    intro i hi
    have hwpos : 0 < restCh[ci].2.w := by
      rcases Nat.eq_zero_or_pos restCh[ci].2.w with h0 | h0
      · rw [h0] at hi; omega
      · exact h0
    exact paste_pixel groupDim gcols restCh ci restCh[ci].1 restCh[ci].2 hci hw hh hgw hgh hcols
      (i % restCh[ci].2.w) (i / restCh[ci].2.w) (Nat.mod_lt _ hwpos) (Nat.div_lt_of_lt_mul hi)


theorem le_ceilDiv_mul (a b : Nat) (hb : 0 < b) : a ≤ ceilDiv a b * b := by
  unfold ceilDiv
  have h := Nat.div_add_mod (a + b - 1) b
  have hm := Nat.mod_lt (a + b - 1) hb
  rw [Nat.mul_comm] at h
  omega

theorem ceilDiv_le_of_le_mul (a b n : Nat) (hb : 0 < b) (h : a ≤ n * b) : ceilDiv a b ≤ n := by
  unfold ceilDiv
  apply Nat.le_of_lt_succ
  apply Nat.div_lt_of_lt_mul
  rw [Nat.mul_succ, Nat.mul_comm b n]
  omega

/-- the group columns cover every channel of the natural shape: a channel of width
`⌈cw / 2^s⌉` (shift `s`), group cell `groupDim / 2^s` with `2^s` dividing `groupDim`, and
`⌈cw / groupDim⌉` group columns -/
theorem group_columns_cover (cw groupDim s : Nat) (hdvd : 2 ^ s ∣ groupDim) (hg : 0 < groupDim) :
    0 < groupDim / 2 ^ s ∧ ceilDiv cw (2 ^ s) ≤ ceilDiv cw groupDim * (groupDim / 2 ^ s) := by
  obtain ⟨q, rfl⟩ := hdvd
  have hp : 0 < 2 ^ s := Nat.pow_pos (by omega)
  have hq : 0 < q := by
    rcases Nat.eq_zero_or_pos q with h0 | h0
    · rw [h0] at hg; simp at hg
    · exact h0
  rw [Nat.mul_div_cancel_left q hp]
  refine ⟨hq, ?_⟩
  apply ceilDiv_le_of_le_mul _ _ _ hp
  have := le_ceilDiv_mul cw (2 ^ s * q) hg
  calc cw ≤ ceilDiv cw (2 ^ s * q) * (2 ^ s * q) := this
    _ = ceilDiv cw (2 ^ s * q) * q * 2 ^ s := by rw [Nat.mul_comm (2 ^ s) q, Nat.mul_assoc]


end Jxl.Enc
