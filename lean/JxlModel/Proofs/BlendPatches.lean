import JxlModel.Proofs.Blend
/-!
# The patch-aware fold and the compositor

`Px.keyframesP` (frames with patch dictionaries) is written as a direct fold over the frames.
On images without patches it is the sequential compositor `Px.keyframes` (= `Spec.run` on
`mkCfg`), the one the C05 theorems speak about.
-/
namespace Jxl.Blend.Px
open Jxl.Blend Jxl.Blend.Spec

variable {α : Type} [Scalar α]

/-- wrap a frame without patches -/
def noPatch (f : Frame α) : FrameP α := { frame := f, patches := [] }

theorem applyPatches_nil (img : ImgInfo) (srcOf : Nat → List (Plane α)) (chans : List (Plane α)) :
    applyPatches img srcOf [] chans = chans := rfl

theorem cutAtLastP_noPatch (fs : List (Frame α)) :
    cutAtLastP (fs.map noPatch) = (cutAtLast fs).map noPatch := by
  induction fs with
  | nil => rfl
  | cons f fs ih =>
    simp only [List.map_cons, cutAtLastP, cutAtLast, noPatch]
    split
    · simp [noPatch]
    · simp only [List.map_cons, List.cons.injEq]
      exact ⟨rfl, ih⟩

/-- the two states carry the same slots and keyframes -/
def Rel (s : State (Canvas α)) (p : PState α) : Prop := s.slots = p.slots ∧ s.keys = p.keys

/-- one step of the patch-aware fold on a patch-free frame is the compositor's step, provided the
compositor looks the frame up at its own index -/
theorem stepP_noPatch (img : ImgInfo) (C : Cfg (Canvas α)) (f : Frame α) (s : State (Canvas α)) (p : PState α)
    (hC : C.img = img) (hc : C.compose s.count = blendFrame img id f) (h : Rel s p) :
    Rel (step C s f.hdr) (stepP img p (noPatch f)) := by
  obtain ⟨h1, h2⟩ := h
  unfold Rel step stepP noPatch
  simp only [applyPatches_nil, hc, hC, h1, h2]
  exact ⟨trivial, trivial⟩

/-- the fold over a suffix, with the frames before it already composed -/
theorem fold_noPatch (img : ImgInfo) (all : List (Frame α)) (C : Cfg (Canvas α))
    (hC : C.img = img) (hcomp : ∀ i, C.compose i = blendFrame img id (all.getD i {})) :
    ∀ (suf pre : List (Frame α)), all = pre ++ suf → ∀ (s : State (Canvas α)) (p : PState α),
      s.count = pre.length → Rel s p →
      Rel ((suf.map (·.hdr)).foldl (step C) s) ((suf.map noPatch).foldl (stepP img) p) := by
  intro suf
  induction suf with
  | nil => intro pre _ s p _ h; exact h
  | cons f suf ih =>
    intro pre hall s p hcnt h
    simp only [List.map_cons, List.foldl_cons]
    have hget : all.getD s.count {} = f := by
      rw [hall, hcnt]
      simp [List.getD_eq_getElem?_getD]
    have hc : C.compose s.count = blendFrame img id f := by rw [hcomp, hget]
    have hstep := stepP_noPatch img C f s p hC hc h
    refine ih (pre ++ [f]) (by simp [hall]) _ _ ?_ hstep
    simp [step, hcnt]

/-- **On an image without patches the patch-aware fold is the sequential compositor.** -/
theorem keyframesP_noPatch (img : ImgInfo) (fs : List (Frame α)) :
    keyframesP img (fs.map noPatch) = keyframes img fs := by
  unfold keyframesP keyframes
  rw [cutAtLastP_noPatch]
  have h := fold_noPatch img (cutAtLast fs) (mkCfg img id fs) rfl (fun i => rfl)
    (cutAtLast fs) [] (by simp) {} {} rfl ⟨rfl, rfl⟩
  have hh : (mkCfg img id fs).hdrs = (cutAtLast fs).map (·.hdr) := rfl
  simp only [Spec.run, hh]
  exact h.2.symm

/-- **Pixel meaning of one patch target.** At a position of the frame inside the target rectangle
every channel gets its component of `patchPixel` (the patch blend rule applied channel by channel to
the frame's samples there and the source's samples at the corresponding position of the source
rectangle); outside the rectangle the frame is untouched. -/
theorem applyTarget_sample (img : ImgInfo) (src : List (Plane α)) (p : PatchRef) (t : PatchTarget)
    (chans : List (Plane α)) (c x y : Nat) (hc : c < chans.length)
    (hx : x < (chans.getD c {}).w) (hy : y < (chans.getD c {}).h) :
    ((applyTarget img src p t chans).getD c {}).get x y =
      (let ix := (x : Int) - t.x
       let iy := (y : Int) - t.y
       if 0 ≤ ix ∧ ix < p.w ∧ 0 ≤ iy ∧ iy < p.h then
         (patchPixel img.colorChannels img.ecAlphaAssoc t.infos (chans.map fun q => q.get x y)
            (src.map fun q => q.get (p.x0 + ix.toNat) (p.y0 + iy.toNat))).getD c Scalar.zero
       else (chans.getD c {}).get x y) := by
  unfold applyTarget
  rw [List.getD_eq_getElem?_getD, List.getElem?_map, List.getElem?_range hc]
  simp only [Option.map_some, Option.getD_some]
  rw [Plane.get_ofFn _ _ _ _ _ hx hy]

/-- a target keeps the size of every channel -/
theorem applyTarget_dims (img : ImgInfo) (src : List (Plane α)) (p : PatchRef) (t : PatchTarget)
    (chans : List (Plane α)) (c : Nat) (hc : c < chans.length) :
    ((applyTarget img src p t chans).getD c {}).w = (chans.getD c {}).w ∧
    ((applyTarget img src p t chans).getD c {}).h = (chans.getD c {}).h := by
  unfold applyTarget
  rw [List.getD_eq_getElem?_getD, List.getElem?_map, List.getElem?_range hc]
  simp [Plane.ofFn]

theorem applyTarget_length (img : ImgInfo) (src : List (Plane α)) (p : PatchRef) (t : PatchTarget)
    (chans : List (Plane α)) : (applyTarget img src p t chans).length = chans.length := by
  simp [applyTarget]

/-- a dictionary whose blend modes are all `None` changes nothing -/
theorem patchPixel_all_none (cc : Nat) (assoc : List (Option Bool)) (infos : List (PatchMode × Nat × Bool))
    (base rv : List α) (h : ∀ i, (infos.getD i (.none, 0, false)).1 = .none) :
    patchPixel cc assoc infos base rv = base := by
  unfold patchPixel
  have hm : ∀ idx, (if idx < cc then infos.getD 0 (PatchMode.none, 0, false)
      else infos.getD (idx - cc + 1) (PatchMode.none, 0, false)).1 = .none := by
    intro idx; split <;> exact h _
  simp only [hm, patchKernelFor]
  generalize List.range base.length = l
  induction l with
  | nil => rfl
  | cons i l ih => simpa using ih

end Jxl.Blend.Px
