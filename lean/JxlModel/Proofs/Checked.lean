import JxlModel.Model.Checked
namespace Jxl.Checked

theorem ecCheck_ok_or_err (gs cs : Nat) (l : List (Nat × Nat)) :
    (ecCheck gs cs l = .ok ()) ∨ (ecCheck gs cs l = .err) := by
  induction l with
  | nil => left; rfl
  | cons e rest ih =>
    obtain ⟨up, ds⟩ := e
    simp only [ecCheck]
    split
    · right; rfl
    · split
      · right; rfl
      · rename_i h1 h2
        have : cs ≤ log2 up + ds := by omega
        simp only [subU32, this, if_true]
        split
        · right; rfl
        · exact ih

/-- when `Frame::parse`'s validation accepts, the frame is bounded -/
theorem frameValidate_ok (h : FH) (hv : frameValidate h = .ok ()) :
    h.width ≤ 2 ^ 30 ∧ h.height ≤ 2 ^ 30 ∧ h.width * h.height ≤ 2 ^ 40 ∧ 0 < h.width ∧ 0 < h.height := by
  unfold frameValidate at hv
  split at hv
  · simp at hv
  · split at hv
    · simp at hv
    · split at hv
      · simp at hv
      · split at hv
        · simp at hv
        · rcases ecCheck_ok_or_err h.groupSizeShift (log2 h.upsampling) h.ecs with h1 | h1
          · rw [h1] at hv
            simp only at hv
            split at hv
            · simp at hv
            · omega
          · rw [h1] at hv; simp at hv

theorem frameValidate_total (h : FH) : (frameValidate h).isPanic = false := by
  unfold frameValidate
  split
  · rfl
  · split
    · rfl
    · have : ¬ (h.width * h.height ≥ u64Max) := by
        have : h.width * h.height ≤ 2 ^ 30 * 2 ^ 30 := Nat.mul_le_mul (by omega) (by omega)
        simp only [u64Max]; omega
      simp only [this, if_false]
      split
      · rfl
      · rcases ecCheck_ok_or_err h.groupSizeShift (log2 h.upsampling) h.ecs with h1 | h1
        · rw [h1]; simp only; split <;> rfl
        · rw [h1]; rfl

theorem ceil_le_self (v g : Nat) (hg : 1 ≤ g) : (v + g - 1) / g ≤ v := by
  have hlt : (v + g - 1) / g < v + 1 := by
    apply (Nat.div_lt_iff_lt_mul (by omega)).mpr
    have : v ≤ v * g := Nat.le_mul_of_pos_right v (by omega)
    rw [Nat.add_mul]
    omega
  omega

theorem sampleDim_le (v ups lf : Nat) (hv : v ≤ 2 ^ 30) (hl : lf ≤ 4) (hu : 1 ≤ ups) :
    ∃ r, sampleDim v ups lf = .ok r ∧ r ≤ v := by
  unfold sampleDim
  have h0 : (if ups > 1 then (v + ups - 1) / ups else v) ≤ v := by
    split
    · exact ceil_le_self v ups hu
    · exact Nat.le_refl v
  generalize (if ups > 1 then (v + ups - 1) / ups else v) = v' at h0
  have hp : 2 ^ (3 * lf) ≤ 2 ^ 12 := Nat.pow_le_pow_right (by omega) (by omega)
  have hpos : 1 ≤ 2 ^ (3 * lf) := Nat.one_le_two_pow
  simp only
  split
  · have hlt : v' + 2 ^ (3 * lf) < u32Max := by simp only [u32Max]; omega
    simp only [addU32, hlt, if_true]
    refine ⟨_, rfl, ?_⟩
    exact Nat.le_trans (ceil_le_self v' (2 ^ (3 * lf)) hpos) h0
  · exact ⟨v', rfl, h0⟩

theorem ceil_div_le (a g : Nat) (hg : 0 < g) : (a + g - 1) / g ≤ a / g + 1 := by
  have h3 : (a + g - 1) / g < a / g + 1 + 1 := by
    apply (Nat.div_lt_iff_lt_mul hg).mpr
    have h1 := Nat.div_add_mod a g
    have h2 := Nat.mod_lt a hg
    have h4 : g * (a / g) = a / g * g := Nat.mul_comm _ _
    rw [Nat.add_mul, Nat.add_mul]
    omega
  omega

/-- product of group counts is far below `u32::MAX` once the area is bounded -/
theorem groups_product_bound (w hh g : Nat) (hg : 128 ≤ g) (hw : w ≤ 2 ^ 30) (hh' : hh ≤ 2 ^ 30)
    (ha : w * hh ≤ 2 ^ 40) :
    ((w + g - 1) / g) * ((hh + g - 1) / g) ≤ 2 ^ 26 + 2 ^ 24 + 1 := by
  have hg0 : 0 < g := by omega
  have h1 := ceil_div_le w g hg0
  have h2 := ceil_div_le hh g hg0
  have hwg : w / g ≤ w / 128 := Nat.div_le_div_left hg (by omega)
  have hhg : hh / g ≤ hh / 128 := Nat.div_le_div_left hg (by omega)
  have hprod : (w / 128) * (hh / 128) ≤ (w * hh) / (128 * 128) := Nat.div_mul_div_le w 128 hh 128
  have hA : (w * hh) / (128 * 128) ≤ 2 ^ 26 := by
    apply Nat.div_le_of_le_mul; omega
  have hw2 : w / 128 ≤ 2 ^ 23 := by apply Nat.div_le_of_le_mul; omega
  have hh2 : hh / 128 ≤ 2 ^ 23 := by apply Nat.div_le_of_le_mul; omega
  have hexp : (w / 128 + 1) * (hh / 128 + 1) = (w / 128) * (hh / 128) + w / 128 + hh / 128 + 1 := by
    rw [Nat.add_mul, Nat.mul_add, Nat.mul_add]; omega
  calc ((w + g - 1) / g) * ((hh + g - 1) / g)
      ≤ (w / 128 + 1) * (hh / 128 + 1) :=
        Nat.mul_le_mul (Nat.le_trans h1 (by omega)) (Nat.le_trans h2 (by omega))
    _ = (w / 128) * (hh / 128) + w / 128 + hh / 128 + 1 := hexp
    _ ≤ 2 ^ 26 + 2 ^ 24 + 1 := by omega

end Jxl.Checked

namespace Jxl.Checked

@[simp] theorem bind_ok {α β} (a : α) (f : α → Outcome β) : (Outcome.ok a >>= f) = f a := rfl
@[simp] theorem pure_eq {α} (a : α) : (pure a : Outcome α) = Outcome.ok a := rfl

theorem groupDim_ge (h : FH) : 128 ≤ groupDim h := by
  unfold groupDim
  have : 1 ≤ 2 ^ h.groupSizeShift := Nat.one_le_two_pow
  omega

theorem numGroupsLike_ok (h : FH) (site : String) (g : Nat) (hg : 128 ≤ g)
    (hu : 1 ≤ h.upsampling) (hl : h.lfLevel ≤ 4)
    (hv : frameValidate h = .ok ()) :
    ∃ n, (do
      let w ← sampleDim h.width h.upsampling h.lfLevel
      let hh ← sampleDim h.height h.upsampling h.lfLevel
      mulU32 site ((w + g - 1) / g) ((hh + g - 1) / g)) = Outcome.ok n ∧ n ≤ 2 ^ 26 + 2 ^ 24 + 1 := by
  obtain ⟨hw, hh, ha, _, _⟩ := frameValidate_ok h hv
  obtain ⟨w, hw1, hw2⟩ := sampleDim_le h.width h.upsampling h.lfLevel hw hl hu
  obtain ⟨hh', hh1, hh2⟩ := sampleDim_le h.height h.upsampling h.lfLevel hh hl hu
  have harea : w * hh' ≤ 2 ^ 40 := Nat.le_trans (Nat.mul_le_mul hw2 hh2) ha
  have hb := groups_product_bound w hh' g hg (by omega) (by omega) harea
  refine ⟨((w + g - 1) / g) * ((hh' + g - 1) / g), ?_, hb⟩
  have hlt : ((w + g - 1) / g) * ((hh' + g - 1) / g) < u32Max := by simp only [u32Max]; omega
  rw [hw1, bind_ok, hh1, bind_ok]
  simp only [mulU32, hlt, if_true]

end Jxl.Checked
