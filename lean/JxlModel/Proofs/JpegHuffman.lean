import JxlModel.Model.JpegBits
/-! Helper lemmas for C17: `HuffmanCode::build` produces the canonical JPEG code. -/
namespace Jxl.JpegBits

/-- `Σ_{x ∈ pre} 2^(L - x)`: the number of `L`-bit code words used up by the entries of `pre` -/
def W (pre : List Nat) (L : Nat) : Nat := (pre.map (fun x => 2 ^ (L - x))).sum

theorem W_nil (L : Nat) : W [] L = 0 := rfl

theorem W_append (a b : List Nat) (L : Nat) : W (a ++ b) L = W a L + W b L := by
  simp [W, List.map_append, List.sum_append]

theorem W_singleton (x L : Nat) : W [x] L = 2 ^ (L - x) := by simp [W]

theorem W_scale (pre : List Nat) (L M : Nat) (h : ∀ x ∈ pre, x ≤ L) (hLM : L ≤ M) :
    W pre M = W pre L * 2 ^ (M - L) := by
  induction pre with
  | nil => simp [W]
  | cons x xs ih =>
    have hx := h x (by simp)
    have := ih (fun y hy => h y (by simp [hy]))
    simp only [W, List.map_cons, List.sum_cons] at *
    rw [this, Nat.add_mul, ← Nat.pow_add]
    congr 2
    omega

theorem canonCode_eq_W (ls : List Nat) (k : Nat) : canonCode ls k = W (ls.take k) (ls.getD k 0) := rfl

/-- the codes `assignCodes` produces for `suf` when `pre` has been processed -/
def codesFrom : List Nat → List Nat → List (BitVec 64)
  | _, [] => []
  | pre, len :: rest => (BitVec.ofNat 64 (W pre len) <<< (64 - len)) :: codesFrom (pre ++ [len]) rest

theorem assignCodes_eq (suf : List Nat) : ∀ (pre : List Nat) (p : Nat),
    (∀ x ∈ pre, x ≤ p) → (p :: suf).Pairwise (· ≤ ·) → (∀ x ∈ suf, 1 ≤ x ∧ x ≤ 64) →
    assignCodes suf (W pre p) p = some (codesFrom pre suf) := by
  induction suf with
  | nil => intro _ _ _ _ _; rfl
  | cons len rest ih =>
    intro pre p hpre hs hr
    have hlen := hr len (by simp)
    have hs' := List.pairwise_cons.1 hs
    have hple : p ≤ len := hs'.1 len (by simp)
    have h1 : ¬ (len = 0 ∨ len > 64) := by omega
    have h2 : ¬ (len < p) := by omega
    have hW : (if len ≠ p then W pre p <<< (len - p) else W pre p) = W pre len := by
      rw [W_scale pre p len hpre hple]
      by_cases e : len = p
      · simp [e]
      · simp [e, Nat.shiftLeft_eq]
    have hnext : W pre len + 1 = W (pre ++ [len]) len := by
      rw [W_append, W_singleton]; simp
    simp only [assignCodes, h1, h2, if_false, hW]
    rw [hnext, ih (pre ++ [len]) len]
    · rfl
    · intro x hx
      simp only [List.mem_append, List.mem_singleton] at hx
      rcases hx with hx | rfl
      · exact Nat.le_trans (hpre x hx) hple
      · exact Nat.le_refl _
    · exact hs'.2
    · intro x hx; exact hr x (by simp [hx])

theorem codesFrom_length (suf : List Nat) : ∀ pre, (codesFrom pre suf).length = suf.length := by
  induction suf with
  | nil => intro _; rfl
  | cons l rest ih => intro pre; simp [codesFrom, ih]

theorem codesFrom_getD (suf : List Nat) : ∀ (pre : List Nat) (k : Nat), k < suf.length →
    (codesFrom pre suf).getD k 0#64
      = BitVec.ofNat 64 (W (pre ++ suf.take k) (suf.getD k 0)) <<< (64 - suf.getD k 0) := by
  induction suf with
  | nil => intro _ k hk; simp at hk
  | cons l rest ih =>
    intro pre k hk
    cases k with
    | zero => simp [codesFrom]
    | succ k =>
      simp only [List.length_cons] at hk
      have := ih (pre ++ [l]) k (by omega)
      simp only [codesFrom, List.getD_cons_succ, List.take_succ_cons, this]
      simp [List.append_assoc]

/-! ### the sorted length list of a counts table -/

/-- `counts[len]` copies of `len`, for the listed lengths in order -/
def filledOf (c : Nat → Nat) (idx : List Nat) : List Nat :=
  idx.flatMap (fun len => List.replicate (c len) len)

theorem filledOf_length (c : Nat → Nat) (idx : List Nat) :
    (filledOf c idx).length = (idx.map c).sum := by
  simp [filledOf, List.length_flatMap]

theorem filledOf_sum (c : Nat → Nat) (h : Nat → Nat) (idx : List Nat) :
    ((filledOf c idx).map h).sum = (idx.map (fun len => c len * h len)).sum := by
  induction idx with
  | nil => rfl
  | cons i rest ih =>
    simp only [filledOf, List.flatMap_cons, List.map_append, List.sum_append, List.map_replicate,
      List.sum_replicate_nat, List.map_cons, List.sum_cons] at *
    rw [ih]

theorem filledOf_mem (c : Nat → Nat) (idx : List Nat) (x : Nat) (h : x ∈ filledOf c idx) :
    x ∈ idx ∧ c x ≠ 0 := by
  simp only [filledOf, List.mem_flatMap, List.mem_replicate] at h
  obtain ⟨a, ha, hc, rfl⟩ := h
  exact ⟨ha, hc⟩

theorem filledOf_sorted (c : Nat → Nat) (a m : Nat) :
    (filledOf c (List.range' a m)).Pairwise (· ≤ ·) := by
  induction m generalizing a with
  | zero => simp [filledOf]
  | succ m ih =>
    simp only [filledOf, List.range'_succ, List.flatMap_cons]
    rw [List.pairwise_append]
    refine ⟨List.pairwise_replicate.2 (Or.inr (Nat.le_refl _)), ih (a + 1), ?_⟩
    intro x hx y hy
    have hx' := (List.mem_replicate.1 hx).2
    have hy' := (filledOf_mem c _ y hy).1
    simp only [List.mem_range'_1] at hy'
    omega

/-! ### the scatter loop -/

/-- one column of `scatter` -/
def scat {α : Type} : List Nat → List α → List α → List α
  | v :: vs, x :: xs, acc => scat vs xs (acc.set v x)
  | _, _, acc => acc

theorem scatter_eq_scat (vs ls : List Nat) : ∀ (bs : List (BitVec 64)) (t : Table), bs.length = ls.length →
    (scatter vs ls bs t).lengths = scat vs ls t.lengths ∧ (scatter vs ls bs t).bits = scat vs bs t.bits := by
  induction vs generalizing ls with
  | nil => intro bs t _; simp [scatter, scat]
  | cons v vs ih =>
    intro bs t hl
    cases ls with
    | nil =>
      have : bs = [] := List.eq_nil_of_length_eq_zero (by simpa using hl)
      subst this
      simp [scatter, scat]
    | cons l ls =>
      cases bs with
      | nil => simp at hl
      | cons b bs =>
        simp only [List.length_cons, Nat.add_right_cancel_iff] at hl
        simp only [scatter, scat]
        exact ih ls bs _ hl

theorem scat_length {α : Type} (vs : List Nat) : ∀ (xs acc : List α), (scat vs xs acc).length = acc.length := by
  induction vs with
  | nil => intro xs acc; simp [scat]
  | cons v vs ih =>
    intro xs acc
    cases xs with
    | nil => simp [scat]
    | cons x xs => simp [scat, ih]

theorem scat_other {α : Type} (d : α) (s : Nat) (vs : List Nat) : ∀ (xs acc : List α),
    s ∉ vs.take xs.length → (scat vs xs acc).getD s d = acc.getD s d := by
  induction vs with
  | nil => intro xs acc _; simp [scat]
  | cons v vs ih =>
    intro xs acc hs
    cases xs with
    | nil => simp [scat]
    | cons x xs =>
      simp only [List.length_cons, List.take_succ_cons, List.mem_cons, not_or] at hs
      simp only [scat]
      rw [ih xs _ hs.2]
      simp only [List.getD_eq_getElem?_getD, List.getElem?_set]
      have : ¬ v = s := fun e => hs.1 e.symm
      simp [this]

theorem scat_at {α : Type} (d : α) (vs : List Nat) : ∀ (xs acc : List α) (k : Nat), k < xs.length →
    xs.length ≤ vs.length → (vs.take xs.length).Nodup → (∀ v ∈ vs.take xs.length, v < acc.length) →
    (scat vs xs acc).getD (vs.getD k 0) d = xs.getD k d := by
  induction vs with
  | nil => intro xs acc k hk hl; simp only [List.length_nil] at hl; omega
  | cons v vs ih =>
    intro xs acc k hk hl hnd hlt
    cases xs with
    | nil => simp at hk
    | cons x xs =>
      simp only [List.length_cons, List.take_succ_cons, List.nodup_cons] at hnd hlt hl hk
      simp only [scat]
      cases k with
      | zero =>
        simp only [List.getD_cons_zero]
        rw [scat_other d v vs xs _ hnd.1]
        have hv : v < acc.length := hlt v (by simp)
        simp [List.getD_eq_getElem?_getD, hv]
      | succ k =>
        simp only [List.getD_cons_succ]
        apply ih xs _ k (by omega) (by omega) hnd.2
        intro w hw
        simp only [List.length_set]
        exact hlt w (by simp [hw])

/-! ### `build` on a valid table -/

theorem valid_filled (counts values : List Nat) (hv : ValidTable counts values) :
    let F := filledOf (fun l => counts.getD l 0) (List.range counts.length)
    F.length = values.length ∧ F.Pairwise (· ≤ ·) ∧ (∀ x ∈ F, 1 ≤ x ∧ x ≤ 16)
    ∧ (F.map (fun x => 2 ^ (16 - x))).sum ≤ 2 ^ 16 := by
  intro F
  refine ⟨?_, ?_, ?_, ?_⟩
  · simp only [F, filledOf_length, hv.len17]
    exact hv.total
  · simp only [F, List.range_eq_range']
    exact filledOf_sorted _ 0 _
  · intro x hx
    have := filledOf_mem _ _ x hx
    simp only [hv.len17, List.mem_range] at this
    have h0 := hv.zero0
    have : x ≠ 0 := fun e => by subst e; exact this.2 h0
    omega
  · simp only [F, filledOf_sum]
    exact hv.kraft

theorem fillLengths_valid (counts values : List Nat) (hv : ValidTable counts values) :
    fillLengths counts values.length
      = some (filledOf (fun l => counts.getD l 0) (List.range counts.length)) := by
  have h := (valid_filled counts values hv).1
  unfold fillLengths
  simp only [filledOf] at h ⊢
  rw [h]
  simp

theorem getD_replicate_self {α : Type} (n s : Nat) (a : α) : (List.replicate n a).getD s a = a := by
  simp only [List.getD_eq_getElem?_getD, List.getElem?_replicate]
  split <;> rfl

theorem lookup_scatter (counts values : List Nat) (hv : ValidTable counts values) :
    ∃ t, build counts values = some t ∧ (codeLengths counts).length + 1 = values.length ∧
      (∀ k, k < (codeLengths counts).length → lookup t (values.getD k 0)
        = some ((codeLengths counts).getD k 0,
            BitVec.ofNat 64 (canonCode (codeLengths counts) k) <<< (64 - (codeLengths counts).getD k 0))) ∧
      (∀ s, s ∉ values.dropLast → lookup t s = none) := by
  obtain ⟨hlen, hsorted, hrange, _⟩ := valid_filled counts values hv
  generalize hls : codeLengths counts = ls
  have hls0 : (filledOf (fun l => counts.getD l 0) (List.range counts.length)).dropLast = ls := hls
  have hlslen : ls.length + 1 = values.length := by
    rw [← hls0, List.length_dropLast, hlen]
    have := hv.two
    omega
  have hls_sorted : ls.Pairwise (· ≤ ·) := by
    rw [← hls0]; exact List.Pairwise.sublist (List.dropLast_sublist _) hsorted
  have hls_range : ∀ x ∈ ls, 1 ≤ x ∧ x ≤ 16 := by
    intro x hx
    rw [← hls0] at hx
    exact hrange x ((List.dropLast_sublist _).mem hx)
  obtain ⟨l0, rest, hls'⟩ : ∃ l0 rest, ls = l0 :: rest := by
    cases ls with
    | nil => have := hv.two; simp at hlslen; omega
    | cons a b => exact ⟨a, b, rfl⟩
  have hassign : assignCodes ls 0 l0 = some (codesFrom [] ls) := by
    have := assignCodes_eq ls [] l0 (by simp) (by
      rw [List.pairwise_cons]
      refine ⟨?_, hls_sorted⟩
      intro a ha
      rw [hls'] at ha hls_sorted
      rcases List.mem_cons.1 ha with rfl | h
      · exact Nat.le_refl _
      · exact (List.pairwise_cons.1 hls_sorted).1 a h) (by
      intro x hx
      have := hls_range x hx
      omega)
    simpa [W_nil] using this
  generalize hIL : List.replicate 256 0 = initL at *
  generalize hIB : List.replicate 256 0#64 = initB at *
  have hILlen : initL.length = 256 := by rw [← hIL, List.length_replicate]
  have hIBlen : initB.length = 256 := by rw [← hIB, List.length_replicate]
  have hbuild : build counts values = some (scatter values ls (codesFrom [] ls)
      { lengths := initL, bits := initB }) := by
    simp only [build, fillLengths_valid counts values hv, hls0, hIL, hIB]
    rw [hls']
    simp only
    rw [← hls', hassign]
  have hsc := scatter_eq_scat values ls (codesFrom [] ls)
    { lengths := initL, bits := initB } (codesFrom_length ls [])
  have htake : values.take ls.length = values.dropLast := by
    rw [List.dropLast_eq_take]; congr 1; omega
  refine ⟨_, hbuild, hlslen, ?_, ?_⟩
  · intro k hk
    have hnd : (values.take ls.length).Nodup := by rw [htake]; exact hv.nodup
    have hlt : ∀ v ∈ values.take ls.length, v < 256 := by
      intro v hv'
      exact hv.bytes v (List.mem_of_mem_take hv')
    have h1 := scat_at 0 values ls initL k hk (by omega) hnd (by rw [hILlen]; exact hlt)
    have h2 := scat_at 0#64 values (codesFrom [] ls) initB k
      (by rw [codesFrom_length]; exact hk) (by rw [codesFrom_length]; omega)
      (by rw [codesFrom_length]; exact hnd) (by rw [codesFrom_length, hIBlen]; exact hlt)
    have hpos : ls.getD k 0 ≠ 0 := by
      have : ls.getD k 0 ∈ ls := by
        simp only [List.getD_eq_getElem?_getD, List.getElem?_eq_getElem hk, Option.getD_some]
        exact List.getElem_mem hk
      have := hls_range _ this
      omega
    simp only [lookup, hsc.1, hsc.2, h1, h2, hpos, if_false]
    rw [codesFrom_getD ls [] k hk]
    simp [canonCode_eq_W]
  · intro s hs
    have h1 := scat_other 0 s values ls initL (by rw [htake]; exact hs)
    have : initL.getD s 0 = 0 := by rw [← hIL]; exact getD_replicate_self _ _ _
    simp only [lookup, hsc.1, h1, this, if_true]

/-! ### Kraft: codes fit their length, no code is a prefix of another -/

theorem getD_eq_getElem (ls : List Nat) (k : Nat) (hk : k < ls.length) : ls.getD k 0 = ls[k] := by
  simp [List.getD_eq_getElem?_getD, List.getElem?_eq_getElem hk]

theorem take_le_of_sorted (ls : List Nat) (hs : ls.Pairwise (· ≤ ·)) (k : Nat) (hk : k < ls.length) :
    ∀ x ∈ ls.take k, x ≤ ls[k] := by
  intro x hx
  obtain ⟨i, hi, rfl⟩ := List.mem_iff_getElem.1 hx
  rw [List.getElem_take]
  have hik : i < k := by
    have := hi
    simp only [List.length_take] at this
    omega
  exact (List.pairwise_iff_getElem.1 hs) i k (by omega) hk hik

theorem take_succ_eq (ls : List Nat) (k : Nat) (hk : k < ls.length) :
    ls.take (k + 1) = ls.take k ++ [ls[k]] := by
  rw [List.take_add_one, List.getElem?_eq_getElem hk]; rfl

theorem W_take_le (ls : List Nat) (i k L : Nat) (hik : i ≤ k) : W (ls.take i) L ≤ W (ls.take k) L := by
  have : ls.take k = ls.take i ++ (ls.take k).drop i := by
    have := List.take_append_drop i (ls.take k)
    rw [List.take_take, Nat.min_eq_left hik] at this
    exact this.symm
  rw [this, W_append]
  omega

theorem W_take_le_all (ls : List Nat) (k L : Nat) : W (ls.take k) L ≤ W ls L := by
  have := List.take_append_drop k ls
  have h := W_append (ls.take k) (ls.drop k) L
  rw [this] at h
  omega

theorem code_fits (ls : List Nat) (hs : ls.Pairwise (· ≤ ·)) (hr : ∀ x ∈ ls, 1 ≤ x ∧ x ≤ 16)
    (hk16 : W ls 16 + 1 ≤ 2 ^ 16) (k : Nat) (hk : k < ls.length) :
    canonCode ls k + 1 < 2 ^ ls.getD k 0 := by
  rw [canonCode_eq_W, getD_eq_getElem ls k hk]
  have hle16 : ls[k] ≤ 16 := (hr _ (List.getElem_mem hk)).2
  have hsc := W_scale (ls.take k) ls[k] 16 (take_le_of_sorted ls hs k hk) hle16
  have h1 : W (ls.take (k + 1)) 16 = W (ls.take k) 16 + 2 ^ (16 - ls[k]) := by
    rw [take_succ_eq ls k hk, W_append, W_singleton]
  have h2 := W_take_le_all ls (k + 1) 16
  have h3 : (W (ls.take k) ls[k] + 1) * 2 ^ (16 - ls[k]) < 2 ^ ls[k] * 2 ^ (16 - ls[k]) := by
    rw [Nat.add_mul, ← hsc, Nat.one_mul, ← Nat.pow_add]
    have : ls[k] + (16 - ls[k]) = 16 := by omega
    rw [this]
    omega
  exact Nat.lt_of_mul_lt_mul_right h3

theorem code_prefix (ls : List Nat) (hs : ls.Pairwise (· ≤ ·)) (j k : Nat) (hjk : j < k)
    (hk : k < ls.length) :
    ls.getD j 0 ≤ ls.getD k 0 ∧
      canonCode ls j < canonCode ls k / 2 ^ (ls.getD k 0 - ls.getD j 0) := by
  have hj : j < ls.length := by omega
  rw [canonCode_eq_W, canonCode_eq_W, getD_eq_getElem ls k hk, getD_eq_getElem ls j hj]
  have hle : ls[j] ≤ ls[k] := (List.pairwise_iff_getElem.1 hs) j k hj hk hjk
  refine ⟨hle, ?_⟩
  have h1 : W (ls.take (j + 1)) ls[j] = W (ls.take j) ls[j] + 1 := by
    rw [take_succ_eq ls j hj, W_append, W_singleton]; simp
  have hpre : ∀ x ∈ ls.take (j + 1), x ≤ ls[j] := by
    intro x hx
    rw [take_succ_eq ls j hj] at hx
    rcases List.mem_append.1 hx with h | h
    · exact take_le_of_sorted ls hs j hj x h
    · simp at h; omega
  have h2 := W_scale (ls.take (j + 1)) ls[j] ls[k] hpre hle
  have h3 := W_take_le ls (j + 1) k ls[k] (by omega)
  apply (Nat.le_div_iff_mul_le (Nat.pow_pos (by omega))).2
  show (W (ls.take j) ls[j] + 1) * 2 ^ (ls[k] - ls[j]) ≤ W (ls.take k) ls[k]
  rw [← h1, ← h2]
  exact h3

theorem kraft_codeLengths (counts values : List Nat) (hv : ValidTable counts values) :
    W (codeLengths counts) 16 + 1 ≤ 2 ^ 16 := by
  obtain ⟨hlen, _, hrange, hkraft⟩ := valid_filled counts values hv
  generalize hF : filledOf (fun l => counts.getD l 0) (List.range counts.length) = F at *
  have hne : F ≠ [] := by
    intro e
    rw [e] at hlen
    have := hv.two
    simp at hlen
    omega
  have hsplit := List.dropLast_concat_getLast hne
  have hcl : codeLengths counts = F.dropLast := by rw [← hF]; rfl
  have hlast := hrange _ (List.getLast_mem hne)
  have : W F 16 = W F.dropLast 16 + 2 ^ (16 - F.getLast hne) := by
    conv => lhs; rw [← hsplit]
    rw [W_append, W_singleton]
  have hpos : 1 ≤ 2 ^ (16 - F.getLast hne) := Nat.pow_pos (by omega)
  have hk : W F 16 ≤ 2 ^ 16 := hkraft
  rw [hcl]
  omega

/-! ### prefix-freeness of the built (left-aligned 64-bit) words -/

theorem word_toNat (c l : Nat) (hl : l ≤ 64) (hc : c < 2 ^ l) :
    (BitVec.ofNat 64 c <<< (64 - l)).toNat = c * 2 ^ (64 - l) := by
  have h64 : 2 ^ l * 2 ^ (64 - l) = 2 ^ 64 := by
    rw [← Nat.pow_add]; congr 1; omega
  have hlt : c * 2 ^ (64 - l) < 2 ^ 64 := by
    rw [← h64]; exact Nat.mul_lt_mul_of_pos_right hc (Nat.pow_pos (by omega))
  have hc64 : c < 2 ^ 64 := Nat.lt_of_lt_of_le hc (Nat.pow_le_pow_right (by omega) hl)
  rw [BitVec.toNat_shiftLeft, BitVec.toNat_ofNat, Nat.shiftLeft_eq, Nat.mod_eq_of_lt hc64,
    Nat.mod_eq_of_lt hlt]

/-- the first `l1` bits of the left-aligned `l2`-bit word of `c2`, as a number -/
theorem word_prefix_toNat (c2 l1 l2 : Nat) (h12 : l1 ≤ l2) (hl : l2 ≤ 64) (hc : c2 < 2 ^ l2) :
    ((BitVec.ofNat 64 c2 <<< (64 - l2)) >>> (64 - l1)).toNat = c2 / 2 ^ (l2 - l1) := by
  rw [BitVec.toNat_ushiftRight, word_toNat c2 l2 hl hc, Nat.shiftRight_eq_div_pow]
  have : 2 ^ (64 - l1) = 2 ^ (l2 - l1) * 2 ^ (64 - l2) := by
    rw [← Nat.pow_add]; congr 1; omega
  rw [this, Nat.mul_div_mul_right _ _ (Nat.pow_pos (by omega))]

/-- a successful lookup in the built table comes from a position of the values list -/
theorem lookup_position (counts values : List Nat) (hv : ValidTable counts values) (t : Table)
    (hb : build counts values = some t) (s l : Nat) (b : BitVec 64) (h : lookup t s = some (l, b)) :
    ∃ k, k < (codeLengths counts).length ∧ values.getD k 0 = s ∧ l = (codeLengths counts).getD k 0 ∧
      b = BitVec.ofNat 64 (canonCode (codeLengths counts) k) <<< (64 - (codeLengths counts).getD k 0) := by
  obtain ⟨t', hb', hlen, hpos, hnone⟩ := lookup_scatter counts values hv
  rw [hb] at hb'
  cases hb'
  have hmem : s ∈ values.dropLast := by
    apply Classical.byContradiction
    intro hn
    rw [hnone s hn] at h
    exact absurd h (by simp)
  rw [List.dropLast_eq_take] at hmem
  obtain ⟨k, hk, hks⟩ := List.mem_iff_getElem.1 hmem
  have hk' : k < (codeLengths counts).length := by
    simp only [List.length_take] at hk; omega
  have hkv : k < values.length := by omega
  have hget : values.getD k 0 = s := by
    rw [List.getElem_take] at hks
    simp [List.getD_eq_getElem?_getD, List.getElem?_eq_getElem hkv, hks]
  have := hpos k hk'
  rw [hget, h] at this
  simp only [Option.some.injEq, Prod.mk.injEq] at this
  exact ⟨k, hk', hget, this.1, this.2⟩

theorem built_prefix_free (counts values : List Nat) (hv : ValidTable counts values) (t : Table)
    (hb : build counts values = some t) (s1 s2 l1 l2 : Nat) (b1 b2 : BitVec 64) (hne : s1 ≠ s2)
    (h1 : lookup t s1 = some (l1, b1)) (h2 : lookup t s2 = some (l2, b2)) (hle : l1 ≤ l2) :
    b2 >>> (64 - l1) ≠ b1 >>> (64 - l1) := by
  obtain ⟨k1, hk1, hv1, rfl, rfl⟩ := lookup_position counts values hv t hb s1 l1 b1 h1
  obtain ⟨k2, hk2, hv2, rfl, rfl⟩ := lookup_position counts values hv t hb s2 l2 b2 h2
  obtain ⟨_, hsorted, hrange, _⟩ := valid_filled counts values hv
  have hcl : codeLengths counts
      = (filledOf (fun l => counts.getD l 0) (List.range counts.length)).dropLast := rfl
  have hs : (codeLengths counts).Pairwise (· ≤ ·) := by
    rw [hcl]; exact List.Pairwise.sublist (List.dropLast_sublist _) hsorted
  have hr : ∀ x ∈ codeLengths counts, 1 ≤ x ∧ x ≤ 16 := by
    intro x hx
    rw [hcl] at hx
    exact hrange x ((List.dropLast_sublist _).mem hx)
  have hk16 := kraft_codeLengths counts values hv
  generalize codeLengths counts = ls at *
  have hf1 := code_fits ls hs hr hk16 k1 hk1
  have hf2 := code_fits ls hs hr hk16 k2 hk2
  have hl1 : ls.getD k1 0 ≤ 16 := by
    rw [getD_eq_getElem ls k1 hk1]; exact (hr _ (List.getElem_mem hk1)).2
  have hl2 : ls.getD k2 0 ≤ 16 := by
    rw [getD_eq_getElem ls k2 hk2]; exact (hr _ (List.getElem_mem hk2)).2
  intro heq
  have hnat := congrArg BitVec.toNat heq
  rw [word_prefix_toNat _ _ _ hle (by omega) (by omega),
    word_prefix_toNat _ _ _ (Nat.le_refl _) (by omega) (by omega)] at hnat
  simp only [Nat.sub_self, Nat.pow_zero, Nat.div_one] at hnat
  have hk : k1 ≠ k2 := by
    intro e; subst e; exact hne (hv1.symm.trans hv2)
  rcases Nat.lt_or_gt_of_ne hk with hlt | hgt
  · have := (code_prefix ls hs k1 k2 hlt hk2).2
    omega
  · have hp := code_prefix ls hs k2 k1 hgt hk1
    have heql : ls.getD k1 0 = ls.getD k2 0 := by omega
    have := hp.2
    rw [heql] at this hnat
    simp only [Nat.sub_self, Nat.pow_zero, Nat.div_one] at this hnat
    omega

end Jxl.JpegBits
