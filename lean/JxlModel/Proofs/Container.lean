import JxlModel.Model.Container
/-! Helper lemmas for C10 (container framing). -/
namespace Jxl.Container
open Spec
theorem beNat_append_single (l : Bytes) (b : UInt8) : beNat (l ++ [b]) = beNat l * 256 + b.toNat := by
  simp [beNat, List.foldl_append]

@[simp] theorem beEnc_length (n v : Nat) : (beEnc n v).length = n := by
  induction n generalizing v with
  | zero => rfl
  | succ n ih => simp [beEnc, ih]

theorem beNat_beEnc (n v : Nat) : beNat (beEnc n v) = v % 256 ^ n := by
  induction n generalizing v with
  | zero => simp [beEnc, beNat, Nat.mod_one]
  | succ n ih =>
    rw [beEnc, beNat_append_single, ih]
    have : (UInt8.ofNat (v % 256)).toNat = v % 256 := by
      simp [UInt8.toNat_ofNat']
    rw [this, Nat.pow_succ, Nat.mul_comm (256 ^ n) 256, Nat.mod_mul]
    omega

/-- does payload length `n` fit the size field of encoding `e` -/
def Spec.fits (n : Nat) : Enc → Prop
  | .short => n + 8 < 2 ^ 32
  | .long => n + 16 < 2 ^ 64
  | .toEof => True

theorem take4_pre (x y : Bytes) (hx : x.length = 4) : (x ++ y).take 4 = x := by
  rw [← hx]; exact List.take_left
theorem drop4_pre (x y : Bytes) (hx : x.length = 4) : (x ++ y).drop 4 = y := by
  rw [← hx]; exact List.drop_left

theorem parseHeader_short (ty : Bytes) (hty : ty.length = 4) (v : Nat) (hv : v < 2 ^ 32) (rest : Bytes) :
    parseHeader (beEnc 4 v ++ ty ++ rest) =
      if v = 1 then
        (if rest.length < 8 then .needMore
         else if beNat (rest.take 8) < 16 then .invalid else .done ⟨ty, some (beNat (rest.take 8) - 16)⟩ 16)
      else if v = 0 then .done ⟨ty, none⟩ 8
      else if v < 8 then .invalid else .done ⟨ty, some (v - 8)⟩ 8 := by
  unfold parseHeader
  have hl : ¬ (beEnc 4 v ++ ty ++ rest).length < 8 := by simp [hty]; omega
  have t4 : (beEnc 4 v ++ ty ++ rest).take 4 = beEnc 4 v := by
    rw [List.append_assoc]; exact take4_pre _ _ (by simp)
  have d4 : ((beEnc 4 v ++ ty ++ rest).drop 4).take 4 = ty := by
    rw [List.append_assoc, drop4_pre _ _ (by simp)]; exact take4_pre _ _ hty
  have d8 : ((beEnc 4 v ++ ty ++ rest).drop 8) = rest := by
    have : (beEnc 4 v ++ ty).length = 8 := by simp [hty]
    rw [← this]; exact List.drop_left
  have hb : beNat (beEnc 4 v) = v := by rw [beNat_beEnc]; exact Nat.mod_eq_of_lt (by simpa using hv)
  simp only [hl, if_false, t4, d4, d8, hb]
  have hl16 : (beEnc 4 v ++ ty ++ rest).length < 16 ↔ rest.length < 8 := by simp [hty]; omega
  simp only [hl16]

theorem header_roundtrip (ty : Bytes) (hty : ty.length = 4) (n : Nat) (e : Enc) (hf : fits n e)
    (rest : Bytes) :
    parseHeader (serHeader ty n e ++ rest) =
      .done ⟨ty, if e = .toEof then none else some n⟩ (serHeader ty n e).length := by
  cases e with
  | short =>
    simp only [fits] at hf
    rw [serHeader, parseHeader_short ty hty (n + 8) hf rest]
    have h1 : ¬ (n + 8 = 1) := by omega
    have h2 : ¬ (n + 8 = 0) := by omega
    have h3 : ¬ (n + 8 < 8) := by omega
    simp [h1, h3, hty]
  | long =>
    simp only [fits] at hf
    have hb : beNat (beEnc 8 (n + 16)) = n + 16 := by
      rw [beNat_beEnc]; exact Nat.mod_eq_of_lt (by simpa using hf)
    rw [serHeader, List.append_assoc, parseHeader_short ty hty 1 (by decide)]
    have t8 : (beEnc 8 (n + 16) ++ rest).take 8 = beEnc 8 (n + 16) := by
      have : (beEnc 8 (n + 16)).length = 8 := by simp
      conv => lhs; rw [← this]
      exact List.take_left
    have hl : ¬ ((beEnc 8 (n + 16) ++ rest).length < 8) := by simp
    have h16 : ¬ (n + 16 < 16) := by omega
    simp only [hl, t8, hb, h16, if_false]
    simp [hty]
  | toEof =>
    rw [serHeader, parseHeader_short ty hty 0 (by decide) rest]
    simp [hty]
/-- parse result is stable under extension of the buffer once it is not `needMore` -/
theorem parseHeader_append (a b : Bytes) (h : parseHeader a ≠ .needMore) :
    parseHeader (a ++ b) = parseHeader a := by
  unfold parseHeader at h ⊢
  by_cases h8 : a.length < 8
  · simp [h8] at h
  · have h8' : ¬ (a ++ b).length < 8 := by simp; omega
    have t4 : (a ++ b).take 4 = a.take 4 := List.take_append_of_le_length (by omega)
    have d4 : ((a ++ b).drop 4).take 4 = (a.drop 4).take 4 := by
      rw [List.drop_append_of_le_length (by omega), List.take_append_of_le_length (by simp; omega)]
    simp only [h8, h8', if_false, t4, d4] at h ⊢
    by_cases h1 : beNat (a.take 4) = 1
    · simp only [h1, if_true] at h ⊢
      by_cases h16 : a.length < 16
      · simp [h16] at h
      · have h16' : ¬ (a ++ b).length < 16 := by simp; omega
        have d8 : ((a ++ b).drop 8).take 8 = (a.drop 8).take 8 := by
          rw [List.drop_append_of_le_length (by omega), List.take_append_of_le_length (by simp; omega)]
        simp only [h16, h16', if_false, d8]
    · simp only [h1, if_false]

theorem parseHeader_done_le (a : Bytes) (h : Header) (hs : Nat) (hd : parseHeader a = .done h hs) :
    hs ≤ a.length ∧ 8 ≤ hs := by
  unfold parseHeader at hd
  split at hd
  · cases hd
  · simp only at hd
    split at hd
    · split at hd
      · cases hd
      · split at hd
        · cases hd
        · cases hd; omega
    · split at hd
      · cases hd; omega
      · split at hd
        · cases hd
        · cases hd; omega
/-! ## Steps, fuel, unfolding equation -/

theorem step_nil (s : PState) : step s [] = .stop := by simp [step]

theorem rank_le (d : DState) : rank d ≤ 3 := by
  unfold rank; split <;> (try split) <;> (try split) <;> omega

theorem stepHeader_cases (jx : JxlpState) (h : Header) (rest : Bytes) :
    (∃ e, stepHeader jx h rest = .err e rest) ∨
    (∃ ev s', stepHeader jx h rest = .cont ev s' rest) := by
  unfold stepHeader
  repeat' split
  all_goals simp

theorem measure_drop (s s' : PState) (buf : Bytes) (k : Nat) (hk : 1 ≤ k) (hle : k ≤ buf.length) :
    measure s' (buf.drop k) < measure s buf := by
  have := rank_le s'.st
  simp only [measure, List.length_drop]; omega

theorem measure_nil (s s' : PState) (buf : Bytes) (hpos : 0 < buf.length) :
    measure s' [] < measure s buf := by
  have := measure_drop s s' buf buf.length hpos (Nat.le_refl _)
  simpa using this

/-- Every `cont` step consumes a prefix and strictly decreases the measure. -/
theorem step_cont (s : PState) (buf : Bytes) (ev : Option Event) (s' : PState) (rest : Bytes)
    (h : step s buf = .cont ev s' rest) :
    measure s' rest < measure s buf ∧ ∃ k, rest = buf.drop k := by
  unfold step at h
  split at h
  · cases h
  · rename_i hne
    have hpos : 0 < buf.length := by
      cases buf with
      | nil => simp at hne
      | cons => simp
    split at h
    · -- waitingSignature
      rename_i hst
      split at h
      · cases h; simp [measure, hst, rank]; exact ⟨0, rfl⟩
      · split at h
        · rename_i hc
          cases h
          have : 12 ≤ buf.length := by
            have := (List.isPrefixOf_iff_prefix.mp hc).length_le
            simpa [contSig] using this
          exact ⟨measure_drop _ _ _ 12 (by omega) this, 12, rfl⟩
        · split at h
          · cases h; simp [measure, hst, rank]; exact ⟨0, rfl⟩
          · cases h
    · -- waitingBoxHeader
      rename_i hst
      split at h
      · cases h
      · cases h
      · rename_i hd hs hp
        have hle := parseHeader_done_le buf hd hs hp
        rcases stepHeader_cases s.jx hd (buf.drop hs) with ⟨e, he⟩ | ⟨ev', s'', he⟩
        · rw [he] at h; cases h
        · rw [he] at h; cases h
          exact ⟨measure_drop _ _ _ hs (by omega) hle.1, hs, rfl⟩
    · -- waitingJxlpIndex
      rename_i hd hst
      split at h
      · cases h
      · rename_i h4
        simp only at h
        split at h
        · split at h
          · split at h
            · split at h
              · cases h
              · cases h; exact ⟨measure_drop _ _ _ 4 (by omega) (by omega), 4, rfl⟩
            · cases h; exact ⟨measure_drop _ _ _ 4 (by omega) (by omega), 4, rfl⟩
          · cases h
        · cases h
    · -- pending
      rename_i hst
      cases h
      refine ⟨?_, 0, rfl⟩
      simp [measure, hst, rank]
    · rename_i hst
      cases h
      exact ⟨measure_nil _ _ _ hpos, buf.length, by simp⟩
    · rename_i k n hst
      split at h
      · rename_i hn
        cases h
        refine ⟨?_, n, rfl⟩
        by_cases h0 : n = 0
        · subst h0; simp [measure, hst, rank]
        · exact measure_drop _ _ _ n (by omega) hn
      · cases h
        exact ⟨measure_nil _ _ _ hpos, buf.length, by simp⟩
    · rename_i hd bty left hst
      split at h
      · split at h
        · cases h
        · simp only at h
          split at h
          · split at h
            · cases h
            · split at h
              · cases h
              · cases h; exact ⟨measure_drop _ _ _ 4 (by omega) (by omega), 4, rfl⟩
          · split at h
            · cases h
            · cases h; exact ⟨measure_drop _ _ _ 4 (by omega) (by omega), 4, rfl⟩
      · simp only at h
        split at h
        · rename_i n
          split at h
          · rename_i hn0; subst hn0
            cases h; refine ⟨?_, 0, rfl⟩; simp [measure, hst, rank]
          · rename_i hn
            cases h
            refine ⟨?_, min n buf.length, rfl⟩
            exact measure_drop _ _ _ _ (by omega) (by omega)
        · cases h
          exact ⟨measure_nil _ _ _ hpos, buf.length, by simp⟩
theorem step_err (s : PState) (buf : Bytes) (e : Err) (rest : Bytes)
    (h : step s buf = .err e rest) : ∃ k, rest = buf.drop k := by
  unfold step at h
  split at h
  · cases h
  · split at h
    · (repeat' split at h) <;> cases h
    · split at h
      · cases h; exact ⟨0, rfl⟩
      · cases h
      · rename_i hd hs hp
        rcases stepHeader_cases s.jx hd (buf.drop hs) with ⟨e', he⟩ | ⟨ev', s'', he⟩
        · rw [he] at h; cases h; exact ⟨hs, rfl⟩
        · rw [he] at h; cases h
    · split at h
      · cases h
      · simp only at h
        (repeat' split at h) <;> cases h <;> exact ⟨4, rfl⟩
    · cases h
    · cases h
    · (repeat' split at h) <;> cases h
    · split at h
      · split at h
        · cases h
        · simp only at h
          (repeat' split at h) <;> cases h <;> exact ⟨4, rfl⟩
      · simp only at h
        (repeat' split at h) <;> cases h

theorem run_fuel (f1 : Nat) : ∀ (f2 : Nat) (s : PState) (buf : Bytes),
    measure s buf < f1 → measure s buf < f2 → run f1 s buf = run f2 s buf := by
  induction f1 with
  | zero => intro f2 s buf h; omega
  | succ f1 ih =>
    intro f2 s buf h1 h2
    cases f2 with
    | zero => omega
    | succ f2 =>
      unfold run
      cases hs : step s buf with
      | stop => rfl
      | err e rest => rfl
      | cont ev s' rest =>
        have := (step_cont s buf ev s' rest hs).1
        simp only
        rw [ih f2 s' rest (by omega) (by omega)]

/-- The unfolding equation of `feed`: the fuel plays no role. -/
theorem feed_eq (s : PState) (buf : Bytes) :
    feed s buf =
      match step s buf with
      | .stop => ⟨[], s, buf, none⟩
      | .err e rest => ⟨[], s, rest, some e⟩
      | .cont ev s' rest =>
        ⟨ev.toList ++ (feed s' rest).events, (feed s' rest).state, (feed s' rest).rest,
         (feed s' rest).error⟩ := by
  unfold feed feedFuel
  rw [show 4 * buf.length + 4 = (4 * buf.length + 3) + 1 from rfl, run]
  cases hs : step s buf with
  | stop => rfl
  | err e rest => rfl
  | cont ev s' rest =>
    have h1 := (step_cont s buf ev s' rest hs).1
    have h2 := rank_le s.st
    have h3 := rank_le s'.st
    simp only [measure] at h1
    simp only
    rw [run_fuel (4 * buf.length + 3) (4 * rest.length + 4) s' rest
      (by simp only [measure]; omega) (by simp only [measure]; omega)]

/-- Induction along the run of the parser. -/
theorem feed_induct {P : PState → Bytes → Prop}
    (ind : ∀ s buf, (∀ ev s' rest, step s buf = .cont ev s' rest → P s' rest) → P s buf) :
    ∀ s buf, P s buf := by
  have : ∀ n s buf, measure s buf < n → P s buf := by
    intro n
    induction n with
    | zero => intro s buf h; omega
    | succ n ih =>
      intro s buf h
      apply ind
      intro ev s' rest hs
      have := (step_cont s buf ev s' rest hs).1
      exact ih s' rest (by omega)
  intro s buf
  exact this _ s buf (Nat.lt_succ_self _)
/-! ## Extending the buffer -/

/-- the same step with `b` appended to the untouched part of the buffer -/
def Step.app : Step → Bytes → Step
  | .stop, _ => .stop
  | .err e rest, b => .err e (rest ++ b)
  | .cont ev s rest, b => .cont ev s (rest ++ b)

/-- a data state that swallows all of `a` and would swallow more -/
def DataAbsorb (s : PState) (a : Bytes) : Prop :=
  a ≠ [] ∧
  match s.st with
  | .inCodestream _ none false => True
  | .inCodestream _ (some n) false => a.length < n
  | .inAuxBox h bty left =>
    ¬ (h.ty = tyBrob ∧ bty = none) ∧ (match left with | none => True | some n => a.length < n)
  | _ => False

theorem stepHeader_app (jx : JxlpState) (h : Header) (rest b : Bytes) :
    stepHeader jx h (rest ++ b) = (stepHeader jx h rest).app b := by
  unfold stepHeader
  repeat' split
  all_goals simp [Step.app]

theorem isEmpty_append_cons (x : UInt8) (a b : Bytes) : ((x :: a) ++ b).isEmpty = false := by simp

theorem step_append (s : PState) (a b : Bytes) :
    step s a = .stop ∨ step s (a ++ b) = (step s a).app b ∨ DataAbsorb s a := by
  cases a with
  | nil => left; exact step_nil s
  | cons x a' =>
    generalize hA : x :: a' = a
    have hne : a.isEmpty = false := by rw [← hA]; rfl
    have hne' : (a ++ b).isEmpty = false := by rw [← hA]; rfl
    have hne2 : a ≠ [] := by rw [← hA]; simp
    obtain ⟨st, jx⟩ := s
    cases st with
    | waitingSignature =>
      simp only [step, hne, hne']
      have G : ∀ sig : Bytes, sig <+: a ++ b → sig <+: a ∨ a <+: sig := fun sig h =>
        List.prefix_or_prefix_of_prefix h (List.prefix_append a b)
      have bt : ∀ {x y : Bytes}, x <+: y → x.isPrefixOf y = true := fun h =>
        List.isPrefixOf_iff_prefix.mpr h
      have bf : ∀ {x y : Bytes}, ¬ x <+: y → x.isPrefixOf y = false := fun h => by
        rw [Bool.eq_false_iff]; intro c; exact h (List.isPrefixOf_iff_prefix.mp c)
      by_cases c1 : csSig <+: a
      · right; left
        rw [bt c1, bt (c1.trans (List.prefix_append a b))]
        simp [Step.app]
      · by_cases c2 : contSig <+: a
        · right; left
          have n1 : ¬ csSig <+: a ++ b := by
            intro h
            rcases G _ h with h | h
            · exact c1 h
            · have := (c2.trans h).length_le
              simp [contSig, csSig] at this
          have l12 : 12 ≤ a.length := by simpa [contSig] using c2.length_le
          rw [bf c1, bt c2, bf n1, bt (c2.trans (List.prefix_append a b))]
          simp [Step.app, List.drop_append_of_le_length l12]
        · by_cases c3 : a <+: csSig
          · left; rw [bf c1, bf c2, bt c3]; simp
          · by_cases c4 : a <+: contSig
            · left; rw [bf c1, bf c2, bt c4]; simp
            · right; left
              have n1 : ¬ csSig <+: a ++ b := fun h => (G _ h).elim c1 c3
              have n2 : ¬ contSig <+: a ++ b := fun h => (G _ h).elim c2 c4
              have n3 : ¬ a ++ b <+: csSig := fun h => c3 ((List.prefix_append a b).trans h)
              have n4 : ¬ a ++ b <+: contSig := fun h => c4 ((List.prefix_append a b).trans h)
              rw [bf c1, bf c2, bf c3, bf c4, bf n1, bf n2, bf n3, bf n4]
              simp [Step.app]
    | waitingBoxHeader =>
      simp only [step, hne, hne']
      cases hp : parseHeader a with
      | needMore => left; simp
      | invalid =>
        right; left
        rw [parseHeader_append a b (by rw [hp]; simp), hp]
        simp [Step.app]
      | done h hs =>
        right; left
        rw [parseHeader_append a b (by rw [hp]; simp), hp]
        have hle := (parseHeader_done_le a h hs hp).1
        simp only [Bool.false_eq_true, if_false]
        rw [List.drop_append_of_le_length hle, stepHeader_app]
    | waitingJxlpIndex h =>
      simp only [step, hne, hne']
      by_cases h4 : a.length < 4
      · left; simp [h4]
      · right; left
        have h4' : ¬ (a ++ b).length < 4 := by simp; omega
        simp only [h4, h4', Bool.false_eq_true, if_false, List.take_append_of_le_length (show 4 ≤ a.length by omega),
          List.drop_append_of_le_length (show 4 ≤ a.length by omega)]
        repeat' split
        all_goals simp [Step.app]
    | inCodestream k left pending =>
      cases pending with
      | true => right; left; simp [step, hne, hne', Step.app]
      | false =>
        cases left with
        | none => right; right; simp [DataAbsorb, hne2]
        | some n =>
          by_cases hn : n ≤ a.length
          · right; left
            have hn' : n ≤ a.length + b.length := by omega
            simp [step, hne, hne', hn, hn', Step.app, List.take_append_of_le_length hn,
              List.drop_append_of_le_length hn]
          · right; right; simp [DataAbsorb, hne2]; omega
    | inAuxBox h bty left =>
      by_cases hb : h.ty = tyBrob ∧ bty = none
      · simp only [step, hne, hne', hb, and_self, if_true]
        by_cases h4 : a.length < 4
        · left; simp [h4]
        · right; left
          have h4' : ¬ (a ++ b).length < 4 := by simp; omega
          simp only [h4, h4', Bool.false_eq_true, if_false, List.take_append_of_le_length (show 4 ≤ a.length by omega),
            List.drop_append_of_le_length (show 4 ≤ a.length by omega)]
          repeat' split
          all_goals simp [Step.app]
      · cases left with
        | none => right; right; simp [DataAbsorb, hne2, hb]
        | some n =>
          by_cases hn0 : n = 0
          · right; left; subst hn0; simp [step, hne, hne', hb, Step.app]
          · by_cases hn : n ≤ a.length
            · right; left
              have m1 : min n (a ++ b).length = n := by simp; omega
              have m2 : min n a.length = n := by omega
              simp only [step, hne, hne', hb, hn0, Bool.false_eq_true, if_false, m1, m2]
              simp [Step.app, List.take_append_of_le_length hn, List.drop_append_of_le_length hn]
            · right; right; simp [DataAbsorb, hne2, hb]; omega
theorem data_join (s : PState) (a b : Bytes) (hd : DataAbsorb s a) :
    ∃ eva s', step s a = .cont (some eva) s' [] ∧
      (b ≠ [] → ∃ evb evab s'' rest, step s' b = .cont (some evb) s'' rest ∧
        step s (a ++ b) = .cont (some evab) s'' rest ∧ evab.toks = eva.toks ++ evb.toks) := by
  obtain ⟨hne2, hd⟩ := hd
  have hne : a.isEmpty = false := by cases a <;> simp_all
  have hnb : b ≠ [] → b.isEmpty = false := by intro hb; cases b <;> simp_all
  have hnab : (a ++ b).isEmpty = false := by cases a <;> simp_all
  obtain ⟨st, jx⟩ := s
  cases st with
  | waitingSignature => exact hd.elim
  | waitingBoxHeader => exact hd.elim
  | waitingJxlpIndex h => exact hd.elim
  | inCodestream k left pending =>
    cases pending with
    | true => cases left <;> exact hd.elim
    | false =>
      cases left with
      | none =>
        have e1 : step ⟨.inCodestream k none false, jx⟩ a = .cont (some (.codestream a)) ⟨.inCodestream k none false, jx⟩ [] := by
          simp [step, hne]
        refine ⟨_, _, e1, fun hb => ?_⟩
        have e2 : step ⟨.inCodestream k none false, jx⟩ b = .cont (some (.codestream b)) ⟨.inCodestream k none false, jx⟩ [] := by
          simp [step, hnb hb]
        have e3 : step ⟨.inCodestream k none false, jx⟩ (a ++ b) = .cont (some (.codestream (a ++ b))) ⟨.inCodestream k none false, jx⟩ [] := by
          simp [step, hnab]
        exact ⟨_, _, _, _, e2, e3, by simp [Event.toks]⟩
      | some n =>
        have hd : a.length < n := hd
        have h1 : ¬ n ≤ a.length := by omega
        have e1 : step ⟨.inCodestream k (some n) false, jx⟩ a =
            .cont (some (.codestream a)) ⟨.inCodestream k (some (n - a.length)) false, jx⟩ [] := by
          simp only [step, hne, h1]; simp
        refine ⟨_, _, e1, fun hb => ?_⟩
        by_cases h2 : n ≤ a.length + b.length
        · have h3 : n - a.length ≤ b.length := by omega
          have e2 : step ⟨.inCodestream k (some (n - a.length)) false, jx⟩ b =
              .cont (some (.codestream (b.take (n - a.length)))) ⟨.waitingBoxHeader, jx⟩ (b.drop (n - a.length)) := by
            simp only [step, hnb hb, h3]; simp
          have e3 : step ⟨.inCodestream k (some n) false, jx⟩ (a ++ b) =
              .cont (some (.codestream (a ++ b.take (n - a.length)))) ⟨.waitingBoxHeader, jx⟩ (b.drop (n - a.length)) := by
            have : n ≤ (a ++ b).length := by simp; omega
            simp only [step, hnab, this]
            simp [List.drop_append, List.take_append, List.drop_of_length_le (show a.length ≤ n by omega),
              List.take_of_length_le (show a.length ≤ n by omega)]
          exact ⟨_, _, _, _, e2, e3, by simp [Event.toks]⟩
        · have h3 : ¬ n - a.length ≤ b.length := by omega
          have e2 : step ⟨.inCodestream k (some (n - a.length)) false, jx⟩ b =
              .cont (some (.codestream b)) ⟨.inCodestream k (some (n - a.length - b.length)) false, jx⟩ [] := by
            simp only [step, hnb hb, h3]; simp
          have e3 : step ⟨.inCodestream k (some n) false, jx⟩ (a ++ b) =
              .cont (some (.codestream (a ++ b))) ⟨.inCodestream k (some (n - a.length - b.length)) false, jx⟩ [] := by
            have : ¬ n ≤ (a ++ b).length := by simp; omega
            simp only [step, hnab, this]
            simp; omega
          exact ⟨_, _, _, _, e2, e3, by simp [Event.toks]⟩
  | inAuxBox h bty left =>
    obtain ⟨hbr, hd⟩ := hd
    cases left with
    | none =>
      have e1 : step ⟨.inAuxBox h bty none, jx⟩ a = .cont (some (.auxData (bty.getD h.ty) a)) ⟨.inAuxBox h bty none, jx⟩ [] := by
        simp only [step, hne, hbr]; simp
      refine ⟨_, _, e1, fun hb => ?_⟩
      have e2 : step ⟨.inAuxBox h bty none, jx⟩ b = .cont (some (.auxData (bty.getD h.ty) b)) ⟨.inAuxBox h bty none, jx⟩ [] := by
        simp only [step, hnb hb, hbr]; simp
      have e3 : step ⟨.inAuxBox h bty none, jx⟩ (a ++ b) = .cont (some (.auxData (bty.getD h.ty) (a ++ b))) ⟨.inAuxBox h bty none, jx⟩ [] := by
        simp only [step, hnab, hbr]; simp
      exact ⟨_, _, _, _, e2, e3, by simp [Event.toks]⟩
    | some n =>
      have hd : a.length < n := hd
      have hn0 : n ≠ 0 := by omega
      have hn1 : n - a.length ≠ 0 := by omega
      have m : min n a.length = a.length := by omega
      have e1 : step ⟨.inAuxBox h bty (some n), jx⟩ a =
          .cont (some (.auxData (bty.getD h.ty) a)) ⟨.inAuxBox h bty (some (n - a.length)), jx⟩ [] := by
        simp only [step, hne, hbr, hn0, m]; simp
      refine ⟨_, _, e1, fun hb => ?_⟩
      have m2 : min n (a ++ b).length = a.length + min (n - a.length) b.length := by
        rw [List.length_append]; omega
      have e2 : step ⟨.inAuxBox h bty (some (n - a.length)), jx⟩ b =
          .cont (some (.auxData (bty.getD h.ty) (b.take (min (n - a.length) b.length))))
            ⟨.inAuxBox h bty (some (n - a.length - min (n - a.length) b.length)), jx⟩
            (b.drop (min (n - a.length) b.length)) := by
        simp only [step, hnb hb, hbr, hn1]; simp
      have e3 : step ⟨.inAuxBox h bty (some n), jx⟩ (a ++ b) =
          .cont (some (.auxData (bty.getD h.ty) (a ++ b.take (min (n - a.length) b.length))))
            ⟨.inAuxBox h bty (some (n - a.length - min (n - a.length) b.length)), jx⟩
            (b.drop (min (n - a.length) b.length)) := by
        simp only [step, hnab, hbr, hn0, m2]
        simp [List.drop_append, List.take_append]
        exact ⟨List.take_of_length_le (by omega), by omega⟩
      exact ⟨_, _, _, _, e2, e3, by simp [Event.toks]⟩
/-! ## Chunking -/

/-- two results that a consumer cannot tell apart: same concatenation-normal event stream, same
parser state, same unconsumed bytes, same error -/
def FeedResult.equiv (x y : FeedResult) : Prop :=
  toks x.events = toks y.events ∧ x.state = y.state ∧ x.rest = y.rest ∧ x.error = y.error

/-- `feed`, then offer the unconsumed bytes again followed by `b` (unless an error stopped us) -/
def thenFeed (r : FeedResult) (b : Bytes) : FeedResult :=
  match r.error with
  | some e => ⟨r.events, r.state, r.rest ++ b, some e⟩
  | none =>
    let r' := feed r.state (r.rest ++ b)
    ⟨r.events ++ r'.events, r'.state, r'.rest, r'.error⟩

theorem toks_append (x y : List Event) : toks (x ++ y) = toks x ++ toks y := by
  simp [toks]

theorem feed_of_stop {s : PState} {buf : Bytes} (h : step s buf = .stop) :
    feed s buf = ⟨[], s, buf, none⟩ := by rw [feed_eq, h]

theorem feed_of_err {s : PState} {buf : Bytes} {e : Err} {rest : Bytes}
    (h : step s buf = .err e rest) : feed s buf = ⟨[], s, rest, some e⟩ := by rw [feed_eq, h]

theorem feed_of_cont {s : PState} {buf : Bytes} {ev : Option Event} {s' : PState} {rest : Bytes}
    (h : step s buf = .cont ev s' rest) :
    feed s buf = ⟨ev.toList ++ (feed s' rest).events, (feed s' rest).state, (feed s' rest).rest,
      (feed s' rest).error⟩ := by rw [feed_eq, h]

theorem feed_nil (s : PState) : feed s [] = ⟨[], s, [], none⟩ := feed_of_stop (step_nil s)

theorem thenFeed_cons (ev : Option Event) (r : FeedResult) (b : Bytes) :
    thenFeed ⟨ev.toList ++ r.events, r.state, r.rest, r.error⟩ b =
      ⟨ev.toList ++ (thenFeed r b).events, (thenFeed r b).state, (thenFeed r b).rest,
       (thenFeed r b).error⟩ := by
  unfold thenFeed
  cases r.error <;> simp

/-- 2-way split: feeding `a ++ b` at once is indistinguishable from feeding `a`, then the
leftover followed by `b`. -/
theorem feed_append (b : Bytes) : ∀ (s : PState) (a : Bytes),
    (feed s (a ++ b)).equiv (thenFeed (feed s a) b) := by
  apply feed_induct
  intro s a ih
  rcases step_append s a b with hs | hs | hd
  · -- nothing happens on `a` alone
    rw [feed_of_stop hs]
    simp [thenFeed, FeedResult.equiv]
  · cases hsa : step s a with
    | stop =>
      rw [feed_of_stop hsa]
      simp [thenFeed, FeedResult.equiv]
    | err e rest =>
      rw [hsa] at hs
      rw [feed_of_err hsa, feed_of_err hs]
      simp [thenFeed, FeedResult.equiv]
    | cont ev s' rest =>
      rw [hsa] at hs
      have ih' := ih ev s' rest hsa
      rw [feed_of_cont hsa, feed_of_cont hs, thenFeed_cons]
      obtain ⟨h1, h2, h3, h4⟩ := ih'
      exact ⟨by simp only [toks_append, h1], h2, h3, h4⟩
  · obtain ⟨eva, s', e1, hb⟩ := data_join s a b hd
    by_cases hbn : b = []
    · subst hbn
      rw [List.append_nil, feed_of_cont e1, feed_nil]
      simp [thenFeed, FeedResult.equiv, feed_nil]
    · obtain ⟨evb, evab, s'', rest, e2, e3, e4⟩ := hb hbn
      rw [feed_of_cont e1, feed_nil, feed_of_cont e3]
      simp only [thenFeed, List.nil_append, List.append_nil]
      rw [feed_of_cont e2]
      refine ⟨?_, rfl, rfl, rfl⟩
      simp only [toks_append]
      simp [toks, e4]
/-- what a chunked run and a whole-buffer run agree on: normal form of the events, error, state,
and (if there was no error) the bytes still unconsumed -/
def FeedResult.same (x y : FeedResult) : Prop :=
  toks x.events = toks y.events ∧ x.error = y.error ∧ x.state = y.state ∧
    (x.error = none → x.rest = y.rest)

theorem feedChunks_same (cs : List Bytes) : ∀ (s : PState) (pending c : Bytes),
    (feedChunks s pending (c :: cs)).same (feed s (pending ++ (c :: cs).flatten)) := by
  induction cs with
  | nil =>
    intro s pending c
    simp only [feedChunks, List.flatten_cons, List.flatten_nil, List.append_nil]
    cases h : (feed s (pending ++ c)).error with
    | some e => simp [FeedResult.same, h]
    | none => simp [FeedResult.same, h]
  | cons c2 cs ih =>
    intro s pending c
    have hfl : pending ++ (c :: c2 :: cs).flatten = (pending ++ c) ++ (c2 :: cs).flatten := by simp
    obtain ⟨a1, a2, a3, a4⟩ := feed_append (c2 :: cs).flatten s (pending ++ c)
    rw [hfl]
    rw [feedChunks]
    cases h : (feed s (pending ++ c)).error with
    | some e =>
      simp only [thenFeed, h] at a1 a2 a3 a4
      exact ⟨a1.symm, by rw [a4, h], a2.symm, by intro hc; rw [h] at hc; cases hc⟩
    | none =>
      simp only [thenFeed, h] at a1 a2 a3 a4
      obtain ⟨b1, b2, b3, b4⟩ := ih (feed s (pending ++ c)).state (feed s (pending ++ c)).rest c2
      simp only
      refine ⟨?_, ?_, ?_, ?_⟩
      · rw [a1, toks_append, toks_append, b1]
      · rw [a4, b2]
      · rw [a2, b3]
      · intro hn; rw [a3]; exact b4 hn
/-! ## Consumption and progress -/

theorem feed_rest_drop : ∀ (s : PState) (buf : Bytes), ∃ k, (feed s buf).rest = buf.drop k := by
  apply feed_induct
  intro s buf ih
  cases hs : step s buf with
  | stop => rw [feed_of_stop hs]; exact ⟨0, rfl⟩
  | err e rest => rw [feed_of_err hs]; exact step_err s buf e rest hs
  | cont ev s' rest =>
    rw [feed_of_cont hs]
    obtain ⟨k, hk⟩ := (step_cont s buf ev s' rest hs).2
    obtain ⟨k', hk'⟩ := ih ev s' rest hs
    exact ⟨k + k', by show (feed s' rest).rest = _; rw [hk', hk, List.drop_drop]⟩

theorem feed_rest_length_le (s : PState) (buf : Bytes) : (feed s buf).rest.length ≤ buf.length := by
  obtain ⟨k, hk⟩ := feed_rest_drop s buf
  rw [hk, List.length_drop]; omega

/-- The run ends because nothing more can be done, not because fuel ran out. -/
theorem feed_final_stop : ∀ (s : PState) (buf : Bytes), (feed s buf).error = none →
    step (feed s buf).state (feed s buf).rest = .stop := by
  apply feed_induct
  intro s buf ih
  cases hs : step s buf with
  | stop => rw [feed_of_stop hs]; intro _; exact hs
  | err e rest => rw [feed_of_err hs]; intro h; cases h
  | cont ev s' rest => rw [feed_of_cont hs]; exact ih ev s' rest hs

/-- `Ok(None)` on a non-empty buffer only happens while waiting for a signature (< 12 bytes),
a box header (< 16), a jxlp index or a brob inner type (< 4). -/
theorem step_stop_short (s : PState) (buf : Bytes) (h : step s buf = .stop) : buf.length < 16 := by
  unfold step at h
  split at h
  · cases buf <;> simp_all
  · split at h
    · split at h
      · cases h
      · split at h
        · cases h
        · split at h
          · cases h
          · rename_i h1 h2 h3
            simp only [Bool.and_eq_true, Bool.not_eq_true', not_and, Bool.not_eq_false] at h3
            by_cases hc : buf.isPrefixOf csSig = true
            · have := (List.isPrefixOf_iff_prefix.mp hc).length_le
              simp [csSig] at this; omega
            · have hc' := h3 (by rw [Bool.eq_false_iff]; exact hc)
              have := (List.isPrefixOf_iff_prefix.mp hc').length_le
              simp [contSig] at this; omega
    · split at h
      · cases h
      · rename_i hp
        unfold parseHeader at hp
        by_cases h16 : buf.length < 16
        · exact h16
        · have h8 : ¬ buf.length < 8 := by omega
          simp only [h8, h16, if_false] at hp
          (repeat' split at hp) <;> cases hp
      · rename_i hd hs hp
        rcases stepHeader_cases s.jx hd (buf.drop hs) with ⟨e', he⟩ | ⟨ev', s'', he⟩
        · rw [he] at h; cases h
        · rw [he] at h; cases h
    · split at h
      · omega
      · simp only at h
        (repeat' split at h) <;> cases h
    · cases h
    · cases h
    · (repeat' split at h) <;> cases h
    · split at h
      · split at h
        · omega
        · simp only at h
          (repeat' split at h) <;> cases h
      · simp only at h
        (repeat' split at h) <;> cases h

/-- A step without an event always consumes (a box header or a jxlp index). -/
theorem step_silent (s : PState) (buf : Bytes) (s' : PState) (rest : Bytes)
    (h : step s buf = .cont none s' rest) : rest.length + 4 ≤ buf.length := by
  unfold step at h
  split at h
  · cases h
  · split at h
    · (repeat' split at h) <;> cases h
    · split at h
      · cases h
      · cases h
      · rename_i hd hs hp
        have hle := parseHeader_done_le buf hd hs hp
        rcases stepHeader_cases s.jx hd (buf.drop hs) with ⟨e', he⟩ | ⟨ev', s'', he⟩
        · rw [he] at h; cases h
        · rw [he] at h; cases h
          rw [List.length_drop]; omega
    · split at h
      · cases h
      · simp only at h
        (repeat' split at h) <;> cases h <;> (rw [List.length_drop]; omega)
    · cases h
    · cases h
    · (repeat' split at h) <;> cases h
    · split at h
      · split at h
        · cases h
        · simp only at h
          (repeat' split at h) <;> cases h
      · simp only at h
        (repeat' split at h) <;> cases h

/-- No livelock: a call that consumes nothing, emits nothing and reports no error did nothing
at all (first step was `Ok(None)`), which only happens with fewer than 16 bytes on offer. -/
theorem feed_idle (s : PState) (buf : Bytes) (he : (feed s buf).error = none)
    (hc : (feed s buf).rest.length = buf.length) (hev : (feed s buf).events = []) :
    step s buf = .stop := by
  cases hs : step s buf with
  | stop => rfl
  | err e rest => rw [feed_of_err hs] at he; cases he
  | cont ev s' rest =>
    exfalso
    rw [feed_of_cont hs] at hc hev
    simp only at hc hev
    have hnone : ev = none := by
      cases ev with
      | none => rfl
      | some e => simp at hev
    subst hnone
    have h1 := step_silent s buf s' rest hs
    have h2 := feed_rest_length_le s' rest
    omega
/-! ## Delivery for Spec files -/

/-- `r` delivers the tokens `tk` and then behaves like `r'` -/
def Delivers (r : FeedResult) (tk : List Tok) (r' : FeedResult) : Prop :=
  toks r.events = tk ++ toks r'.events ∧ r.error = r'.error ∧ r.rest = r'.rest

theorem Delivers.refl (r : FeedResult) : Delivers r [] r := ⟨by simp, rfl, rfl⟩

theorem delivers_cont {s : PState} {buf : Bytes} {ev : Option Event} {s' : PState} {rest : Bytes}
    {tk : List Tok} {r' : FeedResult}
    (h : step s buf = .cont ev s' rest) (hd : Delivers (feed s' rest) tk r') :
    Delivers (feed s buf) (toks ev.toList ++ tk) r' := by
  rw [feed_of_cont h]
  obtain ⟨h1, h2, h3⟩ := hd
  exact ⟨by simp only [toks_append, h1, List.append_assoc], h2, h3⟩

theorem nilResult (s s' : PState) : Delivers (feed s []) [] (feed s' []) := by
  rw [feed_nil, feed_nil]; exact ⟨rfl, rfl, rfl⟩

theorem ne_nil_isEmpty {l : Bytes} (h : l ≠ []) : l.isEmpty = false := by
  cases l <;> simp_all

/-- sized codestream payload -/
theorem deliver_cs_sized (k : Kind) (jx : JxlpState) (d T : Bytes) :
    Delivers (feed ⟨.inCodestream k (some d.length) false, jx⟩ (d ++ T)) (d.map .cs)
      (feed ⟨.waitingBoxHeader, jx⟩ T) := by
  by_cases hn : d ++ T = []
  · have hd : d = [] := (List.append_eq_nil_iff.mp hn).1
    have hT : T = [] := (List.append_eq_nil_iff.mp hn).2
    subst hd hT
    exact nilResult _ _
  · have hs : step ⟨.inCodestream k (some d.length) false, jx⟩ (d ++ T) =
        .cont (some (.codestream d)) ⟨.waitingBoxHeader, jx⟩ T := by
      have : d.length ≤ (d ++ T).length := by simp
      simp only [step, ne_nil_isEmpty hn, this]
      simp
    have := delivers_cont hs (Delivers.refl _)
    simpa [toks, Event.toks] using this

/-- codestream box running to the end of the file -/
theorem deliver_cs_eof (k : Kind) (jx : JxlpState) (d : Bytes) :
    Delivers (feed ⟨.inCodestream k none true, jx⟩ d)
      ((if d ≠ [] then [Tok.noMoreAux] else []) ++ d.map .cs) (feed ⟨.waitingBoxHeader, jx⟩ []) := by
  by_cases hn : d = []
  · subst hn; simpa using nilResult _ _
  · have h1 : step ⟨.inCodestream k none true, jx⟩ d =
        .cont (some .noMoreAux) ⟨.inCodestream k none false, jx⟩ d := by
      simp [step, ne_nil_isEmpty hn]
    have h2 : step ⟨.inCodestream k none false, jx⟩ d =
        .cont (some (.codestream d)) ⟨.inCodestream k none false, jx⟩ [] := by
      simp [step, ne_nil_isEmpty hn]
    have := delivers_cont h1 (delivers_cont h2 (nilResult _ ⟨.waitingBoxHeader, jx⟩))
    simpa [toks, Event.toks, hn] using this

/-- sized aux payload (also the compressed part of a brob box once its inner type is known) -/
theorem deliver_aux_sized (h : Header) (bty : Option Bytes) (jx : JxlpState) (d T : Bytes)
    (hb : ¬ (h.ty = tyBrob ∧ bty = none)) :
    Delivers (feed ⟨.inAuxBox h bty (some d.length), jx⟩ (d ++ T))
      (d.map (.aux (bty.getD h.ty)) ++ (if T ≠ [] then [Tok.auxEnd (bty.getD h.ty)] else []))
      (feed ⟨.waitingBoxHeader, jx⟩ T) := by
  -- what happens once the payload is through
  have tail : Delivers (feed ⟨.inAuxBox h bty (some 0), jx⟩ T)
      (if T ≠ [] then [Tok.auxEnd (bty.getD h.ty)] else []) (feed ⟨.waitingBoxHeader, jx⟩ T) := by
    by_cases hT : T = []
    · subst hT; simpa using nilResult _ _
    · have hs : step ⟨.inAuxBox h bty (some 0), jx⟩ T =
          .cont (some (.auxEnd (bty.getD h.ty))) ⟨.waitingBoxHeader, jx⟩ T := by
        simp only [step, ne_nil_isEmpty hT, hb]; simp
      have := delivers_cont hs (Delivers.refl _)
      simpa [toks, Event.toks, hT] using this
  by_cases hd : d = []
  · subst hd; simpa using tail
  · have hn : d ++ T ≠ [] := by simp [hd]
    have hl : d.length ≠ 0 := by cases d <;> simp_all
    have hs : step ⟨.inAuxBox h bty (some d.length), jx⟩ (d ++ T) =
        .cont (some (.auxData (bty.getD h.ty) d)) ⟨.inAuxBox h bty (some 0), jx⟩ T := by
      have m : min d.length (d ++ T).length = d.length := by simp
      simp only [step, ne_nil_isEmpty hn, hb, hl, m]
      simp
    have := delivers_cont hs tail
    simpa [toks, Event.toks] using this

/-- aux payload running to the end of the file -/
theorem deliver_aux_eof (h : Header) (bty : Option Bytes) (jx : JxlpState) (d : Bytes)
    (hb : ¬ (h.ty = tyBrob ∧ bty = none)) :
    Delivers (feed ⟨.inAuxBox h bty none, jx⟩ d) (d.map (.aux (bty.getD h.ty)))
      (feed ⟨.waitingBoxHeader, jx⟩ []) := by
  by_cases hn : d = []
  · subst hn; simpa using nilResult _ _
  · have hs : step ⟨.inAuxBox h bty none, jx⟩ d =
        .cont (some (.auxData (bty.getD h.ty) d)) ⟨.inAuxBox h bty none, jx⟩ [] := by
      simp only [step, ne_nil_isEmpty hn, hb]; simp
    have := delivers_cont hs (nilResult _ ⟨.waitingBoxHeader, jx⟩)
    simpa [toks, Event.toks] using this
theorem serHeader_length_pos (ty : Bytes) (n : Nat) (e : Enc) : 4 ≤ (serHeader ty n e).length := by
  cases e <;> simp [serHeader] <;> omega

/-- the header arm on a serialised header -/
theorem step_header_ser (jx : JxlpState) (ty : Bytes) (hty : ty.length = 4) (n : Nat) (e : Enc)
    (hf : fits n e) (rest : Bytes) :
    step ⟨.waitingBoxHeader, jx⟩ (serHeader ty n e ++ rest) =
      stepHeader jx ⟨ty, if e = .toEof then none else some n⟩ rest := by
  have hne : (serHeader ty n e ++ rest).isEmpty = false := by
    have := serHeader_length_pos ty n e
    cases h : serHeader ty n e ++ rest with
    | nil => rw [List.append_eq_nil_iff] at h; rw [h.1] at this; simp at this
    | cons => rfl
  simp only [step, hne, header_roundtrip ty hty n e hf rest]
  simp

theorem ok_fits (b : Box) (h : b.ok = true) : fits b.payload.length b.enc := by
  unfold Box.ok at h
  simp only [Bool.and_eq_true] at h
  have h1 := h.1
  cases he : b.enc <;> simp only [he, fits] at h1 ⊢
  · simpa using h1
  · simpa using h1

theorem tyJxlp_ne_tyJxlc : tyJxlp ≠ tyJxlc := by decide
theorem tyBrob_ne_tyJxlc : tyBrob ≠ tyJxlc := by decide
theorem tyBrob_ne_tyJxlp : tyBrob ≠ tyJxlp := by decide

theorem box_step_jxlc (jx : JxlpState) (d : Bytes) (e : Enc) (T : Bytes)
    (hok : (Box.jxlc d e).ok = true) (hT : T ≠ [] → e ≠ .toEof) :
    match seqStep jx (.jxlc d e) with
    | some jx' => Delivers (feed ⟨.waitingBoxHeader, jx⟩ ((Box.jxlc d e).ser ++ T))
        (boxToks (.jxlc d e) (!T.isEmpty)) (feed ⟨.waitingBoxHeader, jx'⟩ T)
    | none => (feed ⟨.waitingBoxHeader, jx⟩ ((Box.jxlc d e).ser ++ T)).error = some .invalidBox := by
  have hf := ok_fits _ hok
  have hs := step_header_ser jx tyJxlc (by decide) d.length e hf (d ++ T)
  have hser : (Box.jxlc d e).ser ++ T = serHeader tyJxlc d.length e ++ (d ++ T) := by
    simp [Box.ser, Box.ty, Box.payload, Box.enc]
  rw [hser]
  unfold stepHeader at hs
  simp only [if_true] at hs
  cases jx with
  | initial =>
    simp only [seqStep]
    simp only at hs
    by_cases he : e = .toEof
    · have hTn : T = [] := by
        by_cases h : T = []
        · exact h
        · exact absurd he (hT h)
      subst hTn
      simp only [he, if_true, Option.isNone_none] at hs
      have := delivers_cont hs (deliver_cs_eof .container .singleJxlc (d ++ []))
      simpa [toks, boxToks, he] using this
    · simp only [he, if_false, Option.isNone_some] at hs
      have := delivers_cont hs (deliver_cs_sized .container .singleJxlc d T)
      simpa [toks, boxToks, he] using this
  | singleJxlc => simp only [seqStep]; simp only at hs; rw [feed_of_err hs]
  | jxlp i => simp only [seqStep]; simp only at hs; rw [feed_of_err hs]
  | finished => simp only [seqStep]; simp only at hs; rw [feed_of_err hs]

theorem eof_T_nil {e : Enc} {T : Bytes} (hT : T ≠ [] → e ≠ .toEof) (he : e = .toEof) : T = [] := by
  by_cases h : T = []
  · exact h
  · exact absurd he (hT h)

theorem box_step_aux (jx : JxlpState) (ty d : Bytes) (e : Enc) (T : Bytes)
    (hok : (Box.aux ty d e).ok = true) (hT : T ≠ [] → e ≠ .toEof) :
    Delivers (feed ⟨.waitingBoxHeader, jx⟩ ((Box.aux ty d e).ser ++ T))
        (boxToks (.aux ty d e) (!T.isEmpty)) (feed ⟨.waitingBoxHeader, jx⟩ T) := by
  have hf := ok_fits _ hok
  have hty : ty.length = 4 ∧ ty ≠ tyJxlc ∧ ty ≠ tyJxlp ∧ ty ≠ tyBrob := by
    unfold Box.ok at hok
    simp only [Bool.and_eq_true] at hok
    simpa [and_assoc] using hok.2
  obtain ⟨h4, n1, n2, n3⟩ := hty
  have hs := step_header_ser jx ty h4 d.length e hf (d ++ T)
  have hser : (Box.aux ty d e).ser ++ T = serHeader ty d.length e ++ (d ++ T) := by
    simp [Box.ser, Box.ty, Box.payload, Box.enc]
  rw [hser]
  unfold stepHeader at hs
  simp only [n1, n2, n3, if_false] at hs
  have hb : ∀ sz, ¬ ((⟨ty, sz⟩ : Header).ty = tyBrob ∧ (none : Option Bytes) = none) := by
    intro sz; simp [n3]
  by_cases he : e = .toEof
  · have hTn := eof_T_nil hT he
    subst hTn
    simp only [he, if_true, Option.isNone_none] at hs
    have := delivers_cont hs (deliver_aux_eof _ none jx (d ++ []) (hb _))
    simpa [toks, Event.toks, boxToks, he] using this
  · simp only [he, if_false, Option.isNone_some] at hs
    have := delivers_cont hs (deliver_aux_sized _ none jx d T (hb _))
    simpa [toks, Event.toks, boxToks, he] using this

theorem box_step_brob (jx : JxlpState) (inner d : Bytes) (e : Enc) (T : Bytes)
    (hok : (Box.brob inner d e).ok = true) (hT : T ≠ [] → e ≠ .toEof) :
    Delivers (feed ⟨.waitingBoxHeader, jx⟩ ((Box.brob inner d e).ser ++ T))
        (boxToks (.brob inner d e) (!T.isEmpty)) (feed ⟨.waitingBoxHeader, jx⟩ T) := by
  have hf := ok_fits _ hok
  have hin : inner.length = 4 ∧ reservedInner inner = false := by
    unfold Box.ok at hok
    simp only [Bool.and_eq_true] at hok
    simpa using hok.2
  obtain ⟨h4, hres⟩ := hin
  have hs := step_header_ser jx tyBrob (by decide) (inner ++ d).length e hf (inner ++ (d ++ T))
  have hser : (Box.brob inner d e).ser ++ T = serHeader tyBrob (inner ++ d).length e ++ (inner ++ (d ++ T)) := by
    simp [Box.ser, Box.ty, Box.payload, Box.enc]
  rw [hser]
  unfold stepHeader at hs
  have hsmall : ¬ ((inner ++ d).length < 4) := by simp [h4]
  simp only [tyBrob_ne_tyJxlc, tyBrob_ne_tyJxlp, if_false, if_true] at hs
  have hne : (inner ++ (d ++ T)).isEmpty = false := by
    cases inner <;> simp_all
  have hl4 : ¬ (inner ++ (d ++ T)).length < 4 := by simp [h4]
  have t4 : (inner ++ (d ++ T)).take 4 = inner := take4_pre _ _ h4
  have d4 : (inner ++ (d ++ T)).drop 4 = d ++ T := drop4_pre _ _ h4
  by_cases he : e = .toEof
  · have hTn := eof_T_nil hT he
    subst hTn
    simp only [he, if_true] at hs
    have hs' : step ⟨.waitingBoxHeader, jx⟩ (serHeader tyBrob (inner ++ d).length e ++ (inner ++ (d ++ []))) =
        .cont none ⟨.inAuxBox ⟨tyBrob, none⟩ none none, jx⟩ (inner ++ (d ++ [])) := by
      rw [he, hs]; simp
    have hs2 : step ⟨.inAuxBox ⟨tyBrob, none⟩ none none, jx⟩ (inner ++ (d ++ [])) =
        .cont (some (.auxStart inner true true)) ⟨.inAuxBox ⟨tyBrob, none⟩ (some inner) none, jx⟩ (d ++ []) := by
      simp only [step, hne, hl4, t4, d4, hres]
      simp
    have := delivers_cont hs' (delivers_cont hs2 (deliver_aux_eof ⟨tyBrob, none⟩ (some inner) jx (d ++ []) (by simp)))
    simpa [toks, Event.toks, boxToks, he] using this
  · simp only [he, if_false] at hs
    have hs' : step ⟨.waitingBoxHeader, jx⟩ (serHeader tyBrob (inner ++ d).length e ++ (inner ++ (d ++ T))) =
        .cont none ⟨.inAuxBox ⟨tyBrob, some (inner ++ d).length⟩ none (some (inner ++ d).length), jx⟩ (inner ++ (d ++ T)) := by
      rw [hs]; simp [h4]
    have hs2 : step ⟨.inAuxBox ⟨tyBrob, some (inner ++ d).length⟩ none (some (inner ++ d).length), jx⟩ (inner ++ (d ++ T)) =
        .cont (some (.auxStart inner true false))
          ⟨.inAuxBox ⟨tyBrob, some (inner ++ d).length⟩ (some inner) (some d.length), jx⟩ (d ++ T) := by
      simp only [step, hne, hl4, t4, d4, hres, hsmall]
      simp [h4]
    have := delivers_cont hs' (delivers_cont hs2 (deliver_aux_sized ⟨tyBrob, some (inner ++ d).length⟩ (some inner) jx d T (by simp)))
    simpa [toks, Event.toks, boxToks, he] using this

/-- the `WaitingJxlpIndex` arm on a serialised index field -/
theorem step_jxlp_index (h : Header) (expected i : Nat) (last : Bool) (hi : i < 2 ^ 31)
    (rest : Bytes) :
    step ⟨.waitingJxlpIndex h, .jxlp expected⟩ (beEnc 4 (i + if last then 2 ^ 31 else 0) ++ rest) =
      if expected = i then
        match h.size with
        | some n =>
          if n < 4 then .err .panicUnderflow rest
          else .cont none ⟨.inCodestream .container (some (n - 4)) false,
                           if last then .finished else .jxlp expected⟩ rest
        | none =>
          .cont none ⟨.inCodestream .container none true,
                      if last then .finished else .jxlp expected⟩ rest
      else .err .invalidBox rest := by
  have hne : (beEnc 4 (i + if last then 2 ^ 31 else 0) ++ rest).isEmpty = false := by
    cases hc : beEnc 4 (i + if last then 2 ^ 31 else 0) ++ rest with
    | nil =>
      have := congrArg List.length hc
      simp at this
    | cons => rfl
  have hl4 : ¬ (beEnc 4 (i + if last then 2 ^ 31 else 0) ++ rest).length < 4 := by simp
  have t4 := take4_pre (beEnc 4 (i + if last then 2 ^ 31 else 0)) rest (by simp)
  have d4 := drop4_pre (beEnc 4 (i + if last then 2 ^ 31 else 0)) rest (by simp)
  have hv : beNat (beEnc 4 (i + if last then 2 ^ 31 else 0)) = i + if last then 2 ^ 31 else 0 := by
    rw [beNat_beEnc]; apply Nat.mod_eq_of_lt
    cases last <;> simp <;> omega
  have hidx : (i + if last then 2 ^ 31 else 0) % 2 ^ 31 = i := by
    cases last <;> simp <;> omega
  have hlast : decide (2 ^ 31 ≤ i + if last then 2 ^ 31 else 0) = last := by
    cases last <;> simp <;> omega
  simp only [step, hne, hl4, t4, d4, hv, hidx, hlast]
  by_cases hexp : expected = i
  · simp only [hexp, if_true]
    cases h.size <;> rfl
  · simp only [hexp, if_false]
    simp

theorem box_step_jxlp (jx : JxlpState) (i : Nat) (last : Bool) (d : Bytes) (e : Enc) (T : Bytes)
    (hok : (Box.jxlp i last d e).ok = true) (hT : T ≠ [] → e ≠ .toEof) :
    match seqStep jx (.jxlp i last d e) with
    | some jx' => Delivers (feed ⟨.waitingBoxHeader, jx⟩ ((Box.jxlp i last d e).ser ++ T))
        (boxToks (.jxlp i last d e) (!T.isEmpty)) (feed ⟨.waitingBoxHeader, jx'⟩ T)
    | none => (feed ⟨.waitingBoxHeader, jx⟩ ((Box.jxlp i last d e).ser ++ T)).error = some .invalidBox := by
  have hf := ok_fits _ hok
  have hi : i < 2 ^ 31 := by
    unfold Box.ok at hok
    simp only [Bool.and_eq_true] at hok
    simpa using hok.2
  generalize hv : (i + if last then 2 ^ 31 else 0) = v at *
  have hs := step_header_ser jx tyJxlp (by decide) (beEnc 4 v ++ d).length e
    (by simpa [Box.payload, Box.enc, hv] using hf) (beEnc 4 v ++ (d ++ T))
  have hser : (Box.jxlp i last d e).ser ++ T = serHeader tyJxlp (beEnc 4 v ++ d).length e ++ (beEnc 4 v ++ (d ++ T)) := by
    simp [Box.ser, Box.ty, Box.payload, Box.enc, hv]
  rw [hser]
  unfold stepHeader at hs
  simp only [tyJxlp_ne_tyJxlc, if_false, if_true] at hs
  -- the payload part, once the index was accepted
  have payload : ∀ jx' : JxlpState, ∀ st : DState,
      st = (match (if e = .toEof then none else some (beEnc 4 v ++ d).length : Option Nat) with
        | some n => .inCodestream .container (some (n - 4)) false
        | none => .inCodestream .container none true) →
      Delivers (feed ⟨st, jx'⟩ (d ++ T)) (boxToks (.jxlp i last d e) (!T.isEmpty))
        (feed ⟨.waitingBoxHeader, jx'⟩ T) := by
    intro jx' st hst
    by_cases he : e = .toEof
    · have hTn := eof_T_nil hT he
      subst hTn
      simp only [he, if_true] at hst
      subst hst
      have := deliver_cs_eof .container jx' (d ++ [])
      simpa [boxToks, he] using this
    · simp only [he, if_false] at hst
      have : (beEnc 4 v ++ d).length - 4 = d.length := by simp
      rw [this] at hst
      subst hst
      have := deliver_cs_sized .container jx' d T
      simpa [boxToks, he] using this
  -- the index step from `jxlp expected`
  have index : ∀ expected : Nat,
      (expected = i → Delivers (feed ⟨.waitingJxlpIndex ⟨tyJxlp, if e = .toEof then none else some (beEnc 4 v ++ d).length⟩, .jxlp expected⟩ (beEnc 4 v ++ (d ++ T)))
        (boxToks (.jxlp i last d e) (!T.isEmpty))
        (feed ⟨.waitingBoxHeader, if last then .finished else .jxlp expected⟩ T)) ∧
      (expected ≠ i → (feed ⟨.waitingJxlpIndex ⟨tyJxlp, if e = .toEof then none else some (beEnc 4 v ++ d).length⟩, .jxlp expected⟩ (beEnc 4 v ++ (d ++ T))).error = some .invalidBox) := by
    intro expected
    have hx := step_jxlp_index ⟨tyJxlp, if e = .toEof then none else some (beEnc 4 v ++ d).length⟩ expected i last hi (d ++ T)
    rw [hv] at hx
    constructor
    · intro heq
      simp only [heq, if_true] at hx
      by_cases he : e = .toEof
      · simp only [he, if_true] at hx
        have := delivers_cont hx (payload _ _ (by simp [he]))
        simpa [toks, heq, he] using this
      · simp only [he, if_false] at hx ⊢
        have h4 : ¬ (beEnc 4 v ++ d).length < 4 := by simp
        simp only [h4, if_false] at hx
        have := delivers_cont hx (payload _ _ (by simp [he]))
        simpa [toks, heq] using this
    · intro hne
      simp only [hne, if_false] at hx
      rw [feed_of_err hx]
  cases jx with
  | initial =>
    have hs' : step ⟨.waitingBoxHeader, .initial⟩ (serHeader tyJxlp (beEnc 4 v ++ d).length e ++ (beEnc 4 v ++ (d ++ T))) =
        .cont none ⟨.waitingJxlpIndex ⟨tyJxlp, if e = .toEof then none else some (beEnc 4 v ++ d).length⟩, .jxlp 0⟩
          (beEnc 4 v ++ (d ++ T)) := by
      rw [hs]; by_cases he : e = .toEof <;> simp [he]
    simp only [seqStep]
    by_cases h0 : i = 0
    · have := delivers_cont hs' ((index 0).1 h0.symm)
      simpa [toks, h0] using this
    · simp only [h0, if_false]
      rw [feed_of_cont hs']
      exact (index 0).2 (fun h => h0 h.symm)
  | jxlp e0 =>
    have hs' : step ⟨.waitingBoxHeader, .jxlp e0⟩ (serHeader tyJxlp (beEnc 4 v ++ d).length e ++ (beEnc 4 v ++ (d ++ T))) =
        .cont none ⟨.waitingJxlpIndex ⟨tyJxlp, if e = .toEof then none else some (beEnc 4 v ++ d).length⟩, .jxlp (e0 + 1)⟩
          (beEnc 4 v ++ (d ++ T)) := by
      rw [hs]; by_cases he : e = .toEof <;> simp [he]
    simp only [seqStep]
    by_cases h0 : i = e0 + 1
    · have := delivers_cont hs' ((index (e0 + 1)).1 h0.symm)
      simpa [toks, h0] using this
    · simp only [h0, if_false]
      rw [feed_of_cont hs']
      exact (index (e0 + 1)).2 (fun h => h0 h.symm)
  | singleJxlc =>
    have hs' : step ⟨.waitingBoxHeader, .singleJxlc⟩ (serHeader tyJxlp (beEnc 4 v ++ d).length e ++ (beEnc 4 v ++ (d ++ T))) =
        .err .invalidBox (beEnc 4 v ++ (d ++ T)) := by
      rw [hs]; by_cases he : e = .toEof <;> simp [he]
    simp only [seqStep]; rw [feed_of_err hs']
  | finished =>
    have hs' : step ⟨.waitingBoxHeader, .finished⟩ (serHeader tyJxlp (beEnc 4 v ++ d).length e ++ (beEnc 4 v ++ (d ++ T))) =
        .err .invalidBox (beEnc 4 v ++ (d ++ T)) := by
      rw [hs]; by_cases he : e = .toEof <;> simp [he]
    simp only [seqStep]; rw [feed_of_err hs']
/-- one box, any kind -/
theorem box_step (jx : JxlpState) (b : Box) (T : Bytes) (hok : b.ok = true)
    (hT : T ≠ [] → b.enc ≠ .toEof) :
    match seqStep jx b with
    | some jx' => Delivers (feed ⟨.waitingBoxHeader, jx⟩ (b.ser ++ T)) (boxToks b (!T.isEmpty))
        (feed ⟨.waitingBoxHeader, jx'⟩ T)
    | none => (feed ⟨.waitingBoxHeader, jx⟩ (b.ser ++ T)).error = some .invalidBox := by
  cases b with
  | jxlc d e => exact box_step_jxlc jx d e T hok hT
  | jxlp i last d e => exact box_step_jxlp jx i last d e T hok hT
  | aux ty d e => simpa [seqStep] using box_step_aux jx ty d e T hok hT
  | brob inner d e => simpa [seqStep] using box_step_brob jx inner d e T hok hT

theorem ser_ne_nil (b : Box) : b.ser ≠ [] := by
  intro h
  have := serHeader_length_pos b.ty b.payload.length b.enc
  have h2 := congrArg List.length h
  simp only [Box.ser, List.length_append, List.length_nil] at h2
  omega

theorem serBoxes_isEmpty (bs : List Box) : (serBoxes bs).isEmpty = bs.isEmpty := by
  cases bs with
  | nil => rfl
  | cons b r =>
    have := ser_ne_nil b
    cases h : b.ser with
    | nil => exact absurd h this
    | cons x xs => simp [serBoxes, h]

/-- A list of boxes followed by arbitrary bytes `t` (which must be empty if the last box runs to
the end of the file): either the sequence discipline holds and exactly the expected tokens are
delivered before the parser goes on with `t`, or it is violated and the run ends in `InvalidBox`. -/
theorem feed_boxes (t : Bytes) (bs : List Box) : ∀ (jx : JxlpState), shapeOk bs = true →
    (t ≠ [] → ∀ b ∈ bs, b.enc ≠ .toEof) →
    match seqFrom jx bs with
    | some jx' => Delivers (feed ⟨.waitingBoxHeader, jx⟩ (serBoxes bs ++ t))
        (expectedM (!t.isEmpty) bs) (feed ⟨.waitingBoxHeader, jx'⟩ t)
    | none => (feed ⟨.waitingBoxHeader, jx⟩ (serBoxes bs ++ t)).error = some .invalidBox := by
  induction bs with
  | nil => intro jx _ _; simpa [seqFrom, serBoxes, expectedM] using Delivers.refl _
  | cons b r ih =>
    intro jx hshape ht
    simp only [shapeOk, Bool.and_eq_true, Bool.or_eq_true, bne_iff_ne, ne_eq] at hshape
    obtain ⟨⟨hok, heof⟩, hr⟩ := hshape
    have hser : serBoxes (b :: r) ++ t = b.ser ++ (serBoxes r ++ t) := by simp [serBoxes]
    have hT : serBoxes r ++ t ≠ [] → b.enc ≠ .toEof := by
      intro hne
      by_cases htn : t = []
      · rcases heof with h | h
        · exact h
        · exfalso; apply hne
          have : r = [] := by simpa using h
          simp [this, htn, serBoxes]
      · exact ht htn b (by simp)
    have hb := box_step jx b (serBoxes r ++ t) hok hT
    rw [hser]
    simp only [seqFrom]
    cases hq : seqStep jx b with
    | none => simp only [hq] at hb ⊢; exact hb
    | some jx' =>
      simp only [hq] at hb ⊢
      have ih' := ih jx' hr (fun htn b' hb' => ht htn b' (by simp [hb']))
      have hmore : (!(serBoxes r ++ t).isEmpty) = (!t.isEmpty || !r.isEmpty) := by
        have := serBoxes_isEmpty r
        cases hr' : serBoxes r with
        | nil => rw [hr'] at this; cases r <;> simp_all
        | cons x xs => rw [hr'] at this; cases r <;> simp_all
      cases hq2 : seqFrom jx' r with
      | none =>
        simp only [hq2] at ih' ⊢
        rw [hb.2.1]; exact ih'
      | some jx'' =>
        simp only [hq2] at ih' ⊢
        obtain ⟨b1, b2, b3⟩ := hb
        obtain ⟨i1, i2, i3⟩ := ih'
        refine ⟨?_, by rw [b2, i2], by rw [b3, i3]⟩
        rw [b1, i1, expectedM, hmore, List.append_assoc]
/-! ## From the token stream back to codestream and aux boxes -/

theorem codestreamOf_append (x y : List Tok) : codestreamOf (x ++ y) = codestreamOf x ++ codestreamOf y := by
  induction x with
  | nil => rfl
  | cons t x ih => cases t <;> simp [codestreamOf, ih]

theorem codestreamOf_cs (d : Bytes) : codestreamOf (d.map .cs) = d := by
  induction d with
  | nil => rfl
  | cons b d ih => simp [codestreamOf, ih]

theorem codestreamOf_aux (ty d : Bytes) : codestreamOf (d.map (.aux ty)) = [] := by
  induction d with
  | nil => rfl
  | cons b d ih => simp [codestreamOf, ih]

theorem codestreamOf_boxToks (b : Box) (m : Bool) :
    codestreamOf (boxToks b m) = match b with | .jxlc d _ => d | .jxlp _ _ d _ => d | _ => [] := by
  cases b with
  | jxlc d e =>
    simp only [boxToks, codestreamOf_append, codestreamOf_cs]
    split <;> simp [codestreamOf]
  | jxlp i l d e =>
    simp only [boxToks, codestreamOf_append, codestreamOf_cs]
    split <;> simp [codestreamOf]
  | aux ty d e =>
    simp only [boxToks, codestreamOf_append, codestreamOf_aux]
    split <;> simp [codestreamOf]
  | brob ty d e =>
    simp only [boxToks, codestreamOf_append, codestreamOf_aux]
    split <;> simp [codestreamOf]

theorem codestreamOf_expectedM (m : Bool) (bs : List Box) :
    codestreamOf (expectedM m bs) = codestream bs := by
  induction bs with
  | nil => rfl
  | cons b r ih =>
    rw [expectedM, codestreamOf_append, codestreamOf_boxToks, ih]
    cases b <;> simp [codestream]

theorem auxPayload_map (ty d : Bytes) (y : List Tok) :
    auxPayload (d.map (.aux ty) ++ y) = d ++ auxPayload y := by
  induction d with
  | nil => rfl
  | cons b d ih => simp [auxPayload, ih]

theorem auxOf_aux (ty d : Bytes) (y : List Tok) : auxOf (d.map (.aux ty) ++ y) = auxOf y := by
  induction d with
  | nil => rfl
  | cons b d ih => simp [auxOf, ih]

theorem auxOf_cs (d : Bytes) (y : List Tok) : auxOf (d.map .cs ++ y) = auxOf y := by
  induction d with
  | nil => rfl
  | cons b d ih => simp [auxOf, ih]

theorem auxPayload_cs (d : Bytes) (y : List Tok) (h : d ≠ []) : auxPayload (d.map .cs ++ y) = [] := by
  cases d with
  | nil => exact absurd rfl h
  | cons b d => simp [auxPayload]

/-- the tokens of a box list never start with a payload token of a preceding aux box -/
theorem auxPayload_expectedM (m : Bool) (bs : List Box) : auxPayload (expectedM m bs) = [] := by
  induction bs with
  | nil => rfl
  | cons b r ih =>
    rw [expectedM]
    cases b with
    | jxlc d e =>
      simp only [boxToks]
      split
      · simp [auxPayload]
      · by_cases hd : d = []
        · subst hd; simpa using ih
        · simp [auxPayload_cs d _ hd]
    | jxlp i l d e =>
      simp only [boxToks]
      split
      · simp [auxPayload]
      · by_cases hd : d = []
        · subst hd; simpa using ih
        · simp [auxPayload_cs d _ hd]
    | aux ty d e => simp [boxToks, auxPayload]
    | brob ty d e => simp [boxToks, auxPayload]

theorem auxOf_expectedM (m : Bool) (bs : List Box) : auxOf (expectedM m bs) = aux bs := by
  induction bs with
  | nil => rfl
  | cons b r ih =>
    rw [expectedM]
    cases b with
    | jxlc d e =>
      simp only [boxToks, aux]
      split <;> simp [auxOf, auxOf_cs, ih]
    | jxlp i l d e =>
      simp only [boxToks, aux]
      split <;> simp [auxOf, auxOf_cs, ih]
    | aux ty d e =>
      simp only [boxToks, aux, List.append_assoc, List.cons_append, List.nil_append]
      split
      · rw [auxOf, auxPayload_map, auxOf_aux]
        simp [auxOf, auxPayload, ih]
      · rw [auxOf, auxPayload_map, auxOf_aux]
        simp [ih, auxPayload_expectedM]
    | brob ty d e =>
      simp only [boxToks, aux, List.append_assoc, List.cons_append, List.nil_append]
      split
      · rw [auxOf, auxPayload_map, auxOf_aux]
        simp [auxOf, auxPayload, ih]
      · rw [auxOf, auxPayload_map, auxOf_aux]
        simp [ih, auxPayload_expectedM]

/-! ## Whole files -/

theorem step_init_container (X : Bytes) :
    step init (contSig ++ X) = .cont (some (.kind .container)) ⟨.waitingBoxHeader, .initial⟩ X := by
  have h1 : csSig.isPrefixOf (contSig ++ X) = false := by simp [csSig, contSig, List.isPrefixOf]
  have h2 : contSig.isPrefixOf (contSig ++ X) = true :=
    List.isPrefixOf_iff_prefix.mpr (List.prefix_append _ _)
  have h3 : (contSig ++ X).isEmpty = false := by simp [contSig]
  have h4 : (contSig ++ X).drop 12 = X := by
    have : contSig.length = 12 := by decide
    rw [← this]; exact List.drop_left
  simp only [step, init, h1, h2, h3, h4]
  simp

theorem feed_file (bs : List Box) (hs : shapeOk bs = true) :
    match seqFrom .initial bs with
    | some _ => (feed init (serFile bs)).error = none ∧ (feed init (serFile bs)).rest = [] ∧
        toks (feed init (serFile bs)).events = Tok.kind .container :: expected bs
    | none => (feed init (serFile bs)).error = some .invalidBox := by
  have hb := feed_boxes [] bs .initial hs (fun h => absurd rfl h)
  rw [serFile, feed_of_cont (step_init_container _)]
  rw [List.append_nil] at hb
  cases hq : seqFrom .initial bs with
  | none => simp only [hq] at hb ⊢; exact hb
  | some jx' =>
    simp only [hq] at hb ⊢
    obtain ⟨h1, h2, h3⟩ := hb
    rw [feed_nil] at h1 h2 h3
    refine ⟨h2, h3, ?_⟩
    rw [toks_append, h1]
    simp [toks, Event.toks, expected]
/-! ## The two panic sites are unreachable -/

/-- invariant of every reachable parser state -/
def Inv (s : PState) : Prop :=
  match s.st with
  | .waitingJxlpIndex h => (∃ e, s.jx = .jxlp e) ∧ (∀ n, h.size = some n → 4 ≤ n)
  | .inAuxBox h bty left => (h.ty = tyBrob ∧ bty = none) → ∀ n, left = some n → 4 ≤ n
  | _ => True

def Err.isPanic : Err → Bool
  | .panicUnreachable | .panicUnderflow => true
  | _ => false

theorem inv_init : Inv init := by simp [Inv, init]

theorem stepHeader_inv (jx : JxlpState) (h : Header) (rest : Bytes) :
    (∀ e r, stepHeader jx h rest = .err e r → e = .invalidBox) ∧
    (∀ ev s' r, stepHeader jx h rest = .cont ev s' r → Inv s') := by
  obtain ⟨ty, size⟩ := h
  unfold stepHeader
  constructor
  · intro e r hh
    cases size <;> simp only at hh <;> (repeat' split at hh) <;> cases hh <;> rfl
  · intro ev s' r hh
    cases size with
    | none =>
      simp only at hh
      (repeat' split at hh) <;> cases hh <;> simp_all [Inv]
    | some n =>
      simp only at hh
      by_cases hn : n < 4
      · simp only [hn, decide_true, if_true] at hh
        (repeat' split at hh) <;> cases hh <;> simp_all [Inv]
      · simp only [hn, decide_false, Bool.false_eq_true, if_false] at hh
        (repeat' split at hh) <;> cases hh <;> simp_all [Inv] <;> omega

theorem step_inv (s : PState) (buf : Bytes) (hi : Inv s) :
    (∀ e r, step s buf = .err e r → e.isPanic = false) ∧
    (∀ ev s' r, step s buf = .cont ev s' r → Inv s') := by
  by_cases hne : buf.isEmpty = true
  · have : step s buf = .stop := by simp [step, hne]
    rw [this]
    constructor
    · intro e r h; cases h
    · intro ev s' r h; cases h
  · have hne : buf.isEmpty = false := by simpa using hne
    obtain ⟨st, jx⟩ := s
    cases st with
    | waitingSignature =>
      constructor
      · intro e r h; simp only [step, hne] at h; (repeat' split at h) <;> cases h
      · intro ev s' r h; simp only [step, hne] at h; (repeat' split at h) <;> cases h <;> simp [Inv]
    | waitingBoxHeader =>
      constructor
      · intro e r h
        simp only [step, hne] at h
        cases hp : parseHeader buf with
        | invalid => rw [hp] at h; cases h; rfl
        | needMore => rw [hp] at h; cases h
        | done hh hs => rw [hp] at h; rw [(stepHeader_inv _ _ _).1 e r h]; rfl
      · intro ev s' r h
        simp only [step, hne] at h
        cases hp : parseHeader buf with
        | invalid => rw [hp] at h; cases h
        | needMore => rw [hp] at h; cases h
        | done hh hs => rw [hp] at h; exact (stepHeader_inv _ _ _).2 ev s' r h
    | waitingJxlpIndex hd =>
      obtain ⟨⟨e0, hjx⟩, hsz⟩ := hi
      simp only at hjx
      subst hjx
      obtain ⟨ty, size⟩ := hd
      constructor
      · intro e r h
        simp only [step, hne] at h
        cases size with
        | none => simp only at h; (repeat' split at h) <;> first | (cases h; rfl) | cases h | (rename_i hq _; cases hq)
        | some n =>
          have := hsz n rfl
          have hn : ¬ n < 4 := by omega
          simp only [hn, if_false] at h
          (repeat' split at h) <;> cases h <;> rfl
      · intro ev s' r h
        simp only [step, hne] at h
        cases size <;> simp only at h <;> (repeat' split at h) <;> cases h <;> simp [Inv]
    | inCodestream k left pending =>
      constructor
      · intro e r h
        cases pending <;> cases left <;> simp only [step, hne] at h <;> (repeat' split at h) <;> cases h
      · intro ev s' r h
        cases pending <;> cases left <;> simp only [step, hne] at h <;> (repeat' split at h) <;> cases h <;> simp [Inv]
    | inAuxBox hd bty left =>
      by_cases hb : hd.ty = tyBrob ∧ bty = none
      · constructor
        · intro e r h
          simp only [step, hne, hb, and_self, if_true] at h
          cases left with
          | none => simp only at h; (repeat' split at h) <;> cases h <;> rfl
          | some n =>
            have := hi hb n rfl
            have hn : ¬ n < 4 := by omega
            simp only [hn, if_false] at h
            (repeat' split at h) <;> cases h <;> rfl
        · intro ev s' r h
          simp only [step, hne, hb, and_self, if_true] at h
          cases left <;> simp only at h <;> (repeat' split at h) <;> cases h <;> simp [Inv]
      · constructor
        · intro e r h
          simp only [step, hne, hb, if_false] at h
          cases left <;> simp only at h <;> (repeat' split at h) <;> cases h
        · intro ev s' r h
          simp only [step, hne, hb, if_false] at h
          cases left <;> simp only at h <;> (repeat' split at h) <;> cases h <;>
            first | (simp [Inv]; done) | (simp only [Inv]; intro hc; exact absurd hc hb) |
              (simp only [Inv]; intro h1 h2; exact absurd ⟨h1, h2⟩ hb)

theorem feed_inv : ∀ (s : PState) (buf : Bytes), Inv s →
    Inv (feed s buf).state ∧ ∀ e, (feed s buf).error = some e → e.isPanic = false := by
  apply feed_induct
  intro s buf ih hi
  cases hs : step s buf with
  | stop => rw [feed_of_stop hs]; exact ⟨hi, fun e h => by cases h⟩
  | err e rest =>
    rw [feed_of_err hs]
    exact ⟨hi, fun e' h => by cases h; exact (step_inv s buf hi).1 e rest hs⟩
  | cont ev s' rest =>
    rw [feed_of_cont hs]
    exact ih ev s' rest hs ((step_inv s buf hi).2 ev s' rest hs)

theorem feedChunks_inv (cs : List Bytes) : ∀ (s : PState) (pending : Bytes), Inv s →
    Inv (feedChunks s pending cs).state ∧
      ∀ e, (feedChunks s pending cs).error = some e → e.isPanic = false := by
  induction cs with
  | nil => intro s p hi; exact ⟨hi, fun e h => by cases h⟩
  | cons c cs ih =>
    intro s p hi
    have h1 := feed_inv s (p ++ c) hi
    rw [feedChunks]
    cases he : (feed s (p ++ c)).error with
    | some e => simp only; exact ⟨h1.1, fun e' h => h1.2 e' h⟩
    | none => simp only; exact ih _ _ h1.1
/-! ## Undersized boxes and compressed reserved types -/

/-- byte strings that start with a box the parser must reject as undersized -/
inductive Undersized : Bytes → Prop
  /-- 32-bit size field 2..7: smaller than the header itself -/
  | sizeField (v : Nat) (ty rest : Bytes) : 2 ≤ v → v < 8 → ty.length = 4 →
      Undersized (beEnc 4 v ++ ty ++ rest)
  /-- 64-bit size smaller than the 16-byte header -/
  | xlSize (v : Nat) (ty rest : Bytes) : v < 16 → ty.length = 4 →
      Undersized (beEnc 4 1 ++ ty ++ (beEnc 8 v ++ rest))
  /-- `jxlp` box too small for its 4-byte index -/
  | jxlpSmall (n : Nat) (e : Enc) (rest : Bytes) : n < 4 → e ≠ .toEof → fits n e →
      Undersized (serHeader tyJxlp n e ++ rest)
  /-- `brob` box too small for its 4-byte inner type -/
  | brobSmall (n : Nat) (e : Enc) (rest : Bytes) : n < 4 → e ≠ .toEof → fits n e →
      Undersized (serHeader tyBrob n e ++ rest)

theorem append_isEmpty_false {x y : Bytes} (h : 0 < x.length) : (x ++ y).isEmpty = false := by
  cases x with
  | nil => simp at h
  | cons => rfl

theorem undersized_err (jx : JxlpState) (t : Bytes) (h : Undersized t) :
    (feed ⟨.waitingBoxHeader, jx⟩ t).error = some .invalidBox := by
  cases h with
  | sizeField v ty rest h2 h8 hty =>
    have hp := parseHeader_short ty hty v (by omega) rest
    have h1 : ¬ v = 1 := by omega
    have h0 : ¬ v = 0 := by omega
    simp only [h1, h0, h8, if_false, if_true] at hp
    have hne : (beEnc 4 v ++ ty ++ rest).isEmpty = false := by
      rw [List.append_assoc]; exact append_isEmpty_false (by simp)
    have hs : step ⟨.waitingBoxHeader, jx⟩ (beEnc 4 v ++ ty ++ rest) = .err .invalidBox (beEnc 4 v ++ ty ++ rest) := by
      simp only [step, hne, hp]; simp
    rw [feed_of_err hs]
  | xlSize v ty rest h16 hty =>
    have hp := parseHeader_short ty hty 1 (by decide) (beEnc 8 v ++ rest)
    have hl : ¬ (beEnc 8 v ++ rest).length < 8 := by simp
    have t8 : (beEnc 8 v ++ rest).take 8 = beEnc 8 v := by
      have : (beEnc 8 v).length = 8 := by simp
      conv => lhs; rw [← this]
      exact List.take_left
    have hb : beNat (beEnc 8 v) = v := by rw [beNat_beEnc]; exact Nat.mod_eq_of_lt (by omega)
    simp only [if_true, hl, if_false, t8, hb, h16] at hp
    have hne : (beEnc 4 1 ++ ty ++ (beEnc 8 v ++ rest)).isEmpty = false := by
      rw [List.append_assoc]; exact append_isEmpty_false (by simp)
    have hs : step ⟨.waitingBoxHeader, jx⟩ (beEnc 4 1 ++ ty ++ (beEnc 8 v ++ rest)) =
        .err .invalidBox (beEnc 4 1 ++ ty ++ (beEnc 8 v ++ rest)) := by
      simp only [step, hne, hp]; simp
    rw [feed_of_err hs]
  | jxlpSmall n e rest hn he hf =>
    have hs := step_header_ser jx tyJxlp (by decide) n e hf rest
    unfold stepHeader at hs
    simp only [tyJxlp_ne_tyJxlc, if_false, if_true, he, hn, decide_true] at hs
    rw [feed_of_err hs]
  | brobSmall n e rest hn he hf =>
    have hs := step_header_ser jx tyBrob (by decide) n e hf rest
    unfold stepHeader at hs
    simp only [tyBrob_ne_tyJxlc, tyBrob_ne_tyJxlp, if_false, if_true, he, hn, decide_true] at hs
    rw [feed_of_err hs]

/-- a `brob` box wrapping a reserved type (`jxl?`, `brob`, `jbrd`) is refused -/
theorem brob_reserved_err (jx : JxlpState) (n : Nat) (e : Enc) (inner rest : Bytes)
    (hin : inner.length = 4) (hres : reservedInner inner = true) (hf : fits n e)
    (hn : e = .toEof ∨ 4 ≤ n) :
    (feed ⟨.waitingBoxHeader, jx⟩ (serHeader tyBrob n e ++ (inner ++ rest))).error =
      some .validationFailed := by
  have hs := step_header_ser jx tyBrob (by decide) n e hf (inner ++ rest)
  unfold stepHeader at hs
  simp only [tyBrob_ne_tyJxlc, tyBrob_ne_tyJxlp, if_false, if_true] at hs
  have hne : (inner ++ rest).isEmpty = false := append_isEmpty_false (by omega)
  have hl4 : ¬ (inner ++ rest).length < 4 := by simp [hin]
  have t4 : (inner ++ rest).take 4 = inner := take4_pre _ _ hin
  have d4 : (inner ++ rest).drop 4 = rest := drop4_pre _ _ hin
  by_cases he : e = .toEof
  · have hs' : step ⟨.waitingBoxHeader, jx⟩ (serHeader tyBrob n e ++ (inner ++ rest)) =
        .cont none ⟨.inAuxBox ⟨tyBrob, none⟩ none none, jx⟩ (inner ++ rest) := by
      rw [hs]; simp [he]
    have hs2 : step ⟨.inAuxBox ⟨tyBrob, none⟩ none none, jx⟩ (inner ++ rest) =
        .err .validationFailed rest := by
      simp only [step, hne, hl4, t4, d4, hres]; simp
    rw [feed_of_cont hs', feed_of_err hs2]
  · have h4 : 4 ≤ n := by rcases hn with h | h; exact absurd h he; exact h
    have h4' : ¬ n < 4 := by omega
    have hs' : step ⟨.waitingBoxHeader, jx⟩ (serHeader tyBrob n e ++ (inner ++ rest)) =
        .cont none ⟨.inAuxBox ⟨tyBrob, some n⟩ none (some n), jx⟩ (inner ++ rest) := by
      rw [hs]; simp [he, h4']
    have hs2 : step ⟨.inAuxBox ⟨tyBrob, some n⟩ none (some n), jx⟩ (inner ++ rest) =
        .err .validationFailed rest := by
      simp only [step, hne, hl4, t4, d4, hres, h4']; simp
    rw [feed_of_cont hs', feed_of_err hs2]

/-- `normalize` (merge adjacent data events, drop empty ones) keeps the flattening -/
theorem normalize_toks (evs : List Event) : toks (normalize evs) = toks evs := by
  induction evs with
  | nil => rfl
  | cons e r ih =>
    cases e with
    | codestream d =>
      simp only [normalize]
      split
      · rename_i d' r' hq
        rw [hq] at ih
        simp [toks, Event.toks] at ih ⊢
        rw [← ih]
      · split
        · rename_i hd
          have : d = [] := by simpa using hd
          subst this
          simpa [toks, Event.toks] using ih
        · simp [toks, Event.toks] at ih ⊢; rw [ih]
    | auxData ty d =>
      simp only [normalize]
      split
      · rename_i ty' d' r' hq
        rw [hq] at ih
        split
        · rename_i hty
          subst hty
          simp [toks, Event.toks] at ih ⊢
          rw [← ih]
        · split
          · rename_i hd
            have : d = [] := by simpa using hd
            subst this
            simpa [toks, Event.toks] using ih
          · simp [toks, Event.toks] at ih ⊢; rw [← ih]
      · split
        · rename_i hd
          have : d = [] := by simpa using hd
          subst this
          simpa [toks, Event.toks] using ih
        · simp [toks, Event.toks] at ih ⊢; rw [ih]
    | kind k => simp [normalize, toks, Event.toks] at ih ⊢; rw [ih]
    | noMoreAux => simp [normalize, toks, Event.toks] at ih ⊢; rw [ih]
    | auxStart ty b l => simp [normalize, toks, Event.toks] at ih ⊢; rw [ih]
    | auxEnd ty => simp [normalize, toks, Event.toks] at ih ⊢; rw [ih]
/-! ## `normalize` is a function of the flattening -/

/-- put codestream data `d` in front of a merged event list -/
def consCs (d : Bytes) (x : List Event) : List Event :=
  match x with
  | .codestream d' :: r' => .codestream (d ++ d') :: r'
  | x => if d.isEmpty then x else .codestream d :: x

/-- put aux data `d` of box `ty` in front of a merged event list -/
def consAux (ty d : Bytes) (x : List Event) : List Event :=
  match x with
  | .auxData ty' d' :: r' =>
    if ty = ty' then .auxData ty (d ++ d') :: r'
    else if d.isEmpty then .auxData ty' d' :: r' else .auxData ty d :: .auxData ty' d' :: r'
  | x => if d.isEmpty then x else .auxData ty d :: x

/-- regroup a token stream into events with maximal data runs -/
def ofToks : List Tok → List Event
  | [] => []
  | .cs b :: r => consCs [b] (ofToks r)
  | .aux ty b :: r => consAux ty [b] (ofToks r)
  | .kind k :: r => .kind k :: ofToks r
  | .noMoreAux :: r => .noMoreAux :: ofToks r
  | .auxStart ty b l :: r => .auxStart ty b l :: ofToks r
  | .auxEnd ty :: r => .auxEnd ty :: ofToks r

theorem normalize_cs (d : Bytes) (r : List Event) :
    normalize (.codestream d :: r) = consCs d (normalize r) := by
  rw [normalize]
  generalize normalize r = x
  cases x with
  | nil => rfl
  | cons e r' => cases e <;> rfl

theorem normalize_aux (ty d : Bytes) (r : List Event) :
    normalize (.auxData ty d :: r) = consAux ty d (normalize r) := by
  rw [normalize]
  generalize normalize r = x
  cases x with
  | nil => rfl
  | cons e r' => cases e <;> rfl

theorem isEmpty_append_left {a b : Bytes} (h : b.isEmpty = false) : (a ++ b).isEmpty = false := by
  cases b with
  | nil => simp at h
  | cons => cases a <;> rfl

theorem consCs_nil (x : List Event) : consCs [] x = x := by
  unfold consCs; split <;> simp

theorem consCs_consCs (a b : Bytes) (x : List Event) : consCs a (consCs b x) = consCs (a ++ b) x := by
  by_cases hx : ∃ d' r', x = .codestream d' :: r'
  · obtain ⟨d', r', rfl⟩ := hx
    simp [consCs]
  · have hgen : ∀ c : Bytes, consCs c x = if c.isEmpty then x else .codestream c :: x := by
      intro c; unfold consCs; split
      · rename_i d' r'; exact absurd ⟨d', r', rfl⟩ hx
      · rfl
    rw [hgen b, hgen (a ++ b)]
    by_cases hb : b.isEmpty = true
    · have : b = [] := by simpa using hb
      subst this; simp [hgen a]
    · have hb' : b.isEmpty = false := by simpa using hb
      simp only [hb', Bool.false_eq_true, if_false, isEmpty_append_left hb']
      simp [consCs]

theorem consAux_nil (ty : Bytes) (x : List Event) : consAux ty [] x = x := by
  unfold consAux; split
  · split <;> simp_all
  · simp

theorem consAux_consAux (ty a b : Bytes) (x : List Event) :
    consAux ty a (consAux ty b x) = consAux ty (a ++ b) x := by
  by_cases hx : ∃ d' r', x = .auxData ty d' :: r'
  · obtain ⟨d', r', rfl⟩ := hx
    simp [consAux]
  · have hgen : ∀ c : Bytes, consAux ty c x = if c.isEmpty then x else .auxData ty c :: x := by
      intro c; unfold consAux; split
      · rename_i ty' d' r'
        by_cases hty : ty = ty'
        · subst hty; exact absurd ⟨d', r', rfl⟩ hx
        · simp [hty]
      · rfl
    rw [hgen b, hgen (a ++ b)]
    by_cases hb : b.isEmpty = true
    · have : b = [] := by simpa using hb
      subst this; simp [hgen a]
    · have hb' : b.isEmpty = false := by simpa using hb
      simp only [hb', Bool.false_eq_true, if_false, isEmpty_append_left hb']
      simp [consAux]

theorem ofToks_cs (d : Bytes) (T : List Tok) : ofToks (d.map .cs ++ T) = consCs d (ofToks T) := by
  induction d with
  | nil => simp [consCs_nil]
  | cons b d ih =>
    simp only [List.map_cons, List.cons_append, ofToks, ih, consCs_consCs]
    rfl

theorem ofToks_aux (ty d : Bytes) (T : List Tok) :
    ofToks (d.map (.aux ty) ++ T) = consAux ty d (ofToks T) := by
  induction d with
  | nil => simp [consAux_nil]
  | cons b d ih =>
    simp only [List.map_cons, List.cons_append, ofToks, ih, consAux_consAux]
    rfl

theorem normalize_eq_ofToks (evs : List Event) : normalize evs = ofToks (toks evs) := by
  induction evs with
  | nil => rfl
  | cons e r ih =>
    have hcons : toks (e :: r) = e.toks ++ toks r := by simp [toks]
    cases e with
    | codestream d => rw [hcons, Event.toks, ofToks_cs, normalize_cs, ih]
    | auxData ty d => rw [hcons, Event.toks, ofToks_aux, normalize_aux, ih]
    | kind k => rw [hcons]; simp [Event.toks, ofToks, normalize, ih]
    | noMoreAux => rw [hcons]; simp [Event.toks, ofToks, normalize, ih]
    | auxStart ty b l => rw [hcons]; simp [Event.toks, ofToks, normalize, ih]
    | auxEnd ty => rw [hcons]; simp [Event.toks, ofToks, normalize, ih]

/-- two event streams have the same flattening iff they have the same merged form -/
theorem toks_eq_iff_normalize_eq (a b : List Event) : toks a = toks b ↔ normalize a = normalize b := by
  constructor
  · intro h; rw [normalize_eq_ofToks, normalize_eq_ofToks, h]
  · intro h; rw [← normalize_toks a, ← normalize_toks b, h]
/-! ## Proper prefixes of a header -/

theorem header_prefix_needMore (ty : Bytes) (hty : ty.length = 4) (n : Nat) (e : Enc) (rest : Bytes)
    (k : Nat) (hk : k < (serHeader ty n e).length) :
    parseHeader ((serHeader ty n e ++ rest).take k) = .needMore := by
  rw [List.take_append_of_le_length (by omega)]
  by_cases h8 : k < 8
  · unfold parseHeader
    have : ((serHeader ty n e).take k).length < 8 := by rw [List.length_take]; omega
    rw [if_pos this]
  · cases e with
    | short => simp [serHeader, hty] at hk; omega
    | toEof => simp [serHeader, hty] at hk; omega
    | long =>
      simp only [serHeader, List.length_append, beEnc_length, hty] at hk
      have hsplit : (serHeader ty n .long).take k = beEnc 4 1 ++ ty ++ (beEnc 8 (n + 16)).take (k - 8) := by
        simp only [serHeader]
        rw [List.take_append]
        have : (beEnc 4 1 ++ ty).length = 8 := by simp [hty]
        rw [this, List.take_of_length_le (by omega)]
      rw [hsplit, parseHeader_short ty hty 1 (by decide)]
      have : ((beEnc 8 (n + 16)).take (k - 8)).length < 8 := by rw [List.length_take]; simp; omega
      simp only [if_true, if_pos this]

end Jxl.Container
