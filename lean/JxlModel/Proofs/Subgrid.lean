import JxlModel.Model.Subgrid
/-! Helper lemmas for C02 (sub-grid geometry). Core Lean only. -/
namespace Jxl.Subgrid

instance (L : Nat) (g : SubGrid) : Decidable (Valid L g) := by unfold Valid; infer_instance

theorem mem_cells {g : SubGrid} {i : Nat} :
    i ∈ cells g ↔ ∃ y, y < g.h ∧ ∃ x, x < g.w ∧ i = g.off + y * g.stride + x := by
  simp [cells, index, List.mem_flatMap, List.mem_map, List.mem_range, eq_comm]

theorem coord_unique {s x1 y1 x2 y2 : Nat} (h1 : x1 < s) (h2 : x2 < s)
    (h : y1 * s + x1 = y2 * s + x2) : y1 = y2 ∧ x1 = x2 := by
  have hs : 0 < s := by omega
  have a1 : (y1 * s + x1) / s = y1 := by
    rw [Nat.mul_comm, Nat.mul_add_div hs, Nat.div_eq_of_lt h1]; omega
  have a2 : (y2 * s + x2) / s = y2 := by
    rw [Nat.mul_comm, Nat.mul_add_div hs, Nat.div_eq_of_lt h2]; omega
  have : y1 = y2 := by rw [← a1, ← a2, h]
  subst this
  exact ⟨rfl, by omega⟩

/-- `c` is the rectangle `[cx, cx+c.w) × [cy, cy+c.h)` of `g`, in `g`'s own coordinates -/
def InRect (g c : SubGrid) (cx cy : Nat) : Prop :=
  c.off = g.off + cy * g.stride + cx ∧ c.stride = g.stride ∧ cx + c.w ≤ g.w ∧ cy + c.h ≤ g.h

theorem mem_cells_inRect {g c : SubGrid} {cx cy i : Nat} (h : InRect g c cx cy) :
    i ∈ cells c ↔ ∃ y, cy ≤ y ∧ y < cy + c.h ∧ ∃ x, cx ≤ x ∧ x < cx + c.w ∧
      i = g.off + y * g.stride + x := by
  obtain ⟨ho, hs, _, _⟩ := h
  rw [mem_cells, ho, hs]
  constructor
  · rintro ⟨y, hy, x, hx, rfl⟩
    refine ⟨cy + y, by omega, by omega, cx + x, by omega, by omega, ?_⟩
    rw [Nat.add_mul]; omega
  · rintro ⟨y, hy1, hy2, x, hx1, hx2, rfl⟩
    refine ⟨y - cy, by omega, x - cx, by omega, ?_⟩
    have : y * g.stride = cy * g.stride + (y - cy) * g.stride := by
      rw [← Nat.add_mul]; congr 1; omega
    omega

theorem subset_of_inRect {g c : SubGrid} {cx cy : Nat} (h : InRect g c cx cy) :
    ∀ i ∈ cells c, i ∈ cells g := by
  intro i hi
  obtain ⟨y, hy1, hy2, x, hx1, hx2, rfl⟩ := (mem_cells_inRect h).1 hi
  obtain ⟨_, _, hw, hh⟩ := h
  exact mem_cells.2 ⟨y, by omega, x, by omega, rfl⟩

theorem valid_of_inRect {L : Nat} {g c : SubGrid} {cx cy : Nat} (hv : Valid L g)
    (h : InRect g c cx cy) : Valid L c := by
  refine ⟨?_, fun i hi => hv.2 i (subset_of_inRect h i hi)⟩
  obtain ⟨_, hs, hw, _⟩ := h
  rcases hv.1 with h0 | h0
  · left; omega
  · right; omega

theorem disjoint_of_inRect {g c1 c2 : SubGrid} {x1 y1 x2 y2 : Nat}
    (hg : g.w = 0 ∨ g.w ≤ g.stride)
    (h1 : InRect g c1 x1 y1) (h2 : InRect g c2 x2 y2)
    (hd : x1 + c1.w ≤ x2 ∨ x2 + c2.w ≤ x1 ∨ y1 + c1.h ≤ y2 ∨ y2 + c2.h ≤ y1) :
    Disjoint c1 c2 := by
  intro i hi1 hi2
  obtain ⟨ya, hya1, hya2, xa, hxa1, hxa2, rfl⟩ := (mem_cells_inRect h1).1 hi1
  obtain ⟨yb, hyb1, hyb2, xb, hxb1, hxb2, heq⟩ := (mem_cells_inRect h2).1 hi2
  obtain ⟨_, _, hw1, hh1⟩ := h1
  obtain ⟨_, _, hw2, hh2⟩ := h2
  have hs : xa < g.stride ∧ xb < g.stride := by omega
  have := coord_unique hs.1 hs.2 (by omega : ya * g.stride + xa = yb * g.stride + xb)
  omega


theorem new_eq_ok {off w h s : Nat} {g : SubGrid} (hn : new off w h s = .ok g) :
    (w = 0 ∨ w ≤ s) ∧ g = ⟨off, w, h, s, none⟩ := by
  unfold new at hn
  split at hn
  · rename_i hc; injection hn with hn; exact ⟨hc, hn.symm⟩
  · cases hn

theorem inRect_withBase {g c : SubGrid} {cx cy : Nat} (b : Option Nat) (h : InRect g c cx cy) :
    InRect g { c with base := b } cx cy := h

theorem cells_withBase (c : SubGrid) (b : Option Nat) : cells { c with base := b } = cells c := rfl

theorem subgridLRTB_inRect {g c : SubGrid} {l r t b : Nat} (h : subgridLRTB g l r t b = .ok c) :
    InRect g c l t ∧ c.w = r - l ∧ c.h = b - t ∧ l ≤ r ∧ t ≤ b ∧ r ≤ g.w ∧ b ≤ g.h := by
  unfold subgridLRTB at h
  split at h; · cases h
  split at h; · cases h
  split at h; · cases h
  split at h; · cases h
  obtain ⟨_, rfl⟩ := new_eq_ok h
  simp [InRect, index]
  omega

theorem subgrid_inRect {m : Mode} {g c : SubGrid} {xs xe ys ye : Bound}
    (h : subgrid m g xs xe ys ye = .ok c) : ∃ l t, InRect g c l t := by
  unfold subgrid at h
  split at h
  · exact ⟨_, _, (subgridLRTB_inRect h).1⟩
  · cases h

theorem splitH_spec {g l r : SubGrid} {x : Nat} (h : splitH g x = .ok (l, r)) :
    x ≤ g.w ∧ InRect g l 0 0 ∧ InRect g r x 0 ∧ l.w = x ∧ r.w = g.w - x ∧ l.h = g.h ∧ r.h = g.h ∧
    l.base = some (splitBase g) ∧ r.base = some (splitBase g) := by
  unfold splitH at h
  split at h; · cases h
  split at h
  · rename_i l0 r0 hl hr
    obtain ⟨_, rfl⟩ := new_eq_ok hl
    obtain ⟨_, rfl⟩ := new_eq_ok hr
    injection h with h; injection h with h1 h2
    subst h1 h2
    simp [InRect, index]
    try omega
  · cases h
  · cases h

theorem splitHInPlace_spec {g l r : SubGrid} {x : Nat} (h : splitHInPlace g x = .ok (l, r)) :
    x ≤ g.w ∧ InRect g l 0 0 ∧ InRect g r x 0 ∧ l.w = x ∧ r.w = g.w - x ∧ l.h = g.h ∧ r.h = g.h ∧
    l.base = some (splitBase g) ∧ r.base = some (splitBase g) := by
  unfold splitHInPlace at h
  split at h; · cases h
  split at h
  · rename_i r0 hr
    obtain ⟨_, rfl⟩ := new_eq_ok hr
    injection h with h; injection h with h1 h2
    subst h1 h2
    simp [InRect, index]
    try omega
  · cases h

theorem splitV_spec {g t b : SubGrid} {y : Nat} (h : splitV g y = .ok (t, b)) :
    y ≤ g.h ∧ InRect g t 0 0 ∧ InRect g b 0 y ∧ t.h = y ∧ b.h = g.h - y ∧ t.w = g.w ∧ b.w = g.w ∧
    t.base = some (splitBase g) ∧ b.base = some (splitBase g) := by
  unfold splitV at h
  split at h; · cases h
  split at h
  · rename_i l0 r0 hl hr
    obtain ⟨_, rfl⟩ := new_eq_ok hl
    obtain ⟨_, rfl⟩ := new_eq_ok hr
    injection h with h; injection h with h1 h2
    subst h1 h2
    simp [InRect, index]
    try omega
  · cases h
  · cases h

theorem splitVInPlace_spec {g t b : SubGrid} {y : Nat} (h : splitVInPlace g y = .ok (t, b)) :
    y ≤ g.h ∧ InRect g t 0 0 ∧ InRect g b 0 y ∧ t.h = y ∧ b.h = g.h - y ∧ t.w = g.w ∧ b.w = g.w ∧
    t.base = some (splitBase g) ∧ b.base = some (splitBase g) := by
  unfold splitVInPlace at h
  split at h; · cases h
  split at h
  · rename_i r0 hr
    obtain ⟨_, rfl⟩ := new_eq_ok hr
    injection h with h; injection h with h1 h2
    subst h1 h2
    simp [InRect, index]
    try omega
  · cases h


/-! merges -/
theorem mergeH_spec {a b m : SubGrid} (h : mergeH a b = .ok m) :
    a.base.isSome ∧ a.base = b.base ∧ a.stride = b.stride ∧ a.h = b.h ∧ a.w + b.w ≤ a.stride ∧
    b.off = a.off + a.w ∧ m = { a with w := a.w + b.w } := by
  unfold mergeH at h
  split at h; · cases h
  split at h; · cases h
  split at h; · cases h
  split at h; · cases h
  split at h; · cases h
  split at h; · cases h
  rename_i h1 h2 h3 h4 h5 h6
  injection h with h
  refine ⟨?_, ?_, ?_, ?_, ?_, ?_, h.symm⟩
  · cases hb : a.base <;> simp [hb] at h1 ⊢
  · simpa using h2
  · simpa using h3
  · simpa using h4
  · omega
  · simp [index] at h6; omega

theorem mergeV_spec {a b m : SubGrid} (h : mergeV a b = .ok m) :
    a.base.isSome ∧ a.base = b.base ∧ a.stride = b.stride ∧ a.w = b.w ∧
    b.off = a.off + a.h * a.stride ∧ m = { a with h := a.h + b.h } := by
  unfold mergeV at h
  split at h; · cases h
  split at h; · cases h
  split at h; · cases h
  split at h; · cases h
  split at h; · cases h
  rename_i h1 h2 h3 h4 h6
  injection h with h
  refine ⟨?_, ?_, ?_, ?_, ?_, h.symm⟩
  · cases hb : a.base <;> simp [hb] at h1 ⊢
  · simpa using h2
  · simpa using h3
  · simpa using h4
  · simp [index] at h6; omega

theorem mergeH_cells {a b m : SubGrid} (h : mergeH a b = .ok m) (i : Nat) :
    i ∈ cells m ↔ i ∈ cells a ∨ i ∈ cells b := by
  obtain ⟨_, _, hs, hh, _, ho, rfl⟩ := mergeH_spec h
  simp only [mem_cells, ho, ← hs, ← hh]
  constructor
  · rintro ⟨y, hy, x, hx, rfl⟩
    by_cases hxa : x < a.w
    · exact Or.inl ⟨y, hy, x, hxa, rfl⟩
    · exact Or.inr ⟨y, hy, x - a.w, by omega, by omega⟩
  · rintro (⟨y, hy, x, hx, rfl⟩ | ⟨y, hy, x, hx, rfl⟩)
    · exact ⟨y, hy, x, by omega, rfl⟩
    · exact ⟨y, hy, a.w + x, by omega, by omega⟩

theorem mergeV_cells {a b m : SubGrid} (h : mergeV a b = .ok m) (i : Nat) :
    i ∈ cells m ↔ i ∈ cells a ∨ i ∈ cells b := by
  obtain ⟨_, _, hs, hw, ho, rfl⟩ := mergeV_spec h
  simp only [mem_cells, ho, ← hs, ← hw]
  constructor
  · rintro ⟨y, hy, x, hx, rfl⟩
    by_cases hya : y < a.h
    · exact Or.inl ⟨y, hya, x, hx, rfl⟩
    · refine Or.inr ⟨y - a.h, by omega, x, hx, ?_⟩
      have : y * a.stride = a.h * a.stride + (y - a.h) * a.stride := by
        rw [← Nat.add_mul]; congr 1; omega
      omega
  · rintro (⟨y, hy, x, hx, rfl⟩ | ⟨y, hy, x, hx, rfl⟩)
    · exact ⟨y, by omega, x, hx, rfl⟩
    · refine ⟨a.h + y, by omega, x, hx, ?_⟩
      rw [Nat.add_mul]; omega

theorem mergeH_valid {L : Nat} {a b m : SubGrid} (ha : Valid L a) (hb : Valid L b)
    (h : mergeH a b = .ok m) : Valid L m := by
  refine ⟨?_, fun i hi => ?_⟩
  · obtain ⟨_, _, _, _, hsum, _, rfl⟩ := mergeH_spec h
    right; exact hsum
  · rcases (mergeH_cells h i).1 hi with h1 | h1
    · exact ha.2 i h1
    · exact hb.2 i h1

theorem mergeV_valid {L : Nat} {a b m : SubGrid} (ha : Valid L a) (hb : Valid L b)
    (h : mergeV a b = .ok m) : Valid L m := by
  refine ⟨?_, fun i hi => ?_⟩
  · obtain ⟨_, _, _, _, _, rfl⟩ := mergeV_spec h
    exact ha.1
  · rcases (mergeV_cells h i).1 hi with h1 | h1
    · exact ha.2 i h1
    · exact hb.2 i h1


/-! from_buf -/
theorem fromBuf_checked_spec {off len w h s : Nat} {g : SubGrid}
    (hf : fromBuf .checked off len w h s = .ok g) :
    g = ⟨off, w, h, s, none⟩ ∧ w ≤ s ∧
      ((w = 0 ∨ h = 0) ∧ len = 0 ∨ (w ≠ 0 ∧ h ≠ 0 ∧ s * (h - 1) + w ≤ len)) := by
  unfold fromBuf at hf
  split at hf; · cases hf
  rename_i hws
  split at hf
  · rename_i he
    split at hf
    · rename_i hl
      exact ⟨(new_eq_ok hf).2, by omega, Or.inl ⟨he, hl⟩⟩
    · cases hf
  · rename_i he
    by_cases h1 : s * (h - 1) < W
    · by_cases h2 : s * (h - 1) + w < W
      · simp only [mulM, addM, h1, h2, if_true] at hf
        split at hf
        · rename_i hlen
          exact ⟨(new_eq_ok hf).2, by omega, Or.inr ⟨by omega, by omega, hlen⟩⟩
        · cases hf
      · simp [mulM, addM, h1, h2] at hf
    · simp [mulM, h1] at hf

theorem fromBuf_checked_valid {off len w h s : Nat} {g : SubGrid}
    (hf : fromBuf .checked off len w h s = .ok g) :
    Valid (off + len) g ∧ ∀ i ∈ cells g, off ≤ i := by
  obtain ⟨rfl, hws, hc⟩ := fromBuf_checked_spec hf
  refine ⟨⟨Or.inr hws, ?_⟩, ?_⟩
  · intro i hi
    obtain ⟨y, hy, x, hx, rfl⟩ := mem_cells.1 hi
    simp only at hy hx ⊢
    rcases hc with ⟨h0, _⟩ | ⟨_, _, hl⟩
    · omega
    · have : y * s ≤ (h - 1) * s := Nat.mul_le_mul_right s (by omega)
      rw [Nat.mul_comm s] at hl
      omega
  · intro i hi
    obtain ⟨y, hy, x, hx, rfl⟩ := mem_cells.1 hi
    simp only; omega

/-! groups -/
theorem axisCut_le (m : Mode) (size total k : Nat) :
    (axisCut m size total k).1 + (axisCut m size total k).2 ≤ total := by
  simp only [axisCut]; omega

theorem axisCut_sep {m : Mode} {size total k1 k2 : Nat}
    (h : mulW m k1 size + size ≤ mulW m k2 size) :
    (axisCut m size total k1).1 + (axisCut m size total k1).2 ≤ (axisCut m size total k2).1 := by
  simp only [axisCut]; omega

theorem mulW_checked_sep {size k1 k2 : Nat} (h : k1 < k2) :
    mulW .checked k1 size + size ≤ mulW .checked k2 size := by
  simp only [mulW]
  have : (k1 + 1) * size ≤ k2 * size := Nat.mul_le_mul_right size h
  rw [Nat.succ_mul] at this; exact this

theorem groupOf_inRect (m : Mode) (g : SubGrid) (gw gh gx gy : Nat) :
    InRect g (groupOf g (axisCut m gh g.h gy) (axisCut m gw g.w gx))
      (axisCut m gw g.w gx).1 (axisCut m gh g.h gy).1 := by
  have := axisCut_le m gw g.w gx
  have := axisCut_le m gh g.h gy
  refine ⟨rfl, rfl, ?_, ?_⟩ <;> simp only [groupOf] <;> omega

theorem mem_groupsList {m : Mode} {g c : SubGrid} {gw gh nc nr : Nat} :
    c ∈ groupsList m g gw gh nc nr ↔ ∃ gy, gy < nr ∧ ∃ gx, gx < nc ∧
      c = groupOf g (axisCut m gh g.h gy) (axisCut m gw g.w gx) := by
  simp [groupsList, List.mem_flatMap, List.mem_map, List.mem_range, eq_comm]

theorem intoGroupsFixed_ok {m : Mode} {g : SubGrid} {gw gh nc nr : Nat} {gs : List SubGrid}
    (h : intoGroupsFixed m g gw gh nc nr = .ok gs) : gs = groupsList m g gw gh nc nr := by
  unfold intoGroupsFixed at h
  split at h; · cases h
  split at h; · cases h
  injection h with h; exact h.symm

theorem intoGroups_ok {m : Mode} {g : SubGrid} {gw gh : Nat} {gs : List SubGrid}
    (h : intoGroups m g gw gh = .ok gs) :
    gw ≠ 0 ∧ gh ≠ 0 ∧ gs = groupsList m g gw gh (ceilDiv g.w gw) (ceilDiv g.h gh) := by
  unfold intoGroups at h
  split at h; · cases h
  exact ⟨by omega, by omega, intoGroupsFixed_ok h⟩

/-- separation of the axis cuts for increasing group numbers -/
def Sep (m : Mode) (size n : Nat) : Prop :=
  ∀ k1 k2, k1 < k2 → k2 < n → mulW m k1 size + size ≤ mulW m k2 size

theorem sep_checked (size n : Nat) : Sep .checked size n := fun _ _ h _ => mulW_checked_sep h

theorem groupsList_pairwise {m : Mode} {g : SubGrid} {gw gh nc nr : Nat}
    (hg : g.w = 0 ∨ g.w ≤ g.stride) (hx : Sep m gw nc) (hy : Sep m gh nr) :
    (groupsList m g gw gh nc nr).Pairwise Disjoint := by
  unfold groupsList
  rw [List.pairwise_flatMap]
  constructor
  · intro gy _
    rw [List.pairwise_map]
    refine List.Pairwise.imp_of_mem ?_ (List.pairwise_lt_range (n := nc))
    intro a b _ hb hab
    exact disjoint_of_inRect hg (groupOf_inRect m g gw gh a gy) (groupOf_inRect m g gw gh b gy)
      (Or.inl (axisCut_sep (hx a b hab (List.mem_range.1 hb))))
  · refine List.Pairwise.imp_of_mem ?_ (List.pairwise_lt_range (n := nr))
    intro a b _ hb hab x hx' y hy'
    obtain ⟨ga, _, rfl⟩ := List.mem_map.1 hx'
    obtain ⟨gb, _, rfl⟩ := List.mem_map.1 hy'
    exact disjoint_of_inRect hg (groupOf_inRect m g gw gh ga a) (groupOf_inRect m g gw gh gb b)
      (Or.inr (Or.inr (Or.inl (axisCut_sep (hy a b hab (List.mem_range.1 hb))))))

theorem div_lt_ceilDiv {a b : Nat} (hb : b ≠ 0) {y : Nat} (hy : y < a) : y / b < ceilDiv a b := by
  unfold ceilDiv
  have h1 : y / b ≤ a / b := Nat.div_le_div_right (by omega)
  split
  · rename_i h0
    have : a = b * (a / b) := by have := Nat.div_add_mod a b; omega
    have : y / b < a / b := by
      rw [Nat.div_lt_iff_lt_mul (by omega)]; rw [Nat.mul_comm]; omega
    omega
  · omega

theorem cut_contains {size total y : Nat} (hs : size ≠ 0) (hy : y < total) :
    (axisCut .checked size total (y / size)).1 ≤ y ∧
      y < (axisCut .checked size total (y / size)).1 + (axisCut .checked size total (y / size)).2 := by
  simp only [axisCut, mulW]
  have h1 := Nat.div_add_mod y size
  have h2 := Nat.mod_lt y (by omega : size > 0)
  rw [Nat.mul_comm] at h1
  omega

theorem groupsList_cover {g : SubGrid} {gw gh : Nat} (hw : gw ≠ 0) (hh : gh ≠ 0) :
    ∀ i ∈ cells g, ∃ c ∈ groupsList .checked g gw gh (ceilDiv g.w gw) (ceilDiv g.h gh),
      i ∈ cells c := by
  intro i hi
  obtain ⟨y, hy, x, hx, rfl⟩ := mem_cells.1 hi
  refine ⟨_, mem_groupsList.2 ⟨y / gh, div_lt_ceilDiv hh hy, x / gw, div_lt_ceilDiv hw hx, rfl⟩, ?_⟩
  rw [mem_cells_inRect (groupOf_inRect .checked g gw gh (x / gw) (y / gh))]
  have cy := cut_contains hh hy
  have cx := cut_contains hw hx
  exact ⟨y, cy.1, by simpa [groupOf] using cy.2, x, cx.1, by simpa [groupOf] using cx.2, rfl⟩


theorem sep_wrapping {size n : Nat} (h : ∀ k, k < n → k * size < W) : Sep .wrapping size n := by
  intro k1 k2 h12 h2
  have a1 := h k1 (by omega)
  have a2 := h k2 h2
  have := @mulW_checked_sep size k1 k2 h12
  simp only [mulW] at this ⊢
  rw [Nat.mod_eq_of_lt a1, Nat.mod_eq_of_lt a2]; exact this

/-- a split covers the parent: every parent cell lies in one of the halves -/
theorem cover_h {g l r : SubGrid} {x : Nat} (hl : InRect g l 0 0) (hr : InRect g r x 0)
    (hlw : l.w = x) (hrw : r.w = g.w - x) (hlh : l.h = g.h) (hrh : r.h = g.h) (hx : x ≤ g.w) :
    ∀ i, i ∈ cells g ↔ i ∈ cells l ∨ i ∈ cells r := by
  intro i
  constructor
  · intro hi
    obtain ⟨y, hy, x', hx', rfl⟩ := mem_cells.1 hi
    by_cases hc : x' < x
    · exact Or.inl ((mem_cells_inRect hl).2 ⟨y, by omega, by omega, x', by omega, by omega, rfl⟩)
    · exact Or.inr ((mem_cells_inRect hr).2 ⟨y, by omega, by omega, x', by omega, by omega, rfl⟩)
  · rintro (h | h)
    · exact subset_of_inRect hl i h
    · exact subset_of_inRect hr i h

theorem cover_v {g t b : SubGrid} {y : Nat} (ht : InRect g t 0 0) (hb : InRect g b 0 y)
    (hth : t.h = y) (hbh : b.h = g.h - y) (htw : t.w = g.w) (hbw : b.w = g.w) (hy : y ≤ g.h) :
    ∀ i, i ∈ cells g ↔ i ∈ cells t ∨ i ∈ cells b := by
  intro i
  constructor
  · intro hi
    obtain ⟨y', hy', x, hx, rfl⟩ := mem_cells.1 hi
    by_cases hc : y' < y
    · exact Or.inl ((mem_cells_inRect ht).2 ⟨y', by omega, by omega, x, by omega, by omega, rfl⟩)
    · exact Or.inr ((mem_cells_inRect hb).2 ⟨y', by omega, by omega, x, by omega, by omega, rfl⟩)
  · rintro (h | h)
    · exact subset_of_inRect ht i h
    · exact subset_of_inRect hb i h

/-- from pairwise disjointness: the position of the group that holds a cell is unique -/
theorem unique_index_of_pairwise {gs : List SubGrid} (hp : gs.Pairwise Disjoint) {i : Nat}
    {c : SubGrid} (hc : c ∈ gs) (hi : i ∈ cells c) :
    ∃ k, ∃ hk : k < gs.length, i ∈ cells gs[k] ∧
      ∀ k' (hk' : k' < gs.length), i ∈ cells gs[k'] → k' = k := by
  obtain ⟨k, hk, rfl⟩ := List.getElem_of_mem hc
  refine ⟨k, hk, hi, fun k' hk' hi' => ?_⟩
  rw [List.pairwise_iff_getElem] at hp
  rcases Nat.lt_trichotomy k' k with h | h | h
  · exact (hp k' k hk' hk h i hi' hi).elim
  · exact h
  · exact (hp k k' hk hk' h i hi hi').elim

theorem mergeH_of_split {g l r : SubGrid} {x : Nat} (hg : g.w = 0 ∨ g.w ≤ g.stride)
    (hx : x ≤ g.w) (hl : InRect g l 0 0) (hr : InRect g r x 0) (hlw : l.w = x)
    (hrw : r.w = g.w - x) (hlh : l.h = g.h) (hrh : r.h = g.h)
    (hlb : l.base = some (splitBase g)) (hrb : r.base = some (splitBase g)) :
    mergeH l r = .ok { l with w := g.w } := by
  obtain ⟨lo, ls, _, _⟩ := hl
  obtain ⟨ro, rs, _, _⟩ := hr
  unfold mergeH
  rw [if_neg (by simp [hlb]), if_neg (by simp [hlb, hrb]), if_neg (by simp [ls, rs]),
    if_neg (by simp [hlh, hrh]), if_neg (by simp only [ls, hlw, hrw]; omega),
    if_neg (by simp only [index, lo, ro, hlw]; omega)]
  congr 2; omega

theorem mergeV_of_split {g t b : SubGrid} {y : Nat}
    (hy : y ≤ g.h) (ht : InRect g t 0 0) (hb : InRect g b 0 y) (hth : t.h = y)
    (hbh : b.h = g.h - y) (htw : t.w = g.w) (hbw : b.w = g.w)
    (htb : t.base = some (splitBase g)) (hbb : b.base = some (splitBase g)) :
    mergeV t b = .ok { t with h := g.h } := by
  obtain ⟨lo, ls, _, _⟩ := ht
  obtain ⟨ro, rs, _, _⟩ := hb
  unfold mergeV
  rw [if_neg (by simp [htb]), if_neg (by simp [htb, hbb]), if_neg (by simp [ls, rs]),
    if_neg (by simp [htw, hbw]),
    if_neg (by simp only [index, lo, ro, hth, ls]; omega)]
  congr 2; omega


theorem cut_contains' {m : Mode} {size total y : Nat} (hs : size ≠ 0) (hy : y < total)
    (hm : mulW m (y / size) size = y / size * size) :
    (axisCut m size total (y / size)).1 ≤ y ∧
      y < (axisCut m size total (y / size)).1 + (axisCut m size total (y / size)).2 := by
  simp only [axisCut, hm]
  have h1 := Nat.div_add_mod y size
  have h2 := Nat.mod_lt y (by omega : size > 0)
  rw [Nat.mul_comm] at h1
  omega

theorem mulW_of_noOverflow {m : Mode} {size n k : Nat}
    (h : m = .checked ∨ ∀ k, k < n → k * size < W) (hk : k < n) : mulW m k size = k * size := by
  cases m
  · rfl
  · rcases h with h | h
    · cases h
    · simp only [mulW]; exact Nat.mod_eq_of_lt (h k hk)

theorem groupsList_cover' {m : Mode} {g : SubGrid} {gw gh : Nat} (hw : gw ≠ 0) (hh : gh ≠ 0)
    (hno : NoOverflow m gw gh (ceilDiv g.w gw) (ceilDiv g.h gh)) :
    ∀ i ∈ cells g, ∃ c ∈ groupsList m g gw gh (ceilDiv g.w gw) (ceilDiv g.h gh),
      i ∈ cells c := by
  intro i hi
  obtain ⟨y, hy, x, hx, rfl⟩ := mem_cells.1 hi
  have hgy := div_lt_ceilDiv hh hy
  have hgx := div_lt_ceilDiv hw hx
  have my : mulW m (y / gh) gh = y / gh * gh :=
    mulW_of_noOverflow (n := ceilDiv g.h gh) (hno.imp id (·.2)) hgy
  have mx : mulW m (x / gw) gw = x / gw * gw :=
    mulW_of_noOverflow (n := ceilDiv g.w gw) (hno.imp id (·.1)) hgx
  refine ⟨_, mem_groupsList.2 ⟨y / gh, hgy, x / gw, hgx, rfl⟩, ?_⟩
  rw [mem_cells_inRect (groupOf_inRect m g gw gh (x / gw) (y / gh))]
  have cy := cut_contains' hh hy my
  have cx := cut_contains' hw hx mx
  exact ⟨y, cy.1, by simpa [groupOf] using cy.2, x, cx.1, by simpa [groupOf] using cx.2, rfl⟩

theorem groupsList_pairwise_noOverflow {m : Mode} {g : SubGrid} {gw gh nc nr : Nat}
    (hg : g.w = 0 ∨ g.w ≤ g.stride) (hno : NoOverflow m gw gh nc nr) :
    (groupsList m g gw gh nc nr).Pairwise Disjoint := by
  rcases hno with rfl | ⟨hx, hy⟩
  · exact groupsList_pairwise hg (sep_checked _ _) (sep_checked _ _)
  · cases m
    · exact groupsList_pairwise hg (sep_checked _ _) (sep_checked _ _)
    · exact groupsList_pairwise hg (sep_wrapping hx) (sep_wrapping hy)

end Jxl.Subgrid
