import JxlModel.Model.RenderState
/-!
# Lemmas for the render-handle protocol (C08, C20)

`Shape`: every atomic step is one of four kinds — it leaves the handles alone, it writes a
non-`Rendering` state into a handle below the innermost activation, it *acquires* a handle (marks
it `Rendering` and pushes the activation that owns it), or it *releases* the innermost owned
handle (stores a final state, pops the activation, `notify_all`). Everything else (ownership
invariants, no sleeping in single-caller runs, deadlock freedom) is derived from `Shape` and the
stack discipline `ActsOK`.
-/
namespace Jxl.RenderState

/-! ## Lists of handles -/

theorem getH_set_eq (hs : List HState) (i : Nat) (s : HState) (h : i < hs.length) :
    getH (hs.set i s) i = s := by
  simp [getH, h]

theorem getH_set_ne (hs : List HState) (i j : Nat) (s : HState) (h : i ≠ j) :
    getH (hs.set i s) j = getH hs j := by
  simp [getH, List.getElem?_set_ne h]

theorem getH_of_ge (hs : List HState) (i : Nat) (h : hs.length ≤ i) : getH hs i = .none := by
  simp [getH, h]

theorem getH_set (hs : List HState) (i j : Nat) (s : HState) :
    getH (hs.set i s) j = if i = j ∧ i < hs.length then s else getH hs j := by
  by_cases hij : i = j
  · subst hij
    by_cases hl : i < hs.length
    · simp [getH_set_eq _ _ _ hl, hl]
    · have : hs.set i s = hs := List.set_eq_of_length_le (by omega)
      simp [this, hl]
  · simp [getH_set_ne _ _ _ _ hij, hij]

/-! ## Stack discipline -/

/-- indices an activation's body may mention are below this -/
def Handler.bound (n : Nat) : Handler → Nat
  | .op i _ _ => i
  | .comp i _ _ => i
  | _ => n

def Act.ok (n : Nat) (a : Act) : Prop :=
  (∀ it ∈ a.body, ∀ j, it.idx? = some j → j < a.h.bound n) ∧
  (Item.loadFrame ∈ a.body → a.h.bound n = n)

/-- bound imposed by the enclosing activation -/
def ctxBound (n : Nat) : List Act → Nat
  | [] => n
  | a :: _ => a.h.bound n

/-- owners strictly decrease towards the innermost activation, bodies respect their bound -/
def ActsOK (n : Nat) : List Act → Prop
  | [] => True
  | a :: rest =>
    a.ok n ∧ a.h.bound n ≤ ctxBound n rest ∧ (∀ j, a.h.owns = some j → j < ctxBound n rest) ∧
      ActsOK n rest

theorem Handler.bound_le (n : Nat) (h : Handler) (j : Nat) (hj : h.owns = some j) :
    h.bound n = j := by
  cases h <;> simp_all [Handler.owns, Handler.bound]

theorem owned_ge_ctx (n : Nat) : ∀ (acts : List Act), ActsOK n acts →
    ∀ j ∈ acts.filterMap (·.h.owns), ctxBound n acts ≤ j
  | [], _, j, hj => by simp at hj
  | a :: rest, hok, j, hj => by
    obtain ⟨_, hle, hown, hrest⟩ := hok
    simp only [List.filterMap_cons] at hj
    have ih := owned_ge_ctx n rest hrest
    simp only [ctxBound]
    cases hown' : a.h.owns with
    | none =>
      simp only [hown'] at hj
      have := ih j hj
      omega
    | some k =>
      simp only [hown', List.mem_cons] at hj
      have hb := Handler.bound_le n a.h k hown'
      rcases hj with rfl | hj
      · omega
      · have := ih j hj
        omega

theorem ctxBound_le (n : Nat) : ∀ (acts : List Act), ActsOK n acts → ctxBound n acts ≤ n
  | [], _ => Nat.le_refl _
  | a :: rest, hok => by
    obtain ⟨_, hle, _, hrest⟩ := hok
    have := ctxBound_le n rest hrest
    simp only [ctxBound] at *
    omega

/-! ## References point backwards -/

theorem wfAt_iff (f : Frame) (i : Nat) : f.wfAt i = true ↔
    (∀ r ∈ f.spawn, r < i) ∧ (∀ r ∈ f.opRefs, r < i) ∧ (∀ r ∈ f.pre, r < i) ∧
    (∀ c ∈ f.chans, ∀ r, c.1 = some r → r < i) ∧ (∀ r, f.reset = some r → r < i) := by
  simp only [Frame.wfAt, Frame.refs, List.all_append, Bool.and_eq_true, List.all_eq_true,
    decide_eq_true_eq, List.mem_filterMap, Option.mem_toList]
  constructor
  · rintro ⟨⟨⟨⟨h1, h2⟩, h3⟩, h4⟩, h5⟩
    refine ⟨h1, h2, h3, ?_, ?_⟩
    · intro c hc r hr
      exact h4 r ⟨c, hc, hr⟩
    · intro r hr
      exact h5 r (by simp [hr])
  · rintro ⟨h1, h2, h3, h4, h5⟩
    refine ⟨⟨⟨⟨h1, h2⟩, h3⟩, ?_⟩, ?_⟩
    · rintro r ⟨c, hc, hr⟩
      exact h4 c hc r hr
    · intro r hr
      exact h5 r (by simpa using hr)

theorem refCall_idx (k : Cont) (r : Nat) : ∀ it ∈ refCall k r, it.idx? = some r ∧ it ≠ .loadFrame := by
  intro it hit
  simp only [refCall, List.mem_cons, List.not_mem_nil, or_false] at hit
  rcases hit with rfl | rfl <;> simp [Item.idx?]

theorem opBody_idx (f : Frame) (i : Nat) (h : f.wfAt i = true) (inl : Bool) :
    ∀ it ∈ opBody inl f, (∀ j, it.idx? = some j → j < i) ∧ it ≠ .loadFrame := by
  obtain ⟨h1, h2, _, _, _⟩ := (wfAt_iff f i).1 h
  intro it hit
  simp only [opBody, List.mem_append, List.mem_flatMap] at hit
  rcases hit with hit | ⟨r, hr, hit⟩
  · split at hit
    · simp only [List.mem_map] at hit
      obtain ⟨r, hr, rfl⟩ := hit
      simp only [Item.idx?, Option.some.injEq, ne_eq, reduceCtorEq, not_false_eq_true, and_true]
      intro j hj; subst hj; exact h1 _ hr
    · simp at hit
  · have := refCall_idx _ r it hit
    refine ⟨?_, this.2⟩
    intro j hj
    rw [this.1] at hj
    cases hj
    exact h2 _ hr

theorem chanItems_idx (c : Option Nat × Bool) (i : Nat) (h : ∀ r, c.1 = some r → r < i) :
    ∀ it ∈ chanItems c, (∀ j, it.idx? = some j → j < i) ∧ it ≠ .loadFrame := by
  intro it hit
  obtain ⟨c1, c2⟩ := c
  cases c1 with
  | none =>
    simp only [chanItems, List.mem_cons, List.not_mem_nil, or_false] at hit
    subst hit
    simp [Item.idx?]
  | some r =>
    have hr := h r rfl
    simp only [chanItems, List.mem_append, List.mem_cons, List.not_mem_nil, or_false] at hit
    rcases hit with ((hit | rfl) | hit) | rfl
    · have := refCall_idx _ r it hit
      refine ⟨?_, this.2⟩
      intro j hj
      rw [this.1] at hj
      cases hj
      exact hr
    · simp [Item.idx?]
    · split at hit
      · simp only [List.mem_cons, List.not_mem_nil, or_false] at hit
        subst hit
        simp only [Item.idx?, Option.some.injEq, ne_eq, reduceCtorEq, not_false_eq_true, and_true]
        intro j hj; subst hj; exact hr
      · simp at hit
    · simp [Item.idx?]

theorem compBody_idx (f : Frame) (i : Nat) (h : f.wfAt i = true) :
    ∀ it ∈ compBody f, (∀ j, it.idx? = some j → j < i) ∧ it ≠ .loadFrame := by
  obtain ⟨_, _, h3, h4, h5⟩ := (wfAt_iff f i).1 h
  intro it hit
  simp only [compBody, List.mem_append, List.mem_flatMap] at hit
  rcases hit with (⟨r, hr, hit⟩ | ⟨c, hc, hit⟩) | hit
  · have := refCall_idx _ r it hit
    refine ⟨?_, this.2⟩
    intro j hj
    rw [this.1] at hj
    cases hj
    exact h3 _ hr
  · exact chanItems_idx c i (h4 c hc) it hit
  · cases hr : f.reset with
    | none => simp [hr, resetItems] at hit
    | some r =>
      simp only [hr, resetItems, List.mem_cons, List.not_mem_nil, or_false] at hit
      subst hit
      simp only [Item.idx?, Option.some.injEq, ne_eq, reduceCtorEq, not_false_eq_true, and_true]
      intro j hj; subst hj; exact h5 _ hr


theorem wf_parts (cfg : Config) (h : cfg.wf = true) :
    (∀ i, i < cfg.frames.length → (frameOf cfg i).wfAt i = true) ∧
    (∀ k ∈ cfg.keyframes, k < cfg.frames.length) ∧
    (∀ i, cfg.inProgressKf = some i → i < cfg.frames.length) ∧
    (∀ f, cfg.loading = some f → f.wfAt cfg.frames.length = true) := by
  simp only [Config.wf, Bool.and_eq_true, List.all_eq_true, List.mem_range, decide_eq_true_eq] at h
  obtain ⟨⟨⟨h1, h2⟩, h3⟩, h4⟩ := h
  refine ⟨h1, h2, ?_, ?_⟩
  · intro i hi
    simp only [hi, decide_eq_true_eq] at h3
    exact h3
  · intro f hf
    simp only [hf] at h4
    exact h4


/-! ## Thread plumbing lemmas -/

def ownedActs (acts : List Act) : List Nat := acts.filterMap (·.h.owns)

theorem owned_def (th : Thread) : th.owned = ownedActs th.acts := rfl

theorem ownedActs_cons (a : Act) (as : List Act) :
    ownedActs (a :: as) = a.h.owns.toList ++ ownedActs as := by
  simp only [ownedActs, List.filterMap_cons]
  cases a.h.owns <;> simp

@[simp] theorem owned_setBody (th : Thread) (b : List Item) : (th.setBody b).owned = th.owned := by
  unfold Thread.setBody
  split
  · rfl
  · rename_i a as h
    simp [owned_def, h, ownedActs_cons]

@[simp] theorem owned_fail (th : Thread) (e : ErrK) : (th.fail e).owned = th.owned := by
  unfold Thread.fail
  split
  · rfl
  · rename_i a as h
    simp [owned_def, h, ownedActs_cons]

@[simp] theorem owned_deliver (th : Thread) (k : Cont) (v : Val) :
    (th.deliver k v).owned = th.owned := by
  unfold Thread.deliver
  cases k with
  | discard => rfl
  | ret => rfl
  | collect =>
    simp only
    split
    · rfl
    · rename_i a as h
      simp [owned_def, h, ownedActs_cons]

theorem owned_push (th : Thread) (rest : List Item) (a : Act) (h : th.acts ≠ []) :
    (th.push rest a).owned = a.h.owns.toList ++ th.owned := by
  unfold Thread.push
  split
  · contradiction
  · rename_i p as hp
    simp [owned_def, hp, ownedActs_cons]

theorem owned_pop (th : Thread) (a : Act) (as : List Act) (h : th.acts = a :: as) :
    th.owned = a.h.owns.toList ++ th.pop.owned := by
  simp [owned_def, Thread.pop, h, ownedActs_cons]

@[simp] theorem asleep_setBody (th : Thread) (b : List Item) :
    (th.setBody b).asleep = th.asleep := by
  unfold Thread.setBody; split <;> rfl

@[simp] theorem asleep_fail (th : Thread) (e : ErrK) : (th.fail e).asleep = th.asleep := by
  unfold Thread.fail; split <;> rfl

@[simp] theorem asleep_deliver (th : Thread) (k : Cont) (v : Val) :
    (th.deliver k v).asleep = th.asleep := by
  unfold Thread.deliver
  cases k <;> simp only
  split <;> rfl

@[simp] theorem asleep_push (th : Thread) (rest : List Item) (a : Act) :
    (th.push rest a).asleep = th.asleep := by
  unfold Thread.push; split <;> rfl

@[simp] theorem asleep_pop (th : Thread) : th.pop.asleep = th.asleep := rfl

def innerBound (n : Nat) (th : Thread) : Nat := ctxBound n th.acts

inductive Shape (n : Nat) (hs : List HState) (th : Thread) (o : StepOut) : Prop
  | same (h1 : o.hs = hs) (h2 : o.th.owned = th.owned) (h3 : o.notify = none)
      (h4 : o.clob = false)
      (h5 : ∀ i, o.th.asleep = some i →
        getH hs i = .rendering ∧ i < innerBound n th ∧ o.th.acts = th.acts)
  | write (i : Nat) (s : HState) (h1 : o.hs = hs.set i s) (hs' : s ≠ .rendering)
      (hi : i < innerBound n th) (h2 : o.th.owned = th.owned) (h3 : o.notify = none)
      (h4 : o.clob = decide (getH hs i = .rendering)) (h5 : o.th.asleep = none)
  | acquire (i : Nat) (h1 : o.hs = hs.set i .rendering) (hne : getH hs i ≠ .rendering)
      (hi : i < innerBound n th) (h2 : o.th.owned = i :: th.owned) (h3 : o.notify = none)
      (h4 : o.clob = false) (h5 : o.th.asleep = none)
  | release (i : Nat) (s : HState) (h1 : o.hs = hs.set i s) (hs' : s ≠ .rendering)
      (h2 : th.owned = i :: o.th.owned) (h3 : o.notify = some i) (h4 : o.clob = false)
      (h5 : o.th.asleep = none)

theorem shape_item (cfg : Config) (cd : Codec) (ch : Choice) (n : Nat) (hs : List HState)
    (th : Thread) (a : Act) (as : List Act) (hacts : th.acts = a :: as) (hsl : th.asleep = none)
    (it : Item) (rest : List Item)
    (hidx : ∀ j, it.idx? = some j → j < a.h.bound n) :
    Shape n hs th (stepItem cfg cd .fixed ch hs th it rest) := by
  have hne : th.acts ≠ [] := by simp [hacts]
  have hib : innerBound n th = a.h.bound n := by simp [innerBound, hacts, ctxBound]
  cases it with
  | rwi i =>
    have hi : i < innerBound n th := by rw [hib]; exact hidx i rfl
    simp only [stepItem]
    split
    · exact .acquire i rfl (by simp [*]) hi (by simp [owned_push _ _ _ hne, Handler.owns]) rfl rfl (by simp [hsl])
    · exact .acquire i rfl (by simp [*]) hi (by simp [owned_push _ _ _ hne, Handler.owns]) rfl rfl (by simp [hsl])
    · exact .write i _ rfl (by simp) hi (by simp) rfl (by simp [*]) (by simp [hsl])
    · exact .same rfl (by simp) rfl rfl (by simp [hsl])
    · exact .same rfl (by simp) rfl rfl (by simp [hsl])
  | waitRwi i =>
    have hi : i < innerBound n th := by rw [hib]; exact hidx i rfl
    simp only [stepItem]
    split
    · refine .same rfl rfl rfl rfl ?_
      intro j hj
      simp only [Option.some.injEq] at hj
      subst hj
      exact ⟨by assumption, hi, rfl⟩
    · exact .same rfl (by simp) rfl rfl (by simp [hsl])
    · exact .same rfl (by simp) rfl rfl (by simp [hsl])
    · exact .write i _ rfl (by simp) hi (by simp) rfl (by simp; assumption) (by simp [hsl])
  | blend i k =>
    have hi : i < innerBound n th := by rw [hib]; exact hidx i rfl
    simp only [stepItem]
    split
    · refine .same rfl rfl rfl rfl ?_
      intro j hj
      simp only [Option.some.injEq] at hj
      subst hj
      exact ⟨by assumption, hi, rfl⟩
    · exact .same rfl (by simp) rfl rfl (by simp [hsl])
    · split
      · exact .write i _ rfl (by simp) hi (by simp) rfl (by simp [*]) (by simp [hsl])
      · split
        · exact .write i _ rfl (by simp) hi (by simp) rfl (by simp [*]) (by simp [hsl])
        · exact .acquire i rfl (by simp [*]) hi (by simp [owned_push _ _ _ hne, Handler.owns]) rfl rfl (by simp [hsl])
    · exact .write i _ rfl (by simp) hi (by simp) rfl (by simp; assumption) (by simp [hsl])
  | bg i =>
    have hi : i < innerBound n th := by rw [hib]; exact hidx i rfl
    simp only [stepItem]
    split
    · exact .acquire i rfl (by simp [*]) hi (by simp [owned_push _ _ _ hne, Handler.owns]) rfl rfl (by simp [hsl])
    · exact .acquire i rfl (by simp [*]) hi (by simp [owned_push _ _ _ hne, Handler.owns]) rfl rfl (by simp [hsl])
    · exact .same rfl (by simp) rfl rfl (by simp [hsl])
  | mayFail =>
    simp only [stepItem]
    split
    · exact .same rfl (by simp) rfl rfl (by simp [hsl])
    · exact .same rfl (by simp) rfl rfl (by simp [hsl])
  | tryTake i =>
    have hi : i < innerBound n th := by rw [hib]; exact hidx i rfl
    simp only [stepItem]
    split
    · by_cases ht : ch.taken = true
      · simp only [ht, if_true]
        exact .write i _ rfl (by simp) hi (by simp) rfl (by simp [*]) (by simp [hsl])
      · simp only [ht]
        exact .same rfl (by simp) rfl rfl (by simp [hsl])
    · exact .same rfl (by simp) rfl rfl (by simp [hsl])
  | reset i =>
    have hi : i < innerBound n th := by rw [hib]; exact hidx i rfl
    simp only [stepItem]
    split
    · exact .same rfl (by simp) rfl rfl (by simp [hsl])
    · exact .write i _ rfl (by simp) hi (by simp) rfl (by simp [*]) (by simp [hsl])
  | loadFrame =>
    simp only [stepItem]
    split
    · split
      · exact .same rfl (by simp) rfl rfl (by simp [hsl])
      · exact .same rfl (by simp) rfl rfl (by simp [hsl])
    · split
      · split
        · exact .same rfl (by simp) rfl rfl (by simp [hsl])
        · exact .same rfl (by simp) rfl rfl (by simp [hsl])
      · exact .same rfl (by simp) rfl rfl (by simp [hsl])
      · exact .same rfl (by simp [owned_push _ _ _ hne, Handler.owns]) rfl rfl (by simp [hsl])


theorem owned_loadFail (cfg : Config) (th : Thread) (e : ErrK) :
    (loadFail cfg th e).owned = th.pop.owned := by
  unfold loadFail
  split
  · split <;> simp
  · simp

theorem asleep_loadFail (cfg : Config) (th : Thread) (e : ErrK) :
    (loadFail cfg th e).asleep = th.asleep := by
  unfold loadFail
  split
  · split <;> simp
  · simp

theorem shape_done (cfg : Config) (cd : Codec) (ch : Choice) (n : Nat) (hs : List HState)
    (th : Thread) (a : Act) (as : List Act) (hacts : th.acts = a :: as) (hsl : th.asleep = none) :
    Shape n hs th (stepDone cfg cd .fixed ch hs th a) := by
  have hpop := owned_pop th a as hacts
  cases hh : a.h with
  | top =>
    simp only [stepDone, hh]
    simp only [hh, Handler.owns, Option.toList_none, List.nil_append] at hpop
    exact .same rfl (by simp [Thread.owned] at hpop ⊢; exact hpop.symm) rfl rfl (by simp [hsl])
  | op i silent c =>
    simp only [hh, Handler.owns, Option.toList_some, List.singleton_append] at hpop
    simp only [stepDone, hh]
    split
    · split
      · exact .release i _ rfl (by simp) (by simpa using hpop) rfl rfl (by simp [hsl])
      · exact .release i _ rfl (by simp) (by simpa using hpop) rfl rfl (by simp [hsl])
    · split
      · exact .release i _ rfl (by simp) (by simpa using hpop) rfl rfl (by simp [hsl])
      · split
        · exact .release i _ rfl (by simp) (by simpa using hpop) rfl rfl (by simp [hsl])
        · exact .release i _ rfl (by simp) (by simpa using hpop) rfl rfl (by simp [hsl])
  | comp i v k =>
    simp only [hh, Handler.owns, Option.toList_some, List.singleton_append] at hpop
    simp only [stepDone, hh]
    split
    · exact .release i _ rfl (by simp) (by simpa using hpop) rfl rfl (by simp [hsl])
    · exact .release i _ rfl (by simp) (by simpa using hpop) rfl rfl (by simp [hsl])
  | loadOp =>
    simp only [hh, Handler.owns, Option.toList_none, List.nil_append] at hpop
    simp only [stepDone, hh]
    split
    · exact .same rfl (by rw [owned_loadFail, hpop]) rfl rfl (by simp [asleep_loadFail, hsl])
    · split
      · exact .same rfl (by rw [owned_loadFail, hpop]) rfl rfl (by simp [asleep_loadFail, hsl])
      · split
        · exact .same rfl (by rw [owned_loadFail, hpop]) rfl rfl (by simp [asleep_loadFail, hsl])
        · split
          · exact .same rfl (by simp [hpop]) rfl rfl (by simp [hsl])
          · refine .same rfl ?_ rfl rfl (by simp [hsl])
            rw [hpop]
            simp [owned_def, Thread.pop, ownedActs_cons, Handler.owns]
  | loadComp v =>
    simp only [hh, Handler.owns, Option.toList_none, List.nil_append] at hpop
    simp only [stepDone, hh]
    split
    · exact .same rfl (by rw [owned_loadFail, hpop]) rfl rfl (by simp [asleep_loadFail, hsl])
    · exact .same rfl (by simp [hpop]) rfl rfl (by simp [hsl])


theorem shape_step (cfg : Config) (cd : Codec) (ch : Choice) (n : Nat) (hs : List HState)
    (th : Thread) (hok : ActsOK n th.acts) (hne : th.acts ≠ []) (hsl : th.asleep = none) :
    Shape n hs th (stepThread cfg cd .fixed ch hs th) := by
  unfold stepThread
  split
  · contradiction
  · rename_i a as hacts
    split
    · exact shape_done cfg cd ch n hs th a as hacts hsl
    · rename_i it rest hbody
      rw [hacts] at hok
      exact shape_item cfg cd ch n hs th a as hacts hsl it rest
        (fun j hj => hok.1.1 it (by simp [hbody]) j hj)

/-! ## The stack discipline is preserved -/

def BodyOK (n : Nat) (h : Handler) (b : List Item) : Prop :=
  (∀ it ∈ b, ∀ j, it.idx? = some j → j < h.bound n) ∧ (Item.loadFrame ∈ b → h.bound n = n)

theorem bodyOK_nil (n : Nat) (h : Handler) : BodyOK n h [] := by simp [BodyOK]

theorem bodyOK_tail (n : Nat) (h : Handler) (it : Item) (rest : List Item)
    (hb : BodyOK n h (it :: rest)) : BodyOK n h rest :=
  ⟨fun x hx => hb.1 x (by simp [hx]), fun hx => hb.2 (by simp [hx])⟩

theorem bodyOK_of_idx (n : Nat) (h : Handler) (b : List Item)
    (hb : ∀ it ∈ b, (∀ j, it.idx? = some j → j < h.bound n) ∧ it ≠ .loadFrame) : BodyOK n h b :=
  ⟨fun it hit => (hb it hit).1, fun hl => absurd rfl (hb _ hl).2⟩

theorem actsOK_body (n : Nat) (a : Act) (as : List Act) (w : List Val) (b : List Item)
    (hok : ActsOK n (a :: as)) (hb : BodyOK n a.h b) :
    ActsOK n ({ h := a.h, ws := w, body := b } :: as) :=
  ⟨hb, hok.2.1, hok.2.2.1, hok.2.2.2⟩

theorem actsOK_setBody (n : Nat) (th : Thread) (a : Act) (as : List Act) (b : List Item)
    (hacts : th.acts = a :: as) (hok : ActsOK n th.acts) (hb : BodyOK n a.h b) :
    ActsOK n (th.setBody b).acts := by
  rw [hacts] at hok
  simp only [Thread.setBody, hacts]
  exact actsOK_body n a as a.ws b hok hb

theorem actsOK_fail (n : Nat) (th : Thread) (e : ErrK) (hok : ActsOK n th.acts) :
    ActsOK n (th.fail e).acts := by
  unfold Thread.fail
  split
  · exact hok
  · rename_i a as hacts
    rw [hacts] at hok
    exact actsOK_body n a as a.ws [] hok (bodyOK_nil n a.h)

theorem actsOK_deliver (n : Nat) (th : Thread) (k : Cont) (v : Val) (hok : ActsOK n th.acts) :
    ActsOK n (th.deliver k v).acts := by
  unfold Thread.deliver
  cases k with
  | discard => exact hok
  | ret => exact hok
  | collect =>
    simp only
    split
    · exact hok
    · rename_i a as hacts
      rw [hacts] at hok
      exact actsOK_body n a as _ a.body hok hok.1

theorem actsOK_pop (n : Nat) (th : Thread) (hok : ActsOK n th.acts) : ActsOK n th.pop.acts := by
  simp only [Thread.pop]
  cases h : th.acts with
  | nil => simp [ActsOK]
  | cons a as => rw [h] at hok; exact hok.2.2.2

theorem actsOK_push (n : Nat) (th : Thread) (a : Act) (as : List Act) (rest : List Item)
    (new : Act) (hacts : th.acts = a :: as) (hok : ActsOK n th.acts)
    (hrest : BodyOK n a.h rest) (hnew : BodyOK n new.h new.body)
    (hb : new.h.bound n ≤ a.h.bound n) (ho : ∀ j, new.h.owns = some j → j < a.h.bound n) :
    ActsOK n (th.push rest new).acts := by
  rw [hacts] at hok
  simp only [Thread.push, hacts]
  exact ⟨hnew, hb, ho, actsOK_body n a as a.ws rest hok hrest⟩

theorem fallback_bodyOK (cfg : Config) (hwf : cfg.wf = true) (h : Handler)
    (hb : h.bound cfg.frames.length = cfg.frames.length) (b : List Item)
    (hfb : fallbackBody cfg = some b) : BodyOK cfg.frames.length h b := by
  unfold fallbackBody at hfb
  split at hfb
  · rename_i idx hidx
    have := (wf_parts cfg hwf).2.2.1 idx hidx
    cases hfb
    refine bodyOK_of_idx _ _ _ ?_
    intro it hit
    simp only [List.mem_cons, List.not_mem_nil, or_false] at hit
    rcases hit with rfl | rfl | rfl <;> simp [Item.idx?, hb, this]
  · cases hfb

theorem actsOK_item (cfg : Config) (cd : Codec) (var : Variant) (ch : Choice) (hwf : cfg.wf = true)
    (hs : List HState) (th : Thread) (a : Act) (as : List Act) (hacts : th.acts = a :: as)
    (hok : ActsOK cfg.frames.length th.acts) (it : Item) (rest : List Item)
    (hbody : a.body = it :: rest) :
    ActsOK cfg.frames.length (stepItem cfg cd var ch hs th it rest).th.acts := by
  have hok' := hok
  rw [hacts] at hok'
  have hb : BodyOK cfg.frames.length a.h (it :: rest) := by rw [← hbody]; exact hok'.1
  have hrest := bodyOK_tail _ _ _ _ hb
  have hle : a.h.bound cfg.frames.length ≤ cfg.frames.length := by
    have := ctxBound_le _ _ hok'
    simpa [ctxBound] using this
  -- pushing the activation that owns frame `i`
  have push_op : ∀ i silent c, i < a.h.bound cfg.frames.length →
      ActsOK cfg.frames.length
        (th.push rest { h := .op i silent c, body := opBody cfg.inline (frameOf cfg i) }).acts := by
    intro i silent c hi
    refine actsOK_push _ th a as rest _ hacts hok hrest ?_ (Nat.le_of_lt hi) ?_
    · exact bodyOK_of_idx _ _ _
        (opBody_idx _ i ((wf_parts cfg hwf).1 i (by omega)) cfg.inline)
    · intro j hj; simp [Handler.owns] at hj; omega
  cases it with
  | rwi i =>
    have hi := hb.1 (.rwi i) (by simp) i rfl
    simp only [stepItem]
    split
    · exact push_op i false none hi
    · exact push_op i false _ hi
    · exact actsOK_fail _ _ _ hok
    · exact actsOK_fail _ _ _ hok
    · refine actsOK_setBody _ th a as _ hacts hok ⟨?_, ?_⟩
      · intro x hx j hj
        simp only [List.mem_cons] at hx
        rcases hx with rfl | hx
        · simp [Item.idx?] at hj; omega
        · exact hrest.1 x hx j hj
      · intro hx
        simp only [List.mem_cons, reduceCtorEq, false_or] at hx
        exact hrest.2 hx
  | waitRwi i =>
    simp only [stepItem]
    split
    · exact hok
    · exact actsOK_setBody _ th a as _ hacts hok hrest
    · exact actsOK_setBody _ th a as _ hacts hok hrest
    · exact actsOK_fail _ _ _ hok
  | blend i k =>
    have hi := hb.1 (.blend i k) (by simp) i rfl
    simp only [stepItem]
    split
    · exact hok
    · exact actsOK_deliver _ _ _ _ (actsOK_setBody _ th a as _ hacts hok hrest)
    · split
      · exact actsOK_fail _ _ _ hok
      · split
        · exact actsOK_deliver _ _ _ _ (actsOK_setBody _ th a as _ hacts hok hrest)
        · refine actsOK_push _ th a as rest _ hacts hok hrest ?_ (Nat.le_of_lt hi) ?_
          · exact bodyOK_of_idx _ _ _ (compBody_idx _ i ((wf_parts cfg hwf).1 i (by omega)))
          · intro j hj; simp [Handler.owns] at hj; omega
    · exact actsOK_fail _ _ _ hok
  | bg i =>
    have hi := hb.1 (.bg i) (by simp) i rfl
    simp only [stepItem]
    split
    · exact push_op i true none hi
    · exact push_op i true _ hi
    · exact actsOK_setBody _ th a as _ hacts hok hrest
  | mayFail =>
    simp only [stepItem]
    split
    · exact actsOK_fail _ _ _ hok
    · exact actsOK_setBody _ th a as _ hacts hok hrest
  | tryTake i =>
    simp only [stepItem]
    split <;> exact actsOK_setBody _ th a as _ hacts hok hrest
  | reset i =>
    simp only [stepItem]
    cases var
    · exact actsOK_setBody _ th a as _ hacts hok hrest
    · simp only
      split <;> exact actsOK_setBody _ th a as _ hacts hok hrest
  | loadFrame =>
    have hbn := hb.2 (by simp)
    simp only [stepItem]
    split
    · split
      · rename_i b hfb
        exact actsOK_setBody _ th a as _ hacts hok (fallback_bodyOK cfg hwf a.h hbn b hfb)
      · exact actsOK_fail _ _ _ hok
    · rename_i f hf
      split
      · split
        · rename_i b hfb
          exact actsOK_setBody _ th a as _ hacts hok (fallback_bodyOK cfg hwf a.h hbn b hfb)
        · exact actsOK_fail _ _ _ hok
      · exact actsOK_fail _ _ _ hok
      · refine actsOK_push _ th a as rest _ hacts hok hrest ?_ (by rw [hbn]; exact Nat.le_refl _) ?_
        · exact bodyOK_of_idx _ _ _ (opBody_idx f _ ((wf_parts cfg hwf).2.2.2 f hf) cfg.inline)
        · intro j hj; simp [Handler.owns] at hj


theorem actsOK_loadFail (cfg : Config) (hwf : cfg.wf = true) (th : Thread) (a : Act)
    (as : List Act) (hacts : th.acts = a :: as) (hok : ActsOK cfg.frames.length th.acts)
    (hbn : a.h.bound cfg.frames.length = cfg.frames.length) (e : ErrK) :
    ActsOK cfg.frames.length (loadFail cfg th e).acts := by
  have hpop := actsOK_pop _ th hok
  unfold loadFail
  split
  · split
    · rename_i b hfb
      cases has : as with
      | nil =>
        have : th.pop.acts = [] := by simp [Thread.pop, hacts, has]
        simp [Thread.setBody, this, ActsOK]
      | cons p ps =>
        have hp : th.pop.acts = p :: ps := by simp [Thread.pop, hacts, has]
        refine actsOK_setBody _ th.pop p ps b hp hpop (fallback_bodyOK cfg hwf p.h ?_ b hfb)
        rw [hacts, has] at hok
        have h1 : a.h.bound cfg.frames.length ≤ p.h.bound cfg.frames.length := by
          simpa [ctxBound] using hok.2.1
        have h2 : p.h.bound cfg.frames.length ≤ cfg.frames.length := by
          have := ctxBound_le _ _ hok.2.2.2
          simpa [ctxBound] using this
        omega
    · exact actsOK_fail _ _ _ hpop
  · exact actsOK_fail _ _ _ hpop

theorem actsOK_done (cfg : Config) (cd : Codec) (var : Variant) (ch : Choice) (hwf : cfg.wf = true)
    (hs : List HState) (th : Thread) (a : Act) (as : List Act) (hacts : th.acts = a :: as)
    (hok : ActsOK cfg.frames.length th.acts) :
    ActsOK cfg.frames.length (stepDone cfg cd var ch hs th a).th.acts := by
  have hpop := actsOK_pop _ th hok
  cases hh : a.h with
  | top =>
    simp only [stepDone, hh]
    exact hpop
  | op i silent c =>
    simp only [stepDone, hh]
    split
    · split
      · exact hpop
      · exact actsOK_fail _ _ _ hpop
    · split
      · exact hpop
      · split
        · exact hpop
        · exact actsOK_fail _ _ _ hpop
  | comp i v k =>
    simp only [stepDone, hh]
    split
    · cases var
      · exact actsOK_fail _ _ _ hpop
      · exact actsOK_fail _ _ _ hpop
    · exact actsOK_deliver _ _ _ _ hpop
  | loadOp =>
    have hbn : a.h.bound cfg.frames.length = cfg.frames.length := by simp [hh, Handler.bound]
    simp only [stepDone, hh]
    split
    · exact actsOK_loadFail cfg hwf th a as hacts hok hbn _
    · split
      · exact actsOK_loadFail cfg hwf th a as hacts hok hbn _
      · rename_i f hf
        split
        · exact actsOK_loadFail cfg hwf th a as hacts hok hbn _
        · split
          · exact actsOK_deliver _ _ _ _ hpop
          · rw [hacts] at hok
            simp only [hacts, List.tail_cons]
            refine ⟨?_, ?_, ?_, hok.2.2.2⟩
            · exact bodyOK_of_idx _ _ _ (compBody_idx f _ ((wf_parts cfg hwf).2.2.2 f hf))
            · have := hok.2.1
              rw [hbn] at this
              exact this
            · intro j hj; simp [Handler.owns] at hj
  | loadComp v =>
    have hbn : a.h.bound cfg.frames.length = cfg.frames.length := by simp [hh, Handler.bound]
    simp only [stepDone, hh]
    split
    · exact actsOK_loadFail cfg hwf th a as hacts hok hbn _
    · exact actsOK_deliver _ _ _ _ hpop

theorem actsOK_step (cfg : Config) (cd : Codec) (var : Variant) (ch : Choice) (hwf : cfg.wf = true)
    (hs : List HState) (th : Thread) (hok : ActsOK cfg.frames.length th.acts) :
    ActsOK cfg.frames.length (stepThread cfg cd var ch hs th).th.acts := by
  unfold stepThread
  split
  · exact hok
  · rename_i a as hacts
    split
    · exact actsOK_done cfg cd var ch hwf hs th a as hacts hok
    · rename_i it rest hbody
      exact actsOK_item cfg cd var ch hwf hs th a as hacts hok it rest hbody


/-! ## Single caller: `Rendering` = owned by the caller's own stack -/

theorem owned_sorted (n : Nat) : ∀ (acts : List Act), ActsOK n acts →
    List.Pairwise (· < ·) (ownedActs acts)
  | [], _ => by simp [ownedActs]
  | a :: rest, hok => by
    have ih := owned_sorted n rest hok.2.2.2
    rw [ownedActs_cons]
    cases ho : a.h.owns with
    | none => simpa using ih
    | some j =>
      simp only [Option.toList_some, List.singleton_append, List.pairwise_cons]
      refine ⟨?_, ih⟩
      intro k hk
      have h1 := hok.2.2.1 j ho
      have h2 := owned_ge_ctx n rest hok.2.2.2 k hk
      omega

theorem not_rendering_set (hs : List HState) (i : Nat) (s : HState) (hs' : s ≠ .rendering)
    (h : getH hs i ≠ .rendering ∨ i < hs.length) : getH (hs.set i s) i ≠ .rendering := by
  rw [getH_set]
  split
  · exact hs'
  · rename_i hne
    rcases h with h | h
    · exact h
    · exact absurd ⟨rfl, h⟩ hne

structure SeqInv (n : Nat) (hs : List HState) (th : Thread) : Prop where
  ok : ActsOK n th.acts
  len : hs.length = n
  own : ∀ i, getH hs i = .rendering ↔ i ∈ th.owned
  awake : th.asleep = none

theorem seqInv_step (cfg : Config) (cd : Codec) (ch : Choice) (hwf : cfg.wf = true)
    (hs : List HState) (th : Thread) (hinv : SeqInv cfg.frames.length hs th) (hne : th.acts ≠ []) :
    SeqInv cfg.frames.length (stepThread cfg cd .fixed ch hs th).hs
      (stepThread cfg cd .fixed ch hs th).th := by
  have hshape := shape_step cfg cd ch cfg.frames.length hs th hinv.ok hne hinv.awake
  have hok' := actsOK_step cfg cd .fixed ch hwf hs th hinv.ok
  have hge := owned_ge_ctx cfg.frames.length th.acts hinv.ok
  have hble := ctxBound_le cfg.frames.length th.acts hinv.ok
  generalize stepThread cfg cd .fixed ch hs th = o at *
  cases hshape with
  | same h1 h2 h3 h4 h5 =>
    refine ⟨hok', by rw [h1]; exact hinv.len, by rw [h1, h2]; exact hinv.own, ?_⟩
    cases hsl : o.th.asleep with
    | none => rfl
    | some i =>
      obtain ⟨hr, hi, _⟩ := h5 i hsl
      have := hge i ((hinv.own i).1 hr)
      simp only [innerBound] at hi
      omega
  | write i s h1 hs' hi h2 h3 h4 h5 =>
    have hni : i ∉ th.owned := fun hmem => by
      have := hge i hmem
      simp only [innerBound] at hi
      omega
    refine ⟨hok', by rw [h1]; simpa using hinv.len, ?_, h5⟩
    intro j
    rw [h1, h2]
    by_cases hij : i = j
    · subst hij
      have h := not_rendering_set hs i s hs' (Or.inr (by simp only [innerBound] at hi; rw [hinv.len]; omega))
      simp [h, hni]
    · rw [getH_set_ne _ _ _ _ hij]
      exact hinv.own j
  | acquire i h1 hne' hi h2 h3 h4 h5 =>
    refine ⟨hok', by rw [h1]; simpa using hinv.len, ?_, h5⟩
    intro j
    rw [h1, h2]
    by_cases hij : i = j
    · subst hij
      rw [getH_set_eq _ _ _ (by simp only [innerBound] at hi; rw [hinv.len]; omega)]
      simp
    · rw [getH_set_ne _ _ _ _ hij]
      simp only [List.mem_cons]
      constructor
      · intro h; exact Or.inr ((hinv.own j).1 h)
      · rintro (h | h)
        · exact absurd h.symm hij
        · exact (hinv.own j).2 h
  | release i s h1 hs' h2 h3 h4 h5 =>
    have hsorted := owned_sorted cfg.frames.length th.acts hinv.ok
    rw [← owned_def, h2] at hsorted
    have hni : i ∉ o.th.owned := fun hmem => by
      have := (List.pairwise_cons.1 hsorted).1 i hmem
      omega
    have hi : getH hs i = .rendering := (hinv.own i).2 (by rw [h2]; simp)
    refine ⟨hok', by rw [h1]; simpa using hinv.len, ?_, h5⟩
    intro j
    rw [h1]
    by_cases hij : i = j
    · subst hij
      have hlt : i < hs.length := by
        rcases Nat.lt_or_ge i hs.length with hlt | hge'
        · exact hlt
        · rw [getH_of_ge _ _ hge'] at hi
          cases hi
      have h := not_rendering_set hs i s hs' (Or.inr hlt)
      simp [h, hni]
    · rw [getH_set_ne _ _ _ _ hij, hinv.own j, h2]
      simp only [List.mem_cons]
      constructor
      · rintro (h | h)
        · exact absurd h.symm hij
        · exact h
      · intro h; exact Or.inr h


/-- no call in progress: every handle is in a state that a new caller can deal with -/
def Quiescent (n : Nat) (hs : List HState) : Prop :=
  hs.length = n ∧ ∀ i, getH hs i ≠ .rendering

theorem seqInv_start (cfg : Config) (hwf : cfg.wf = true) (hs : List HState)
    (hq : Quiescent cfg.frames.length hs) (op : Op) :
    SeqInv cfg.frames.length hs (startThread cfg op) := by
  have hown : ∀ th : Thread, th.owned = [] → ∀ i, getH hs i = .rendering ↔ i ∈ th.owned := by
    intro th h i
    rw [h]
    simp [hq.2 i]
  cases op with
  | renderKeyframe k =>
    simp only [startThread]
    split
    · rename_i idx hidx
      have hlt : idx < cfg.frames.length :=
        (wf_parts cfg hwf).2.1 idx (List.mem_of_getElem? hidx)
      refine ⟨⟨?_, Nat.le_refl _, by simp [Handler.owns], trivial⟩, hq.1, hown _ rfl, rfl⟩
      refine bodyOK_of_idx _ _ _ ?_
      intro it hit
      simp only [List.mem_cons, List.not_mem_nil, or_false] at hit
      rcases hit with rfl | rfl | rfl <;> simp [Item.idx?, Handler.bound, hlt]
    · exact ⟨⟨bodyOK_nil _ _, Nat.le_refl _, by simp [Handler.owns], trivial⟩, hq.1, hown _ rfl, rfl⟩
  | renderLoading =>
    refine ⟨⟨⟨?_, ?_⟩, Nat.le_refl _, by simp [Handler.owns], trivial⟩, hq.1, hown _ rfl, rfl⟩
    · intro it hit
      simp only [List.mem_cons, List.not_mem_nil, or_false] at hit
      subst hit
      simp [Item.idx?]
    · intro _; rfl
  | requestRegion =>
    exact ⟨trivial, hq.1, hown _ rfl, rfl⟩

theorem seqInv_run (cfg : Config) (cd : Codec) (orc : Nat → Choice) (hwf : cfg.wf = true) :
    ∀ (fuel k : Nat) (hs : List HState) (th : Thread), SeqInv cfg.frames.length hs th →
      (∀ hs' r, runThread cfg cd .fixed orc fuel k hs th = .finished hs' r →
        Quiescent cfg.frames.length hs') ∧
      (∀ hs' i, runThread cfg cd .fixed orc fuel k hs th ≠ .hang hs' i)
  | 0, _, _, _, _ => by simp [runThread]
  | fuel + 1, k, hs, th, hinv => by
    unfold runThread
    split
    · rename_i hacts
      refine ⟨?_, by simp⟩
      intro hs' r h
      cases h
      refine ⟨hinv.len, ?_⟩
      intro i hi
      have := (hinv.own i).1 hi
      simp [Thread.owned, hacts] at this
    · rename_i a as hacts
      rw [hinv.awake]
      simp only
      exact seqInv_run cfg cd orc hwf fuel (k + 1) _ _
        (seqInv_step cfg cd (orc k) hwf hs th hinv (by simp [hacts]))

theorem quiescent_resetCache (cfg : Config) (hs : List HState)
    (hq : Quiescent cfg.frames.length hs) : Quiescent cfg.frames.length (resetCache cfg hs) := by
  refine ⟨by simp [resetCache, hq.1], ?_⟩
  intro i
  simp only [resetCache, getH, List.getD_eq_getElem?_getD, List.getElem?_map]
  by_cases hi : i < hs.length
  · simp only [List.getElem?_range hi, Option.map_some, Option.getD_some]
    split
    · have := hq.2 i
      simpa [getH] using this
    · simp
  · have : (List.range hs.length)[i]? = none := List.getElem?_eq_none (by simpa using hi)
    simp [this]

theorem quiescent_runOp (cfg : Config) (cd : Codec) (orc : Nat → Choice) (hwf : cfg.wf = true)
    (fuel : Nat) (hs : List HState) (hq : Quiescent cfg.frames.length hs) (op : Op) :
    (∀ hs' r, runOp cfg cd .fixed orc fuel hs op = .finished hs' r →
        Quiescent cfg.frames.length hs') ∧
    (∀ hs' i, runOp cfg cd .fixed orc fuel hs op ≠ .hang hs' i) := by
  cases op with
  | requestRegion =>
    simp only [runOp]
    refine ⟨?_, by simp⟩
    intro hs' r h
    cases h
    exact quiescent_resetCache cfg hs hq
  | renderKeyframe k =>
    exact seqInv_run cfg cd orc hwf fuel 0 hs _ (seqInv_start cfg hwf hs hq _)
  | renderLoading =>
    exact seqInv_run cfg cd orc hwf fuel 0 hs _ (seqInv_start cfg hwf hs hq _)

theorem quiescent_runHist (cfg : Config) (cd : Codec) (hwf : cfg.wf = true) (fuel : Nat) :
    ∀ (hist : List (Op × (Nat → Choice))) (hs : List HState), Quiescent cfg.frames.length hs →
      ∀ hs' rs, runHist cfg cd .fixed fuel hs hist = some (hs', rs) →
        Quiescent cfg.frames.length hs'
  | [], hs, hq, hs', rs, h => by
    simp only [runHist, Option.some.injEq, Prod.mk.injEq] at h
    rw [← h.1]; exact hq
  | (op, orc) :: rest, hs, hq, hs', rs, h => by
    simp only [runHist] at h
    split at h
    · rename_i hs1 r hrun
      have hq1 := (quiescent_runOp cfg cd orc hwf fuel hs hq op).1 hs1 r hrun
      split at h
      · rename_i hs2 rs2 hrest
        simp only [Option.some.injEq, Prod.mk.injEq] at h
        rw [← h.1]
        exact quiescent_runHist cfg cd hwf fuel rest hs1 hq1 hs2 rs2 hrest
      · cases h
    · cases h


/-! ## Step bound: the weight of a thread decreases with every step that does not sleep -/

theorem wTab_length (cfg : Config) : ∀ m, (wTab cfg m).length = m
  | 0 => rfl
  | m + 1 => by simp [wTab, wTab_length cfg m]

theorem wTab_getD (cfg : Config) : ∀ m r, r < m →
    (wTab cfg m).getD r (0, 0) =
      wEntry cfg.inline (fun q => (wTab cfg r).getD q (0, 0)) (frameOf cfg r)
  | 0, r, h => by omega
  | m + 1, r, h => by
    simp only [wTab, List.getD_eq_getElem?_getD]
    by_cases hr : r < m
    · rw [List.getElem?_append_left (by rw [wTab_length]; exact hr)]
      have := wTab_getD cfg m r hr
      simpa [List.getD_eq_getElem?_getD] using this
    · have : r = m := by omega
      subst this
      rw [List.getElem?_append_right (by rw [wTab_length]; exact Nat.le_refl _)]
      simp [wTab_length]

theorem wItem_congr (look look' : Nat → Nat × Nat) (it : Item)
    (h : ∀ j, it.idx? = some j → look j = look' j) : wItem look it = wItem look' it := by
  cases it <;> simp [wItem, Item.idx?] at h ⊢ <;> simp [h]

theorem wBody_congr (look look' : Nat → Nat × Nat) (b : List Item)
    (h : ∀ it ∈ b, ∀ j, it.idx? = some j → look j = look' j) : wBody look b = wBody look' b := by
  unfold wBody
  congr 1
  exact List.map_congr_left fun it hit => wItem_congr look look' it (h it hit)

theorem wEntry_congr (inl : Bool) (look look' : Nat → Nat × Nat) (f : Frame) (i : Nat)
    (hwf : f.wfAt i = true) (h : ∀ r, r < i → look r = look' r) :
    wEntry inl look f = wEntry inl look' f := by
  simp only [wEntry]
  rw [wBody_congr look look' (opBody inl f) (fun it hit j hj => h j ((opBody_idx f i hwf inl it hit).1 j hj)),
    wBody_congr look look' (compBody f) (fun it hit j hj => h j ((compBody_idx f i hwf it hit).1 j hj))]

theorem wLook_eq (cfg : Config) (hwf : cfg.wf = true) (i : Nat) (hi : i < cfg.frames.length) :
    wLook cfg i = wEntry cfg.inline (wLook cfg) (frameOf cfg i) := by
  unfold wLook
  rw [wTab_getD cfg _ i hi]
  refine wEntry_congr _ _ _ _ i ((wf_parts cfg hwf).1 i hi) ?_
  intro r hr
  rw [wTab_getD cfg i r hr, wTab_getD cfg _ r (by omega)]

theorem wIt_pos (cfg : Config) (it : Item) : 1 ≤ wIt cfg it := by
  cases it <;> simp [wIt, wItem, wLoading] <;> omega

theorem sumNat_cons (x : Nat) (l : List Nat) : sumNat (x :: l) = x + sumNat l := rfl

theorem sumNat_append (l l' : List Nat) : sumNat (l ++ l') = sumNat l + sumNat l' := by
  induction l with
  | nil => simp [sumNat]
  | cons x l ih => simp [sumNat_cons, ih]; omega

theorem wIt_body (cfg : Config) (b : List Item) (h : ∀ it ∈ b, it ≠ .loadFrame) :
    sumNat (b.map (wIt cfg)) = wBody (wLook cfg) b := by
  unfold wBody
  congr 1
  apply List.map_congr_left
  intro it hit
  have := h it hit
  cases it <;> first | rfl | contradiction

def wActs (cfg : Config) (as : List Act) : Nat := sumNat (as.map (wAct cfg))

theorem wThread_eq (cfg : Config) (th : Thread) (a : Act) (as : List Act)
    (h : th.acts = a :: as) : wThread cfg th = wAct cfg a + wActs cfg as := by
  simp [wThread, wActs, h, sumNat_cons]


theorem wThread_setBody (cfg : Config) (th : Thread) (a : Act) (as : List Act) (b : List Item)
    (h : th.acts = a :: as) :
    wThread cfg (th.setBody b) =
      1 + sumNat (b.map (wIt cfg)) + wExtra cfg a.h + wActs cfg as := by
  simp [Thread.setBody, h, wThread, wActs, sumNat_cons, wAct]

theorem wThread_fail (cfg : Config) (th : Thread) (a : Act) (as : List Act) (e : ErrK)
    (h : th.acts = a :: as) :
    wThread cfg (th.fail e) = 1 + wExtra cfg a.h + wActs cfg as := by
  simp [Thread.fail, h, wThread, wActs, wAct, sumNat]

theorem wThread_fail_le (cfg : Config) (th : Thread) (e : ErrK) :
    wThread cfg (th.fail e) ≤ wThread cfg th := by
  cases h : th.acts with
  | nil => simp [Thread.fail, h]
  | cons a as =>
    rw [wThread_fail cfg th a as e h, wThread_eq cfg th a as h]
    simp only [wAct]
    omega

@[simp] theorem wThread_deliver (cfg : Config) (th : Thread) (k : Cont) (v : Val) :
    wThread cfg (th.deliver k v) = wThread cfg th := by
  unfold Thread.deliver
  cases k with
  | discard => rfl
  | ret => rfl
  | collect =>
    simp only
    split
    · rfl
    · rename_i a as h
      simp [wThread, h, sumNat_cons, wAct]

theorem wThread_push (cfg : Config) (th : Thread) (a : Act) (as : List Act) (rest : List Item)
    (new : Act) (h : th.acts = a :: as) :
    wThread cfg (th.push rest new) =
      wAct cfg new + (1 + sumNat (rest.map (wIt cfg)) + wExtra cfg a.h) + wActs cfg as := by
  simp [Thread.push, h, wThread, wActs, sumNat_cons, wAct]
  omega

theorem wThread_pop (cfg : Config) (th : Thread) (a : Act) (as : List Act)
    (h : th.acts = a :: as) : wThread cfg th.pop = wActs cfg as := by
  simp [Thread.pop, h, wThread, wActs]

theorem wThread_body (cfg : Config) (th : Thread) (a : Act) (as : List Act)
    (it : Item) (rest : List Item) (h : th.acts = a :: as) (hb : a.body = it :: rest) :
    wThread cfg th =
      1 + (wIt cfg it + sumNat (rest.map (wIt cfg))) + wExtra cfg a.h + wActs cfg as := by
  rw [wThread_eq cfg th a as h]
  simp [wAct, hb, sumNat_cons]

theorem wOp_eq (cfg : Config) (hwf : cfg.wf = true) (i : Nat) (hi : i < cfg.frames.length)
    (h : Handler) (hx : wExtra cfg h = 0) (w : List Val) :
    wAct cfg { h := h, ws := w, body := opBody cfg.inline (frameOf cfg i) } = (wLook cfg i).1 := by
  rw [wLook_eq cfg hwf i hi]
  simp only [wAct, wEntry, hx]
  rw [wIt_body cfg _ (fun it hit => (opBody_idx _ i ((wf_parts cfg hwf).1 i hi) cfg.inline it hit).2)]
  omega

theorem wComp_eq (cfg : Config) (hwf : cfg.wf = true) (i : Nat) (hi : i < cfg.frames.length)
    (h : Handler) (hx : wExtra cfg h = 0) (w : List Val) :
    wAct cfg { h := h, ws := w, body := compBody (frameOf cfg i) } = (wLook cfg i).2 := by
  rw [wLook_eq cfg hwf i hi]
  simp only [wAct, wEntry, hx]
  rw [wIt_body cfg _ (fun it hit => (compBody_idx _ i ((wf_parts cfg hwf).1 i hi) it hit).2)]
  omega

theorem wFB_eq (cfg : Config) (_hwf : cfg.wf = true) (b : List Item) (h : fallbackBody cfg = some b) :
    sumNat (b.map (wIt cfg)) = wFB cfg := by
  unfold wFB
  rw [h]
  apply wIt_body
  unfold fallbackBody at h
  split at h
  · cases h
    intro it hit
    simp only [List.mem_cons, List.not_mem_nil, or_false] at hit
    rcases hit with rfl | rfl | rfl <;> simp
  · cases h

theorem weight_item (cfg : Config) (cd : Codec) (var : Variant) (ch : Choice) (hwf : cfg.wf = true)
    (hs : List HState) (th : Thread) (a : Act) (as : List Act) (hacts : th.acts = a :: as)
    (hok : ActsOK cfg.frames.length th.acts) (it : Item) (rest : List Item)
    (hbody : a.body = it :: rest)
    (hsl : (stepItem cfg cd var ch hs th it rest).th.asleep = none) :
    wThread cfg (stepItem cfg cd var ch hs th it rest).th < wThread cfg th := by
  have hW := wThread_body cfg th a as it rest hacts hbody
  have hok' := hok
  rw [hacts] at hok'
  have hb : BodyOK cfg.frames.length a.h (it :: rest) := by rw [← hbody]; exact hok'.1
  have hle : a.h.bound cfg.frames.length ≤ cfg.frames.length := by
    have := ctxBound_le _ _ hok'
    simpa [ctxBound] using this
  have hpos := wIt_pos cfg it
  cases it with
  | rwi i =>
    have hi : i < cfg.frames.length := by have := hb.1 (.rwi i) (by simp) i rfl; omega
    simp only [wIt, wItem] at hW hpos
    simp only [stepItem]
    split
    · rw [wThread_push cfg th a as rest _ hacts, wOp_eq cfg hwf i hi _ rfl]; omega
    · rw [wThread_push cfg th a as rest _ hacts, wOp_eq cfg hwf i hi _ rfl]; omega
    · rw [wThread_fail cfg th a as _ hacts]; omega
    · rw [wThread_fail cfg th a as _ hacts]; omega
    · rw [wThread_setBody cfg th a as _ hacts]
      simp only [List.map_cons, sumNat_cons, wIt, wItem]; omega
  | waitRwi i =>
    simp only [wIt, wItem] at hW hpos
    simp only [stepItem] at hsl ⊢
    split
    · rename_i hst
      simp [hst] at hsl
    · rw [wThread_setBody cfg th a as _ hacts]; omega
    · rw [wThread_setBody cfg th a as _ hacts]; omega
    · rw [wThread_fail cfg th a as _ hacts]; omega
  | blend i k =>
    have hi : i < cfg.frames.length := by have := hb.1 (.blend i k) (by simp) i rfl; omega
    simp only [wIt, wItem] at hW hpos
    simp only [stepItem] at hsl ⊢
    split
    · rename_i hst
      simp [hst] at hsl
    · rw [wThread_deliver, wThread_setBody cfg th a as _ hacts]; omega
    · split
      · rw [wThread_fail cfg th a as _ hacts]; omega
      · split
        · rw [wThread_deliver, wThread_setBody cfg th a as _ hacts]; omega
        · rw [wThread_push cfg th a as rest _ hacts, wComp_eq cfg hwf i hi _ rfl]; omega
    · rw [wThread_fail cfg th a as _ hacts]; omega
  | bg i =>
    have hi : i < cfg.frames.length := by have := hb.1 (.bg i) (by simp) i rfl; omega
    simp only [wIt, wItem] at hW hpos
    simp only [stepItem]
    split
    · rw [wThread_push cfg th a as rest _ hacts, wOp_eq cfg hwf i hi _ rfl]; omega
    · rw [wThread_push cfg th a as rest _ hacts, wOp_eq cfg hwf i hi _ rfl]; omega
    · rw [wThread_setBody cfg th a as _ hacts]; omega
  | mayFail =>
    simp only [stepItem]
    split
    · rw [wThread_fail cfg th a as _ hacts]; omega
    · rw [wThread_setBody cfg th a as _ hacts]; omega
  | tryTake i =>
    simp only [stepItem]
    split <;> (rw [wThread_setBody cfg th a as _ hacts]; omega)
  | reset i =>
    simp only [stepItem]
    cases var
    · simp only
      rw [wThread_setBody cfg th a as _ hacts]; omega
    · simp only
      split <;> (rw [wThread_setBody cfg th a as _ hacts]; omega)
  | loadFrame =>
    simp only [wIt] at hW
    have hl3 : wFB cfg + 3 ≤ wLoading cfg := by simp only [wLoading]; omega
    simp only [stepItem]
    split
    · split
      · rename_i b hfb
        rw [wThread_setBody cfg th a as _ hacts, wFB_eq cfg hwf b hfb]; omega
      · rw [wThread_fail cfg th a as _ hacts]; omega
    · rename_i f hf
      split
      · split
        · rename_i b hfb
          rw [wThread_setBody cfg th a as _ hacts, wFB_eq cfg hwf b hfb]; omega
        · rw [wThread_fail cfg th a as _ hacts]; omega
      · rw [wThread_fail cfg th a as _ hacts]; omega
      · have hnew : wAct cfg { h := .loadOp, body := opBody cfg.inline f } =
            1 + wBody (wLook cfg) (opBody cfg.inline f) +
              ((1 + wBody (wLook cfg) (compBody f)) + wFB cfg + 2) := by
          simp only [wAct, wExtra, hf, wEntry]
          rw [wIt_body cfg _ (fun it hit =>
            (opBody_idx f _ ((wf_parts cfg hwf).2.2.2 f hf) cfg.inline it hit).2)]
        have hload : wLoading cfg =
            (1 + wBody (wLook cfg) (opBody cfg.inline f)) + (1 + wBody (wLook cfg) (compBody f)) +
              wFB cfg + 3 := by
          simp only [wLoading, hf, wEntry]
        rw [hload] at hW
        rw [wThread_push cfg th a as rest _ hacts, hnew]
        omega


theorem wThread_loadFail_le (cfg : Config) (hwf : cfg.wf = true) (th : Thread) (a : Act)
    (as : List Act) (hacts : th.acts = a :: as) (e : ErrK) :
    wThread cfg (loadFail cfg th e) ≤ wFB cfg + wActs cfg as := by
  have hpop := wThread_pop cfg th a as hacts
  unfold loadFail
  split
  · split
    · rename_i b hfb
      cases has : as with
      | nil =>
        have : th.pop.acts = [] := by simp [Thread.pop, hacts, has]
        simp [Thread.setBody, this, wThread, sumNat]
      | cons p ps =>
        have hp : th.pop.acts = p :: ps := by simp [Thread.pop, hacts, has]
        rw [wThread_setBody cfg th.pop p ps b hp, wFB_eq cfg hwf b hfb]
        simp only [wActs, List.map_cons, sumNat_cons, wAct]
        omega
    · have := wThread_fail_le cfg th.pop .incomplete
      omega
  · have := wThread_fail_le cfg th.pop e
    omega

theorem weight_done (cfg : Config) (cd : Codec) (var : Variant) (ch : Choice) (hwf : cfg.wf = true)
    (hs : List HState) (th : Thread) (a : Act) (as : List Act) (hacts : th.acts = a :: as)
    (hbody : a.body = []) :
    wThread cfg (stepDone cfg cd var ch hs th a).th < wThread cfg th := by
  have hW := wThread_eq cfg th a as hacts
  have hpop := wThread_pop cfg th a as hacts
  have hA : wAct cfg a = 1 + wExtra cfg a.h := by simp [wAct, hbody, sumNat]
  have hf : ∀ e, wThread cfg (th.pop.fail e) ≤ wActs cfg as := fun e => by
    have := wThread_fail_le cfg th.pop e; omega
  cases hh : a.h with
  | top =>
    simp only [stepDone, hh]
    show wThread cfg th.pop < wThread cfg th
    omega
  | op i silent c =>
    simp only [stepDone, hh]
    split
    · split
      · show wThread cfg th.pop < wThread cfg th
        omega
      · rename_i e _ _
        show wThread cfg (th.pop.fail e) < wThread cfg th
        have := hf e; omega
    · split
      · show wThread cfg th.pop < wThread cfg th
        omega
      · split
        · show wThread cfg th.pop < wThread cfg th
          omega
        · show wThread cfg (th.pop.fail .incomplete) < wThread cfg th
          have := hf .incomplete; omega
  | comp i v k =>
    simp only [stepDone, hh]
    split
    · rename_i e _
      cases var
      · show wThread cfg (th.pop.fail e) < wThread cfg th
        have := hf e; omega
      · show wThread cfg (th.pop.fail e) < wThread cfg th
        have := hf e; omega
    · show wThread cfg (th.pop.deliver k (cd.comp i v a.ws)) < wThread cfg th
      rw [wThread_deliver]; omega
  | loadOp =>
    have hx : wExtra cfg a.h = (match cfg.loading with
        | some f => (wEntry cfg.inline (wLook cfg) f).2 | none => 0) + wFB cfg + 2 := by
      rw [hh]; rfl
    simp only [stepDone, hh]
    split
    · dsimp only; have := wThread_loadFail_le cfg hwf th a as hacts ‹_›; omega
    · split
      · dsimp only; have := wThread_loadFail_le cfg hwf th a as hacts .incomplete; omega
      · rename_i f hf'
        split
        · dsimp only; have := wThread_loadFail_le cfg hwf th a as hacts .incomplete; omega
        · split
          · dsimp only; rw [wThread_deliver]; omega
          · have hnew : wThread cfg { th with acts :=
                { h := .loadComp (cd.pre cfg.frames.length (cd.dec cfg.frames.length a.ws)),
                  body := compBody f } :: th.acts.tail } =
                (1 + wBody (wLook cfg) (compBody f) + (wFB cfg + 1)) + wActs cfg as := by
              simp only [wThread, hacts, List.tail_cons, List.map_cons, sumNat_cons, wActs, wAct,
                wExtra]
              rw [wIt_body cfg _ (fun it hit =>
                (compBody_idx f _ ((wf_parts cfg hwf).2.2.2 f hf') it hit).2)]
            dsimp only
            rw [hnew]
            have : wExtra cfg a.h = (1 + wBody (wLook cfg) (compBody f)) + wFB cfg + 2 := by
              rw [hh]; simp only [wExtra, hf', wEntry]
            omega
  | loadComp v =>
    have hx : wExtra cfg a.h = wFB cfg + 1 := by rw [hh]; rfl
    simp only [stepDone, hh]
    split
    · dsimp only; have := wThread_loadFail_le cfg hwf th a as hacts ‹_›; omega
    · dsimp only; rw [wThread_deliver]; omega

theorem weight_step (cfg : Config) (cd : Codec) (var : Variant) (ch : Choice) (hwf : cfg.wf = true)
    (hs : List HState) (th : Thread) (hok : ActsOK cfg.frames.length th.acts)
    (hne : th.acts ≠ []) (hsl : (stepThread cfg cd var ch hs th).th.asleep = none) :
    wThread cfg (stepThread cfg cd var ch hs th).th < wThread cfg th := by
  unfold stepThread at hsl ⊢
  split
  · contradiction
  · rename_i a as hacts
    split
    · rename_i hbody
      exact weight_done cfg cd var ch hwf hs th a as hacts hbody
    · rename_i it rest hbody
      simp only [hacts, hbody] at hsl
      exact weight_item cfg cd var ch hwf hs th a as hacts hok it rest hbody hsl


theorem run_finishes (cfg : Config) (cd : Codec) (orc : Nat → Choice) (hwf : cfg.wf = true) :
    ∀ (fuel k : Nat) (hs : List HState) (th : Thread), SeqInv cfg.frames.length hs th →
      wThread cfg th + 1 ≤ fuel →
      ∃ hs' r, runThread cfg cd .fixed orc fuel k hs th = .finished hs' r
  | 0, _, _, _, _, h => by omega
  | fuel + 1, k, hs, th, hinv, hfuel => by
    unfold runThread
    split
    · exact ⟨_, _, rfl⟩
    · rename_i a as hacts
      rw [hinv.awake]
      simp only
      have hne : th.acts ≠ [] := by simp [hacts]
      have hinv' := seqInv_step cfg cd (orc k) hwf hs th hinv hne
      have hw := weight_step cfg cd .fixed (orc k) hwf hs th hinv.ok hne hinv'.awake
      exact run_finishes cfg cd orc hwf fuel (k + 1) _ _ hinv' (by omega)

theorem runOp_finishes (cfg : Config) (cd : Codec) (orc : Nat → Choice) (hwf : cfg.wf = true)
    (hs : List HState) (hq : Quiescent cfg.frames.length hs) (op : Op) (fuel : Nat)
    (hfuel : opFuel cfg op ≤ fuel) :
    ∃ hs' r, runOp cfg cd .fixed orc fuel hs op = .finished hs' r := by
  cases op with
  | requestRegion => exact ⟨_, _, rfl⟩
  | renderKeyframe k =>
    exact run_finishes cfg cd orc hwf fuel 0 hs _ (seqInv_start cfg hwf hs hq _) hfuel
  | renderLoading =>
    exact run_finishes cfg cd orc hwf fuel 0 hs _ (seqInv_start cfg hwf hs hq _) hfuel


/-! ## Values: everything stored in a handle is the value of a never-failed render -/

def chanRefs (f : Frame) : List Nat := f.chans.filterMap (·.1)

def cleanEntry (cd : Codec) (b : Nat → Val) (i : Nat) (f : Frame) : Val × Val :=
  let d := cd.dec i (f.opRefs.map b)
  let p := cd.pre i d
  (d, if f.skip then p else cd.comp i p ((f.chans.filterMap (·.1)).map b))

theorem cleanTab_succ (cfg : Config) (cd : Codec) (i : Nat) :
    cleanTab cfg cd (i + 1) = cleanTab cfg cd i ++
      [cleanEntry cd (fun r => ((cleanTab cfg cd i).getD r (0, 0)).2) i (frameOf cfg i)] := rfl

theorem cleanTab_length (cfg : Config) (cd : Codec) : ∀ m, (cleanTab cfg cd m).length = m
  | 0 => rfl
  | m + 1 => by rw [cleanTab_succ]; simp [cleanTab_length cfg cd m]

theorem cleanTab_getD (cfg : Config) (cd : Codec) : ∀ m r, r < m →
    (cleanTab cfg cd m).getD r (0, 0) =
      cleanEntry cd (fun q => ((cleanTab cfg cd r).getD q (0, 0)).2) r (frameOf cfg r)
  | 0, r, h => by omega
  | m + 1, r, h => by
    rw [cleanTab_succ]
    simp only [List.getD_eq_getElem?_getD]
    by_cases hr : r < m
    · rw [List.getElem?_append_left (by rw [cleanTab_length]; exact hr)]
      have := cleanTab_getD cfg cd m r hr
      simpa [List.getD_eq_getElem?_getD] using this
    · have : r = m := by omega
      subst this
      rw [List.getElem?_append_right (by rw [cleanTab_length]; exact Nat.le_refl _)]
      simp [cleanTab_length]

theorem cleanEntry_congr (cd : Codec) (b b' : Nat → Val) (i : Nat) (f : Frame)
    (hwf : f.wfAt i = true) (h : ∀ r, r < i → b r = b' r) :
    cleanEntry cd b i f = cleanEntry cd b' i f := by
  obtain ⟨_, h2, _, h4, _⟩ := (wfAt_iff f i).1 hwf
  have e1 : f.opRefs.map b = f.opRefs.map b' :=
    List.map_congr_left fun r hr => h r (h2 r hr)
  have e2 : (f.chans.filterMap (·.1)).map b = (f.chans.filterMap (·.1)).map b' := by
    apply List.map_congr_left
    intro r hr
    simp only [List.mem_filterMap] at hr
    obtain ⟨c, hc, hcr⟩ := hr
    exact h r (h4 c hc r hcr)
  simp only [cleanEntry, e1, e2]

theorem clean_eq (cfg : Config) (cd : Codec) (hwf : cfg.wf = true) (i : Nat)
    (hi : i < cfg.frames.length) :
    (cleanDone cfg cd i, cleanBlended cfg cd i) =
      cleanEntry cd (cleanBlended cfg cd) i (frameOf cfg i) := by
  have h1 : (cleanDone cfg cd i, cleanBlended cfg cd i) =
      (cleanTab cfg cd cfg.frames.length).getD i (0, 0) := rfl
  rw [h1, cleanTab_getD cfg cd _ i hi]
  refine cleanEntry_congr cd _ _ i _ ((wf_parts cfg hwf).1 i hi) ?_
  intro r hr
  simp only [cleanBlended]
  rw [cleanTab_getD cfg cd i r hr, cleanTab_getD cfg cd _ r (by omega)]

theorem cleanDone_eq (cfg : Config) (cd : Codec) (hwf : cfg.wf = true) (i : Nat)
    (hi : i < cfg.frames.length) :
    cleanDone cfg cd i = cd.dec i ((frameOf cfg i).opRefs.map (cleanBlended cfg cd)) := by
  have := congrArg Prod.fst (clean_eq cfg cd hwf i hi)
  simpa [cleanEntry] using this

theorem cleanBlended_eq (cfg : Config) (cd : Codec) (hwf : cfg.wf = true) (i : Nat)
    (hi : i < cfg.frames.length) :
    cleanBlended cfg cd i =
      if (frameOf cfg i).skip then cd.pre i (cleanDone cfg cd i)
      else cd.comp i (cd.pre i (cleanDone cfg cd i))
        ((chanRefs (frameOf cfg i)).map (cleanBlended cfg cd)) := by
  have := congrArg Prod.snd (clean_eq cfg cd hwf i hi)
  rw [cleanDone_eq cfg cd hwf i hi]
  simpa [cleanEntry, chanRefs] using this

/-- images the rest of a body will still hand to its activation -/
def pend (cfg : Config) (cd : Codec) (b : List Item) : List Val :=
  b.filterMap fun
    | .blend r .collect => some (cleanBlended cfg cd r)
    | _ => none

theorem pend_append (cfg : Config) (cd : Codec) (b b' : List Item) :
    pend cfg cd (b ++ b') = pend cfg cd b ++ pend cfg cd b' := by
  simp [pend, List.filterMap_append]

theorem pend_flatMap_collect (cfg : Config) (cd : Codec) (l : List Nat) :
    pend cfg cd (l.flatMap (refCall .collect)) = l.map (cleanBlended cfg cd) := by
  induction l with
  | nil => rfl
  | cons r l ih =>
    simp only [List.flatMap_cons, pend_append, ih, List.map_cons]
    simp [pend, refCall]

theorem pend_flatMap_discard (cfg : Config) (cd : Codec) (l : List Nat) :
    pend cfg cd (l.flatMap (refCall .discard)) = [] := by
  induction l with
  | nil => rfl
  | cons r l ih =>
    simp only [List.flatMap_cons, pend_append, ih]
    simp [pend, refCall]

theorem pend_opBody (cfg : Config) (cd : Codec) (inl : Bool) (f : Frame) :
    pend cfg cd (opBody inl f) = f.opRefs.map (cleanBlended cfg cd) := by
  simp only [opBody, pend_append, pend_flatMap_collect]
  have : pend cfg cd (if inl = true then f.spawn.map Item.bg else []) = [] := by
    split
    · simp [pend, List.filterMap_map]
    · rfl
  simp [this]

theorem pend_chanItems (cfg : Config) (cd : Codec) (c : Option Nat × Bool) :
    pend cfg cd (chanItems c) = (c.1.toList).map (cleanBlended cfg cd) := by
  obtain ⟨c1, c2⟩ := c
  cases c1 with
  | none => simp [chanItems, pend]
  | some r =>
    cases c2 <;> simp [chanItems, pend, refCall]

theorem pend_compBody (cfg : Config) (cd : Codec) (f : Frame) :
    pend cfg cd (compBody f) = (chanRefs f).map (cleanBlended cfg cd) := by
  simp only [compBody, pend_append, pend_flatMap_discard, List.nil_append]
  have h2 : pend cfg cd (resetItems f.reset) = [] := by
    cases f.reset <;> simp [pend, resetItems]
  rw [h2, List.append_nil]
  simp only [chanRefs]
  induction f.chans with
  | nil => rfl
  | cons c cs ih =>
    simp only [List.flatMap_cons, pend_append, ih, pend_chanItems, List.filterMap_cons]
    cases c.1 <;> simp


section Values
variable (cfg : Config) (cd : Codec) (P : Val → Prop)

def HsVal (hs : List HState) : Prop :=
  ∀ i, (∀ v, getH hs i = .done v → v = cleanDone cfg cd i) ∧
       (∀ v, getH hs i = .blended v → v = cleanBlended cfg cd i)

/-- what `render_loading_keyframe` may return -/
def LoadP : Prop :=
  (∀ idx, cfg.inProgressKf = some idx → P (cleanBlended cfg cd idx)) ∧
  (∀ v, cleanLoading cfg cd = some v → P v)

structure BodyP (b : List Item) : Prop where
  ret : ∀ r, Item.blend r .ret ∈ b → P (cleanBlended cfg cd r)
  load : Item.loadFrame ∈ b → LoadP cfg cd P

/-- `full` = images collected so far ++ image the child will deliver ++ images still to come -/
def HandOK (h : Handler) (full : List Val) : Prop :=
  match h with
  | .top => True
  | .op i _ _ => full = (frameOf cfg i).opRefs.map (cleanBlended cfg cd)
  | .comp i v k =>
    v = cd.pre i (cleanDone cfg cd i) ∧ (frameOf cfg i).skip = false ∧
    (k = .ret → P (cleanBlended cfg cd i)) ∧
    full = (chanRefs (frameOf cfg i)).map (cleanBlended cfg cd)
  | .loadOp =>
    LoadP cfg cd P ∧ ∃ f, cfg.loading = some f ∧ full = f.opRefs.map (cleanBlended cfg cd)
  | .loadComp v =>
    LoadP cfg cd P ∧ ∃ f, cfg.loading = some f ∧ f.skip = false ∧
      v = cd.pre cfg.frames.length (cd.dec cfg.frames.length (f.opRefs.map (cleanBlended cfg cd))) ∧
      full = (chanRefs f).map (cleanBlended cfg cd)

def deliverOfH : Option Handler → List Val
  | some (.comp j _ .collect) => [cleanBlended cfg cd j]
  | _ => []

def isLoadH : Option Handler → Bool
  | some .loadOp => true
  | some (.loadComp _) => true
  | _ => false

/-- `ex`: an error is travelling to this activation's handler; its accumulator is then irrelevant -/
def AccOK (ex : Bool) (a : Act) (child : Option Handler) : Prop :=
  BodyP cfg cd P a.body ∧ (Item.loadFrame ∈ a.body → a.h = .top) ∧ (isLoadH child = true → a.h = .top) ∧
    (isLoadH (some a.h) = true → LoadP cfg cd P) ∧
    (ex = false → HandOK cfg cd P a.h (a.ws ++ deliverOfH cfg cd child ++ pend cfg cd a.body))

/-- `ex`: the innermost activation is exempt (an error is travelling to its handler) -/
def AccsOK : Bool → Option Handler → List Act → Prop
  | _, _, [] => True
  | ex, child, a :: rest => AccOK cfg cd P ex a child ∧ AccsOK false (some a.h) rest

structure ThreadVal (th : Thread) : Prop where
  res : ∀ v, th.result = some (.ok v) → P v
  errBody : ∀ a as, th.acts = a :: as → th.err ≠ none → a.body = []
  accs : AccsOK cfg cd P th.err.isSome none th.acts

theorem bodyP_tail (it : Item) (rest : List Item) (h : BodyP cfg cd P (it :: rest)) :
    BodyP cfg cd P rest :=
  ⟨fun r hr => h.ret r (by simp [hr]), fun hl => h.load (by simp [hl])⟩

theorem bodyP_nil : BodyP cfg cd P [] := ⟨by simp, by simp⟩

theorem hsVal_set (hs : List HState) (i : Nat) (s : HState) (h : HsVal cfg cd hs)
    (hd : ∀ v, s = .done v → v = cleanDone cfg cd i)
    (hb : ∀ v, s = .blended v → v = cleanBlended cfg cd i) : HsVal cfg cd (hs.set i s) := by
  intro j
  rw [getH_set]
  split
  · rename_i hij
    rw [← hij.1]
    exact ⟨hd, hb⟩
  · exact h j

theorem pend_cons_collect (r : Nat) (rest : List Item) :
    pend cfg cd (.blend r .collect :: rest) = cleanBlended cfg cd r :: pend cfg cd rest := by
  simp [pend]

theorem pend_cons_other (it : Item) (rest : List Item) (h : ∀ r, it ≠ .blend r .collect) :
    pend cfg cd (it :: rest) = pend cfg cd rest := by
  cases it with
  | blend r k =>
    cases k with
    | collect => exact absurd rfl (h r)
    | _ => simp [pend]
  | _ => simp [pend]

variable {cfg cd P}

theorem tv_head {th : Thread} {a : Act} {as : List Act} (hacts : th.acts = a :: as)
    (herr : th.err = none) (h : ThreadVal cfg cd P th) :
    (BodyP cfg cd P a.body ∧ (Item.loadFrame ∈ a.body → a.h = .top) ∧ (isLoadH none = true → a.h = .top) ∧
      HandOK cfg cd P a.h (a.ws ++ deliverOfH cfg cd none ++ pend cfg cd a.body)) ∧
    AccsOK cfg cd P false (some a.h) as := by
  have := h.accs
  rw [hacts, herr] at this
  exact ⟨⟨this.1.1, this.1.2.1, this.1.2.2.1, this.1.2.2.2.2 rfl⟩, this.2⟩

theorem tv_headL {th : Thread} {a : Act} {as : List Act} (hacts : th.acts = a :: as)
    (h : ThreadVal cfg cd P th) : isLoadH (some a.h) = true → LoadP cfg cd P := by
  have := h.accs
  rw [hacts] at this
  exact this.1.2.2.2.1

theorem tv_setBody {th : Thread} {a : Act} {as : List Act} (b : List Item)
    (hacts : th.acts = a :: as) (herr : th.err = none) (h : ThreadVal cfg cd P th)
    (hb : BodyP cfg cd P b) (hl : Item.loadFrame ∈ b → a.h = .top)
    (hh : HandOK cfg cd P a.h (a.ws ++ pend cfg cd b)) :
    ThreadVal cfg cd P (th.setBody b) := by
  obtain ⟨ha, hrest⟩ := tv_head hacts herr h
  refine ⟨?_, ?_, ?_⟩
  · simpa [Thread.setBody, hacts] using h.res
  · intro a' as' _ he
    simp [Thread.setBody, hacts, herr] at he
  · simp only [Thread.setBody, hacts, herr, Option.isSome_none]
    refine ⟨⟨hb, hl, by simp [isLoadH], tv_headL (a := a) hacts h, fun _ => ?_⟩, hrest⟩
    simpa [deliverOfH] using hh

theorem tv_fail {th : Thread} (e : ErrK) (hne : th.acts ≠ []) (h : ThreadVal cfg cd P th) :
    ThreadVal cfg cd P (th.fail e) := by
  cases hacts : th.acts with
  | nil => contradiction
  | cons a as =>
    have hacc := h.accs
    rw [hacts] at hacc
    refine ⟨?_, ?_, ?_⟩
    · simpa [Thread.fail, hacts] using h.res
    · intro a' as' ha' _
      simp only [Thread.fail, hacts, List.cons.injEq] at ha'
      rw [← ha'.1]
    · simp only [Thread.fail, hacts, Option.isSome_some]
      exact ⟨⟨bodyP_nil cfg cd P, by simp, by simp [isLoadH], hacc.1.2.2.2.1, by simp⟩, hacc.2⟩

theorem tv_deliver {th : Thread} {a : Act} {as : List Act} (i : Nat) (k : Cont) (rest : List Item)
    (hacts : th.acts = a :: as) (herr : th.err = none) (hbody : a.body = .blend i k :: rest)
    (h : ThreadVal cfg cd P th) :
    ThreadVal cfg cd P ((th.setBody rest).deliver k (cleanBlended cfg cd i)) := by
  obtain ⟨⟨hb, hl, _, hh⟩, hrest⟩ := tv_head hacts herr h
  rw [hbody] at hb hl hh
  have hb' := bodyP_tail cfg cd P _ _ hb
  have hl' : Item.loadFrame ∈ rest → a.h = .top := fun hx => hl (by simp [hx])
  cases k with
  | discard =>
    refine tv_setBody rest hacts herr h hb' hl' ?_
    rw [pend_cons_other cfg cd _ _ (by simp)] at hh
    simpa [deliverOfH] using hh
  | ret =>
    have hset : ThreadVal cfg cd P (th.setBody rest) := by
      refine tv_setBody rest hacts herr h hb' hl' ?_
      rw [pend_cons_other cfg cd _ _ (by simp)] at hh
      simpa [deliverOfH] using hh
    refine ⟨?_, ?_, ?_⟩
    · intro v hv
      simp only [Thread.deliver, Option.some.injEq, Res.ok.injEq] at hv
      rw [← hv]
      exact hb.ret i (by simp)
    · exact hset.errBody
    · exact hset.accs
  | collect =>
    rw [pend_cons_collect] at hh
    refine ⟨?_, ?_, ?_⟩
    · simpa [Thread.deliver, Thread.setBody, hacts] using h.res
    · intro a' as' _ he
      simp [Thread.deliver, Thread.setBody, hacts, herr] at he
    · simp only [Thread.deliver, Thread.setBody, hacts, herr, Option.isSome_none]
      refine ⟨⟨hb', hl', by simp [isLoadH], tv_headL (a := a) hacts h, fun _ => ?_⟩, hrest⟩
      simpa [deliverOfH] using hh

theorem tv_push {th : Thread} {a : Act} {as : List Act} (it : Item) (rest : List Item) (new : Act)
    (hacts : th.acts = a :: as) (herr : th.err = none) (hbody : a.body = it :: rest)
    (h : ThreadVal cfg cd P th) (hws : new.ws = [])
    (hnb : BodyP cfg cd P new.body) (hnl : Item.loadFrame ∉ new.body)
    (hnh : HandOK cfg cd P new.h (pend cfg cd new.body))
    (hload : isLoadH (some new.h) = true → a.h = .top)
    (hnewL : isLoadH (some new.h) = true → LoadP cfg cd P)
    (hd : deliverOfH cfg cd (some new.h) ++ pend cfg cd rest = pend cfg cd (it :: rest)) :
    ThreadVal cfg cd P (th.push rest new) := by
  obtain ⟨⟨hb, hl, _, hh⟩, hrest⟩ := tv_head hacts herr h
  rw [hbody] at hb hl hh
  refine ⟨?_, ?_, ?_⟩
  · simpa [Thread.push, hacts] using h.res
  · intro a' as' _ he
    simp [Thread.push, hacts, herr] at he
  · simp only [Thread.push, hacts, herr, Option.isSome_none]
    refine ⟨⟨hnb, fun hx => absurd hx hnl, by simp [isLoadH], hnewL, fun _ => ?_⟩, ?_, hrest⟩
    · simpa [hws, deliverOfH] using hnh
    · refine ⟨bodyP_tail cfg cd P _ _ hb, fun hx => hl (by simp [hx]), hload, tv_headL (a := a) hacts h,
        fun _ => ?_⟩
      simp only [deliverOfH] at hh
      rw [List.append_assoc, hd]
      simpa using hh

end Values


section Values2
variable {cfg : Config} {cd : Codec} {P : Val → Prop}

theorem tv_congr {th th' : Thread} (h1 : th'.acts = th.acts) (h2 : th'.err = th.err)
    (h3 : th'.result = th.result) (h : ThreadVal cfg cd P th) : ThreadVal cfg cd P th' :=
  ⟨by rw [h3]; exact h.res, by rw [h1, h2]; exact h.errBody, by rw [h1, h2]; exact h.accs⟩

theorem bodyP_opBody (inl : Bool) (f : Frame) :
    BodyP cfg cd P (opBody inl f) ∧ Item.loadFrame ∉ opBody inl f := by
  have hmem : ∀ it ∈ opBody inl f, (∃ r, it = .bg r) ∨ (∃ r, it = .rwi r) ∨ (∃ r, it = .blend r .collect) := by
    intro it hit
    simp only [opBody, List.mem_append, List.mem_flatMap] at hit
    rcases hit with hit | ⟨r, _, hit⟩
    · split at hit
      · simp only [List.mem_map] at hit
        obtain ⟨r, _, rfl⟩ := hit
        exact Or.inl ⟨r, rfl⟩
      · simp at hit
    · simp only [refCall, List.mem_cons, List.not_mem_nil, or_false] at hit
      rcases hit with rfl | rfl
      · exact Or.inr (Or.inl ⟨r, rfl⟩)
      · exact Or.inr (Or.inr ⟨r, rfl⟩)
  refine ⟨⟨?_, ?_⟩, ?_⟩
  · intro r hr
    rcases hmem _ hr with ⟨_, h⟩ | ⟨_, h⟩ | ⟨_, h⟩ <;> cases h
  · intro hr
    rcases hmem _ hr with ⟨_, h⟩ | ⟨_, h⟩ | ⟨_, h⟩ <;> cases h
  · intro hr
    rcases hmem _ hr with ⟨_, h⟩ | ⟨_, h⟩ | ⟨_, h⟩ <;> cases h

theorem bodyP_compBody (f : Frame) :
    BodyP cfg cd P (compBody f) ∧ Item.loadFrame ∉ compBody f := by
  have hmem : ∀ it ∈ compBody f, it ≠ .loadFrame ∧ ∀ r, it ≠ .blend r .ret := by
    intro it hit
    simp only [compBody, List.mem_append, List.mem_flatMap] at hit
    rcases hit with (⟨r, _, hit⟩ | ⟨c, _, hit⟩) | hit
    · simp only [refCall, List.mem_cons, List.not_mem_nil, or_false] at hit
      rcases hit with rfl | rfl <;> simp
    · obtain ⟨c1, c2⟩ := c
      cases c1 with
      | none =>
        simp only [chanItems, List.mem_cons, List.not_mem_nil, or_false] at hit
        subst hit; simp
      | some r =>
        simp only [chanItems, refCall, List.mem_append, List.mem_cons, List.not_mem_nil,
          or_false] at hit
        rcases hit with (((rfl | rfl) | rfl) | hit) | rfl
        · simp
        · simp
        · simp
        · split at hit
          · simp only [List.mem_cons, List.not_mem_nil, or_false] at hit
            subst hit; simp
          · simp at hit
        · simp
    · cases hr : f.reset with
      | none => simp [hr, resetItems] at hit
      | some r =>
        simp only [hr, resetItems, List.mem_cons, List.not_mem_nil, or_false] at hit
        subst hit; simp
  exact ⟨⟨fun r hr => absurd rfl ((hmem _ hr).2 r), fun hr => absurd rfl (hmem _ hr).1⟩,
    fun hr => absurd rfl (hmem _ hr).1⟩

end Values2


section Values3
variable {cfg : Config} {cd : Codec} {P : Val → Prop}

theorem noLoad_opBody (inl : Bool) (f : Frame) : Item.loadFrame ∉ opBody inl f :=
  (bodyP_opBody (cfg := default) (cd := ⟨fun _ _ => 0, fun _ _ => 0, fun _ _ _ => 0⟩)
    (P := fun _ => True) inl f).2

theorem noLoad_compBody (f : Frame) : Item.loadFrame ∉ compBody f :=
  (bodyP_compBody (cfg := default) (cd := ⟨fun _ _ => 0, fun _ _ => 0, fun _ _ _ => 0⟩)
    (P := fun _ => True) f).2

theorem hsVal_set_plain (hs : List HState) (i : Nat) (s : HState) (h : HsVal cfg cd hs)
    (hd : ∀ v, s ≠ .done v) (hb : ∀ v, s ≠ .blended v) : HsVal cfg cd (hs.set i s) :=
  hsVal_set cfg cd hs i s h (fun v hv => absurd hv (hd v)) (fun v hv => absurd hv (hb v))

theorem val_item (var : Variant) (ch : Choice) (hwf : cfg.wf = true) (hs : List HState) (th : Thread)
    (a : Act) (as : List Act) (hacts : th.acts = a :: as) (it : Item) (rest : List Item)
    (hbody : a.body = it :: rest)
    (hidx : ∀ j, it.idx? = some j → j < cfg.frames.length)
    (hH : HsVal cfg cd hs) (hT : ThreadVal cfg cd P th) :
    HsVal cfg cd (stepItem cfg cd var ch hs th it rest).hs ∧
      ThreadVal cfg cd P (stepItem cfg cd var ch hs th it rest).th := by
  have hne : th.acts ≠ [] := by simp [hacts]
  have herr : th.err = none := by
    cases he : th.err with
    | none => rfl
    | some e =>
      have := hT.errBody a as hacts (by simp [he])
      rw [hbody] at this
      cases this
  obtain ⟨⟨hb, hl, _, hh⟩, hrest⟩ := tv_head hacts herr hT
  rw [hbody] at hb hl hh
  have hb' := bodyP_tail cfg cd P _ _ hb
  have hl' : Item.loadFrame ∈ rest → a.h = .top := fun hx => hl (by simp [hx])
  -- dropping an item that is not a collecting blend
  have drop : (∀ r, it ≠ .blend r .collect) → ThreadVal cfg cd P (th.setBody rest) := by
    intro hnc
    refine tv_setBody rest hacts herr hT hb' hl' ?_
    rw [pend_cons_other cfg cd _ _ hnc] at hh
    simpa [deliverOfH] using hh
  have push_op : ∀ i silent c, it = .rwi i ∨ it = .bg i →
      ThreadVal cfg cd P
        (th.push rest { h := .op i silent c, body := opBody cfg.inline (frameOf cfg i) }) := by
    intro i silent c hit
    refine tv_push it rest _ hacts herr hbody hT rfl (bodyP_opBody _ _).1 (noLoad_opBody _ _)
      ?_ (by simp [isLoadH]) (by simp [isLoadH]) ?_
    · simp only [HandOK]; exact pend_opBody cfg cd _ _
    · rw [pend_cons_other cfg cd it rest (by rcases hit with rfl | rfl <;> simp)]
      simp [deliverOfH]
  cases it with
  | rwi i =>
    simp only [stepItem]
    split
    · exact ⟨hsVal_set_plain _ _ _ hH (by simp) (by simp), push_op i false none (Or.inl rfl)⟩
    · exact ⟨hsVal_set_plain _ _ _ hH (by simp) (by simp), push_op i false _ (Or.inl rfl)⟩
    · exact ⟨hsVal_set_plain _ _ _ hH (by simp) (by simp), tv_fail _ hne hT⟩
    · exact ⟨hH, tv_fail _ hne hT⟩
    · refine ⟨hH, tv_setBody _ hacts herr hT ⟨?_, ?_⟩ ?_ ?_⟩
      · intro r hr
        exact hb.ret r (by simp at hr; simp [hr])
      · intro hr
        exact hb.load (by simp at hr; simp [hr])
      · intro hr
        exact hl (by simp at hr; simp [hr])
      · rw [pend_cons_other cfg cd _ _ (by simp)] at hh ⊢
        simpa [deliverOfH] using hh
  | waitRwi i =>
    simp only [stepItem]
    split
    · exact ⟨hH, tv_congr (th := th) rfl rfl rfl hT⟩
    · exact ⟨hH, drop (by simp)⟩
    · exact ⟨hH, drop (by simp)⟩
    · exact ⟨hsVal_set_plain _ _ _ hH (by simp) (by simp), tv_fail _ hne hT⟩
  | blend i k =>
    have hi := hidx i rfl
    simp only [stepItem]
    split
    · exact ⟨hH, tv_congr (th := th) rfl rfl rfl hT⟩
    · rename_i v hv
      have := (hH i).2 v hv
      subst this
      exact ⟨hH, tv_deliver i k rest hacts herr hbody hT⟩
    · rename_i v hv
      have hvd := (hH i).1 v hv
      subst hvd
      split
      · exact ⟨hsVal_set_plain _ _ _ hH (by simp) (by simp), tv_fail _ hne hT⟩
      · split
        · rename_i hskip
          have hcb : cd.pre i (cleanDone cfg cd i) = cleanBlended cfg cd i := by
            rw [cleanBlended_eq cfg cd hwf i hi, hskip]; rfl
          rw [hcb]
          refine ⟨hsVal_set cfg cd _ _ _ hH (by simp) (by simp), ?_⟩
          exact tv_deliver i k rest hacts herr hbody hT
        · rename_i hskip
          refine ⟨hsVal_set_plain _ _ _ hH (by simp) (by simp), ?_⟩
          refine tv_push _ rest _ hacts herr hbody hT rfl (bodyP_compBody _).1
            (noLoad_compBody _) ?_ (by simp [isLoadH]) (by simp [isLoadH]) ?_
          · refine ⟨rfl, by simpa using hskip, ?_, pend_compBody cfg cd _⟩
            intro hk
            subst hk
            exact hb.ret i (by simp)
          · cases k with
            | collect => simp [deliverOfH, pend_cons_collect]
            | discard => rw [pend_cons_other cfg cd _ _ (by simp)]; simp [deliverOfH]
            | ret => rw [pend_cons_other cfg cd _ _ (by simp)]; simp [deliverOfH]
    · exact ⟨hsVal_set_plain _ _ _ hH (by simp) (by simp), tv_fail _ hne hT⟩
  | bg i =>
    simp only [stepItem]
    split
    · exact ⟨hsVal_set_plain _ _ _ hH (by simp) (by simp), push_op i true none (Or.inr rfl)⟩
    · exact ⟨hsVal_set_plain _ _ _ hH (by simp) (by simp), push_op i true _ (Or.inr rfl)⟩
    · exact ⟨hH, drop (by simp)⟩
  | mayFail =>
    simp only [stepItem]
    split
    · exact ⟨hH, tv_fail _ hne hT⟩
    · exact ⟨hH, drop (by simp)⟩
  | tryTake i =>
    simp only [stepItem]
    split
    · refine ⟨?_, drop (by simp)⟩
      split
      · exact hsVal_set_plain _ _ _ hH (by simp) (by simp)
      · exact hH
    · exact ⟨hH, drop (by simp)⟩
  | reset i =>
    simp only [stepItem]
    cases var
    · exact ⟨hsVal_set_plain _ _ _ hH (by simp) (by simp), drop (by simp)⟩
    · simp only
      split
      · exact ⟨hH, drop (by simp)⟩
      · exact ⟨hsVal_set_plain _ _ _ hH (by simp) (by simp), drop (by simp)⟩
  | loadFrame =>
    have htop := hl (by simp)
    have hLP := hb.load (by simp)
    have fb : ∀ b, fallbackBody cfg = some b → ThreadVal cfg cd P (th.setBody b) := by
      intro b hfb
      unfold fallbackBody at hfb
      cases hk : cfg.inProgressKf with
      | none => simp [hk] at hfb
      | some idx =>
        simp only [hk, Option.some.injEq] at hfb
        subst hfb
        refine tv_setBody _ hacts herr hT ⟨?_, ?_⟩ (by simp) ?_
        · intro r hr
          simp only [List.mem_cons, Item.blend.injEq, and_true, reduceCtorEq, List.not_mem_nil,
            or_false, false_or] at hr
          rw [hr]
          exact hLP.1 idx hk
        · intro hr; simp at hr
        · rw [htop]; trivial
    simp only [stepItem]
    split
    · split
      · exact ⟨hH, fb _ ‹_›⟩
      · exact ⟨hH, tv_fail _ hne hT⟩
    · rename_i f hf
      split
      · split
        · exact ⟨hH, fb _ ‹_›⟩
        · exact ⟨hH, tv_fail _ hne hT⟩
      · exact ⟨hH, tv_fail _ hne hT⟩
      · refine ⟨hH, tv_push _ rest _ hacts herr hbody hT rfl (bodyP_opBody _ _).1
          (noLoad_opBody _ _) ?_ (fun _ => htop) (fun _ => hLP) ?_⟩
        · exact ⟨hLP, f, hf, pend_opBody cfg cd _ _⟩
        · rw [pend_cons_other cfg cd _ _ (by simp)]; simp [deliverOfH]

end Values3


section Values4
variable {cfg : Config} {cd : Codec} {P : Val → Prop}

theorem tv_rest {th : Thread} {a : Act} {as : List Act} (hacts : th.acts = a :: as)
    (h : ThreadVal cfg cd P th) : AccsOK cfg cd P false (some a.h) as := by
  have := h.accs
  rw [hacts] at this
  exact this.2

theorem accsOK_child_congr (c c' : Option Handler) (as : List Act)
    (hd : deliverOfH cfg cd c' = deliverOfH cfg cd c) (hl : isLoadH c' = true → isLoadH c = true)
    (h : AccsOK cfg cd P false c as) : AccsOK cfg cd P false c' as := by
  cases as with
  | nil => trivial
  | cons p ps =>
    obtain ⟨h1, h2, h3, h4, h5⟩ := h.1
    exact ⟨⟨h1, h2, fun hx => h3 (hl hx), h4, by rw [hd]; exact h5⟩, h.2⟩

/-- leaving an activation that hands nothing to its parent -/
theorem tv_pop_plain {th : Thread} {a : Act} {as : List Act} (hacts : th.acts = a :: as)
    (h : ThreadVal cfg cd P th) (hd : deliverOfH cfg cd (some a.h) = []) :
    ThreadVal cfg cd P th.pop := by
  have hrest := accsOK_child_congr (some a.h) none as (by rw [hd]; rfl) (by simp [isLoadH])
    (tv_rest hacts h)
  refine ⟨h.res, ?_, ?_⟩
  · intro a' as' _ he
    simp [Thread.pop] at he
  · simpa [Thread.pop, hacts] using hrest

theorem tv_pop_fail {th : Thread} {a : Act} {as : List Act} (e : ErrK) (hacts : th.acts = a :: as)
    (h : ThreadVal cfg cd P th) : ThreadVal cfg cd P (th.pop.fail e) := by
  have hrest := tv_rest hacts h
  cases has : as with
  | nil =>
    refine ⟨?_, ?_, ?_⟩
    · simpa [Thread.pop, Thread.fail, hacts, has] using h.res
    · intro a' as' ha'
      simp [Thread.pop, Thread.fail, hacts, has] at ha'
    · simp [Thread.pop, Thread.fail, hacts, has, AccsOK]
  | cons p ps =>
    rw [has] at hrest
    refine ⟨?_, ?_, ?_⟩
    · simpa [Thread.pop, Thread.fail, hacts, has] using h.res
    · intro a' as' ha' _
      simp only [Thread.pop, Thread.fail, hacts, has, List.tail_cons, List.cons.injEq] at ha'
      rw [← ha'.1]
    · simp only [Thread.pop, Thread.fail, hacts, has, List.tail_cons, Option.isSome_some]
      exact ⟨⟨bodyP_nil cfg cd P, by simp, by simp [isLoadH], hrest.1.2.2.2.1, by simp⟩, hrest.2⟩

/-- a successful composite hands its image to the parent -/
theorem tv_pop_deliver {th : Thread} {a : Act} {as : List Act} (i : Nat) (v : Val) (k : Cont)
    (hacts : th.acts = a :: as) (hh : a.h = .comp i v k) (h : ThreadVal cfg cd P th)
    (hk : k = .ret → P (cleanBlended cfg cd i)) :
    ThreadVal cfg cd P (th.pop.deliver k (cleanBlended cfg cd i)) := by
  have hrest := tv_rest hacts h
  rw [hh] at hrest
  cases k with
  | discard =>
    exact tv_pop_plain hacts h (by rw [hh]; rfl)
  | ret =>
    have hp := tv_pop_plain hacts h (by rw [hh]; rfl)
    exact ⟨by intro w hw; simp only [Thread.deliver, Option.some.injEq, Res.ok.injEq] at hw
              rw [← hw]; exact hk rfl, hp.errBody, hp.accs⟩
  | collect =>
    cases has : as with
    | nil =>
      refine ⟨?_, ?_, ?_⟩
      · simpa [Thread.pop, Thread.deliver, hacts, has] using h.res
      · intro a' as' ha'
        simp [Thread.pop, Thread.deliver, hacts, has] at ha'
      · simp [Thread.pop, Thread.deliver, hacts, has, AccsOK]
    | cons p ps =>
      rw [has] at hrest
      obtain ⟨h1, h2, h3, hL, h4⟩ := hrest.1
      have h4 := h4 rfl
      refine ⟨?_, ?_, ?_⟩
      · simpa [Thread.pop, Thread.deliver, hacts, has] using h.res
      · intro a' as' _ he
        simp [Thread.pop, Thread.deliver, hacts, has] at he
      · simp only [Thread.pop, Thread.deliver, hacts, has, List.tail_cons, Option.isSome_none]
        refine ⟨⟨h1, h2, by simp [isLoadH], hL, fun _ => ?_⟩, hrest.2⟩
        simpa [deliverOfH] using h4

theorem tv_loadFail {th : Thread} {a : Act} {as : List Act} (e : ErrK) (hacts : th.acts = a :: as)
    (hl : isLoadH (some a.h) = true) (h : ThreadVal cfg cd P th) :
    ThreadVal cfg cd P (loadFail cfg th e) := by
  have hLP : LoadP cfg cd P := tv_headL hacts h hl
  have hd : deliverOfH cfg cd (some a.h) = [] := by
    cases hh : a.h <;> simp [hh, isLoadH] at hl <;> rfl
  have hpop := tv_pop_plain hacts h hd
  have hrest := tv_rest hacts h
  unfold loadFail
  split
  · cases hfb : fallbackBody cfg with
    | none => exact tv_pop_fail _ hacts h
    | some b =>
      simp only
      cases has : as with
      | nil =>
        have : th.pop.acts = [] := by simp [Thread.pop, hacts, has]
        exact tv_congr (th := th.pop) (by simp [Thread.setBody, this]) (by simp [Thread.setBody, this])
          (by simp [Thread.setBody, this]) hpop
      | cons p ps =>
        rw [has] at hrest
        have hp : th.pop.acts = p :: ps := by simp [Thread.pop, hacts, has]
        have htop : p.h = .top := hrest.1.2.2.1 hl
        unfold fallbackBody at hfb
        cases hk : cfg.inProgressKf with
        | none => simp [hk] at hfb
        | some idx =>
          simp only [hk, Option.some.injEq] at hfb
          subst hfb
          refine tv_setBody _ hp rfl hpop ⟨?_, ?_⟩ (by simp) ?_
          · intro r hr
            simp only [List.mem_cons, Item.blend.injEq, and_true, reduceCtorEq, List.not_mem_nil,
              or_false, false_or] at hr
            rw [hr]
            exact hLP.1 idx hk
          · intro hr; simp at hr
          · rw [htop]; trivial
  · exact tv_pop_fail _ hacts h

end Values4


section Values5
variable {cfg : Config} {cd : Codec} {P : Val → Prop}

theorem cleanLoading_eq (f : Frame) (hf : cfg.loading = some f) :
    cleanLoading cfg cd = some
      (if f.skip then cd.pre cfg.frames.length
          (cd.dec cfg.frames.length (f.opRefs.map (cleanBlended cfg cd)))
       else cd.comp cfg.frames.length
          (cd.pre cfg.frames.length (cd.dec cfg.frames.length (f.opRefs.map (cleanBlended cfg cd))))
          ((chanRefs f).map (cleanBlended cfg cd))) := by
  simp [cleanLoading, hf, chanRefs]

theorem val_done (var : Variant) (ch : Choice) (hwf : cfg.wf = true) (hs : List HState)
    (th : Thread) (a : Act) (as : List Act) (hacts : th.acts = a :: as) (hbody : a.body = [])
    (hown : ∀ j, a.h.owns = some j → j < cfg.frames.length)
    (hH : HsVal cfg cd hs) (hT : ThreadVal cfg cd P th) :
    HsVal cfg cd (stepDone cfg cd var ch hs th a).hs ∧
      ThreadVal cfg cd P (stepDone cfg cd var ch hs th a).th := by
  -- when no error is travelling, the accumulator of `a` is complete
  have hfull : th.err = none → HandOK cfg cd P a.h a.ws := by
    intro herr
    have := (tv_head hacts herr hT).1.2.2.2
    simpa [hbody, pend, deliverOfH] using this
  cases hh : a.h with
  | top =>
    simp only [stepDone, hh]
    have hp := tv_pop_plain hacts hT (by rw [hh]; rfl)
    refine ⟨hH, ?_, hp.errBody, hp.accs⟩
    intro v hv
    cases he : th.err with
    | none => simp only [he] at hv; exact hT.res v hv
    | some e => simp [he] at hv
  | op i silent c =>
    have hi := hown i (by rw [hh]; rfl)
    have hd : deliverOfH cfg cd (some a.h) = [] := by rw [hh]; rfl
    simp only [stepDone, hh]
    split
    · split
      · exact ⟨hsVal_set_plain _ _ _ hH (by simp) (by simp), tv_pop_plain hacts hT hd⟩
      · exact ⟨hsVal_set_plain _ _ _ hH (by simp) (by simp), tv_pop_fail _ hacts hT⟩
    · rename_i hfail
      have herr : th.err = none := by
        cases he : th.err with
        | none => rfl
        | some e => simp [he] at hfail
      split
      · refine ⟨hsVal_set cfg cd _ _ _ hH ?_ (by simp), tv_pop_plain hacts hT hd⟩
        intro v hv
        simp only [HState.done.injEq] at hv
        have := hfull herr
        rw [hh] at this
        simp only [HandOK] at this
        rw [← hv, this, cleanDone_eq cfg cd hwf i hi]
      · split
        · exact ⟨hsVal_set_plain _ _ _ hH (by simp) (by simp), tv_pop_plain hacts hT hd⟩
        · exact ⟨hsVal_set_plain _ _ _ hH (by simp) (by simp), tv_pop_fail _ hacts hT⟩
  | comp i v k =>
    have hi := hown i (by rw [hh]; rfl)
    simp only [stepDone, hh]
    split
    · cases var
      · exact ⟨hH, tv_pop_fail _ hacts hT⟩
      · exact ⟨hsVal_set_plain _ _ _ hH (by simp) (by simp), tv_pop_fail _ hacts hT⟩
    · rename_i herr
      have := hfull herr
      rw [hh] at this
      obtain ⟨hv, hskip, hk, hws⟩ := this
      have hval : cd.comp i v a.ws = cleanBlended cfg cd i := by
        rw [cleanBlended_eq cfg cd hwf i hi, hskip, hv, hws]; rfl
      rw [hval]
      exact ⟨hsVal_set cfg cd _ _ _ hH (by simp) (by simp), tv_pop_deliver i v k hacts hh hT hk⟩
  | loadOp =>
    have hl : isLoadH (some a.h) = true := by rw [hh]; rfl
    have hLP : LoadP cfg cd P := tv_headL hacts hT hl
    simp only [stepDone, hh]
    split
    · exact ⟨hH, tv_loadFail _ hacts hl hT⟩
    · rename_i hfail
      have herr : th.err = none := by
        cases he : th.err with
        | none => rfl
        | some e => simp [he] at hfail
      have hfull' := hfull herr
      rw [hh] at hfull'
      obtain ⟨_, f', hf', hws⟩ := hfull'
      split
      · exact ⟨hH, tv_loadFail .incomplete hacts hl hT⟩
      · rename_i f hf
        have : f' = f := by rw [hf] at hf'; cases hf'; rfl
        subst this
        split
        · exact ⟨hH, tv_loadFail .incomplete hacts hl hT⟩
        · split
          · rename_i hskip
            refine ⟨hH, ?_⟩
            have hp := tv_pop_plain hacts hT (by rw [hh]; rfl)
            refine ⟨?_, hp.errBody, hp.accs⟩
            intro w hw
            simp only [Thread.deliver, Option.some.injEq, Res.ok.injEq] at hw
            apply hLP.2
            rw [cleanLoading_eq f' hf, hskip, ← hw, hws]
            rfl
          · rename_i hskip
            refine ⟨hH, hT.res, ?_, ?_⟩
            · intro a' as' _ he
              exact absurd herr he
            · have hrest := tv_rest hacts hT
              simp only [hacts, List.tail_cons, herr, Option.isSome_none]
              refine ⟨⟨(bodyP_compBody f').1, fun hx => absurd hx (noLoad_compBody f'),
                by simp [isLoadH], fun _ => hLP, fun _ => ?_⟩, ?_⟩
              · refine ⟨hLP, f', hf, by simpa using hskip, by rw [hws], ?_⟩
                simp [deliverOfH, pend_compBody]
              · exact accsOK_child_congr (some a.h) _ as (by rw [hh]; rfl) (by rw [hh]; simp [isLoadH]) hrest
  | loadComp v =>
    have hl : isLoadH (some a.h) = true := by rw [hh]; rfl
    have hLP : LoadP cfg cd P := tv_headL hacts hT hl
    simp only [stepDone, hh]
    split
    · exact ⟨hH, tv_loadFail _ hacts hl hT⟩
    · rename_i herr
      have hfull' := hfull herr
      rw [hh] at hfull'
      obtain ⟨_, f, hf, hskip, hv, hws⟩ := hfull'
      refine ⟨hH, ?_⟩
      have hp := tv_pop_plain hacts hT (by rw [hh]; rfl)
      refine ⟨?_, hp.errBody, hp.accs⟩
      intro w hw
      simp only [Thread.deliver, Option.some.injEq, Res.ok.injEq] at hw
      apply hLP.2
      rw [cleanLoading_eq f hf, hskip, ← hw, hws, hv]
      rfl

end Values5


section Values6
variable {cfg : Config} {cd : Codec} {P : Val → Prop}

theorem val_step (var : Variant) (ch : Choice) (hwf : cfg.wf = true) (hs : List HState)
    (th : Thread) (hok : ActsOK cfg.frames.length th.acts)
    (hH : HsVal cfg cd hs) (hT : ThreadVal cfg cd P th) :
    HsVal cfg cd (stepThread cfg cd var ch hs th).hs ∧
      ThreadVal cfg cd P (stepThread cfg cd var ch hs th).th := by
  unfold stepThread
  split
  · exact ⟨hH, hT⟩
  · rename_i a as hacts
    rw [hacts] at hok
    have hle : a.h.bound cfg.frames.length ≤ cfg.frames.length := by
      have := ctxBound_le _ _ hok
      simpa [ctxBound] using this
    split
    · rename_i hbody
      refine val_done var ch hwf hs th a as hacts hbody ?_ hH hT
      intro j hj
      have h1 := hok.2.2.1 j hj
      have h2 := ctxBound_le _ _ hok.2.2.2
      omega
    · rename_i it rest hbody
      refine val_item var ch hwf hs th a as hacts it rest hbody ?_ hH hT
      intro j hj
      have := hok.1.1 it (by simp [hbody]) j hj
      omega

/-- what a successful call may return -/
def OpClean (cfg : Config) (cd : Codec) : Op → Val → Prop
  | .renderKeyframe k, v => ∃ idx, cfg.keyframes[k]? = some idx ∧ v = cleanBlended cfg cd idx
  | .renderLoading, v =>
    cleanLoading cfg cd = some v ∨ ∃ idx, cfg.inProgressKf = some idx ∧ v = cleanBlended cfg cd idx
  | .requestRegion, _ => False

theorem tv_start (hs : List HState) (op : Op) :
    ThreadVal cfg cd (OpClean cfg cd op) (startThread cfg op) := by
  cases op with
  | renderKeyframe k =>
    simp only [startThread]
    split
    · rename_i idx hidx
      refine ⟨by simp, by simp, ?_⟩
      refine ⟨⟨⟨?_, by simp⟩, by simp, by simp [isLoadH], by simp [isLoadH], fun _ => trivial⟩, trivial⟩
      intro r hr
      simp only [List.mem_cons, Item.blend.injEq, and_true, reduceCtorEq, List.not_mem_nil,
        or_false, false_or] at hr
      exact ⟨idx, hidx, by rw [hr]⟩
    · refine ⟨by simp, ?_, ?_⟩
      · intro a as ha _
        simp only [List.cons.injEq] at ha
        rw [← ha.1]
      · exact ⟨⟨bodyP_nil _ _ _, by simp, by simp [isLoadH], by simp [isLoadH], by simp⟩, trivial⟩
  | renderLoading =>
    have hLP : LoadP cfg cd (OpClean cfg cd .renderLoading) :=
      ⟨fun idx h => Or.inr ⟨idx, h, rfl⟩, fun v h => Or.inl h⟩
    refine ⟨by simp [startThread], by simp [startThread], ?_⟩
    refine ⟨⟨⟨by simp, fun _ => hLP⟩, fun _ => rfl, by simp [isLoadH], by simp [isLoadH],
      fun _ => trivial⟩, trivial⟩
  | requestRegion =>
    exact ⟨by simp [startThread], by simp [startThread], trivial⟩

theorem val_run (var : Variant) (orc : Nat → Choice) (hwf : cfg.wf = true) :
    ∀ (fuel k : Nat) (hs : List HState) (th : Thread), ActsOK cfg.frames.length th.acts →
      HsVal cfg cd hs → ThreadVal cfg cd P th →
      ∀ hs' r, runThread cfg cd var orc fuel k hs th = .finished hs' r →
        HsVal cfg cd hs' ∧ ∀ v, r = some (.ok v) → P v
  | 0, _, _, _, _, _, _, _, _, h => by simp [runThread] at h
  | fuel + 1, k, hs, th, hok, hH, hT, hs', r, h => by
    unfold runThread at h
    split at h
    · cases h
      exact ⟨hH, hT.res⟩
    · split at h
      · cases h
      · have hv := val_step var (orc k) hwf hs th hok hH hT
        exact val_run var orc hwf fuel (k + 1) _ _
          (actsOK_step cfg cd var (orc k) hwf hs th hok) hv.1 hv.2 hs' r h

theorem hsVal_resetCache (hs : List HState) (hH : HsVal cfg cd hs) :
    HsVal cfg cd (resetCache cfg hs) := by
  intro i
  have key : getH (resetCache cfg hs) i = getH hs i ∨ getH (resetCache cfg hs) i = .none := by
    simp only [resetCache, getH, List.getD_eq_getElem?_getD, List.getElem?_map]
    by_cases hi : i < hs.length
    · simp only [List.getElem?_range hi, Option.map_some, Option.getD_some]
      split
      · exact Or.inl rfl
      · exact Or.inr rfl
    · have : (List.range hs.length)[i]? = none := List.getElem?_eq_none (by simpa using hi)
      simp [this]
  rcases key with h | h
  · rw [h]; exact hH i
  · rw [h]; simp

theorem val_runOp (orc : Nat → Choice) (hwf : cfg.wf = true) (fuel : Nat) (hs : List HState)
    (hq : Quiescent cfg.frames.length hs) (hH : HsVal cfg cd hs) (op : Op) (hs' : List HState)
    (r : Option Res) (h : runOp cfg cd .fixed orc fuel hs op = .finished hs' r) :
    HsVal cfg cd hs' ∧ ∀ v, r = some (.ok v) → OpClean cfg cd op v := by
  cases op with
  | requestRegion =>
    simp only [runOp] at h
    cases h
    exact ⟨hsVal_resetCache hs hH, by simp⟩
  | renderKeyframe k =>
    exact val_run .fixed orc hwf fuel 0 hs _ (seqInv_start cfg hwf hs hq _).ok hH
      (tv_start hs _) hs' r h
  | renderLoading =>
    exact val_run .fixed orc hwf fuel 0 hs _ (seqInv_start cfg hwf hs hq _).ok hH
      (tv_start hs _) hs' r h

end Values6


theorem val_runHist (cfg : Config) (cd : Codec) (hwf : cfg.wf = true) (fuel : Nat) :
    ∀ (hist : List (Op × (Nat → Choice))) (hs : List HState), Quiescent cfg.frames.length hs →
      HsVal cfg cd hs → ∀ hs' rs, runHist cfg cd .fixed fuel hs hist = some (hs', rs) →
        HsVal cfg cd hs' ∧
        ∀ (j : Nat) (op : Op) (orc : Nat → Choice) (r : Option Res),
          hist[j]? = some (op, orc) → rs[j]? = some r →
          ∀ v, r = some (Res.ok v) → OpClean cfg cd op v
  | [], hs, _, hH, hs', rs, h => by
    simp only [runHist, Option.some.injEq, Prod.mk.injEq] at h
    rw [← h.1]
    refine ⟨hH, ?_⟩
    intro j op orc r hj
    simp at hj
  | (op, orc) :: rest, hs, hq, hH, hs', rs, h => by
    simp only [runHist] at h
    split at h
    · rename_i hs1 r1 hrun
      have hq1 := (quiescent_runOp cfg cd orc hwf fuel hs hq op).1 hs1 r1 hrun
      have hv1 := val_runOp orc hwf fuel hs hq hH op hs1 r1 hrun
      split at h
      · rename_i hs2 rs2 hrest
        simp only [Option.some.injEq, Prod.mk.injEq] at h
        have ih := val_runHist cfg cd hwf fuel rest hs1 hq1 hv1.1 hs2 rs2 hrest
        rw [← h.1, ← h.2]
        refine ⟨ih.1, ?_⟩
        intro j op' orc' r hj hr v hv
        cases j with
        | zero =>
          simp only [List.getElem?_cons_zero, Option.some.injEq, Prod.mk.injEq] at hj hr
          rw [← hj.1]
          exact hv1.2 v (by rw [hr]; exact hv)
        | succ j =>
          simp only [List.getElem?_cons_succ] at hj hr
          exact ih.2 j op' orc' r hj hr v hv
      · cases h
    · cases h

theorem runHist_completes (cfg : Config) (cd : Codec) (hwf : cfg.wf = true) (fuel : Nat) :
    ∀ (hist : List (Op × (Nat → Choice))) (hs : List HState), Quiescent cfg.frames.length hs →
      (∀ p ∈ hist, opFuel cfg p.1 ≤ fuel) →
      ∃ hs' rs, runHist cfg cd .fixed fuel hs hist = some (hs', rs)
  | [], hs, _, _ => ⟨hs, [], rfl⟩
  | (op, orc) :: rest, hs, hq, hf => by
    obtain ⟨hs1, r1, hrun⟩ := runOp_finishes cfg cd orc hwf hs hq op fuel (hf (op, orc) (by simp))
    have hq1 := (quiescent_runOp cfg cd orc hwf fuel hs hq op).1 hs1 r1 hrun
    obtain ⟨hs2, rs2, hrest⟩ := runHist_completes cfg cd hwf fuel rest hs1 hq1
      (fun p hp => hf p (by simp [hp]))
    exact ⟨hs2, r1 :: rs2, by simp [runHist, hrun, hrest]⟩

end Jxl.RenderState
