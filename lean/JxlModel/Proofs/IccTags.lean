import JxlModel.Proofs.IccMain
namespace Jxl.Icc

theorem slice_succ (l : List Nat) (off n : Nat) (h : off < l.length) :
    slice l off (n + 1) = l.getD off 0 :: slice l (off + 1) n := by
  simp only [slice]
  rw [List.drop_eq_getElem_cons h, List.take_succ_cons]
  simp [List.getD_eq_getElem?_getD, h]

theorem slice_four (l : List Nat) (off : Nat) (h : off + 4 ≤ l.length) :
    slice l off 4 = [l.getD off 0, l.getD (off + 1) 0, l.getD (off + 2) 0, l.getD (off + 3) 0] := by
  rw [slice_succ _ _ _ (by omega), slice_succ _ _ _ (by omega), slice_succ _ _ _ (by omega),
    slice_succ _ _ _ (by omega)]
  simp [slice]

theorem readBe32_lt (l : List Nat) (hb : IsBytes l) (off : Nat) : readBe32 l off < 4294967296 := by
  have h0 := hb.getD_lt off
  have h1 := hb.getD_lt (off + 1)
  have h2 := hb.getD_lt (off + 2)
  have h3 := hb.getD_lt (off + 3)
  unfold readBe32; omega

theorem be32_readBe32 (l : List Nat) (hb : IsBytes l) (off : Nat) (h : off + 4 ≤ l.length) :
    be32 (readBe32 l off) = slice l off 4 := by
  have h0 := hb.getD_lt off
  have h1 := hb.getD_lt (off + 1)
  have h2 := hb.getD_lt (off + 2)
  have h3 := hb.getD_lt (off + 3)
  rw [slice_four l off h]
  unfold be32 readBe32
  congr 1
  · omega
  · congr 1
    · omega
    · congr 1
      · omega
      · congr 1; omega

theorem slice_add (l : List Nat) (off a b : Nat) :
    slice l off (a + b) = slice l off a ++ slice l (off + a) b := by
  simp [slice, List.take_add, List.drop_drop]

/-- the 12 bytes of a tag-table entry are tag ++ start ++ size -/
theorem slice_entry (l : List Nat) (hb : IsBytes l) (pos : Nat) (h : pos + 12 ≤ l.length) :
    slice l pos 12 = slice l pos 4 ++ be32 (readBe32 l (pos + 4)) ++ be32 (readBe32 l (pos + 8)) := by
  rw [be32_readBe32 l hb _ (by omega), be32_readBe32 l hb _ (by omega),
    show (12 : Nat) = 4 + (4 + 4) by rfl, slice_add, slice_add]
  simp [Nat.add_assoc]

theorem tagCmdByte_mod (c : TagCmd) (h : c.code ≤ 20) : tagCmdByte c % 64 = c.code := by
  unfold tagCmdByte
  cases c.explicitStart <;> cases c.explicitSize <;> simp <;> omega

theorem tagCmdByte_b6 (c : TagCmd) (h : c.code ≤ 20) :
    (tagCmdByte c / 64) % 2 = if c.explicitStart then 1 else 0 := by
  unfold tagCmdByte
  cases c.explicitStart <;> cases c.explicitSize <;> simp <;> omega

theorem tagCmdByte_b7 (c : TagCmd) (h : c.code ≤ 20) :
    (tagCmdByte c / 128) % 2 = if c.explicitSize then 1 else 0 := by
  unfold tagCmdByte
  cases c.explicitStart <;> cases c.explicitSize <;> simp <;> omega

theorem readU32_enc (n : Nat) (rest : List Nat) (h : n < 4294967296) :
    readU32 (encVarint n ++ rest) = .ok (n, rest) := by
  unfold readU32
  rw [readVarint_encVarint _ _ (Nat.lt_trans h (by decide))]
  simp only
  rw [Nat.mod_eq_of_lt h]

theorem tagOf_enc (profile : List Nat) (c : TagCmd) (pos : Nat)
    (hc1 : 1 ≤ c.code) (hc20 : c.code ≤ 20) (hlen12 : pos + 12 ≤ profile.length) (restD : List Nat) :
    tagOf c.code ((encTagCmd profile pos c).2 ++ restD)
      = .ok (tagOfCode profile pos c.code, restD) := by
  unfold tagOf tagOfCode encTagCmd
  by_cases h1 : c.code = 1
  · have hs := length_slice profile pos 4 (by omega)
    simp only [h1, if_true, List.length_append, hs]
    rw [if_neg (by omega), take_append_len _ _ _ hs, drop_append_len _ _ _ hs]
  · simp only [h1, if_false]
    rw [if_pos (by omega)]; simp

theorem readTagStart_enc (profile : List Nat) (hb : IsBytes profile) (c : TagCmd) (pos ps pz : Nat)
    (hc20 : c.code ≤ 20)
    (hstart : c.explicitStart = true ∨ readBe32 profile (pos + 4) = ps + pz) (restC : List Nat) :
    readTagStart (tagCmdByte c) ps pz (encTagArgs profile pos c ++ restC)
      = .ok (readBe32 profile (pos + 4),
          (if c.explicitSize then encVarint (readBe32 profile (pos + 8)) else []) ++ restC) := by
  have hS := readBe32_lt profile hb (pos + 4)
  unfold readTagStart encTagArgs
  rw [tagCmdByte_b6 c hc20]
  cases hes : c.explicitStart with
  | false =>
    simp only [hes, Bool.false_eq_true, if_false, if_true, List.nil_append] at hstart ⊢
    rcases hstart with h | h
    · exact absurd h (by simp)
    · rw [h]
  | true =>
    simp only [if_true, List.append_assoc]
    rw [if_neg (by omega), readU32_enc _ _ hS]

theorem readTagSize_enc (profile : List Nat) (hb : IsBytes profile) (c : TagCmd) (pos pz : Nat)
    (tag : List Nat) (hc20 : c.code ≤ 20)
    (hsize : c.explicitSize = true ∨ readBe32 profile (pos + 8) = if isSize20Tag tag = true then 20 else pz)
    (restC : List Nat) :
    readTagSize (tagCmdByte c) pz tag
      ((if c.explicitSize then encVarint (readBe32 profile (pos + 8)) else []) ++ restC)
      = .ok (readBe32 profile (pos + 8), restC) := by
  have hZ := readBe32_lt profile hb (pos + 8)
  unfold readTagSize
  rw [tagCmdByte_b7 c hc20]
  cases hez : c.explicitSize with
  | false =>
    simp only [hez, Bool.false_eq_true, if_false, List.nil_append] at hsize ⊢
    rw [if_neg (by omega)]
    rcases hsize with h | h
    · exact absurd h (by simp)
    · rw [h]; split <;> rfl
  | true =>
    simp only [if_true]
    rw [readU32_enc _ _ hZ]

theorem tagEntry_eq (profile : List Nat) (hb : IsBytes profile) (c : TagCmd) (pos : Nat)
    (hlen12 : pos + 12 ≤ profile.length)
    (htag : slice profile pos 4 = tagOfCode profile pos c.code)
    (h2 : ¬c.code = 2 ∨ slice profile (pos + 12) 24 =
      gTRC ++ be32 (readBe32 profile (pos + 4)) ++ be32 (readBe32 profile (pos + 8)) ++ bTRC ++
        be32 (readBe32 profile (pos + 4)) ++ be32 (readBe32 profile (pos + 8)))
    (h3 : ¬c.code = 3 ∨ slice profile (pos + 12) 24 =
      gXYZ ++ be32 (readBe32 profile (pos + 4) + readBe32 profile (pos + 8)) ++
        be32 (readBe32 profile (pos + 8)) ++ bXYZ ++
        be32 (readBe32 profile (pos + 4) + readBe32 profile (pos + 8) * 2) ++
        be32 (readBe32 profile (pos + 8))) :
    tagEntry c.code (tagOfCode profile pos c.code) (readBe32 profile (pos + 4))
        (readBe32 profile (pos + 8)) = slice profile pos (tagCmdLen c) := by
  unfold tagEntry tagCmdLen
  by_cases hc2 : c.code = 2
  · have := h2.resolve_left (by simp [hc2])
    rw [if_pos (Or.inl hc2), if_pos hc2, show (36 : Nat) = 12 + 24 by rfl, slice_add,
      slice_entry profile hb pos hlen12, this, ← htag]
  · by_cases hc3 : c.code = 3
    · have := h3.resolve_left (by simp [hc3])
      rw [if_pos (Or.inr hc3), if_neg hc2, if_pos hc3, show (36 : Nat) = 12 + 24 by rfl, slice_add,
        slice_entry profile hb pos hlen12, this, ← htag]
    · rw [if_neg hc2, if_neg hc3, if_neg (by omega), slice_entry profile hb pos hlen12, ← htag]
      simp

theorem tagStep_enc (profile : List Nat) (hb : IsBytes profile) (c : TagCmd) (pos ps pz : Nat)
    (hok : tagCmdOk profile c pos ps pz = true) (restC restD : List Nat) :
    tagCmdByte c % 64 ≠ 0 ∧
    tagStep profile.length (tagCmdByte c)
      { cmds := encTagArgs profile pos c ++ restC,
        data := (encTagCmd profile pos c).2 ++ restD,
        out := (profile.take pos).toArray, prevStart := ps, prevSize := pz }
      = .ok { cmds := restC, data := restD, out := (profile.take (pos + tagCmdLen c)).toArray,
              prevStart := readBe32 profile (pos + 4), prevSize := readBe32 profile (pos + 8) } := by
  simp only [tagCmdOk, Bool.and_eq_true, Bool.or_eq_true, decide_eq_true_eq, beq_iff_eq,
    bne_iff_ne, ne_eq] at hok
  obtain ⟨⟨⟨⟨⟨⟨⟨⟨hc1, hc20⟩, hlen⟩, htag⟩, hstart⟩, hsize⟩, hrange⟩, h2⟩, h3⟩ := hok
  have hmod := tagCmdByte_mod c hc20
  have hlen12 : pos + 12 ≤ profile.length := by unfold tagCmdLen at hlen; split at hlen <;> omega
  refine ⟨by omega, ?_⟩
  unfold tagStep
  simp only [hmod, tagOf_enc profile c pos hc1 hc20 hlen12 restD,
    readTagStart_enc profile hb c pos ps pz hc20 hstart restC,
    readTagSize_enc profile hb c pos pz _ hc20 hsize restC]
  rw [if_neg (by omega), tagEntry_eq profile hb c pos hlen12 htag h2 h3, List.append_toArray,
    ← take_add_slice]


theorem tagLoop_cons (size fuel b : Nat) (cmds : List Nat) (s s' : TagSt) (hs : s.cmds = b :: cmds)
    (hb : b % 64 ≠ 0) (hstep : tagStep size b { s with cmds := cmds } = .ok s') :
    tagLoop size (fuel + 1) s = tagLoop size fuel s' := by
  rw [tagLoop, hs]
  simp only [hb, if_false, hstep]

/-- the tag loop on the encoder's tag commands rebuilds the tag table entries they cover and
leaves the loop state where the next command byte follows -/
theorem tagLoop_encTagCmds (profile : List Nat) (hb : IsBytes profile) :
    ∀ (cs : List TagCmd) (pos ps pz fuel posEnd : Nat) (restC restD : List Nat),
      tagCmdsCover profile cs pos ps pz = some posEnd →
      ∃ ps' pz',
        tagLoop profile.length (fuel + cs.length)
          { cmds := (encTagCmds profile pos cs).1 ++ restC,
            data := (encTagCmds profile pos cs).2.1 ++ restD,
            out := (profile.take pos).toArray, prevStart := ps, prevSize := pz }
        = tagLoop profile.length fuel
          { cmds := restC, data := restD, out := (profile.take posEnd).toArray,
            prevStart := ps', prevSize := pz' } ∧ (encTagCmds profile pos cs).2.2 = posEnd := by
  intro cs
  induction cs with
  | nil =>
    intro pos ps pz fuel posEnd restC restD h
    simp only [tagCmdsCover, Option.some.injEq] at h
    subst h
    exact ⟨ps, pz, by simp [encTagCmds], by simp [encTagCmds]⟩
  | cons c cs ih =>
    intro pos ps pz fuel posEnd restC restD h
    simp only [tagCmdsCover] at h
    split at h
    · rename_i hok
      obtain ⟨ps', pz', hloop, hpos⟩ := ih (pos + tagCmdLen c) (readBe32 profile (pos + 4))
        (readBe32 profile (pos + 8)) fuel posEnd restC restD h
      refine ⟨ps', pz', ?_, ?_⟩
      · obtain ⟨hne, hstep⟩ := tagStep_enc profile hb c pos ps pz hok
          ((encTagCmds profile (pos + tagCmdLen c) cs).1 ++ restC)
          ((encTagCmds profile (pos + tagCmdLen c) cs).2.1 ++ restD)
        rw [← hloop]
        simp only [encTagCmds, List.length_cons]
        rw [show fuel + (cs.length + 1) = (fuel + cs.length) + 1 by omega]
        exact tagLoop_cons _ _ (tagCmdByte c)
          (encTagArgs profile pos c ++ ((encTagCmds profile (pos + tagCmdLen c) cs).1 ++ restC)) _ _
          (by simp [encTagCmd]) hne (by simpa using hstep)
      · simp only [encTagCmds]; exact hpos
    · exact absurd h (by simp)

end Jxl.Icc
