import JxlModel.Proofs.RenderState
namespace Jxl.RenderState

/-! ## Interleaving semantics: ownership invariants -/

/-- effect of `notify_all` (if any) on one thread -/
def wakeIf (ntf : Option Nat) (th : Thread) : Thread :=
  match ntf with
  | some i => if th.asleep = some i then { th with asleep := none } else th
  | none => th

@[simp] theorem wakeIf_acts (ntf : Option Nat) (th : Thread) : (wakeIf ntf th).acts = th.acts := by
  unfold wakeIf; split
  · split <;> rfl
  · rfl

@[simp] theorem wakeIf_owned (ntf : Option Nat) (th : Thread) :
    (wakeIf ntf th).owned = th.owned := by
  simp [Thread.owned]

@[simp] theorem wakeIf_err (ntf : Option Nat) (th : Thread) : (wakeIf ntf th).err = th.err := by
  unfold wakeIf; split
  · split <;> rfl
  · rfl

@[simp] theorem wakeIf_result (ntf : Option Nat) (th : Thread) :
    (wakeIf ntf th).result = th.result := by
  unfold wakeIf; split
  · split <;> rfl
  · rfl

theorem wakeIf_asleep (ntf : Option Nat) (th : Thread) (i : Nat)
    (h : (wakeIf ntf th).asleep = some i) : th.asleep = some i ∧ ntf ≠ some i := by
  unfold wakeIf at h
  split at h
  · rename_i j
    split at h
    · cases h
    · rename_i hne
      refine ⟨h, ?_⟩
      intro hj
      cases hj
      exact hne h
  · exact ⟨h, by simp⟩

theorem wakeAll_eq (ths : List Thread) (i : Nat) : wakeAll ths i = ths.map (wakeIf (some i)) := rfl

/-- the threads after thread `t` made the step `o` -/
theorem sysStep_eq (cfg : Config) (cd : Codec) (var : Variant) (t : Nat) (ch : Choice) (σ σ' : Sys)
    (h : sysStep cfg cd var t ch σ = some σ') :
    ∃ th, σ.ths[t]? = some th ∧ th.acts ≠ [] ∧ th.asleep = none ∧
      σ'.hs = (stepThread cfg cd var ch σ.hs th).hs ∧
      σ'.ths = (σ.ths.set t (stepThread cfg cd var ch σ.hs th).th).map
        (wakeIf (stepThread cfg cd var ch σ.hs th).notify) ∧
      σ'.clobbered = (σ.clobbered || (stepThread cfg cd var ch σ.hs th).clob) := by
  unfold sysStep at h
  split at h
  · cases h
  · rename_i th hth
    split at h
    · cases h
    · rename_i hrun
      simp only [Bool.or_eq_true, not_or, Bool.not_eq_true] at hrun
      cases h
      refine ⟨th, hth, ?_, ?_, rfl, ?_, rfl⟩
      · intro hnil
        simp [Thread.finished, hnil] at hrun
      · cases hsl : th.asleep with
        | none => rfl
        | some i => simp [hsl] at hrun
      · simp only
        split
        · rename_i i hi
          rw [hi, wakeAll_eq]
        · rename_i hi
          rw [hi]
          have : (wakeIf none : Thread → Thread) = id := by funext x; rfl
          rw [this, List.map_id]

theorem getElem?_set_map {α β : Type} (l : List α) (t u : Nat) (x : α) (f : α → β) :
    ((l.set t x).map f)[u]? =
      if t = u ∧ t < l.length then some (f x) else l[u]?.map f := by
  rw [List.getElem?_map, List.getElem?_set]
  by_cases htu : t = u
  · subst htu
    by_cases hl : t < l.length
    · simp [hl]
    · simp [hl]
  · simp [htu]


structure SysInv (n : Nat) (σ : Sys) : Prop where
  len : σ.hs.length = n
  ok : ∀ (t : Nat) (th : Thread), σ.ths[t]? = some th → ActsOK n th.acts
  own : ∀ (t : Nat) (th : Thread), σ.ths[t]? = some th → ∀ i ∈ th.owned, getH σ.hs i = .rendering
  uniq : ∀ (t1 t2 : Nat) (th1 th2 : Thread) (i : Nat), σ.ths[t1]? = some th1 →
    σ.ths[t2]? = some th2 → i ∈ th1.owned → i ∈ th2.owned → t1 = t2
  hasOwner : ∀ i, getH σ.hs i = .rendering →
    ∃ (t : Nat) (th : Thread), σ.ths[t]? = some th ∧ i ∈ th.owned
  sleepers : ∀ (t : Nat) (th : Thread) (i : Nat), σ.ths[t]? = some th → th.asleep = some i →
    getH σ.hs i = .rendering ∧ i < innerBound n th

theorem lookup_step (ths : List Thread) (t u : Nat) (x th' : Thread) (ntf : Option Nat)
    (ht : t < ths.length)
    (h : ((ths.set t x).map (wakeIf ntf))[u]? = some th') :
    (u = t ∧ th' = wakeIf ntf x) ∨ (u ≠ t ∧ ∃ thu, ths[u]? = some thu ∧ th' = wakeIf ntf thu) := by
  rw [getElem?_set_map] at h
  split at h
  · rename_i htu
    cases h
    exact Or.inl ⟨htu.1.symm, rfl⟩
  · rename_i htu
    have hne : u ≠ t := fun hut => htu ⟨hut.symm, ht⟩
    cases hu : ths[u]? with
    | none => simp [hu] at h
    | some thu =>
      simp only [hu, Option.map_some, Option.some.injEq] at h
      exact Or.inr ⟨hne, thu, rfl, h.symm⟩

theorem lookup_step_t (ths : List Thread) (t : Nat) (x : Thread) (ntf : Option Nat)
    (ht : t < ths.length) : ((ths.set t x).map (wakeIf ntf))[t]? = some (wakeIf ntf x) := by
  rw [getElem?_set_map]; simp [ht]

theorem lookup_step_ne (ths : List Thread) (t u : Nat) (x : Thread) (ntf : Option Nat)
    (hne : u ≠ t) : ((ths.set t x).map (wakeIf ntf))[u]? = ths[u]?.map (wakeIf ntf) := by
  rw [getElem?_set_map]
  have : ¬(t = u ∧ t < ths.length) := fun h => hne h.1.symm
  simp [this]

theorem sysInv_step (cfg : Config) (cd : Codec) (hwf : cfg.wf = true) (t : Nat) (ch : Choice)
    (σ σ' : Sys) (hinv : SysInv cfg.frames.length σ)
    (hstep : sysStep cfg cd .fixed t ch σ = some σ') (hclob : σ'.clobbered = false) :
    SysInv cfg.frames.length σ' := by
  obtain ⟨th, hth, hne, hsl, hhs, hths, hcl⟩ := sysStep_eq cfg cd .fixed t ch σ σ' hstep
  have hokt := hinv.ok t th hth
  have hshape := shape_step cfg cd ch cfg.frames.length σ.hs th hokt hne hsl
  have hok' := actsOK_step cfg cd .fixed ch hwf σ.hs th hokt
  have htl : t < σ.ths.length := by
    rcases Nat.lt_or_ge t σ.ths.length with h | h
    · exact h
    · rw [List.getElem?_eq_none h] at hth; cases hth
  have hge := owned_ge_ctx cfg.frames.length th.acts hokt
  have hble := ctxBound_le cfg.frames.length th.acts hokt
  have hsorted := owned_sorted cfg.frames.length th.acts hokt
  rw [← owned_def] at hsorted
  generalize stepThread cfg cd .fixed ch σ.hs th = o at *
  have hclo : o.clob = false := by
    rw [hcl] at hclob
    simpa using (Bool.or_eq_false_iff.1 hclob).2
  -- lookups in the new thread list
  have look : ∀ u th', σ'.ths[u]? = some th' →
      (u = t ∧ th' = wakeIf o.notify o.th) ∨
      (u ≠ t ∧ ∃ thu, σ.ths[u]? = some thu ∧ th' = wakeIf o.notify thu) := by
    intro u th' h
    rw [hths] at h
    exact lookup_step σ.ths t u o.th th' o.notify htl h
  have lookt : σ'.ths[t]? = some (wakeIf o.notify o.th) := by
    rw [hths]; exact lookup_step_t σ.ths t o.th o.notify htl
  have lookne : ∀ u thu, u ≠ t → σ.ths[u]? = some thu →
      σ'.ths[u]? = some (wakeIf o.notify thu) := by
    intro u thu hne' hu
    rw [hths, lookup_step_ne σ.ths t u o.th o.notify hne', hu]; rfl
  -- ownership of every thread in the new state, relative to the old one
  have ownedOf : ∀ u th', σ'.ths[u]? = some th' → ∀ i ∈ th'.owned,
      (u = t ∧ i ∈ o.th.owned) ∨ (u ≠ t ∧ ∃ thu, σ.ths[u]? = some thu ∧ i ∈ thu.owned) := by
    intro u th' h i hi
    rcases look u th' h with ⟨hu, rfl⟩ | ⟨hu, thu, hthu, rfl⟩
    · exact Or.inl ⟨hu, by simpa using hi⟩
    · exact Or.inr ⟨hu, thu, hthu, by simpa using hi⟩
  have hlen_set : ∀ i s, (σ.hs.set i s).length = cfg.frames.length := by
    intro i s; simpa using hinv.len
  cases hshape with
  | same h1 h2 h3 h4 h5 =>
    have hhs' : σ'.hs = σ.hs := by rw [hhs, h1]
    refine ⟨by rw [hhs']; exact hinv.len, ?_, ?_, ?_, ?_, ?_⟩
    · intro u th' h
      rcases look u th' h with ⟨_, rfl⟩ | ⟨_, thu, hthu, rfl⟩
      · simpa using hok'
      · simpa using hinv.ok u thu hthu
    · intro u th' h i hi
      rw [hhs']
      rcases ownedOf u th' h i hi with ⟨_, hi'⟩ | ⟨_, thu, hthu, hi'⟩
      · exact hinv.own t th hth i (by rw [← h2]; exact hi')
      · exact hinv.own u thu hthu i hi'
    · intro u1 u2 th1 th2 i h1' h2' hi1 hi2
      rcases ownedOf u1 th1 h1' i hi1 with ⟨hu1, hi1'⟩ | ⟨hu1, thu1, hthu1, hi1'⟩ <;>
      rcases ownedOf u2 th2 h2' i hi2 with ⟨hu2, hi2'⟩ | ⟨hu2, thu2, hthu2, hi2'⟩
      · rw [hu1, hu2]
      · exact absurd (hinv.uniq t u2 th thu2 i hth hthu2 (by rw [← h2]; exact hi1') hi2').symm hu2
      · exact absurd (hinv.uniq u1 t thu1 th i hthu1 hth hi1' (by rw [← h2]; exact hi2')) hu1
      · exact hinv.uniq u1 u2 thu1 thu2 i hthu1 hthu2 hi1' hi2'
    · intro i hi
      rw [hhs'] at hi
      obtain ⟨u, thu, hthu, hiu⟩ := hinv.hasOwner i hi
      by_cases hut : u = t
      · subst hut
        rw [hth] at hthu; cases hthu
        exact ⟨u, _, lookt, by simpa [h2] using hiu⟩
      · exact ⟨u, _, lookne u thu hut hthu, by simpa using hiu⟩
    · intro u th' i h hsl'
      rw [hhs']
      rcases look u th' h with ⟨_, rfl⟩ | ⟨_, thu, hthu, rfl⟩
      · obtain ⟨hsl'', _⟩ := wakeIf_asleep _ _ _ hsl'
        obtain ⟨hr, hi, hacts⟩ := h5 i hsl''
        refine ⟨hr, ?_⟩
        simpa [innerBound, hacts] using hi
      · obtain ⟨hsl'', _⟩ := wakeIf_asleep _ _ _ hsl'
        simpa [innerBound] using hinv.sleepers u thu i hthu hsl''
  | write j s h1 hs' hj h2 h3 h4 h5 =>
    have hjr : getH σ.hs j ≠ .rendering := by
      rw [hclo] at h4
      simpa using h4.symm
    have hhs' : σ'.hs = σ.hs.set j s := by rw [hhs, h1]
    have keep : ∀ i, getH σ.hs i = .rendering → getH σ'.hs i = .rendering := by
      intro i hi
      have : j ≠ i := fun hji => hjr (hji ▸ hi)
      rw [hhs', getH_set_ne _ _ _ _ this]; exact hi
    have back : ∀ i, getH σ'.hs i = .rendering → getH σ.hs i = .rendering := by
      intro i hi
      rw [hhs', getH_set] at hi
      split at hi
      · exact absurd hi hs'
      · exact hi
    refine ⟨by rw [hhs']; exact hlen_set _ _, ?_, ?_, ?_, ?_, ?_⟩
    · intro u th' h
      rcases look u th' h with ⟨_, rfl⟩ | ⟨_, thu, hthu, rfl⟩
      · simpa using hok'
      · simpa using hinv.ok u thu hthu
    · intro u th' h i hi
      apply keep
      rcases ownedOf u th' h i hi with ⟨_, hi'⟩ | ⟨_, thu, hthu, hi'⟩
      · exact hinv.own t th hth i (by rw [← h2]; exact hi')
      · exact hinv.own u thu hthu i hi'
    · intro u1 u2 th1 th2 i h1' h2' hi1 hi2
      rcases ownedOf u1 th1 h1' i hi1 with ⟨hu1, hi1'⟩ | ⟨hu1, thu1, hthu1, hi1'⟩ <;>
      rcases ownedOf u2 th2 h2' i hi2 with ⟨hu2, hi2'⟩ | ⟨hu2, thu2, hthu2, hi2'⟩
      · rw [hu1, hu2]
      · exact absurd (hinv.uniq t u2 th thu2 i hth hthu2 (by rw [← h2]; exact hi1') hi2').symm hu2
      · exact absurd (hinv.uniq u1 t thu1 th i hthu1 hth hi1' (by rw [← h2]; exact hi2')) hu1
      · exact hinv.uniq u1 u2 thu1 thu2 i hthu1 hthu2 hi1' hi2'
    · intro i hi
      obtain ⟨u, thu, hthu, hiu⟩ := hinv.hasOwner i (back i hi)
      by_cases hut : u = t
      · subst hut
        rw [hth] at hthu; cases hthu
        exact ⟨u, _, lookt, by simpa [h2] using hiu⟩
      · exact ⟨u, _, lookne u thu hut hthu, by simpa using hiu⟩
    · intro u th' i h hsl'
      rcases look u th' h with ⟨_, rfl⟩ | ⟨_, thu, hthu, rfl⟩
      · obtain ⟨hsl'', _⟩ := wakeIf_asleep _ _ _ hsl'
        rw [h5] at hsl''; cases hsl''
      · obtain ⟨hsl'', _⟩ := wakeIf_asleep _ _ _ hsl'
        have := hinv.sleepers u thu i hthu hsl''
        exact ⟨keep i this.1, by simpa [innerBound] using this.2⟩
  | acquire j h1 hjr hj h2 h3 h4 h5 =>
    have hjn : j < σ.hs.length := by
      simp only [innerBound] at hj; rw [hinv.len]; omega
    have hhs' : σ'.hs = σ.hs.set j .rendering := by rw [hhs, h1]
    have keep : ∀ i, getH σ.hs i = .rendering → getH σ'.hs i = .rendering := by
      intro i hi
      have : j ≠ i := fun hji => hjr (hji ▸ hi)
      rw [hhs', getH_set_ne _ _ _ _ this]; exact hi
    have noOwner : ∀ (u : Nat) (thu : Thread), σ.ths[u]? = some thu → j ∉ thu.owned := by
      intro u thu hthu hmem
      exact hjr (hinv.own u thu hthu j hmem)
    refine ⟨by rw [hhs']; exact hlen_set _ _, ?_, ?_, ?_, ?_, ?_⟩
    · intro u th' h
      rcases look u th' h with ⟨_, rfl⟩ | ⟨_, thu, hthu, rfl⟩
      · simpa using hok'
      · simpa using hinv.ok u thu hthu
    · intro u th' h i hi
      rcases ownedOf u th' h i hi with ⟨_, hi'⟩ | ⟨_, thu, hthu, hi'⟩
      · rw [h2] at hi'
        simp only [List.mem_cons] at hi'
        rcases hi' with rfl | hi'
        · rw [hhs', getH_set_eq _ _ _ hjn]
        · exact keep i (hinv.own t th hth i hi')
      · exact keep i (hinv.own u thu hthu i hi')
    · intro u1 u2 th1 th2 i h1' h2' hi1 hi2
      rcases ownedOf u1 th1 h1' i hi1 with ⟨hu1, hi1'⟩ | ⟨hu1, thu1, hthu1, hi1'⟩ <;>
      rcases ownedOf u2 th2 h2' i hi2 with ⟨hu2, hi2'⟩ | ⟨hu2, thu2, hthu2, hi2'⟩
      · rw [hu1, hu2]
      · rw [h2] at hi1'
        simp only [List.mem_cons] at hi1'
        rcases hi1' with rfl | hi1'
        · exact absurd hi2' (noOwner u2 thu2 hthu2)
        · exact absurd (hinv.uniq t u2 th thu2 i hth hthu2 hi1' hi2').symm hu2
      · rw [h2] at hi2'
        simp only [List.mem_cons] at hi2'
        rcases hi2' with rfl | hi2'
        · exact absurd hi1' (noOwner u1 thu1 hthu1)
        · exact absurd (hinv.uniq u1 t thu1 th i hthu1 hth hi1' hi2') hu1
      · exact hinv.uniq u1 u2 thu1 thu2 i hthu1 hthu2 hi1' hi2'
    · intro i hi
      by_cases hji : j = i
      · subst hji
        exact ⟨t, _, lookt, by simp [h2]⟩
      · rw [hhs', getH_set_ne _ _ _ _ hji] at hi
        obtain ⟨u, thu, hthu, hiu⟩ := hinv.hasOwner i hi
        by_cases hut : u = t
        · subst hut
          rw [hth] at hthu; cases hthu
          exact ⟨u, _, lookt, by simp [h2, hiu]⟩
        · exact ⟨u, _, lookne u thu hut hthu, by simpa using hiu⟩
    · intro u th' i h hsl'
      rcases look u th' h with ⟨_, rfl⟩ | ⟨_, thu, hthu, rfl⟩
      · obtain ⟨hsl'', _⟩ := wakeIf_asleep _ _ _ hsl'
        rw [h5] at hsl''; cases hsl''
      · obtain ⟨hsl'', _⟩ := wakeIf_asleep _ _ _ hsl'
        have := hinv.sleepers u thu i hthu hsl''
        exact ⟨keep i this.1, by simpa [innerBound] using this.2⟩
  | release j s h1 hs' h2 h3 h4 h5 =>
    have hhs' : σ'.hs = σ.hs.set j s := by rw [hhs, h1]
    have hjo : j ∈ th.owned := by rw [h2]; simp
    have hjn : j ∉ o.th.owned := fun hmem => by
      rw [h2] at hsorted
      have := (List.pairwise_cons.1 hsorted).1 j hmem
      omega
    have sub : ∀ i, i ∈ o.th.owned → i ∈ th.owned := fun i hi => by rw [h2]; simp [hi]
    have other : ∀ (u : Nat) (thu : Thread), u ≠ t → σ.ths[u]? = some thu → j ∉ thu.owned := by
      intro u thu hut hthu hmem
      exact hut (hinv.uniq u t thu th j hthu hth hmem hjo)
    have keepNe : ∀ i, i ≠ j → getH σ'.hs i = getH σ.hs i := by
      intro i hij
      rw [hhs', getH_set_ne _ _ _ _ (fun h => hij h.symm)]
    have notR : getH σ'.hs j ≠ .rendering := by
      rw [hhs']
      exact not_rendering_set _ _ _ hs' (Or.inr (by
        rcases Nat.lt_or_ge j σ.hs.length with h | h
        · exact h
        · have := hinv.own t th hth j hjo
          rw [getH_of_ge _ _ h] at this; cases this))
    refine ⟨by rw [hhs']; exact hlen_set _ _, ?_, ?_, ?_, ?_, ?_⟩
    · intro u th' h
      rcases look u th' h with ⟨_, rfl⟩ | ⟨_, thu, hthu, rfl⟩
      · simpa using hok'
      · simpa using hinv.ok u thu hthu
    · intro u th' h i hi
      rcases ownedOf u th' h i hi with ⟨_, hi'⟩ | ⟨hu, thu, hthu, hi'⟩
      · have hij : i ≠ j := fun hij => hjn (hij ▸ hi')
        rw [keepNe i hij]
        exact hinv.own t th hth i (sub i hi')
      · have hij : i ≠ j := fun hij => other u thu hu hthu (hij ▸ hi')
        rw [keepNe i hij]
        exact hinv.own u thu hthu i hi'
    · intro u1 u2 th1 th2 i h1' h2' hi1 hi2
      rcases ownedOf u1 th1 h1' i hi1 with ⟨hu1, hi1'⟩ | ⟨hu1, thu1, hthu1, hi1'⟩ <;>
      rcases ownedOf u2 th2 h2' i hi2 with ⟨hu2, hi2'⟩ | ⟨hu2, thu2, hthu2, hi2'⟩
      · rw [hu1, hu2]
      · exact absurd (hinv.uniq t u2 th thu2 i hth hthu2 (sub i hi1') hi2').symm hu2
      · exact absurd (hinv.uniq u1 t thu1 th i hthu1 hth hi1' (sub i hi2')) hu1
      · exact hinv.uniq u1 u2 thu1 thu2 i hthu1 hthu2 hi1' hi2'
    · intro i hi
      have hij : i ≠ j := fun hij => notR (hij ▸ hi)
      rw [keepNe i hij] at hi
      obtain ⟨u, thu, hthu, hiu⟩ := hinv.hasOwner i hi
      by_cases hut : u = t
      · subst hut
        rw [hth] at hthu; cases hthu
        refine ⟨u, _, lookt, ?_⟩
        rw [h2] at hiu
        simp only [List.mem_cons] at hiu
        rcases hiu with rfl | hiu
        · exact absurd rfl hij
        · simpa using hiu
      · exact ⟨u, _, lookne u thu hut hthu, by simpa using hiu⟩
    · intro u th' i h hsl'
      rcases look u th' h with ⟨_, rfl⟩ | ⟨_, thu, hthu, rfl⟩
      · obtain ⟨hsl'', _⟩ := wakeIf_asleep _ _ _ hsl'
        rw [h5] at hsl''; cases hsl''
      · obtain ⟨hsl'', hntf⟩ := wakeIf_asleep _ _ _ hsl'
        have := hinv.sleepers u thu i hthu hsl''
        have hij : i ≠ j := fun hij => hntf (by rw [h3, hij])
        rw [keepNe i hij]
        exact ⟨this.1, by simpa [innerBound] using this.2⟩


theorem sysWake_eq (t : Nat) (σ σ' : Sys) (h : sysWake t σ = some σ') :
    ∃ th, σ.ths[t]? = some th ∧ σ'.hs = σ.hs ∧ σ'.clobbered = σ.clobbered ∧
      σ'.ths = σ.ths.set t { th with asleep := none } := by
  unfold sysWake at h
  split at h
  · cases h
  · rename_i th hth
    split at h
    · cases h
      exact ⟨th, hth, rfl, rfl, rfl⟩
    · cases h

theorem sysInv_wake (n : Nat) (t : Nat) (σ σ' : Sys) (hinv : SysInv n σ)
    (h : sysWake t σ = some σ') : SysInv n σ' := by
  obtain ⟨th, hth, hhs, _, hths⟩ := sysWake_eq t σ σ' h
  have look : ∀ (u : Nat) (th' : Thread), σ'.ths[u]? = some th' →
      ∃ thu, σ.ths[u]? = some thu ∧ th'.acts = thu.acts ∧
        (∀ i, th'.asleep = some i → thu.asleep = some i) := by
    intro u th' hu
    rw [hths, List.getElem?_set] at hu
    split at hu
    · rename_i htu
      split at hu
      · cases hu
        subst htu
        exact ⟨th, hth, rfl, by simp⟩
      · cases hu
    · exact ⟨th', hu, rfl, fun i hi => hi⟩
  have look' : ∀ (u : Nat) (thu : Thread), σ.ths[u]? = some thu →
      ∃ th', σ'.ths[u]? = some th' ∧ th'.acts = thu.acts := by
    intro u thu hu
    rw [hths, List.getElem?_set]
    split
    · rename_i htu
      subst htu
      rw [hth] at hu; cases hu
      have : t < σ.ths.length := by
        rcases Nat.lt_or_ge t σ.ths.length with h | h
        · exact h
        · rw [List.getElem?_eq_none h] at hth; cases hth
      simp [this]
    · exact ⟨thu, hu, rfl⟩
  have ownEq : ∀ (a b : Thread), a.acts = b.acts → a.owned = b.owned := by
    intro a b hab; simp [Thread.owned, hab]
  refine ⟨by rw [hhs]; exact hinv.len, ?_, ?_, ?_, ?_, ?_⟩
  · intro u th' hu
    obtain ⟨thu, hthu, hacts, _⟩ := look u th' hu
    rw [hacts]; exact hinv.ok u thu hthu
  · intro u th' hu i hi
    obtain ⟨thu, hthu, hacts, _⟩ := look u th' hu
    rw [hhs]
    exact hinv.own u thu hthu i (by rw [← ownEq _ _ hacts]; exact hi)
  · intro u1 u2 th1 th2 i h1 h2 hi1 hi2
    obtain ⟨thu1, hthu1, hacts1, _⟩ := look u1 th1 h1
    obtain ⟨thu2, hthu2, hacts2, _⟩ := look u2 th2 h2
    exact hinv.uniq u1 u2 thu1 thu2 i hthu1 hthu2 (by rw [← ownEq _ _ hacts1]; exact hi1)
      (by rw [← ownEq _ _ hacts2]; exact hi2)
  · intro i hi
    rw [hhs] at hi
    obtain ⟨u, thu, hthu, hiu⟩ := hinv.hasOwner i hi
    obtain ⟨th', hth', hacts⟩ := look' u thu hthu
    exact ⟨u, th', hth', by rw [ownEq _ _ hacts]; exact hiu⟩
  · intro u th' i hu hsl
    obtain ⟨thu, hthu, hacts, hsl'⟩ := look u th' hu
    rw [hhs]
    have := hinv.sleepers u thu i hthu (hsl' i hsl)
    exact ⟨this.1, by simpa [innerBound, hacts] using this.2⟩

/-- the thread programs name frames that exist -/
def ProgsOK (cfg : Config) (progs : List Prog) : Prop :=
  ∀ p ∈ progs, match p with
    | .background r => r < cfg.frames.length
    | .keyframe _ => True

theorem progThread_ok (cfg : Config) (hwf : cfg.wf = true) (p : Prog)
    (hp : match p with | .background r => r < cfg.frames.length | .keyframe _ => True) :
    ActsOK cfg.frames.length (progThread cfg p).acts ∧ (progThread cfg p).owned = [] ∧
      (progThread cfg p).asleep = none := by
  cases p with
  | keyframe k =>
    have hq : Quiescent cfg.frames.length (List.replicate cfg.frames.length .none) :=
      ⟨by simp, by intro i; simp [getH, List.getD_eq_getElem?_getD, List.getElem?_replicate]; split <;> simp⟩
    have := seqInv_start cfg hwf _ hq (.renderKeyframe k)
    refine ⟨this.ok, ?_, this.awake⟩
    simp only [progThread, startThread]
    split <;> rfl
  | background r =>
    refine ⟨⟨?_, Nat.le_refl _, by simp [Handler.owns], trivial⟩, rfl, rfl⟩
    refine bodyOK_of_idx _ _ _ ?_
    intro it hit
    simp only [List.mem_cons, List.not_mem_nil, or_false] at hit
    subst hit
    simpa [Item.idx?, Handler.bound] using hp

theorem sysInv_init (cfg : Config) (hwf : cfg.wf = true) (progs : List Prog)
    (hp : ProgsOK cfg progs) : SysInv cfg.frames.length (initSys cfg progs) := by
  have hnr : ∀ i, getH (List.replicate cfg.frames.length HState.none) i ≠ .rendering := by
    intro i
    simp [getH, List.getD_eq_getElem?_getD, List.getElem?_replicate]
    split <;> simp
  have look : ∀ (t : Nat) (th : Thread), (initSys cfg progs).ths[t]? = some th →
      ∃ p ∈ progs, th = progThread cfg p := by
    intro t th h
    simp only [initSys, List.getElem?_map] at h
    cases hp' : progs[t]? with
    | none => simp [hp'] at h
    | some p =>
      simp only [hp', Option.map_some, Option.some.injEq] at h
      exact ⟨p, List.mem_of_getElem? hp', h.symm⟩
  refine ⟨by simp [initSys], ?_, ?_, ?_, ?_, ?_⟩
  · intro t th h
    obtain ⟨p, hpm, rfl⟩ := look t th h
    exact (progThread_ok cfg hwf p (hp p hpm)).1
  · intro t th h i hi
    obtain ⟨p, hpm, rfl⟩ := look t th h
    rw [(progThread_ok cfg hwf p (hp p hpm)).2.1] at hi
    simp at hi
  · intro t1 t2 th1 th2 i h1 _ hi1 _
    obtain ⟨p, hpm, rfl⟩ := look t1 th1 h1
    rw [(progThread_ok cfg hwf p (hp p hpm)).2.1] at hi1
    simp at hi1
  · intro i hi
    exact absurd hi (hnr i)
  · intro t th i h hsl
    obtain ⟨p, hpm, rfl⟩ := look t th h
    rw [(progThread_ok cfg hwf p (hp p hpm)).2.2] at hsl
    cases hsl

theorem clobbered_mono (cfg : Config) (cd : Codec) (var : Variant) (σ σ' : Sys) (l : Label)
    (h : sysNext cfg cd var σ l = some σ') (hc : σ'.clobbered = false) : σ.clobbered = false := by
  cases l with
  | run t ch =>
    obtain ⟨_, _, _, _, _, _, hcl⟩ := sysStep_eq cfg cd var t ch σ σ' h
    rw [hcl] at hc
    exact (Bool.or_eq_false_iff.1 hc).1
  | wake t =>
    obtain ⟨_, _, _, hcl, _⟩ := sysWake_eq t σ σ' h
    rw [← hcl]; exact hc

theorem reach_inv (cfg : Config) (cd : Codec) (hwf : cfg.wf = true) (progs : List Prog)
    (hp : ProgsOK cfg progs) (σ : Sys)
    (hr : Reachable cfg cd .fixed (initSys cfg progs) σ) (hc : σ.clobbered = false) :
    SysInv cfg.frames.length σ := by
  induction hr with
  | init => exact sysInv_init cfg hwf progs hp
  | step l _ hnext ih =>
    have hc' := clobbered_mono cfg cd .fixed _ _ l hnext hc
    cases l with
    | run t ch => exact sysInv_step cfg cd hwf t ch _ _ (ih hc') hnext hc
    | wake t => exact sysInv_wake _ t _ _ (ih hc') hnext


/-- In a state satisfying the invariant nobody can sleep if every unfinished thread sleeps:
the owner of the handle a sleeper waits for would itself sleep on a strictly smaller handle. -/
theorem no_sleeper_if_all_asleep (n : Nat) (σ : Sys) (hinv : SysInv n σ)
    (hall : ∀ (t : Nat) (th : Thread), σ.ths[t]? = some th → th.acts ≠ [] → th.asleep ≠ none) :
    ∀ (i : Nat) (t : Nat) (th : Thread), σ.ths[t]? = some th → th.asleep = some i → False := by
  intro i
  induction i using Nat.strongRecOn with
  | _ i ih =>
    intro t th hth hsl
    obtain ⟨hr, _⟩ := hinv.sleepers t th i hth hsl
    obtain ⟨u, thu, hthu, hiu⟩ := hinv.hasOwner i hr
    have hne : thu.acts ≠ [] := by
      intro h
      simp [Thread.owned, h] at hiu
    cases hsu : thu.asleep with
    | none => exact hall u thu hthu hne hsu
    | some i' =>
      obtain ⟨_, hlt⟩ := hinv.sleepers u thu i' hthu hsu
      have hge := owned_ge_ctx n thu.acts (hinv.ok u thu hthu) i hiu
      simp only [innerBound] at hlt
      exact ih i' (by omega) u thu hthu hsu

theorem deadlock_free (n : Nat) (σ : Sys) (hinv : SysInv n σ)
    (hex : ∃ (t : Nat) (th : Thread), σ.ths[t]? = some th ∧ th.acts ≠ []) :
    ∃ (t : Nat) (th : Thread), σ.ths[t]? = some th ∧ th.acts ≠ [] ∧ th.asleep = none := by
  obtain ⟨t, th, hth, hne⟩ := hex
  cases hsl : th.asleep with
  | none => exact ⟨t, th, hth, hne, hsl⟩
  | some i =>
    -- otherwise some unfinished thread is awake, or everybody sleeps (impossible)
    by_cases hall : ∀ (u : Nat) (thu : Thread), σ.ths[u]? = some thu → thu.acts ≠ [] → thu.asleep ≠ none
    · exact absurd hsl (fun h => no_sleeper_if_all_asleep n σ hinv hall i t th hth h)
    · have : ∃ (u : Nat) (thu : Thread), σ.ths[u]? = some thu ∧ thu.acts ≠ [] ∧ thu.asleep = none := by
        apply Classical.byContradiction
        intro hno
        apply hall
        intro u thu hthu hne' hsu
        exact hno ⟨u, thu, hthu, hne', hsu⟩
      exact this

/-- a thread that has not returned and is awake can take a step -/
theorem awake_can_step (cfg : Config) (cd : Codec) (var : Variant) (σ : Sys) (t : Nat) (th : Thread)
    (hth : σ.ths[t]? = some th) (hne : th.acts ≠ []) (hsl : th.asleep = none) (ch : Choice) :
    ∃ σ', sysStep cfg cd var t ch σ = some σ' := by
  unfold sysStep
  rw [hth]
  have : (th.finished || th.asleep.isSome) = false := by
    cases h : th.acts with
    | nil => contradiction
    | cons a as => simp [Thread.finished, h, hsl]
  simp [this]


/-- what thread program `p` may return -/
def Pof (cfg : Config) (cd : Codec) : Prog → Val → Prop
  | .keyframe k => OpClean cfg cd (.renderKeyframe k)
  | .background _ => fun _ => False

structure SysVal (cfg : Config) (cd : Codec) (progs : List Prog) (σ : Sys) : Prop where
  ok : ∀ (t : Nat) (th : Thread), σ.ths[t]? = some th → ActsOK cfg.frames.length th.acts
  hv : HsVal cfg cd σ.hs
  tv : ∀ (t : Nat) (th : Thread), σ.ths[t]? = some th →
    ∃ p, progs[t]? = some p ∧ ThreadVal cfg cd (Pof cfg cd p) th

theorem tv_wakeIf {cfg : Config} {cd : Codec} {P : Val → Prop} (ntf : Option Nat) (th : Thread)
    (h : ThreadVal cfg cd P th) : ThreadVal cfg cd P (wakeIf ntf th) :=
  tv_congr (by simp) (by simp) (by simp) h

theorem sysVal_step (cfg : Config) (cd : Codec) (var : Variant) (hwf : cfg.wf = true)
    (progs : List Prog) (t : Nat) (ch : Choice) (σ σ' : Sys) (hinv : SysVal cfg cd progs σ)
    (hstep : sysStep cfg cd var t ch σ = some σ') : SysVal cfg cd progs σ' := by
  obtain ⟨th, hth, _, _, hhs, hths, _⟩ := sysStep_eq cfg cd var t ch σ σ' hstep
  have hokt := hinv.ok t th hth
  obtain ⟨p, hp, htv⟩ := hinv.tv t th hth
  have hv := val_step var ch hwf σ.hs th hokt hinv.hv htv
  have hok' := actsOK_step cfg cd var ch hwf σ.hs th hokt
  have htl : t < σ.ths.length := by
    rcases Nat.lt_or_ge t σ.ths.length with h | h
    · exact h
    · rw [List.getElem?_eq_none h] at hth; cases hth
  refine ⟨?_, by rw [hhs]; exact hv.1, ?_⟩
  · intro u th' h
    rw [hths] at h
    rcases lookup_step σ.ths t u _ th' _ htl h with ⟨_, rfl⟩ | ⟨_, thu, hthu, rfl⟩
    · simpa using hok'
    · simpa using hinv.ok u thu hthu
  · intro u th' h
    rw [hths] at h
    rcases lookup_step σ.ths t u _ th' _ htl h with ⟨hu, rfl⟩ | ⟨_, thu, hthu, rfl⟩
    · exact ⟨p, by rw [hu]; exact hp, tv_wakeIf _ _ hv.2⟩
    · obtain ⟨q, hq, hqv⟩ := hinv.tv u thu hthu
      exact ⟨q, hq, tv_wakeIf _ _ hqv⟩

theorem sysVal_wake (cfg : Config) (cd : Codec) (progs : List Prog) (t : Nat) (σ σ' : Sys)
    (hinv : SysVal cfg cd progs σ) (h : sysWake t σ = some σ') : SysVal cfg cd progs σ' := by
  obtain ⟨th, hth, hhs, _, hths⟩ := sysWake_eq t σ σ' h
  have look : ∀ (u : Nat) (th' : Thread), σ'.ths[u]? = some th' →
      ∃ thu, σ.ths[u]? = some thu ∧ th'.acts = thu.acts ∧ th'.err = thu.err ∧
        th'.result = thu.result := by
    intro u th' hu
    rw [hths, List.getElem?_set] at hu
    split at hu
    · rename_i htu
      split at hu
      · cases hu
        subst htu
        exact ⟨th, hth, rfl, rfl, rfl⟩
      · cases hu
    · exact ⟨th', hu, rfl, rfl, rfl⟩
  refine ⟨?_, by rw [hhs]; exact hinv.hv, ?_⟩
  · intro u th' hu
    obtain ⟨thu, hthu, hacts, _, _⟩ := look u th' hu
    rw [hacts]; exact hinv.ok u thu hthu
  · intro u th' hu
    obtain ⟨thu, hthu, hacts, herr, hres⟩ := look u th' hu
    obtain ⟨q, hq, hqv⟩ := hinv.tv u thu hthu
    exact ⟨q, hq, tv_congr hacts herr hres hqv⟩

theorem tv_bgThread (cfg : Config) (cd : Codec) (r : Nat) :
    ThreadVal cfg cd (fun _ => False) (bgThread r) := by
  refine ⟨by simp [bgThread], by simp [bgThread], ?_⟩
  refine ⟨⟨⟨by simp, by simp⟩, by simp, by simp [isLoadH], by simp [isLoadH], fun _ => trivial⟩,
    trivial⟩

theorem sysVal_init (cfg : Config) (cd : Codec) (hwf : cfg.wf = true) (progs : List Prog)
    (hp : ProgsOK cfg progs) : SysVal cfg cd progs (initSys cfg progs) := by
  have look : ∀ (t : Nat) (th : Thread), (initSys cfg progs).ths[t]? = some th →
      ∃ p, progs[t]? = some p ∧ p ∈ progs ∧ th = progThread cfg p := by
    intro t th h
    simp only [initSys, List.getElem?_map] at h
    cases hp' : progs[t]? with
    | none => simp [hp'] at h
    | some p =>
      simp only [hp', Option.map_some, Option.some.injEq] at h
      exact ⟨p, rfl, List.mem_of_getElem? hp', h.symm⟩
  refine ⟨?_, ?_, ?_⟩
  · intro t th h
    obtain ⟨p, _, hpm, rfl⟩ := look t th h
    exact (progThread_ok cfg hwf p (hp p hpm)).1
  · intro i
    simp [initSys, getH, List.getD_eq_getElem?_getD, List.getElem?_replicate]
    split <;> simp
  · intro t th h
    obtain ⟨p, hpt, _, rfl⟩ := look t th h
    refine ⟨p, hpt, ?_⟩
    cases p with
    | keyframe k => exact tv_start [] (.renderKeyframe k)
    | background r => exact tv_bgThread cfg cd r

theorem reach_val (cfg : Config) (cd : Codec) (var : Variant) (hwf : cfg.wf = true)
    (progs : List Prog) (hp : ProgsOK cfg progs) (σ : Sys)
    (hr : Reachable cfg cd var (initSys cfg progs) σ) : SysVal cfg cd progs σ := by
  induction hr with
  | init => exact sysVal_init cfg cd hwf progs hp
  | step l _ hnext ih =>
    cases l with
    | run t ch => exact sysVal_step cfg cd var hwf progs t ch _ _ ih hnext
    | wake t => exact sysVal_wake cfg cd progs t _ _ ih hnext


theorem stepDone_clob (cfg : Config) (cd : Codec) (var : Variant) (ch : Choice) (hs : List HState)
    (th : Thread) (a : Act) : (stepDone cfg cd var ch hs th a).clob = false := by
  cases hh : a.h with
  | top => simp only [stepDone, hh]
  | op i silent c =>
    simp only [stepDone, hh]
    split
    · split <;> rfl
    · split
      · rfl
      · split <;> rfl
  | comp i v k =>
    simp only [stepDone, hh]
    split
    · cases var <;> rfl
    · rfl
  | loadOp =>
    simp only [stepDone, hh]
    split
    · rfl
    · split
      · rfl
      · split
        · rfl
        · split <;> rfl
  | loadComp v =>
    simp only [stepDone, hh]
    split <;> rfl

theorem stepItem_clob_fixed (cfg : Config) (cd : Codec) (ch : Choice) (hs : List HState)
    (th : Thread) (it : Item) (rest : List Item) :
    (stepItem cfg cd .fixed ch hs th it rest).clob = false := by
  cases it <;> simp only [stepItem] <;> repeat (first | rfl | split)

theorem stepThread_clob_fixed (cfg : Config) (cd : Codec) (ch : Choice) (hs : List HState)
    (th : Thread) : (stepThread cfg cd .fixed ch hs th).clob = false := by
  unfold stepThread
  split
  · rfl
  · split
    · exact stepDone_clob ..
    · exact stepItem_clob_fixed ..

/-- with the repaired `reset` the ghost flag is never raised -/
theorem reach_noClobber (cfg : Config) (cd : Codec) (progs : List Prog) (σ : Sys)
    (hr : Reachable cfg cd .fixed (initSys cfg progs) σ) : σ.clobbered = false := by
  induction hr with
  | init => rfl
  | step l _ hnext ih =>
    cases l with
    | run t ch =>
      obtain ⟨th, _, _, _, _, _, hcl⟩ := sysStep_eq cfg cd .fixed t ch _ _ hnext
      rw [hcl, ih, stepThread_clob_fixed]
      rfl
    | wake t =>
      obtain ⟨_, _, _, hcl, _⟩ := sysWake_eq t _ _ hnext
      rw [hcl]; exact ih


/-- the ownership invariant holds in every reachable state of the repaired code -/
theorem reach_inv' (cfg : Config) (cd : Codec) (hwf : cfg.wf = true) (progs : List Prog)
    (hp : ProgsOK cfg progs) (σ : Sys)
    (hr : Reachable cfg cd .fixed (initSys cfg progs) σ) : SysInv cfg.frames.length σ :=
  reach_inv cfg cd hwf progs hp σ hr (reach_noClobber cfg cd progs σ hr)

end Jxl.RenderState
