import JxlModel.Model.Modular.ChainOk
import JxlModel.Proofs.Modular
import JxlModel.Proofs.Narrow
/-!
# Helper lemmas for the transform-chain round trip of property C03

`inverseOne sb … (forwardOne sb … chans t) t = chans` for RCT, squeeze and palette under the
executable hypotheses of `Model/Modular/ChainOk.lean`, the chain by induction, and the agreement
of the forward transforms' channel dimensions with `transformInfo`.
-/
namespace Jxl.Modular

/-! ## RCT -/

theorem wrap_of_inRange {sb : SBits} {v : Int} (h : inRange sb v = true) : wrap sb v = v := by
  simp only [inRange, Bool.and_eq_true, decide_eq_true_eq] at h
  exact wrap_eq_self sb v h.1.1 h.1.2 h.2

theorem inRange_between {sb : SBits} {a b v : Int} (ha : inRange sb a = true) (hb : inRange sb b = true)
    (h1 : min a b ≤ v) (h2 : v ≤ max a b) : inRange sb v = true := by
  simp only [inRange, Bool.and_eq_true, decide_eq_true_eq] at ha hb ⊢
  refine ⟨⟨ha.1.1, ?_⟩, ?_⟩ <;> omega

/-- inverse RCT in wrapping arithmetic undoes the exact forward RCT on an admissible triple -/
theorem rct_sample_inv_wrap (sb : SBits) (ty : Nat) (t : Int × Int × Int)
    (h : rctTripleOk sb ty t = true) :
    rctInvT (wrap sb) ty (rctFwdT ty t) = t := by
  obtain ⟨d, e, f⟩ := t
  simp only [rctTripleOk, Bool.and_eq_true, Bool.or_eq_true, bne_iff_ne, ne_eq] at h
  obtain ⟨⟨⟨hd, he⟩, hf⟩, hdf⟩ := h
  have wd := wrap_of_inRange hd
  have we := wrap_of_inRange he
  have wf := wrap_of_inRange hf
  unfold rctInvT rctFwdT rctFwdSample rctInvSampleG
  by_cases h6 : ty = 6
  · subst h6
    have htmp : wrap sb (f + (d - f) / 2) = f + (d - f) / 2 :=
      wrap_of_inRange (inRange_between hd hf (by omega) (by omega))
    simp only [beq_self_eq_true, if_true]
    have e1 : f + (d - f) / 2 + (e - (f + (d - f) / 2)) / 2 - (e - (f + (d - f) / 2)) / 2
        = f + (d - f) / 2 := by omega
    have e2 : e - (f + (d - f) / 2) + (f + (d - f) / 2) = e := by omega
    have e3 : f + (d - f) / 2 - (d - f) / 2 = f := by omega
    have e4 : f + (d - f) = d := by omega
    rw [e1, htmp, e2, we, e3, wf, e4, wd]
  · have h6' : (ty == 6) = false := by simp [h6]
    simp only [h6']
    have e1 : f - d + d = f := by omega
    have e2 : e - d + d = e := by omega
    by_cases h1 : ty % 2 = 1 <;> by_cases h2 : ty / 2 = 1 <;> by_cases h3 : ty / 2 = 2 <;>
      simp [h1, h2, h3, e1, e2, wf, we] <;> try omega
    all_goals
      have wdf : wrap sb (d + f) = d + f := wrap_of_inRange (hdf.resolve_left (by simp [h3]))
      have e3 : e - (d + f) / 2 + (d + f) / 2 = e := by omega
      rw [wdf, e3, we]

/-- the forward triple at sample `i` -/
def rctFwdAt (rctType : Nat) (x y z : Chan) (i : Nat) : Int × Int × Int :=
  rctFwdT (rctType % 7) (rctFwdPermute (rctType / 7) (x.data.getD i 0, y.data.getD i 0, z.data.getD i 0))

theorem rctForward_eq (rctType : Nat) (x y z : Chan) :
    rctForward rctType x y z =
      ({ x with data := ((List.range x.data.size).map fun i => (rctFwdAt rctType x y z i).1).toArray },
       { y with data := ((List.range x.data.size).map fun i => (rctFwdAt rctType x y z i).2.1).toArray },
       { z with data := ((List.range x.data.size).map fun i => (rctFwdAt rctType x y z i).2.2).toArray }) := by
  unfold rctForward
  simp only [List.map_map]
  rfl

theorem getD_map_range (n i : Nat) (f : Nat → Int) (hi : i < n) :
    ((List.range n).map f).toArray.getD i 0 = f i := by
  simp [Array.getD, hi]

theorem toArray_map_range_eq (a : Array Int) (n : Nat) (f : Nat → Int) (hn : a.size = n)
    (hf : ∀ i, i < n → f i = a.getD i 0) : ((List.range n).map f).toArray = a := by
  apply Array.ext
  · simp [hn]
  · intro i h1 h2
    simp at h1
    simp [hf i h1, Array.getD, h2]

theorem rctInverse_rctForward (sb : SBits) (t : Nat) (x y z : Chan)
    (h : rctChanOk sb t x y z = true) :
    rctInverse sb t (rctForward t x y z).1 (rctForward t x y z).2.1 (rctForward t x y z).2.2
      = (x, y, z) := by
  simp only [rctChanOk, rctRangeOk, Bool.and_eq_true, beq_iff_eq, List.all_eq_true, List.mem_range] at h
  obtain ⟨⟨hy, hz⟩, hall⟩ := h
  rw [rctForward_eq]
  unfold rctInverse
  simp only [List.size_toArray, List.length_map, List.length_range, List.map_map]
  have key : ∀ i, i < x.data.size →
      rctInvPermute (t / 7) (rctInvSample sb (t % 7)
        (((List.range x.data.size).map fun i => (rctFwdAt t x y z i).1).toArray.getD i 0)
        (((List.range x.data.size).map fun i => (rctFwdAt t x y z i).2.1).toArray.getD i 0)
        (((List.range x.data.size).map fun i => (rctFwdAt t x y z i).2.2).toArray.getD i 0))
      = (x.data.getD i 0, y.data.getD i 0, z.data.getD i 0) := by
    intro i hi
    rw [getD_map_range _ _ _ hi, getD_map_range _ _ _ hi, getD_map_range _ _ _ hi]
    have := rct_sample_inv_wrap sb (t % 7) _ (hall i hi)
    unfold rctInvT at this
    unfold rctFwdAt rctInvSample
    rw [this, rct_permute_inv]
  refine Prod.ext ?_ (Prod.ext ?_ ?_)
  · show ({ x with data := _ } : Chan) = x
    congr 1
    apply toArray_map_range_eq _ _ _ rfl
    intro i hi
    simp only [Function.comp, key i hi]
  · show ({ y with data := _ } : Chan) = y
    congr 1
    apply toArray_map_range_eq _ _ _ hy.symm
    intro i hi
    simp only [Function.comp, key i hi]
  · show ({ z with data := _ } : Chan) = z
    congr 1
    apply toArray_map_range_eq _ _ _ hz.symm
    intro i hi
    simp only [Function.comp, key i hi]

theorem set3_getElem? {α} (l : List α) (b : Nat) (a bb c : α) (hb : b + 2 < l.length) :
    (((l.set b a).set (b + 1) bb).set (b + 2) c)[b]? = some a ∧
    (((l.set b a).set (b + 1) bb).set (b + 2) c)[b + 1]? = some bb ∧
    (((l.set b a).set (b + 1) bb).set (b + 2) c)[b + 2]? = some c := by
  refine ⟨?_, ?_, ?_⟩ <;> grind

theorem set3_set3 {α} (l : List α) (b : Nat) (a bb c x y z : α)
    (hx : l[b]? = some x) (hy : l[b + 1]? = some y) (hz : l[b + 2]? = some z) :
    (((((l.set b a).set (b + 1) bb).set (b + 2) c).set b x).set (b + 1) y).set (b + 2) z = l := by
  apply List.ext_getElem?
  intro i
  grind

theorem inverseOne_forwardOne_rct (sb : SBits) (bitDepth : Nat) (wp : Wp) (chans coded : List Chan)
    (pal : Option Chan) (b t : Nat) (hok : stepOk sb chans (.rct b t) = true)
    (h : forwardOne sb chans pal (.rct b t) = some coded) :
    inverseOne sb bitDepth wp coded (.rct b t) = chans := by
  simp only [stepOk, forwardOne] at hok h
  split at h
  · rename_i x y z hx hy hz
    rw [hx, hy, hz] at hok
    simp only at hok
    have hlen : b + 2 < chans.length := by
      have := List.getElem?_eq_some_iff.mp hz
      exact this.1
    have hrt := rctInverse_rctForward sb t x y z hok
    simp only [Option.some.injEq] at h
    subst h
    obtain ⟨g1, g2, g3⟩ := set3_getElem? chans b (rctForward t x y z).1 (rctForward t x y z).2.1
      (rctForward t x y z).2.2 hlen
    simp only [inverseOne, g1, g2, g3, hrt]
    exact set3_set3 chans b _ _ _ x y z hx hy hz
  · simp at h


/-! ## Squeeze: one line -/

/-- inverse squeeze in wrapping arithmetic undoes the exact forward squeeze on an admissible line,
for every tendency function -/
theorem unsqueeze_squeeze_go_wrap (sb : SBits) (T : Int → Int → Int → Int) (line : List Int) (left : Int)
    (h : sqLineOk sb line = true) :
    unsqueezeGo (wrap sb) T (squeezeAvgs line) (squeezeRes T line (squeezeAvgs line) left) left = line := by
  induction line using squeezeAvgs.induct generalizing left with
  | case1 a b rest ih =>
    simp only [sqLineOk, Bool.and_eq_true] at h
    obtain ⟨⟨⟨ha, hb⟩, hab⟩, hrest⟩ := h
    simp only [squeezeAvgs, squeezeRes, unsqueezeGo]
    have hp := squeeze_pair a b
    simp only at hp
    have hd : a - b - T left ((a + b + if a > b then 1 else 0) / 2)
          ((squeezeAvgs rest).headD ((a + b + if a > b then 1 else 0) / 2))
        + T left ((a + b + if a > b then 1 else 0) / 2)
          ((squeezeAvgs rest).headD ((a + b + if a > b then 1 else 0) / 2)) = a - b := by omega
    have e2 : a - (a - b) = b := by omega
    rw [hd, wrap_of_inRange hab, hp.1, wrap_of_inRange ha, e2, wrap_of_inRange hb, ih _ hrest]
  | case2 a => simp [squeezeAvgs, squeezeRes, unsqueezeGo]
  | case3 => simp [squeezeAvgs, unsqueezeGo]

theorem unsqueezeLine_squeezeLine (sb : SBits) (line : List Int) (h : sqLineOk sb line = true) :
    unsqueezeLine sb (squeezeLine sb line).1 (squeezeLine sb line).2 = line := by
  unfold unsqueezeLine unsqueezeLineG squeezeLine squeezeLineG
  exact unsqueeze_squeeze_go_wrap sb _ line _ h

theorem squeezeAvgs_length (line : List Int) : (squeezeAvgs line).length = (line.length + 1) / 2 := by
  induction line using squeezeAvgs.induct with
  | case1 a b rest ih => simp only [squeezeAvgs, List.length_cons, ih]; omega
  | case2 a => simp [squeezeAvgs]
  | case3 => simp [squeezeAvgs]

theorem squeezeRes_length (T : Int → Int → Int → Int) (line : List Int) (left : Int) :
    (squeezeRes T line (squeezeAvgs line) left).length = line.length / 2 := by
  induction line using squeezeAvgs.induct generalizing left with
  | case1 a b rest ih => simp only [squeezeAvgs, squeezeRes, List.length_cons, ih]; omega
  | case2 a => simp [squeezeRes]
  | case3 => simp [squeezeRes]

theorem squeezeLine_fst_length (sb : SBits) (line : List Int) :
    (squeezeLine sb line).1.length = (line.length + 1) / 2 := squeezeAvgs_length line

theorem squeezeLine_snd_length (sb : SBits) (line : List Int) :
    (squeezeLine sb line).2.length = line.length / 2 := squeezeRes_length _ line _


/-! ## grids: rows, columns -/

theorem map_getD_range (l : List Int) (n : Nat) (hn : l.length = n) :
    (List.range n).map (fun i => l.getD i 0) = l := by
  apply List.ext_getElem
  · simp [hn]
  · intro i h1 h2
    simp at h1
    simp [h2]

theorem map_arr_getD_range (a : Array Int) (n : Nat) (hn : a.size = n) :
    (List.range n).map (fun i => a.getD i 0) = a.toList := by
  apply List.ext_getElem
  · simp [hn]
  · intro i h1 h2
    simp at h1 h2
    simp [Array.getD, h2]

theorem flatMap_range_rows (w h : Nat) (f : Nat → Int) :
    (List.range h).flatMap (fun y => (List.range w).map fun x => f (y * w + x))
      = (List.range (h * w)).map f := by
  induction h with
  | zero => simp
  | succ h ih =>
    rw [List.range_succ, List.flatMap_append, ih, Nat.succ_mul, List.range_add, List.map_append]
    simp [List.map_map, Function.comp_def]

theorem flatMap_id_getD (rows : List (List Int)) (w : Nat) (hr : ∀ r ∈ rows, r.length = w)
    (x y : Nat) (hx : x < w) :
    (rows.flatMap id).getD (y * w + x) 0 = (rows.getD y []).getD x 0 := by
  induction rows generalizing y with
  | nil => simp
  | cons r rs ih =>
    have hrl : r.length = w := hr r (List.mem_cons_self)
    have hrs : ∀ r ∈ rs, r.length = w := fun r' h' => hr r' (List.mem_cons_of_mem _ h')
    simp only [List.flatMap_cons, id]
    cases y with
    | zero =>
      simp only [Nat.zero_mul, Nat.zero_add, List.getD_cons_zero]
      simp only [List.getD_eq_getElem?_getD]
      rw [List.getElem?_append_left (by omega)]
    | succ y =>
      have := ih hrs y
      simp only [List.getD_cons_succ]
      rw [← this]
      simp only [List.getD_eq_getElem?_getD]
      rw [List.getElem?_append_right (by rw [hrl, Nat.succ_mul]; omega)]
      congr 2
      rw [hrl, Nat.succ_mul]; omega

theorem toArray_getD (l : List Int) (i : Nat) : l.toArray.getD i 0 = l.getD i 0 := by
  by_cases h : i < l.length
  · simp [Array.getD, h]
  · simp [Array.getD, h, List.getD_eq_getElem?_getD]

theorem Chan.get_ofRows (rows : List (List Int)) (w : Nat) (hr : ∀ r ∈ rows, r.length = w)
    (x y : Nat) (hx : x < w) : (Chan.ofRows w rows).get x y = (rows.getD y []).getD x 0 := by
  unfold Chan.ofRows Chan.get
  simp only []
  rw [← flatMap_id_getD rows w hr x y hx, toArray_getD]

theorem Chan.row_ofRows (rows : List (List Int)) (w : Nat) (hr : ∀ r ∈ rows, r.length = w)
    (y : Nat) (hy : y < rows.length) : (Chan.ofRows w rows).row y = rows.getD y [] := by
  unfold Chan.row
  have hw : (Chan.ofRows w rows).w = w := rfl
  rw [hw]
  have hl : (rows.getD y []).length = w := by
    apply hr
    simp [List.getD_eq_getElem?_getD, List.getElem?_eq_getElem hy]
  conv => rhs; rw [← map_getD_range (rows.getD y []) w hl]
  apply List.map_congr_left
  intro x hx
  exact Chan.get_ofRows rows w hr x y (List.mem_range.mp hx)

theorem Chan.ofRows_rows (c : Chan) (h : c.wf = true) :
    Chan.ofRows c.w ((List.range c.h).map c.row) = c := by
  simp only [Chan.wf, beq_iff_eq] at h
  unfold Chan.ofRows
  have hd : (((List.range c.h).map c.row).flatMap id).toArray = c.data := by
    rw [List.flatMap_map]
    simp only [id, Chan.row, Chan.get]
    rw [flatMap_range_rows c.w c.h (fun i => c.data.getD i 0), map_arr_getD_range _ _ (by rw [h, Nat.mul_comm])]
  rw [hd]
  simp

theorem Chan.get_ofFn (w h : Nat) (f : Nat → Nat → Int) (x y : Nat) (hx : x < w) (hy : y < h) :
    (Chan.ofFn w h f).get x y = f x y := by
  unfold Chan.ofFn Chan.get
  have hlt : y * w + x < w * h := by
    have : (y + 1) * w ≤ h * w := Nat.mul_le_mul_right w hy
    rw [Nat.succ_mul, Nat.mul_comm h w] at this
    omega
  have h1 : (y * w + x) % w = x := by
    rw [Nat.add_comm, Nat.add_mul_mod_self_right, Nat.mod_eq_of_lt hx]
  have h2 : (y * w + x) / w = y := by
    rw [Nat.add_comm, Nat.add_mul_div_right _ _ (by omega), Nat.div_eq_of_lt hx, Nat.zero_add]
  simp [Array.getD, hlt, h1, h2]

theorem Chan.col_ofCols (cols : List (List Int)) (h : Nat) (hc : ∀ c ∈ cols, c.length = h)
    (x : Nat) (hx : x < cols.length) : (Chan.ofCols h cols).col x = cols.getD x [] := by
  unfold Chan.col
  have hh : (Chan.ofCols h cols).h = h := rfl
  rw [hh]
  have hl : (cols.getD x []).length = h := by
    apply hc
    simp [List.getD_eq_getElem?_getD, List.getElem?_eq_getElem hx]
  conv => rhs; rw [← map_getD_range (cols.getD x []) h hl]
  apply List.map_congr_left
  intro y hy
  unfold Chan.ofCols
  exact Chan.get_ofFn _ _ _ x y hx (List.mem_range.mp hy)

theorem Chan.ofCols_cols (c : Chan) (h : c.wf = true) :
    Chan.ofCols c.h ((List.range c.w).map c.col) = c := by
  simp only [Chan.wf, beq_iff_eq] at h
  obtain ⟨w, ht, data⟩ := c
  simp only at h
  unfold Chan.ofCols Chan.ofFn
  simp only [List.length_map, List.length_range, Chan.mk.injEq, true_and]
  apply Array.ext
  · simp [h]
  · intro i h1 h2
    simp at h1
    have hw : 0 < w := by
      rcases Nat.eq_zero_or_pos w with h0 | h0
      · rw [h0] at h1; omega
      · exact h0
    have hx : i % w < w := Nat.mod_lt _ hw
    have hy : i / w < ht := by
      apply Nat.div_lt_of_lt_mul
      exact h1
    simp only [Array.getElem_ofFn]
    simp only [List.getD_eq_getElem?_getD, List.getElem?_map, List.getElem?_range hx, Option.map_some,
      Option.getD_some, Chan.col, List.getElem?_range hy, Chan.get]
    have : i / w * w + i % w = i := by
      rw [Nat.mul_comm]; exact Nat.div_add_mod i w
    simp [this, Array.getD, h2]


/-! ## Squeeze: one channel -/

theorem Chan.row_length (c : Chan) (y : Nat) : (c.row y).length = c.w := by simp [Chan.row]
theorem Chan.col_length (c : Chan) (x : Nat) : (c.col x).length = c.h := by simp [Chan.col]

theorem getD_map_range_list {α} (n i : Nat) (f : Nat → α) (d : α) (hi : i < n) :
    ((List.range n).map f).getD i d = f i := by
  simp [List.getD_eq_getElem?_getD, List.getElem?_range hi]

theorem squeezeChan_dims (sb : SBits) (hz : Bool) (c : Chan) :
    (squeezeChan sb hz c).1.w = (if hz then (c.w + 1) / 2 else c.w) ∧
    (squeezeChan sb hz c).1.h = (if hz then c.h else (c.h + 1) / 2) ∧
    (squeezeChan sb hz c).2.w = (if hz then c.w / 2 else c.w) ∧
    (squeezeChan sb hz c).2.h = (if hz then c.h else c.h / 2) := by
  cases hz <;> simp [squeezeChan, Chan.ofRows, Chan.ofCols, Chan.ofFn]

theorem unsqueezeChan_squeezeChan (sb : SBits) (hz : Bool) (c : Chan)
    (h : sqChanOk sb hz c = true) :
    unsqueezeChan sb hz (squeezeChan sb hz c).1 (squeezeChan sb hz c).2 = c := by
  simp only [sqChanOk, sqChanLinesOk, Bool.and_eq_true] at h
  obtain ⟨hwf, hlines⟩ := h
  cases hz with
  | true =>
    simp only [if_true, List.all_eq_true, List.mem_range] at hlines
    simp only [squeezeChan, unsqueezeChan, if_true]
    have hu1 : ∀ r ∈ ((List.range c.h).map fun y => squeezeLine sb (c.row y)).map (·.1),
        r.length = (c.w + 1) / 2 := by
      intro r hr
      simp only [List.map_map, List.mem_map, List.mem_range, Function.comp] at hr
      obtain ⟨y, _, rfl⟩ := hr
      rw [squeezeLine_fst_length, Chan.row_length]
    have hu2 : ∀ r ∈ ((List.range c.h).map fun y => squeezeLine sb (c.row y)).map (·.2),
        r.length = c.w / 2 := by
      intro r hr
      simp only [List.map_map, List.mem_map, List.mem_range, Function.comp] at hr
      obtain ⟨y, _, rfl⟩ := hr
      rw [squeezeLine_snd_length, Chan.row_length]
    have hh : (Chan.ofRows ((c.w + 1) / 2)
        (((List.range c.h).map fun y => squeezeLine sb (c.row y)).map (·.1))).h = c.h := by
      simp [Chan.ofRows]
    have hw1 : (Chan.ofRows ((c.w + 1) / 2)
        (((List.range c.h).map fun y => squeezeLine sb (c.row y)).map (·.1))).w = (c.w + 1) / 2 := rfl
    have hw2 : (Chan.ofRows (c.w / 2)
        (((List.range c.h).map fun y => squeezeLine sb (c.row y)).map (·.2))).w = c.w / 2 := rfl
    rw [hh, hw1, hw2]
    have hrows : ((List.range c.h).map fun y => unsqueezeLine sb
        ((Chan.ofRows ((c.w + 1) / 2)
          (((List.range c.h).map fun y => squeezeLine sb (c.row y)).map (·.1))).row y)
        ((Chan.ofRows (c.w / 2)
          (((List.range c.h).map fun y => squeezeLine sb (c.row y)).map (·.2))).row y))
        = (List.range c.h).map c.row := by
      apply List.map_congr_left
      intro y hy
      have hy' := List.mem_range.mp hy
      rw [Chan.row_ofRows _ _ hu1 y (by simpa using hy'), Chan.row_ofRows _ _ hu2 y (by simpa using hy')]
      rw [List.map_map, List.map_map, getD_map_range_list _ _ _ _ hy', getD_map_range_list _ _ _ _ hy']
      exact unsqueezeLine_squeezeLine sb (c.row y) (hlines y hy')
    rw [hrows]
    have : (c.w + 1) / 2 + c.w / 2 = c.w := by omega
    rw [this]
    exact Chan.ofRows_rows c hwf
  | false =>
    simp only [Bool.false_eq_true, if_false, List.all_eq_true, List.mem_range] at hlines
    simp only [squeezeChan, unsqueezeChan, Bool.false_eq_true, if_false]
    have hu1 : ∀ r ∈ ((List.range c.w).map fun x => squeezeLine sb (c.col x)).map (·.1),
        r.length = (c.h + 1) / 2 := by
      intro r hr
      simp only [List.map_map, List.mem_map, List.mem_range, Function.comp] at hr
      obtain ⟨y, _, rfl⟩ := hr
      rw [squeezeLine_fst_length, Chan.col_length]
    have hu2 : ∀ r ∈ ((List.range c.w).map fun x => squeezeLine sb (c.col x)).map (·.2),
        r.length = c.h / 2 := by
      intro r hr
      simp only [List.map_map, List.mem_map, List.mem_range, Function.comp] at hr
      obtain ⟨y, _, rfl⟩ := hr
      rw [squeezeLine_snd_length, Chan.col_length]
    have hw : (Chan.ofCols ((c.h + 1) / 2)
        (((List.range c.w).map fun x => squeezeLine sb (c.col x)).map (·.1))).w = c.w := by
      simp [Chan.ofCols, Chan.ofFn]
    have hh1 : (Chan.ofCols ((c.h + 1) / 2)
        (((List.range c.w).map fun x => squeezeLine sb (c.col x)).map (·.1))).h = (c.h + 1) / 2 := rfl
    have hh2 : (Chan.ofCols (c.h / 2)
        (((List.range c.w).map fun x => squeezeLine sb (c.col x)).map (·.2))).h = c.h / 2 := rfl
    rw [hw, hh1, hh2]
    have hcols : ((List.range c.w).map fun x => unsqueezeLine sb
        ((Chan.ofCols ((c.h + 1) / 2)
          (((List.range c.w).map fun x => squeezeLine sb (c.col x)).map (·.1))).col x)
        ((Chan.ofCols (c.h / 2)
          (((List.range c.w).map fun x => squeezeLine sb (c.col x)).map (·.2))).col x))
        = (List.range c.w).map c.col := by
      apply List.map_congr_left
      intro x hx
      have hx' := List.mem_range.mp hx
      rw [Chan.col_ofCols _ _ hu1 x (by simpa using hx'), Chan.col_ofCols _ _ hu2 x (by simpa using hx')]
      rw [List.map_map, List.map_map, getD_map_range_list _ _ _ _ hx', getD_map_range_list _ _ _ _ hx']
      exact unsqueezeLine_squeezeLine sb (c.col x) (hlines x hx')
    rw [hcols]
    have : (c.h + 1) / 2 + c.h / 2 = c.h := by omega
    rw [this]
    exact Chan.ofCols_cols c hwf


/-! ## Squeeze: one step on the channel list, the whole transform -/

/-- the `n` channels from `b` on, read by index -/
theorem map_getD_range_eq_take_drop {α β} (l : List α) (d : α) (g : α → β) (b n : Nat)
    (h : b + n ≤ l.length) :
    (List.range n).map (fun i => g (l.getD (b + i) d)) = ((l.drop b).take n).map g := by
  apply List.ext_getElem
  · simp; omega
  · intro i h1 h2
    simp at h1
    simp [List.getD_eq_getElem?_getD, List.getElem?_eq_getElem (show b + i < l.length by omega)]

theorem squeezeFwdStep_eq (sb : SBits) (chans : List Chan) (sp : SqueezeParam)
    (h : sp.beginC + sp.numC ≤ chans.length) :
    squeezeFwdStep sb chans sp =
      if sp.inPlace then
        chans.take sp.beginC ++ ((chans.drop sp.beginC).take sp.numC).map (fun c => (squeezeChan sb sp.horizontal c).1)
          ++ ((chans.drop sp.beginC).take sp.numC).map (fun c => (squeezeChan sb sp.horizontal c).2)
          ++ chans.drop (sp.beginC + sp.numC)
      else
        chans.take sp.beginC ++ ((chans.drop sp.beginC).take sp.numC).map (fun c => (squeezeChan sb sp.horizontal c).1)
          ++ chans.drop (sp.beginC + sp.numC)
          ++ ((chans.drop sp.beginC).take sp.numC).map (fun c => (squeezeChan sb sp.horizontal c).2) := by
  unfold squeezeFwdStep
  simp only [List.map_map]
  have e1 := map_getD_range_eq_take_drop chans default (fun c => (squeezeChan sb sp.horizontal c).1) _ _ h
  have e2 := map_getD_range_eq_take_drop chans default (fun c => (squeezeChan sb sp.horizontal c).2) _ _ h
  simp only [Function.comp_def]
  rw [e1, e2]

theorem take_drop_split {α} (l : List α) (b n : Nat) :
    l.take b ++ (l.drop b).take n ++ l.drop (b + n) = l := by
  rw [List.append_assoc, ← List.drop_drop, List.take_append_drop, List.take_append_drop]

theorem squeezeInvStep_squeezeFwdStep (sb : SBits) (chans : List Chan) (sp : SqueezeParam)
    (h : sqStepOk sb chans sp = true) :
    squeezeInvStep sb (squeezeFwdStep sb chans sp) sp = chans := by
  simp only [sqStepOk, Bool.and_eq_true, decide_eq_true_eq, List.all_eq_true] at h
  obtain ⟨hlen, hall⟩ := h
  rw [squeezeFwdStep_eq sb chans sp hlen]
  generalize hL : chans.take sp.beginC = L
  generalize hM : (chans.drop sp.beginC).take sp.numC = M at hall
  generalize hR : chans.drop (sp.beginC + sp.numC) = R
  have hsplit : chans = L ++ M ++ R := by
    rw [← hL, ← hM, ← hR]; exact (take_drop_split chans _ _).symm
  have hLl : L.length = sp.beginC := by rw [← hL]; simp; omega
  have hMl : M.length = sp.numC := by rw [← hM]; simp; omega
  have hmerge : ∀ (K Rs : List Chan),
      K = M.map (fun c => (squeezeChan sb sp.horizontal c).1) →
      Rs = M.map (fun c => (squeezeChan sb sp.horizontal c).2) →
      (List.range sp.numC).map (fun i => unsqueezeChan sb sp.horizontal
        ((L ++ K ++ R).getD (sp.beginC + i) default) (Rs.getD i default)) = M := by
    intro K Rs hK hRs
    apply List.ext_getElem
    · simp [hMl]
    · intro i h1 h2
      simp at h1
      have hi : i < M.length := by omega
      have g1 : (L ++ K ++ R).getD (sp.beginC + i) default = (squeezeChan sb sp.horizontal M[i]).1 := by
        rw [List.getD_eq_getElem?_getD, List.append_assoc,
          List.getElem?_append_right (by omega), hLl, Nat.add_sub_cancel_left,
          List.getElem?_append_left (by rw [hK]; simpa using hi), hK]
        simp [hi]
      have g2 : Rs.getD i default = (squeezeChan sb sp.horizontal M[i]).2 := by
        rw [hRs, List.getD_eq_getElem?_getD]
        simp [hi]
      simp only [List.getElem_map, List.getElem_range, g1, g2]
      exact unsqueezeChan_squeezeChan sb sp.horizontal M[i] (hall _ (List.getElem_mem hi))
  generalize hK : M.map (fun c => (squeezeChan sb sp.horizontal c).1) = K
  generalize hRs : M.map (fun c => (squeezeChan sb sp.horizontal c).2) = Rs
  have hm := hmerge K Rs hK.symm hRs.symm
  have hKl : K.length = sp.numC := by rw [← hK]; simpa using hMl
  have hRsl : Rs.length = sp.numC := by rw [← hRs]; simpa using hMl
  have hLK : (L ++ K).length = sp.beginC + sp.numC := by simp [hLl, hKl]
  unfold squeezeInvStep
  cases hip : sp.inPlace with
  | true =>
    simp only [if_true]
    have d1 : (L ++ K ++ Rs ++ R).drop (sp.beginC + sp.numC) = Rs ++ R := by
      rw [List.append_assoc (L ++ K)]; exact List.drop_left' hLK
    have t1 : (L ++ K ++ Rs ++ R).take (sp.beginC + sp.numC) = L ++ K := by
      rw [List.append_assoc (L ++ K)]; exact List.take_left' hLK
    have d2 : (L ++ K ++ Rs ++ R).drop (sp.beginC + sp.numC + sp.numC) = R :=
      List.drop_left' (by simp [hLl, hKl, hRsl]; omega)
    have t2 : (Rs ++ R).take sp.numC = Rs := List.take_left' hRsl
    have t3 : (L ++ K ++ R).take sp.beginC = L := by
      rw [List.append_assoc]; exact List.take_left' hLl
    have d3 : (L ++ K ++ R).drop (sp.beginC + sp.numC) = R := List.drop_left' hLK
    rw [d1, t1, d2, t2, t3, d3, hm, hsplit]
  | false =>
    simp only [Bool.false_eq_true, if_false]
    have hlen2 : (L ++ K ++ R ++ Rs).length - sp.numC = (L ++ K ++ R).length := by
      simp [hRsl]; omega
    have d1 : (L ++ K ++ R ++ Rs).drop ((L ++ K ++ R ++ Rs).length - sp.numC) = Rs := by
      rw [hlen2]; exact List.drop_left' rfl
    have t1 : (L ++ K ++ R ++ Rs).take ((L ++ K ++ R ++ Rs).length - sp.numC) = L ++ K ++ R := by
      rw [hlen2]; exact List.take_left' rfl
    have t3 : (L ++ K ++ R).take sp.beginC = L := by
      rw [List.append_assoc]; exact List.take_left' hLl
    have d3 : (L ++ K ++ R).drop (sp.beginC + sp.numC) = R := List.drop_left' hLK
    rw [d1, t1, t3, d3, hm, hsplit]

theorem forwardOne_squeeze_eq_fold (sb : SBits) (chans : List Chan) (pal : Option Chan)
    (ps : List SqueezeParam) :
    forwardOne sb chans pal (.squeeze ps) = some (ps.foldl (squeezeFwdStep sb) chans) := rfl

theorem squeeze_fold_inv_fwd (sb : SBits) (ps : List SqueezeParam) (chans : List Chan)
    (h : sqStepsOk sb ps chans = true) :
    ps.reverse.foldl (squeezeInvStep sb) (ps.foldl (squeezeFwdStep sb) chans) = chans := by
  induction ps generalizing chans with
  | nil => rfl
  | cons sp ps ih =>
    simp only [sqStepsOk, Bool.and_eq_true] at h
    simp only [List.foldl_cons, List.reverse_cons, List.foldl_append, List.foldl_nil]
    rw [ih _ h.2, squeezeInvStep_squeezeFwdStep sb chans sp h.1]

theorem inverseOne_forwardOne_squeeze (sb : SBits) (bitDepth : Nat) (wp : Wp) (chans coded : List Chan)
    (pal : Option Chan) (ps : List SqueezeParam) (hok : stepOk sb chans (.squeeze ps) = true)
    (h : forwardOne sb chans pal (.squeeze ps) = some coded) :
    inverseOne sb bitDepth wp coded (.squeeze ps) = chans := by
  rw [forwardOne_squeeze_eq_fold] at h
  simp only [Option.some.injEq] at h
  subst h
  rw [inverseOne_squeeze_eq_fold]
  exact squeeze_fold_inv_fwd sb ps chans hok


/-! ## Palette -/

/-- the encoder's search for one pixel (the `find` of `forwardOne`) -/
def palFind (pal : Chan) (srcs : List Chan) (n nbc nbd x y : Nat) : Option Nat :=
  (List.range nbc).find? fun k =>
    decide (nbd ≤ k) && (List.range n).all fun c => (srcs.getD c default).get x y == pal.get k c

theorem palFind_some {pal : Chan} {srcs : List Chan} {n nbc nbd x y k : Nat}
    (h : palFind pal srcs n nbc nbd x y = some k) :
    nbd ≤ k ∧ k < nbc ∧ ∀ c, c < n → (srcs.getD c default).get x y = pal.get k c := by
  unfold palFind at h
  have h1 := List.find?_some h
  have h2 := List.mem_of_find?_eq_some h
  simp only [Bool.and_eq_true, decide_eq_true_eq, List.all_eq_true, List.mem_range, beq_iff_eq] at h1
  exact ⟨h1.1, List.mem_range.mp h2, h1.2⟩

/-- an explicit, non-delta palette entry: the value is the table entry, unchanged by the sample width -/
theorem paletteValue_explicit (sb : SBits) (pal : Chan) (nbc bitDepth k c : Nat) (hk : k < nbc) :
    paletteValue sb pal nbc bitDepth (k : Int) c = pal.get k c := by
  unfold paletteValue
  have h1 : (0 : Int) ≤ (k : Int) ∧ (k : Int) < (nbc : Int) := ⟨by omega, by omega⟩
  simp only [h1, and_self, if_true, Int.toNat_natCast]

theorem Chan.ofFn_get (c : Chan) (h : c.wf = true) : Chan.ofFn c.w c.h (fun x y => c.get x y) = c := by
  simp only [Chan.wf, beq_iff_eq] at h
  obtain ⟨w, ht, data⟩ := c
  simp only at h
  unfold Chan.ofFn
  simp only [Chan.mk.injEq, true_and]
  apply Array.ext
  · simp [h]
  · intro i h1 h2
    simp at h1
    simp only [Array.getElem_ofFn, Chan.get]
    have : i / w * w + i % w = i := by
      rw [Nat.mul_comm]; exact Nat.div_add_mod i w
    simp [this, Array.getD, h2]

theorem Chan.get_div_mod (c : Chan) (i : Nat) : c.get (i % c.w) (i / c.w) = c.data.getD i 0 := by
  unfold Chan.get
  have : i / c.w * c.w + i % c.w = i := by
    rw [Nat.mul_comm]; exact Nat.div_add_mod i c.w
  rw [this]

/-- the index channel the encoder writes -/
def palIdxChan (w h : Nat) (idxs : List (Option Nat)) : Chan :=
  { w := w, h := h, data := (idxs.map fun o => ((o.getD 0 : Nat) : Int)).toArray }

/-- `forwardOne` for a palette transform, with the search named -/
theorem forwardOne_palette_eq (sb : SBits) (chans : List Chan) (pal c0 : Chan) (b n nbc nbd dp : Nat)
    (hc0 : chans[b]? = some c0) :
    forwardOne sb chans (some pal) (.palette b n nbc nbd dp) =
      if ((List.range (c0.w * c0.h)).map fun i =>
            palFind pal ((chans.drop b).take n) n nbc nbd (i % c0.w) (i / c0.w)).all Option.isSome then
        some (pal :: (chans.take b ++
          [palIdxChan c0.w c0.h ((List.range (c0.w * c0.h)).map fun i =>
                palFind pal ((chans.drop b).take n) n nbc nbd (i % c0.w) (i / c0.w))] ++ chans.drop (b + n)))
      else none := by
  simp only [forwardOne, hc0]
  rfl

theorem inverseOne_forwardOne_palette (sb : SBits) (bitDepth : Nat) (wp : Wp) (chans coded : List Chan)
    (pal : Option Chan) (b n nbc nbd dp : Nat) (hok : stepOk sb chans (.palette b n nbc nbd dp) = true)
    (h : forwardOne sb chans pal (.palette b n nbc nbd dp) = some coded) :
    inverseOne sb bitDepth wp coded (.palette b n nbc nbd dp) = chans := by
  simp only [stepOk, palChansOk, Bool.and_eq_true, decide_eq_true_eq] at hok
  obtain ⟨hlen, hok⟩ := hok
  cases hc0 : chans[b]? with
  | none => rw [hc0] at hok; simp at hok
  | some c0 =>
    rw [hc0] at hok
    simp only [List.all_eq_true, Bool.and_eq_true, Chan.sameDims, beq_iff_eq] at hok
    cases pal with
    | none => simp [forwardOne] at h
    | some pal =>
      rw [forwardOne_palette_eq sb chans pal c0 b n nbc nbd dp hc0] at h
      split at h
      · rename_i hsome
        simp only [Option.some.injEq] at h
        subst h
        generalize hsrcs : (chans.drop b).take n = srcs at hsome hok
        generalize hidxs : ((List.range (c0.w * c0.h)).map fun i =>
          palFind pal srcs n nbc nbd (i % c0.w) (i / c0.w)) = idxs at hsome
        have hidl : idxs.length = c0.w * c0.h := by rw [← hidxs]; simp
        have hsl : srcs.length = n := by rw [← hsrcs]; simp; omega
        have hbl : (chans.take b).length = b := by simp; omega
        -- per-pixel facts
        have hpix : ∀ i, i < c0.w * c0.h → ∃ k : Nat,
            ((palIdxChan c0.w c0.h idxs).data.getD i 0 = (k : Int)) ∧ nbd ≤ k ∧ k < nbc ∧
              ∀ c, c < n → (srcs.getD c default).get (i % c0.w) (i / c0.w) = pal.get k c := by
          intro i hi
          have hi' : i < idxs.length := by omega
          have hs := List.all_eq_true.mp hsome idxs[i] (List.getElem_mem hi')
          obtain ⟨k, hk⟩ := Option.isSome_iff_exists.mp hs
          have e : idxs[i]? = some (palFind pal srcs n nbc nbd (i % c0.w) (i / c0.w)) := by
            rw [← hidxs]; simp [List.getElem?_range hi]
          have hk' : palFind pal srcs n nbc nbd (i % c0.w) (i / c0.w) = some k := by
            rw [List.getElem?_eq_getElem hi', hk] at e
            exact (Option.some.inj e).symm
          refine ⟨k, ?_, palFind_some hk'⟩
          unfold palIdxChan
          rw [toArray_getD]
          simp [List.getD_eq_getElem?_getD, hi', hk]
        simp only [inverseOne]
        have hget : (chans.take b ++ [palIdxChan c0.w c0.h idxs] ++ chans.drop (b + n))[b]?
            = some (palIdxChan c0.w c0.h idxs) := by
          rw [List.append_assoc, List.getElem?_append_right (by omega), hbl]
          simp
        rw [hget]
        simp only []
        have hw : (palIdxChan c0.w c0.h idxs).w = c0.w := rfl
        have hh : (palIdxChan c0.w c0.h idxs).h = c0.h := rfl
        generalize palIdxChan c0.w c0.h idxs = idx at hpix hw hh ⊢
        rw [hw, hh]
        have hpix' : ∀ i, i < c0.w * c0.h → ∃ k : Nat,
            (idx.get (i % c0.w) (i / c0.w) = (k : Int)) ∧ nbd ≤ k ∧ k < nbc ∧
              ∀ c, c < n → (srcs.getD c default).get (i % c0.w) (i / c0.w) = pal.get k c := by
          intro i hi
          obtain ⟨k, h1, h2⟩ := hpix i hi
          refine ⟨k, ?_, h2⟩
          rw [← hw, Chan.get_div_mod, h1]
        have hany : ((List.range (c0.w * c0.h)).any fun i =>
            decide (idx.get (i % c0.w) (i / c0.w) < (nbd : Int))) = false := by
          rw [List.any_eq_false]
          intro i hi
          obtain ⟨k, h1, h2, _⟩ := hpix' i (List.mem_range.mp hi)
          rw [h1]
          simp only [decide_eq_true_eq]
          omega
        rw [hany]
        simp only [Bool.false_eq_true, if_false]
        have houts : (List.range n).map (fun c => Chan.ofFn c0.w c0.h fun x y =>
            paletteValue sb pal nbc bitDepth (idx.get x y) c) = srcs := by
          apply List.ext_getElem
          · simp [hsl]
          · intro c h1 h2
            simp at h1
            have hm := hok srcs[c] (List.getElem_mem h2)
            simp only [List.getElem_map, List.getElem_range]
            have hcg : srcs.getD c default = srcs[c] := by
              simp [List.getD_eq_getElem?_getD, h2]
            have : (Chan.ofFn c0.w c0.h fun x y => paletteValue sb pal nbc bitDepth (idx.get x y) c)
                = Chan.ofFn c0.w c0.h fun x y => srcs[c].get x y := by
              apply Chan.ofFn_congr
              intro i hi
              obtain ⟨k, e1, _, e3, e4⟩ := hpix' i hi
              rw [e1, paletteValue_explicit sb pal nbc bitDepth k c e3, ← e4 c h1, hcg]
            rw [this, ← hm.2.1, ← hm.2.2]
            exact Chan.ofFn_get _ hm.1
        rw [houts]
        have t1 : (chans.take b ++ [idx] ++ chans.drop (b + n)).take b = chans.take b := by
          rw [List.append_assoc]; exact List.take_left' hbl
        have d1 : (chans.take b ++ [idx] ++ chans.drop (b + n)).drop (b + 1) = chans.drop (b + n) :=
          List.drop_left' (by simp [hbl])
        rw [t1, d1, ← hsrcs]
        exact take_drop_split chans b n
      · simp at h


/-! ## one transform, the chain -/

theorem inverseOne_forwardOne (sb : SBits) (bitDepth : Nat) (wp : Wp) (chans coded : List Chan)
    (pal : Option Chan) (t : Transform) (hok : stepOk sb chans t = true)
    (h : forwardOne sb chans pal t = some coded) :
    inverseOne sb bitDepth wp coded t = chans := by
  cases t with
  | rct b ty => exact inverseOne_forwardOne_rct sb bitDepth wp chans coded pal b ty hok h
  | palette b n nbc nbd dp => exact inverseOne_forwardOne_palette sb bitDepth wp chans coded pal b n nbc nbd dp hok h
  | squeeze ps => exact inverseOne_forwardOne_squeeze sb bitDepth wp chans coded pal ps hok h

theorem inverseAll_cons (sb : SBits) (bitDepth : Nat) (wp : Wp) (t : Transform) (ts : List Transform)
    (coded : List Chan) :
    inverseAll sb bitDepth wp (t :: ts) coded
      = inverseOne sb bitDepth wp (inverseAll sb bitDepth wp ts coded) t := by
  simp [inverseAll, List.foldl_append]

/-- the palette table handed to transform `t` and the tables left for the rest (the `match` of
`forwardAll`) -/
def palSplit : Transform → List Chan → Option Chan × List Chan
  | .palette .., p :: ps => (some p, ps)
  | _, ps => (none, ps)

theorem forwardAll_cons (sb : SBits) (t : Transform) (ts : List Transform) (pals chans : List Chan) :
    forwardAll sb (t :: ts) pals chans =
      match forwardOne sb chans (palSplit t pals).1 t with
      | none => none
      | some chans' => forwardAll sb ts (palSplit t pals).2 chans' := by
  cases t <;> cases pals <;> rfl

theorem chainOk_cons (sb : SBits) (t : Transform) (ts : List Transform) (pals chans : List Chan) :
    chainOk sb (t :: ts) pals chans =
      (stepOk sb chans t &&
        match forwardOne sb chans (palSplit t pals).1 t with
        | none => true
        | some chans' => chainOk sb ts (palSplit t pals).2 chans') := by
  cases t <;> cases pals <;> rfl

theorem inverseAll_forwardAll (sb : SBits) (bitDepth : Nat) (wp : Wp) (ts : List Transform)
    (pals chans coded : List Chan) (hok : chainOk sb ts pals chans = true)
    (h : forwardAll sb ts pals chans = some coded) :
    inverseAll sb bitDepth wp ts coded = chans := by
  induction ts generalizing pals chans with
  | nil =>
    simp only [forwardAll, Option.some.injEq] at h
    subst h
    rfl
  | cons t ts ih =>
    rw [forwardAll_cons] at h
    rw [chainOk_cons, Bool.and_eq_true] at hok
    cases hf : forwardOne sb chans (palSplit t pals).1 t with
    | none => rw [hf] at h; simp at h
    | some chans' =>
      rw [hf] at h hok
      simp only at h hok
      rw [inverseAll_cons, ih _ _ hok.2 h]
      exact inverseOne_forwardOne sb bitDepth wp chans chans' _ t hok.1 hf


/-! ## channel bookkeeping: dimensions and well-formedness of the forward transforms' output -/

theorem flatMap_id_length (rows : List (List Int)) (w : Nat) (hr : ∀ r ∈ rows, r.length = w) :
    (rows.flatMap id).length = rows.length * w := by
  induction rows with
  | nil => simp
  | cons r rs ih =>
    simp only [List.flatMap_cons, id, List.length_append, List.length_cons]
    rw [ih (fun r' h' => hr r' (List.mem_cons_of_mem _ h')), hr r List.mem_cons_self, Nat.succ_mul]
    omega

theorem Chan.ofRows_wf (rows : List (List Int)) (w : Nat) (hr : ∀ r ∈ rows, r.length = w) :
    (Chan.ofRows w rows).wf = true := by
  simp only [Chan.wf, Chan.ofRows, List.size_toArray, beq_iff_eq]
  rw [flatMap_id_length rows w hr, Nat.mul_comm]

theorem Chan.ofFn_wf (w h : Nat) (f : Nat → Nat → Int) : (Chan.ofFn w h f).wf = true := by
  simp [Chan.wf, Chan.ofFn]

theorem squeezeChan_wf (sb : SBits) (hz : Bool) (c : Chan) :
    (squeezeChan sb hz c).1.wf = true ∧ (squeezeChan sb hz c).2.wf = true := by
  cases hz with
  | true =>
    simp only [squeezeChan, if_true]
    constructor
    · apply Chan.ofRows_wf
      intro r hr
      simp only [List.map_map, List.mem_map, List.mem_range, Function.comp] at hr
      obtain ⟨y, _, rfl⟩ := hr
      rw [squeezeLine_fst_length, Chan.row_length]
    · apply Chan.ofRows_wf
      intro r hr
      simp only [List.map_map, List.mem_map, List.mem_range, Function.comp] at hr
      obtain ⟨y, _, rfl⟩ := hr
      rw [squeezeLine_snd_length, Chan.row_length]
  | false =>
    simp only [squeezeChan, Bool.false_eq_true, if_false, Chan.ofCols]
    exact ⟨Chan.ofFn_wf _ _ _, Chan.ofFn_wf _ _ _⟩

/-- dimensions of the averages / residuals of a squeeze step (`Squeeze::transform_channel_info`) -/
def sqKeptDims (hz : Bool) (d : Nat × Nat) : Nat × Nat := if hz then ((d.1 + 1) / 2, d.2) else (d.1, (d.2 + 1) / 2)
def sqResDims (hz : Bool) (d : Nat × Nat) : Nat × Nat := if hz then (d.1 / 2, d.2) else (d.1, d.2 / 2)

theorem squeezeChan_dims' (sb : SBits) (hz : Bool) (c : Chan) :
    (squeezeChan sb hz c).1.dims = sqKeptDims hz c.dims ∧ (squeezeChan sb hz c).2.dims = sqResDims hz c.dims := by
  have := squeezeChan_dims sb hz c
  cases hz <;> simp_all [Chan.dims, sqKeptDims, sqResDims]

theorem rctForward_dims (t : Nat) (x y z : Chan) :
    (rctForward t x y z).1.dims = x.dims ∧ (rctForward t x y z).2.1.dims = y.dims ∧
      (rctForward t x y z).2.2.dims = z.dims := by
  rw [rctForward_eq]
  exact ⟨rfl, rfl, rfl⟩

theorem rctForward_wf (t : Nat) (x y z : Chan) (hx : x.wf = true)
    (hxy : x.dims = y.dims) (hxz : x.dims = z.dims) :
    (rctForward t x y z).1.wf = true ∧ (rctForward t x y z).2.1.wf = true ∧
      (rctForward t x y z).2.2.wf = true := by
  rw [rctForward_eq]
  simp only [Chan.wf, beq_iff_eq, Chan.dims, Prod.mk.injEq] at *
  simp only [List.size_toArray, List.length_map, List.length_range]
  refine ⟨hx, ?_, ?_⟩
  · rw [hx, hxy.1, hxy.2]
  · rw [hx, hxz.1, hxz.2]

theorem dimsMatch_iff (chans : List Chan) (infos : List ChanInfo) :
    dimsMatch chans infos = true ↔ chans.map Chan.dims = infos.map ChanInfo.dims := by
  simp [dimsMatch]

theorem dims_getElem? {chans : List Chan} {infos : List ChanInfo}
    (hd : chans.map Chan.dims = infos.map ChanInfo.dims) {i : Nat} {c : Chan} (hc : chans[i]? = some c) :
    ∃ inf, infos[i]? = some inf ∧ inf.dims = c.dims := by
  have := congrArg (·[i]?) hd
  simp only [List.getElem?_map, hc, Option.map_some] at this
  cases hi : infos[i]? with
  | none => rw [hi] at this; simp at this
  | some inf =>
    rw [hi] at this
    simp only [Option.map_some, Option.some.injEq] at this
    exact ⟨inf, rfl, this.symm⟩

theorem allWf_set3 (l : List Chan) (b : Nat) (a bb c : Chan) (hl : allWf l = true)
    (ha : a.wf = true) (hb : bb.wf = true) (hc : c.wf = true) :
    allWf (((l.set b a).set (b + 1) bb).set (b + 2) c) = true := by
  simp only [allWf, List.all_eq_true] at hl ⊢
  intro v hv
  rcases List.mem_or_eq_of_mem_set hv with hv | rfl
  · rcases List.mem_or_eq_of_mem_set hv with hv | rfl
    · rcases List.mem_or_eq_of_mem_set hv with hv | rfl
      · exact hl v hv
      · exact ha
    · exact hb
  · exact hc

theorem set3_map_dims (l : List Chan) (b : Nat) (a bb c x y z : Chan)
    (hx : l[b]? = some x) (hy : l[b + 1]? = some y) (hz : l[b + 2]? = some z)
    (ha : a.dims = x.dims) (hb : bb.dims = y.dims) (hc : c.dims = z.dims) :
    (((l.set b a).set (b + 1) bb).set (b + 2) c).map Chan.dims = l.map Chan.dims := by
  apply List.ext_getElem?
  intro i
  simp only [List.getElem?_map, List.getElem?_set]
  grind

theorem forwardOne_bookkeeping_rct (sb : SBits) (cl cl' : ChanList) (b ty : Nat) (t' : Transform)
    (chans coded : List Chan) (pal : Option Chan)
    (hti : transformInfo cl (.rct b ty) = .ok (cl', t'))
    (hd : dimsMatch chans cl.info = true) (hwf : allWf chans = true)
    (hf : forwardOne sb chans pal t' = some coded) :
    dimsMatch coded cl'.info = true ∧ allWf coded = true := by
  rw [dimsMatch_iff] at hd ⊢
  simp only [transformInfo] at hti
  split at hti
  · simp at hti
  · split at hti
    · simp at hti
    · rename_i hlen c0 hc0
      split at hti
      · rename_i hall
        simp only [Except.ok.injEq, Prod.mk.injEq] at hti
        obtain ⟨rfl, rfl⟩ := hti
        simp only [forwardOne] at hf
        split at hf
        · rename_i x y z hx hy hz
          simp only [Option.some.injEq] at hf
          subst hf
          have hdx := rctForward_dims ty x y z
          refine ⟨by rw [set3_map_dims chans b _ _ _ x y z hx hy hz hdx.1 hdx.2.1 hdx.2.2]; exact hd, ?_⟩
          obtain ⟨ix, hix, dx⟩ := dims_getElem? hd hx
          obtain ⟨iy, hiy, dy⟩ := dims_getElem? hd hy
          obtain ⟨iz, hiz, dz⟩ := dims_getElem? hd hz
          rw [hc0] at hix
          obtain rfl := Option.some.inj hix
          simp only [List.all_eq_true, Bool.decide_and, Bool.and_eq_true, decide_eq_true_eq, beq_iff_eq] at hall
          have my : iy ∈ (cl.info.drop (b + 1)).take 2 :=
            List.mem_of_getElem? (i := 0) (by simp [hiy])
          have mz : iz ∈ (cl.info.drop (b + 1)).take 2 :=
            List.mem_of_getElem? (i := 1) (by simp [Nat.add_assoc, hiz])
          have ey := hall iy my
          have ez := hall iz mz
          have hxy : x.dims = y.dims := by
            rw [← dx, ← dy]; simp [ChanInfo.dims, ey.1, ey.2]
          have hxz : x.dims = z.dims := by
            rw [← dx, ← dz]; simp [ChanInfo.dims, ez.1, ez.2]
          have hwf' := List.all_eq_true.mp hwf
          have hxw : x.wf = true := hwf' x (List.mem_of_getElem? hx)
          obtain ⟨w1, w2, w3⟩ := rctForward_wf ty x y z hxw hxy hxz
          exact allWf_set3 chans b _ _ _ hwf w1 w2 w3
        · simp at hf
      · simp at hti


theorem dims_length {chans : List Chan} {infos : List ChanInfo}
    (hd : chans.map Chan.dims = infos.map ChanInfo.dims) : chans.length = infos.length := by
  have := congrArg List.length hd
  simpa using this

/-- what an accepted palette transform says about the channel list -/
theorem transformInfo_palette_ok {cl cl' : ChanList} {b n nbc nbd dp : Nat} {t' : Transform}
    (hti : transformInfo cl (.palette b n nbc nbd dp) = .ok (cl', t')) :
    t' = .palette b n nbc nbd dp ∧ b + n ≤ cl.info.length ∧
    ∃ c0, cl.info[b]? = some c0 ∧
      (∀ c ∈ (cl.info.drop (b + 1)).take (n - 1), c.dims = c0.dims) ∧
      cl'.info = { w := nbc, h := n, hshift := -1, vshift := -1 } ::
        (cl.info.take (b + 1) ++ cl.info.drop (b + n)) := by
  simp only [transformInfo] at hti
  split at hti
  · simp at hti
  · rename_i hlen
    split at hti
    · simp at hti
    · split at hti
      · simp at hti
      · rename_i c0 hc0
        split at hti
        · rename_i hall
          simp only [Except.ok.injEq, Prod.mk.injEq] at hti
          obtain ⟨rfl, rfl⟩ := hti
          refine ⟨rfl, by omega, c0, hc0, ?_, rfl⟩
          intro c hc
          have := List.all_eq_true.mp hall c hc
          simp only [Bool.decide_and, Bool.and_eq_true, decide_eq_true_eq, beq_iff_eq] at this
          simp [ChanInfo.dims, this.1, this.2]
        · simp at hti

theorem mem_take_drop {α} {l : List α} {b n : Nat} {c : α} (h : c ∈ (l.drop b).take n) :
    ∃ j, j < n ∧ l[b + j]? = some c := by
  obtain ⟨j, hj⟩ := List.mem_iff_getElem?.mp h
  rw [List.getElem?_take] at hj
  split at hj
  · rename_i hlt
    rw [List.getElem?_drop] at hj
    exact ⟨j, hlt, hj⟩
  · simp at hj

/-- an accepted palette transform on matching, well-formed channels satisfies `stepOk`: the
palette round trip needs no hypothesis beyond what the pipeline guarantees -/
theorem palette_stepOk_of_info (sb : SBits) {cl cl' : ChanList} {b n nbc nbd dp : Nat} {t' : Transform}
    {chans : List Chan} (hti : transformInfo cl (.palette b n nbc nbd dp) = .ok (cl', t'))
    (hd : dimsMatch chans cl.info = true) (hwf : allWf chans = true) :
    stepOk sb chans (.palette b n nbc nbd dp) = true := by
  rw [dimsMatch_iff] at hd
  obtain ⟨_, hlen, c0, hc0, hall, _⟩ := transformInfo_palette_ok hti
  have hl := dims_length hd
  simp only [stepOk, palChansOk, Bool.and_eq_true, decide_eq_true_eq]
  refine ⟨by omega, ?_⟩
  have hb : b < chans.length := by
    have := (List.getElem?_eq_some_iff.mp hc0).1
    omega
  rw [List.getElem?_eq_getElem hb]
  simp only [List.all_eq_true, Bool.and_eq_true]
  obtain ⟨i0, hi0, d0⟩ := dims_getElem? hd (List.getElem?_eq_getElem hb)
  rw [hc0] at hi0
  obtain rfl := Option.some.inj hi0
  intro c hc
  obtain ⟨j, hj, hcj⟩ := mem_take_drop hc
  refine ⟨List.all_eq_true.mp hwf c (List.mem_of_getElem? hcj), ?_⟩
  obtain ⟨ic, hic, dc⟩ := dims_getElem? hd hcj
  have : c.dims = chans[b].dims := by
    rw [← dc, ← d0]
    cases j with
    | zero =>
      rw [Nat.add_zero, hc0] at hic
      rw [Option.some.inj hic]
    | succ j =>
      apply hall
      apply List.mem_of_getElem? (i := j)
      rw [List.getElem?_take, if_pos (by omega), List.getElem?_drop, ← hic]
      congr 1
      omega
  simp only [Chan.dims, Prod.mk.injEq] at this
  simp [Chan.sameDims, this.1, this.2]

theorem forwardOne_bookkeeping_palette (sb : SBits) (cl cl' : ChanList) (b n nbc nbd dp : Nat)
    (t' : Transform) (chans coded : List Chan) (pal : Option Chan)
    (hti : transformInfo cl (.palette b n nbc nbd dp) = .ok (cl', t'))
    (hd : dimsMatch chans cl.info = true) (hwf : allWf chans = true)
    (hpal : palTableOk pal t' = true)
    (hf : forwardOne sb chans pal t' = some coded) :
    dimsMatch coded cl'.info = true ∧ allWf coded = true := by
  rw [dimsMatch_iff] at hd ⊢
  obtain ⟨rfl, hlen, c0, hc0, hall, hinfo⟩ := transformInfo_palette_ok hti
  have hl := dims_length hd
  have hb : b < chans.length := by
    have := (List.getElem?_eq_some_iff.mp hc0).1
    omega
  cases pal with
  | none => simp [palTableOk] at hpal
  | some p =>
    simp only [palTableOk, Bool.and_eq_true, beq_iff_eq] at hpal
    obtain ⟨⟨hpw, hpw1⟩, hph⟩ := hpal
    rw [forwardOne_palette_eq sb chans p chans[b] b n nbc nbd dp (List.getElem?_eq_getElem hb)] at hf
    split at hf
    · simp only [Option.some.injEq] at hf
      subst hf
      constructor
      · rw [hinfo]
        simp only [List.map_cons, List.map_append, List.map_take, List.map_drop, ← hd]
        congr 1
        · simp [Chan.dims, ChanInfo.dims, hpw1, hph]
        · congr 1
          rw [List.take_add_one]
          simp [List.getElem?_eq_getElem hb, palIdxChan, Chan.dims]
      · simp only [allWf, List.all_cons, List.all_append, Bool.and_eq_true]
        have hwf' := List.all_eq_true.mp hwf
        refine ⟨hpw, ⟨?_, ?_⟩, ?_⟩
        · exact List.all_eq_true.mpr fun v hv => hwf' v (List.mem_of_mem_take hv)
        · simp [palIdxChan, Chan.wf]
        · exact List.all_eq_true.mpr fun v hv => hwf' v (List.mem_of_mem_drop hv)
    · simp at hf


/-- channel info of the averages / residuals of one squeeze step -/
def sqKeptInfo (hz : Bool) (c : ChanInfo) : ChanInfo :=
  if hz then { c with w := (c.w + 1) / 2, hshift := if c.hshift ≥ 0 then c.hshift + 1 else c.hshift }
  else { c with h := (c.h + 1) / 2, vshift := if c.vshift ≥ 0 then c.vshift + 1 else c.vshift }
def sqResInfo (hz : Bool) (c : ChanInfo) : ChanInfo :=
  if hz then { c with w := c.w / 2, hshift := if c.hshift ≥ 0 then c.hshift + 1 else c.hshift }
  else { c with h := c.h / 2, vshift := if c.vshift ≥ 0 then c.vshift + 1 else c.vshift }

theorem sqKeptInfo_dims (hz : Bool) (c : ChanInfo) : (sqKeptInfo hz c).dims = sqKeptDims hz c.dims := by
  cases hz <;> simp [sqKeptInfo, sqKeptDims, ChanInfo.dims]
theorem sqResInfo_dims (hz : Bool) (c : ChanInfo) : (sqResInfo hz c).dims = sqResDims hz c.dims := by
  cases hz <;> simp [sqResInfo, sqResDims, ChanInfo.dims]

theorem squeezeStepInfo_ok {cl cl' : ChanList} {sp : SqueezeParam}
    (h : squeezeStepInfo cl sp = .ok cl') :
    sp.beginC + sp.numC ≤ cl.info.length ∧
    cl'.info =
      if sp.inPlace then
        cl.info.take sp.beginC ++ ((cl.info.drop sp.beginC).take sp.numC).map (sqKeptInfo sp.horizontal)
          ++ ((cl.info.drop sp.beginC).take sp.numC).map (sqResInfo sp.horizontal)
          ++ cl.info.drop (sp.beginC + sp.numC)
      else
        cl.info.take sp.beginC ++ ((cl.info.drop sp.beginC).take sp.numC).map (sqKeptInfo sp.horizontal)
          ++ cl.info.drop (sp.beginC + sp.numC)
          ++ ((cl.info.drop sp.beginC).take sp.numC).map (sqResInfo sp.horizontal) := by
  unfold squeezeStepInfo at h
  simp only [] at h
  split at h
  · simp at h
  · rename_i hlen
    split at h
    · simp at h
    · split at h
      · simp at h
      · simp only [Except.ok.injEq] at h
        subst h
        refine ⟨by omega, ?_⟩
        rfl

theorem map_kept_dims (sb : SBits) (hz : Bool) (M : List Chan) :
    (M.map fun c => (squeezeChan sb hz c).1).map Chan.dims = (M.map Chan.dims).map (sqKeptDims hz) := by
  simp only [List.map_map]
  apply List.map_congr_left
  intro c _
  exact (squeezeChan_dims' sb hz c).1

theorem map_res_dims (sb : SBits) (hz : Bool) (M : List Chan) :
    (M.map fun c => (squeezeChan sb hz c).2).map Chan.dims = (M.map Chan.dims).map (sqResDims hz) := by
  simp only [List.map_map]
  apply List.map_congr_left
  intro c _
  exact (squeezeChan_dims' sb hz c).2

theorem map_keptInfo_dims (hz : Bool) (M : List ChanInfo) :
    (M.map (sqKeptInfo hz)).map ChanInfo.dims = (M.map ChanInfo.dims).map (sqKeptDims hz) := by
  simp only [List.map_map]
  apply List.map_congr_left
  intro c _
  exact sqKeptInfo_dims hz c

theorem map_resInfo_dims (hz : Bool) (M : List ChanInfo) :
    (M.map (sqResInfo hz)).map ChanInfo.dims = (M.map ChanInfo.dims).map (sqResDims hz) := by
  simp only [List.map_map]
  apply List.map_congr_left
  intro c _
  exact sqResInfo_dims hz c

theorem squeezeFwdStep_bookkeeping (sb : SBits) {cl cl' : ChanList} {sp : SqueezeParam} {chans : List Chan}
    (h : squeezeStepInfo cl sp = .ok cl') (hd : chans.map Chan.dims = cl.info.map ChanInfo.dims)
    (hwf : allWf chans = true) :
    sp.beginC + sp.numC ≤ chans.length ∧
      (squeezeFwdStep sb chans sp).map Chan.dims = cl'.info.map ChanInfo.dims ∧
      allWf (squeezeFwdStep sb chans sp) = true := by
  obtain ⟨hlen, hinfo⟩ := squeezeStepInfo_ok h
  have hl := dims_length hd
  have hlen' : sp.beginC + sp.numC ≤ chans.length := by omega
  refine ⟨hlen', ?_, ?_⟩
  · rw [squeezeFwdStep_eq sb chans sp hlen', hinfo]
    cases sp.inPlace <;>
      simp only [Bool.false_eq_true, if_false, if_true, List.map_append, map_kept_dims, map_res_dims,
        map_keptInfo_dims, map_resInfo_dims, List.map_take, List.map_drop, hd]
  · rw [squeezeFwdStep_eq sb chans sp hlen']
    have hwf' := List.all_eq_true.mp hwf
    have h1 : allWf (chans.take sp.beginC) = true :=
      List.all_eq_true.mpr fun v hv => hwf' v (List.mem_of_mem_take hv)
    have h2 : allWf (chans.drop (sp.beginC + sp.numC)) = true :=
      List.all_eq_true.mpr fun v hv => hwf' v (List.mem_of_mem_drop hv)
    have h3 : allWf (((chans.drop sp.beginC).take sp.numC).map fun c => (squeezeChan sb sp.horizontal c).1) = true := by
      apply List.all_eq_true.mpr
      intro v hv
      obtain ⟨c, _, rfl⟩ := List.mem_map.mp hv
      exact (squeezeChan_wf sb _ c).1
    have h4 : allWf (((chans.drop sp.beginC).take sp.numC).map fun c => (squeezeChan sb sp.horizontal c).2) = true := by
      apply List.all_eq_true.mpr
      intro v hv
      obtain ⟨c, _, rfl⟩ := List.mem_map.mp hv
      exact (squeezeChan_wf sb _ c).2
    unfold allWf at *
    cases sp.inPlace <;> simp only [Bool.false_eq_true, if_false, if_true, List.all_append, h1, h2, h3, h4, Bool.and_self]

theorem squeeze_fold_bookkeeping (sb : SBits) (ps : List SqueezeParam) {cl cl' : ChanList} {chans : List Chan}
    (h : squeezeInfo cl ps = .ok cl') (hd : chans.map Chan.dims = cl.info.map ChanInfo.dims)
    (hwf : allWf chans = true) :
    (ps.foldl (squeezeFwdStep sb) chans).map Chan.dims = cl'.info.map ChanInfo.dims ∧
      allWf (ps.foldl (squeezeFwdStep sb) chans) = true := by
  induction ps generalizing cl chans with
  | nil =>
    simp only [squeezeInfo, Except.ok.injEq] at h
    subst h
    exact ⟨hd, hwf⟩
  | cons sp ps ih =>
    simp only [squeezeInfo] at h
    split at h
    · simp at h
    · rename_i cl1 h1
      obtain ⟨_, d1, w1⟩ := squeezeFwdStep_bookkeeping sb h1 hd hwf
      exact ih h d1 w1

theorem forwardOne_bookkeeping (sb : SBits) (cl cl' : ChanList) (t t' : Transform)
    (chans coded : List Chan) (pal : Option Chan)
    (hti : transformInfo cl t = .ok (cl', t'))
    (hd : dimsMatch chans cl.info = true) (hwf : allWf chans = true)
    (hpal : palTableOk pal t' = true)
    (hf : forwardOne sb chans pal t' = some coded) :
    dimsMatch coded cl'.info = true ∧ allWf coded = true := by
  cases t with
  | rct b ty => exact forwardOne_bookkeeping_rct sb cl cl' b ty t' chans coded pal hti hd hwf hf
  | palette b n nbc nbd dp =>
    exact forwardOne_bookkeeping_palette sb cl cl' b n nbc nbd dp t' chans coded pal hti hd hwf hpal hf
  | squeeze ps =>
    simp only [transformInfo] at hti
    split at hti
    · simp at hti
    · rename_i cl1 h1
      simp only [Except.ok.injEq, Prod.mk.injEq] at hti
      obtain ⟨rfl, rfl⟩ := hti
      rw [forwardOne_squeeze_eq_fold] at hf
      simp only [Option.some.injEq] at hf
      subst hf
      rw [dimsMatch_iff] at hd ⊢
      exact squeeze_fold_bookkeeping sb _ h1 hd hwf

theorem palTablesOk_cons (t : Transform) (ts : List Transform) (pals : List Chan)
    (h : palTablesOk (t :: ts) pals = true) :
    palTableOk (palSplit t pals).1 t = true ∧ palTablesOk ts (palSplit t pals).2 = true := by
  cases t <;> cases pals <;> simp_all [palTablesOk, palSplit, palTableOk]

theorem forwardAll_bookkeeping (sb : SBits) (ts : List Transform) (cl cl' : ChanList) (ts' : List Transform)
    (pals chans coded : List Chan)
    (hti : transformInfoAll cl ts = .ok (cl', ts'))
    (hd : dimsMatch chans cl.info = true) (hwf : allWf chans = true)
    (hpals : palTablesOk ts' pals = true)
    (hf : forwardAll sb ts' pals chans = some coded) :
    dimsMatch coded cl'.info = true ∧ allWf coded = true := by
  induction ts generalizing cl ts' pals chans with
  | nil =>
    simp only [transformInfoAll, Except.ok.injEq, Prod.mk.injEq] at hti
    obtain ⟨rfl, rfl⟩ := hti
    simp only [forwardAll, Option.some.injEq] at hf
    subst hf
    exact ⟨hd, hwf⟩
  | cons t ts ih =>
    simp only [transformInfoAll] at hti
    split at hti
    · simp at hti
    · rename_i cl1 t1 h1
      split at hti
      · simp at hti
      · rename_i cl2 ts2 h2
        simp only [Except.ok.injEq, Prod.mk.injEq] at hti
        obtain ⟨rfl, rfl⟩ := hti
        rw [forwardAll_cons] at hf
        obtain ⟨hp1, hp2⟩ := palTablesOk_cons _ _ _ hpals
        cases hf1 : forwardOne sb chans (palSplit t1 pals).1 t1 with
        | none => rw [hf1] at hf; simp at hf
        | some chans1 =>
          rw [hf1] at hf
          simp only at hf
          obtain ⟨d1, w1⟩ := forwardOne_bookkeeping sb cl cl1 t t1 chans chans1 _ h1 hd hwf hp1 hf1
          exact ih cl1 ts2 _ chans1 h2 d1 w1 hp2 hf


/-! ## the structural parts of `stepOk` follow from `transformInfo` -/

theorem transformInfo_rct_ok {cl cl' : ChanList} {b ty : Nat} {t' : Transform}
    (hti : transformInfo cl (.rct b ty) = .ok (cl', t')) :
    t' = .rct b ty ∧ cl' = cl ∧
      ∃ c0, cl.info[b]? = some c0 ∧ ∀ c ∈ (cl.info.drop (b + 1)).take 2, c.dims = c0.dims := by
  simp only [transformInfo] at hti
  split at hti
  · simp at hti
  · split at hti
    · simp at hti
    · rename_i c0 hc0
      split at hti
      · rename_i hall
        simp only [Except.ok.injEq, Prod.mk.injEq] at hti
        obtain ⟨rfl, rfl⟩ := hti
        refine ⟨rfl, rfl, c0, hc0, ?_⟩
        intro c hc
        have := List.all_eq_true.mp hall c hc
        simp only [Bool.decide_and, Bool.and_eq_true, decide_eq_true_eq, beq_iff_eq] at this
        simp [ChanInfo.dims, this.1, this.2]
      · simp at hti

theorem rct_stepOk_of_info (sb : SBits) {cl cl' : ChanList} {b ty : Nat} {t' : Transform}
    {chans : List Chan} (hti : transformInfo cl (.rct b ty) = .ok (cl', t'))
    (hd : dimsMatch chans cl.info = true) (hwf : allWf chans = true)
    (hr : stepRangeOk sb chans (.rct b ty) = true) :
    stepOk sb chans (.rct b ty) = true := by
  rw [dimsMatch_iff] at hd
  obtain ⟨_, _, c0, hc0, hall⟩ := transformInfo_rct_ok hti
  simp only [stepOk, stepRangeOk] at hr ⊢
  split
  · rename_i x y z hx hy hz
    rw [hx, hy, hz] at hr
    simp only at hr
    obtain ⟨ix, hix, dx⟩ := dims_getElem? hd hx
    obtain ⟨iy, hiy, dy⟩ := dims_getElem? hd hy
    obtain ⟨iz, hiz, dz⟩ := dims_getElem? hd hz
    rw [hc0] at hix
    obtain rfl := Option.some.inj hix
    have my : iy ∈ (cl.info.drop (b + 1)).take 2 := List.mem_of_getElem? (i := 0) (by simp [hiy])
    have mz : iz ∈ (cl.info.drop (b + 1)).take 2 :=
      List.mem_of_getElem? (i := 1) (by simp [Nat.add_assoc, hiz])
    have hxy : x.dims = y.dims := by rw [← dx, ← dy, hall iy my]
    have hxz : x.dims = z.dims := by rw [← dx, ← dz, hall iz mz]
    have hwf' := List.all_eq_true.mp hwf
    have wx := hwf' x (List.mem_of_getElem? hx)
    have wy := hwf' y (List.mem_of_getElem? hy)
    have wz := hwf' z (List.mem_of_getElem? hz)
    simp only [Chan.wf, beq_iff_eq, Chan.dims, Prod.mk.injEq] at wx wy wz hxy hxz
    simp only [rctChanOk, Bool.and_eq_true, beq_iff_eq]
    refine ⟨⟨?_, ?_⟩, hr⟩
    · rw [wx, wy, hxy.1, hxy.2]
    · rw [wx, wz, hxz.1, hxz.2]
  · -- some channel missing: impossible, the info list has them
    rename_i hnone
    exfalso
    have hl := dims_length hd
    have hlen : b + 3 ≤ cl.info.length := by
      have h := hti
      simp only [transformInfo] at h
      split at h
      · simp at h
      · omega
    have h0 : b < chans.length := by omega
    have h1 : b + 1 < chans.length := by omega
    have h2 : b + 2 < chans.length := by omega
    exact hnone _ _ _ (List.getElem?_eq_getElem h0) (List.getElem?_eq_getElem h1) (List.getElem?_eq_getElem h2)

theorem sqSteps_ok_of_info (sb : SBits) (ps : List SqueezeParam) {cl cl' : ChanList} {chans : List Chan}
    (h : squeezeInfo cl ps = .ok cl') (hd : chans.map Chan.dims = cl.info.map ChanInfo.dims)
    (hwf : allWf chans = true) (hr : sqStepsRangeOk sb ps chans = true) :
    sqStepsOk sb ps chans = true := by
  induction ps generalizing cl chans with
  | nil => rfl
  | cons sp ps ih =>
    simp only [squeezeInfo] at h
    split at h
    · simp at h
    · rename_i cl1 h1
      obtain ⟨hlen, d1, w1⟩ := squeezeFwdStep_bookkeeping sb h1 hd hwf
      simp only [sqStepsRangeOk, Bool.and_eq_true] at hr
      simp only [sqStepsOk, sqStepOk, Bool.and_eq_true, decide_eq_true_eq]
      refine ⟨⟨hlen, ?_⟩, ih h d1 w1 hr.2⟩
      apply List.all_eq_true.mpr
      intro c hc
      simp only [sqChanOk, Bool.and_eq_true]
      exact ⟨List.all_eq_true.mp hwf c (List.mem_of_mem_drop (List.mem_of_mem_take hc)),
        List.all_eq_true.mp hr.1 c hc⟩

theorem stepOk_of_range (sb : SBits) {cl cl' : ChanList} {t t' : Transform} {chans : List Chan}
    (hti : transformInfo cl t = .ok (cl', t'))
    (hd : dimsMatch chans cl.info = true) (hwf : allWf chans = true)
    (hr : stepRangeOk sb chans t' = true) : stepOk sb chans t' = true := by
  cases t with
  | rct b ty =>
    obtain ⟨rfl, _⟩ := transformInfo_rct_ok hti
    exact rct_stepOk_of_info sb hti hd hwf hr
  | palette b n nbc nbd dp =>
    obtain ⟨rfl, _⟩ := transformInfo_palette_ok hti
    exact palette_stepOk_of_info sb hti hd hwf
  | squeeze ps =>
    simp only [transformInfo] at hti
    split at hti
    · simp at hti
    · rename_i cl1 h1
      simp only [Except.ok.injEq, Prod.mk.injEq] at hti
      obtain ⟨rfl, rfl⟩ := hti
      rw [dimsMatch_iff] at hd
      exact sqSteps_ok_of_info sb _ h1 hd hwf hr

theorem chainRangeOk_cons (sb : SBits) (t : Transform) (ts : List Transform) (pals chans : List Chan) :
    chainRangeOk sb (t :: ts) pals chans =
      (stepRangeOk sb chans t &&
        match forwardOne sb chans (palSplit t pals).1 t with
        | none => true
        | some chans' => chainRangeOk sb ts (palSplit t pals).2 chans') := by
  cases t <;> cases pals <;> rfl

theorem chainOk_of_range (sb : SBits) (ts : List Transform) (cl cl' : ChanList) (ts' : List Transform)
    (pals chans : List Chan)
    (hti : transformInfoAll cl ts = .ok (cl', ts'))
    (hd : dimsMatch chans cl.info = true) (hwf : allWf chans = true)
    (hpals : palTablesOk ts' pals = true)
    (hr : chainRangeOk sb ts' pals chans = true) :
    chainOk sb ts' pals chans = true := by
  induction ts generalizing cl ts' pals chans with
  | nil =>
    simp only [transformInfoAll, Except.ok.injEq, Prod.mk.injEq] at hti
    obtain ⟨rfl, rfl⟩ := hti
    rfl
  | cons t ts ih =>
    simp only [transformInfoAll] at hti
    split at hti
    · simp at hti
    · rename_i cl1 t1 h1
      split at hti
      · simp at hti
      · rename_i cl2 ts2 h2
        simp only [Except.ok.injEq, Prod.mk.injEq] at hti
        obtain ⟨rfl, rfl⟩ := hti
        rw [chainRangeOk_cons, Bool.and_eq_true] at hr
        rw [chainOk_cons, Bool.and_eq_true]
        obtain ⟨hp1, hp2⟩ := palTablesOk_cons _ _ _ hpals
        refine ⟨stepOk_of_range sb h1 hd hwf hr.1, ?_⟩
        cases hf1 : forwardOne sb chans (palSplit t1 pals).1 t1 with
        | none => rfl
        | some chans1 =>
          have hr2 := hr.2
          rw [hf1] at hr2
          simp only at hr2 ⊢
          obtain ⟨d1, w1⟩ := forwardOne_bookkeeping sb cl cl1 t t1 chans chans1 _ h1 hd hwf hp1 hf1
          exact ih cl1 ts2 _ chans1 h2 d1 w1 hp2 hr2


/-! ## a simple sufficient condition: one bit of headroom -/

theorem inRange_of_headroom {sb : Nat} {v : Int} (h : inHeadroom sb v = true) : inRange sb v = true := by
  simp only [inHeadroom, inRange, Bool.and_eq_true, decide_eq_true_eq] at h ⊢
  obtain ⟨⟨h2, h3⟩, h4⟩ := h
  have h2 : @LE.le Nat _ 2 sb := h2
  have hp : (2 : Int) ^ (sb - 1) = 2 * (2 : Int) ^ (sb - 2) := by
    have : sb - 1 = (sb - 2) + 1 := by omega
    rw [this, Int.pow_succ]; omega
  have hpos := two_pow_pos (sb - 2)
  have hs : @LT.lt Nat _ 0 sb := by omega
  refine ⟨⟨hs, ?_⟩, ?_⟩ <;> omega

theorem inRange_add_of_headroom {sb : Nat} {a b : Int} (ha : inHeadroom sb a = true)
    (hb : inHeadroom sb b = true) : inRange sb (a + b) = true ∧ inRange sb (a - b) = true := by
  simp only [inHeadroom, inRange, Bool.and_eq_true, decide_eq_true_eq] at ha hb ⊢
  obtain ⟨⟨h2, h3⟩, h4⟩ := ha
  obtain ⟨⟨_, h5⟩, h6⟩ := hb
  have h2 : @LE.le Nat _ 2 sb := h2
  have hp : (2 : Int) ^ (sb - 1) = 2 * (2 : Int) ^ (sb - 2) := by
    have : sb - 1 = (sb - 2) + 1 := by omega
    rw [this, Int.pow_succ]; omega
  have hs : @LT.lt Nat _ 0 sb := by omega
  refine ⟨⟨⟨hs, ?_⟩, ?_⟩, ⟨⟨hs, ?_⟩, ?_⟩⟩ <;> omega

theorem rctTripleOk_of_headroom (sb : SBits) (ty : Nat) (t : Int × Int × Int)
    (h1 : inHeadroom sb t.1 = true) (h2 : inHeadroom sb t.2.1 = true) (h3 : inHeadroom sb t.2.2 = true) :
    rctTripleOk sb ty t = true := by
  simp only [rctTripleOk, Bool.and_eq_true, Bool.or_eq_true]
  exact ⟨⟨⟨inRange_of_headroom h1, inRange_of_headroom h2⟩, inRange_of_headroom h3⟩,
    Or.inr (inRange_add_of_headroom h1 h3).1⟩

theorem sqLineOk_of_headroom (sb : SBits) (line : List Int) (h : line.all (inHeadroom sb) = true) :
    sqLineOk sb line = true := by
  induction line using squeezeAvgs.induct with
  | case1 a b rest ih =>
    simp only [List.all_cons, Bool.and_eq_true] at h
    simp only [sqLineOk, Bool.and_eq_true]
    exact ⟨⟨⟨inRange_of_headroom h.1, inRange_of_headroom h.2.1⟩, (inRange_add_of_headroom h.1 h.2.1).2⟩,
      ih h.2.2⟩
  | case2 a => rfl
  | case3 => rfl


/-! ## the reference encoder's palette search before the repair (finding, `Props/C03.lean`) -/

/-- `forwardOne … (.palette b n nbc nbd dp)` as it was: the search ignored `nbDeltas` and started
at entry 0 -/
def forwardPaletteOld (chans : List Chan) (pal : Option Chan) (b n nbc : Nat) : Option (List Chan) :=
  match pal, chans[b]? with
  | some pal, some c0 =>
    let srcs := (chans.drop b).take n
    let find := fun (x y : Nat) =>
      (List.range nbc).find? fun k => (List.range n).all fun c => (srcs.getD c default).get x y == pal.get k c
    let idxs := (List.range (c0.w * c0.h)).map fun i => find (i % c0.w) (i / c0.w)
    if idxs.all Option.isSome then
      let idx : Chan := { w := c0.w, h := c0.h, data := (idxs.map fun o => ((o.getD 0 : Nat) : Int)).toArray }
      some (pal :: (chans.take b ++ [idx] ++ chans.drop (b + n)))
    else none
  | _, _ => none


end Jxl.Modular
