import JxlModel.Proofs.Dct
/-!
# The forward recursion of `generic/dct.rs` over exact reals equals the forward definition
`F N x n = (wt n / N) Σ_{j<N} x j cos(n θ_j)`, `θ_j = (2j+1)π/(2N)`.
-/
open Finset Real

namespace Jxl.Dct

/-- forward DCT, cosine-sum form -/
noncomputable def F (N : ℕ) (x : ℕ → ℝ) (n : ℕ) : ℝ :=
  wt n / N * ∑ j ∈ range N, x j * Real.cos (n * theta N j)

theorem ofNatS_real (N : ℕ) : (ofNatS N : ℝ) = N := by
  induction N with
  | zero => simp [ofNatS]
  | succ n ih => simp [ofNatS, ih]

theorem fdctDef_eq_F (N : ℕ) (x : ℕ → ℝ) (n : ℕ) : fdctDef N x n = F N x n := by
  unfold fdctDef F
  simp only [sumRange_eq, s_mul, s_cosPi, s_div, s_sqrt2, ofNatS_real]
  have hs : (∑ j ∈ range N, x j * Real.cos ((((n * (2 * j + 1) : ℕ) : ℝ)) * π / ((2 * N : ℕ) : ℝ))) =
      ∑ j ∈ range N, x j * Real.cos (n * theta N j) := by
    apply Finset.sum_congr rfl
    intro j _
    have : (((n * (2 * j + 1) : ℕ) : ℝ)) * π / ((2 * N : ℕ) : ℝ) = n * theta N j := by
      unfold theta; push_cast; ring
    rw [this]
  rw [hs]
  unfold wt
  split <;> ring

theorem F_congr {N : ℕ} {x x' : ℕ → ℝ} (n : ℕ) (h : ∀ j < N, x j = x' j) : F N x n = F N x' n := by
  unfold F
  congr 1
  exact Finset.sum_congr rfl fun j hj => by rw [h j (Finset.mem_range.mp hj)]

/-- fold a sum over `2m` terms onto its first half -/
theorem sum_fold (m : ℕ) (f : ℕ → ℝ) :
    ∑ j ∈ range (2 * m), f j = ∑ j ∈ range m, (f j + f (2 * m - 1 - j)) := by
  have h2 : 2 * m = m + m := by ring
  rw [h2, Finset.sum_range_add, Finset.sum_add_distrib]
  congr 1
  rw [← Finset.sum_range_reflect (fun j => f (m + j)) m]
  apply Finset.sum_congr rfl
  intro j hj
  have : j < m := Finset.mem_range.mp hj
  congr 1
  omega

theorem theta_reflect' (m j : ℕ) (hj : j < m) :
    theta (2 * m) (2 * m - 1 - j) = π - theta (2 * m) j :=
  theta_reflect (2 * m) (2 * m - 1 - j) j (by omega)

/-- first half of the butterfly -/
noncomputable def fin0 (N : ℕ) (x : ℕ → ℝ) (i : ℕ) : ℝ := (x i + x (N - 1 - i)) * (1 / 2)

/-- second half of the butterfly, scaled by `sec_half` -/
noncomputable def fin1 (N : ℕ) (x : ℕ → ℝ) (i : ℕ) : ℝ :=
  (x i - x (N - 1 - i)) * (1 / 2) * (1 / (2 * Real.cos (theta N i)))

theorem F_even (m : ℕ) (hm : 0 < m) (x : ℕ → ℝ) (e : ℕ) :
    F (2 * m) x (2 * e) = F m (fin0 (2 * m) x) e := by
  have hm' : (m : ℝ) ≠ 0 := Nat.cast_ne_zero.mpr (by omega)
  unfold F
  rw [sum_fold]
  have hw : wt (2 * e) = wt e := by unfold wt; simp
  rw [hw, Finset.mul_sum, Finset.mul_sum]
  apply Finset.sum_congr rfl
  intro j hj
  have hjm : j < m := Finset.mem_range.mp hj
  rw [theta_reflect' m j hjm, cos_nat_mul_pi_sub, theta_double m j hm]
  have e1 : ((2 * e : ℕ) : ℝ) * theta (2 * m) j = (e : ℝ) * (2 * theta (2 * m) j) := by
    push_cast; ring
  rw [pow_mul, e1]
  unfold fin0
  push_cast
  field_simp
  ring

/-- the partial sums the odd outputs are made of -/
noncomputable def G (m : ℕ) (x : ℕ → ℝ) (k : ℕ) : ℝ :=
  ∑ j ∈ range m, fin1 (2 * m) x j * Real.cos ((k : ℝ) * (2 * theta (2 * m) j))

theorem G_top (m : ℕ) (hm : 0 < m) (x : ℕ → ℝ) : G m x m = 0 := by
  unfold G
  apply Finset.sum_eq_zero
  intro j _
  have : (m : ℝ) * (2 * theta (2 * m) j) = ((2 * m : ℕ) : ℝ) * theta (2 * m) j := by
    push_cast; ring
  rw [this, cos_N_theta _ _ (by omega), mul_zero]

theorem F_of_G (m : ℕ) (hm : 0 < m) (x : ℕ → ℝ) (k : ℕ) :
    F m (fin1 (2 * m) x) k = wt k / m * G m x k := by
  unfold F G
  congr 1
  apply Finset.sum_congr rfl
  intro j _
  rw [theta_double m j hm]

theorem F_odd (m : ℕ) (hm : 0 < m) (x : ℕ → ℝ) (e : ℕ) :
    F (2 * m) x (2 * e + 1) = √2 / m * (G m x e + G m x (e + 1)) := by
  have hm' : (m : ℝ) ≠ 0 := Nat.cast_ne_zero.mpr (by omega)
  unfold F G
  rw [sum_fold, ← Finset.sum_add_distrib]
  have hw : wt (2 * e + 1) = √2 := by simp [wt]
  rw [hw, Finset.mul_sum, Finset.mul_sum]
  apply Finset.sum_congr rfl
  intro j hj
  have hjm : j < m := Finset.mem_range.mp hj
  have hc : Real.cos (theta (2 * m) j) ≠ 0 := (cos_theta_pos m j hjm).ne'
  rw [theta_reflect' m j hjm, cos_nat_mul_pi_sub]
  set θ := theta (2 * m) j with hθ
  have hp := prod_to_sum (((2 * e + 1 : ℕ) : ℝ) * θ) θ
  have e1 : ((2 * e + 1 : ℕ) : ℝ) * θ + θ = ((e + 1 : ℕ) : ℝ) * (2 * θ) := by push_cast; ring
  have e2 : ((2 * e + 1 : ℕ) : ℝ) * θ - θ = (e : ℝ) * (2 * θ) := by push_cast; ring
  rw [e1, e2] at hp
  have hpow : (-1 : ℝ) ^ (2 * e + 1) = -1 := by rw [pow_succ, pow_mul]; simp
  rw [← mul_add, add_comm (Real.cos ((e : ℝ) * (2 * θ))), ← hp, hpow]
  unfold fin1
  rw [← hθ]
  push_cast
  field_simp
  ring

/-! ## the recursion -/

def ComputesFdct (N : ℕ) (f : Array ℝ → Array ℝ) : Prop :=
  ∀ x : Array ℝ, ∀ n < N, rd (f x) n = F N (rd x) n

/-- the odd outputs: `√2` on the first entry, then pairwise sums -/
noncomputable def foddOut (m : ℕ) (o : ℕ → ℝ) (i : ℕ) : ℝ :=
  let v := if i = 0 then o 0 * √2 else o i
  if i + 1 < m then v + o (i + 1) else v

/-- the model's butterfly halves, as functions -/
noncomputable def fin0m (n : ℕ) (x : ℕ → ℝ) (i : ℕ) : ℝ := (x i + x (n - 1 - i)) * Scalar.half

noncomputable def fin1m (n : ℕ) (x : ℕ → ℝ) (i : ℕ) : ℝ :=
  (x i - x (n - 1 - i)) * Scalar.half * secHalf n i

theorem rd_fstep (n : ℕ) (rec : Array ℝ → Array ℝ) (x : Array ℝ) (i : ℕ) (hi : i < n) :
    rd (fstep n rec x) i =
      if i % 2 = 0 then rd (rec (tab (n / 2) (fin0m n (rd x)))) (i / 2)
      else rd (tab (n / 2) (foddOut (n / 2) (rd (rec (tab (n / 2) (fin1m n (rd x))))))) (i / 2) := by
  unfold fstep
  rw [rd_tab _ _ _ hi]
  rfl

/-- **One forward recursion level.** -/
theorem fstep_computes (m : ℕ) (hm : 0 < m) (rec : Array ℝ → Array ℝ) (hrec : ComputesFdct m rec) :
    ComputesFdct (2 * m) (fstep (2 * m) rec) := by
  intro x n hn
  have hdiv : 2 * m / 2 = m := by omega
  have hm' : (m : ℝ) ≠ 0 := Nat.cast_ne_zero.mpr (by omega)
  rw [rd_fstep _ _ _ _ hn, hdiv]
  have hin0 : ∀ j < m, rd (tab m (fin0m (2 * m) (rd x))) j = fin0 (2 * m) (rd x) j := by
    intro j hj
    rw [rd_tab _ _ _ hj]
    simp [fin0m, fin0]
  have hin1 : ∀ j < m, rd (tab m (fin1m (2 * m) (rd x))) j = fin1 (2 * m) (rd x) j := by
    intro j hj
    rw [rd_tab _ _ _ hj]
    simp [fin1m, fin1, secHalf_real]
  have hO : ∀ k < m, rd (rec (tab m (fin1m (2 * m) (rd x)))) k =
      wt k / m * G m (rd x) k := by
    intro k hk
    rw [hrec _ k hk, F_congr _ hin1, F_of_G m hm]
  by_cases hpar : n % 2 = 0
  · obtain ⟨e, rfl⟩ : ∃ e, n = 2 * e := ⟨n / 2, by omega⟩
    have he : e < m := by omega
    rw [if_pos hpar, Nat.mul_div_cancel_left _ (by omega : 0 < 2), hrec _ e he, F_congr _ hin0,
      F_even m hm]
  · obtain ⟨e, rfl⟩ : ∃ e, n = 2 * e + 1 := ⟨n / 2, by omega⟩
    have he : e < m := by omega
    have hd : (2 * e + 1) / 2 = e := by omega
    rw [if_neg hpar, hd, rd_tab _ _ _ he, F_odd m hm]
    unfold foddOut
    simp only
    have h0 : 0 < m := hm
    by_cases hlast : e + 1 < m
    · rw [if_pos hlast, hO _ hlast]
      have hw1 : wt (e + 1) = √2 := by simp [wt]
      by_cases he0 : e = 0
      · subst he0
        rw [if_pos rfl, hO 0 h0, hw1]
        simp only [wt, if_true]
        ring
      · rw [if_neg he0, hO e he, hw1]
        have hw : wt e = √2 := by simp [wt, he0]
        rw [hw]; ring
    · have hem : e + 1 = m := by omega
      rw [if_neg hlast]
      have hG : G m (rd x) (e + 1) = 0 := by rw [hem]; exact G_top m hm _
      rw [hG, add_zero]
      by_cases he0 : e = 0
      · subst he0
        rw [if_pos rfl, hO 0 h0]
        simp only [wt, if_true]
        ring
      · rw [if_neg he0, hO e he]
        have hw : wt e = √2 := by simp [wt, he0]
        rw [hw]

theorem fdct0_computes : ComputesFdct 1 (fdct (α := ℝ) 0) := by
  intro x n hn
  obtain rfl : n = 0 := by omega
  simp [fdct, rd_tab, F, wt]

theorem fdct2_eq_fstep (x : Array ℝ) (n : ℕ) (hn : n < 2) :
    rd (fdct2 x) n = rd (fstep 2 (fdct 0) x) n := by
  have h4 : theta 2 0 = π / 4 := by unfold theta; push_cast; ring
  have hs2 : (√2 : ℝ) ≠ 0 := by positivity
  have hs : (secHalf 2 0 : ℝ) = 1 / √2 := by
    rw [secHalf_real, h4, Real.cos_pi_div_four]
    field_simp
  rw [rd_fstep _ _ _ _ hn]
  have hn2 : n = 0 ∨ n = 1 := by omega
  rcases hn2 with rfl | rfl
  · simp only [fdct2, fdct, (rd_lit2 _ _).1, Nat.reduceDiv, Nat.zero_mod, if_true, Nat.zero_div,
      rd_tab _ _ 0 Nat.one_pos, fin0m, s_mul, s_add, s_half]
  · simp only [fdct2, fdct, (rd_lit2 _ _).2, Nat.reduceDiv, Nat.reduceMod, one_ne_zero, if_false,
      rd_tab _ _ 0 Nat.one_pos, fin1m, foddOut, s_mul, s_sub, s_half, hs, if_true,
      Nat.lt_irrefl]
    field_simp

theorem fdct2_computes : ComputesFdct 2 (fdct2 (α := ℝ)) := by
  intro x n hn
  rw [fdct2_eq_fstep x n hn]
  exact fstep_computes 1 Nat.one_pos _ fdct0_computes x n hn

theorem fdct4_eq_fstep (x : Array ℝ) (n : ℕ) (hn : n < 4) :
    rd (fdct4 x) n = rd (fstep 4 fdct2 x) n := by
  rw [rd_fstep _ _ _ _ hn]
  have a0 : rd (tab 2 (fin0m 4 (rd x))) 0 = (rd x 0 + rd x 3) * (1 / 2) := by
    rw [rd_tab _ _ 0 (by omega)]; simp [fin0m]
  have a1 : rd (tab 2 (fin0m 4 (rd x))) 1 = (rd x 1 + rd x 2) * (1 / 2) := by
    rw [rd_tab _ _ 1 (by omega)]; simp [fin0m]
  have b0 : rd (tab 2 (fin1m 4 (rd x))) 0 = (rd x 0 - rd x 3) * (1 / 2) * secHalf 4 0 := by
    rw [rd_tab _ _ 0 (by omega)]; simp [fin1m]
  have b1 : rd (tab 2 (fin1m 4 (rd x))) 1 = (rd x 1 - rd x 2) * (1 / 2) * secHalf 4 1 := by
    rw [rd_tab _ _ 1 (by omega)]; simp [fin1m]
  have : n = 0 ∨ n = 1 ∨ n = 2 ∨ n = 3 := by omega
  rcases this with rfl | rfl | rfl | rfl
  · simp only [fdct4, fdct2, rd_lit4, rd_lit2, Nat.reduceDiv, Nat.zero_mod, Nat.zero_div, if_true,
      a0, a1, quarter, s_add, s_sub, s_mul, s_half]
    ring
  · simp only [fdct4, fdct2, rd_lit4, rd_lit2, Nat.reduceDiv, Nat.reduceMod, one_ne_zero, if_false,
      rd_tab _ _ 0 (by omega : 0 < 2), foddOut, if_true, Nat.reduceAdd, Nat.reduceLT,
      b1, fin1m, quarter, s_add, s_sub, s_mul, s_half, s_sqrt2]
    ring
  · simp only [fdct4, fdct2, rd_lit4, rd_lit2, Nat.reduceDiv, Nat.reduceMod, if_true,
      a0, a1, quarter, s_add, s_sub, s_mul, s_half]
    ring
  · simp only [fdct4, fdct2, rd_lit4, rd_lit2, Nat.reduceDiv, Nat.reduceMod, one_ne_zero, if_false,
      rd_tab _ _ 1 (by omega : 1 < 2), foddOut, Nat.reduceAdd, Nat.lt_irrefl,
      b0, fin1m, quarter, s_add, s_sub, s_mul, s_half, s_sqrt2]
    ring

theorem fdct4_computes : ComputesFdct 4 (fdct4 (α := ℝ)) := by
  intro x n hn
  rw [fdct4_eq_fstep x n hn]
  exact fstep_computes 2 (by omega) _ fdct2_computes x n hn

theorem fdct_computes : ∀ k : ℕ, ComputesFdct (2 ^ k) (fdct (α := ℝ) k)
  | 0 => fdct0_computes
  | 1 => fdct2_computes
  | 2 => fdct4_computes
  | k + 3 => by
    have h : 2 ^ (k + 3) = 2 * 2 ^ (k + 2) := by ring
    have ih := fdct_computes (k + 2)
    show ComputesFdct (2 ^ (k + 3)) (fstep (2 ^ (k + 3)) (fdct (k + 2)))
    rw [h]
    exact fstep_computes _ (by positivity) _ ih

end Jxl.Dct
