import JxlModel.Proofs.Dct
/-!
# The 2-D driver: the block transposes cancel (any scalar type), and over ℝ the driver is the
# separable cosine-sum definition
-/
namespace Jxl.Dct

section generic
variable {α : Type} [Scalar α]

omit [Scalar α] in
theorem tab_congr {n : ℕ} {f f' : ℕ → α} (h : ∀ i < n, f i = f' i) : tab n f = tab n f' := by
  apply Array.ext (by simp)
  intro i h1 _
  have hi : i < n := by simpa using h1
  simp [tab, h i hi]

theorem getD_ofFn {β : Type} (n : ℕ) (f : Fin n → β) (d : β) (i : ℕ) (h : i < n) :
    (Array.ofFn f).getD i d = f ⟨i, h⟩ := by
  simp [Array.getD, h]

theorem Grid.rd_tab (w h : ℕ) (f : ℕ → ℕ → α) (x y : ℕ) (hx : x < w) (hy : y < h) :
    (Grid.tab w h f).rd x y = f x y := by
  have hw : 0 < w := by omega
  have hlt : y * w + x < w * h := by
    have : (y + 1) * w ≤ h * w := Nat.mul_le_mul_right w hy
    rw [Nat.mul_comm w h]
    have e : (y + 1) * w = y * w + w := by ring
    omega
  unfold Grid.rd Grid.tab
  simp only
  rw [Dct.rd_tab _ _ _ hlt]
  have h1 : (y * w + x) % w = x := by
    rw [Nat.add_comm, Nat.add_mul_mod_self_right, Nat.mod_eq_of_lt hx]
  have h2 : (y * w + x) / w = y := by
    rw [Nat.add_comm, Nat.add_mul_div_right _ _ hw, Nat.div_eq_of_lt hx, Nat.zero_add]
  rw [h1, h2]

theorem rowPass_rd (dir : Dir) (g : Grid α) (x y : ℕ) (hx : x < g.w) (hy : y < g.h) :
    (rowPass dir g).rd x y = rd (dct1 dir g.w (g.row y)) x := by
  unfold rowPass
  simp only
  rw [Grid.rd_tab _ _ _ _ _ hx hy, getD_ofFn _ _ _ _ hy]

theorem colPass_rd (dir : Dir) (g : Grid α) (x y : ℕ) (hx : x < g.w) (hy : y < g.h) :
    (colPass dir g).rd x y = rd (dct1 dir g.h (g.col x)) y := by
  unfold colPass
  simp only
  rw [Grid.rd_tab _ _ _ _ _ hx hy, getD_ofFn _ _ _ _ hx]

theorem blockTranspose_rd (bs : ℕ) (g : Grid α) (x y : ℕ) (hx : x < g.w) (hy : y < g.h) :
    (blockTranspose bs g).rd x y = g.rd (x / bs * bs + y % bs) (y / bs * bs + x % bs) := by
  unfold blockTranspose
  rw [Grid.rd_tab _ _ _ _ _ hx hy]

theorem chunkPass_rd (dir : Dir) (g : Grid α) (x y : ℕ) (hx : x < g.w) (hy : y < g.h)
    (hdvd : g.h ∣ g.w) :
    (chunkPass dir g).rd x y =
      rd (dct1 dir g.h (tab g.h fun d => g.rd (x / g.h * g.h + d) y)) (x % g.h) := by
  have hh : 0 < g.h := by omega
  have hq : x / g.h < g.w / g.h := by
    obtain ⟨q, hq⟩ := hdvd
    rw [hq, Nat.mul_div_cancel_left _ hh]
    rw [hq] at hx
    exact Nat.div_lt_of_lt_mul hx
  unfold chunkPass
  simp only
  rw [Grid.rd_tab _ _ _ _ _ hx hy, getD_ofFn _ _ _ _ hy, getD_ofFn _ _ _ _ hq]

theorem gatherPass_rd (dir : Dir) (g : Grid α) (x y : ℕ) (hx : x < g.w) (hy : y < g.h) :
    (gatherPass dir g).rd x y =
      rd (dct1 dir g.h (tab g.h fun i => g.rd (i % g.w) (y % g.w + i / g.w * g.w)))
        (y / g.w * g.w + x) := by
  have hw : 0 < g.w := by omega
  unfold gatherPass
  simp only
  rw [Grid.rd_tab _ _ _ _ _ hx hy, getD_ofFn _ _ _ _ (Nat.mod_lt _ hw)]

/-- **The transposes cancel, wide case** (`block_size == height`, `h ∣ w`): the general path of
`dct_2d` is the row pass followed by the column pass. -/
theorem dct2dGeneral_wide (dir : Dir) (g : Grid α) (hle : g.h ≤ g.w) (hdvd : g.h ∣ g.w)
    (x y : ℕ) (hx : x < g.w) (hy : y < g.h) :
    (dct2dGeneral dir g).rd x y = (dct2dSep dir g).rd x y := by
  have hh : 0 < g.h := by omega
  have hmin : min g.w g.h = g.h := Nat.min_eq_right hle
  unfold dct2dGeneral dct2dSep
  simp only [hmin, rowPass, if_true]
  -- name the row-pass result
  change (blockTranspose g.h (chunkPass dir (blockTranspose g.h (rowPass dir g)))).rd x y =
    (colPass dir (rowPass dir g)).rd x y
  set R := rowPass dir g with hR
  have hRw : R.w = g.w := rfl
  have hRh : R.h = g.h := rfl
  have hy0 : y / g.h = 0 := Nat.div_eq_of_lt hy
  have hym : y % g.h = y := Nat.mod_eq_of_lt hy
  have hxm : x % g.h < g.h := Nat.mod_lt _ hh
  -- position read by the outer transpose
  have hx1 : x / g.h * g.h + y < g.w := by
    obtain ⟨q, hq⟩ := hdvd
    have hxq : x / g.h < q := by
      rw [hq] at hx; exact Nat.div_lt_of_lt_mul hx
    have : (x / g.h + 1) * g.h ≤ q * g.h := Nat.mul_le_mul_right _ hxq
    have e : (x / g.h + 1) * g.h = x / g.h * g.h + g.h := by ring
    rw [hq, Nat.mul_comm g.h q]; omega
  rw [blockTranspose_rd _ _ _ _ (by exact hx) (by exact hy)]
  simp only [hy0, hym, Nat.zero_mul, Nat.zero_add]
  rw [chunkPass_rd dir (blockTranspose g.h R) _ _ (by exact hx1) (by exact hxm) (by exact hdvd)]
  change rd (dct1 dir g.h (tab g.h fun d =>
      (blockTranspose g.h R).rd ((x / g.h * g.h + y) / g.h * g.h + d) (x % g.h)))
      ((x / g.h * g.h + y) % g.h) = _
  have hdiv : (x / g.h * g.h + y) / g.h = x / g.h := by
    rw [Nat.add_comm, Nat.add_mul_div_right _ _ hh, hy0, Nat.zero_add]
  have hmod : (x / g.h * g.h + y) % g.h = y := by
    rw [Nat.add_comm, Nat.add_mul_mod_self_right, hym]
  rw [hdiv, hmod, colPass_rd dir R x y (by exact hx) (by exact hy)]
  congr 2
  unfold Grid.col
  apply tab_congr
  intro d hd
  have hd' : d < g.h := hd
  have hxd : x / g.h * g.h + d < g.w := by
    obtain ⟨q, hq⟩ := hdvd
    have hxq : x / g.h < q := by
      rw [hq] at hx; exact Nat.div_lt_of_lt_mul hx
    have : (x / g.h + 1) * g.h ≤ q * g.h := Nat.mul_le_mul_right _ hxq
    have e : (x / g.h + 1) * g.h = x / g.h * g.h + g.h := by ring
    rw [hq, Nat.mul_comm g.h q]; omega
  rw [blockTranspose_rd _ _ _ _ (by exact hxd) (by exact hxm)]
  have a1 : (x / g.h * g.h + d) / g.h = x / g.h := by
    rw [Nat.add_comm, Nat.add_mul_div_right _ _ hh, Nat.div_eq_of_lt hd', Nat.zero_add]
  have a2 : (x / g.h * g.h + d) % g.h = d := by
    rw [Nat.add_comm, Nat.add_mul_mod_self_right, Nat.mod_eq_of_lt hd']
  have a3 : x % g.h / g.h = 0 := Nat.div_eq_of_lt hxm
  have a4 : x % g.h % g.h = x % g.h := Nat.mod_eq_of_lt hxm
  rw [a1, a2, a3, a4, Nat.zero_mul, Nat.zero_add, Nat.div_add_mod']

/-- **The transposes cancel, tall case** (`block_size == width < height`, `w ∣ h`). -/
theorem dct2dGeneral_tall (dir : Dir) (g : Grid α) (hlt : g.w < g.h) (hdvd : g.w ∣ g.h)
    (x y : ℕ) (hx : x < g.w) (hy : y < g.h) :
    (dct2dGeneral dir g).rd x y = (dct2dSep dir g).rd x y := by
  have hw : 0 < g.w := by omega
  have hmin : min g.w g.h = g.w := Nat.min_eq_left (by omega)
  have hne : ¬ g.w = g.h := by omega
  unfold dct2dGeneral dct2dSep
  simp only [hmin, rowPass, hne, if_false]
  change (blockTranspose g.w (gatherPass dir (blockTranspose g.w (rowPass dir g)))).rd x y =
    (colPass dir (rowPass dir g)).rd x y
  set R := rowPass dir g with hR
  have hx0 : x / g.w = 0 := Nat.div_eq_of_lt hx
  have hxm : x % g.w = x := Nat.mod_eq_of_lt hx
  have hymod : y % g.w < g.w := Nat.mod_lt _ hw
  -- rows `q*w + r` with `q*w ≤ h - w`, `r < w` are inside
  have hin : ∀ q r, q < g.h / g.w → r < g.w → q * g.w + r < g.h := by
    intro q r hq hr
    obtain ⟨t, ht⟩ := hdvd
    rw [ht, Nat.mul_div_cancel_left _ hw] at hq
    have : (q + 1) * g.w ≤ t * g.w := Nat.mul_le_mul_right _ hq
    have e : (q + 1) * g.w = q * g.w + g.w := by ring
    rw [ht, Nat.mul_comm g.w t]; omega
  have hdivlt : ∀ i, i < g.h → i / g.w < g.h / g.w := by
    intro i hi
    obtain ⟨t, ht⟩ := hdvd
    rw [ht, Nat.mul_div_cancel_left _ hw]
    rw [ht] at hi
    exact Nat.div_lt_of_lt_mul hi
  have hy1 : y / g.w * g.w + x < g.h := hin _ _ (hdivlt y hy) hx
  rw [blockTranspose_rd _ _ _ _ (by exact hx) (by exact hy)]
  simp only [hx0, hxm, Nat.zero_mul, Nat.zero_add]
  rw [gatherPass_rd dir (blockTranspose g.w R) _ _ (by exact hymod) (by exact hy1)]
  change rd (dct1 dir g.h (tab g.h fun i =>
      (blockTranspose g.w R).rd (i % g.w) ((y / g.w * g.w + x) % g.w + i / g.w * g.w)))
      ((y / g.w * g.w + x) / g.w * g.w + y % g.w) = _
  have hmod : (y / g.w * g.w + x) % g.w = x := by
    rw [Nat.add_comm, Nat.add_mul_mod_self_right, hxm]
  have hdiv : (y / g.w * g.w + x) / g.w = y / g.w := by
    rw [Nat.add_comm, Nat.add_mul_div_right _ _ hw, hx0, Nat.zero_add]
  rw [hmod, hdiv, Nat.div_add_mod', colPass_rd dir R x y (by exact hx) (by exact hy)]
  congr 2
  unfold Grid.col
  apply tab_congr
  intro i hi
  have hi' : i < g.h := hi
  have him : i % g.w < g.w := Nat.mod_lt _ hw
  have hrow : x + i / g.w * g.w < g.h := by
    have := hin _ _ (hdivlt i hi') hx
    omega
  rw [blockTranspose_rd _ _ _ _ (by exact him) (by exact hrow)]
  have a1 : i % g.w / g.w = 0 := Nat.div_eq_of_lt him
  have a2 : i % g.w % g.w = i % g.w := Nat.mod_eq_of_lt him
  have a3 : (x + i / g.w * g.w) % g.w = x := by
    rw [Nat.add_mul_mod_self_right, hxm]
  have a4 : (x + i / g.w * g.w) / g.w = i / g.w := by
    rw [Nat.add_mul_div_right _ _ hw, hx0, Nat.zero_add]
  rw [a1, a2, a3, a4, Nat.zero_mul, Nat.zero_add, Nat.div_add_mod']

/-- away from the special cases (`w, h ∉ {1, 2}`) `dct_2d` takes the general path -/
theorem dct2d_eq_general (dir : Dir) (g : Grid α) (hw : 4 ≤ g.w) (hh : 4 ≤ g.h) :
    dct2d dir g = dct2dGeneral dir g := by
  have h1 : ¬ g.w * g.h ≤ 1 := by
    have : 4 * 4 ≤ g.w * g.h := Nat.mul_le_mul hw hh
    omega
  unfold dct2d
  simp only [h1, if_false]
  split_ifs <;> first | rfl | omega

/-- the general path on power-of-two shapes is rows-then-columns -/
theorem dct2d_separable_pow2 (dir : Dir) (g : Grid α) (a b : ℕ) (ha : 2 ≤ a) (hb : 2 ≤ b)
    (hw : g.w = 2 ^ a) (hh : g.h = 2 ^ b) (x y : ℕ) (hx : x < g.w) (hy : y < g.h) :
    (dct2d dir g).rd x y = (dct2dSep dir g).rd x y := by
  have h4a : 4 ≤ g.w := by
    rw [hw]; calc 4 = 2 ^ 2 := rfl
      _ ≤ 2 ^ a := Nat.pow_le_pow_right (by omega) ha
  have h4b : 4 ≤ g.h := by
    rw [hh]; calc 4 = 2 ^ 2 := rfl
      _ ≤ 2 ^ b := Nat.pow_le_pow_right (by omega) hb
  rw [dct2d_eq_general dir g h4a h4b]
  by_cases hle : g.h ≤ g.w
  · have hba : b ≤ a := by
      rw [hw, hh] at hle
      exact (Nat.pow_le_pow_iff_right (by omega)).mp hle
    exact dct2dGeneral_wide dir g hle (by rw [hw, hh]; exact Nat.pow_dvd_pow 2 hba) x y hx hy
  · have hab : a ≤ b := by
      have : g.w ≤ g.h := by omega
      rw [hw, hh] at this
      exact (Nat.pow_le_pow_iff_right (by omega)).mp this
    exact dct2dGeneral_tall dir g (by omega) (by rw [hw, hh]; exact Nat.pow_dvd_pow 2 hab) x y hx hy

end generic

/-! ## over ℝ: the 2-D inverse driver equals the separable cosine-sum definition -/

theorem idctDef_congr {N : ℕ} (hN : 0 < N) {c c' : ℕ → ℝ} (j : ℕ) (h : ∀ i < N, c i = c' i) :
    idctDef N c j = idctDef N c' j := by
  rw [idctDef_eq_S N hN, idctDef_eq_S N hN, S_congr _ h]

theorem idct2d_eq_def (g : Grid ℝ) (a b : ℕ) (ha : 2 ≤ a) (hb : 2 ≤ b)
    (hw : g.w = 2 ^ a) (hh : g.h = 2 ^ b) (x y : ℕ) (hx : x < g.w) (hy : y < g.h) :
    (dct2d .inverse g).rd x y = (idct2dDef g).rd x y := by
  have hwpos : 0 < g.w := by omega
  have hhpos : 0 < g.h := by omega
  rw [dct2d_separable_pow2 .inverse g a b ha hb hw hh x y hx hy]
  unfold dct2dSep
  rw [colPass_rd _ _ _ _ (by exact hx) (by exact hy)]
  change rd (dct1 .inverse g.h ((rowPass .inverse g).col x)) y = _
  have hy' : y < 2 ^ b := by omega
  unfold dct1
  simp only [hh, Nat.log2_two_pow]
  rw [idct_computes b _ y hy', ← idctDef_eq_S _ (by positivity)]
  unfold idct2dDef
  simp only
  rw [Grid.rd_tab _ _ _ _ _ hx hy, hh]
  apply idctDef_congr (by positivity)
  intro v hv
  have hv' : v < g.h := by omega
  unfold Grid.col
  rw [Dct.rd_tab _ _ _ (by rw [show (rowPass Dir.inverse g).h = g.h from rfl]; exact hv'),
    rowPass_rd _ _ _ _ hx hv', Grid.rd_tab _ _ _ _ _ hx hv]
  unfold dct1
  simp only [hw, Nat.log2_two_pow]
  have hx' : x < 2 ^ a := by omega
  rw [idct_computes a _ x hx', ← idctDef_eq_S _ (by positivity)]
  apply idctDef_congr (by positivity)
  intro u hu
  unfold Grid.row
  rw [Dct.rd_tab _ _ _ (by omega)]

end Jxl.Dct
