import JxlModel.Proofs.FlattenBase
/-!
# `try_compile_to_table` is correct

`tryCompile` walks a chain of decisions on the property of its root (`compileLoop`), keeping for
every visited sub-tree the value range that reaches it, and writes an index table. This file proves:
for every in-range value of the property the table entry `getLeafLoop` reads is the index of a
sub-tree that evaluates like the root (`tryCompile_correct`).

Structure:
* `CStep`: one iteration of `compileLoop` as a relation (emit / go right / go left / split);
  `compileLoop_run`: any invariant preserved by `CStep` holds when the loop stops, and the loop stops
  with an empty work list (fuel `2 * size + 4` is enough);
* `CSem`: the work list and the finished ranges partition `[i32Min, i32Max]` in increasing order,
  every range node is what the chain selects on its range, and all range ends other than `i32Max`
  lie in `[lb, ub]`;
* `sortByEnd` is the identity on the finished ranges (they are produced in increasing order);
* `fill_correct`: the index fill writes, at the position `getLeafLoop` computes for the value, the
  index of the range that contains the value (the range ending at `i32Max` takes the whole tail of
  the table — the repaired code; the unrepaired fold is in `Proofs/TableOld.lean`).
-/
namespace Jxl.Modular

variable (c s pc : Nat)

/-! ## one iteration of `compileLoop` -/

/-- one iteration of `compileLoop`, as a relation between `(stack, lb, ub, acc)` states -/
inductive CStep (prop : Nat) :
    List (Tree × Int × Int) → Int → Int → List (Tree × Int) →
    List (Tree × Int × Int) → Int → Int → List (Tree × Int) → Prop
  /-- the node is finished (leaf, other property, or the span rule): it becomes a range node -/
  | emit (n : Tree) (lo hi : Int) (stack : List (Tree × Int × Int)) (lb ub : Int) (acc : List (Tree × Int)) :
      CStep prop ((n, lo, hi) :: stack) lb ub acc stack lb ub (acc ++ [(n.next c s pc, hi)])
  | right (n : Tree) (lo hi : Int) (stack : List (Tree × Int × Int)) (lb ub : Int) (acc : List (Tree × Int))
      (v : Int) (l r : Tree) (hn : n.next c s pc = .dec prop v l r) (hv : v ≥ hi) :
      CStep prop ((n, lo, hi) :: stack) lb ub acc ((r, lo, hi) :: stack) lb ub acc
  | left (n : Tree) (lo hi : Int) (stack : List (Tree × Int × Int)) (lb ub : Int) (acc : List (Tree × Int))
      (v : Int) (l r : Tree) (hn : n.next c s pc = .dec prop v l r) (hv : v < lo) :
      CStep prop ((n, lo, hi) :: stack) lb ub acc ((l, lo, hi) :: stack) lb ub acc
  | split (n : Tree) (lo hi : Int) (stack : List (Tree × Int × Int)) (lb ub : Int) (acc : List (Tree × Int))
      (v : Int) (l r : Tree) (hn : n.next c s pc = .dec prop v l r) (h1 : lo ≤ v) (h2 : v < hi)
      (h3 : max ub v - min lb v ≤ 1022) :
      CStep prop ((n, lo, hi) :: stack) lb ub acc ((r, lo, v) :: (l, v + 1, hi) :: stack)
        (min lb v) (max ub v) acc

theorem compileLoop_step (prop fuel : Nat) (n : Tree) (lo hi : Int) (stack : List (Tree × Int × Int))
    (lb ub : Int) (acc : List (Tree × Int)) :
    ∃ stack' lb' ub' acc', CStep c s pc prop ((n, lo, hi) :: stack) lb ub acc stack' lb' ub' acc' ∧
      compileLoop c s pc prop (fuel + 1) ((n, lo, hi) :: stack) lb ub acc =
        compileLoop c s pc prop fuel stack' lb' ub' acc' := by
  rw [compileLoop]
  cases hn : n.next c s pc with
  | leaf l0 =>
    refine ⟨_, _, _, _, CStep.emit n lo hi stack lb ub acc, ?_⟩
    simp only [hn]
  | dec p v l r =>
    simp only []
    by_cases hp : p = prop
    · subst hp
      simp only [beq_self_eq_true, if_true]
      by_cases h1 : v ≥ hi
      · refine ⟨_, _, _, _, CStep.right n lo hi stack lb ub acc v l r hn h1, ?_⟩
        simp only [h1, if_true]
      · by_cases h2 : v < lo
        · refine ⟨_, _, _, _, CStep.left n lo hi stack lb ub acc v l r hn h2, ?_⟩
          simp only [h1, h2, if_true, if_false]
        · by_cases h3 : (max ub v - min lb v).toNat > 1024 - 2
          · refine ⟨_, _, _, _, CStep.emit n lo hi stack lb ub acc, ?_⟩
            simp only [h1, h2, h3, if_true, if_false, hn]
          · refine ⟨_, _, _, _, CStep.split n lo hi stack lb ub acc v l r hn (by omega) (by omega) (by omega), ?_⟩
            have e1 : v + 1 ≤ hi := by omega
            have e2 : lo ≤ v := by omega
            simp only [h1, h2, h3, e1, e2, if_true, if_false]
    · have hpb : (p == prop) = false := by simp [hp]
      refine ⟨_, _, _, _, CStep.emit n lo hi stack lb ub acc, ?_⟩
      simp only [hpb, hn]
      rfl

/-- nodes on the work list -/
def stackNodes (stack : List (Tree × Int × Int)) : List Tree := stack.map (·.1)
/-- nodes of the finished ranges -/
def accNodes (acc : List (Tree × Int)) : List Tree := acc.map (·.1)

theorem wt_next_le (t : Tree) : wt (t.next c s pc) ≤ wt t := by
  have := next_size_le c s pc t
  unfold wt; omega

theorem wt_dec (p : Nat) (v : Int) (l r : Tree) : wt (.dec p v l r) = wt l + wt r + 3 := by
  have := size_pos l; have := size_pos r
  simp only [wt, Tree.size]; omega

/-- every iteration strictly decreases the weight of the work list -/
theorem CStep_wts_lt (prop : Nat) {st lb ub acc st' lb' ub' acc'}
    (h : CStep c s pc prop st lb ub acc st' lb' ub' acc') :
    wts (stackNodes st') < wts (stackNodes st) := by
  cases h with
  | emit n lo hi stack lb ub acc =>
    have := wt_pos n
    simp only [stackNodes, List.map_cons, wts_cons]; omega
  | right n lo hi stack lb ub acc v l r hn hv =>
    have h1 := wt_next_le c s pc n
    rw [hn, wt_dec] at h1
    simp only [stackNodes, List.map_cons, wts_cons]; omega
  | left n lo hi stack lb ub acc v l r hn hv =>
    have h1 := wt_next_le c s pc n
    rw [hn, wt_dec] at h1
    simp only [stackNodes, List.map_cons, wts_cons]; omega
  | split n lo hi stack lb ub acc v l r hn h1 h2 h3 =>
    have h1 := wt_next_le c s pc n
    rw [hn, wt_dec] at h1
    simp only [stackNodes, List.map_cons, wts_cons]; omega

/-- **the loop runs to an empty work list**, and any `CStep`-invariant holds of the result -/
theorem compileLoop_run (prop : Nat)
    (I : List (Tree × Int × Int) → Int → Int → List (Tree × Int) → Prop)
    (hI : ∀ st lb ub acc st' lb' ub' acc', CStep c s pc prop st lb ub acc st' lb' ub' acc' →
      I st lb ub acc → I st' lb' ub' acc') :
    ∀ (fuel : Nat) (stack : List (Tree × Int × Int)) (lb ub : Int) (acc : List (Tree × Int)),
      wts (stackNodes stack) ≤ fuel → I stack lb ub acc →
      ∃ lb' ub' acc', compileLoop c s pc prop fuel stack lb ub acc = (lb', ub', acc') ∧
        I [] lb' ub' acc' := by
  intro fuel
  induction fuel with
  | zero =>
    intro stack lb ub acc hw hi
    cases stack with
    | nil => exact ⟨lb, ub, acc, by simp [compileLoop], hi⟩
    | cons e stack =>
      have := wt_pos e.1
      simp only [stackNodes, List.map_cons, wts_cons] at hw; omega
  | succ fuel ih =>
    intro stack lb ub acc hw hi
    cases stack with
    | nil => exact ⟨lb, ub, acc, by simp [compileLoop], hi⟩
    | cons e stack =>
      obtain ⟨n, lo, hi'⟩ := e
      obtain ⟨st', lb', ub', acc', hstep, heq⟩ := compileLoop_step c s pc prop fuel n lo hi' stack lb ub acc
      have hlt := CStep_wts_lt c s pc prop hstep
      rw [heq]
      exact ih st' lb' ub' acc' (by omega) (hI _ _ _ _ _ _ _ _ hstep hi)

/-! ## the nodes handed on: sub-trees of the root, and lighter than it -/

def CNodes (P : Tree → Prop) (W : Nat) (stack : List (Tree × Int × Int)) (_lb _ub : Int)
    (acc : List (Tree × Int)) : Prop :=
  (∀ n ∈ accNodes acc, AllSub P n) ∧ (∀ n ∈ stackNodes stack, AllSub P n) ∧
    wts (accNodes acc) + wts (stackNodes stack) ≤ W

theorem CNodes_step (P : Tree → Prop) (W prop : Nat) {st lb ub acc st' lb' ub' acc'}
    (h : CStep c s pc prop st lb ub acc st' lb' ub' acc') (hi : CNodes P W st lb ub acc) :
    CNodes P W st' lb' ub' acc' := by
  obtain ⟨ha, hs, hw⟩ := hi
  cases h with
  | emit n lo hi stack lb ub acc =>
    have h1 := wt_next_le c s pc n
    have hn : AllSub P (n.next c s pc) := AllSub_next c s pc P n (hs n (by simp [stackNodes]))
    refine ⟨?_, ?_, ?_⟩
    · intro m hm
      simp only [accNodes, List.map_append, List.map_cons, List.map_nil, List.mem_append,
        List.mem_singleton] at hm
      rcases hm with hm | rfl
      · exact ha m hm
      · exact hn
    · intro m hm; exact hs m (by simp only [stackNodes, List.map_cons, List.mem_cons] at hm ⊢; exact Or.inr hm)
    · simp only [accNodes, stackNodes, List.map_append, List.map_cons, List.map_nil, wts_append,
        wts_cons] at hw ⊢
      simp only [wts, List.map_nil, List.sum_nil] at hw ⊢
      omega
  | right n lo hi stack lb ub acc v l r hn hv =>
    have h1 := wt_next_le c s pc n
    rw [hn, wt_dec] at h1
    have hsub : AllSub P (n.next c s pc) := AllSub_next c s pc P n (hs n (by simp [stackNodes]))
    rw [hn] at hsub
    refine ⟨ha, ?_, ?_⟩
    · intro m hm
      simp only [stackNodes, List.map_cons, List.mem_cons] at hm
      rcases hm with rfl | hm
      · exact hsub.2.2
      · exact hs m (by simp only [stackNodes, List.map_cons, List.mem_cons]; exact Or.inr hm)
    · simp only [stackNodes, List.map_cons, wts_cons] at hw ⊢; omega
  | left n lo hi stack lb ub acc v l r hn hv =>
    have h1 := wt_next_le c s pc n
    rw [hn, wt_dec] at h1
    have hsub : AllSub P (n.next c s pc) := AllSub_next c s pc P n (hs n (by simp [stackNodes]))
    rw [hn] at hsub
    refine ⟨ha, ?_, ?_⟩
    · intro m hm
      simp only [stackNodes, List.map_cons, List.mem_cons] at hm
      rcases hm with rfl | hm
      · exact hsub.2.1
      · exact hs m (by simp only [stackNodes, List.map_cons, List.mem_cons]; exact Or.inr hm)
    · simp only [stackNodes, List.map_cons, wts_cons] at hw ⊢; omega
  | split n lo hi stack lb ub acc v l r hn h1 h2 h3 =>
    have h1 := wt_next_le c s pc n
    rw [hn, wt_dec] at h1
    have hsub : AllSub P (n.next c s pc) := AllSub_next c s pc P n (hs n (by simp [stackNodes]))
    rw [hn] at hsub
    refine ⟨ha, ?_, ?_⟩
    · intro m hm
      simp only [stackNodes, List.map_cons, List.mem_cons] at hm
      rcases hm with rfl | rfl | hm
      · exact hsub.2.2
      · exact hsub.2.1
      · exact hs m (by simp only [stackNodes, List.map_cons, List.mem_cons]; exact Or.inr hm)
    · simp only [stackNodes, List.map_cons, wts_cons] at hw ⊢; omega

/-! ## the ranges partition `[i32Min, i32Max]` and select what the chain selects -/

/-- finished ranges: consecutive from `start`, the next one would begin at `cur`; the node of the
range that contains `x` evaluates to `L` -/
def AccOK (ev : Tree → Leaf) (x : Int) (L : Leaf) : Int → List (Tree × Int) → Int → Prop
  | start, [], cur => cur = start
  | start, (n, e) :: rest, cur =>
    start ≤ e ∧ e ≤ i32Max ∧ (start ≤ x → x ≤ e → ev n = L) ∧ AccOK ev x L (e + 1) rest cur

/-- work list: consecutive ranges from `start` up to `i32Max` -/
def StackOK (ev : Tree → Leaf) (x : Int) (L : Leaf) : Int → List (Tree × Int × Int) → Prop
  | start, [] => start = i32Max + 1
  | start, (n, lo, hi) :: rest =>
    lo = start ∧ lo ≤ hi ∧ hi ≤ i32Max ∧ (lo ≤ x → x ≤ hi → ev n = L) ∧ StackOK ev x L (hi + 1) rest

theorem AccOK_append (ev : Tree → Leaf) (x : Int) (L : Leaf) (n : Tree) (e : Int) :
    ∀ (acc : List (Tree × Int)) (start cur : Int), AccOK ev x L start acc cur → cur ≤ e → e ≤ i32Max →
      (cur ≤ x → x ≤ e → ev n = L) → AccOK ev x L start (acc ++ [(n, e)]) (e + 1) := by
  intro acc
  induction acc with
  | nil =>
    intro start cur h h1 h2 h3
    simp only [AccOK] at h
    subst h
    exact ⟨h1, h2, h3, rfl⟩
  | cons a acc ih =>
    intro start cur h h1 h2 h3
    obtain ⟨m, f⟩ := a
    obtain ⟨g1, g2, g3, g4⟩ := h
    exact ⟨g1, g2, g3, ih _ _ g4 h1 h2 h3⟩

theorem AccOK_ge (ev : Tree → Leaf) (x : Int) (L : Leaf) :
    ∀ (acc : List (Tree × Int)) (start cur : Int), AccOK ev x L start acc cur →
      ∀ b ∈ acc, start ≤ b.2 := by
  intro acc
  induction acc with
  | nil => intro _ _ _ b hb; simp at hb
  | cons a acc ih =>
    intro start cur h b hb
    obtain ⟨m, f⟩ := a
    obtain ⟨g1, _, _, g4⟩ := h
    rcases List.mem_cons.mp hb with rfl | hb
    · exact g1
    · have := ih _ _ g4 b hb; omega

theorem AccOK_pairwise (ev : Tree → Leaf) (x : Int) (L : Leaf) :
    ∀ (acc : List (Tree × Int)) (start cur : Int), AccOK ev x L start acc cur →
      acc.Pairwise (fun a b => a.2 ≤ b.2) := by
  intro acc
  induction acc with
  | nil => intro _ _ _; exact List.Pairwise.nil
  | cons a acc ih =>
    intro start cur h
    obtain ⟨m, f⟩ := a
    obtain ⟨_, _, _, g4⟩ := h
    refine List.Pairwise.cons ?_ (ih _ _ g4)
    intro b hb
    have := AccOK_ge ev x L acc _ _ g4 b hb
    show f ≤ b.2
    omega

/-- all range ends: finished ranges, then the work list -/
def ends (acc : List (Tree × Int)) (stack : List (Tree × Int × Int)) : List Int :=
  acc.map (·.2) ++ stack.map (·.2.2)

theorem mem_ends (acc : List (Tree × Int)) (stack : List (Tree × Int × Int)) (e : Int) :
    e ∈ ends acc stack ↔ (∃ a ∈ acc, a.2 = e) ∨ (∃ a ∈ stack, a.2.2 = e) := by
  simp only [ends, List.mem_append, List.mem_map]

def CSem (ev : Tree → Leaf) (x : Int) (L : Leaf) (stack : List (Tree × Int × Int)) (lb ub : Int)
    (acc : List (Tree × Int)) : Prop :=
  ∃ cur, AccOK ev x L i32Min acc cur ∧ StackOK ev x L cur stack ∧ lb ≤ ub ∧ ub ≤ i32Max ∧
    ub - lb ≤ 1022 ∧ (∀ e ∈ ends acc stack, e ≠ i32Max → lb ≤ e ∧ e ≤ ub)

theorem E_dec (props : Nat → Int) (p : Nat) (v : Int) (l r : Tree) (hp : isStatic pc p = false) :
    E c s pc props (.dec p v l r) =
      if props p > v then E c s pc props l else E c s pc props r := by
  simp only [E, Tree.eval, specProps_nonstatic c s pc props p hp]

theorem CSem_step (props : Nat → Int) (prop : Nat) (hp : isStatic pc prop = false) (L : Leaf)
    {st lb ub acc st' lb' ub' acc'}
    (h : CStep c s pc prop st lb ub acc st' lb' ub' acc')
    (hi : CSem (E c s pc props) (props prop) L st lb ub acc) :
    CSem (E c s pc props) (props prop) L st' lb' ub' acc' := by
  obtain ⟨cur, ha, hs, h1, h2, h3, h5⟩ := hi
  cases h with
  | emit n lo hi stack lb ub acc =>
    obtain ⟨s1, s2, s3, s4, s5⟩ := hs
    subst s1
    refine ⟨hi + 1, ?_, s5, h1, h2, h3, ?_⟩
    · refine AccOK_append _ _ _ _ _ _ _ _ ha s2 s3 ?_
      intro a b
      have : E c s pc props (n.next c s pc) = E c s pc props n := next_eval c s pc props n
      rw [this]; exact s4 a b
    · intro e he
      apply h5
      rw [mem_ends] at he ⊢
      simp only [List.mem_append, List.mem_cons, List.not_mem_nil, or_false] at he ⊢
      rcases he with ⟨a, ha' | ha', e⟩ | ⟨a, ha', e⟩
      · exact Or.inl ⟨a, ha', e⟩
      · subst ha'; exact Or.inr ⟨(n, lo, hi), Or.inl rfl, e⟩
      · exact Or.inr ⟨a, Or.inr ha', e⟩
  | right n lo hi stack lb ub acc v l r hn hv =>
    obtain ⟨s1, s2, s3, s4, s5⟩ := hs
    refine ⟨cur, ha, ⟨s1, s2, s3, ?_, s5⟩, h1, h2, h3, h5⟩
    intro a b
    have e1 : E c s pc props (n.next c s pc) = E c s pc props n := next_eval c s pc props n
    rw [hn, E_dec c s pc props prop v l r hp] at e1
    have : ¬ (props prop > v) := by omega
    rw [if_neg this] at e1
    rw [e1]; exact s4 a b
  | left n lo hi stack lb ub acc v l r hn hv =>
    obtain ⟨s1, s2, s3, s4, s5⟩ := hs
    refine ⟨cur, ha, ⟨s1, s2, s3, ?_, s5⟩, h1, h2, h3, h5⟩
    intro a b
    have e1 : E c s pc props (n.next c s pc) = E c s pc props n := next_eval c s pc props n
    rw [hn, E_dec c s pc props prop v l r hp] at e1
    have : props prop > v := by omega
    rw [if_pos this] at e1
    rw [e1]; exact s4 a b
  | split n lo hi stack lb ub acc v l r hn g1 g2 g3 =>
    obtain ⟨s1, s2, s3, s4, s5⟩ := hs
    have e1 : E c s pc props (n.next c s pc) = E c s pc props n := next_eval c s pc props n
    rw [hn, E_dec c s pc props prop v l r hp] at e1
    refine ⟨cur, ha, ⟨s1, g1, by omega, ?_, rfl, by omega, s3, ?_, s5⟩, by omega, by omega, g3, ?_⟩
    · intro a b
      have : ¬ (props prop > v) := by omega
      rw [if_neg this] at e1
      rw [e1]; exact s4 a (by omega)
    · intro a b
      have : props prop > v := by omega
      rw [if_pos this] at e1
      rw [e1]; exact s4 (by omega) b
    · intro e he hne
      rw [mem_ends] at he
      have old : e = v ∨ e ∈ ends acc ((n, lo, hi) :: stack) := by
        rw [mem_ends]
        rcases he with he | ⟨a, ha', e'⟩
        · exact Or.inr (Or.inl he)
        · rcases List.mem_cons.mp ha' with rfl | ha'
          · exact Or.inl e'.symm
          · rcases List.mem_cons.mp ha' with rfl | ha'
            · exact Or.inr (Or.inr ⟨(n, lo, hi), by simp, e'⟩)
            · exact Or.inr (Or.inr ⟨a, by simp [ha'], e'⟩)
      clear he
      rcases old with old | old
      · subst old; omega
      · have := h5 e old hne; omega

/-! ## `sortByEnd` is the identity on the finished ranges -/

theorem span_loop_all {α} (p : α → Bool) : ∀ (l acc : List α), (∀ a ∈ l, p a = true) →
    List.span.loop p l acc = (acc.reverse ++ l, []) := by
  intro l
  induction l with
  | nil => intro acc _; simp [List.span.loop]
  | cons a l ih =>
    intro acc h
    have ha : p a = true := h a (by simp)
    rw [List.span.loop]
    simp only [ha]
    rw [ih (a :: acc) (fun b hb => h b (by simp [hb]))]
    simp

theorem span_all {α} (p : α → Bool) (l : List α) (h : ∀ a ∈ l, p a = true) : l.span p = (l, []) := by
  unfold List.span
  rw [span_loop_all p l [] h]; simp

theorem sortByEnd_foldl :
    ∀ (l pre : List (Tree × Int)), (∀ a ∈ pre, ∀ b ∈ l, a.2 ≤ b.2) →
      l.Pairwise (fun a b => a.2 ≤ b.2) →
      l.foldl (fun acc e =>
        let (a, b) := acc.span (fun x => x.2 ≤ e.2)
        a ++ e :: b) pre = pre ++ l := by
  intro l
  induction l with
  | nil => intro pre _ _; simp
  | cons e l ih =>
    intro pre h1 h2
    rw [List.foldl_cons]
    have hs : pre.span (fun x => decide (x.2 ≤ e.2)) = (pre, []) :=
      span_all _ pre (fun a ha => by simpa using h1 a ha e (by simp))
    simp only [hs]
    rw [ih (pre ++ [e]) ?_ (List.pairwise_cons.mp h2).2]
    · simp
    · intro a ha b hb
      rcases List.mem_append.mp ha with ha | ha
      · exact h1 a ha b (by simp [hb])
      · simp only [List.mem_singleton] at ha
        subst ha
        exact (List.pairwise_cons.mp h2).1 b hb

theorem sortByEnd_eq_self (l : List (Tree × Int)) (h : l.Pairwise (fun a b => a.2 ≤ b.2)) :
    sortByEnd l = l := by
  unfold sortByEnd
  rw [sortByEnd_foldl l [] (by intro a ha; simp at ha) h]
  simp

/-! ## `fillRange` -/

theorem fillRange_size (a : Array Nat) (start val : Nat) : ∀ len, (fillRange a start len val).size = a.size := by
  intro len
  induction len with
  | zero => simp [fillRange]
  | succ len ih =>
    simp only [fillRange, List.range_succ, List.foldl_append, List.foldl_cons, List.foldl_nil,
      Array.size_setIfInBounds] at ih ⊢
    exact ih

theorem fillRange_getD (a : Array Nat) (start val q : Nat) : ∀ len,
    (fillRange a start len val).getD q 0 =
      if start ≤ q ∧ q < start + len ∧ q < a.size then val else a.getD q 0 := by
  intro len
  induction len with
  | zero =>
    have : ¬ (start ≤ q ∧ q < start + 0 ∧ q < a.size) := by omega
    rw [if_neg this]
    simp [fillRange]
  | succ len ih =>
    have hsz := fillRange_size a start val len
    simp only [fillRange, List.range_succ, List.foldl_append, List.foldl_cons, List.foldl_nil] at ih hsz ⊢
    generalize List.foldl (fun a i => a.setIfInBounds (start + i) val) a (List.range len) = b at ih hsz
    simp only [Array.getD_eq_getD_getElem?, Array.getElem?_setIfInBounds] at ih ⊢
    by_cases hq : start + len = q
    · subst hq
      by_cases hlt : start + len < a.size
      · have h1 : start + len < b.size := by omega
        have h2 : start ≤ start + len ∧ start + len < start + (len + 1) ∧ start + len < a.size := by omega
        simp [h1, h2]
      · have h1 : ¬ (start + len < b.size) := by omega
        have h2 : ¬ (start ≤ start + len ∧ start + len < start + (len + 1) ∧ start + len < a.size) := by omega
        have h3 : ¬ (start ≤ start + len ∧ start + len < start + len ∧ start + len < a.size) := by omega
        simp only [h3, if_false] at ih
        simp only [if_true, h1, h2, if_false]
        have : b[start + len]? = none := by simp; omega
        have : a[start + len]? = none := by simp; omega
        simp [*]
    · simp only [hq, if_false]
      rw [ih]
      by_cases h : start ≤ q ∧ q < start + len ∧ q < a.size
      · have h2 : start ≤ q ∧ q < start + (len + 1) ∧ q < a.size := by omega
        simp [h, h2]
      · have h2 : ¬ (start ≤ q ∧ q < start + (len + 1) ∧ q < a.size) := by omega
        simp [h, h2]

/-! ## the index fill -/

/-- fold state of the index fill: `(indices, nodes, range_start, next_index, idx, done)` -/
abbrev TSt := Array Nat × List Tree × Int × Nat × Nat × Bool

/-- the body of the `for` loop over the sorted range nodes in `tryCompile` -/
def tblStep (nextBase : Nat) (st : TSt) (e : Tree × Int) : TSt :=
  let (ind, nodes, rangeStart, nextIdx, idx, done) := st
  if done then st
  else if e.2 == i32Max then
    (fillRange ind nextIdx (ind.size - nextIdx) (nextBase + idx), nodes ++ [e.1], rangeStart, nextIdx, idx + 1, true)
  else
    let len := (e.2 - rangeStart).toNat
    (fillRange ind nextIdx len (nextBase + idx), nodes ++ [e.1], e.2, nextIdx + len, idx + 1, false)

/-- the initial work list of `tryCompile` -/
def compileInit (value : Int) (l r : Tree) : List (Tree × Int × Int) :=
  [(r, i32Min, value)] ++ (if value + 1 ≤ i32Max then [(l, value + 1, i32Max)] else [])

theorem tryCompile_dec (prop : Nat) (value : Int) (l r : Tree) (nb : Nat) :
    tryCompile c s pc (.dec prop value l r) nb =
      match compileLoop c s pc prop (2 * (Tree.dec prop value l r).size + 4) (compileInit value l r)
          value value [] with
      | (lb, ub, rn) =>
        if rn.length < 4 then none
        else
          match (sortByEnd rn).foldl (tblStep nb)
              (Array.replicate ((ub - lb).toNat + 2) 0, [], lb - 1, 0, 0, false) with
          | (ind, nodes, _, _, _, _) => some (.table prop lb ind, nodes) := rfl

theorem tblStep_done (nb : Nat) (ind : Array Nat) (nodes : List Tree) (rs : Int) (ni idx : Nat)
    (e : Tree × Int) : tblStep nb (ind, nodes, rs, ni, idx, true) e = (ind, nodes, rs, ni, idx, true) := rfl

theorem tblStep_max (nb : Nat) (ind : Array Nat) (nodes : List Tree) (rs : Int) (ni idx : Nat)
    (n : Tree) :
    tblStep nb (ind, nodes, rs, ni, idx, false) (n, i32Max) =
      (fillRange ind ni (ind.size - ni) (nb + idx), nodes ++ [n], rs, ni, idx + 1, true) := by
  simp [tblStep]

theorem tblStep_fill (nb : Nat) (ind : Array Nat) (nodes : List Tree) (rs : Int) (ni idx : Nat)
    (n : Tree) (e : Int) (he : e ≠ i32Max) :
    tblStep nb (ind, nodes, rs, ni, idx, false) (n, e) =
      (fillRange ind ni (e - rs).toNat (nb + idx), nodes ++ [n], e, ni + (e - rs).toNat, idx + 1, false) := by
  simp [tblStep, he]

theorem foldl_tblStep_done (nb : Nat) (ind : Array Nat) (nodes : List Tree) (rs : Int) (ni idx : Nat) :
    ∀ (l : List (Tree × Int)),
      l.foldl (tblStep nb) (ind, nodes, rs, ni, idx, true) = (ind, nodes, rs, ni, idx, true) := by
  intro l
  induction l with
  | nil => rfl
  | cons e l ih => rw [List.foldl_cons, tblStep_done, ih]

theorem AccOK_top_nil (ev : Tree → Leaf) (x : Int) (L : Leaf) (rest : List (Tree × Int))
    (h : AccOK ev x L (i32Max + 1) rest (i32Max + 1)) : rest = [] := by
  cases rest with
  | nil => rfl
  | cons a rest =>
    obtain ⟨m, f⟩ := a
    obtain ⟨g1, g2, _, _⟩ := h
    omega

theorem getD_append_self {α} (a : List α) (x d : α) : (a ++ [x]).getD a.length d = x := by
  simp [List.getD]

section Fill
variable (ev : Tree → Leaf) (L : Leaf) (nb : Nat) (lb ub xm : Int) (j : Nat)

/-- the table position `j` of the value already holds the index of a node that evaluates to `L` -/
def Found (ind : Array Nat) (nodes : List Tree) : Prop :=
  ∃ i, ind.getD j 0 = nb + i ∧ i < nodes.length ∧ ev (nodes.getD i default) = L

theorem Found_mono (ind ind' : Array Nat) (nodes : List Tree) (n : Tree)
    (h : Found ev L nb j ind nodes) (hind : ind'.getD j 0 = ind.getD j 0) :
    Found ev L nb j ind' (nodes ++ [n]) := by
  obtain ⟨i, h1, h2, h3⟩ := h
  refine ⟨i, by rw [hind, h1], by simp; omega, ?_⟩
  rw [getD_append_left _ _ _ _ h2]; exact h3

/-- **the index fill is correct**: `xm` is the looked-up value (clamped below to `lb`), `j` its
table position; after the fold, position `j` holds the index of the range containing `xm`. -/
theorem fill_correct (hxm2 : xm ≤ i32Max)
    (hj1 : xm ≤ ub → (j : Int) = xm - lb) (hj2 : ub < xm → (j : Int) = ub - lb + 1) :
    ∀ (rest : List (Tree × Int)) (ind : Array Nat) (nodes : List Tree) (rs : Int) (ni idx : Nat),
      AccOK ev xm L (rs + 1) rest (i32Max + 1) →
      (∀ e ∈ rest, e.2 ≠ i32Max → lb ≤ e.2 ∧ e.2 ≤ ub) →
      ind.size = (ub - lb).toNat + 2 → idx = nodes.length → (ni : Int) = rs - lb + 1 →
      lb - 1 ≤ rs → rs ≤ ub → rs < i32Max →
      (rs < xm ∨ (j < ni ∧ Found ev L nb j ind nodes)) →
      ∃ ind' nodes' a b d, rest.foldl (tblStep nb) (ind, nodes, rs, ni, idx, false) = (ind', nodes', a, b, d, true) ∧
        ind'.size = ind.size ∧ Found ev L nb j ind' nodes' ∧ nodes' = nodes ++ rest.map (·.1) := by
  intro rest
  induction rest with
  | nil =>
    intro ind nodes rs ni idx hacc _ _ _ _ _ _ hrs _
    simp only [AccOK] at hacc
    omega
  | cons a rest ih =>
    intro ind nodes rs ni idx hacc hb hsz hidx hni hrs1 hrs2 hrs3 hf
    obtain ⟨n, e⟩ := a
    obtain ⟨g1, g2, g3, g4⟩ := hacc
    rw [List.foldl_cons]
    by_cases he : e = i32Max
    · -- the last range: every remaining entry
      subst he
      have hnil := AccOK_top_nil ev xm L rest g4
      subst hnil
      rw [tblStep_max, List.foldl_nil]
      refine ⟨_, _, _, _, _, rfl, by rw [fillRange_size], ?_, by simp⟩
      rcases hf with hf | ⟨hf1, hf2⟩
      · refine ⟨idx, ?_, by simp; omega, ?_⟩
        · rw [fillRange_getD]
          have : ni ≤ j ∧ j < ni + (ind.size - ni) ∧ j < ind.size := by
            by_cases hxu : xm ≤ ub
            · have := hj1 hxu; omega
            · have := hj2 (by omega); omega
          simp [this]
        · rw [hidx, getD_append_self]
          exact g3 (by omega) hxm2
      · refine Found_mono ev L nb j ind _ nodes n hf2 ?_
        rw [fillRange_getD]
        have : ¬ (ni ≤ j ∧ j < ni + (ind.size - ni) ∧ j < ind.size) := by omega
        simp [this]
    · rw [tblStep_fill nb ind nodes rs ni idx n e he]
      have hbe := hb (n, e) (by simp) he
      simp only at hbe
      have hlen : ((e - rs).toNat : Int) = e - rs := by omega
      obtain ⟨ind', nodes', a, b, d, r1, r2, r3, r4⟩ :=
        ih (fillRange ind ni (e - rs).toNat (nb + idx)) (nodes ++ [n]) e (ni + (e - rs).toNat) (idx + 1)
          g4 (fun e' he' => hb e' (by simp [he']))
          (by rw [fillRange_size]; exact hsz) (by simp; omega) (by omega) (by omega) hbe.2 (by omega)
          (by
            rcases hf with hf | ⟨hf1, hf2⟩
            · by_cases hxe : xm ≤ e
              · right
                have hj := hj1 (by omega)
                refine ⟨by omega, idx, ?_, by simp; omega, ?_⟩
                · rw [fillRange_getD]
                  have : ni ≤ j ∧ j < ni + (e - rs).toNat ∧ j < ind.size := by omega
                  simp [this]
                · rw [hidx, getD_append_self]
                  exact g3 (by omega) hxe
              · left; omega
            · right
              refine ⟨by omega, Found_mono ev L nb j ind _ nodes n hf2 ?_⟩
              rw [fillRange_getD]
              have : ¬ (ni ≤ j ∧ j < ni + (e - rs).toNat ∧ j < ind.size) := by omega
              simp [this])
      refine ⟨ind', nodes', a, b, d, r1, by rw [r2, fillRange_size], r3, by rw [r4]; simp⟩

end Fill

/-! ## the table lookup position -/

/-- the position `getLeafLoop` reads in a table of `size` entries with base `vb`, for the value `x` -/
def tblIdx (x vb : Int) (size : Nat) : Nat :=
  (clamp (clamp (x - vb) i32Min i32Max) 0 ((size : Int) - 1)).toNat

theorem tblIdx_low (x lb ub : Int) (size : Nat) (hs : size = (ub - lb).toNat + 2) (h1 : lb ≤ ub)
    (h2 : ub - lb ≤ 1022) (hx1 : i32Min ≤ x) (hx2 : x ≤ i32Max) (h : max x lb ≤ ub) :
    (tblIdx x lb size : Int) = max x lb - lb := by
  unfold tblIdx clamp
  have hx1' : (-2147483648 : Int) ≤ x := hx1
  have hx2' : x ≤ (2147483647 : Int) := hx2
  unfold i32Min i32Max
  repeat' split
  all_goals omega

theorem tblIdx_high (x lb ub : Int) (size : Nat) (hs : size = (ub - lb).toNat + 2) (h1 : lb ≤ ub)
    (h2 : ub - lb ≤ 1022) (hx1 : i32Min ≤ x) (hx2 : x ≤ i32Max) (h : ub < max x lb) :
    (tblIdx x lb size : Int) = ub - lb + 1 := by
  unfold tblIdx clamp
  have hx1' : (-2147483648 : Int) ≤ x := hx1
  have hx2' : x ≤ (2147483647 : Int) := hx2
  unfold i32Min i32Max
  repeat' split
  all_goals omega

/-! ## clamping the looked-up value to `lb` from below does not change the selected range -/

theorem AccOK_clamp_above (ev : Tree → Leaf) (x lb : Int) (L : Leaf) :
    ∀ (rest : List (Tree × Int)) (start cur : Int), lb < start → AccOK ev x L start rest cur →
      AccOK ev (max x lb) L start rest cur := by
  intro rest
  induction rest with
  | nil => intro start cur _ h; exact h
  | cons a rest ih =>
    intro start cur hs h
    obtain ⟨n, e⟩ := a
    obtain ⟨g1, g2, g3, g4⟩ := h
    refine ⟨g1, g2, ?_, ih _ _ (by omega) g4⟩
    intro a b
    have : max x lb = x := by omega
    rw [this] at a b
    exact g3 a b

theorem AccOK_clamp_cons (ev : Tree → Leaf) (x lb : Int) (L : Leaf) (n : Tree) (e : Int)
    (rest : List (Tree × Int)) (start cur : Int) (h : AccOK ev x L start ((n, e) :: rest) cur)
    (hx : start ≤ x) (hlb : lb ≤ e) :
    AccOK ev (max x lb) L lb ((n, e) :: rest) cur := by
  obtain ⟨g1, g2, g3, g4⟩ := h
  refine ⟨hlb, g2, ?_, AccOK_clamp_above ev x lb L rest _ _ (by omega) g4⟩
  intro _ b
  exact g3 hx (by omega)

/-! ## `tryCompile` -/

/-- the initial work list satisfies the invariants (one entry when `v = i32Max`: the left child is
unreachable) -/
theorem compileInit_inv (props : Nat → Int) (P : Tree → Prop) (p : Nat) (v : Int) (l r : Tree)
    (hstat : isStatic pc p = false) (hv1 : i32Min ≤ v) (hv2 : v ≤ i32Max)
    (hP : AllSub P (.dec p v l r)) :
    CSem (E c s pc props) (props p) (E c s pc props (.dec p v l r)) (compileInit v l r) v v [] ∧
      CNodes P (wt l + wt r) (compileInit v l r) v v [] := by
  have hL := E_dec c s pc props p v l r hstat
  have hr : i32Min ≤ props p → props p ≤ v → E c s pc props r = E c s pc props (.dec p v l r) := by
    intro _ b
    have : ¬ (props p > v) := by omega
    rw [hL, if_neg this]
  have hl : v + 1 ≤ props p → props p ≤ i32Max → E c s pc props l = E c s pc props (.dec p v l r) := by
    intro a _
    have : props p > v := by omega
    rw [hL, if_pos this]
  have hwl := wt_pos l
  by_cases hv : v + 1 ≤ i32Max
  · have hinit : compileInit v l r = [(r, i32Min, v), (l, v + 1, i32Max)] := by
      simp [compileInit, hv]
    rw [hinit]
    refine ⟨⟨i32Min, rfl, ⟨rfl, hv1, hv2, hr, rfl, hv, Int.le_refl _, hl, rfl⟩,
      Int.le_refl _, hv2, by omega, ?_⟩, ?_, ?_, ?_⟩
    · intro e he hne
      simp only [ends, List.map_nil, List.map_cons, List.nil_append, List.mem_cons,
        List.not_mem_nil, or_false] at he
      rcases he with rfl | rfl
      · omega
      · exact absurd rfl hne
    · intro n hn; simp [accNodes] at hn
    · intro n hn
      simp only [stackNodes, List.map_cons, List.map_nil, List.mem_cons, List.not_mem_nil, or_false] at hn
      rcases hn with rfl | rfl
      · exact hP.2.2
      · exact hP.2.1
    · simp only [accNodes, stackNodes, List.map_cons, List.map_nil, wts, List.sum_cons, List.sum_nil]
      omega
  · have hinit : compileInit v l r = [(r, i32Min, v)] := by
      simp [compileInit, hv]
    have hvm : v = i32Max := by omega
    rw [hinit]
    refine ⟨⟨i32Min, rfl, ⟨rfl, hv1, hv2, hr, (by show v + 1 = i32Max + 1; omega)⟩,
      Int.le_refl _, hv2, by omega, ?_⟩, ?_, ?_, ?_⟩
    · intro e he hne
      simp only [ends, List.map_nil, List.map_cons, List.nil_append, List.mem_cons,
        List.not_mem_nil, or_false] at he
      omega
    · intro n hn; simp [accNodes] at hn
    · intro n hn
      simp only [stackNodes, List.map_cons, List.map_nil, List.mem_cons, List.not_mem_nil, or_false] at hn
      subst hn
      exact hP.2.2
    · simp only [accNodes, stackNodes, List.map_cons, List.map_nil, wts, List.sum_cons, List.sum_nil]
      omega

theorem compileInit_wts (v : Int) (l r : Tree) (p : Nat) :
    wts (stackNodes (compileInit v l r)) ≤ 2 * (Tree.dec p v l r).size + 4 := by
  have := size_pos l; have := size_pos r
  unfold compileInit
  split <;>
    simp only [stackNodes, List.map_cons, List.map_nil, List.cons_append, List.nil_append,
      List.append_nil, wts, List.sum_cons, List.sum_nil, wt, Tree.size] <;> omega

/-- **`try_compile_to_table` is correct.** For a decision node on a non-static property whose value
fits `i32`, and an in-range value of that property: the emitted node is a table, and the entry the
walker reads (`tblIdx`) is `nb + i` where the `i`-th handed-on sub-tree evaluates like the node
itself. The handed-on sub-trees inherit `AllSub P` and are lighter than the node. -/
theorem tryCompile_correct (props : Nat → Int) (P : Tree → Prop) (p : Nat) (v : Int) (l r : Tree)
    (nb : Nat) (node : FlatNode) (nodes : List Tree)
    (hstat : isStatic pc p = false) (hv1 : i32Min ≤ v) (hv2 : v ≤ i32Max)
    (hx1 : i32Min ≤ props p) (hx2 : props p ≤ i32Max) (hP : AllSub P (.dec p v l r))
    (h : tryCompile c s pc (.dec p v l r) nb = some (node, nodes)) :
    ∃ vb ind i, node = .table p vb ind ∧ ind.getD (tblIdx (props p) vb ind.size) 0 = nb + i ∧
      i < nodes.length ∧
      E c s pc props (nodes.getD i default) = E c s pc props (.dec p v l r) ∧
      (∀ n ∈ nodes, AllSub P n) ∧ wts nodes + 3 ≤ wt (.dec p v l r) := by
  let L := E c s pc props (.dec p v l r)
  let W := wt l + wt r
  have hi0 := compileInit_inv c s pc props P p v l r hstat hv1 hv2 hP
  -- run the loop with the combined invariant
  obtain ⟨lb, ub, acc, hrun, hsem, hnodes⟩ := compileLoop_run c s pc p
    (fun st lb ub acc => CSem (E c s pc props) (props p) L st lb ub acc ∧ CNodes P W st lb ub acc)
    (fun st lb ub acc st' lb' ub' acc' hstep hi =>
      ⟨CSem_step c s pc props p hstat L hstep hi.1, CNodes_step c s pc P W p hstep hi.2⟩)
    (2 * (Tree.dec p v l r).size + 4) (compileInit v l r) v v []
    (compileInit_wts v l r p) hi0
  obtain ⟨cur, hacc, hstk, h1, h2, h3, h5⟩ := hsem
  obtain ⟨hn1, _, hn3⟩ := hnodes
  simp only [StackOK] at hstk
  subst hstk
  -- the finished ranges are sorted already
  have hsorted : sortByEnd acc = acc := sortByEnd_eq_self acc (AccOK_pairwise _ _ _ acc _ _ hacc)
  rw [tryCompile_dec, hrun] at h
  simp only [hsorted] at h
  split at h
  · exact absurd h (by simp)
  · -- the fill
    have hb : ∀ e ∈ acc, e.2 ≠ i32Max → lb ≤ e.2 ∧ e.2 ≤ ub := by
      intro e he hne
      exact h5 e.2 ((mem_ends acc [] e.2).mpr (Or.inl ⟨e, he, rfl⟩)) hne
    cases acc with
    | nil => simp only [AccOK] at hacc; unfold i32Min i32Max at hacc; omega
    | cons a0 rest =>
      obtain ⟨n0, e0⟩ := a0
      have hlbe0 : lb ≤ e0 := by
        by_cases he0 : e0 = i32Max
        · omega
        · exact (hb (n0, e0) (by simp) he0).1
      have hacc' := AccOK_clamp_cons (E c s pc props) (props p) lb L n0 e0 rest i32Min _ hacc hx1 hlbe0
      have hcount : (Array.replicate ((ub - lb).toNat + 2) 0 : Array Nat).size = (ub - lb).toNat + 2 := by simp
      obtain ⟨ind', nodes', a, b, d, r1, r2, ⟨i, f1, f2, f3⟩, r4⟩ :=
        fill_correct (E c s pc props) L nb lb ub (max (props p) lb)
          (tblIdx (props p) lb ((ub - lb).toNat + 2)) (by omega)
          (fun hle => tblIdx_low (props p) lb ub _ rfl h1 h3 hx1 hx2 hle)
          (fun hlt => tblIdx_high (props p) lb ub _ rfl h1 h3 hx1 hx2 hlt)
          ((n0, e0) :: rest) (Array.replicate ((ub - lb).toNat + 2) 0) [] (lb - 1) 0 0
          (by rw [show lb - 1 + 1 = lb by omega]; exact hacc') hb hcount rfl (by omega) (Int.le_refl _)
          (by omega) (by omega) (Or.inl (by omega))
      rw [r1] at h
      simp only [Option.some.injEq, Prod.mk.injEq] at h
      obtain ⟨hnode, hnodes⟩ := h
      subst hnode hnodes
      rw [hcount] at r2
      refine ⟨lb, ind', i, rfl, by rw [r2]; exact f1, f2, f3, ?_, ?_⟩
      · intro n hn
        rw [r4] at hn
        exact hn1 n (by simpa [accNodes] using hn)
      · rw [r4, wt_dec]
        simp only [accNodes, stackNodes, List.map_nil, wts, List.sum_nil, W, List.nil_append] at hn3 ⊢
        omega

end Jxl.Modular
