import JxlModel.Proofs.Bundle
import JxlModel.Model.Headers
/-!
# Derived header values (C14): size forms, oriented size, TOC offsets and order
-/
namespace Jxl.Headers
open Jxl Jxl.Bundle

/-! ## SizeHeader / PreviewHeader: ratio and div8 forms -/

/-- the aspect ratios of the format: 1:1, 12:10, 4:3, 3:2, 16:9, 5:4, 2:1 -/
def ratioWidth (ratio h : Nat) : Nat :=
  match ratio with
  | 1 => h
  | 2 => h * 12 / 10
  | 3 => h * 4 / 3
  | 4 => h * 3 / 2
  | 5 => h * 16 / 9
  | 6 => h * 5 / 4
  | 7 => h * 2
  | _ => 0

/-- width when it is not coded explicitly: 8·w_div8 for ratio 0, else from the height -/
def specDefaultWidth (ratio wDiv8 height : Nat) : Nat :=
  if ratio = 0 then 8 * wDiv8 else ratioWidth ratio height

/-- the scope in which `make_parse!` evaluates the `width` field of `SizeHeader`/`PreviewHeader` -/
def sizeScope (d : Bool) (a h r b : Nat) : Env :=
  [("div8", .bool d), ("h_div8", .nat a), ("height", .nat h), ("ratio", .nat r), ("w_div8", .nat b)]

def fieldDefault (b : Bundle) (i : Nat) : Expr := ((b.getD i default).dflt).getD .unit
def fieldCond (b : Bundle) (i : Nat) : Expr := (b.getD i default).cond

def wrapU (bits : Nat) (i : Int) : Nat := (i % (2 : Int) ^ bits).toNat

theorem wrapU_ofNat (bits n : Nat) (h : n < 2 ^ bits) : wrapU bits (Int.ofNat n) = n := by
  unfold wrapU
  have h2 : ((n : Nat) : Int) < (2 : Int) ^ bits := by exact_mod_cast h
  rw [Int.ofNat_eq_natCast, Int.emod_eq_of_lt (by omega) h2]
  simp

/-- `SizeHeader::compute_default_width`, as inlined into the description of `SizeHeader.width`,
computes the format's ratio table for every height (and 8·w_div8 for ratio 0) -/
theorem sizeHeader_width_default (d : Bool) (a h r b : Nat) (hr : r < 8) (hh : h ≤ 2 ^ 30)
    (hb : b ≤ 2 ^ 20) :
    eval (sizeScope d a h r b) (fieldDefault Pinned.SizeHeader 5) =
      some (.nat (specDefaultWidth r b h)) := by
  have w64 : ∀ n, n ≤ 2 ^ 30 → wrapU 64 (Int.ofNat n) = n := fun n hn => wrapU_ofNat 64 n (by omega)
  match r, hr with
  | 0, _ =>
    have e : eval (sizeScope d a h 0 b) (fieldDefault Pinned.SizeHeader 5) =
      some (.nat (wrapU 32 (Int.ofNat (8 * wrapU 64 (Int.ofNat b))))) := rfl
    rw [e, w64 b (by omega), wrapU_ofNat 32 _ (by omega)]; rfl
  | 1, _ =>
    have e : eval (sizeScope d a h 1 b) (fieldDefault Pinned.SizeHeader 5) =
      some (.nat (wrapU 32 (Int.ofNat (wrapU 64 (Int.ofNat h))))) := rfl
    rw [e, w64 h hh, wrapU_ofNat 32 _ (by omega)]; rfl
  | 2, _ =>
    have e : eval (sizeScope d a h 2 b) (fieldDefault Pinned.SizeHeader 5) =
      some (.nat (wrapU 32 (Int.ofNat (wrapU 64 (Int.ofNat h) * 12 / 10)))) := rfl
    rw [e, w64 h hh, wrapU_ofNat 32 _ (by omega)]; rfl
  | 3, _ =>
    have e : eval (sizeScope d a h 3 b) (fieldDefault Pinned.SizeHeader 5) =
      some (.nat (wrapU 32 (Int.ofNat (wrapU 64 (Int.ofNat h) * 4 / 3)))) := rfl
    rw [e, w64 h hh, wrapU_ofNat 32 _ (by omega)]; rfl
  | 4, _ =>
    have e : eval (sizeScope d a h 4 b) (fieldDefault Pinned.SizeHeader 5) =
      some (.nat (wrapU 32 (Int.ofNat (wrapU 64 (Int.ofNat h) * 3 / 2)))) := rfl
    rw [e, w64 h hh, wrapU_ofNat 32 _ (by omega)]; rfl
  | 5, _ =>
    have e : eval (sizeScope d a h 5 b) (fieldDefault Pinned.SizeHeader 5) =
      some (.nat (wrapU 32 (Int.ofNat (wrapU 64 (Int.ofNat h) * 16 / 9)))) := rfl
    rw [e, w64 h hh, wrapU_ofNat 32 _ (by omega)]; rfl
  | 6, _ =>
    have e : eval (sizeScope d a h 6 b) (fieldDefault Pinned.SizeHeader 5) =
      some (.nat (wrapU 32 (Int.ofNat (wrapU 64 (Int.ofNat h) * 5 / 4)))) := rfl
    rw [e, w64 h hh, wrapU_ofNat 32 _ (by omega)]; rfl
  | 7, _ =>
    have e : eval (sizeScope d a h 7 b) (fieldDefault Pinned.SizeHeader 5) =
      some (.nat (wrapU 32 (Int.ofNat (wrapU 64 (Int.ofNat h) * 2)))) := rfl
    rw [e, w64 h hh, wrapU_ofNat 32 _ (by omega)]; rfl

/-- the `height` default of `SizeHeader`: 8·h_div8 -/
theorem sizeHeader_height_default (d : Bool) (a : Nat) :
    eval [("div8", .bool d), ("h_div8", .nat a)] (fieldDefault Pinned.SizeHeader 2) = some (.nat (8 * a)) := rfl

/-- which of the size fields are coded: `h_div8` iff div8, `height` iff not; `w_div8` iff div8 and
ratio 0, `width` iff not div8 and ratio 0 -/
theorem sizeHeader_conds (d : Bool) (a h r b : Nat) :
    evalBool [("div8", .bool d)] (fieldCond Pinned.SizeHeader 1) = some d ∧
    evalBool [("div8", .bool d), ("h_div8", .nat a)] (fieldCond Pinned.SizeHeader 2) = some (!d) ∧
    evalBool (sizeScope d a h r b) (fieldCond Pinned.SizeHeader 4) = some (d && r == 0) ∧
    evalBool (sizeScope d a h r b) (fieldCond Pinned.SizeHeader 5) = some (!d && r == 0) := by
  have hb : (Val.nat r == Val.nat 0) = (r == 0) := by
    by_cases h0 : r = 0
    · subst h0; rfl
    · have : Val.nat r ≠ Val.nat 0 := by intro e; injection e; contradiction
      show decide (Val.nat r = Val.nat 0) = decide (r = 0)
      simp [h0, this]
  refine ⟨by cases d <;> rfl, by cases d <;> rfl, ?_, ?_⟩
  · cases d
    · rfl
    · show (match some (Val.bool (Val.nat r == Val.nat 0)) with | some (Val.bool b) => some b | _ => none) = _
      simp [hb]
  · cases d
    · show (match some (Val.bool (Val.nat r == Val.nat 0)) with | some (Val.bool b) => some b | _ => none) = _
      simp [hb]
    · rfl

/-! ## oriented size -/

theorem orientedDims_swap (o w h : Nat) :
    (5 ≤ o → orientedDims o w h = (h, w)) ∧ (o < 5 → orientedDims o w h = (w, h)) := by
  unfold orientedDims
  constructor <;> intro h' <;> simp <;> omega

/-! ## TOC: offsets are prefix sums -/

theorem prefixSums_length (l : List Nat) : ∀ b, (prefixSums b l).length = l.length := by
  induction l with
  | nil => intro b; rfl
  | cons s r ih => intro b; simp [prefixSums, ih]

theorem prefixSums_getD (l : List Nat) : ∀ b i, i < l.length →
    (prefixSums b l).getD i 0 = b + (l.take i).sum := by
  induction l with
  | nil => intro b i h; simp at h
  | cons s r ih =>
    intro b i h
    cases i with
    | zero => simp [prefixSums]
    | succ i =>
      simp only [prefixSums, List.getD_cons_succ, List.take_succ_cons, List.sum_cons]
      rw [ih (b + s) i (by simpa using h)]
      omega

/-! ## TOC: `bitstream_to_original` is the inverse permutation -/

def fillInv (a : Array Nat) (l : List (Nat × Nat)) : Array Nat :=
  l.foldl (fun (a : Array Nat) (pj : Nat × Nat) => a.setIfInBounds pj.1 pj.2) a

theorem fillInv_cons (a : Array Nat) (x : Nat × Nat) (t : List (Nat × Nat)) :
    fillInv a (x :: t) = fillInv (a.setIfInBounds x.1 x.2) t := rfl

theorem fillInv_not_mem (l : List (Nat × Nat)) : ∀ a p, p ∉ l.map Prod.fst →
    (fillInv a l)[p]? = a[p]? := by
  induction l with
  | nil => intro a p _; rfl
  | cons x t ih =>
    intro a p h
    simp only [List.map_cons, List.mem_cons, not_or] at h
    rw [fillInv_cons, ih _ p h.2, Array.getElem?_setIfInBounds]
    have : ¬ x.1 = p := fun e => h.1 e.symm
    simp [this]

theorem fillInv_mem (l : List (Nat × Nat)) : ∀ a p j, (l.map Prod.fst).Nodup → (p, j) ∈ l →
    p < a.size → (fillInv a l)[p]? = some j := by
  induction l with
  | nil => intro a p j _ h; simp at h
  | cons x t ih =>
    intro a p j hnd hm hp
    simp only [List.map_cons, List.nodup_cons] at hnd
    rw [fillInv_cons]
    rcases List.mem_cons.mp hm with h | h
    · subst h
      rw [fillInv_not_mem t _ _ hnd.1, Array.getElem?_setIfInBounds]
      simp [hp]
    · exact ih _ p j hnd.2 h (by simpa using hp)

theorem zipIdx_map_fst (l : List Nat) : ∀ k, (l.zipIdx k).map Prod.fst = l := by
  induction l with
  | nil => intro k; rfl
  | cons x t ih => intro k; simp [List.zipIdx_cons, ih]

theorem mem_zipIdx_get (l : List Nat) (j : Nat) (h : j < l.length) : (l[j], j) ∈ l.zipIdx := by
  rw [List.mem_zipIdx_iff_getElem?]
  simp [h]

/-- slot `perm[j]` of `bitstream_to_original` holds `j` -/
theorem invPerm_spec (perm : List Nat) (hnd : perm.Nodup) (hb : ∀ x ∈ perm, x < perm.length)
    (j : Nat) (hj : j < perm.length) : (invPerm perm)[perm[j]]? = some j := by
  unfold invPerm
  have := fillInv_mem perm.zipIdx (Array.replicate perm.length 0) perm[j] j
    (by rw [zipIdx_map_fst]; exact hnd) (mem_zipIdx_get perm j hj)
    (by simpa using hb _ (List.getElem_mem hj))
  simpa [fillInv] using this

/-! ## TOC: a valid Lehmer code decodes to a permutation -/

theorem cons_eraseIdx_perm (l : List Nat) : ∀ i (h : i < l.length), (l[i] :: l.eraseIdx i).Perm l := by
  induction l with
  | nil => intro i h; simp at h
  | cons x t ih =>
    intro i h
    cases i with
    | zero => simp
    | succ i =>
      simp only [List.getElem_cons_succ, List.eraseIdx_cons_succ]
      have := ih i (by simpa using h)
      exact (List.Perm.swap _ _ _).trans (List.Perm.cons x this)

theorem lehmerGo_perm : ∀ (lehmer temp : List Nat), lehmerValid temp.length lehmer = true →
    (lehmerGo temp lehmer).Perm temp := by
  intro lehmer
  induction lehmer with
  | nil => intro temp _; exact List.Perm.refl _
  | cons i r ih =>
    intro temp h
    simp only [lehmerValid, Bool.and_eq_true, decide_eq_true_eq] at h
    simp only [lehmerGo]
    have hlen : (temp.eraseIdx i).length = temp.length - 1 := by
      rw [List.length_eraseIdx]; simp [h.1]
    have := ih (temp.eraseIdx i) (by rw [hlen]; exact h.2)
    have e : temp.getD i 0 = temp[i] := by simp [List.getD, h.1]
    rw [e]
    exact (List.Perm.cons _ this).trans (cons_eraseIdx_perm temp i h.1)

theorem lehmerToPerm_perm (size : Nat) (lehmer : List Nat) (h : lehmerValid size lehmer = true) :
    (lehmerToPerm size lehmer).Perm (List.range size) := by
  unfold lehmerToPerm
  exact lehmerGo_perm lehmer (List.range size) (by simpa using h)

/-! ## TOC with a permutation: writer → parser, given the entropy coder's round trip -/

theorem allCanon_sizes (sc : Env) (sizes : List Nat) :
    allCanon (canonicalTy sc tocSizeTy) (sizes.map Val.nat) = true := by
  induction sizes with
  | nil => rfl
  | cons x r ih => simp [allCanon, canonicalTy_nat, ih]

theorem tocHead_canonical (k : Nat) (b : Bool) : canonicalFields [("entry_count", .nat k)] tocHead []
    [("_count_ok", .unit), ("permuted", .bool b)] = true := rfl

theorem tocTail_canonical (k : Nat) (sizes : List Nat) : canonicalFields [("entry_count", .nat k)] tocTail []
    [("_pad0", .unit), ("sizes", .list (sizes.map .nat)), ("_pad1", .unit)] = true := by
  simp [canonicalFields, tocTail, Parts.always, Parts.tt, evalBool, eval, canonicalTy,
    allCanon_sizes _ sizes]

theorem map_nat!_map_nat (l : List Nat) : (l.map Val.nat).map Val.nat! = l := by
  induction l with
  | nil => rfl
  | cons x r ih => simp [Val.nat!, ih]

theorem parseToc_writeToc_permuted (dec : PermDecoder) (ch : Nat → Nat) (pos g l : Nat)
    (sizes lehmer : List Nat) (enc bits rest : Bits)
    (hdec : ∀ r, dec sizes.length (enc ++ r) = .ok (lehmer, r))
    (hw : writeToc ch pos sizes (some enc) = some bits) :
    parseToc dec (pos + (bits ++ rest).length) g l sizes.length (bits ++ rest) =
      .ok ({ entryCount := sizes.length, numLfGroups := l, numGroups := g, permuted := true,
             perm := lehmerToPerm sizes.length lehmer, sizes := sizes,
             base := (pos + bits.length) / 8 }, rest) := by
  unfold writeToc at hw
  simp only [Option.isSome_some, Option.getD_some] at hw
  cases hh : writeFields ch [("entry_count", .nat sizes.length)] tocHead [] pos
      [("_count_ok", .unit), ("permuted", .bool true)] with
  | none => simp [hh] at hw
  | some hb =>
    rw [hh] at hw
    simp only at hw
    cases ht : writeFields ch [("entry_count", .nat sizes.length)] tocTail []
        (pos + hb.length + enc.length)
        [("_pad0", .unit), ("sizes", .list (sizes.map .nat)), ("_pad1", .unit)] with
    | none => simp [ht] at hw
    | some tb =>
      rw [ht] at hw
      simp only [Option.some.injEq] at hw
      subst hw
      have hhead := parseFields_writeFields ch tocHead [("entry_count", .nat sizes.length)] [] pos
        _ hb (enc ++ (tb ++ rest)) (pos + (hb ++ enc ++ tb ++ rest).length)
        (tocHead_canonical sizes.length true) hh (by simp [List.length_append]; omega)
      have htail := parseFields_writeFields ch tocTail [("entry_count", .nat sizes.length)] []
        (pos + hb.length + enc.length) _ tb rest (pos + (hb ++ enc ++ tb ++ rest).length)
        (tocTail_canonical sizes.length sizes) ht (by simp [List.length_append]; omega)
      have e1 : hb ++ enc ++ tb ++ rest = hb ++ (enc ++ (tb ++ rest)) := by simp
      unfold parseToc
      simp only
      rw [e1] at hhead htail ⊢
      rw [hhead]
      simp only [List.nil_append]
      have hp : ((Val.record [("_count_ok", Val.unit), ("permuted", Val.bool true)]).get "permuted").bool! = true := by
        decide
      simp only [hp, if_true, hdec, htail, List.nil_append]
      have hs : ((Val.record [("_pad0", Val.unit), ("sizes", Val.list (sizes.map Val.nat)), ("_pad1", Val.unit)]).get "sizes").list! = sizes.map Val.nat := by
        simp [Val.get, Env.get?, Val.list!]
      rw [hs, map_nat!_map_nat]
      congr 3
      simp [List.length_append]; omega

/-! ### the hand-made trivial code satisfies the coder hypothesis on a concrete stream

`demoPermBits` is what `trivialPermWrite 5 [0, 1, 2, 3] [3, 0, 2]` writes (alphabet of 5, simple
prefix code with the four symbols 0..3 of length 2, then `end = 3` and the Lehmer digits 3, 0, 2);
`trivialPermDecoder` reads it back whatever follows. -/

def demoPermBits : Bits := [false, true, false, false, true, true, true, true, true, true, false, true, false, false, false, false, true,
 false, true, true, false, false, false, true, false, false, false, true, false, true, true, false, false, true, true,
 true, true, false, false, true, false]

theorem demoPermBits_eq : trivialPermWrite 5 [0, 1, 2, 3] [3, 0, 2] = some demoPermBits := by decide

theorem trivialPermDecoder_demo (r : Bits) : trivialPermDecoder 5 (demoPermBits ++ r) = .ok ([3, 0, 2], r) := by
  simp [demoPermBits, trivialPermDecoder, trivialPermDecoder.go, rd, takeBits, ofBits, parseN, log2Ceil, trivialReadSymbol,
    sortNat, Val.nat!, show Nat.log2 4 = 2 by decide]

end Jxl.Headers
